#!/venv/bin/python
"""
Differential check: run the same inputs through the code of two source trees
and compare every observable result.

usage: equiv.py <treeA> <treeB>      exit 0 = all results agree, 1 = differ

Refactoring C03/i: the n,PCR / label,PCR arms of IndexedOperand.translate and ExtendedIndexedOperand.translate are inverted (plain number first) and
express the 8/16-bit choice as wide = 0/1 (size += 1 + wide, post-byte 0x8C | wide, choices [0x8C, 0x8C + 1]); RelativeOperand checks the
instruction before the base constructor runs and builds its package from named locals.
Inputs: direct translate() calls of both indexed operand classes for ~45 PCR offsets (numbers of every spelling and width, symbols, labels,
expressions) with and without symbol resolution on three instructions; RelativeOperand(...) for every mnemonic of the table x 12 targets;
programs with branches and PCR operands in both directions; CLI listings; every mnemonic x ~150 operand forms.
"""
import hashlib
import json
import os
import subprocess
import sys
import tempfile

# --------------------------------------------------------------------------
# inputs
# --------------------------------------------------------------------------

# Operand forms put behind every mnemonic of the instruction table.
OPERAND_FORMS = [
    "", "#$12", "#$1234", "#V8", "#V16", "#-1", "#-200", "#'A", "#%10101010", "#TARGET",
    "$12", "$1234", "<$12", ">$12", "<$1234", ">$1234", "V8", "V16", "<V16", ">V8",
    "TARGET", "START", "200", "255", "256", "300", "-5", "%00001111", "%0000111100001111",
    "[$1234]", "[$12]", "[TARGET]", "[V16]", "[V8]",
    ",X", ",Y", ",U", ",S", "0,X", "-0,X", "1,X", "15,Y", "16,U", "-16,S", "-17,X", "127,X", "128,X",
    "-128,Y", "-129,Y", "$10,X", "$0010,X", "$1000,X", "32767,X", "-32768,X", "65535,X",
    "A,X", "B,Y", "D,U", "A,S", ",X+", ",X++", ",-Y", ",--Y", ",S+", ",--U",
    "[,X]", "[,Y]", "[,X++]", "[,--S]", "[,X+]", "[,-X]", "[A,X]", "[B,Y]", "[D,S]",
    "[0,X]", "[5,X]", "[-5,X]", "[127,X]", "[128,X]", "[-128,X]", "[-129,X]", "[$1000,U]", "[$10,U]",
    "5,PCR", "$12,PCR", "$1234,PCR", "-3,PCR", "TARGET,PCR", "START,PCR", "TARGET+2,PCR", "FAR,PCR",
    "[TARGET,PCR]", "[5,PCR]", "[$1234,PCR]", "[FAR,PCR]", "[TARGET-1,PCR]",
    "V8,X", "V16,X", "TARGET,X", "V8+1,X", "[V8,X]", "[V16,Y]",
    "V8+1", "V16-V8", "TARGET+1", "TARGET-V8", "V8*2", "V16/2", "#V8+1", "#TARGET+1", "$10+$20", "5+5",
    "A,B", "X,Y", "D,X", "CC,DP", "PC,S", "B,A", "DP,CC", "Y,PC", "A,B,X", "U", "S", "Z,X", "A", "Q",
    "X,Y,U,S,PC,CC,DP,A,B", "D,X,Y", "CC", "PC,U,Y,X,DP,B,A,CC", "A,A",
    "\"AB\"", "/hello/", "1,2,3", "$1234,$5678", "-1,-2", "10", "0", "65535", "65536", "-32768", "-32769",
    "$12345", "%101", "'A", "NOSUCH", "NOSUCH,X", "#NOSUCH", "X+,Y", "1,X+", "foo bar",
]

CORPUS_TEMPLATE = [
    "        ORG   $0E00",
    "V8      EQU   $12",
    "V16     EQU   $1234",
    "START   {mnemonic} {operand}",
    "        NOP",
    "TARGET  NOP",
    "        RMB   200",
    "FAR     RTS",
]

# Hand written programs: (name, [source lines])
CASES = [
    ('mix 0',
     [' ORG $1000',
      'V EQU 5',
      'A LEAX D,PCR',
      ' BRA D',
      ' LDA V,PCR',
      ' LDA [300,PCR]',
      ' LDD [A,PCR]',
      ' RMB 0',
      ' LEAX $12,PCR',
      ' LEAX $0012,PCR',
      'D BRA A',
      ' LBRA A',
      ' LEAY A,PCR',
      ' LEAY D+1,PCR',
      'E LDX #E']),
    ('mix 100',
     [' ORG $1000',
      'V EQU 5',
      'A LEAX D,PCR',
      ' BRA D',
      ' LDA V,PCR',
      ' LDA [300,PCR]',
      ' LDD [A,PCR]',
      ' RMB 100',
      ' LEAX $12,PCR',
      ' LEAX $0012,PCR',
      'D BRA A',
      ' LBRA A',
      ' LEAY A,PCR',
      ' LEAY D+1,PCR',
      'E LDX #E']),
    ('mix 120',
     [' ORG $1000',
      'V EQU 5',
      'A LEAX D,PCR',
      ' BRA D',
      ' LDA V,PCR',
      ' LDA [300,PCR]',
      ' LDD [A,PCR]',
      ' RMB 120',
      ' LEAX $12,PCR',
      ' LEAX $0012,PCR',
      'D BRA A',
      ' LBRA A',
      ' LEAY A,PCR',
      ' LEAY D+1,PCR',
      'E LDX #E']),
    ('mix 121',
     [' ORG $1000',
      'V EQU 5',
      'A LEAX D,PCR',
      ' BRA D',
      ' LDA V,PCR',
      ' LDA [300,PCR]',
      ' LDD [A,PCR]',
      ' RMB 121',
      ' LEAX $12,PCR',
      ' LEAX $0012,PCR',
      'D BRA A',
      ' LBRA A',
      ' LEAY A,PCR',
      ' LEAY D+1,PCR',
      'E LDX #E']),
    ('mix 122',
     [' ORG $1000',
      'V EQU 5',
      'A LEAX D,PCR',
      ' BRA D',
      ' LDA V,PCR',
      ' LDA [300,PCR]',
      ' LDD [A,PCR]',
      ' RMB 122',
      ' LEAX $12,PCR',
      ' LEAX $0012,PCR',
      'D BRA A',
      ' LBRA A',
      ' LEAY A,PCR',
      ' LEAY D+1,PCR',
      'E LDX #E']),
    ('mix 123',
     [' ORG $1000',
      'V EQU 5',
      'A LEAX D,PCR',
      ' BRA D',
      ' LDA V,PCR',
      ' LDA [300,PCR]',
      ' LDD [A,PCR]',
      ' RMB 123',
      ' LEAX $12,PCR',
      ' LEAX $0012,PCR',
      'D BRA A',
      ' LBRA A',
      ' LEAY A,PCR',
      ' LEAY D+1,PCR',
      'E LDX #E']),
    ('mix 124',
     [' ORG $1000',
      'V EQU 5',
      'A LEAX D,PCR',
      ' BRA D',
      ' LDA V,PCR',
      ' LDA [300,PCR]',
      ' LDD [A,PCR]',
      ' RMB 124',
      ' LEAX $12,PCR',
      ' LEAX $0012,PCR',
      'D BRA A',
      ' LBRA A',
      ' LEAY A,PCR',
      ' LEAY D+1,PCR',
      'E LDX #E']),
    ('mix 125',
     [' ORG $1000',
      'V EQU 5',
      'A LEAX D,PCR',
      ' BRA D',
      ' LDA V,PCR',
      ' LDA [300,PCR]',
      ' LDD [A,PCR]',
      ' RMB 125',
      ' LEAX $12,PCR',
      ' LEAX $0012,PCR',
      'D BRA A',
      ' LBRA A',
      ' LEAY A,PCR',
      ' LEAY D+1,PCR',
      'E LDX #E']),
    ('mix 126',
     [' ORG $1000',
      'V EQU 5',
      'A LEAX D,PCR',
      ' BRA D',
      ' LDA V,PCR',
      ' LDA [300,PCR]',
      ' LDD [A,PCR]',
      ' RMB 126',
      ' LEAX $12,PCR',
      ' LEAX $0012,PCR',
      'D BRA A',
      ' LBRA A',
      ' LEAY A,PCR',
      ' LEAY D+1,PCR',
      'E LDX #E']),
    ('mix 127',
     [' ORG $1000',
      'V EQU 5',
      'A LEAX D,PCR',
      ' BRA D',
      ' LDA V,PCR',
      ' LDA [300,PCR]',
      ' LDD [A,PCR]',
      ' RMB 127',
      ' LEAX $12,PCR',
      ' LEAX $0012,PCR',
      'D BRA A',
      ' LBRA A',
      ' LEAY A,PCR',
      ' LEAY D+1,PCR',
      'E LDX #E']),
    ('mix 128',
     [' ORG $1000',
      'V EQU 5',
      'A LEAX D,PCR',
      ' BRA D',
      ' LDA V,PCR',
      ' LDA [300,PCR]',
      ' LDD [A,PCR]',
      ' RMB 128',
      ' LEAX $12,PCR',
      ' LEAX $0012,PCR',
      'D BRA A',
      ' LBRA A',
      ' LEAY A,PCR',
      ' LEAY D+1,PCR',
      'E LDX #E']),
    ('mix 129',
     [' ORG $1000',
      'V EQU 5',
      'A LEAX D,PCR',
      ' BRA D',
      ' LDA V,PCR',
      ' LDA [300,PCR]',
      ' LDD [A,PCR]',
      ' RMB 129',
      ' LEAX $12,PCR',
      ' LEAX $0012,PCR',
      'D BRA A',
      ' LBRA A',
      ' LEAY A,PCR',
      ' LEAY D+1,PCR',
      'E LDX #E']),
    ('mix 300',
     [' ORG $1000',
      'V EQU 5',
      'A LEAX D,PCR',
      ' BRA D',
      ' LDA V,PCR',
      ' LDA [300,PCR]',
      ' LDD [A,PCR]',
      ' RMB 300',
      ' LEAX $12,PCR',
      ' LEAX $0012,PCR',
      'D BRA A',
      ' LBRA A',
      ' LEAY A,PCR',
      ' LEAY D+1,PCR',
      'E LDX #E']),
    ('pcr numbers',
     [' LEAX 0,PCR',
      ' LEAX 5,PCR',
      ' LEAX -5,PCR',
      ' LEAX 127,PCR',
      ' LEAX 128,PCR',
      ' LEAX 255,PCR',
      ' LEAX 256,PCR',
      ' LEAX $12,PCR',
      ' LEAX $1234,PCR',
      ' LEAX %00000001,PCR',
      ' LEAX %0000000000000001,PCR',
      ' LDA [5,PCR]',
      ' LDA [$1234,PCR]',
      ' LDA [-5,PCR]']),
    ('pcr increments', [' LEAX 5,PCR+']),
    ('pcr lower', [' LEAX 5,pcr']),
    ('pc not pcr', [' LEAX 5,PC']),
    ('mixed program',
     ['        NAM   MIXED',
      '        ORG   $3F00',
      'SCREEN  EQU   $0400',
      'COUNT   EQU   32',
      'BEGIN   LDX   #SCREEN',
      '        LDA   #COUNT',
      'LOOP    STA   ,X+',
      '        DECA',
      '        BNE   LOOP',
      '        LDD   TABLE,PCR',
      '        LEAX  TABLE,PCR',
      '        LDY   [VECTOR]',
      '        JSR   SUB',
      '        LBRA  DONE',
      'SUB     PSHS  A,B,X',
      '        TFR   X,Y',
      '        EXG   A,B',
      '        LDA   5,X',
      '        LDB   -5,Y',
      '        STD   200,U',
      '        STD   -200,S',
      '        LDA   [10,X]',
      '        LDD   [D,Y]',
      '        PULS  A,B,X,PC',
      'TABLE   FCB   1,2,3,$FF',
      '        FDB   $1234,$5678',
      '        FDB   BEGIN',
      'VECTOR  FDB   $A000',
      'MSG     FCC   /HELLO, WORLD/',
      'BUF     RMB   4',
      'DONE    RTS',
      '        END   BEGIN']),
    ('branches forward and backward',
     ['        ORG   $1000',
      'TOP     NOP',
      '        BRA   TOP',
      '        BEQ   DOWN',
      '        LBNE  TOP',
      '        LBSR  DOWN',
      '        BSR   TOP',
      '        RMB   100',
      'DOWN    RTS']),
    ('short branch too far forward', ['A BRA B', ' RMB 128', 'B RTS']),
    ('short branch just reaching forward', ['A BRA B', ' RMB 127', 'B RTS']),
    ('short branch too far back', ['A NOP', ' RMB 126', ' BRA A']),
    ('short branch just reaching back', ['A NOP', ' RMB 125', ' BRA A']),
    ('pcr sizes near the boundary',
     ['        ORG   $2000',
      'S       LEAX  NEAR,PCR',
      '        LEAY  FARX,PCR',
      '        LDA   [NEAR,PCR]',
      '        LDD   NEAR+1,PCR',
      '        RMB   110',
      'NEAR    NOP',
      '        RMB   300',
      'FARX    NOP',
      '        LEAX  S,PCR',
      '        LEAX  NEAR,PCR']),
    ('pcr backwards boundary', [' ORG $100', 'L NOP', ' RMB 121', ' LEAX L,PCR', ' LEAX L,PCR', ' LEAX L,PCR']),
    ('equ forward reference',
     [' LDA #LATER', ' LDB LATER', ' LDX #BIG', 'LATER EQU 7', 'BIG EQU $1234', ' STA BIG']),
    ('expressions',
     ['        ORG   $4000',
      'BASE    EQU   $1000',
      'STEP    EQU   3',
      '        LDX   #BASE+STEP',
      '        LDA   #STEP*2',
      '        LDD   BASE/STEP',
      '        LDX   #HERE+2',
      '        LDX   #HERE-BASE',
      '        LDA   BASE-1',
      'HERE    LDA   STEP+4,X',
      '        JMP   HERE+1',
      '        FDB   HERE']),
    ('division by zero', ['Z EQU 0', ' LDA #4/Z']),
    ('undefined symbol', [' LDA MISSING']),
    ('undefined symbol in expression', [' LDA #MISSING+1']),
    ('duplicate label', ['A NOP', 'A NOP']),
    ('duplicate equ', ['A EQU 1', 'A EQU 2']),
    ('label defined after equ of same name', ['A EQU 1', 'A NOP']),
    ('bad mnemonic', [' FROB 1']),
    ('unparsable line', ['@@@ !!!']),
    ('org twice', [' ORG $100', ' NOP', ' ORG $200', 'X NOP', ' JMP X']),
    ('code before org', [' NOP', ' ORG $200', 'X NOP', ' JMP X']),
    ('no org', ['A LDA #1', ' JMP A']),
    ('data directives',
     ['        ORG   $10',
      '        FCB   1',
      "        FCB   $FF,255,-1,'A,%10101010",
      '        FDB   1',
      '        FDB   $FFFF,-1,65535,$12',
      '        FCC   "two words" trailing',
      '        FCC   /a;b/',
      '        RMB   3',
      '        RMB   0']),
    ('data directives 2',
     ['        FCB   -128',
      '        FDB   -32768',
      '        FCB   ,1,,2',
      "        FCC   'x'",
      'N       EQU   $10',
      '        RMB   N',
      '        FCB   N',
      '        FDB   N',
      '        SETDP $10',
      '        END']),
    ('fcb too big', [' FCB 256']),
    ('fcb list too big', [' FCB 1,256']),
    ('fdb too big', [' FDB 65536']),
    ('fcc unterminated', [' FCC /abc']),
    ('fcc empty', [' FCC']),
    ('rmb symbol undefined', [' RMB NOPE']),
    ('equ of label', ['A NOP', 'B EQU A', ' JMP B']),
    ('equ string-ish', ['S EQU X,Y', ' LDA S']),
    ('comments and blanks', ['; comment only', '', '   ', ' NOP ; trailing', 'L NOP', ' ; indented comment']),
    ('include missing', [' INCLUDE /nonexistent/file.asm']),
    ('nam and end', [' NAM PROG', ' ORG $E00', 'S RTS', ' END S']),
    ('inherent with operand', [' RTS 5']),
    ('operand missing', [' LDA']),
    ('immediate store', [' STA #5']),
    ('lea immediate', [' LEAX #5']),
    ('tfr mixed size', [' TFR A,X']),
    ('pshs own stack', [' PSHS S']),
    ('pshu own stack', [' PSHU U']),
    ('pshs empty', [' PSHS']),
    ('exg three', [' EXG A,B,X']),
    ('indexed auto with offset', [' LDA 1,X+']),
    ('indirect single auto', [' LDA [,X+]']),
    ('16 bit immediates',
     [' LDX #1',
      ' LDD #$12',
      ' CMPX #-1',
      ' LDS #%00000001',
      " LDU #'A",
      ' CMPY #300',
      ' ADDD #1',
      ' SUBD #$1234',
      ' CMPD #5',
      ' CMPS #5',
      ' CMPU #5',
      ' LDY #5']),
    ('8 bit immediates',
     [' LDA #1',
      ' LDB #$12',
      ' CMPA #-1',
      ' ANDCC #%11110000',
      ' ORCC #$50',
      " LDA #'z",
      ' LDA #255',
      ' LDA #256',
      ' LDA #$1234',
      ' CWAI #$FF']),
    ('direct and extended',
     [' LDA $12',
      ' LDA $0012',
      ' LDA <$0012',
      ' LDA >$12',
      ' LDA 18',
      ' LDA 300',
      ' JMP $12',
      ' JSR <$12',
      ' STA >$00',
      ' NEG $12',
      ' CLR <$FF',
      ' TST >$FF',
      ' LDA %00010010',
      ' LDA >%00010010',
      ' LDA <%0000000000010010']),
]

# Python expressions evaluated inside each tree (modules of the tree imported
# beforehand); the value - or the exception - is compared.
PROBES = [
    "IndexedOperand('0,PCR', MN['LEAX']).translate()",
    "ExtendedIndexedOperand('[0,PCR]', MN['LEAX']).translate()",
    ("IndexedOperand('0,PCR', MN['LEAX']).resolve_symbols({'V': NumericValue(5), 'W': NumericValue(300), 'L': "
     "AddressValue(1), 'M': AddressValue(7)}).translate()"),
    ("ExtendedIndexedOperand('[0,PCR]', MN['LEAX']).resolve_symbols({'V': NumericValue(5), 'W': "
     "NumericValue(300), 'L': AddressValue(1), 'M': AddressValue(7)}).translate()"),
    "IndexedOperand('0,PCR', MN['LDA']).translate()",
    "ExtendedIndexedOperand('[0,PCR]', MN['LDA']).translate()",
    ("IndexedOperand('0,PCR', MN['LDA']).resolve_symbols({'V': NumericValue(5), 'W': NumericValue(300), 'L': "
     "AddressValue(1), 'M': AddressValue(7)}).translate()"),
    ("ExtendedIndexedOperand('[0,PCR]', MN['LDA']).resolve_symbols({'V': NumericValue(5), 'W': "
     "NumericValue(300), 'L': AddressValue(1), 'M': AddressValue(7)}).translate()"),
    "IndexedOperand('0,PCR', MN['STD']).translate()",
    "ExtendedIndexedOperand('[0,PCR]', MN['STD']).translate()",
    ("IndexedOperand('0,PCR', MN['STD']).resolve_symbols({'V': NumericValue(5), 'W': NumericValue(300), 'L': "
     "AddressValue(1), 'M': AddressValue(7)}).translate()"),
    ("ExtendedIndexedOperand('[0,PCR]', MN['STD']).resolve_symbols({'V': NumericValue(5), 'W': "
     "NumericValue(300), 'L': AddressValue(1), 'M': AddressValue(7)}).translate()"),
    "IndexedOperand('1,PCR', MN['LEAX']).translate()",
    "ExtendedIndexedOperand('[1,PCR]', MN['LEAX']).translate()",
    ("IndexedOperand('1,PCR', MN['LEAX']).resolve_symbols({'V': NumericValue(5), 'W': NumericValue(300), 'L': "
     "AddressValue(1), 'M': AddressValue(7)}).translate()"),
    ("ExtendedIndexedOperand('[1,PCR]', MN['LEAX']).resolve_symbols({'V': NumericValue(5), 'W': "
     "NumericValue(300), 'L': AddressValue(1), 'M': AddressValue(7)}).translate()"),
    "IndexedOperand('1,PCR', MN['LDA']).translate()",
    "ExtendedIndexedOperand('[1,PCR]', MN['LDA']).translate()",
    ("IndexedOperand('1,PCR', MN['LDA']).resolve_symbols({'V': NumericValue(5), 'W': NumericValue(300), 'L': "
     "AddressValue(1), 'M': AddressValue(7)}).translate()"),
    ("ExtendedIndexedOperand('[1,PCR]', MN['LDA']).resolve_symbols({'V': NumericValue(5), 'W': "
     "NumericValue(300), 'L': AddressValue(1), 'M': AddressValue(7)}).translate()"),
    "IndexedOperand('1,PCR', MN['STD']).translate()",
    "ExtendedIndexedOperand('[1,PCR]', MN['STD']).translate()",
    ("IndexedOperand('1,PCR', MN['STD']).resolve_symbols({'V': NumericValue(5), 'W': NumericValue(300), 'L': "
     "AddressValue(1), 'M': AddressValue(7)}).translate()"),
    ("ExtendedIndexedOperand('[1,PCR]', MN['STD']).resolve_symbols({'V': NumericValue(5), 'W': "
     "NumericValue(300), 'L': AddressValue(1), 'M': AddressValue(7)}).translate()"),
    "IndexedOperand('5,PCR', MN['LEAX']).translate()",
    "ExtendedIndexedOperand('[5,PCR]', MN['LEAX']).translate()",
    ("IndexedOperand('5,PCR', MN['LEAX']).resolve_symbols({'V': NumericValue(5), 'W': NumericValue(300), 'L': "
     "AddressValue(1), 'M': AddressValue(7)}).translate()"),
    ("ExtendedIndexedOperand('[5,PCR]', MN['LEAX']).resolve_symbols({'V': NumericValue(5), 'W': "
     "NumericValue(300), 'L': AddressValue(1), 'M': AddressValue(7)}).translate()"),
    "IndexedOperand('5,PCR', MN['LDA']).translate()",
    "ExtendedIndexedOperand('[5,PCR]', MN['LDA']).translate()",
    ("IndexedOperand('5,PCR', MN['LDA']).resolve_symbols({'V': NumericValue(5), 'W': NumericValue(300), 'L': "
     "AddressValue(1), 'M': AddressValue(7)}).translate()"),
    ("ExtendedIndexedOperand('[5,PCR]', MN['LDA']).resolve_symbols({'V': NumericValue(5), 'W': "
     "NumericValue(300), 'L': AddressValue(1), 'M': AddressValue(7)}).translate()"),
    "IndexedOperand('5,PCR', MN['STD']).translate()",
    "ExtendedIndexedOperand('[5,PCR]', MN['STD']).translate()",
    ("IndexedOperand('5,PCR', MN['STD']).resolve_symbols({'V': NumericValue(5), 'W': NumericValue(300), 'L': "
     "AddressValue(1), 'M': AddressValue(7)}).translate()"),
    ("ExtendedIndexedOperand('[5,PCR]', MN['STD']).resolve_symbols({'V': NumericValue(5), 'W': "
     "NumericValue(300), 'L': AddressValue(1), 'M': AddressValue(7)}).translate()"),
    "IndexedOperand('-5,PCR', MN['LEAX']).translate()",
    "ExtendedIndexedOperand('[-5,PCR]', MN['LEAX']).translate()",
    ("IndexedOperand('-5,PCR', MN['LEAX']).resolve_symbols({'V': NumericValue(5), 'W': NumericValue(300), 'L': "
     "AddressValue(1), 'M': AddressValue(7)}).translate()"),
    ("ExtendedIndexedOperand('[-5,PCR]', MN['LEAX']).resolve_symbols({'V': NumericValue(5), 'W': "
     "NumericValue(300), 'L': AddressValue(1), 'M': AddressValue(7)}).translate()"),
    "IndexedOperand('-5,PCR', MN['LDA']).translate()",
    "ExtendedIndexedOperand('[-5,PCR]', MN['LDA']).translate()",
    ("IndexedOperand('-5,PCR', MN['LDA']).resolve_symbols({'V': NumericValue(5), 'W': NumericValue(300), 'L': "
     "AddressValue(1), 'M': AddressValue(7)}).translate()"),
    ("ExtendedIndexedOperand('[-5,PCR]', MN['LDA']).resolve_symbols({'V': NumericValue(5), 'W': "
     "NumericValue(300), 'L': AddressValue(1), 'M': AddressValue(7)}).translate()"),
    "IndexedOperand('-5,PCR', MN['STD']).translate()",
    "ExtendedIndexedOperand('[-5,PCR]', MN['STD']).translate()",
    ("IndexedOperand('-5,PCR', MN['STD']).resolve_symbols({'V': NumericValue(5), 'W': NumericValue(300), 'L': "
     "AddressValue(1), 'M': AddressValue(7)}).translate()"),
    ("ExtendedIndexedOperand('[-5,PCR]', MN['STD']).resolve_symbols({'V': NumericValue(5), 'W': "
     "NumericValue(300), 'L': AddressValue(1), 'M': AddressValue(7)}).translate()"),
    "IndexedOperand('127,PCR', MN['LEAX']).translate()",
    "ExtendedIndexedOperand('[127,PCR]', MN['LEAX']).translate()",
    ("IndexedOperand('127,PCR', MN['LEAX']).resolve_symbols({'V': NumericValue(5), 'W': NumericValue(300), 'L': "
     "AddressValue(1), 'M': AddressValue(7)}).translate()"),
    ("ExtendedIndexedOperand('[127,PCR]', MN['LEAX']).resolve_symbols({'V': NumericValue(5), 'W': "
     "NumericValue(300), 'L': AddressValue(1), 'M': AddressValue(7)}).translate()"),
    "IndexedOperand('127,PCR', MN['LDA']).translate()",
    "ExtendedIndexedOperand('[127,PCR]', MN['LDA']).translate()",
    ("IndexedOperand('127,PCR', MN['LDA']).resolve_symbols({'V': NumericValue(5), 'W': NumericValue(300), 'L': "
     "AddressValue(1), 'M': AddressValue(7)}).translate()"),
    ("ExtendedIndexedOperand('[127,PCR]', MN['LDA']).resolve_symbols({'V': NumericValue(5), 'W': "
     "NumericValue(300), 'L': AddressValue(1), 'M': AddressValue(7)}).translate()"),
    "IndexedOperand('127,PCR', MN['STD']).translate()",
    "ExtendedIndexedOperand('[127,PCR]', MN['STD']).translate()",
    ("IndexedOperand('127,PCR', MN['STD']).resolve_symbols({'V': NumericValue(5), 'W': NumericValue(300), 'L': "
     "AddressValue(1), 'M': AddressValue(7)}).translate()"),
    ("ExtendedIndexedOperand('[127,PCR]', MN['STD']).resolve_symbols({'V': NumericValue(5), 'W': "
     "NumericValue(300), 'L': AddressValue(1), 'M': AddressValue(7)}).translate()"),
    "IndexedOperand('128,PCR', MN['LEAX']).translate()",
    "ExtendedIndexedOperand('[128,PCR]', MN['LEAX']).translate()",
    ("IndexedOperand('128,PCR', MN['LEAX']).resolve_symbols({'V': NumericValue(5), 'W': NumericValue(300), 'L': "
     "AddressValue(1), 'M': AddressValue(7)}).translate()"),
    ("ExtendedIndexedOperand('[128,PCR]', MN['LEAX']).resolve_symbols({'V': NumericValue(5), 'W': "
     "NumericValue(300), 'L': AddressValue(1), 'M': AddressValue(7)}).translate()"),
    "IndexedOperand('128,PCR', MN['LDA']).translate()",
    "ExtendedIndexedOperand('[128,PCR]', MN['LDA']).translate()",
    ("IndexedOperand('128,PCR', MN['LDA']).resolve_symbols({'V': NumericValue(5), 'W': NumericValue(300), 'L': "
     "AddressValue(1), 'M': AddressValue(7)}).translate()"),
    ("ExtendedIndexedOperand('[128,PCR]', MN['LDA']).resolve_symbols({'V': NumericValue(5), 'W': "
     "NumericValue(300), 'L': AddressValue(1), 'M': AddressValue(7)}).translate()"),
    "IndexedOperand('128,PCR', MN['STD']).translate()",
    "ExtendedIndexedOperand('[128,PCR]', MN['STD']).translate()",
    ("IndexedOperand('128,PCR', MN['STD']).resolve_symbols({'V': NumericValue(5), 'W': NumericValue(300), 'L': "
     "AddressValue(1), 'M': AddressValue(7)}).translate()"),
    ("ExtendedIndexedOperand('[128,PCR]', MN['STD']).resolve_symbols({'V': NumericValue(5), 'W': "
     "NumericValue(300), 'L': AddressValue(1), 'M': AddressValue(7)}).translate()"),
    "IndexedOperand('-128,PCR', MN['LEAX']).translate()",
    "ExtendedIndexedOperand('[-128,PCR]', MN['LEAX']).translate()",
    ("IndexedOperand('-128,PCR', MN['LEAX']).resolve_symbols({'V': NumericValue(5), 'W': NumericValue(300), 'L': "
     "AddressValue(1), 'M': AddressValue(7)}).translate()"),
    ("ExtendedIndexedOperand('[-128,PCR]', MN['LEAX']).resolve_symbols({'V': NumericValue(5), 'W': "
     "NumericValue(300), 'L': AddressValue(1), 'M': AddressValue(7)}).translate()"),
    "IndexedOperand('-128,PCR', MN['LDA']).translate()",
    "ExtendedIndexedOperand('[-128,PCR]', MN['LDA']).translate()",
    ("IndexedOperand('-128,PCR', MN['LDA']).resolve_symbols({'V': NumericValue(5), 'W': NumericValue(300), 'L': "
     "AddressValue(1), 'M': AddressValue(7)}).translate()"),
    ("ExtendedIndexedOperand('[-128,PCR]', MN['LDA']).resolve_symbols({'V': NumericValue(5), 'W': "
     "NumericValue(300), 'L': AddressValue(1), 'M': AddressValue(7)}).translate()"),
    "IndexedOperand('-128,PCR', MN['STD']).translate()",
    "ExtendedIndexedOperand('[-128,PCR]', MN['STD']).translate()",
    ("IndexedOperand('-128,PCR', MN['STD']).resolve_symbols({'V': NumericValue(5), 'W': NumericValue(300), 'L': "
     "AddressValue(1), 'M': AddressValue(7)}).translate()"),
    ("ExtendedIndexedOperand('[-128,PCR]', MN['STD']).resolve_symbols({'V': NumericValue(5), 'W': "
     "NumericValue(300), 'L': AddressValue(1), 'M': AddressValue(7)}).translate()"),
    "IndexedOperand('-129,PCR', MN['LEAX']).translate()",
    "ExtendedIndexedOperand('[-129,PCR]', MN['LEAX']).translate()",
    ("IndexedOperand('-129,PCR', MN['LEAX']).resolve_symbols({'V': NumericValue(5), 'W': NumericValue(300), 'L': "
     "AddressValue(1), 'M': AddressValue(7)}).translate()"),
    ("ExtendedIndexedOperand('[-129,PCR]', MN['LEAX']).resolve_symbols({'V': NumericValue(5), 'W': "
     "NumericValue(300), 'L': AddressValue(1), 'M': AddressValue(7)}).translate()"),
    "IndexedOperand('-129,PCR', MN['LDA']).translate()",
    "ExtendedIndexedOperand('[-129,PCR]', MN['LDA']).translate()",
    ("IndexedOperand('-129,PCR', MN['LDA']).resolve_symbols({'V': NumericValue(5), 'W': NumericValue(300), 'L': "
     "AddressValue(1), 'M': AddressValue(7)}).translate()"),
    ("ExtendedIndexedOperand('[-129,PCR]', MN['LDA']).resolve_symbols({'V': NumericValue(5), 'W': "
     "NumericValue(300), 'L': AddressValue(1), 'M': AddressValue(7)}).translate()"),
    "IndexedOperand('-129,PCR', MN['STD']).translate()",
    "ExtendedIndexedOperand('[-129,PCR]', MN['STD']).translate()",
    ("IndexedOperand('-129,PCR', MN['STD']).resolve_symbols({'V': NumericValue(5), 'W': NumericValue(300), 'L': "
     "AddressValue(1), 'M': AddressValue(7)}).translate()"),
    ("ExtendedIndexedOperand('[-129,PCR]', MN['STD']).resolve_symbols({'V': NumericValue(5), 'W': "
     "NumericValue(300), 'L': AddressValue(1), 'M': AddressValue(7)}).translate()"),
    "IndexedOperand('255,PCR', MN['LEAX']).translate()",
    "ExtendedIndexedOperand('[255,PCR]', MN['LEAX']).translate()",
    ("IndexedOperand('255,PCR', MN['LEAX']).resolve_symbols({'V': NumericValue(5), 'W': NumericValue(300), 'L': "
     "AddressValue(1), 'M': AddressValue(7)}).translate()"),
    ("ExtendedIndexedOperand('[255,PCR]', MN['LEAX']).resolve_symbols({'V': NumericValue(5), 'W': "
     "NumericValue(300), 'L': AddressValue(1), 'M': AddressValue(7)}).translate()"),
    "IndexedOperand('255,PCR', MN['LDA']).translate()",
    "ExtendedIndexedOperand('[255,PCR]', MN['LDA']).translate()",
    ("IndexedOperand('255,PCR', MN['LDA']).resolve_symbols({'V': NumericValue(5), 'W': NumericValue(300), 'L': "
     "AddressValue(1), 'M': AddressValue(7)}).translate()"),
    ("ExtendedIndexedOperand('[255,PCR]', MN['LDA']).resolve_symbols({'V': NumericValue(5), 'W': "
     "NumericValue(300), 'L': AddressValue(1), 'M': AddressValue(7)}).translate()"),
    "IndexedOperand('255,PCR', MN['STD']).translate()",
    "ExtendedIndexedOperand('[255,PCR]', MN['STD']).translate()",
    ("IndexedOperand('255,PCR', MN['STD']).resolve_symbols({'V': NumericValue(5), 'W': NumericValue(300), 'L': "
     "AddressValue(1), 'M': AddressValue(7)}).translate()"),
    ("ExtendedIndexedOperand('[255,PCR]', MN['STD']).resolve_symbols({'V': NumericValue(5), 'W': "
     "NumericValue(300), 'L': AddressValue(1), 'M': AddressValue(7)}).translate()"),
    "IndexedOperand('256,PCR', MN['LEAX']).translate()",
    "ExtendedIndexedOperand('[256,PCR]', MN['LEAX']).translate()",
    ("IndexedOperand('256,PCR', MN['LEAX']).resolve_symbols({'V': NumericValue(5), 'W': NumericValue(300), 'L': "
     "AddressValue(1), 'M': AddressValue(7)}).translate()"),
    ("ExtendedIndexedOperand('[256,PCR]', MN['LEAX']).resolve_symbols({'V': NumericValue(5), 'W': "
     "NumericValue(300), 'L': AddressValue(1), 'M': AddressValue(7)}).translate()"),
    "IndexedOperand('256,PCR', MN['LDA']).translate()",
    "ExtendedIndexedOperand('[256,PCR]', MN['LDA']).translate()",
    ("IndexedOperand('256,PCR', MN['LDA']).resolve_symbols({'V': NumericValue(5), 'W': NumericValue(300), 'L': "
     "AddressValue(1), 'M': AddressValue(7)}).translate()"),
    ("ExtendedIndexedOperand('[256,PCR]', MN['LDA']).resolve_symbols({'V': NumericValue(5), 'W': "
     "NumericValue(300), 'L': AddressValue(1), 'M': AddressValue(7)}).translate()"),
    "IndexedOperand('256,PCR', MN['STD']).translate()",
    "ExtendedIndexedOperand('[256,PCR]', MN['STD']).translate()",
    ("IndexedOperand('256,PCR', MN['STD']).resolve_symbols({'V': NumericValue(5), 'W': NumericValue(300), 'L': "
     "AddressValue(1), 'M': AddressValue(7)}).translate()"),
    ("ExtendedIndexedOperand('[256,PCR]', MN['STD']).resolve_symbols({'V': NumericValue(5), 'W': "
     "NumericValue(300), 'L': AddressValue(1), 'M': AddressValue(7)}).translate()"),
    "IndexedOperand('300,PCR', MN['LEAX']).translate()",
    "ExtendedIndexedOperand('[300,PCR]', MN['LEAX']).translate()",
    ("IndexedOperand('300,PCR', MN['LEAX']).resolve_symbols({'V': NumericValue(5), 'W': NumericValue(300), 'L': "
     "AddressValue(1), 'M': AddressValue(7)}).translate()"),
    ("ExtendedIndexedOperand('[300,PCR]', MN['LEAX']).resolve_symbols({'V': NumericValue(5), 'W': "
     "NumericValue(300), 'L': AddressValue(1), 'M': AddressValue(7)}).translate()"),
    "IndexedOperand('300,PCR', MN['LDA']).translate()",
    "ExtendedIndexedOperand('[300,PCR]', MN['LDA']).translate()",
    ("IndexedOperand('300,PCR', MN['LDA']).resolve_symbols({'V': NumericValue(5), 'W': NumericValue(300), 'L': "
     "AddressValue(1), 'M': AddressValue(7)}).translate()"),
    ("ExtendedIndexedOperand('[300,PCR]', MN['LDA']).resolve_symbols({'V': NumericValue(5), 'W': "
     "NumericValue(300), 'L': AddressValue(1), 'M': AddressValue(7)}).translate()"),
    "IndexedOperand('300,PCR', MN['STD']).translate()",
    "ExtendedIndexedOperand('[300,PCR]', MN['STD']).translate()",
    ("IndexedOperand('300,PCR', MN['STD']).resolve_symbols({'V': NumericValue(5), 'W': NumericValue(300), 'L': "
     "AddressValue(1), 'M': AddressValue(7)}).translate()"),
    ("ExtendedIndexedOperand('[300,PCR]', MN['STD']).resolve_symbols({'V': NumericValue(5), 'W': "
     "NumericValue(300), 'L': AddressValue(1), 'M': AddressValue(7)}).translate()"),
    "IndexedOperand('-300,PCR', MN['LEAX']).translate()",
    "ExtendedIndexedOperand('[-300,PCR]', MN['LEAX']).translate()",
    ("IndexedOperand('-300,PCR', MN['LEAX']).resolve_symbols({'V': NumericValue(5), 'W': NumericValue(300), 'L': "
     "AddressValue(1), 'M': AddressValue(7)}).translate()"),
    ("ExtendedIndexedOperand('[-300,PCR]', MN['LEAX']).resolve_symbols({'V': NumericValue(5), 'W': "
     "NumericValue(300), 'L': AddressValue(1), 'M': AddressValue(7)}).translate()"),
    "IndexedOperand('-300,PCR', MN['LDA']).translate()",
    "ExtendedIndexedOperand('[-300,PCR]', MN['LDA']).translate()",
    ("IndexedOperand('-300,PCR', MN['LDA']).resolve_symbols({'V': NumericValue(5), 'W': NumericValue(300), 'L': "
     "AddressValue(1), 'M': AddressValue(7)}).translate()"),
    ("ExtendedIndexedOperand('[-300,PCR]', MN['LDA']).resolve_symbols({'V': NumericValue(5), 'W': "
     "NumericValue(300), 'L': AddressValue(1), 'M': AddressValue(7)}).translate()"),
    "IndexedOperand('-300,PCR', MN['STD']).translate()",
    "ExtendedIndexedOperand('[-300,PCR]', MN['STD']).translate()",
    ("IndexedOperand('-300,PCR', MN['STD']).resolve_symbols({'V': NumericValue(5), 'W': NumericValue(300), 'L': "
     "AddressValue(1), 'M': AddressValue(7)}).translate()"),
    ("ExtendedIndexedOperand('[-300,PCR]', MN['STD']).resolve_symbols({'V': NumericValue(5), 'W': "
     "NumericValue(300), 'L': AddressValue(1), 'M': AddressValue(7)}).translate()"),
    "IndexedOperand('$5,PCR', MN['LEAX']).translate()",
    "ExtendedIndexedOperand('[$5,PCR]', MN['LEAX']).translate()",
    ("IndexedOperand('$5,PCR', MN['LEAX']).resolve_symbols({'V': NumericValue(5), 'W': NumericValue(300), 'L': "
     "AddressValue(1), 'M': AddressValue(7)}).translate()"),
    ("ExtendedIndexedOperand('[$5,PCR]', MN['LEAX']).resolve_symbols({'V': NumericValue(5), 'W': "
     "NumericValue(300), 'L': AddressValue(1), 'M': AddressValue(7)}).translate()"),
    "IndexedOperand('$5,PCR', MN['LDA']).translate()",
    "ExtendedIndexedOperand('[$5,PCR]', MN['LDA']).translate()",
    ("IndexedOperand('$5,PCR', MN['LDA']).resolve_symbols({'V': NumericValue(5), 'W': NumericValue(300), 'L': "
     "AddressValue(1), 'M': AddressValue(7)}).translate()"),
    ("ExtendedIndexedOperand('[$5,PCR]', MN['LDA']).resolve_symbols({'V': NumericValue(5), 'W': "
     "NumericValue(300), 'L': AddressValue(1), 'M': AddressValue(7)}).translate()"),
    "IndexedOperand('$5,PCR', MN['STD']).translate()",
    "ExtendedIndexedOperand('[$5,PCR]', MN['STD']).translate()",
    ("IndexedOperand('$5,PCR', MN['STD']).resolve_symbols({'V': NumericValue(5), 'W': NumericValue(300), 'L': "
     "AddressValue(1), 'M': AddressValue(7)}).translate()"),
    ("ExtendedIndexedOperand('[$5,PCR]', MN['STD']).resolve_symbols({'V': NumericValue(5), 'W': "
     "NumericValue(300), 'L': AddressValue(1), 'M': AddressValue(7)}).translate()"),
    "IndexedOperand('$05,PCR', MN['LEAX']).translate()",
    "ExtendedIndexedOperand('[$05,PCR]', MN['LEAX']).translate()",
    ("IndexedOperand('$05,PCR', MN['LEAX']).resolve_symbols({'V': NumericValue(5), 'W': NumericValue(300), 'L': "
     "AddressValue(1), 'M': AddressValue(7)}).translate()"),
    ("ExtendedIndexedOperand('[$05,PCR]', MN['LEAX']).resolve_symbols({'V': NumericValue(5), 'W': "
     "NumericValue(300), 'L': AddressValue(1), 'M': AddressValue(7)}).translate()"),
    "IndexedOperand('$05,PCR', MN['LDA']).translate()",
    "ExtendedIndexedOperand('[$05,PCR]', MN['LDA']).translate()",
    ("IndexedOperand('$05,PCR', MN['LDA']).resolve_symbols({'V': NumericValue(5), 'W': NumericValue(300), 'L': "
     "AddressValue(1), 'M': AddressValue(7)}).translate()"),
    ("ExtendedIndexedOperand('[$05,PCR]', MN['LDA']).resolve_symbols({'V': NumericValue(5), 'W': "
     "NumericValue(300), 'L': AddressValue(1), 'M': AddressValue(7)}).translate()"),
    "IndexedOperand('$05,PCR', MN['STD']).translate()",
    "ExtendedIndexedOperand('[$05,PCR]', MN['STD']).translate()",
    ("IndexedOperand('$05,PCR', MN['STD']).resolve_symbols({'V': NumericValue(5), 'W': NumericValue(300), 'L': "
     "AddressValue(1), 'M': AddressValue(7)}).translate()"),
    ("ExtendedIndexedOperand('[$05,PCR]', MN['STD']).resolve_symbols({'V': NumericValue(5), 'W': "
     "NumericValue(300), 'L': AddressValue(1), 'M': AddressValue(7)}).translate()"),
    "IndexedOperand('$005,PCR', MN['LEAX']).translate()",
    "ExtendedIndexedOperand('[$005,PCR]', MN['LEAX']).translate()",
    ("IndexedOperand('$005,PCR', MN['LEAX']).resolve_symbols({'V': NumericValue(5), 'W': NumericValue(300), 'L': "
     "AddressValue(1), 'M': AddressValue(7)}).translate()"),
    ("ExtendedIndexedOperand('[$005,PCR]', MN['LEAX']).resolve_symbols({'V': NumericValue(5), 'W': "
     "NumericValue(300), 'L': AddressValue(1), 'M': AddressValue(7)}).translate()"),
    "IndexedOperand('$005,PCR', MN['LDA']).translate()",
    "ExtendedIndexedOperand('[$005,PCR]', MN['LDA']).translate()",
    ("IndexedOperand('$005,PCR', MN['LDA']).resolve_symbols({'V': NumericValue(5), 'W': NumericValue(300), 'L': "
     "AddressValue(1), 'M': AddressValue(7)}).translate()"),
    ("ExtendedIndexedOperand('[$005,PCR]', MN['LDA']).resolve_symbols({'V': NumericValue(5), 'W': "
     "NumericValue(300), 'L': AddressValue(1), 'M': AddressValue(7)}).translate()"),
    "IndexedOperand('$005,PCR', MN['STD']).translate()",
    "ExtendedIndexedOperand('[$005,PCR]', MN['STD']).translate()",
    ("IndexedOperand('$005,PCR', MN['STD']).resolve_symbols({'V': NumericValue(5), 'W': NumericValue(300), 'L': "
     "AddressValue(1), 'M': AddressValue(7)}).translate()"),
    ("ExtendedIndexedOperand('[$005,PCR]', MN['STD']).resolve_symbols({'V': NumericValue(5), 'W': "
     "NumericValue(300), 'L': AddressValue(1), 'M': AddressValue(7)}).translate()"),
    "IndexedOperand('$0005,PCR', MN['LEAX']).translate()",
    "ExtendedIndexedOperand('[$0005,PCR]', MN['LEAX']).translate()",
    ("IndexedOperand('$0005,PCR', MN['LEAX']).resolve_symbols({'V': NumericValue(5), 'W': NumericValue(300), "
     "'L': AddressValue(1), 'M': AddressValue(7)}).translate()"),
    ("ExtendedIndexedOperand('[$0005,PCR]', MN['LEAX']).resolve_symbols({'V': NumericValue(5), 'W': "
     "NumericValue(300), 'L': AddressValue(1), 'M': AddressValue(7)}).translate()"),
    "IndexedOperand('$0005,PCR', MN['LDA']).translate()",
    "ExtendedIndexedOperand('[$0005,PCR]', MN['LDA']).translate()",
    ("IndexedOperand('$0005,PCR', MN['LDA']).resolve_symbols({'V': NumericValue(5), 'W': NumericValue(300), 'L': "
     "AddressValue(1), 'M': AddressValue(7)}).translate()"),
    ("ExtendedIndexedOperand('[$0005,PCR]', MN['LDA']).resolve_symbols({'V': NumericValue(5), 'W': "
     "NumericValue(300), 'L': AddressValue(1), 'M': AddressValue(7)}).translate()"),
    "IndexedOperand('$0005,PCR', MN['STD']).translate()",
    "ExtendedIndexedOperand('[$0005,PCR]', MN['STD']).translate()",
    ("IndexedOperand('$0005,PCR', MN['STD']).resolve_symbols({'V': NumericValue(5), 'W': NumericValue(300), 'L': "
     "AddressValue(1), 'M': AddressValue(7)}).translate()"),
    ("ExtendedIndexedOperand('[$0005,PCR]', MN['STD']).resolve_symbols({'V': NumericValue(5), 'W': "
     "NumericValue(300), 'L': AddressValue(1), 'M': AddressValue(7)}).translate()"),
    "IndexedOperand('$7F,PCR', MN['LEAX']).translate()",
    "ExtendedIndexedOperand('[$7F,PCR]', MN['LEAX']).translate()",
    ("IndexedOperand('$7F,PCR', MN['LEAX']).resolve_symbols({'V': NumericValue(5), 'W': NumericValue(300), 'L': "
     "AddressValue(1), 'M': AddressValue(7)}).translate()"),
    ("ExtendedIndexedOperand('[$7F,PCR]', MN['LEAX']).resolve_symbols({'V': NumericValue(5), 'W': "
     "NumericValue(300), 'L': AddressValue(1), 'M': AddressValue(7)}).translate()"),
    "IndexedOperand('$7F,PCR', MN['LDA']).translate()",
    "ExtendedIndexedOperand('[$7F,PCR]', MN['LDA']).translate()",
    ("IndexedOperand('$7F,PCR', MN['LDA']).resolve_symbols({'V': NumericValue(5), 'W': NumericValue(300), 'L': "
     "AddressValue(1), 'M': AddressValue(7)}).translate()"),
    ("ExtendedIndexedOperand('[$7F,PCR]', MN['LDA']).resolve_symbols({'V': NumericValue(5), 'W': "
     "NumericValue(300), 'L': AddressValue(1), 'M': AddressValue(7)}).translate()"),
    "IndexedOperand('$7F,PCR', MN['STD']).translate()",
    "ExtendedIndexedOperand('[$7F,PCR]', MN['STD']).translate()",
    ("IndexedOperand('$7F,PCR', MN['STD']).resolve_symbols({'V': NumericValue(5), 'W': NumericValue(300), 'L': "
     "AddressValue(1), 'M': AddressValue(7)}).translate()"),
    ("ExtendedIndexedOperand('[$7F,PCR]', MN['STD']).resolve_symbols({'V': NumericValue(5), 'W': "
     "NumericValue(300), 'L': AddressValue(1), 'M': AddressValue(7)}).translate()"),
    "IndexedOperand('$80,PCR', MN['LEAX']).translate()",
    "ExtendedIndexedOperand('[$80,PCR]', MN['LEAX']).translate()",
    ("IndexedOperand('$80,PCR', MN['LEAX']).resolve_symbols({'V': NumericValue(5), 'W': NumericValue(300), 'L': "
     "AddressValue(1), 'M': AddressValue(7)}).translate()"),
    ("ExtendedIndexedOperand('[$80,PCR]', MN['LEAX']).resolve_symbols({'V': NumericValue(5), 'W': "
     "NumericValue(300), 'L': AddressValue(1), 'M': AddressValue(7)}).translate()"),
    "IndexedOperand('$80,PCR', MN['LDA']).translate()",
    "ExtendedIndexedOperand('[$80,PCR]', MN['LDA']).translate()",
    ("IndexedOperand('$80,PCR', MN['LDA']).resolve_symbols({'V': NumericValue(5), 'W': NumericValue(300), 'L': "
     "AddressValue(1), 'M': AddressValue(7)}).translate()"),
    ("ExtendedIndexedOperand('[$80,PCR]', MN['LDA']).resolve_symbols({'V': NumericValue(5), 'W': "
     "NumericValue(300), 'L': AddressValue(1), 'M': AddressValue(7)}).translate()"),
    "IndexedOperand('$80,PCR', MN['STD']).translate()",
    "ExtendedIndexedOperand('[$80,PCR]', MN['STD']).translate()",
    ("IndexedOperand('$80,PCR', MN['STD']).resolve_symbols({'V': NumericValue(5), 'W': NumericValue(300), 'L': "
     "AddressValue(1), 'M': AddressValue(7)}).translate()"),
    ("ExtendedIndexedOperand('[$80,PCR]', MN['STD']).resolve_symbols({'V': NumericValue(5), 'W': "
     "NumericValue(300), 'L': AddressValue(1), 'M': AddressValue(7)}).translate()"),
    "IndexedOperand('$FF,PCR', MN['LEAX']).translate()",
    "ExtendedIndexedOperand('[$FF,PCR]', MN['LEAX']).translate()",
    ("IndexedOperand('$FF,PCR', MN['LEAX']).resolve_symbols({'V': NumericValue(5), 'W': NumericValue(300), 'L': "
     "AddressValue(1), 'M': AddressValue(7)}).translate()"),
    ("ExtendedIndexedOperand('[$FF,PCR]', MN['LEAX']).resolve_symbols({'V': NumericValue(5), 'W': "
     "NumericValue(300), 'L': AddressValue(1), 'M': AddressValue(7)}).translate()"),
    "IndexedOperand('$FF,PCR', MN['LDA']).translate()",
    "ExtendedIndexedOperand('[$FF,PCR]', MN['LDA']).translate()",
    ("IndexedOperand('$FF,PCR', MN['LDA']).resolve_symbols({'V': NumericValue(5), 'W': NumericValue(300), 'L': "
     "AddressValue(1), 'M': AddressValue(7)}).translate()"),
    ("ExtendedIndexedOperand('[$FF,PCR]', MN['LDA']).resolve_symbols({'V': NumericValue(5), 'W': "
     "NumericValue(300), 'L': AddressValue(1), 'M': AddressValue(7)}).translate()"),
    "IndexedOperand('$FF,PCR', MN['STD']).translate()",
    "ExtendedIndexedOperand('[$FF,PCR]', MN['STD']).translate()",
    ("IndexedOperand('$FF,PCR', MN['STD']).resolve_symbols({'V': NumericValue(5), 'W': NumericValue(300), 'L': "
     "AddressValue(1), 'M': AddressValue(7)}).translate()"),
    ("ExtendedIndexedOperand('[$FF,PCR]', MN['STD']).resolve_symbols({'V': NumericValue(5), 'W': "
     "NumericValue(300), 'L': AddressValue(1), 'M': AddressValue(7)}).translate()"),
    "IndexedOperand('$100,PCR', MN['LEAX']).translate()",
    "ExtendedIndexedOperand('[$100,PCR]', MN['LEAX']).translate()",
    ("IndexedOperand('$100,PCR', MN['LEAX']).resolve_symbols({'V': NumericValue(5), 'W': NumericValue(300), 'L': "
     "AddressValue(1), 'M': AddressValue(7)}).translate()"),
    ("ExtendedIndexedOperand('[$100,PCR]', MN['LEAX']).resolve_symbols({'V': NumericValue(5), 'W': "
     "NumericValue(300), 'L': AddressValue(1), 'M': AddressValue(7)}).translate()"),
    "IndexedOperand('$100,PCR', MN['LDA']).translate()",
    "ExtendedIndexedOperand('[$100,PCR]', MN['LDA']).translate()",
    ("IndexedOperand('$100,PCR', MN['LDA']).resolve_symbols({'V': NumericValue(5), 'W': NumericValue(300), 'L': "
     "AddressValue(1), 'M': AddressValue(7)}).translate()"),
    ("ExtendedIndexedOperand('[$100,PCR]', MN['LDA']).resolve_symbols({'V': NumericValue(5), 'W': "
     "NumericValue(300), 'L': AddressValue(1), 'M': AddressValue(7)}).translate()"),
    "IndexedOperand('$100,PCR', MN['STD']).translate()",
    "ExtendedIndexedOperand('[$100,PCR]', MN['STD']).translate()",
    ("IndexedOperand('$100,PCR', MN['STD']).resolve_symbols({'V': NumericValue(5), 'W': NumericValue(300), 'L': "
     "AddressValue(1), 'M': AddressValue(7)}).translate()"),
    ("ExtendedIndexedOperand('[$100,PCR]', MN['STD']).resolve_symbols({'V': NumericValue(5), 'W': "
     "NumericValue(300), 'L': AddressValue(1), 'M': AddressValue(7)}).translate()"),
    "IndexedOperand('$1234,PCR', MN['LEAX']).translate()",
    "ExtendedIndexedOperand('[$1234,PCR]', MN['LEAX']).translate()",
    ("IndexedOperand('$1234,PCR', MN['LEAX']).resolve_symbols({'V': NumericValue(5), 'W': NumericValue(300), "
     "'L': AddressValue(1), 'M': AddressValue(7)}).translate()"),
    ("ExtendedIndexedOperand('[$1234,PCR]', MN['LEAX']).resolve_symbols({'V': NumericValue(5), 'W': "
     "NumericValue(300), 'L': AddressValue(1), 'M': AddressValue(7)}).translate()"),
    "IndexedOperand('$1234,PCR', MN['LDA']).translate()",
    "ExtendedIndexedOperand('[$1234,PCR]', MN['LDA']).translate()",
    ("IndexedOperand('$1234,PCR', MN['LDA']).resolve_symbols({'V': NumericValue(5), 'W': NumericValue(300), 'L': "
     "AddressValue(1), 'M': AddressValue(7)}).translate()"),
    ("ExtendedIndexedOperand('[$1234,PCR]', MN['LDA']).resolve_symbols({'V': NumericValue(5), 'W': "
     "NumericValue(300), 'L': AddressValue(1), 'M': AddressValue(7)}).translate()"),
    "IndexedOperand('$1234,PCR', MN['STD']).translate()",
    "ExtendedIndexedOperand('[$1234,PCR]', MN['STD']).translate()",
    ("IndexedOperand('$1234,PCR', MN['STD']).resolve_symbols({'V': NumericValue(5), 'W': NumericValue(300), 'L': "
     "AddressValue(1), 'M': AddressValue(7)}).translate()"),
    ("ExtendedIndexedOperand('[$1234,PCR]', MN['STD']).resolve_symbols({'V': NumericValue(5), 'W': "
     "NumericValue(300), 'L': AddressValue(1), 'M': AddressValue(7)}).translate()"),
    "IndexedOperand('$FFFF,PCR', MN['LEAX']).translate()",
    "ExtendedIndexedOperand('[$FFFF,PCR]', MN['LEAX']).translate()",
    ("IndexedOperand('$FFFF,PCR', MN['LEAX']).resolve_symbols({'V': NumericValue(5), 'W': NumericValue(300), "
     "'L': AddressValue(1), 'M': AddressValue(7)}).translate()"),
    ("ExtendedIndexedOperand('[$FFFF,PCR]', MN['LEAX']).resolve_symbols({'V': NumericValue(5), 'W': "
     "NumericValue(300), 'L': AddressValue(1), 'M': AddressValue(7)}).translate()"),
    "IndexedOperand('$FFFF,PCR', MN['LDA']).translate()",
    "ExtendedIndexedOperand('[$FFFF,PCR]', MN['LDA']).translate()",
    ("IndexedOperand('$FFFF,PCR', MN['LDA']).resolve_symbols({'V': NumericValue(5), 'W': NumericValue(300), 'L': "
     "AddressValue(1), 'M': AddressValue(7)}).translate()"),
    ("ExtendedIndexedOperand('[$FFFF,PCR]', MN['LDA']).resolve_symbols({'V': NumericValue(5), 'W': "
     "NumericValue(300), 'L': AddressValue(1), 'M': AddressValue(7)}).translate()"),
    "IndexedOperand('$FFFF,PCR', MN['STD']).translate()",
    "ExtendedIndexedOperand('[$FFFF,PCR]', MN['STD']).translate()",
    ("IndexedOperand('$FFFF,PCR', MN['STD']).resolve_symbols({'V': NumericValue(5), 'W': NumericValue(300), 'L': "
     "AddressValue(1), 'M': AddressValue(7)}).translate()"),
    ("ExtendedIndexedOperand('[$FFFF,PCR]', MN['STD']).resolve_symbols({'V': NumericValue(5), 'W': "
     "NumericValue(300), 'L': AddressValue(1), 'M': AddressValue(7)}).translate()"),
    "IndexedOperand('%00000101,PCR', MN['LEAX']).translate()",
    "ExtendedIndexedOperand('[%00000101,PCR]', MN['LEAX']).translate()",
    ("IndexedOperand('%00000101,PCR', MN['LEAX']).resolve_symbols({'V': NumericValue(5), 'W': NumericValue(300), "
     "'L': AddressValue(1), 'M': AddressValue(7)}).translate()"),
    ("ExtendedIndexedOperand('[%00000101,PCR]', MN['LEAX']).resolve_symbols({'V': NumericValue(5), 'W': "
     "NumericValue(300), 'L': AddressValue(1), 'M': AddressValue(7)}).translate()"),
    "IndexedOperand('%00000101,PCR', MN['LDA']).translate()",
    "ExtendedIndexedOperand('[%00000101,PCR]', MN['LDA']).translate()",
    ("IndexedOperand('%00000101,PCR', MN['LDA']).resolve_symbols({'V': NumericValue(5), 'W': NumericValue(300), "
     "'L': AddressValue(1), 'M': AddressValue(7)}).translate()"),
    ("ExtendedIndexedOperand('[%00000101,PCR]', MN['LDA']).resolve_symbols({'V': NumericValue(5), 'W': "
     "NumericValue(300), 'L': AddressValue(1), 'M': AddressValue(7)}).translate()"),
    "IndexedOperand('%00000101,PCR', MN['STD']).translate()",
    "ExtendedIndexedOperand('[%00000101,PCR]', MN['STD']).translate()",
    ("IndexedOperand('%00000101,PCR', MN['STD']).resolve_symbols({'V': NumericValue(5), 'W': NumericValue(300), "
     "'L': AddressValue(1), 'M': AddressValue(7)}).translate()"),
    ("ExtendedIndexedOperand('[%00000101,PCR]', MN['STD']).resolve_symbols({'V': NumericValue(5), 'W': "
     "NumericValue(300), 'L': AddressValue(1), 'M': AddressValue(7)}).translate()"),
    "IndexedOperand('%0000000000000101,PCR', MN['LEAX']).translate()",
    "ExtendedIndexedOperand('[%0000000000000101,PCR]', MN['LEAX']).translate()",
    ("IndexedOperand('%0000000000000101,PCR', MN['LEAX']).resolve_symbols({'V': NumericValue(5), 'W': "
     "NumericValue(300), 'L': AddressValue(1), 'M': AddressValue(7)}).translate()"),
    ("ExtendedIndexedOperand('[%0000000000000101,PCR]', MN['LEAX']).resolve_symbols({'V': NumericValue(5), 'W': "
     "NumericValue(300), 'L': AddressValue(1), 'M': AddressValue(7)}).translate()"),
    "IndexedOperand('%0000000000000101,PCR', MN['LDA']).translate()",
    "ExtendedIndexedOperand('[%0000000000000101,PCR]', MN['LDA']).translate()",
    ("IndexedOperand('%0000000000000101,PCR', MN['LDA']).resolve_symbols({'V': NumericValue(5), 'W': "
     "NumericValue(300), 'L': AddressValue(1), 'M': AddressValue(7)}).translate()"),
    ("ExtendedIndexedOperand('[%0000000000000101,PCR]', MN['LDA']).resolve_symbols({'V': NumericValue(5), 'W': "
     "NumericValue(300), 'L': AddressValue(1), 'M': AddressValue(7)}).translate()"),
    "IndexedOperand('%0000000000000101,PCR', MN['STD']).translate()",
    "ExtendedIndexedOperand('[%0000000000000101,PCR]', MN['STD']).translate()",
    ("IndexedOperand('%0000000000000101,PCR', MN['STD']).resolve_symbols({'V': NumericValue(5), 'W': "
     "NumericValue(300), 'L': AddressValue(1), 'M': AddressValue(7)}).translate()"),
    ("ExtendedIndexedOperand('[%0000000000000101,PCR]', MN['STD']).resolve_symbols({'V': NumericValue(5), 'W': "
     "NumericValue(300), 'L': AddressValue(1), 'M': AddressValue(7)}).translate()"),
    'IndexedOperand("\'A,PCR", MN[\'LEAX\']).translate()',
    'ExtendedIndexedOperand("[\'A,PCR]", MN[\'LEAX\']).translate()',
    ('IndexedOperand("\'A,PCR", MN[\'LEAX\']).resolve_symbols({\'V\': NumericValue(5), \'W\': NumericValue(300), '
     "'L': AddressValue(1), 'M': AddressValue(7)}).translate()"),
    ('ExtendedIndexedOperand("[\'A,PCR]", MN[\'LEAX\']).resolve_symbols({\'V\': NumericValue(5), \'W\': '
     "NumericValue(300), 'L': AddressValue(1), 'M': AddressValue(7)}).translate()"),
    'IndexedOperand("\'A,PCR", MN[\'LDA\']).translate()',
    'ExtendedIndexedOperand("[\'A,PCR]", MN[\'LDA\']).translate()',
    ('IndexedOperand("\'A,PCR", MN[\'LDA\']).resolve_symbols({\'V\': NumericValue(5), \'W\': NumericValue(300), '
     "'L': AddressValue(1), 'M': AddressValue(7)}).translate()"),
    ('ExtendedIndexedOperand("[\'A,PCR]", MN[\'LDA\']).resolve_symbols({\'V\': NumericValue(5), \'W\': '
     "NumericValue(300), 'L': AddressValue(1), 'M': AddressValue(7)}).translate()"),
    'IndexedOperand("\'A,PCR", MN[\'STD\']).translate()',
    'ExtendedIndexedOperand("[\'A,PCR]", MN[\'STD\']).translate()',
    ('IndexedOperand("\'A,PCR", MN[\'STD\']).resolve_symbols({\'V\': NumericValue(5), \'W\': NumericValue(300), '
     "'L': AddressValue(1), 'M': AddressValue(7)}).translate()"),
    ('ExtendedIndexedOperand("[\'A,PCR]", MN[\'STD\']).resolve_symbols({\'V\': NumericValue(5), \'W\': '
     "NumericValue(300), 'L': AddressValue(1), 'M': AddressValue(7)}).translate()"),
    "IndexedOperand('32767,PCR', MN['LEAX']).translate()",
    "ExtendedIndexedOperand('[32767,PCR]', MN['LEAX']).translate()",
    ("IndexedOperand('32767,PCR', MN['LEAX']).resolve_symbols({'V': NumericValue(5), 'W': NumericValue(300), "
     "'L': AddressValue(1), 'M': AddressValue(7)}).translate()"),
    ("ExtendedIndexedOperand('[32767,PCR]', MN['LEAX']).resolve_symbols({'V': NumericValue(5), 'W': "
     "NumericValue(300), 'L': AddressValue(1), 'M': AddressValue(7)}).translate()"),
    "IndexedOperand('32767,PCR', MN['LDA']).translate()",
    "ExtendedIndexedOperand('[32767,PCR]', MN['LDA']).translate()",
    ("IndexedOperand('32767,PCR', MN['LDA']).resolve_symbols({'V': NumericValue(5), 'W': NumericValue(300), 'L': "
     "AddressValue(1), 'M': AddressValue(7)}).translate()"),
    ("ExtendedIndexedOperand('[32767,PCR]', MN['LDA']).resolve_symbols({'V': NumericValue(5), 'W': "
     "NumericValue(300), 'L': AddressValue(1), 'M': AddressValue(7)}).translate()"),
    "IndexedOperand('32767,PCR', MN['STD']).translate()",
    "ExtendedIndexedOperand('[32767,PCR]', MN['STD']).translate()",
    ("IndexedOperand('32767,PCR', MN['STD']).resolve_symbols({'V': NumericValue(5), 'W': NumericValue(300), 'L': "
     "AddressValue(1), 'M': AddressValue(7)}).translate()"),
    ("ExtendedIndexedOperand('[32767,PCR]', MN['STD']).resolve_symbols({'V': NumericValue(5), 'W': "
     "NumericValue(300), 'L': AddressValue(1), 'M': AddressValue(7)}).translate()"),
    "IndexedOperand('32768,PCR', MN['LEAX']).translate()",
    "ExtendedIndexedOperand('[32768,PCR]', MN['LEAX']).translate()",
    ("IndexedOperand('32768,PCR', MN['LEAX']).resolve_symbols({'V': NumericValue(5), 'W': NumericValue(300), "
     "'L': AddressValue(1), 'M': AddressValue(7)}).translate()"),
    ("ExtendedIndexedOperand('[32768,PCR]', MN['LEAX']).resolve_symbols({'V': NumericValue(5), 'W': "
     "NumericValue(300), 'L': AddressValue(1), 'M': AddressValue(7)}).translate()"),
    "IndexedOperand('32768,PCR', MN['LDA']).translate()",
    "ExtendedIndexedOperand('[32768,PCR]', MN['LDA']).translate()",
    ("IndexedOperand('32768,PCR', MN['LDA']).resolve_symbols({'V': NumericValue(5), 'W': NumericValue(300), 'L': "
     "AddressValue(1), 'M': AddressValue(7)}).translate()"),
    ("ExtendedIndexedOperand('[32768,PCR]', MN['LDA']).resolve_symbols({'V': NumericValue(5), 'W': "
     "NumericValue(300), 'L': AddressValue(1), 'M': AddressValue(7)}).translate()"),
    "IndexedOperand('32768,PCR', MN['STD']).translate()",
    "ExtendedIndexedOperand('[32768,PCR]', MN['STD']).translate()",
    ("IndexedOperand('32768,PCR', MN['STD']).resolve_symbols({'V': NumericValue(5), 'W': NumericValue(300), 'L': "
     "AddressValue(1), 'M': AddressValue(7)}).translate()"),
    ("ExtendedIndexedOperand('[32768,PCR]', MN['STD']).resolve_symbols({'V': NumericValue(5), 'W': "
     "NumericValue(300), 'L': AddressValue(1), 'M': AddressValue(7)}).translate()"),
    "IndexedOperand('65535,PCR', MN['LEAX']).translate()",
    "ExtendedIndexedOperand('[65535,PCR]', MN['LEAX']).translate()",
    ("IndexedOperand('65535,PCR', MN['LEAX']).resolve_symbols({'V': NumericValue(5), 'W': NumericValue(300), "
     "'L': AddressValue(1), 'M': AddressValue(7)}).translate()"),
    ("ExtendedIndexedOperand('[65535,PCR]', MN['LEAX']).resolve_symbols({'V': NumericValue(5), 'W': "
     "NumericValue(300), 'L': AddressValue(1), 'M': AddressValue(7)}).translate()"),
    "IndexedOperand('65535,PCR', MN['LDA']).translate()",
    "ExtendedIndexedOperand('[65535,PCR]', MN['LDA']).translate()",
    ("IndexedOperand('65535,PCR', MN['LDA']).resolve_symbols({'V': NumericValue(5), 'W': NumericValue(300), 'L': "
     "AddressValue(1), 'M': AddressValue(7)}).translate()"),
    ("ExtendedIndexedOperand('[65535,PCR]', MN['LDA']).resolve_symbols({'V': NumericValue(5), 'W': "
     "NumericValue(300), 'L': AddressValue(1), 'M': AddressValue(7)}).translate()"),
    "IndexedOperand('65535,PCR', MN['STD']).translate()",
    "ExtendedIndexedOperand('[65535,PCR]', MN['STD']).translate()",
    ("IndexedOperand('65535,PCR', MN['STD']).resolve_symbols({'V': NumericValue(5), 'W': NumericValue(300), 'L': "
     "AddressValue(1), 'M': AddressValue(7)}).translate()"),
    ("ExtendedIndexedOperand('[65535,PCR]', MN['STD']).resolve_symbols({'V': NumericValue(5), 'W': "
     "NumericValue(300), 'L': AddressValue(1), 'M': AddressValue(7)}).translate()"),
    "IndexedOperand('-32768,PCR', MN['LEAX']).translate()",
    "ExtendedIndexedOperand('[-32768,PCR]', MN['LEAX']).translate()",
    ("IndexedOperand('-32768,PCR', MN['LEAX']).resolve_symbols({'V': NumericValue(5), 'W': NumericValue(300), "
     "'L': AddressValue(1), 'M': AddressValue(7)}).translate()"),
    ("ExtendedIndexedOperand('[-32768,PCR]', MN['LEAX']).resolve_symbols({'V': NumericValue(5), 'W': "
     "NumericValue(300), 'L': AddressValue(1), 'M': AddressValue(7)}).translate()"),
    "IndexedOperand('-32768,PCR', MN['LDA']).translate()",
    "ExtendedIndexedOperand('[-32768,PCR]', MN['LDA']).translate()",
    ("IndexedOperand('-32768,PCR', MN['LDA']).resolve_symbols({'V': NumericValue(5), 'W': NumericValue(300), "
     "'L': AddressValue(1), 'M': AddressValue(7)}).translate()"),
    ("ExtendedIndexedOperand('[-32768,PCR]', MN['LDA']).resolve_symbols({'V': NumericValue(5), 'W': "
     "NumericValue(300), 'L': AddressValue(1), 'M': AddressValue(7)}).translate()"),
    "IndexedOperand('-32768,PCR', MN['STD']).translate()",
    "ExtendedIndexedOperand('[-32768,PCR]', MN['STD']).translate()",
    ("IndexedOperand('-32768,PCR', MN['STD']).resolve_symbols({'V': NumericValue(5), 'W': NumericValue(300), "
     "'L': AddressValue(1), 'M': AddressValue(7)}).translate()"),
    ("ExtendedIndexedOperand('[-32768,PCR]', MN['STD']).resolve_symbols({'V': NumericValue(5), 'W': "
     "NumericValue(300), 'L': AddressValue(1), 'M': AddressValue(7)}).translate()"),
    "IndexedOperand('V,PCR', MN['LEAX']).translate()",
    "ExtendedIndexedOperand('[V,PCR]', MN['LEAX']).translate()",
    ("IndexedOperand('V,PCR', MN['LEAX']).resolve_symbols({'V': NumericValue(5), 'W': NumericValue(300), 'L': "
     "AddressValue(1), 'M': AddressValue(7)}).translate()"),
    ("ExtendedIndexedOperand('[V,PCR]', MN['LEAX']).resolve_symbols({'V': NumericValue(5), 'W': "
     "NumericValue(300), 'L': AddressValue(1), 'M': AddressValue(7)}).translate()"),
    "IndexedOperand('V,PCR', MN['LDA']).translate()",
    "ExtendedIndexedOperand('[V,PCR]', MN['LDA']).translate()",
    ("IndexedOperand('V,PCR', MN['LDA']).resolve_symbols({'V': NumericValue(5), 'W': NumericValue(300), 'L': "
     "AddressValue(1), 'M': AddressValue(7)}).translate()"),
    ("ExtendedIndexedOperand('[V,PCR]', MN['LDA']).resolve_symbols({'V': NumericValue(5), 'W': "
     "NumericValue(300), 'L': AddressValue(1), 'M': AddressValue(7)}).translate()"),
    "IndexedOperand('V,PCR', MN['STD']).translate()",
    "ExtendedIndexedOperand('[V,PCR]', MN['STD']).translate()",
    ("IndexedOperand('V,PCR', MN['STD']).resolve_symbols({'V': NumericValue(5), 'W': NumericValue(300), 'L': "
     "AddressValue(1), 'M': AddressValue(7)}).translate()"),
    ("ExtendedIndexedOperand('[V,PCR]', MN['STD']).resolve_symbols({'V': NumericValue(5), 'W': "
     "NumericValue(300), 'L': AddressValue(1), 'M': AddressValue(7)}).translate()"),
    "IndexedOperand('W,PCR', MN['LEAX']).translate()",
    "ExtendedIndexedOperand('[W,PCR]', MN['LEAX']).translate()",
    ("IndexedOperand('W,PCR', MN['LEAX']).resolve_symbols({'V': NumericValue(5), 'W': NumericValue(300), 'L': "
     "AddressValue(1), 'M': AddressValue(7)}).translate()"),
    ("ExtendedIndexedOperand('[W,PCR]', MN['LEAX']).resolve_symbols({'V': NumericValue(5), 'W': "
     "NumericValue(300), 'L': AddressValue(1), 'M': AddressValue(7)}).translate()"),
    "IndexedOperand('W,PCR', MN['LDA']).translate()",
    "ExtendedIndexedOperand('[W,PCR]', MN['LDA']).translate()",
    ("IndexedOperand('W,PCR', MN['LDA']).resolve_symbols({'V': NumericValue(5), 'W': NumericValue(300), 'L': "
     "AddressValue(1), 'M': AddressValue(7)}).translate()"),
    ("ExtendedIndexedOperand('[W,PCR]', MN['LDA']).resolve_symbols({'V': NumericValue(5), 'W': "
     "NumericValue(300), 'L': AddressValue(1), 'M': AddressValue(7)}).translate()"),
    "IndexedOperand('W,PCR', MN['STD']).translate()",
    "ExtendedIndexedOperand('[W,PCR]', MN['STD']).translate()",
    ("IndexedOperand('W,PCR', MN['STD']).resolve_symbols({'V': NumericValue(5), 'W': NumericValue(300), 'L': "
     "AddressValue(1), 'M': AddressValue(7)}).translate()"),
    ("ExtendedIndexedOperand('[W,PCR]', MN['STD']).resolve_symbols({'V': NumericValue(5), 'W': "
     "NumericValue(300), 'L': AddressValue(1), 'M': AddressValue(7)}).translate()"),
    "IndexedOperand('L,PCR', MN['LEAX']).translate()",
    "ExtendedIndexedOperand('[L,PCR]', MN['LEAX']).translate()",
    ("IndexedOperand('L,PCR', MN['LEAX']).resolve_symbols({'V': NumericValue(5), 'W': NumericValue(300), 'L': "
     "AddressValue(1), 'M': AddressValue(7)}).translate()"),
    ("ExtendedIndexedOperand('[L,PCR]', MN['LEAX']).resolve_symbols({'V': NumericValue(5), 'W': "
     "NumericValue(300), 'L': AddressValue(1), 'M': AddressValue(7)}).translate()"),
    "IndexedOperand('L,PCR', MN['LDA']).translate()",
    "ExtendedIndexedOperand('[L,PCR]', MN['LDA']).translate()",
    ("IndexedOperand('L,PCR', MN['LDA']).resolve_symbols({'V': NumericValue(5), 'W': NumericValue(300), 'L': "
     "AddressValue(1), 'M': AddressValue(7)}).translate()"),
    ("ExtendedIndexedOperand('[L,PCR]', MN['LDA']).resolve_symbols({'V': NumericValue(5), 'W': "
     "NumericValue(300), 'L': AddressValue(1), 'M': AddressValue(7)}).translate()"),
    "IndexedOperand('L,PCR', MN['STD']).translate()",
    "ExtendedIndexedOperand('[L,PCR]', MN['STD']).translate()",
    ("IndexedOperand('L,PCR', MN['STD']).resolve_symbols({'V': NumericValue(5), 'W': NumericValue(300), 'L': "
     "AddressValue(1), 'M': AddressValue(7)}).translate()"),
    ("ExtendedIndexedOperand('[L,PCR]', MN['STD']).resolve_symbols({'V': NumericValue(5), 'W': "
     "NumericValue(300), 'L': AddressValue(1), 'M': AddressValue(7)}).translate()"),
    "IndexedOperand('M,PCR', MN['LEAX']).translate()",
    "ExtendedIndexedOperand('[M,PCR]', MN['LEAX']).translate()",
    ("IndexedOperand('M,PCR', MN['LEAX']).resolve_symbols({'V': NumericValue(5), 'W': NumericValue(300), 'L': "
     "AddressValue(1), 'M': AddressValue(7)}).translate()"),
    ("ExtendedIndexedOperand('[M,PCR]', MN['LEAX']).resolve_symbols({'V': NumericValue(5), 'W': "
     "NumericValue(300), 'L': AddressValue(1), 'M': AddressValue(7)}).translate()"),
    "IndexedOperand('M,PCR', MN['LDA']).translate()",
    "ExtendedIndexedOperand('[M,PCR]', MN['LDA']).translate()",
    ("IndexedOperand('M,PCR', MN['LDA']).resolve_symbols({'V': NumericValue(5), 'W': NumericValue(300), 'L': "
     "AddressValue(1), 'M': AddressValue(7)}).translate()"),
    ("ExtendedIndexedOperand('[M,PCR]', MN['LDA']).resolve_symbols({'V': NumericValue(5), 'W': "
     "NumericValue(300), 'L': AddressValue(1), 'M': AddressValue(7)}).translate()"),
    "IndexedOperand('M,PCR', MN['STD']).translate()",
    "ExtendedIndexedOperand('[M,PCR]', MN['STD']).translate()",
    ("IndexedOperand('M,PCR', MN['STD']).resolve_symbols({'V': NumericValue(5), 'W': NumericValue(300), 'L': "
     "AddressValue(1), 'M': AddressValue(7)}).translate()"),
    ("ExtendedIndexedOperand('[M,PCR]', MN['STD']).resolve_symbols({'V': NumericValue(5), 'W': "
     "NumericValue(300), 'L': AddressValue(1), 'M': AddressValue(7)}).translate()"),
    "IndexedOperand('L+1,PCR', MN['LEAX']).translate()",
    "ExtendedIndexedOperand('[L+1,PCR]', MN['LEAX']).translate()",
    ("IndexedOperand('L+1,PCR', MN['LEAX']).resolve_symbols({'V': NumericValue(5), 'W': NumericValue(300), 'L': "
     "AddressValue(1), 'M': AddressValue(7)}).translate()"),
    ("ExtendedIndexedOperand('[L+1,PCR]', MN['LEAX']).resolve_symbols({'V': NumericValue(5), 'W': "
     "NumericValue(300), 'L': AddressValue(1), 'M': AddressValue(7)}).translate()"),
    "IndexedOperand('L+1,PCR', MN['LDA']).translate()",
    "ExtendedIndexedOperand('[L+1,PCR]', MN['LDA']).translate()",
    ("IndexedOperand('L+1,PCR', MN['LDA']).resolve_symbols({'V': NumericValue(5), 'W': NumericValue(300), 'L': "
     "AddressValue(1), 'M': AddressValue(7)}).translate()"),
    ("ExtendedIndexedOperand('[L+1,PCR]', MN['LDA']).resolve_symbols({'V': NumericValue(5), 'W': "
     "NumericValue(300), 'L': AddressValue(1), 'M': AddressValue(7)}).translate()"),
    "IndexedOperand('L+1,PCR', MN['STD']).translate()",
    "ExtendedIndexedOperand('[L+1,PCR]', MN['STD']).translate()",
    ("IndexedOperand('L+1,PCR', MN['STD']).resolve_symbols({'V': NumericValue(5), 'W': NumericValue(300), 'L': "
     "AddressValue(1), 'M': AddressValue(7)}).translate()"),
    ("ExtendedIndexedOperand('[L+1,PCR]', MN['STD']).resolve_symbols({'V': NumericValue(5), 'W': "
     "NumericValue(300), 'L': AddressValue(1), 'M': AddressValue(7)}).translate()"),
    "IndexedOperand('L-1,PCR', MN['LEAX']).translate()",
    "ExtendedIndexedOperand('[L-1,PCR]', MN['LEAX']).translate()",
    ("IndexedOperand('L-1,PCR', MN['LEAX']).resolve_symbols({'V': NumericValue(5), 'W': NumericValue(300), 'L': "
     "AddressValue(1), 'M': AddressValue(7)}).translate()"),
    ("ExtendedIndexedOperand('[L-1,PCR]', MN['LEAX']).resolve_symbols({'V': NumericValue(5), 'W': "
     "NumericValue(300), 'L': AddressValue(1), 'M': AddressValue(7)}).translate()"),
    "IndexedOperand('L-1,PCR', MN['LDA']).translate()",
    "ExtendedIndexedOperand('[L-1,PCR]', MN['LDA']).translate()",
    ("IndexedOperand('L-1,PCR', MN['LDA']).resolve_symbols({'V': NumericValue(5), 'W': NumericValue(300), 'L': "
     "AddressValue(1), 'M': AddressValue(7)}).translate()"),
    ("ExtendedIndexedOperand('[L-1,PCR]', MN['LDA']).resolve_symbols({'V': NumericValue(5), 'W': "
     "NumericValue(300), 'L': AddressValue(1), 'M': AddressValue(7)}).translate()"),
    "IndexedOperand('L-1,PCR', MN['STD']).translate()",
    "ExtendedIndexedOperand('[L-1,PCR]', MN['STD']).translate()",
    ("IndexedOperand('L-1,PCR', MN['STD']).resolve_symbols({'V': NumericValue(5), 'W': NumericValue(300), 'L': "
     "AddressValue(1), 'M': AddressValue(7)}).translate()"),
    ("ExtendedIndexedOperand('[L-1,PCR]', MN['STD']).resolve_symbols({'V': NumericValue(5), 'W': "
     "NumericValue(300), 'L': AddressValue(1), 'M': AddressValue(7)}).translate()"),
    "IndexedOperand('V+1,PCR', MN['LEAX']).translate()",
    "ExtendedIndexedOperand('[V+1,PCR]', MN['LEAX']).translate()",
    ("IndexedOperand('V+1,PCR', MN['LEAX']).resolve_symbols({'V': NumericValue(5), 'W': NumericValue(300), 'L': "
     "AddressValue(1), 'M': AddressValue(7)}).translate()"),
    ("ExtendedIndexedOperand('[V+1,PCR]', MN['LEAX']).resolve_symbols({'V': NumericValue(5), 'W': "
     "NumericValue(300), 'L': AddressValue(1), 'M': AddressValue(7)}).translate()"),
    "IndexedOperand('V+1,PCR', MN['LDA']).translate()",
    "ExtendedIndexedOperand('[V+1,PCR]', MN['LDA']).translate()",
    ("IndexedOperand('V+1,PCR', MN['LDA']).resolve_symbols({'V': NumericValue(5), 'W': NumericValue(300), 'L': "
     "AddressValue(1), 'M': AddressValue(7)}).translate()"),
    ("ExtendedIndexedOperand('[V+1,PCR]', MN['LDA']).resolve_symbols({'V': NumericValue(5), 'W': "
     "NumericValue(300), 'L': AddressValue(1), 'M': AddressValue(7)}).translate()"),
    "IndexedOperand('V+1,PCR', MN['STD']).translate()",
    "ExtendedIndexedOperand('[V+1,PCR]', MN['STD']).translate()",
    ("IndexedOperand('V+1,PCR', MN['STD']).resolve_symbols({'V': NumericValue(5), 'W': NumericValue(300), 'L': "
     "AddressValue(1), 'M': AddressValue(7)}).translate()"),
    ("ExtendedIndexedOperand('[V+1,PCR]', MN['STD']).resolve_symbols({'V': NumericValue(5), 'W': "
     "NumericValue(300), 'L': AddressValue(1), 'M': AddressValue(7)}).translate()"),
    "IndexedOperand('1+L,PCR', MN['LEAX']).translate()",
    "ExtendedIndexedOperand('[1+L,PCR]', MN['LEAX']).translate()",
    ("IndexedOperand('1+L,PCR', MN['LEAX']).resolve_symbols({'V': NumericValue(5), 'W': NumericValue(300), 'L': "
     "AddressValue(1), 'M': AddressValue(7)}).translate()"),
    ("ExtendedIndexedOperand('[1+L,PCR]', MN['LEAX']).resolve_symbols({'V': NumericValue(5), 'W': "
     "NumericValue(300), 'L': AddressValue(1), 'M': AddressValue(7)}).translate()"),
    "IndexedOperand('1+L,PCR', MN['LDA']).translate()",
    "ExtendedIndexedOperand('[1+L,PCR]', MN['LDA']).translate()",
    ("IndexedOperand('1+L,PCR', MN['LDA']).resolve_symbols({'V': NumericValue(5), 'W': NumericValue(300), 'L': "
     "AddressValue(1), 'M': AddressValue(7)}).translate()"),
    ("ExtendedIndexedOperand('[1+L,PCR]', MN['LDA']).resolve_symbols({'V': NumericValue(5), 'W': "
     "NumericValue(300), 'L': AddressValue(1), 'M': AddressValue(7)}).translate()"),
    "IndexedOperand('1+L,PCR', MN['STD']).translate()",
    "ExtendedIndexedOperand('[1+L,PCR]', MN['STD']).translate()",
    ("IndexedOperand('1+L,PCR', MN['STD']).resolve_symbols({'V': NumericValue(5), 'W': NumericValue(300), 'L': "
     "AddressValue(1), 'M': AddressValue(7)}).translate()"),
    ("ExtendedIndexedOperand('[1+L,PCR]', MN['STD']).resolve_symbols({'V': NumericValue(5), 'W': "
     "NumericValue(300), 'L': AddressValue(1), 'M': AddressValue(7)}).translate()"),
    "IndexedOperand('V+W,PCR', MN['LEAX']).translate()",
    "ExtendedIndexedOperand('[V+W,PCR]', MN['LEAX']).translate()",
    ("IndexedOperand('V+W,PCR', MN['LEAX']).resolve_symbols({'V': NumericValue(5), 'W': NumericValue(300), 'L': "
     "AddressValue(1), 'M': AddressValue(7)}).translate()"),
    ("ExtendedIndexedOperand('[V+W,PCR]', MN['LEAX']).resolve_symbols({'V': NumericValue(5), 'W': "
     "NumericValue(300), 'L': AddressValue(1), 'M': AddressValue(7)}).translate()"),
    "IndexedOperand('V+W,PCR', MN['LDA']).translate()",
    "ExtendedIndexedOperand('[V+W,PCR]', MN['LDA']).translate()",
    ("IndexedOperand('V+W,PCR', MN['LDA']).resolve_symbols({'V': NumericValue(5), 'W': NumericValue(300), 'L': "
     "AddressValue(1), 'M': AddressValue(7)}).translate()"),
    ("ExtendedIndexedOperand('[V+W,PCR]', MN['LDA']).resolve_symbols({'V': NumericValue(5), 'W': "
     "NumericValue(300), 'L': AddressValue(1), 'M': AddressValue(7)}).translate()"),
    "IndexedOperand('V+W,PCR', MN['STD']).translate()",
    "ExtendedIndexedOperand('[V+W,PCR]', MN['STD']).translate()",
    ("IndexedOperand('V+W,PCR', MN['STD']).resolve_symbols({'V': NumericValue(5), 'W': NumericValue(300), 'L': "
     "AddressValue(1), 'M': AddressValue(7)}).translate()"),
    ("ExtendedIndexedOperand('[V+W,PCR]', MN['STD']).resolve_symbols({'V': NumericValue(5), 'W': "
     "NumericValue(300), 'L': AddressValue(1), 'M': AddressValue(7)}).translate()"),
    "IndexedOperand('L+M,PCR', MN['LEAX']).translate()",
    "ExtendedIndexedOperand('[L+M,PCR]', MN['LEAX']).translate()",
    ("IndexedOperand('L+M,PCR', MN['LEAX']).resolve_symbols({'V': NumericValue(5), 'W': NumericValue(300), 'L': "
     "AddressValue(1), 'M': AddressValue(7)}).translate()"),
    ("ExtendedIndexedOperand('[L+M,PCR]', MN['LEAX']).resolve_symbols({'V': NumericValue(5), 'W': "
     "NumericValue(300), 'L': AddressValue(1), 'M': AddressValue(7)}).translate()"),
    "IndexedOperand('L+M,PCR', MN['LDA']).translate()",
    "ExtendedIndexedOperand('[L+M,PCR]', MN['LDA']).translate()",
    ("IndexedOperand('L+M,PCR', MN['LDA']).resolve_symbols({'V': NumericValue(5), 'W': NumericValue(300), 'L': "
     "AddressValue(1), 'M': AddressValue(7)}).translate()"),
    ("ExtendedIndexedOperand('[L+M,PCR]', MN['LDA']).resolve_symbols({'V': NumericValue(5), 'W': "
     "NumericValue(300), 'L': AddressValue(1), 'M': AddressValue(7)}).translate()"),
    "IndexedOperand('L+M,PCR', MN['STD']).translate()",
    "ExtendedIndexedOperand('[L+M,PCR]', MN['STD']).translate()",
    ("IndexedOperand('L+M,PCR', MN['STD']).resolve_symbols({'V': NumericValue(5), 'W': NumericValue(300), 'L': "
     "AddressValue(1), 'M': AddressValue(7)}).translate()"),
    ("ExtendedIndexedOperand('[L+M,PCR]', MN['STD']).resolve_symbols({'V': NumericValue(5), 'W': "
     "NumericValue(300), 'L': AddressValue(1), 'M': AddressValue(7)}).translate()"),
    "IndexedOperand('NOPE,PCR', MN['LEAX']).translate()",
    "ExtendedIndexedOperand('[NOPE,PCR]', MN['LEAX']).translate()",
    ("IndexedOperand('NOPE,PCR', MN['LEAX']).resolve_symbols({'V': NumericValue(5), 'W': NumericValue(300), 'L': "
     "AddressValue(1), 'M': AddressValue(7)}).translate()"),
    ("ExtendedIndexedOperand('[NOPE,PCR]', MN['LEAX']).resolve_symbols({'V': NumericValue(5), 'W': "
     "NumericValue(300), 'L': AddressValue(1), 'M': AddressValue(7)}).translate()"),
    "IndexedOperand('NOPE,PCR', MN['LDA']).translate()",
    "ExtendedIndexedOperand('[NOPE,PCR]', MN['LDA']).translate()",
    ("IndexedOperand('NOPE,PCR', MN['LDA']).resolve_symbols({'V': NumericValue(5), 'W': NumericValue(300), 'L': "
     "AddressValue(1), 'M': AddressValue(7)}).translate()"),
    ("ExtendedIndexedOperand('[NOPE,PCR]', MN['LDA']).resolve_symbols({'V': NumericValue(5), 'W': "
     "NumericValue(300), 'L': AddressValue(1), 'M': AddressValue(7)}).translate()"),
    "IndexedOperand('NOPE,PCR', MN['STD']).translate()",
    "ExtendedIndexedOperand('[NOPE,PCR]', MN['STD']).translate()",
    ("IndexedOperand('NOPE,PCR', MN['STD']).resolve_symbols({'V': NumericValue(5), 'W': NumericValue(300), 'L': "
     "AddressValue(1), 'M': AddressValue(7)}).translate()"),
    ("ExtendedIndexedOperand('[NOPE,PCR]', MN['STD']).resolve_symbols({'V': NumericValue(5), 'W': "
     "NumericValue(300), 'L': AddressValue(1), 'M': AddressValue(7)}).translate()"),
    "IndexedOperand(',PCR', MN['LEAX']).translate()",
    "ExtendedIndexedOperand('[,PCR]', MN['LEAX']).translate()",
    ("IndexedOperand(',PCR', MN['LEAX']).resolve_symbols({'V': NumericValue(5), 'W': NumericValue(300), 'L': "
     "AddressValue(1), 'M': AddressValue(7)}).translate()"),
    ("ExtendedIndexedOperand('[,PCR]', MN['LEAX']).resolve_symbols({'V': NumericValue(5), 'W': "
     "NumericValue(300), 'L': AddressValue(1), 'M': AddressValue(7)}).translate()"),
    "IndexedOperand(',PCR', MN['LDA']).translate()",
    "ExtendedIndexedOperand('[,PCR]', MN['LDA']).translate()",
    ("IndexedOperand(',PCR', MN['LDA']).resolve_symbols({'V': NumericValue(5), 'W': NumericValue(300), 'L': "
     "AddressValue(1), 'M': AddressValue(7)}).translate()"),
    ("ExtendedIndexedOperand('[,PCR]', MN['LDA']).resolve_symbols({'V': NumericValue(5), 'W': NumericValue(300), "
     "'L': AddressValue(1), 'M': AddressValue(7)}).translate()"),
    "IndexedOperand(',PCR', MN['STD']).translate()",
    "ExtendedIndexedOperand('[,PCR]', MN['STD']).translate()",
    ("IndexedOperand(',PCR', MN['STD']).resolve_symbols({'V': NumericValue(5), 'W': NumericValue(300), 'L': "
     "AddressValue(1), 'M': AddressValue(7)}).translate()"),
    ("ExtendedIndexedOperand('[,PCR]', MN['STD']).resolve_symbols({'V': NumericValue(5), 'W': NumericValue(300), "
     "'L': AddressValue(1), 'M': AddressValue(7)}).translate()"),
    "IndexedOperand('A,PCR', MN['LEAX']).translate()",
    "ExtendedIndexedOperand('[A,PCR]', MN['LEAX']).translate()",
    ("IndexedOperand('A,PCR', MN['LEAX']).resolve_symbols({'V': NumericValue(5), 'W': NumericValue(300), 'L': "
     "AddressValue(1), 'M': AddressValue(7)}).translate()"),
    ("ExtendedIndexedOperand('[A,PCR]', MN['LEAX']).resolve_symbols({'V': NumericValue(5), 'W': "
     "NumericValue(300), 'L': AddressValue(1), 'M': AddressValue(7)}).translate()"),
    "IndexedOperand('A,PCR', MN['LDA']).translate()",
    "ExtendedIndexedOperand('[A,PCR]', MN['LDA']).translate()",
    ("IndexedOperand('A,PCR', MN['LDA']).resolve_symbols({'V': NumericValue(5), 'W': NumericValue(300), 'L': "
     "AddressValue(1), 'M': AddressValue(7)}).translate()"),
    ("ExtendedIndexedOperand('[A,PCR]', MN['LDA']).resolve_symbols({'V': NumericValue(5), 'W': "
     "NumericValue(300), 'L': AddressValue(1), 'M': AddressValue(7)}).translate()"),
    "IndexedOperand('A,PCR', MN['STD']).translate()",
    "ExtendedIndexedOperand('[A,PCR]', MN['STD']).translate()",
    ("IndexedOperand('A,PCR', MN['STD']).resolve_symbols({'V': NumericValue(5), 'W': NumericValue(300), 'L': "
     "AddressValue(1), 'M': AddressValue(7)}).translate()"),
    ("ExtendedIndexedOperand('[A,PCR]', MN['STD']).resolve_symbols({'V': NumericValue(5), 'W': "
     "NumericValue(300), 'L': AddressValue(1), 'M': AddressValue(7)}).translate()"),
    "IndexedOperand('B,PCR', MN['LEAX']).translate()",
    "ExtendedIndexedOperand('[B,PCR]', MN['LEAX']).translate()",
    ("IndexedOperand('B,PCR', MN['LEAX']).resolve_symbols({'V': NumericValue(5), 'W': NumericValue(300), 'L': "
     "AddressValue(1), 'M': AddressValue(7)}).translate()"),
    ("ExtendedIndexedOperand('[B,PCR]', MN['LEAX']).resolve_symbols({'V': NumericValue(5), 'W': "
     "NumericValue(300), 'L': AddressValue(1), 'M': AddressValue(7)}).translate()"),
    "IndexedOperand('B,PCR', MN['LDA']).translate()",
    "ExtendedIndexedOperand('[B,PCR]', MN['LDA']).translate()",
    ("IndexedOperand('B,PCR', MN['LDA']).resolve_symbols({'V': NumericValue(5), 'W': NumericValue(300), 'L': "
     "AddressValue(1), 'M': AddressValue(7)}).translate()"),
    ("ExtendedIndexedOperand('[B,PCR]', MN['LDA']).resolve_symbols({'V': NumericValue(5), 'W': "
     "NumericValue(300), 'L': AddressValue(1), 'M': AddressValue(7)}).translate()"),
    "IndexedOperand('B,PCR', MN['STD']).translate()",
    "ExtendedIndexedOperand('[B,PCR]', MN['STD']).translate()",
    ("IndexedOperand('B,PCR', MN['STD']).resolve_symbols({'V': NumericValue(5), 'W': NumericValue(300), 'L': "
     "AddressValue(1), 'M': AddressValue(7)}).translate()"),
    ("ExtendedIndexedOperand('[B,PCR]', MN['STD']).resolve_symbols({'V': NumericValue(5), 'W': "
     "NumericValue(300), 'L': AddressValue(1), 'M': AddressValue(7)}).translate()"),
    "IndexedOperand('D,PCR', MN['LEAX']).translate()",
    "ExtendedIndexedOperand('[D,PCR]', MN['LEAX']).translate()",
    ("IndexedOperand('D,PCR', MN['LEAX']).resolve_symbols({'V': NumericValue(5), 'W': NumericValue(300), 'L': "
     "AddressValue(1), 'M': AddressValue(7)}).translate()"),
    ("ExtendedIndexedOperand('[D,PCR]', MN['LEAX']).resolve_symbols({'V': NumericValue(5), 'W': "
     "NumericValue(300), 'L': AddressValue(1), 'M': AddressValue(7)}).translate()"),
    "IndexedOperand('D,PCR', MN['LDA']).translate()",
    "ExtendedIndexedOperand('[D,PCR]', MN['LDA']).translate()",
    ("IndexedOperand('D,PCR', MN['LDA']).resolve_symbols({'V': NumericValue(5), 'W': NumericValue(300), 'L': "
     "AddressValue(1), 'M': AddressValue(7)}).translate()"),
    ("ExtendedIndexedOperand('[D,PCR]', MN['LDA']).resolve_symbols({'V': NumericValue(5), 'W': "
     "NumericValue(300), 'L': AddressValue(1), 'M': AddressValue(7)}).translate()"),
    "IndexedOperand('D,PCR', MN['STD']).translate()",
    "ExtendedIndexedOperand('[D,PCR]', MN['STD']).translate()",
    ("IndexedOperand('D,PCR', MN['STD']).resolve_symbols({'V': NumericValue(5), 'W': NumericValue(300), 'L': "
     "AddressValue(1), 'M': AddressValue(7)}).translate()"),
    ("ExtendedIndexedOperand('[D,PCR]', MN['STD']).resolve_symbols({'V': NumericValue(5), 'W': "
     "NumericValue(300), 'L': AddressValue(1), 'M': AddressValue(7)}).translate()"),
    "IndexedOperand('<$12,PCR', MN['LEAX']).translate()",
    "ExtendedIndexedOperand('[<$12,PCR]', MN['LEAX']).translate()",
    ("IndexedOperand('<$12,PCR', MN['LEAX']).resolve_symbols({'V': NumericValue(5), 'W': NumericValue(300), 'L': "
     "AddressValue(1), 'M': AddressValue(7)}).translate()"),
    ("ExtendedIndexedOperand('[<$12,PCR]', MN['LEAX']).resolve_symbols({'V': NumericValue(5), 'W': "
     "NumericValue(300), 'L': AddressValue(1), 'M': AddressValue(7)}).translate()"),
    "IndexedOperand('<$12,PCR', MN['LDA']).translate()",
    "ExtendedIndexedOperand('[<$12,PCR]', MN['LDA']).translate()",
    ("IndexedOperand('<$12,PCR', MN['LDA']).resolve_symbols({'V': NumericValue(5), 'W': NumericValue(300), 'L': "
     "AddressValue(1), 'M': AddressValue(7)}).translate()"),
    ("ExtendedIndexedOperand('[<$12,PCR]', MN['LDA']).resolve_symbols({'V': NumericValue(5), 'W': "
     "NumericValue(300), 'L': AddressValue(1), 'M': AddressValue(7)}).translate()"),
    "IndexedOperand('<$12,PCR', MN['STD']).translate()",
    "ExtendedIndexedOperand('[<$12,PCR]', MN['STD']).translate()",
    ("IndexedOperand('<$12,PCR', MN['STD']).resolve_symbols({'V': NumericValue(5), 'W': NumericValue(300), 'L': "
     "AddressValue(1), 'M': AddressValue(7)}).translate()"),
    ("ExtendedIndexedOperand('[<$12,PCR]', MN['STD']).resolve_symbols({'V': NumericValue(5), 'W': "
     "NumericValue(300), 'L': AddressValue(1), 'M': AddressValue(7)}).translate()"),
    "IndexedOperand('>$12,PCR', MN['LEAX']).translate()",
    "ExtendedIndexedOperand('[>$12,PCR]', MN['LEAX']).translate()",
    ("IndexedOperand('>$12,PCR', MN['LEAX']).resolve_symbols({'V': NumericValue(5), 'W': NumericValue(300), 'L': "
     "AddressValue(1), 'M': AddressValue(7)}).translate()"),
    ("ExtendedIndexedOperand('[>$12,PCR]', MN['LEAX']).resolve_symbols({'V': NumericValue(5), 'W': "
     "NumericValue(300), 'L': AddressValue(1), 'M': AddressValue(7)}).translate()"),
    "IndexedOperand('>$12,PCR', MN['LDA']).translate()",
    "ExtendedIndexedOperand('[>$12,PCR]', MN['LDA']).translate()",
    ("IndexedOperand('>$12,PCR', MN['LDA']).resolve_symbols({'V': NumericValue(5), 'W': NumericValue(300), 'L': "
     "AddressValue(1), 'M': AddressValue(7)}).translate()"),
    ("ExtendedIndexedOperand('[>$12,PCR]', MN['LDA']).resolve_symbols({'V': NumericValue(5), 'W': "
     "NumericValue(300), 'L': AddressValue(1), 'M': AddressValue(7)}).translate()"),
    "IndexedOperand('>$12,PCR', MN['STD']).translate()",
    "ExtendedIndexedOperand('[>$12,PCR]', MN['STD']).translate()",
    ("IndexedOperand('>$12,PCR', MN['STD']).resolve_symbols({'V': NumericValue(5), 'W': NumericValue(300), 'L': "
     "AddressValue(1), 'M': AddressValue(7)}).translate()"),
    ("ExtendedIndexedOperand('[>$12,PCR]', MN['STD']).resolve_symbols({'V': NumericValue(5), 'W': "
     "NumericValue(300), 'L': AddressValue(1), 'M': AddressValue(7)}).translate()"),
    ("[(m, show((lambda: RelativeOperand('L', MN[m]))() if True else 0)) for m in ['BRA', 'LBRA', 'BSR', 'LBSR', "
     "'BNE', 'LBEQ']]"),
    ("[(m, show(RelativeOperand('L', MN[m]).resolve_symbols({'V': NumericValue(5), 'W': NumericValue(300), 'L': "
     "AddressValue(1), 'M': AddressValue(7)}).translate())) for m in ['BRA', 'LBRA', 'BSR', 'LBSR', 'BNE', "
     "'LBEQ']]"),
    ("[(m, show((lambda: RelativeOperand('$1234', MN[m]))() if True else 0)) for m in ['BRA', 'LBRA', 'BSR', "
     "'LBSR', 'BNE', 'LBEQ']]"),
    ("[(m, show(RelativeOperand('$1234', MN[m]).resolve_symbols({'V': NumericValue(5), 'W': NumericValue(300), "
     "'L': AddressValue(1), 'M': AddressValue(7)}).translate())) for m in ['BRA', 'LBRA', 'BSR', 'LBSR', 'BNE', "
     "'LBEQ']]"),
    ("[(m, show((lambda: RelativeOperand('5', MN[m]))() if True else 0)) for m in ['BRA', 'LBRA', 'BSR', 'LBSR', "
     "'BNE', 'LBEQ']]"),
    ("[(m, show(RelativeOperand('5', MN[m]).resolve_symbols({'V': NumericValue(5), 'W': NumericValue(300), 'L': "
     "AddressValue(1), 'M': AddressValue(7)}).translate())) for m in ['BRA', 'LBRA', 'BSR', 'LBSR', 'BNE', "
     "'LBEQ']]"),
    ("[(m, show((lambda: RelativeOperand('', MN[m]))() if True else 0)) for m in ['BRA', 'LBRA', 'BSR', 'LBSR', "
     "'BNE', 'LBEQ']]"),
    ("[(m, show(RelativeOperand('', MN[m]).resolve_symbols({'V': NumericValue(5), 'W': NumericValue(300), 'L': "
     "AddressValue(1), 'M': AddressValue(7)}).translate())) for m in ['BRA', 'LBRA', 'BSR', 'LBSR', 'BNE', "
     "'LBEQ']]"),
    ("[(m, show((lambda: RelativeOperand('V', MN[m]))() if True else 0)) for m in ['BRA', 'LBRA', 'BSR', 'LBSR', "
     "'BNE', 'LBEQ']]"),
    ("[(m, show(RelativeOperand('V', MN[m]).resolve_symbols({'V': NumericValue(5), 'W': NumericValue(300), 'L': "
     "AddressValue(1), 'M': AddressValue(7)}).translate())) for m in ['BRA', 'LBRA', 'BSR', 'LBSR', 'BNE', "
     "'LBEQ']]"),
    ("[(m, show((lambda: RelativeOperand('L+1', MN[m]))() if True else 0)) for m in ['BRA', 'LBRA', 'BSR', "
     "'LBSR', 'BNE', 'LBEQ']]"),
    ("[(m, show(RelativeOperand('L+1', MN[m]).resolve_symbols({'V': NumericValue(5), 'W': NumericValue(300), "
     "'L': AddressValue(1), 'M': AddressValue(7)}).translate())) for m in ['BRA', 'LBRA', 'BSR', 'LBSR', 'BNE', "
     "'LBEQ']]"),
    ("[(m, show((lambda: RelativeOperand('#5', MN[m]))() if True else 0)) for m in ['BRA', 'LBRA', 'BSR', "
     "'LBSR', 'BNE', 'LBEQ']]"),
    ("[(m, show(RelativeOperand('#5', MN[m]).resolve_symbols({'V': NumericValue(5), 'W': NumericValue(300), 'L': "
     "AddressValue(1), 'M': AddressValue(7)}).translate())) for m in ['BRA', 'LBRA', 'BSR', 'LBSR', 'BNE', "
     "'LBEQ']]"),
    ("[(m, show((lambda: RelativeOperand('<$12', MN[m]))() if True else 0)) for m in ['BRA', 'LBRA', 'BSR', "
     "'LBSR', 'BNE', 'LBEQ']]"),
    ("[(m, show(RelativeOperand('<$12', MN[m]).resolve_symbols({'V': NumericValue(5), 'W': NumericValue(300), "
     "'L': AddressValue(1), 'M': AddressValue(7)}).translate())) for m in ['BRA', 'LBRA', 'BSR', 'LBSR', 'BNE', "
     "'LBEQ']]"),
    ("[(m, show((lambda: RelativeOperand(',X', MN[m]))() if True else 0)) for m in ['BRA', 'LBRA', 'BSR', "
     "'LBSR', 'BNE', 'LBEQ']]"),
    ("[(m, show(RelativeOperand(',X', MN[m]).resolve_symbols({'V': NumericValue(5), 'W': NumericValue(300), 'L': "
     "AddressValue(1), 'M': AddressValue(7)}).translate())) for m in ['BRA', 'LBRA', 'BSR', 'LBSR', 'BNE', "
     "'LBEQ']]"),
    ("[(m, show((lambda: RelativeOperand('[L]', MN[m]))() if True else 0)) for m in ['BRA', 'LBRA', 'BSR', "
     "'LBSR', 'BNE', 'LBEQ']]"),
    ("[(m, show(RelativeOperand('[L]', MN[m]).resolve_symbols({'V': NumericValue(5), 'W': NumericValue(300), "
     "'L': AddressValue(1), 'M': AddressValue(7)}).translate())) for m in ['BRA', 'LBRA', 'BSR', 'LBSR', 'BNE', "
     "'LBEQ']]"),
    ("[(m, show((lambda: RelativeOperand('-5', MN[m]))() if True else 0)) for m in ['BRA', 'LBRA', 'BSR', "
     "'LBSR', 'BNE', 'LBEQ']]"),
    ("[(m, show(RelativeOperand('-5', MN[m]).resolve_symbols({'V': NumericValue(5), 'W': NumericValue(300), 'L': "
     "AddressValue(1), 'M': AddressValue(7)}).translate())) for m in ['BRA', 'LBRA', 'BSR', 'LBSR', 'BNE', "
     "'LBEQ']]"),
    ("[(m, show((lambda: RelativeOperand('NOPE', MN[m]))() if True else 0)) for m in ['BRA', 'LBRA', 'BSR', "
     "'LBSR', 'BNE', 'LBEQ']]"),
    ("[(m, show(RelativeOperand('NOPE', MN[m]).resolve_symbols({'V': NumericValue(5), 'W': NumericValue(300), "
     "'L': AddressValue(1), 'M': AddressValue(7)}).translate())) for m in ['BRA', 'LBRA', 'BSR', 'LBSR', 'BNE', "
     "'LBEQ']]"),
    ("[(m, show((lambda m=m: (lambda f: f())(lambda: RelativeOperand('L', MN[m])))) if False else 0) for m in "
     'sorted(MN)][:3]'),
    "RelativeOperand('L', MN['LDA'])",
    "RelativeOperand('L', MN['JMP'])",
    "RelativeOperand('L', MN['NOP'])",
    "RelativeOperand('L', MN['FCB'])",
    "RelativeOperand('L', MN['EQU'])",
    "RelativeOperand('L', MN['PSHS'])",
    "RelativeOperand('L', MN['LEAX'])",
    "RelativeOperand('L', None)",
    "RelativeOperand('', MN['BRA'], value=AddressValue(4)).translate()",
    "RelativeOperand('', MN['BRA'], value=NumericValue(4)).translate()",
    "RelativeOperand('X', MN['LBRA'], value=0).translate()",
]

# Command line runs: (name, [source lines], [arguments], [files expected])
CLI_CASES = [
    ('pcr and branch listing',
     [' NAM PB',
      ' ORG $E00',
      'V EQU 5',
      'S LEAX T,PCR',
      ' LDA V,PCR',
      ' LDA 300,PCR',
      ' LDA [S,PCR]',
      ' BRA T',
      ' LBRA T',
      ' RMB 120',
      'T LEAX S,PCR',
      ' BNE S',
      ' RTS'],
     [['--print', '--symbols', '--to_bin', 'o.bin']],
     []),
]

USE_CORPUS = True

# --------------------------------------------------------------------------
# worker: runs inside ONE tree
# --------------------------------------------------------------------------


def show(obj, depth=0):
    """Turns a library object into plain comparable data."""
    from enum import Enum
    if depth > 6:
        return "<deep>"
    if obj is None or isinstance(obj, (bool, int, float, str)):
        return obj
    if isinstance(obj, bytes):
        return obj.hex()
    if isinstance(obj, Enum):
        return "{}.{}".format(type(obj).__name__, obj.name)
    if isinstance(obj, (list, tuple)):
        return [show(x, depth + 1) for x in obj]
    if isinstance(obj, (set, frozenset)):
        return sorted(repr(show(x, depth + 1)) for x in obj)
    if isinstance(obj, dict):
        return {str(k): show(v, depth + 1) for k, v in obj.items()}
    if isinstance(obj, BaseException):
        return describe_error(obj)
    if isinstance(obj, type):
        return "class " + obj.__name__
    result = {"__class__": type(obj).__name__}
    fields = getattr(obj, "__dict__", None)
    if fields is None:
        return repr(obj)
    for key in sorted(fields):
        if key.startswith("_"):
            continue
        result[key] = show(fields[key], depth + 1)
    for method in ("hex", "hex_len", "byte_len", "ascii", "is_8_bit", "is_16_bit", "is_4_bit",
                   "high_byte", "low_byte"):
        function = getattr(obj, method, None)
        if callable(function) and hasattr(obj, "explict_addressing_mode"):
            try:
                result["." + method] = show(function(), depth + 1)
            except Exception as error:
                result["." + method] = describe_error(error)
    return result


def describe_error(error):
    description = {"error": type(error).__name__, "text": str(error), "args": show(list(error.args))}
    if hasattr(error, "value"):
        description["value"] = show(getattr(error, "value"))
    if hasattr(error, "statement"):
        statement = getattr(error, "statement")
        try:
            description["statement"] = str(statement)
        except Exception as inner:
            description["statement"] = "unprintable: " + type(inner).__name__
    return description


def assemble(lines):
    from cocoasm.program import Program
    program = Program()
    try:
        program.process(list(lines))
    except BaseException as error:
        return {"raised": describe_error(error),
                "symbols_so_far": sorted(program.symbol_table.keys())}
    outcome = {}
    for name, function in (
            ("binary", program.get_binary_array),
            ("listing", program.get_statements),
            ("symbols", program.get_symbol_table),
    ):
        try:
            outcome[name] = show(function())
        except BaseException as error:
            outcome[name] = describe_error(error)
    outcome["origin"] = show(program.origin)
    outcome["name"] = show(program.name)
    outcome["packages"] = [
        [s.code_pkg.size, s.code_pkg.max_size, s.fixed_size, s.pcr_size_hint,
         show(s.code_pkg.post_byte_choices), s.code_pkg.additional_needs_resolution,
         type(s.operand).__name__, show(s.operand.type)]
        for s in program.statements
    ]
    return outcome


def run_cli(tree, name, lines, arguments, files):
    results = {}
    with tempfile.TemporaryDirectory() as scratch:
        source = os.path.join(scratch, "input.asm")
        with open(source, "w") as handle:
            handle.write("\n".join(lines) + "\n")
        environment = dict(os.environ, PYTHONPATH=tree, PYTHONDONTWRITEBYTECODE="1")
        for round_number, argument_list in enumerate(arguments):
            completed = subprocess.run(
                [sys.executable, os.path.join(tree, "assembler.py"), "input.asm"] + argument_list,
                cwd=scratch, env=environment, capture_output=True, text=True, timeout=120,
            )
            results["run{}".format(round_number)] = {
                "stdout": completed.stdout.replace(tree, "<TREE>"),
                "stderr": completed.stderr.replace(tree, "<TREE>"),
                "code": completed.returncode,
            }
        produced = {}
        for file_name in sorted(os.listdir(scratch)):
            if file_name == "input.asm":
                continue
            with open(os.path.join(scratch, file_name), "rb") as handle:
                produced[file_name] = handle.read().hex()
        results["files"] = produced
    return results


def worker(tree):
    tree = os.path.abspath(tree)
    sys.path.insert(0, tree)
    os.chdir(tree)
    sys.dont_write_bytecode = True
    results = {}

    import cocoasm.instruction
    import cocoasm.operands
    import cocoasm.values
    import cocoasm.statement
    import cocoasm.program
    assert os.path.abspath(cocoasm.program.__file__).startswith(tree), cocoasm.program.__file__

    for name, lines in CASES:
        # as SourceFile.readlines() delivers them, and bare
        results["case:" + name] = assemble([line + "\n" for line in lines])
        results["bare:" + name] = assemble(lines)

    namespace = {"show": show}
    for module in (cocoasm.instruction, cocoasm.operands, cocoasm.values, cocoasm.statement, cocoasm.program):
        namespace.update({k: v for k, v in vars(module).items() if not k.startswith("__")})
    namespace["MN"] = {i.mnemonic: i for i in cocoasm.instruction.INSTRUCTIONS}
    for expression in PROBES:
        try:
            results["probe:" + expression] = show(eval(expression, dict(namespace)))
        except BaseException as error:
            results["probe:" + expression] = {"raised": describe_error(error)}

    if USE_CORPUS:
        for instruction in cocoasm.instruction.INSTRUCTIONS:
            for operand in OPERAND_FORMS:
                lines = [x.format(mnemonic=instruction.mnemonic, operand=operand) + "\n" for x in CORPUS_TEMPLATE]
                outcome = assemble(lines)
                # the corpus is big: keep a digest plus the essentials
                blob = json.dumps(outcome, sort_keys=True)
                results["corpus:{} {}".format(instruction.mnemonic, operand)] = [
                    hashlib.sha1(blob.encode()).hexdigest(),
                    outcome.get("binary", outcome.get("raised")),
                ]

    for name, lines, arguments, files in CLI_CASES:
        results["cli:" + name] = run_cli(tree, name, lines, arguments, files)

    json.dump(results, sys.stdout, sort_keys=True)


# --------------------------------------------------------------------------
# driver
# --------------------------------------------------------------------------


def main():
    if len(sys.argv) == 3 and sys.argv[1] == "--worker":
        worker(sys.argv[2])
        return 0
    if len(sys.argv) != 3:
        print(__doc__)
        return 2
    outputs = []
    for tree in sys.argv[1:3]:
        tree = os.path.abspath(tree)
        completed = subprocess.run(
            [sys.executable, os.path.abspath(__file__), "--worker", tree],
            capture_output=True, text=True, cwd=tree,
            env=dict(os.environ, PYTHONDONTWRITEBYTECODE="1"),
        )
        if completed.returncode != 0:
            print("worker failed for", tree)
            print(completed.stderr[-3000:])
            return 1
        outputs.append(json.loads(completed.stdout))
    first, second = outputs
    differences = 0
    for key in sorted(set(first) | set(second)):
        if first.get(key, "<missing>") != second.get(key, "<missing>"):
            differences += 1
            if differences <= 10:
                print("DIFFERENT:", key)
                print("   A:", json.dumps(first.get(key, "<missing>"), sort_keys=True)[:300])
                print("   B:", json.dumps(second.get(key, "<missing>"), sort_keys=True)[:300])
    kinds = {}
    for key in first:
        kinds[key.split(":")[0]] = kinds.get(key.split(":")[0], 0) + 1
    print("compared {} results ({}); {} differ".format(
        len(first), ", ".join("{} {}".format(v, k) for k, v in sorted(kinds.items())), differences))
    return 1 if differences else 0


if __name__ == "__main__":
    sys.exit(main())
