#!/usr/bin/env python
"""
Differential demonstration: runs the same inputs through the code of two source
trees (one subprocess per tree, the tree first on sys.path and as cwd) and
compares every observable result.

usage: equiv.py <treeA> <treeB>      exit 0 = all cases agree, 1 = a difference
"""
import json
import os
import subprocess
import sys
import tempfile

WORKER = r'''
import contextlib, io, json, os, subprocess, sys, tempfile

tree = os.path.abspath(sys.argv[1])
sys.path.insert(0, tree)
os.chdir(tree)
cases = json.load(sys.stdin)

from cocoasm.program import Program


def describe_exc(error):
    info = {"type": type(error).__name__, "str": str(error)}
    if hasattr(error, "value"):
        info["value"] = str(error.value)
    statement = getattr(error, "statement", None)
    if statement is not None:
        try:
            info["statement"] = str(statement)
        except Exception as inner:
            info["statement"] = "unprintable " + type(inner).__name__
    return info


def guarded(function):
    try:
        return function()
    except Exception as error:
        return {"error": describe_exc(error)}


def observe_program(lines):
    program = Program()
    try:
        program.process(lines)
    except Exception as error:
        return {"error": describe_exc(error)}
    return {
        "binary": guarded(program.get_binary_array),
        "listing": guarded(program.get_statements),
        "symbols": guarded(program.get_symbol_table),
        "origin": guarded(lambda: program.origin.hex()),
        "name": program.name,
        "detail": guarded(lambda: [
            [s.code_pkg.size, s.code_pkg.max_size, s.fixed_size, s.pcr_size_hint,
             type(s.operand).__name__, list(s.code_pkg.post_byte_choices),
             s.code_pkg.additional_needs_resolution, s.code_pkg.op_code.hex(),
             s.code_pkg.post_byte.hex(), s.code_pkg.additional.hex(), s.code_pkg.address.hex()]
            for s in program.statements]),
    }


def observe_call(code):
    namespace = {}
    try:
        exec(code, namespace)
        return {"result": namespace.get("result")}
    except Exception as error:
        return {"error": describe_exc(error)}


def observe_cli(lines, args, tool="assembler.py", extra_files=None):
    with tempfile.TemporaryDirectory() as work:
        with open(os.path.join(work, "prog.asm"), "w") as handle:
            handle.writelines(lines)
        for name, text in (extra_files or {}).items():
            with open(os.path.join(work, name), "w") as handle:
                handle.write(text)
        before = set(os.listdir(work))
        done = subprocess.run(
            [sys.executable, os.path.join(tree, tool)] + args,
            cwd=work, capture_output=True, text=True,
            env=dict(os.environ, PYTHONPATH=tree, PYTHONDONTWRITEBYTECODE="1"),
        )
        files = {}
        for name in sorted(set(os.listdir(work)) - before):
            with open(os.path.join(work, name), "rb") as handle:
                files[name] = handle.read().hex()
        stderr_tail = done.stderr.strip().splitlines()[-1:] if done.stderr.strip() else []
        return {"code": done.returncode, "stdout": done.stdout, "stderr_tail": stderr_tail, "files": files}


results = []
for case in cases:
    kind = case["kind"]
    if kind == "program":
        results.append(observe_program(case["lines"]))
    elif kind == "call":
        results.append(observe_call(case["code"]))
    elif kind == "cli":
        results.append(observe_cli(case["lines"], case["args"], case.get("tool", "assembler.py"),
                                   case.get("extra_files")))
    else:
        raise SystemExit("unknown case kind " + kind)
json.dump(results, sys.stdout)
'''


def prog(*lines):
    """A program case; every line gets its newline like a line read from a file."""
    return {"kind": "program", "lines": [line + "\n" for line in lines]}


def call(code):
    """A direct library call; the snippet leaves a JSON-friendly value in `result`."""
    return {"kind": "call", "code": code}


def cli(lines, args=("prog.asm", "--print", "--symbols", "--to_bin", "out.bin"), extra_files=None):
    return {"kind": "cli", "lines": [line + "\n" for line in lines], "args": list(args),
            "extra_files": extra_files}


def run_tree(tree, cases):
    with tempfile.TemporaryDirectory() as work:
        worker = os.path.join(work, "worker.py")
        with open(worker, "w") as handle:
            handle.write(WORKER)
        done = subprocess.run(
            [sys.executable, worker, tree], input=json.dumps(cases), capture_output=True, text=True,
            cwd=tree, env=dict(os.environ, PYTHONDONTWRITEBYTECODE="1"),
        )
    if done.returncode != 0:
        print("worker failed for", tree)
        print(done.stderr)
        sys.exit(1)
    return json.loads(done.stdout)


def main(cases):
    if len(sys.argv) != 3:
        print(__doc__)
        sys.exit(2)
    tree_a, tree_b = (os.path.abspath(p) for p in sys.argv[1:3])
    results_a = run_tree(tree_a, cases)
    results_b = run_tree(tree_b, cases)
    differences = 0
    accepted = 0
    for number, (case, a, b) in enumerate(zip(cases, results_a, results_b)):
        if "error" not in a:
            accepted += 1
        if a != b:
            differences += 1
            print("DIFFERENCE in case", number, json.dumps(case)[:300])
            print("   A:", json.dumps(a)[:600])
            print("   B:", json.dumps(b)[:600])
    print("{} cases, {} without error in tree A, {} differences".format(len(cases), accepted, differences))
    sys.exit(1 if differences or len(results_a) != len(cases) or len(results_b) != len(cases) else 0)


# ---------------------------------------------------------------------------
# cases
# ---------------------------------------------------------------------------
CASES = []

OPERANDS = ["HERE", "THERE", "#HERE", "#THERE", "HERE+2", "THERE-1", "#THERE+3", "HERE*2", "THERE/2", "2+THERE", "10-HERE",
            "THERE/0", "0/THERE", "[HERE]", "[THERE]", "[THERE+1]", "<HERE", ">THERE", "HERE,PCR", "THERE,PCR", "[HERE,PCR]",
            "[THERE,PCR]", "HERE+1,PCR", "THERE-2,PCR", "[THERE+4,PCR]", "2+THERE,PCR", "THERE*2,PCR", "THERE/0,PCR",
            "HERE-THERE", "THERE-HERE", "HERE+THERE,PCR", "CONST", "CONST+1", "#CONST", "CONST,PCR", "THERE+CONST",
            "THERE+CONST,PCR", "HERE,X", "THERE,Y", "[THERE,U]", "NOWHERE", "NOWHERE,PCR", "NOWHERE+1,PCR"]

for origin in ("$0", "$3F00"):
    for position, operand in enumerate(OPERANDS):
        mnemonic = ("LDX", "LDA", "LEAY", "CMPS", "JSR", "STD")[position % 6]
        if operand.startswith("#") and mnemonic in ("LEAY", "JSR", "STD"):
            mnemonic = "LDU"
        CASES.append(prog("CONST EQU $12", "      ORG " + origin, "HERE  NOP ", "      {} {}".format(mnemonic, operand),
                          "      RMB 200", "THERE RTS ", "      END HERE"))

# labels in data directives and several label operands in one program, sizes settled late
CASES.append(prog("      ORG $1000", "START LDX #TABLE", "      LDA TABLE+1", "      LEAU TABLE,PCR", "      LDB [VECTOR]",
                  "      JMP [VECTOR,PCR]", "VECTOR FDB START", "      FDB TABLE", "TABLE FCB 1,2,3", "      LDY #TABLE-START",
                  "      LDD START-2,PCR", "      END START"))
CASES.append(prog("A     LDA C,PCR", "      RMB 120", "B     LDX A,PCR", "      LDY C+1,PCR", "C     JMP B", "      FDB A",
                  "      FDB C"))
CASES.append(prog("      ORG $FFF0", "A     LDA B,PCR", "      LDX #B", "B     JMP A"))
CASES.append(prog("      ORG $FFFE", "A     LDX #B", "B     JMP A"))
CASES.append(prog("LA    LDA LC,PCR", "      RMB 120", "LB    LDX LA,PCR", "      LDY LC+1,PCR", "LC    JMP LB", "      FDB LA",
                  "      FDB LC"))
CASES.append(prog("      ORG $FFF0", "LA    LDA LB,PCR", "      LDX #LB", "LB    JMP LA"))

CASES.append(cli(["      NAM FIXUP", "      ORG $2000", "START LDX #DATA", "      LDA DATA+1", "      LEAX DATA,PCR",
                  "      LDA [DATA,PCR]", "      JSR START", "DATA  FDB START", "      END START"]))
CASES.append(cli(["HERE  LDA HERE/0,PCR"]))

# Statement.fix_addresses and Statement.translate on their own
CASES.append(call('''
from cocoasm.program import Program
result = []
lines = ["      ORG $500\\n", "HERE  NOP \\n", "      LDX THERE+1,PCR\\n", "      LDA [HERE,PCR]\\n", "      LDD #THERE\\n",
         "      JMP HERE+3\\n", "      LDA 5,X\\n", "THERE RTS \\n"]
program = Program()
program.process(lines)
for index, statement in enumerate(program.statements):
    for repeat in range(2):
        try:
            statement.fix_addresses(program.statements, index)
            result.append([statement.code_pkg.additional.hex(), statement.code_pkg.size, statement.fixed_size])
        except Exception as error:
            result.append([type(error).__name__, str(error)])
fresh = Program.parse(lines)
table = {"HERE": __import__("cocoasm.values").values.AddressValue(1), "THERE": __import__("cocoasm.values").values.AddressValue(7)}
for statement in fresh:
    statement.resolve_symbols(table)
    statement.translate()
    result.append([statement.fixed_size, statement.code_pkg.size, statement.code_pkg.max_size, statement.code_pkg.post_byte_choices])
'''))

main(CASES)
