#!/usr/bin/env python
"""
Differential check for property C15 (disk space accounting is exact: files
that fit are stored, others fail cleanly).

usage: equiv.py <treeA> <treeB>

Each tree is exercised in its own subprocess (tree at the front of sys.path).
The worker fills disk images from empty to full through DiskFile.add_files()
(many small files, few large ones, mixtures, sizes around the granule
boundary, default and permuted/defective fill orders), records after every
single addition the FAT, the directory, a digest of the whole image, the
files read back, or the exception and the state the image is left in; it
calls the allocation primitives and the calculate_* helpers directly over
their whole argument range; it saves through VirtualFile, assembler.py
--to_dsk and file_util.py (checking the host file before/after failures).
The driver compares the two records and exits 0 when identical, 1 otherwise.
"""
import contextlib
import hashlib
import importlib.util
import io
import json
import os
import random
import subprocess
import sys
import tempfile
import traceback

FAT_OFFSET, DIR_OFFSET, GRANULE = 78592, 78848, 2304


def sha(data):
    try:
        return hashlib.sha256(bytes(data)).hexdigest()[:20]
    except Exception:
        return hashlib.sha256(repr(list(data)).encode()).hexdigest()[:20]


def image_state(buffer):
    fat = list(buffer[FAT_OFFSET:FAT_OFFSET + 68])
    tail = list(buffer[FAT_OFFSET + 68:FAT_OFFSET + 256])
    directory = []
    for slot in range(72):
        entry = list(buffer[DIR_OFFSET + 32 * slot:DIR_OFFSET + 32 * slot + 32])
        if entry[:1] not in ([0x00], [0xFF]):
            directory.append([slot, entry[:16], sha(entry[16:])])
    return {"fat": fat, "fat_tail": sha(tail), "directory": directory, "image": sha(buffer), "length": len(buffer)}


def worker(tree):
    sys.path.insert(0, tree)
    from cocoasm.virtualfiles.disk import DiskFile, DiskConstants, MLPreamble, BasicPreamble, ASCIIPreamble, Postamble
    from cocoasm.virtualfiles.coco_file import CoCoFile
    from cocoasm.virtualfiles.virtual_file import VirtualFile, VirtualFileType
    from cocoasm.virtualfiles.source_file import SourceFile, SourceFileType
    from cocoasm.values import NumericValue, NoneValue

    results = {}

    def coco(name, size, kind="ml", load=0x0E00):
        data = [(index * 3 + len(name)) & 0xFF for index in range(size)]
        if kind == "ml":
            return CoCoFile(name=name, extension="BIN", type=NumericValue(2), data_type=NumericValue(0),
                            load_addr=NumericValue(load), exec_addr=NumericValue(load + 2), data=data)
        if kind == "basic":
            return CoCoFile(name=name, extension="BAS", type=NumericValue(0), data_type=NumericValue(0), data=data)
        return CoCoFile(name=name, extension="TXT", type=NumericValue(1), data_type=NumericValue(0xFF), data=data)

    def read_back(buffer):
        try:
            files = DiskFile(buffer=list(buffer)).list_files()
            return [[f.name, f.extension, f.type.hex(), f.data_type.hex(), f.load_addr.hex(), f.exec_addr.hex(),
                     len(f.data), sha(f.data)] for f in files]
        except Exception as error:
            return ["raised", type(error).__name__, str(error)]

    def attempt(action):
        try:
            return ["returned", repr(action())]
        except RecursionError:
            return ["raised", "RecursionError"]
        except Exception as error:
            return ["raised", type(error).__name__, str(error)]

    def fill(label, files, fill_order=None, detail_every=1, stop_after_failures=3):
        """Adds the files one at a time and records the image after every addition."""
        disk = DiskFile(granule_fill_order=fill_order) if fill_order is not None else DiskFile()
        steps, failures = [], 0
        for number, file in enumerate(files):
            result = attempt(lambda: disk.add_file(file))
            state = image_state(disk.buffer)
            step = {"file": [file.name, len(file.data)], "result": result, "image": state["image"],
                    "used": sum(1 for entry in state["fat"] if entry != 0xFF), "slots": len(state["directory"])}
            if number % detail_every == 0 or result[0] == "raised":
                step["state"] = state
            steps.append(step)
            if result[0] == "raised":
                failures += 1
                if failures >= stop_after_failures:
                    break
        results["fill:" + label] = {"steps": steps, "final": image_state(disk.buffer), "files": read_back(disk.buffer)}
        return disk

    # ---- from empty to full
    fill("small_ml_until_full", [coco("S{:03d}".format(i), 10 + i) for i in range(76)])
    fill("small_basic_until_full", [coco("B{:03d}".format(i), 5, "basic") for i in range(76)], detail_every=10)
    fill("small_ascii_until_full", [coco("A{:03d}".format(i), 50, "ascii") for i in range(76)], detail_every=10)
    fill("empty_files_until_full", [coco("E{:03d}".format(i), 0) for i in range(76)], detail_every=10)
    fill("one_granule_exact", [coco("X{:03d}".format(i), GRANULE - 10) for i in range(70)], detail_every=7)
    fill("large_until_full", [coco("L{:02d}".format(i), GRANULE * 9 + 17) for i in range(10)])
    fill("huge_then_small", [coco("HUGE", GRANULE * 67), coco("T1", 10), coco("T2", 10), coco("T3", 2300)])
    fill("whole_disk_exact", [coco("ALL", GRANULE * 68 - 10), coco("MORE", 1)])
    fill("whole_disk_minus_one", [coco("ALL", GRANULE * 68 - 11), coco("MORE", 0)])
    fill("too_big_first", [coco("TOOBIG", GRANULE * 68), coco("OK", 100), coco("TOOBIG2", GRANULE * 70), coco("OK2", 5000)])
    fill("too_big_later", [coco("HALF", GRANULE * 34), coco("TOOBIG", GRANULE * 35), coco("FITS", GRANULE * 33), coco("LAST", 1)])
    fill("ascii_whole_disk_exact", [coco("ALL", GRANULE * 68 - 1, "ascii"), coco("MORE", 0, "ascii")])
    fill("ascii_whole_disk_over", [coco("ALL", GRANULE * 68, "ascii"), coco("MORE", 0, "ascii"), coco("REST", GRANULE * 67, "ascii")])
    fill("ascii_huge_then_small", [coco("HUGE", GRANULE * 66, "ascii"), coco("T1", 10), coco("T2", 2294), coco("T3", 1), coco("T4", 1)])
    fill("ascii_halves", [coco("H{}".format(i), GRANULE * 17 - 1, "ascii") for i in range(6)])
    rng = random.Random(0xC15)
    mixture = []
    for index in range(90):
        kind = rng.choice(("ml", "basic", "ascii"))
        size = rng.choice((0, 1, 100, 2293, 2294, 2295, 2300, 2301, 2303, 2304, 2305, 4598, 4599, 4608, 7000, 12000))
        mixture.append(coco("M{:03d}".format(index), size, kind))
    fill("mixture", mixture, stop_after_failures=6)
    boundary = []
    for kind in ("ml", "basic", "ascii"):
        for size in (2290, 2293, 2294, 2295, 2299, 2300, 2301, 2302, 2303, 2304, 2305, 4597, 4598, 4599, 4600, 4604, 4605,
                     4606, 4607, 4608, 4609, 6902, 6903, 6912):
            boundary.append((kind, size))
    for kind, size in boundary:
        fill("boundary:{}:{}".format(kind, size), [coco("EDGE", size, kind), coco("NEXT", 1, kind)])

    # ---- fill orders
    default_order = list(DiskConstants.GRANULE_FILL_ORDER)
    shuffled = list(default_order)
    random.Random(7).shuffle(shuffled)
    orders = {
        "ascending": list(range(68)), "descending": list(range(67, -1, -1)), "shuffled": shuffled,
        "rotated": default_order[10:] + default_order[:10], "tuple": tuple(default_order),
        "duplicates": [5] * 68, "duplicates_then_rest": [5, 5, 5] + list(range(68)),
        "with_68": list(range(1, 69)), "with_negative": [-1] + list(range(67)), "with_late_bad": list(range(67)) + [99],
        "short": list(range(67)), "one": [3], "empty": [], "long": list(range(68)) + list(range(68)),
        "missing_some": [n % 60 for n in range(68)],
    }
    workload = [coco("P{:02d}".format(i), size) for i, size in enumerate([10, 5000, 2294, 2295, 0, 30000, 100, 60000, 60000, 20, 9000])]
    for name, order in orders.items():
        fill("order:" + name, workload, fill_order=order)
    fill("order:ascending_small", [coco("Q{:03d}".format(i), 1) for i in range(75)], fill_order=list(range(68)), detail_every=10)

    # ---- adding to images that already hold files / crafted images
    base = DiskFile()
    base.add_files([coco("BASE1", 3000), coco("BASE2", 10, "basic")])
    for label, files in (("more", [coco("ADD", 5000)]), ("fill", [coco("F{:02d}".format(i), 20000) for i in range(9)])):
        disk = DiskFile(buffer=list(base.buffer))
        steps = []
        for file in files:
            steps.append([attempt(lambda: disk.add_file(file)), image_state(disk.buffer)])
        results["existing:" + label] = {"steps": steps, "files": read_back(disk.buffer)}
    for label, buffer in (("bytearray", bytearray(base.buffer)), ("bytes", bytes(base.buffer)), ("short_list", [0xFF] * 1000),
                          ("zeros", [0x00] * 161280), ("empty_list", [])):
        disk = DiskFile(buffer=buffer)
        record = {"add": attempt(lambda: disk.add_file(coco("ONTO", 3000)))}
        try:
            record["state"] = image_state(disk.buffer)
        except Exception as error:
            record["state"] = ["unreadable", type(error).__name__]
        results["existing_kind:" + label] = record

    # ---- allocation primitives on crafted images
    def crafted(fat=None, directory_first_bytes=None):
        disk = DiskFile()
        for granule, value in (fat or {}).items():
            disk.buffer[FAT_OFFSET + granule] = value
        for slot, value in (directory_first_bytes or {}).items():
            disk.buffer[DIR_OFFSET + 32 * slot] = value
        return disk

    crafted_disks = {
        "empty": crafted(),
        "all_used": crafted(fat={n: 0xC1 for n in range(68)}, directory_first_bytes={n: 0x41 for n in range(72)}),
        "all_used_but_last": crafted(fat={n: 0xC1 for n in range(67)}, directory_first_bytes={n: 0x41 for n in range(71)}),
        "all_used_but_first": crafted(fat={n: 0xC1 for n in range(1, 68)}, directory_first_bytes={n: 0x41 for n in range(1, 72)}),
        "only_32_used": crafted(fat={32: 0x00}, directory_first_bytes={0: 0x00}),
        "deleted_entries": crafted(directory_first_bytes={0: 0x41, 1: 0x00, 2: 0x42}),
        "slots_70_free": crafted(directory_first_bytes={n: 0x41 for n in range(70)}),
        "zero_fat": crafted(fat={n: 0x00 for n in range(68)}),
        "reserved_marks": crafted(fat={32: 0x99, 33: 0x99, 34: 0xFE}),
    }
    for name, disk in crafted_disks.items():
        record = {
            "find_empty_granule": attempt(disk.find_empty_granule),
            "find_empty_directory_entry": attempt(disk.find_empty_directory_entry),
            "granule_in_use": [attempt(lambda: disk.granule_in_use(n)) for n in range(-3, 72)],
            "directory_entry_in_use": [attempt(lambda: disk.directory_entry_in_use(n)) for n in range(-3, 76)],
            "add_small": attempt(lambda: disk.add_file(coco("NEW", 10))),
            "after_add": image_state(disk.buffer),
        }
        results["crafted:" + name] = record
    for bad in (None, "5", 5.5, True, [1]):
        disk = DiskFile()
        results["primitive_arg:{!r}".format(bad)] = [attempt(lambda: disk.granule_in_use(bad)),
                                                     attempt(lambda: disk.directory_entry_in_use(bad))]
    for name, order in orders.items():
        disk = DiskFile(granule_fill_order=order)
        first = attempt(disk.find_empty_granule)
        disk.buffer[FAT_OFFSET + 5] = 0xC1
        disk.buffer[FAT_OFFSET + 0] = 0xC1
        results["find_with_order:" + name] = [first, attempt(disk.find_empty_granule)]
    results["default_order"] = [list(DiskConstants.GRANULE_FILL_ORDER), DiskConstants.TOTAL_GRANULES,
                                DiskConstants.FAT_OFFSET, DiskConstants.DIR_OFFSET, DiskConstants.HALF_TRACK_LEN,
                                DiskConstants.IMAGE_SIZE, len(DiskFile().buffer), sha(DiskFile().buffer)]

    # ---- the calculate_* helpers over their range
    def ml():
        return MLPreamble(), Postamble()

    def basic():
        return BasicPreamble(), None

    def ascii_kind():
        return ASCIIPreamble(), None

    sizes = list(range(0, 40)) + list(range(2280, 2320)) + list(range(4590, 4620)) + list(range(6895, 6920)) + \
        [250, 255, 256, 257, 512, 1000, 10000, 65535, 65536, 156672, 156662, 156661, 200000]
    for kind_name, kind in (("ml", ml), ("basic", basic), ("ascii", ascii_kind)):
        table = []
        for size in sizes:
            preamble, postamble = kind()
            data = range(size)
            table.append([size,
                          attempt(lambda: DiskFile.calculate_granules_needed(data, preamble, postamble)),
                          attempt(lambda: DiskFile.calculate_last_sector_bytes_used(data, preamble, postamble)),
                          attempt(lambda: DiskFile.calculate_last_granules_sectors_used(data, preamble, postamble))])
        results["calculate:" + kind_name] = table
    results["calculate:sectors"] = [[n, attempt(lambda: DiskFile.calculate_sectors_needed(n))]
                                    for n in list(range(-3, 30)) + list(range(250, 260)) + [511, 512, 513, 2303, 2304, 2305, 1.5, 256.0]]
    results["calculate:bad"] = [
        attempt(lambda: DiskFile.calculate_granules_needed(None, MLPreamble(), Postamble())),
        attempt(lambda: DiskFile.calculate_granules_needed([1], None, None)),
        attempt(lambda: DiskFile.calculate_granules_needed([1], MLPreamble(), 0)),
        attempt(lambda: DiskFile.calculate_last_sector_bytes_used(None, MLPreamble(), None)),
        attempt(lambda: DiskFile.calculate_last_granules_sectors_used([1], None, Postamble())),
        attempt(lambda: DiskFile().calculate_granules_needed("text", BasicPreamble(), None)),
        attempt(lambda: DiskFile.seek_granule(0)), attempt(lambda: DiskFile.seek_granule(33)),
        attempt(lambda: DiskFile.seek_granule(34)), attempt(lambda: DiskFile.seek_granule(67)),
    ]

    # ---- malformed files
    bad_files = {
        "none": None, "name_none": CoCoFile(name=None, type=NumericValue(2), data_type=NumericValue(0), data=[1]),
        "data_none": CoCoFile(name="X", type=NumericValue(2), data_type=NumericValue(0), data=None),
        "type_none": CoCoFile(name="X", type=None, data=[1]), "defaults": CoCoFile(name="DEF"),
        "data_str": CoCoFile(name="X", extension="BIN", type=NumericValue(2), data_type=NumericValue(0), data="text"),
        "ext_none": CoCoFile(name="X", extension=None, type=NumericValue(2), data_type=NumericValue(0), data=[1]),
        "long_name": CoCoFile(name="LONGERTHANEIGHT", extension="LONG", type=NumericValue(1), data_type=NumericValue(0xFF), data=[1, 2]),
        "nul_name": CoCoFile(name="A\x00B", extension="\x00", type=NumericValue(0), data_type=NumericValue(0), data=[1, 2]),
    }
    for name, file in bad_files.items():
        disk = DiskFile()
        results["bad_file:" + name] = [attempt(lambda: disk.add_file(file)), image_state(disk.buffer), read_back(disk.buffer)]

    # ---- host files: VirtualFile and the command line tools
    home = os.getcwd()

    def load_module(name):
        spec = importlib.util.spec_from_file_location("tool_" + name, os.path.join(tree, name + ".py"))
        module = importlib.util.module_from_spec(spec)
        spec.loader.exec_module(module)
        return module

    def run_tool(module, argv):
        out = io.StringIO()
        status = 0
        old_argv = sys.argv
        sys.argv = [module.__name__] + argv
        try:
            with contextlib.redirect_stdout(out), contextlib.redirect_stderr(out):
                try:
                    module.main(module.parse_arguments())
                except SystemExit as error:
                    status = error.code
                except BaseException as error:
                    status = ["traceback", type(error).__name__, str(error)]
        finally:
            sys.argv = old_argv
        return {"stdout": out.getvalue(), "status": status}

    def host_files():
        found = {}
        for name in sorted(os.listdir(".")):
            with open(name, "rb") as handle:
                content = handle.read()
            found[name] = [len(content), hashlib.sha256(content).hexdigest()[:20]]
            if name.endswith(".dsk") and len(content) >= 161280:
                found[name].append(image_state(content))
        return found

    def save(files, append):
        try:
            virtual_file = VirtualFile(SourceFile("t.dsk", file_type=SourceFileType.BINARY), VirtualFileType.DISK)
            virtual_file.open_virtual_file()
            for file in files:
                virtual_file.add_coco_file(file)
            virtual_file.save_virtual_file(append_mode=append)
            return ["saved"]
        except Exception as error:
            return ["raised", type(error).__name__, str(error)]

    scenarios = {
        "fresh_small": ([], [coco("ONE", 10)]),
        "fresh_none": ([], []),
        "fresh_too_big": ([], [coco("OK", 10), coco("TOOBIG", GRANULE * 68)]),
        "fresh_too_many": ([], [coco("N{:02d}".format(i), 1) for i in range(73)]),
        "fresh_exactly_71": ([], [coco("N{:02d}".format(i), 1) for i in range(71)]),
        "fresh_exactly_72": ([], [coco("N{:02d}".format(i), 1) for i in range(72)]),
        "append_small": ([coco("OLD", 5000)], [coco("NEW", 10)]),
        "append_overflow": ([coco("OLD", GRANULE * 40)], [coco("NEW", GRANULE * 30)]),
        "append_exact_fit": ([coco("OLD", GRANULE * 40)], [coco("NEW", GRANULE * 28 - 10)]),
        "append_one_over": ([coco("OLD", GRANULE * 40)], [coco("NEW", GRANULE * 28 - 9)]),
        "append_slots_overflow": ([coco("O{:02d}".format(i), 1) for i in range(60)], [coco("N{:02d}".format(i), 1) for i in range(15)]),
    }
    for name, (existing, new) in scenarios.items():
        for append in (False, True):
            with tempfile.TemporaryDirectory() as scratch:
                os.chdir(scratch)
                try:
                    record = {}
                    if existing:
                        record["setup"] = save(existing, False)
                    record["before"] = host_files()
                    record["save"] = save(new, append)
                    record["after"] = host_files()
                    if os.path.exists("t.dsk"):
                        record["list"] = run_tool(load_module("file_util"), ["t.dsk", "--list"])["stdout"][-1500:]
                        record["list_digest"] = sha(run_tool(load_module("file_util"), ["t.dsk", "--list"])["stdout"].encode())
                    results["host:{}:{}".format(name, append)] = record
                finally:
                    os.chdir(home)

    assembler, file_util = load_module("assembler"), load_module("file_util")
    with tempfile.TemporaryDirectory() as scratch:
        os.chdir(scratch)
        try:
            with open("big.asm", "w") as handle:
                handle.write("        NAM   BIGPRG\n        ORG   $0100\n" + "        FDB   $1234\n" * 11000)
            with open("small.asm", "w") as handle:
                handle.write("        NAM   SMALL\n        ORG   $0E00\n        RTS\n")
            log = []
            for round_number in range(9):
                log.append(run_tool(assembler, ["big.asm", "--to_dsk", "full.dsk", "--append"]))
                log.append(host_files().get("full.dsk"))
            for round_number in range(3):
                log.append(run_tool(assembler, ["small.asm", "--to_dsk", "full.dsk", "--append"]))
                log.append(host_files().get("full.dsk"))
            log.append(run_tool(assembler, ["small.asm", "--to_dsk", "full.dsk"]))
            log.append(run_tool(file_util, ["full.dsk", "--list"]))
            log.append(run_tool(file_util, ["full.dsk", "--to_dsk", "copy.dsk"]))
            log.append(run_tool(file_util, ["full.dsk", "--to_dsk", "copy.dsk", "--append"]))
            log.append(run_tool(file_util, ["full.dsk", "--to_cas", "copy.cas", "--files", "SMALL"]))
            log.append(host_files())
            results["cli:fill_by_append"] = log
            slots = []
            for round_number in range(74):
                outcome = run_tool(assembler, ["small.asm", "--to_dsk", "slots.dsk", "--append"])
                if round_number % 10 == 0 or outcome["stdout"] or round_number > 68:
                    slots.append([round_number, outcome, host_files().get("slots.dsk")])
            results["cli:slots_by_append"] = slots
        finally:
            os.chdir(home)

    json.dump(results, sys.stdout, sort_keys=True)


def run_worker(tree):
    tree = os.path.abspath(tree)
    env = dict(os.environ, PYTHONDONTWRITEBYTECODE="1", PYTHONHASHSEED="0")
    env.pop("PYTHONPATH", None)
    done = subprocess.run([sys.executable, os.path.abspath(__file__), "--worker", tree],
                          cwd=tree, env=env, stdout=subprocess.PIPE, stderr=subprocess.PIPE, text=True)
    if done.returncode != 0:
        print("worker failed for {}:\n{}".format(tree, done.stderr))
        sys.exit(1)
    return json.loads(done.stdout)


def main():
    if len(sys.argv) == 3 and sys.argv[1] == "--worker":
        try:
            worker(sys.argv[2])
        except Exception:
            traceback.print_exc()
            sys.exit(2)
        return
    if len(sys.argv) != 3:
        print(__doc__)
        sys.exit(2)
    result_a, result_b = run_worker(sys.argv[1]), run_worker(sys.argv[2])
    differing = [key for key in sorted(set(result_a) | set(result_b)) if result_a.get(key) != result_b.get(key)]
    for key in differing[:20]:
        print("DIFFERENT: {}\n  A: {}\n  B: {}".format(key, str(result_a.get(key))[:700], str(result_b.get(key))[:700]))
    additions = sum(len(record["steps"]) for key, record in result_a.items() if key.startswith("fill:"))
    print("{} cases compared ({} single additions while filling images), {} differ".format(
        len(result_a), additions, len(differing)))
    sys.exit(1 if differing else 0)


if __name__ == "__main__":
    main()
