"""
Differential demonstration for property C14 (every cassette image written is a
well-formed CoCo tape stream).

usage: equiv.py <treeA> <treeB>

The probe below is executed once per tree in a separate interpreter, with the
tree at the front of sys.path and a private scratch directory as cwd. It prints
one JSON record per case; the two transcripts must be identical. Besides the
raw bytes, each image is also run through an independent block parser that
checks framing, lengths and checksums, so the records show that the streams
being compared are (equally) well formed.
"""
import subprocess
import sys
import tempfile
import os

PROBE = r'''
import sys, os, io, json, hashlib, contextlib, random, collections
tree = os.path.abspath(sys.argv[1])
work = os.path.abspath(sys.argv[2])
sys.path.insert(0, tree)
os.chdir(work)

import cocoasm
assert os.path.abspath(cocoasm.__file__).startswith(tree + os.sep), cocoasm.__file__

from cocoasm.values import NumericValue, NoneValue, AddressValue
from cocoasm.virtualfiles.coco_file import CoCoFile
from cocoasm.virtualfiles.cassette import CassetteFile
from cocoasm.virtualfiles.virtual_file import VirtualFile, VirtualFileType
from cocoasm.virtualfiles.source_file import SourceFile, SourceFileType
import assembler, file_util
assert os.path.abspath(assembler.__file__).startswith(tree + os.sep)

CASES = 0
def emit(label, payload):
    global CASES
    CASES += 1
    print(json.dumps([label, payload], sort_keys=True, default=repr))

def attempt(fn):
    try:
        return ["ok", fn()]
    except BaseException as error:
        return ["raised", type(error).__name__, str(error)]

def digest(data):
    try:
        raw = bytes(data)
    except (ValueError, TypeError):
        raw = repr(list(data)).encode()
    return [len(data), hashlib.sha256(raw).hexdigest()]

def blocks(image):
    """Independent reader: leaders, then $55 $3C type length payload checksum $55."""
    out, pointer = [], 0
    while pointer < len(image):
        if image[pointer] == 0x00 or (image[pointer] == 0x55 and not (pointer + 1 < len(image) and image[pointer + 1] == 0x3C)):
            run = pointer
            while run < len(image) and image[run] == image[pointer] and not (image[run] == 0x55 and run + 1 < len(image) and image[run + 1] == 0x3C):
                run += 1
            out.append(["run", image[pointer], run - pointer])
            pointer = run
            continue
        if image[pointer] == 0x55 and pointer + 1 < len(image) and image[pointer + 1] == 0x3C:
            if pointer + 4 > len(image):
                out.append(["truncated", pointer])
                break
            block_type, length = image[pointer + 2], image[pointer + 3]
            payload = image[pointer + 4:pointer + 4 + length]
            tail = image[pointer + 4 + length:pointer + 6 + length]
            good = len(payload) == length and len(tail) == 2 and tail[0] == (block_type + length + sum(payload)) & 0xFF and tail[1] == 0x55
            out.append(["block", block_type, length, good, digest(payload)[1][:12]])
            pointer += 6 + length
            continue
        out.append(["stray", pointer, image[pointer]])
        break
    return out

def coco(name="TEST", load=0x0E00, execute=0x0E00, data=(1, 2, 3), file_type=2, data_type=0, ext="bin", gaps=None):
    return CoCoFile(name=name, extension=ext, type=NumericValue(file_type), data_type=NumericValue(data_type),
                    load_addr=NumericValue(load), exec_addr=NumericValue(execute), data=data if not isinstance(data, tuple) else list(data),
                    gaps=NumericValue(gaps) if gaps is not None else NoneValue())

def describe(files):
    return [[f.name, f.extension, f.type.hex(), f.data_type.hex(), f.gaps.hex(), f.load_addr.hex(), f.exec_addr.hex(), digest(f.data)]
            for f in files]

def pattern(size, seed=7):
    return [(index * seed + 3) & 0xFF for index in range(size)]

def written(files):
    container = CassetteFile()
    outcome = attempt(lambda: container.add_files(files))
    image = list(container.get_buffer())
    record = [outcome, digest(image)]
    if outcome[0] == "ok":
        record.append(attempt(lambda: blocks(image)))
        record.append(attempt(lambda: describe(CassetteFile(buffer=list(image)).list_files())))
    else:
        record.append(image[-40:])
    return record

# ---------------------------------------------------------------- section A
# one file per image: every interesting data size
SIZES = sorted(set(list(range(0, 6)) + list(range(250, 262)) + list(range(505, 515)) + list(range(760, 770)) +
                   [1019, 1020, 1021, 2550, 4096, 65279, 65280, 65281, 65535, 65536]))
for size in SIZES:
    emit("A/size/%d" % size, written([coco(data=pattern(size))]))
for fill in (0x00, 0x55, 0x3C, 0xFF):
    emit("A/fill/%02X" % fill, written([coco(data=[fill] * 600)]))
emit("A/sync-lookalike", written([coco(data=[0x55, 0x3C, 0x00, 0x55, 0x3C, 0xFF, 0x55, 0x3C, 0x01] * 60)]))

# ---------------------------------------------------------------- section B
# header fields
for name in ("", "A", "AB", "SEVENCH", "EIGHTCHR", "NINECHARS", "TWELVECHARS!", "lower", "Mi Xed", "\0\0", "\xff\xfe", "~}|{"):
    emit("B/name/%r" % name, written([coco(name=name)]))
for address in (0, 1, 0x7F, 0x80, 0xFF, 0x100, 0x0E00, 0x1234, 0x7FFF, 0x8000, 0xFF00, 0xFFFF):
    emit("B/load/%04X" % address, written([coco(load=address, execute=0x2000)]))
    emit("B/exec/%04X" % address, written([coco(load=0x2000, execute=address)]))
    emit("B/both/%04X" % address, written([coco(load=address, execute=0xFFFF - address)]))
for file_type in (0, 1, 2, 3, 0x7F, 0xFF):
    for data_type in (0, 1, 0xFF):
        emit("B/type/%02X/%02X" % (file_type, data_type), written([coco(file_type=file_type, data_type=data_type, gaps=0xFF)]))
def special_values():
    plain = coco()
    yield "none-addresses", plain._replace(load_addr=NoneValue(), exec_addr=NoneValue())
    yield "address-values", plain._replace(load_addr=AddressValue(0x1234), exec_addr=AddressValue(5))
    yield "hinted-2", plain._replace(load_addr=NumericValue(0x12, size_hint=2), exec_addr=NumericValue(0x1234, size_hint=2))
    yield "hinted-4", plain._replace(load_addr=NumericValue(0x12, size_hint=4), exec_addr=NumericValue("-2"))
    yield "none-types", plain._replace(type=NoneValue(), data_type=NoneValue())
    yield "defaults", CoCoFile()
    yield "defaults-with-data", CoCoFile(data=[1, 2, 3])
for label, coco_file in special_values():
    emit("B/special/" + label, written([coco_file]))

# ---------------------------------------------------------------- section C
# several files per image, and data held in other sequence types
emit("C/two", written([coco(name="ONE", data=pattern(10)), coco(name="TWO", data=pattern(300), load=0x3000, execute=0x3005)]))
emit("C/five", written([coco(name="F%d" % i, data=pattern(255 * i, seed=i + 1)) for i in range(5)]))
emit("C/empty-list", written([]))
emit("C/empty-data-between", written([coco(name="A", data=[9]), coco(name="B", data=[]), coco(name="C", data=[8])]))
for label, data in (("bytes", bytes(pattern(700))), ("bytearray", bytearray(pattern(700))), ("tuple-short", (1, 2, 3)),
                    ("range", range(200)), ("range-long", range(256)), ("string", "TEXT"), ("deque", collections.deque(pattern(20))),
                    ("deque-long", collections.deque(pattern(300))), ("dict", {0: 5, 1: 6}), ("generator", (x for x in [1])),
                    ("none", None), ("int", 5), ("floats", [1.0, 2.0]), ("big-int", [1, 300, 2]), ("negative", [1, -2, 3]),
                    ("nested", [1, [2], 3]), ("late-bad", pattern(400) + ["x"] + pattern(10)), ("bools", [True, False])):
    emit("C/data/" + label, written([CoCoFile(name="SEQ", type=NumericValue(2), data_type=NumericValue(0), load_addr=NumericValue(1),
                                              exec_addr=NumericValue(2), data=data)]))
for label, name in (("none", None), ("int", 7), ("list", ["A", "B"]), ("ints", [65, 66]), ("bytes", b"AB"), ("wide", "€uro")):
    emit("C/name/" + label, written([coco(name=name)]))
for label, bad in (("type", coco()._replace(type=None)), ("data_type", coco()._replace(data_type=None)),
                   ("load", coco()._replace(load_addr=None)), ("exec", coco()._replace(exec_addr=None)), ("file", None), ("tuple", (1, 2))):
    emit("C/bad-field/" + label, written([coco(name="GOOD"), bad]))

# ---------------------------------------------------------------- section D
# the writer methods one by one
def method(call):
    container = CassetteFile()
    outcome = attempt(lambda: call(container))
    image = list(container.get_buffer())
    return [outcome, digest(image), image if len(image) <= 64 else image[:24] + ["..."] + image[-24:], attempt(lambda: blocks(image)) if outcome[0] == "ok" else None]

emit("D/leader", method(lambda c: c.append_leader()))
emit("D/blank", method(lambda c: c.append_blank()))
emit("D/eof", method(lambda c: c.append_eof()))
emit("D/leader-blank-eof-twice", method(lambda c: [c.append_leader(), c.append_blank(), c.append_eof(), c.append_eof(), c.append_blank(), c.append_leader()]))
for name in ("", "A", "ABCDEFGH", "ABCDEFGHIJ", "abc d", None, 5, ["A"], [66]):
    emit("D/name/%r" % (name,), method(lambda c: c.append_name(name)))
for label, coco_file in list(special_values()) + [("plain", coco()), ("long-name", coco(name="ABCDEFGHIJKL")), ("high", coco(load=0xFFFF, execute=0xFFFF, file_type=0xFF, data_type=0xFF))]:
    emit("D/header/" + label, method(lambda c: c.append_header(coco_file)))
for size in (0, 1, 2, 253, 254, 255, 256, 257, 509, 510, 511, 512, 765, 766, 1020, 1275):
    for gaps in (False, True):
        emit("D/data/%d/%s" % (size, gaps), method(lambda c: c.append_data_blocks(pattern(size), gaps=gaps)))
    emit("D/data/%d/default" % size, method(lambda c: c.append_data_blocks(pattern(size))))
    emit("D/data/%d/positional" % size, method(lambda c: c.append_data_blocks(pattern(size), True)))
    emit("D/data/%d/bytes" % size, method(lambda c: c.append_data_blocks(bytes(pattern(size)), gaps=True)))
for label, data in (("none", None), ("int", 3), ("deque", collections.deque(pattern(300))), ("dict", {0: 1}), ("bad-tail", pattern(260) + [None]),
                    ("bad-head", [None] + pattern(260)), ("str", "AB"), ("huge", [1 << 40, 2])):
    emit("D/data-odd/" + label, method(lambda c: c.append_data_blocks(data, gaps=True)))
emit("D/add-file-twice", method(lambda c: [c.add_file(coco(name="FIRST", data=pattern(256))), c.add_file(coco(name="SECOND", data=pattern(1)))]))
def preloaded():
    container = CassetteFile(buffer=[1, 2, 3])
    container.add_file(coco())
    return [digest(container.get_buffer()), container.get_buffer()[:8], container.original_buffer]
emit("D/preloaded-buffer", attempt(preloaded))

# ---------------------------------------------------------------- section E
# random file lists
random.seed(1414)
for number in range(40):
    files = []
    for _ in range(random.randint(1, 4)):
        size = random.choice([0, 1, 7, 254, 255, 256, 300, 510, 511, 777, 3000]) + random.randint(0, 2)
        files.append(coco(name="".join(random.choice("ABCxyz019 _") for _ in range(random.randint(0, 10))),
                          load=random.randint(0, 0xFFFF), execute=random.randint(0, 0xFFFF),
                          data=[random.randint(0, 255) for _ in range(size)],
                          file_type=random.choice([0, 1, 2]), data_type=random.choice([0, 0xFF])))
    emit("E/random/%d" % number, written(files))

# ---------------------------------------------------------------- section F
# through VirtualFile and both command line tools
def snapshot():
    return {name: digest(open(name, "rb").read()) for name in sorted(os.listdir(".")) if os.path.isfile(name)}

def run_cli(module, argv):
    out, err = io.StringIO(), io.StringIO()
    saved, status = sys.argv, ["returned"]
    sys.argv = [module.__name__ + ".py"] + argv
    try:
        with contextlib.redirect_stdout(out), contextlib.redirect_stderr(err):
            try:
                module.main(module.parse_arguments())
            except SystemExit as stop:
                status = ["exit", stop.code]
            except BaseException as error:
                status = ["raised", type(error).__name__, str(error)]
    finally:
        sys.argv = saved
    return [status, out.getvalue(), err.getvalue(), snapshot()]

def save(file_name, files, append):
    virtual_file = VirtualFile(SourceFile(file_name, file_type=SourceFileType.BINARY), VirtualFileType.CASSETTE)
    virtual_file.open_virtual_file()
    for coco_file in files:
        virtual_file.add_coco_file(coco_file)
    virtual_file.save_virtual_file(append_mode=append)
    image = list(open(file_name, "rb").read())
    return [digest(image), blocks(image)]

os.mkdir("cli")
os.chdir("cli")
emit("F/save/new", attempt(lambda: save("a.cas", [coco(name="ONE", data=pattern(300))], False)))
emit("F/save/exists", attempt(lambda: save("a.cas", [coco(name="TWO", data=pattern(3))], False)))
emit("F/save/append", attempt(lambda: save("a.cas", [coco(name="TWO", data=pattern(3))], True)))
emit("F/save/append-again", attempt(lambda: save("a.cas", [coco(name="THREE", data=pattern(255))], True)))
emit("F/save/list", run_cli(file_util, ["a.cas", "--list"]))
with open("prog.asm", "w") as handle:
    handle.write("\n".join(["  NAM program", "  ORG $3F00", "START LDA #$55", "  LDB #$3C"] + ["  FDB $%04X" % (i * 771 & 0xFFFF) for i in range(200)] + ["  END START"]) + "\n")
emit("F/asm/to-cas", run_cli(assembler, ["prog.asm", "--to_cas", "p.cas"]))
emit("F/asm/to-cas-again", run_cli(assembler, ["prog.asm", "--to_cas", "p.cas"]))
emit("F/asm/to-cas-append", run_cli(assembler, ["prog.asm", "--to_cas", "p.cas", "--append"]))
emit("F/util/list", run_cli(file_util, ["p.cas", "--list"]))
emit("F/util/to-cas", run_cli(file_util, ["p.cas", "--to_cas", "copy.cas"]))
emit("F/util/to-dsk", run_cli(file_util, ["a.cas", "--to_dsk", "a.dsk"]))
emit("F/util/dsk-to-cas", run_cli(file_util, ["a.dsk", "--to_cas", "back.cas", "--files", "two", "three"]))
emit("F/util/append-cas", run_cli(file_util, ["a.dsk", "--to_cas", "back.cas", "--append"]))
for name in ("p.cas", "copy.cas", "back.cas"):
    image = list(open(name, "rb").read())
    emit("F/blocks/" + name, [digest(image), blocks(image)])
os.chdir(work)

print(json.dumps(["cases", CASES]))
'''


def run(tree):
    tree = os.path.abspath(tree)
    with tempfile.TemporaryDirectory() as work:
        completed = subprocess.run(
            [sys.executable, "-c", PROBE, tree, work],
            cwd=work, capture_output=True, text=True, timeout=1800,
        )
    return completed.returncode, completed.stdout, completed.stderr


def main():
    if len(sys.argv) != 3:
        print(__doc__)
        return 2
    code_a, out_a, err_a = run(sys.argv[1])
    code_b, out_b, err_b = run(sys.argv[2])
    if code_a != 0 or code_b != 0:
        print("probe failed: A={} B={}".format(code_a, code_b))
        print(err_a[-2000:])
        print(err_b[-2000:])
        return 1
    lines_a = out_a.splitlines()
    lines_b = out_b.splitlines()
    differences = 0
    for index in range(max(len(lines_a), len(lines_b))):
        left = lines_a[index] if index < len(lines_a) else "<missing>"
        right = lines_b[index] if index < len(lines_b) else "<missing>"
        if left != right:
            differences += 1
            if differences <= 10:
                position = next((i for i, (a, b) in enumerate(zip(left, right)) if a != b), 0)
                start = max(0, position - 150)
                print("DIFF in {}\n  A: ...{}\n  B: ...{}".format(left[:40], left[start:position + 150], right[start:position + 150]))
    if err_a != err_b:
        differences += 1
        print("stderr differs")
    print("{} records compared, {} differences".format(len(lines_a), differences))
    return 1 if differences else 0


if __name__ == "__main__":
    sys.exit(main())
