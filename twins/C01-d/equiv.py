#!/usr/bin/env python
"""
Differential demonstration: runs the same inputs through the code of two
source trees (one subprocess per tree, the tree being cwd and the first entry
of sys.path) and compares every observable result.

usage: equiv.py <treeA> <treeB>      exit 0 = all cases agree, 1 = difference
"""
import json
import os
import subprocess
import sys

WORKER = r'''
import contextlib, enum, io, json, os, subprocess, sys, tempfile
tree = os.path.abspath(sys.argv[1])
os.chdir(tree)
sys.path.insert(0, tree)
sys.dont_write_bytecode = True

import cocoasm.values as values_mod
import cocoasm.operands as operands_mod
import cocoasm.instruction as instruction_mod
import cocoasm.statement as statement_mod
import cocoasm.program as program_mod
import cocoasm.exceptions as exceptions_mod
from cocoasm.values import *
from cocoasm.operands import *
from cocoasm.instruction import *
from cocoasm.statement import Statement
from cocoasm.program import Program
from cocoasm.exceptions import *


def safe(fn):
    try:
        return describe(fn())
    except Exception as error:
        return {"raised": type(error).__name__, "msg": str(error)}


def describe(obj, depth=0):
    if depth > 6:
        return "<deep>"
    if obj is None or isinstance(obj, (bool, int, str, float)):
        return obj
    if isinstance(obj, bytes):
        return obj.hex()
    if isinstance(obj, enum.Enum):
        return str(obj)
    if isinstance(obj, (list, tuple)):
        return [describe(x, depth + 1) for x in obj]
    if isinstance(obj, (set, frozenset)):
        return sorted(describe(x, depth + 1) for x in obj)
    if isinstance(obj, dict):
        return [[describe(k, depth + 1), describe(v, depth + 1)] for k, v in obj.items()]
    if isinstance(obj, values_mod.Value):
        out = {"cls": type(obj).__name__}
        for name in ("type", "int", "size_hint", "explict_addressing_mode", "negative", "resolved",
                     "original_string", "hex_array", "operation", "original_value"):
            if hasattr(obj, name):
                out[name] = describe(getattr(obj, name), depth + 1)
        for name in ("left", "right", "value"):
            if hasattr(obj, name):
                out[name] = describe(getattr(obj, name), depth + 1)
        out["hex()"] = safe(obj.hex)
        out["hex_len()"] = safe(obj.hex_len)
        out["byte_len()"] = safe(obj.byte_len)
        out["is_8_bit()"] = safe(obj.is_8_bit)
        out["is_16_bit()"] = safe(obj.is_16_bit)
        return out
    if isinstance(obj, instruction_mod.CodePackage):
        return {"cls": "CodePackage", "fields": [[k, describe(v, depth + 1)] for k, v in sorted(vars(obj).items())]}
    if isinstance(obj, operands_mod.Operand):
        out = {"cls": type(obj).__name__}
        for name in ("type", "operand_string", "requires_resolution", "operation", "value", "left", "right"):
            out[name] = describe(getattr(obj, name, "<missing>"), depth + 1)
        out["mnemonic"] = getattr(obj.instruction, "mnemonic", None)
        return out
    if isinstance(obj, instruction_mod.Instruction):
        return {"cls": "Instruction", "fields": describe(tuple(obj), depth + 1)}
    if isinstance(obj, instruction_mod.Mode):
        return {"cls": "Mode", "fields": list(obj)}
    if isinstance(obj, statement_mod.Statement):
        out = {"cls": "Statement"}
        for name in ("is_empty", "is_comment_only", "label", "mnemonic", "comment", "state", "fixed_size",
                     "pcr_size_hint", "operand", "original_operand", "code_pkg"):
            out[name] = describe(getattr(obj, name, "<missing>"), depth + 1)
        out["str"] = safe(lambda: str(obj))
        return out
    if isinstance(obj, BaseException):
        out = {"exc": type(obj).__name__, "msg": str(obj), "args": describe(obj.args, depth + 1)}
        if hasattr(obj, "value"):
            out["value"] = describe(obj.value, depth + 1)
        if hasattr(obj, "statement"):
            stmt = obj.statement
            out["statement"] = stmt if isinstance(stmt, str) else safe(lambda: str(stmt))
        return out
    return "<{}>".format(type(obj).__name__)


def run_program(lines, deep):
    program = Program()
    out = {}
    try:
        program.process([line + "\n" for line in lines])
    except BaseException as error:
        out["error"] = describe(error)
        out["statements_so_far"] = len(program.statements)
        return out
    out["binary"] = safe(program.get_binary_array)
    out["listing"] = safe(program.get_statements)
    out["symbols"] = safe(program.get_symbol_table)
    out["symbol_table"] = describe(program.symbol_table)
    out["origin"] = describe(program.origin)
    out["name"] = describe(program.name)
    out["layout"] = [
        [s.code_pkg.size, s.code_pkg.max_size, describe(s.code_pkg.address.hex()), s.fixed_size, s.pcr_size_hint]
        for s in program.statements
    ]
    if deep:
        out["statements"] = [describe(s) for s in program.statements]
    return out


def run_python(code):
    namespace = dict(globals())
    stream = io.StringIO()
    out = {}
    try:
        with contextlib.redirect_stdout(stream):
            exec(code, namespace)
        out["result"] = describe(namespace.get("result"))
    except BaseException as error:
        out["error"] = describe(error)
    out["stdout"] = stream.getvalue()
    return out


def run_cli(case):
    out = {}
    with tempfile.TemporaryDirectory() as work:
        for name, content in case.get("files", {}).items():
            with open(os.path.join(work, name), "wb") as handle:
                handle.write(content.encode("latin-1"))
        env = dict(os.environ, PYTHONDONTWRITEBYTECODE="1")
        done = subprocess.run(
            [sys.executable, os.path.join(tree, case["tool"])] + case["argv"],
            cwd=work, env=env, stdout=subprocess.PIPE, stderr=subprocess.PIPE, timeout=120,
        )
        out["returncode"] = done.returncode
        out["stdout"] = done.stdout.decode("latin-1").replace(tree, "<TREE>")
        stderr_lines = done.stderr.decode("latin-1").replace(tree, "<TREE>").strip().splitlines()
        # tracebacks carry line numbers of the tree, keep only the final line
        out["stderr_last"] = stderr_lines[-1] if stderr_lines else ""
        out["files"] = {}
        for name in sorted(os.listdir(work)):
            with open(os.path.join(work, name), "rb") as handle:
                out["files"][name] = handle.read().hex()
    return out


results = []
for case in json.load(sys.stdin):
    kind = case["k"]
    if kind == "prog":
        results.append(run_program(case["src"], case.get("deep", False)))
    elif kind == "py":
        results.append(run_python(case["code"]))
    elif kind == "cli":
        results.append(run_cli(case))
    else:
        results.append({"bad kind": kind})
json.dump(results, sys.stdout)
'''


def prog(*lines, deep=True):
    return {"k": "prog", "src": list(lines), "deep": deep}


def py(code):
    return {"k": "py", "code": code}


def cli(tool, argv, files=None):
    return {"k": "cli", "tool": tool, "argv": list(argv), "files": files or {}}


def one(statement, *extra):
    """A one-instruction program at $1000 with a few symbols available."""
    return prog(
        "        ORG   $1000",
        "SMALL   EQU   $12",
        "BIG     EQU   $1234",
        "START   NOP   ",
        "        " + statement,
        "NEXT    NOP   ",
        *extra
    )


def run_tree(tree, cases):
    env = dict(os.environ, PYTHONDONTWRITEBYTECODE="1")
    done = subprocess.run(
        [sys.executable, "-B", "-c", WORKER, tree],
        input=json.dumps(cases).encode(), stdout=subprocess.PIPE, stderr=subprocess.PIPE,
        cwd=tree, env=env,
    )
    if done.returncode != 0:
        sys.stderr.write(done.stderr.decode())
        raise SystemExit("worker failed for " + tree)
    return json.loads(done.stdout.decode())


def main():
    if len(sys.argv) != 3:
        raise SystemExit(__doc__)
    tree_a, tree_b = (os.path.abspath(p) for p in sys.argv[1:3])
    cases = build_cases()
    results_a = run_tree(tree_a, cases)
    results_b = run_tree(tree_b, cases)
    different = 0
    errors = 0
    for case, res_a, res_b in zip(cases, results_a, results_b):
        if "error" in res_a:
            errors += 1
        if res_a != res_b:
            different += 1
            if different <= 10:
                print("DIFFERENT:", json.dumps(case)[:400])
                print("   A:", json.dumps(res_a)[:600])
                print("   B:", json.dumps(res_b)[:600])
    print("{} cases ({} of them error cases in tree A), {} different".format(len(cases), errors, different))
    return 1 if different or len(results_a) != len(cases) or len(results_b) != len(cases) else 0


MNEMONICS = ["LDA", "STB", "LDX", "STY", "LEAX", "LEAS", "JMP", "JSR", "NEG", "CMPU", "LDD", "ADDD", "CLR", "TST",
             "RTS", "LDS"]
STEPS = ["{r}", "{r}+", "{r}++", "-{r}", "--{r}", "+{r}", "{r}-", "{r}--", "++{r}", "-{r}+", "--{r}++", "{r}+-",
         "-{r}-", "{r}+++", "---{r}", "PCR", "PC", "{r}{r}", ""]
LEFTS = ["", "0", "$00", "$0000", "ZERO", "%00000000", "A", "B", "D", "1", "-1", "SMALL", "BIG", "START"]


def build_cases():
    cases = []
    # every marker spelling x every index register x plain and indirect, no offset
    for register in "XYUS":
        for step in STEPS:
            field = step.format(r=register)
            cases.append(one("LDA   ," + field))
            cases.append(one("LDA   [," + field + "]"))
    # the same through the other instructions (8/16 bit, 1 and 2 byte op codes, no indexed mode at all)
    for index, mnemonic in enumerate(MNEMONICS):
        for step in STEPS[:8]:
            field = step.format(r="XYUS"[index % 4])
            cases.append(one("{:<5} ,{}".format(mnemonic, field)))
            cases.append(one("{:<5} [,{}]".format(mnemonic, field)))
    # an offset of zero in every spelling takes the same path, other offsets must not
    for left in LEFTS:
        for step in ["X", "Y+", "U++", "-S", "--X", "+Y", "PCR"]:
            extra = ["ZERO    EQU   0"]
            cases.append(one("LDB   {},{}".format(left, step), *extra))
            cases.append(one("LDB   [{},{}]".format(left, step), *extra))
    # operand objects driven directly
    for text in [",X", ",X+", ",X++", ",-X", ",--X", ",-X+", ",+", ",", ",-", ",++--", "0,Y-", ",PCR+"]:
        for wrapped in (text, "[" + text + "]"):
            cases.append(py(
                "ins = next(i for i in INSTRUCTIONS if i.mnemonic == 'LDA')\n"
                "op = Operand.create_from_str({!r}, ins)\n"
                "op = op.resolve_symbols({{}})\n"
                "result = [op, op.translate()]\n".format(wrapped)))
    cases.append(py("op = IndexedOperand(',X', INSTRUCTIONS[0])\nresult = op.translate()"))
    cases.append(py(
        "ins = next(i for i in INSTRUCTIONS if i.mnemonic == 'LDA')\n"
        "op = ExtendedIndexedOperand('[,X]', ins)\nop.right = NoneValue()\nresult = op.translate()"))
    cases.append(py(
        "ins = next(i for i in INSTRUCTIONS if i.mnemonic == 'LDA')\n"
        "op = IndexedOperand(',X', ins)\nop.right = 5\nresult = op.translate()"))
    # command line
    source = "\n".join([
        "        NAM   STEPS", "        ORG   $3F00", "START   LDA   ,X+", "        STA   ,Y++", "        LDD   ,--U",
        "        STD   [,S++]", "        LDX   [,--Y]", "        LEAY  ,-X", "        JMP   [,U]", "        END   START",
        ""])
    cases.append(cli("assembler.py", ["steps.asm", "--print", "--symbols", "--to_bin", "steps.bin"],
                     {"steps.asm": source}))
    cases.append(cli("assembler.py", ["bad.asm", "--print"], {"bad.asm": "        LDA   [,X+]\n"}))
    return cases


if __name__ == "__main__":
    sys.exit(main())
