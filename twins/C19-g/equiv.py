#!/usr/bin/env python
"""
Differential demonstration for property C19 (INCLUDE is textual inclusion).

Usage: equiv.py <treeA> <treeB>

For each tree a fresh interpreter is started with the tree at the front of
sys.path and as working directory. The driver below builds values, operands and
statements directly, assembles a corpus of accepted and rejected programs (twice,
in different orders, in the same interpreter), assembles relocated / respaced /
uncommented / lower-cased / extended variants of them, splits programs over
INCLUDE files, and runs the tree's own assembler.py and file_util.py in a scratch
directory. Everything observable (attributes of the objects built, emitted bytes,
listing lines, symbol tables, exception type and text, stdout, exit status, hashes
of the files written) goes into a JSON document; the documents of the two trees
are compared key by key. Exit status 0 = all agree, 1 = some difference.
"""
import json
import os
import subprocess
import sys
import tempfile

DRIVER = r'''
import faulthandler, hashlib, io, json, os, shutil, subprocess, sys, tempfile, contextlib, copy

faulthandler.dump_traceback_later(900, exit=True)

tree = os.path.abspath(sys.argv[1])
sys.path.insert(0, tree)
os.chdir(tree)

import cocoasm
assert os.path.abspath(cocoasm.__file__).startswith(tree + os.sep), cocoasm.__file__

from cocoasm import values as V
from cocoasm import operands as O
from cocoasm import statement as S
from cocoasm import instruction as I
from cocoasm.program import Program
from cocoasm.exceptions import TranslationError, ParseError
from cocoasm.virtualfiles.source_file import SourceFile, SourceFileType

results = {}


def rec(name, fn):
    assert name not in results, name
    if os.environ.get("EQUIV_TRACE"):
        sys.stderr.write(name + "\n")
    try:
        results[name] = fn()
    except SystemExit as error:
        results[name] = ["EXIT", repr(error.code)]
    except BaseException as error:
        results[name] = ["EXC", type(error).__name__, str(error)] + (
            [repr(getattr(error, "value", None)), text_of(getattr(error, "statement", None))]
            if isinstance(error, (TranslationError, ParseError)) else [])


def text_of(thing):
    if thing is None or isinstance(thing, str):
        return thing
    try:
        return str(thing)
    except Exception as error:
        return "<str failed: %s %s>" % (type(error).__name__, error)


def guarded(fn):
    try:
        return fn()
    except Exception as error:
        return ["EXC", type(error).__name__, str(error)]


def dv(value, depth=0):
    """Describe a Value (or whatever sits where a Value is expected)."""
    if value is None or isinstance(value, (str, int, bool)):
        return value
    if not isinstance(value, V.Value):
        return "<%s>" % type(value).__name__
    out = {
        "class": type(value).__name__, "type": value.type.name, "int": value.int, "negative": value.negative,
        "size_hint": value.size_hint, "mode": value.explict_addressing_mode.name, "resolved": value.resolved,
        "original": value.original_string if isinstance(value.original_string, (str, int, type(None))) else "<obj>",
        "hex": guarded(value.hex), "hex4": guarded(lambda: value.hex(size=4)), "hex2": guarded(lambda: value.hex(size=2)),
        "hex_len": guarded(value.hex_len), "byte_len": guarded(value.byte_len),
        "high": guarded(value.high_byte), "low": guarded(value.low_byte),
        "bits": [guarded(value.is_8_bit), guarded(value.is_16_bit)], "str": guarded(lambda: str(value)),
        "ascii": guarded(lambda: value.ascii() if isinstance(value.ascii(), (str, int, type(None))) else "<obj>"),
    }
    if hasattr(value, "is_4_bit"):
        out["is4"] = guarded(value.is_4_bit)
        out["neg"] = [guarded(value.get_negative), guarded(lambda: value.get_negative(2)), guarded(lambda: value.get_negative(4))]
    if hasattr(value, "hex_array"):
        out["hex_array"] = list(value.hex_array)
    if depth < 3:
        for attr in ("left", "right", "value"):
            if hasattr(value, attr):
                out[attr] = dv(getattr(value, attr), depth + 1)
    if hasattr(value, "operation"):
        out["operation"] = value.operation
    return out


def dpkg(package):
    return {
        "op_code": dv(package.op_code), "address": dv(package.address), "post_byte": dv(package.post_byte),
        "additional": dv(package.additional), "size": package.size, "max_size": package.max_size,
        "needs": package.additional_needs_resolution, "choices": list(package.post_byte_choices),
    }


def doperand(operand):
    if operand is None:
        return None
    return {
        "class": type(operand).__name__, "type": operand.type.name, "string": operand.operand_string,
        "value": dv(operand.value), "left": dv(operand.left), "right": dv(operand.right),
        "requires_resolution": operand.requires_resolution, "operation": operand.operation,
        "instruction": operand.instruction.mnemonic if operand.instruction else None,
    }


def dstatement(statement):
    return {
        "is_empty": statement.is_empty, "is_comment_only": statement.is_comment_only,
        "instruction": statement.instruction.mnemonic if statement.instruction else None,
        "label": statement.label, "mnemonic": statement.mnemonic, "comment": statement.comment,
        "operand": doperand(statement.operand), "original_operand": doperand(statement.original_operand),
        "state": statement.state, "fixed_size": statement.fixed_size, "pcr_size_hint": statement.pcr_size_hint,
        "pkg": dpkg(statement.code_pkg),
        "str": guarded(lambda: str(statement)),
        "include": guarded(statement.get_include_filename) if statement.instruction else None,
    }


def instruction(mnemonic):
    return next(op for op in I.INSTRUCTIONS if op.mnemonic == mnemonic)


def file_lines(text):
    return [line + "\n" for line in text.split("\n")]

# ---------------------------------------------------------------------------
# 1. values
# ---------------------------------------------------------------------------

MODES = list(V.ExplicitAddressingMode)
NUMBERS = [0, 1, 15, 16, 17, 127, 128, 129, 255, 256, 257, 4095, 4096, 32767, 32768, 32769, 65535, 65536, 70000,
           -1, -15, -16, -17, -127, -128, -129, -255, -256, -32768, -32769, -65535, -70000, True]
NUMBER_TEXTS = ["0", "1", "15", "16", "127", "128", "255", "256", "00255", "0256", "65535", "65536", "99999",
                "-0", "-1", "-16", "-17", "-128", "-129", "-255", "-256", "-32768", "-32769", "-99999",
                "$0", "$F", "$0F", "$FF", "$ff", "$100", "$0100", "$00FF", "$FFFF", "$10000", "$G", "$", "$-1",
                "%0", "%1", "%00000000", "%11111111", "%10101010", "%0000000011111111", "%1111111111111111",
                "%111", "%000000001", "%12", "%",
                "'A", "'z", "'0", "' ", "'$", "'-", "'/", "'+", "','", "''", "'", "'AB", "'[",
                "", " ", "1 ", " 1", "+1", "--1", "1.5", "0x10", "1e3", "ABC", "A1", "1A", "@X", "-A"]

for number in NUMBERS:
    rec("num/int/%r" % number, lambda: dv(V.NumericValue(number)))
    for hint in (2, 4):
        rec("num/int/%r/h%d" % (number, hint), lambda: dv(V.NumericValue(number, size_hint=hint)))
for number in (0, 5, 200, 255, 256, 300, -3, -200, -300):
    for mode in MODES:
        rec("num/int/%r/%s" % (number, mode.name), lambda: dv(V.NumericValue(number, mode=mode)))
        rec("num/int/%r/%s/h2" % (number, mode.name), lambda: dv(V.NumericValue(number, size_hint=2, mode=mode)))
for text in NUMBER_TEXTS:
    rec("num/text/%r" % text, lambda: dv(V.NumericValue(text)))
    rec("num/text/%r/h4" % text, lambda: dv(V.NumericValue(text, size_hint=4)))
for text in ("12", "255", "256", "-5", "$12", "$1234", "%00001111", "%0000111100001111", "'A", "$123", "$1"):
    for mode in MODES:
        rec("num/text/%r/%s" % (text, mode.name), lambda: dv(V.NumericValue(text, mode=mode)))
        rec("num/text/%r/%s/h2" % (text, mode.name), lambda: dv(V.NumericValue(text, size_hint=2, mode=mode)))
for bad in (None, 1.5, b"12", [1], ("1",)):
    rec("num/bad/%r" % (bad,), lambda: dv(V.NumericValue(bad)))
rec("num/direct", lambda: [dv(V.DirectNumericValue(n)) for n in (0, 255, 256, "$10", "$1000", "7")])
rec("num/extended", lambda: [dv(V.ExtendedNumericValue(n)) for n in (0, 255, 256, "$10", "$1000", "7")])
rec("num/hex_sizes", lambda: [[V.NumericValue(n).hex(size=s) for s in (0, 1, 2, 3, 4, 6)]
                              for n in (0, 9, 255, 256, 4096, 65535, -1, -128, -129, -32768)])

LISTS = ["1,2", "1,2,3", "$FF,$00", "255,256", "1,,2", ",", ",1", "1,", "1", "", "A,B", "1,$10000", "$1234,$5",
         "%00000001,2", "'A,'B", "-1,-2", "1, 2", "300,2", "65535,0", "65536,0", "-129,1", "$100,1"]
for text in LISTS:
    rec("multibyte/%r" % text, lambda: dv(V.MultiByteValue(text)))
    rec("multiword/%r" % text, lambda: dv(V.MultiWordValue(text)))
    rec("leftright/%r" % text, lambda: dv(V.LeftRightValue(text)))
    rec("leftright/%r/mode" % text, lambda: dv(V.LeftRightValue(text, size_hint=2, mode=V.ExplicitAddressingMode.EXTENDED)))
for text in ('"abc"', "'abc'", "/a b/", '""', '"', "ab", '"abc', 'abc"', "aa", "a", '"\x01\x7f"', '"AbC dEf"', "/x/y/"):
    rec("string/%r" % text, lambda: dv(V.StringValue(text)))
rec("string/empty", lambda: dv(V.StringValue("")))
SYMBOLS = ["A", "abc", "ABC123", "@x", "x@1", "a_b", "a-b", "a.b", "", " a", "1", "1a", "PCR", "$a", "a b", "é"]
for text in SYMBOLS:
    rec("symbol/%r" % text, lambda: dv(V.SymbolValue(text)))
    rec("symbol/%r/ext" % text, lambda: dv(V.SymbolValue(text, mode=V.ExplicitAddressingMode.EXTENDED)))
for number in (0, 1, 9, 15, 16, 255, 256, 4095, 4096, 65535, 70000, "12", "abc", -1, -16, 1.7):
    rec("address/%r" % (number,), lambda: dv(V.AddressValue(number)))
    rec("address/%r/sizes" % (number,), lambda: [V.AddressValue(number).hex(size=s) for s in (0, 1, 2, 3, 4, 6)])
rec("none", lambda: [dv(V.NoneValue()), dv(V.NoneValue("x")), dv(V.NoneValue(None))])

TABLE = {
    "ADDR": V.AddressValue(3), "ADDR0": V.AddressValue(0), "NUM": V.NumericValue(5), "BIG": V.NumericValue(0x1234),
    "EXT": V.ExtendedNumericValue(0x20), "DIR": V.DirectNumericValue(0x20), "STR": V.StringValue('"x"'),
    "NONE": V.NoneValue(), "ZERO": V.NumericValue(0), "NEG": V.NumericValue(-4),
}
EXPRESSIONS = ["1+2", "5-3", "3-5", "2*3", "7/2", "7/0", "$10+$20", "$FF+1", "$100+1", "255+1", "65535+1", "0-0",
               "ADDR+1", "1+ADDR", "ADDR-1", "ADDR*2", "ADDR/2", "ADDR+ADDR", "ADDR+NUM", "NUM+ADDR", "NUM+NUM",
               "NUM*BIG", "BIG+BIG", "EXT+1", "DIR+1", "STR+1", "NONE+1", "NEG+1", "1+NEG", "MISSING+1", "1+MISSING",
               "A+B+C", "1+", "+1", "1", "A", "1 + 2", "$+1", "1+$", "%1+1", "'A+1", "A_B+1", "@A+1", "1++2", "1+-2",
               "300*300", "2-65535", "NUM-BIG", "BIG/NUM", "BIG/ZERO", "ADDR/ZERO", "ADDR0+0", "$$1+1"]
for text in EXPRESSIONS:
    rec("expr/new/%r" % text, lambda: dv(V.ExpressionValue(text)))
    for mode in (V.ExplicitAddressingMode.NONE, V.ExplicitAddressingMode.EXTENDED, V.ExplicitAddressingMode.IMMEDIATE):
        def resolve_it():
            expression = V.ExpressionValue(text, mode=mode)
            before = dv(expression)
            resolved = expression.resolve(dict(TABLE))
            return [before, dv(resolved), dv(expression), resolved is expression]
        rec("expr/resolve/%r/%s" % (text, mode.name), resolve_it)


class FakePkg(object):
    def __init__(self, address):
        self.address = V.NumericValue(address)


class FakeStatement(object):
    def __init__(self, address):
        self.code_pkg = FakePkg(address)


FAKE_STATEMENTS = [FakeStatement(a) for a in (0x0E00, 0x0E02, 0x0E05, 0x0010, 0xFFF0, 0)]
for text in ("ADDR+1", "1+ADDR", "ADDR-1", "ADDR*2", "ADDR/2", "ADDR-NUM", "ADDR+BIG", "ADDR-BIG", "ADDR*BIG", "ADDR/ZERO",
             "ADDR0+1", "ADDR0-1", "ADDR+ADDR0"):
    def offset_it():
        expression = V.ExpressionValue(text)
        resolved = expression.resolve(dict(TABLE))
        return [dv(resolved), expression.extract_address_index_from_expression(),
                dv(expression.calculate_address_offset(FAKE_STATEMENTS))]
    rec("expr/offset/%r" % text, offset_it)

CREATE = NUMBER_TEXTS + EXPRESSIONS[:30] + LISTS[:8] + SYMBOLS + [
    "#1", "#$FF", "#$1234", "#ABC", "#-1", "#'A", "#%00000001", "#", "<1", "<$FF", "<$1234", "<ABC", "<", ">1", ">$FF",
    ">$12", ">%00000001", ">ABC", ">", "<<1", "#<1", "#>1", "><1", "#A+1", "<A+1", ">A+1", ">1+2", "<$10+$20",
    ",X", "A,X", "1,X", ",X+", ",--Y", "[,X]", "[$1234]", "[A,X]", "$10,X", "LABEL,PCR", '"str"', "/s/", "#1,2", "<1,X",
]
CONTEXT = [None] + [instruction(m) for m in ("LDA", "LDX", "ADDD", "FCC", "FCB", "FDB", "EQU", "JMP", "BRA")]
CREATE = list(dict.fromkeys(CREATE))
for text in CREATE:
    for context in CONTEXT:
        for default_extended in (True, False):
            rec("create/%r/%s/%s" % (text, context.mnemonic if context else None, default_extended),
                lambda: dv(V.Value.create_from_str(text, context, default_extended)))
rec("create/byte", lambda: [guarded(lambda b=b: dv(V.Value.create_from_byte(b))) for b in (b"\x00", b"\xff", b"A", b"", b"AB")])
rec("get_symbol", lambda: [guarded(lambda k=k: dv(V.Value.get_symbol(k, TABLE))) for k in ("ADDR", "NUM", "nope", "")])
for text in SYMBOLS[:8] + ["ADDR", "NUM", "BIG", "EXT", "DIR", "STR", "NONE", "NEG", "MISSING"]:
    rec("symbol/resolve/%r" % text, lambda: dv(V.SymbolValue(text).resolve(dict(TABLE))))
rec("regexes", lambda: [[r.pattern, r.flags] for r in (
    V.BINARY_REGEX, V.CHAR_REGEX, V.HEX_REGEX, V.INT_REGEX, V.NEG_INT_REGEX, V.SYMBOL_REGEX, V.EXPRESSION_REGEX,
    S.BLANK_LINE_REGEX, S.COMMENT_LINE_REGEX, S.ASM_LINE_REGEX, S.DIR_REGEX,
    O.DIRECT_REGEX, O.EXTENDED_REGEX, O.EXTENDED_INDIRECT_REGEX, O.UNKNOWN_REGEX)])
rec("tables", lambda: [list(O.REGISTERS), [list(i) for i in I.INSTRUCTIONS].__len__(),
                       hashlib.sha256(repr(I.INSTRUCTIONS).encode()).hexdigest()])

# ---------------------------------------------------------------------------
# 2. operands
# ---------------------------------------------------------------------------

OPERAND_TEXTS = [
    "", "#1", "#$FF", "#$1234", "#LABEL", "#-1", "#'A", "#%00001111", "#NUM", "#ADDR", "#ADDR+1", "#BIG",
    "1", "$10", "$FF", "$100", "$1234", "<$10", ">$10", "<$1234", ">$1234", "<NUM", ">NUM", "<ADDR", ">ADDR",
    "LABEL", "NUM", "ADDR", "BIG", "EXT", "DIR", "STR", "NONE", "MISSING", "ADDR+1", "ADDR-1", "NUM+1", "1+2", "BIG+1",
    ",X", ",Y", ",U", ",S", ",X+", ",X++", ",-X", ",--X", ",Y+", ",--S", ",PCR", ",PC", ",XY", ",Q",
    "A,X", "B,Y", "D,U", "A,S", "D,X+", "A,--Y",
    "0,X", "1,X", "15,X", "16,X", "-16,X", "-17,X", "127,Y", "128,Y", "-128,U", "-129,U", "255,S", "256,S", "32767,X",
    "65535,X", "$10,X", "$0010,X", "$1000,X", "-1,X", "%00000001,X", "'A,X", "5,X+", "5,--X",
    "NUM,X", "BIG,Y", "NEG,X", "ZERO,X", "ADDR,X", "ADDR+1,X", "ADDR-1,Y", "MISSING,X", "EXT,X", "DIR,X", "STR,X",
    "ADDR,PCR", "ADDR+1,PCR", "NUM,PCR", "BIG,PCR", "5,PCR", "$1234,PCR", "MISSING,PCR", "ADDR0,PCR", "EXT,PCR",
    "[,X]", "[,Y]", "[,X++]", "[,--Y]", "[,X+]", "[,-Y]", "[A,X]", "[B,Y]", "[D,U]", "[0,X]", "[5,X]", "[127,X]", "[128,X]",
    "[-5,X]", "[-128,Y]", "[-129,Y]", "[256,S]", "[$10,X]", "[$1000,X]", "[65535,U]",
    "[$1234]", "[$12]", "[1234]", "[ADDR]", "[NUM]", "[BIG]", "[MISSING]", "[ADDR+1]", "[NUM+1]", "[]", "[", "]", "[X]", "[,]",
    "[ADDR,PCR]", "[ADDR+1,PCR]", "[NUM,PCR]", "[5,PCR]", "[BIG,PCR]", "[NUM,X]", "[ADDR,X]", "[NEG,X]", "[5,X+]", "[EXT,X]",
    "[ADDR+1,X]", "[ADDR-1,Y]", "[MISSING,X]", "[STR,X]", "[DIR,X]", "[ZERO,X]", "[EXT,PCR]", "[-0,X]", "-0,X", "[1+2,X]", "1+2,X",
    "A", "B", "X", "A,B", "X,Y", "A,X,Y", "D,X", "X,D", "A,CC", "CC,DP", "PC,S", "U,S", "A,D", "Q,A", "A,Q", "a,b", "A,B,",
    "A,B,X,Y,U,PC,CC,DP,D", "S", "U", "X,", ",", "1,2", "1,2,3", "$FF,$00", "1,,2", '"str"', "'str'", "/a b/", '"', "file.asm",
    "$0E00", "3", "0", "256", "65535", "65536", "-1", "$10000", "%101", "1 2", "@L", "L@1", "#", "<", ">", "+", "*",
]
OPERAND_INSTRUCTIONS = ["LDA", "LDX", "STA", "LEAX", "JMP", "JSR", "ADDD", "CLR", "ANDCC", "ABX", "RTS", "BRA", "LBRA", "BSR",
                        "PSHS", "PULU", "EXG", "TFR", "FCB", "FDB", "FCC", "RMB", "ORG", "EQU", "END", "NAM", "INCLUDE", "SETDP"]
for mnemonic in OPERAND_INSTRUCTIONS:
    context = instruction(mnemonic)
    for text in OPERAND_TEXTS:
        def operand_life():
            out = {}
            operand = O.Operand.create_from_str(text, context)
            out["created"] = doperand(operand)
            try:
                resolved = operand.resolve_symbols(dict(TABLE))
                out["resolved"] = doperand(resolved)
                out["same"] = resolved is operand
            except Exception as error:
                out["resolve_error"] = [type(error).__name__, str(error)]
                return out
            try:
                out["pkg"] = dpkg(resolved.translate())
                out["after"] = doperand(resolved)
            except Exception as error:
                out["translate_error"] = [type(error).__name__, str(error)]
            return out
        rec("operand/%s/%r" % (mnemonic, text), operand_life)

EXPLICIT = [
    (O.UnknownOperand, ["1", "$10", "LABEL", "A,X", "", "#1", "1+2"]),
    (O.ImmediateOperand, ["#1", "#$1234", "1", "LABEL", "#LABEL", "", "#"]),
    (O.DirectOperand, ["<1", "$10", "1", "$1234", ">$10", "LABEL", "<LABEL", ""]),
    (O.ExtendedOperand, [">1", ">$10", "$1234", "$10", "LABEL", ">LABEL", "", ">"]),
    (O.RelativeOperand, ["LABEL", "1", "", "A,X"]),
    (O.InherentOperand, ["", "1", "LABEL"]),
]
for cls, texts in EXPLICIT:
    for mnemonic in ("LDA", "BRA", "LBSR", "RTS", "JMP"):
        for text in texts:
            for given in (None, V.NumericValue(7), V.NumericValue(0x1234), V.AddressValue(2), V.NoneValue()):
                def direct_life():
                    operand = cls(text, instruction(mnemonic), given) if given is not None else cls(text, instruction(mnemonic))
                    out = {"created": doperand(operand), "given_kept": operand.value is given}
                    out["pkg"] = guarded(lambda: dpkg(operand.translate()))
                    return out
                rec("explicit/%s/%s/%r/%s" % (cls.__name__, mnemonic, text, dv(given)["hex"] if given is not None else None),
                    direct_life)
rec("explicit/bad", lambda: [doperand(O.BadInstructionOperand("xyz", None)), dpkg(O.BadInstructionOperand("q", None).translate())])
rec("explicit/kw", lambda: [doperand(O.ExtendedOperand("X", instruction("LDA"), value=V.NumericValue(9))),
                            doperand(O.UnknownOperand("X", instruction("LDA"), value=V.NumericValue(9))),
                            doperand(O.DirectOperand("X", instruction("LDA"), value=V.NumericValue(9))),
                            doperand(O.ImmediateOperand("X", instruction("LDA"), value=V.NumericValue(9))),
                            doperand(O.RelativeOperand("X", instruction("BRA"), value=V.NumericValue(9)))])

# ---------------------------------------------------------------------------
# 3. single statements
# ---------------------------------------------------------------------------

LINES = [
    "", " ", "\n", "\t\n", "; comment", "   ; indented comment  ", ";", ";;x", "* star", "LABEL", "LABEL\n", "LABEL \n",
    " NOP\n", " nop\n", " Nop \n", "L NOP\n", "L@1 NOP\n", "@L NOP\n", " NOP ; c\n", " NOP c\n", " NOP   c d e\n", " NOP;c\n",
    " LDA #1\n", " LDA #1 ; c\n", " LDA #1 c\n", " LDA #1;c\n", " LDA #1 ;;; c\n", "  LDA   #1   ;   c   \n", "\tLDA\t#1\t;\tc\n",
    "L LDA #1\n", "L: LDA #1\n", "L.1 LDA #1\n", "LDA #1\n", " LDA\n", " LDA \n", " LDA  \n", " XYZ 1\n", " XYZ\n", " 123 4\n",
    " LDA $10,X comment\n", " LDA [$10,X] ; c\n", " LDA A,X\n", " LDA 1 2\n", " LDA #'A\n", " LDA #' \n", " LDA #';\n",
    ' FCC "hello"\n', ' FCC "hello" ; c\n', ' FCC "hello world" c\n', " FCC /a b c/ trailing\n", ' FCC "a;b" ; c\n', ' FCC "unterminated\n',
    " FCC\n", " FCC \n", ' FCC ""\n', ' FCC "a" "b"\n', " FCC abc\n", " FCC a\n", ' L FCC "x"\n', 'L FCC "x"  comment here\n',
    " FCB 1,2,3\n", " FCB 1, 2\n", " FDB $1234,5\n", " FCB\n", " RMB 10\n", " ORG $0E00\n", "V EQU $FF\n", "V EQU 1+1\n", "V EQU\n",
    " INCLUDE file.asm\n", " INCLUDE\n", " INCLUDE file.asm ; c\n", " include lower.asm\n", " NAM prog\n", " NAM\n", " END\n", " END START\n",
    " BRA L\n", " LBRA L\n", " BRA\n", " BRA 1\n", " BRA $10\n", " BRA L+1\n", " PSHS A,B\n", " PSHS\n", " TFR A,B\n", " EXG X\n",
    " LDA #\n", " LDA #$\n", " LDA ]\n", " LDA é\n", " LDA #1 é\n", " LDA `\n", "  LDA  #1\\\n", " LDA ~1\n", " LDA {1}\n", " LDA |\n",
    "TOOLONGLABELNAME1234567890 NOP\n", " SETDP 0\n", " SET 5\n", "A NOP\n", "X LDA #1\n", "PCR NOP\n",
]
for number, line in enumerate(LINES):
    rec("line/%03d/%r" % (number, line), lambda: dstatement(S.Statement(line)))


def statement_cycle(line, table):
    statement = S.Statement(line)
    out = {"parsed": dstatement(statement)}
    try:
        statement.resolve_symbols(dict(table))
    except TranslationError as error:
        out["resolve_error"] = [error.value, text_of(error.statement)]
        return out
    out["resolved"] = dstatement(statement)
    try:
        statement.translate()
    except TranslationError as error:
        out["translate_error"] = [error.value, text_of(error.statement)]
        return out
    out["translated"] = dstatement(statement)
    out["set_address"] = [statement.set_address(0x0E00), statement.set_address(0x1234), dv(statement.code_pkg.address)]
    return out


for number, line in enumerate(LINES):
    rec("cycle/%03d/%r" % (number, line), lambda: statement_cycle(line, TABLE))
rec("statement/eq", lambda: [S.Statement(a) == S.Statement(b) for a in LINES[12:30] for b in LINES[12:30]])

# ---------------------------------------------------------------------------
# 4. whole programs
# ---------------------------------------------------------------------------

PROGRAMS = {}


def program(name, text):
    assert name not in PROGRAMS
    PROGRAMS[name] = file_lines(text)


program("minimal", """        NAM     MINIMAL
        ORG     $0E00
START   LDA     #$01
        RTS
        END     START""")

program("modes", """; all addressing modes
        ORG     $0E00
START   LDA     #$01            ; immediate
        LDB     #255
        LDX     #$1234
        LDY     #DATA
        LDD     #DATA+1
        LDA     $10             ; direct
        LDA     <$10
        LDA     >$10            ; forced extended
        LDA     $1234
        LDA     DATA
        LDA     DATA+1
        LDA     DATA-1
        STA     >DATA
        LDA     ,X
        LDA     ,X+
        LDA     ,X++
        LDA     ,-Y
        LDA     ,--Y
        LDA     A,X
        LDA     B,Y
        LDA     D,U
        LDA     0,X
        LDA     1,X
        LDA     15,X
        LDA     16,X
        LDA     -16,X
        LDA     -17,X
        LDA     127,S
        LDA     128,S
        LDA     -128,U
        LDA     -129,U
        LDA     $10,X
        LDA     $1000,X
        LDA     [,X]
        LDA     [,X++]
        LDA     [,--Y]
        LDA     [A,X]
        LDA     [5,X]
        LDA     [-5,Y]
        LDA     [300,U]
        LDA     [$1234]
        LDA     [DATA]
        LDA     DATA,PCR
        LDA     [DATA,PCR]
        LEAX    DATA,PCR
        LEAY    START,PCR
        LEAX    1,X
        LEAS    -2,S
        JMP     START
        JSR     DATA
        JMP     [DATA]
        JSR     ,X
        CLR     DATA
        CLR     <$20
        INC     $20
        TST     >$20
        ADDD    #1
        ADDD    #$FF
        CMPX    #DATA
        CMPY    #$10
        CMPS    DATA
        RTS
DATA    FCB     $01,$02,$03
        FCB     255
        FDB     $1234,$0E00,5
        FDB     DATA
        FCC     "HELLO"
        RMB     4
TAIL    FCB     0
        END     START""")

program("branches", """        ORG     $3F00
START   BRA     NEXT
NEXT    BNE     START
        BEQ     NEXT
        LBRA    FAR
        LBNE    START
        LBSR    SUB
        BSR     SUB
LOOP    DECA
        BNE     LOOP
        BRN     LOOP
        BHI     LOOP
        BLS     FWD
        NOP
        NOP
FWD     LBEQ    LOOP
        LBRN    FWD
SUB     RTS
FAR     NOP
        BRA     FAR
        END     START""")

program("stack", """        ORG     $1000
S1      PSHS    A,B,X,Y,U,PC,CC,DP
        PSHS    D
        PULS    A,B
        PSHU    S,X
        PULU    A,PC
        EXG     A,B
        EXG     X,Y
        TFR     D,X
        TFR     S,U
        TFR     A,DP
        TFR     CC,A
        EXG     PC,X
        ANDCC   #$FE
        ORCC    #1
        CWAI    #$FF
        SWI
        SWI2
        SWI3
        SYNC
        ABX
        MUL
        SEX
        DAA
        RTI
        END     S1""")

program("equates", """SCREEN  EQU     $0400
WIDTH   EQU     32
ZP      EQU     $20
BIG     EQU     $1234
SUM     EQU     1+2
        ORG     $0E00
START   LDX     #SCREEN
        LDA     #WIDTH
        LDB     ZP
        STB     <ZP
        STB     >ZP
        LDD     BIG
        LDA     WIDTH,X
        LDA     ZP,Y
        LDA     BIG,U
        LDA     [ZP,X]
        LDA     SCREEN+1
        LDA     SCREEN-1
        LDX     #SCREEN+32
        STA     SCREEN
        LDA     #WIDTH+1
        LDA     #WIDTH*2
        LDA     #WIDTH/2
        RTS
        END     START""")

program("pcr_far", "        ORG     $2000\nSTART   LEAX    FAR,PCR\n        LDA     FAR,PCR\n        LDB     [FAR,PCR]\n"
        + "        NOP\n" * 130 + "FAR     FCB     1\n        LEAY    START,PCR\n        LDX     START,PCR\n        END     START")
program("pcr_edge127", "        ORG     $2000\nSTART   LEAX    FAR,PCR\n" + "        NOP\n" * 124 + "FAR     RTS\n        LEAY    START,PCR")
program("pcr_edge128", "        ORG     $2000\nSTART   LEAX    FAR,PCR\n" + "        NOP\n" * 125 + "FAR     RTS\n        LEAY    START,PCR")
program("pcr_edge129", "        ORG     $2000\nSTART   LEAX    FAR,PCR\n" + "        NOP\n" * 126 + "FAR     RTS\n        LEAY    START,PCR")
program("pcr_chain", "        ORG     $2000\nA1      LEAX    A3,PCR\nA2      LEAY    A4,PCR\n" + "        NOP\n" * 120
        + "A3      LEAU    A1,PCR\nA4      LEAS    A2,PCR\n        RTS")
program("pcr_expr", """        ORG     $0600
V       FCB     0,0,0
B       LDA     $FF
        STY     V+1,PCR
        STY     V-1,PCR
        LDX     T+2,PCR
        STY     [V+1,PCR]
T       FDB     1,2
        END     B""")
program("branch_edge_back", "        ORG     $2000\nTOP     NOP\n" + "        NOP\n" * 125 + "        BRA     TOP")
program("branch_edge_back2", "        ORG     $2000\nTOP     NOP\n" + "        NOP\n" * 126 + "        BRA     TOP")
program("branch_edge_fwd", "        ORG     $2000\n        BRA     END1\n" + "        NOP\n" * 127 + "END1    RTS")
program("branch_edge_fwd2", "        ORG     $2000\n        BRA     END1\n" + "        NOP\n" * 128 + "END1    RTS")
program("long_branch_far", "        ORG     $2000\nTOP     LBRA    END1\n" + "        LDA     $1234\n" * 200 + "END1    LBNE    TOP\n        LBSR    TOP")

program("low_origin", """        ORG     $0010
START   LDA     DATA
        LDX     #DATA
        JMP     START
        LDA     START
        STA     DATA+1
DATA    FCB     1,2
        END     START""")
program("cross_100", """        ORG     $00F8
START   LDA     DATA
        LDX     #DATA
        JMP     START
DATA    FCB     1,2
AFTER   LDA     AFTER
        LDA     START
        END     START""")
program("no_origin", """START   LDA     #1
        STA     DATA
        BRA     START
DATA    RMB     2
        FCB     9""")
program("two_origins", """        ORG     $1000
A1      LDA     #1
        ORG     $2000
A2      LDA     A1
        JMP     A2
        ORG     $0050
A3      LDA     A3
        NAM     FIRST
        NAM     SECOND""")
program("data_only", """        ORG     $4000
TABLE   FCB     1
        FCB     1,2,3,4,5,6,7,8,9,10,11,12,13,14,15,16
        FDB     1
        FDB     $FFFF,$0000,$4000
        FCC     /slashes and spaces/
        FCC     "x"
        RMB     0
        RMB     1
        RMB     300
        FCB     'A
        FCB     %10101010
        FDB     %1111000011110000
        FCB     -1
        FDB     -1
LAST    FCB     $FF""")
program("comments_blank", """; leading comment

   ; another
        ORG     $0E00   ; origin comment
START   NOP             ; comment after inherent

        LDA     #1      ;; double
        LDA     #2;tight
        RTS
""")
program("case_mix", """        org     $0e00
Start   lda     #$0a
        Ldb     #$Ff
loop    deca
        bne     loop
        jmp     Start
        end     Start""")
program("at_labels", """        ORG     $0E00
@A      LDA     #1
B@1     BRA     @A
L123    JMP     B@1
        LDX     #L123
        LDA     @A,PCR""")
program("register_named_labels", """        ORG     $0E00
A       NOP
B       NOP
D       NOP
X       LDA     A
        LDA     X
        LDA     #X
        JMP     D
PCR     NOP
        LDA     PCR
S       FCB     1""")
program("label_letters", """        ORG     $0E00
XYUS    FCB     1,2,3,4
PCX     LDA     XYUS,X
        LDA     XYUS,PCR
        LDA     PCX,PCR
        LEAX    XYUS+1,PCR
        LDA     [XYUS,PCR]
        LDA     XYUS,Y
        RTS""")
program("label_letters2", """        ORG     $0E00
XYUS    FCB     1,2,3,4
PCX     LDA     XYUS,PCR
        LDA     PCX,PCR
        LEAX    XYUS+1,PCR
        LDA     [XYUS,PCR]
        LDX     #XYUS
        LDA     XYUS
        RTS""")
program("err_star_line", "        ORG     $0E00\n* star comment\n        RTS")
program("err_equ_expr", "SUM     EQU     1+2\n        ORG     $0E00\n        LDA     SUM\n")
program("fcc_variants", """        ORG     $0E00
M1      FCC     "HELLO WORLD"   trailing
M2      FCC     /a;b/           ; semi inside
M3      FCC     'quoted'
M4      FCC     "ab"
        FCB     0
        LDX     #M2
        END""")
program("setdp_set", """        ORG     $0E00
        SETDP   $0E
        SET     5
START   LDA     <$10
        END     START""")
program("big", "        ORG     $1000\n" + "".join(
    "L%d     LDA     #%d\n        STA     $%04X\n        BNE     L%d\n        LDX     L%d,PCR\n" % (i, i % 256, 0x400 + i, max(0, i - 3), (i * 7) % 60)
    for i in range(60)) + "        RTS\n")

# rejected programs
program("err_mnemonic", "        ORG     $0E00\n        FOO     #1\n        RTS")
program("err_unparsable", "        ORG     $0E00\nLABELONLY\n        RTS")
program("err_redefined", "        ORG     $0E00\nA1      NOP\nA1      NOP")
program("err_undefined", "        ORG     $0E00\n        LDA     NOWHERE\n")
program("err_undefined_branch", "        ORG     $0E00\n        BRA     NOWHERE\n")
program("err_undefined_pcr", "        ORG     $0E00\n        LDA     NOWHERE,PCR\n")
program("err_branch_range", "        ORG     $2000\nTOP     NOP\n" + "        NOP\n" * 140 + "        BRA     TOP")
program("err_branch_range_fwd", "        ORG     $2000\n        BRA     END1\n" + "        NOP\n" * 140 + "END1    RTS")
program("err_immediate_store", "        ORG     $0E00\n        STA     #1\n")
program("err_inherent_operand", "        ORG     $0E00\n        LDA\n")
program("err_indexed_unsupported", "        ORG     $0E00\n        ANDCC   ,X\n")
program("err_bad_register", "        ORG     $0E00\n        PSHS    Q\n")
program("err_own_stack", "        ORG     $0E00\n        PSHS    S\n")
program("err_tfr_sizes", "        ORG     $0E00\n        TFR     A,X\n")
program("err_tfr_count", "        ORG     $0E00\n        TFR     A\n")
program("err_big_value", "        ORG     $0E00\n        LDX     #70000\n")
program("err_hex_long", "        ORG     $0E00\n        LDX     #$12345\n")
program("err_binary_len", "        ORG     $0E00\n        LDA     #%101\n")
program("err_fcc_empty", "        ORG     $0E00\n        FCC\n")
program("err_fcc_delims", "        ORG     $0E00\n        FCC     abc\n")
program("err_extended_indirect_inc", "        ORG     $0E00\n        LDA     [,X+]\n")
program("err_indexed_expression", "        ORG     $0E00\nV       FCB     1\n        LDA     V,X+\n")
program("err_string_symbol", "S1      EQU     5\n        ORG     $0E00\n        LDA     S1+S2\n")
program("err_unresolved_expr", "        ORG     $0E00\n        LDA     #1+UNDEF\n")
program("err_equ_symbol", "V1      EQU     V2\nV2      EQU     5\n        LDA     V1\n")
program("err_div_zero", "Z       EQU     0\n        ORG     $0E00\n        LDA     #4/0\n")
program("err_lea_immediate", "        ORG     $0E00\n        LEAX    #1\n")
program("err_include_missing", "        ORG     $0E00\n        INCLUDE no_such_file_anywhere.asm\n        RTS")
program("err_late", "        ORG     $0E00\n" + "        NOP\n" * 20 + "        LDA     #1\n        BOGUS\n")
program("empty", "")
program("only_comments", "; nothing\n\n   ; here")


def assemble(lines):
    """Assemble one program and return everything observable about it."""
    given = list(lines)
    prog = Program()
    out = {}
    try:
        prog.process(lines)
    except (TranslationError, ParseError) as error:
        out["error"] = [type(error).__name__, error.value, str(error), text_of(error.statement)]
    except Exception as error:
        out["error"] = [type(error).__name__, str(error)]
    out["lines_untouched"] = lines == given
    out["origin"] = dv(prog.origin)
    out["name"] = prog.name
    out["address"] = prog.address
    if "error" not in out:
        out["binary"] = prog.get_binary_array()
        out["listing"] = prog.get_statements()
        out["symbols"] = prog.get_symbol_table()
        out["symbol_values"] = [[k, dv(v)] for k, v in prog.symbol_table.items()]
        out["sizes"] = [[s.code_pkg.size, s.code_pkg.max_size, s.fixed_size, s.pcr_size_hint] for s in prog.statements]
        out["all_fixed"] = prog.all_sizes_fixed()
    else:
        out["symbols_so_far"] = guarded(prog.get_symbol_table)
        out["statements_so_far"] = len(prog.statements)
    return out


for name, lines in PROGRAMS.items():
    rec("program/first/%s" % name, lambda: assemble(lines))
# again, warm, in reverse order (history dependence) and twice in a row
for name in reversed(list(PROGRAMS)):
    rec("program/second/%s" % name, lambda: assemble(PROGRAMS[name]))
rec("program/repeat_equal", lambda: [assemble(PROGRAMS[n]) == assemble(PROGRAMS[n]) for n in PROGRAMS])
rec("program/defaults_clean", lambda: [dv(I.CodePackage().op_code), dv(I.CodePackage().address), dv(I.CodePackage().additional),
                                       I.CodePackage().post_byte_choices, dpkg(I.CodePackage())])

# metamorphic variants of the accepted programs (relocation, renaming, white space, comments, case, suffix)
ACCEPTED = [n for n in PROGRAMS if "error" not in results["program/first/%s" % n] and not n.startswith("err")]


def relocated(lines, delta):
    out = []
    for line in lines:
        fields = line.split()
        if len(fields) >= 2 and fields[0].upper() == "ORG" and fields[1].startswith("$"):
            line = line.replace(fields[1], "$%04X" % ((int(fields[1][1:], 16) + delta) & 0xFFFF), 1)
        out.append(line)
    return out


def respaced(lines):
    return [("\t".join(line.rstrip("\n").split("  ")) + "\n") if '"' not in line and "/" not in line and "'" not in line else line
            for line in lines]


def uncommented(lines):
    return [line.split(";")[0].rstrip() + "\n" if "FCC" not in line.upper() else line for line in lines]


def lowered(lines):
    out = []
    for line in lines:
        if line[:1] in " \t" and "FCC" not in line.upper():
            fields = line.split(None, 1)
            if fields:
                line = line.replace(fields[0], fields[0].lower(), 1)
        out.append(line)
    return out


def extended(lines):
    body = [line for line in lines if line.split()[:1] != ["END"]]
    return body + file_lines("ZZNEW1  LDA     #1\n        STA     ZZNEW2\n        BRA     ZZNEW1\nZZNEW2  FCB     1,2,3")


for name in ACCEPTED:
    lines = PROGRAMS[name]
    for delta in (0x100, -0x8, 0x3000):
        rec("variant/reloc%+d/%s" % (delta, name), lambda: assemble(relocated(lines, delta)))
    rec("variant/respaced/%s" % name, lambda: assemble(respaced(lines)))
    rec("variant/uncommented/%s" % name, lambda: assemble(uncommented(lines)))
    rec("variant/lowered/%s" % name, lambda: assemble(lowered(lines)))
    rec("variant/extended/%s" % name, lambda: assemble(extended(lines)))

# hand-built statement lists (bypassing process) as the unit tests do
def by_hand(lines):
    prog = Program()
    prog.statements = [S.Statement(line) for line in lines]
    prog.translate_statements()
    return [prog.get_binary_array(), prog.get_statements(), prog.get_symbol_table(), dv(prog.origin), prog.name]


rec("byhand/1", lambda: by_hand(["     ORG $0E00", "V    STX R+1", "R    FCB 0", "     FCB 0"]))
rec("byhand/2", lambda: by_hand(["     ORG $0600", "V    FCB 0", "B    LDA $FF", "     STY V,PCR", "     END B"]))
rec("byhand/3", lambda: by_hand(["     ORG $0600", "B    LEAX Z,PCR", "     LDA $FF", "Z    RTS  ", "     END B"]))
rec("byhand/4", lambda: by_hand(["; c", "", "     NOP  "]))
rec("parse", lambda: [len(Program.parse(PROGRAMS[n])) for n in ("modes", "comments_blank", "empty", "only_comments")])

# ---------------------------------------------------------------------------
# 5. INCLUDE: split programs over several files and compare with the spliced text
# ---------------------------------------------------------------------------

scratch = tempfile.mkdtemp(prefix="asmdrv")


def put(name, lines):
    path = os.path.join(scratch, name)
    os.makedirs(os.path.dirname(path), exist_ok=True)
    with open(path, "w") as handle:
        handle.writelines(lines)


def run_cli(script, *arguments):
    before = snapshot()
    done = subprocess.run(
        [sys.executable, os.path.join(tree, script)] + list(arguments), cwd=scratch,
        stdout=subprocess.PIPE, stderr=subprocess.PIPE, universal_newlines=True,
        env=dict(os.environ, PYTHONDONTWRITEBYTECODE="1", PYTHONHASHSEED=os.environ.get("DRIVER_HASHSEED", "0")),
    )
    after = snapshot()
    stderr = done.stderr.replace(tree, "<tree>")
    if "Traceback (most recent call last)" in stderr:
        # line numbers and source excerpts of a traceback are not behaviour: keep the exception line
        stderr = "Traceback ... " + [line for line in stderr.splitlines() if line.strip()][-1]
    return {"status": done.returncode, "stdout": done.stdout, "stderr": stderr,
            "changed": {n: d for n, d in after.items() if before.get(n) != d}}


def snapshot():
    out = {}
    for folder, _, names in os.walk(scratch):
        for name in names:
            path = os.path.join(folder, name)
            with open(path, "rb") as handle:
                out[os.path.relpath(path, scratch)] = hashlib.sha256(handle.read()).hexdigest()
    return out


def split_program(name, cuts, nested):
    """Write PROGRAMS[name] as main file + included files cut at the given line numbers."""
    lines = [line for line in PROGRAMS[name]]
    if lines and lines[-1] == "\n":
        lines = lines[:-1]
    pieces = []
    previous = 0
    for cut in cuts + [len(lines)]:
        pieces.append(lines[previous:cut])
        previous = cut
    main = list(pieces[0])
    file_names = []
    for number, piece in enumerate(pieces[1:]):
        file_name = "%s_inc%d.asm" % (name, number)
        file_names.append(file_name)
    if nested:
        # each piece includes the next one at its end
        for number, piece in enumerate(pieces[1:]):
            content = list(piece)
            if number + 1 < len(file_names):
                content.append("        INCLUDE %s\n" % file_names[number + 1])
            put(file_names[number], content)
        if file_names:
            main.append("        INCLUDE %s\n" % file_names[0])
    else:
        for number, piece in enumerate(pieces[1:]):
            put(file_names[number], piece)
            main.append("        INCLUDE %s     ; piece %d\n" % (file_names[number], number))
    put("%s_main.asm" % name, main)
    put("%s_flat.asm" % name, lines)


os.chdir(scratch)
INCLUDE_CASES = []
for name in ("minimal", "modes", "branches", "equates", "pcr_expr", "low_origin", "cross_100", "label_letters", "data_only",
             "pcr_edge128", "err_redefined", "err_undefined", "err_mnemonic", "big"):
    count = len(PROGRAMS[name])
    for label, cuts, nested in (("half", [count // 2], False), ("thirds", [count // 3, 2 * count // 3], False),
                                ("nested", [count // 4, count // 2, 3 * count // 4], True), ("head", [1], False),
                                ("tail", [max(1, count - 1)], False)):
        tag = "%s_%s" % (name, label)
        PROGRAMS[tag] = PROGRAMS[name]
        split_program(tag, cuts, nested)
        INCLUDE_CASES.append(tag)


def assemble_file(file_name):
    with open(file_name) as handle:
        return assemble(handle.readlines())


for tag in INCLUDE_CASES:
    rec("include/lib/main/%s" % tag, lambda: assemble_file("%s_main.asm" % tag))
    rec("include/lib/flat/%s" % tag, lambda: assemble_file("%s_flat.asm" % tag))

put("self.asm", file_lines("        ORG     $0E00\n        NOP\n        INCLUDE self.asm\n        RTS"))
put("ping.asm", file_lines("        NOP\n        INCLUDE pong.asm"))
put("pong.asm", file_lines("        NOP\n        INCLUDE ping.asm"))
put("cycle_main.asm", file_lines("        ORG     $0E00\n        INCLUDE ping.asm\n        RTS"))
put("twice.asm", file_lines("        ORG     $0E00\n        INCLUDE leaf.asm\n        INCLUDE leaf2.asm\n        RTS"))
put("leaf.asm", file_lines("LEAF    NOP\n        LDA     #1"))
put("leaf2.asm", file_lines("LEAF2   NOP\n        BRA     LEAF"))
put("dup.asm", file_lines("        ORG     $0E00\n        INCLUDE leaf.asm\n        INCLUDE leaf.asm\n        RTS"))
put("missing.asm", file_lines("        ORG     $0E00\n        INCLUDE nowhere.asm\n        RTS"))
put("deep_missing.asm", file_lines("        ORG     $0E00\n        INCLUDE has_missing.asm\n        RTS"))
put("has_missing.asm", file_lines("        NOP\n        INCLUDE nowhere2.asm"))
put("sub/inner.asm", file_lines("INNER   FCB     1,2,3"))
put("subdir.asm", file_lines("        ORG     $0E00\n        LDX     #INNER\n        INCLUDE sub/inner.asm\n        RTS"))
put("bad_inside.asm", file_lines("        ORG     $0E00\n        INCLUDE broken.asm\n        RTS"))
put("broken.asm", file_lines("        NOP\n        WHAT    #1"))
put("empty_inc.asm", file_lines("        ORG     $0E00\n        INCLUDE nothing.asm\n        RTS"))
put("nothing.asm", [])
put("dir_inc.asm", file_lines("        ORG     $0E00\n        INCLUDE sub\n        RTS"))
put("comment_inc.asm", file_lines("        ORG     $0E00\nLBL     INCLUDE leaf.asm   ; with label and comment\n        include leaf2.asm\n        RTS"))
put("name_in_inc.asm", file_lines("        INCLUDE named.asm\n        RTS"))
put("named.asm", file_lines("        NAM     INNERNAME\n        ORG     $3000\nBEGIN   NOP"))
put("noeol.asm", ["        ORG     $0E00\n", "        INCLUDE leaf.asm\n", "        RTS"])
put("sandwich.asm", file_lines("        ORG     $0E00\nSA      LDA     #1\n        INCLUDE sand_mid.asm\nSB      LDA     SD\n        BRA     SE\n        INCLUDE sand_inner2.asm\n        RTS"))
put("sand_mid.asm", file_lines("SC      LDA     SB,PCR\n        INCLUDE sand_inner.asm\nSD      FCB     4\n        INCLUDE sand_inner3.asm\n        NOP"))
put("sand_inner.asm", file_lines("SE      LEAX    SA,PCR\n        BNE     SF"))
put("sand_inner2.asm", file_lines("SF      FDB     $1234\n; only data"))
put("sand_inner3.asm", file_lines("; nothing but a comment\n"))
put("sand_flat.asm", file_lines("        ORG     $0E00\nSA      LDA     #1\nSC      LDA     SB,PCR\nSE      LEAX    SA,PCR\n        BNE     SF\nSD      FCB     4\n        NOP\nSB      LDA     SD\n        BRA     SE\nSF      FDB     $1234\n        RTS"))
put("sand_cycle.asm", file_lines("        ORG     $0E00\n        INCLUDE sand_c1.asm\n        RTS"))
put("sand_c1.asm", file_lines("        NOP\n        INCLUDE sand_inner2.asm\n        INCLUDE sand_c2.asm"))
put("sand_c2.asm", file_lines("        INCLUDE sand_inner2.asm\n        INCLUDE sand_c1.asm"))
put("sand_again.asm", file_lines("        ORG     $0E00\n        INCLUDE sand_inner3.asm\n        INCLUDE sand_inner3.asm\n        INCLUDE sand_wrap.asm\n        INCLUDE sand_inner3.asm\n        RTS"))
put("sand_wrap.asm", file_lines("        INCLUDE sand_inner3.asm\n        NOP"))
SPECIAL = ["sandwich", "sand_flat", "sand_cycle", "sand_again", "self", "cycle_main", "twice", "dup", "missing", "deep_missing", "subdir", "bad_inside", "empty_inc", "dir_inc",
           "comment_inc", "name_in_inc", "noeol"]
for name in SPECIAL:
    rec("include/lib/special/%s" % name, lambda: assemble_file("%s.asm" % name))
rec("include/process_mnemonics", lambda: [
    len(Program.process_mnemonics(Program.parse(open("twice.asm").readlines()))),
    [s.label for s in Program.process_mnemonics(Program.parse(open("twice.asm").readlines()), ("other.asm",))],
    guarded(lambda: Program.process_mnemonics(Program.parse(open("twice.asm").readlines()), ("leaf2.asm",))),
    Program.process_mnemonics([]),
])

# source file object
def source_file_cases():
    out = []
    for file_type in (SourceFileType.ASSEMBLY, SourceFileType.BINARY):
        source = SourceFile("leaf.asm", file_type=file_type)
        first = [source.get_file_name(), list(source.get_buffer())]
        source.read_file()
        out.append([first, list(source.get_buffer())])
    source = SourceFile("leaf.asm")
    out.append([source.file_type.name, source.file_name, source.buffer])
    out.append(SourceFile.read_assembly_contents("noeol.asm"))
    out.append(SourceFile.read_binary_contents("noeol.asm"))
    out.append(SourceFile.read_binary_contents("nothing.asm"))
    out.append(SourceFile.read_assembly_contents("nothing.asm"))
    writer = SourceFile("written.bin", file_type=SourceFileType.BINARY)
    writer.set_buffer([0, 1, 2, 254, 255, 10, 13, 26])
    writer.write_file()
    out.append(SourceFile.read_binary_contents("written.bin"))
    out.append(open("written.bin", "rb").read().hex())
    text_writer = SourceFile("not_written.txt", file_type=SourceFileType.ASSEMBLY)
    text_writer.set_buffer([65])
    text_writer.write_file()
    out.append(os.path.exists("not_written.txt"))
    SourceFile.write_binary_contents("written2.bin", bytearray(b"xyz"))
    SourceFile.write_binary_contents("written3.bin", [])
    out.append([open("written2.bin", "rb").read().hex(), open("written3.bin", "rb").read().hex()])
    for bad in ([256], [-1], ["a"]):
        out.append(guarded(lambda: SourceFile.write_binary_contents("written4.bin", bad)))
    out.append(guarded(lambda: SourceFile.read_binary_contents("nowhere.bin")))
    out.append(guarded(lambda: SourceFile.read_assembly_contents("nowhere.asm")))
    out.append(guarded(lambda: SourceFile.read_binary_contents("sub")))
    out.append(guarded(lambda: SourceFile(None).read_file()))
    return out


rec("source_file", source_file_cases)
os.chdir(tree)

# ---------------------------------------------------------------------------
# 6. command line
# ---------------------------------------------------------------------------

for name in ("minimal", "modes", "branches", "equates", "no_origin", "two_origins", "err_mnemonic", "err_undefined",
             "err_redefined", "err_branch_range", "empty", "case_mix", "fcc_variants"):
    put("%s.asm" % name, PROGRAMS[name])

CLI = [["minimal.asm"], ["minimal.asm", "--print"], ["minimal.asm", "--symbols"], ["modes.asm", "--print", "--symbols"],
       ["branches.asm", "--symbols", "--print", "--to_bin", "branches.bin"], ["equates.asm", "--print", "--to_cas", "eq.cas"],
       ["equates.asm", "--to_cas", "eq.cas", "--name", "EQ"], ["equates.asm", "--to_cas", "eq.cas", "--name", "EQ"],
       ["equates.asm", "--to_cas", "eq.cas", "--name", "EQ2", "--append"], ["minimal.asm", "--to_dsk", "m.dsk"],
       ["minimal.asm", "--to_dsk", "m.dsk", "--append"], ["no_origin.asm", "--to_dsk", "n.dsk"],
       ["no_origin.asm", "--to_dsk", "n.dsk", "--name", "NOORG", "--to_bin", "n.bin", "--to_cas", "n.cas"],
       ["two_origins.asm", "--print", "--symbols", "--to_bin", "two.bin"], ["minimal.asm", "--to_bin", "two.bin"],
       ["minimal.asm", "--to_bin", "sub/none/x.bin"], ["err_mnemonic.asm", "--print"], ["err_undefined.asm", "--symbols"],
       ["err_redefined.asm"], ["err_branch_range.asm", "--to_bin", "never.bin"], ["empty.asm", "--print", "--symbols"],
       ["case_mix.asm", "--print", "--width", "80"], ["fcc_variants.asm", "--print", "--symbols"], ["nowhere.asm"], [], ["--help"],
       ["minimal.asm", "--bogus"]]
CLI += [["%s_main.asm" % tag, "--print", "--symbols", "--to_bin", "%s_main.bin" % tag] for tag in INCLUDE_CASES[::3]]
CLI += [["%s_flat.asm" % tag, "--print", "--symbols", "--to_bin", "%s_flat.bin" % tag] for tag in INCLUDE_CASES[::3]]
CLI += [["%s.asm" % name, "--print", "--symbols", "--to_bin", "%s.bin" % name] for name in SPECIAL]
for number, arguments in enumerate(CLI):
    rec("cli/%03d/%s" % (number, " ".join(arguments)), lambda: run_cli("assembler.py", *arguments))
rec("cli/file_util", lambda: [run_cli("file_util.py", "eq.cas", "--list"), run_cli("file_util.py", "m.dsk", "--list"),
                              run_cli("file_util.py", "n.cas", "--to_bin", "back.bin")])
rec("cli/final", snapshot)
shutil.rmtree(scratch)

json.dump(results, sys.stdout, sort_keys=True)

'''


def run(tree, driver_path):
    done = subprocess.run(
        [sys.executable, driver_path, tree], stdout=subprocess.PIPE, stderr=subprocess.PIPE,
        universal_newlines=True, cwd=tree, env=dict(os.environ, PYTHONDONTWRITEBYTECODE="1", PYTHONHASHSEED="0"),
    )
    if done.returncode != 0:
        sys.stderr.write(done.stderr)
        raise SystemExit("driver failed for %s" % tree)
    return json.loads(done.stdout)


def main():
    if len(sys.argv) != 3:
        raise SystemExit(__doc__)
    tree_a, tree_b = (os.path.abspath(p) for p in sys.argv[1:3])
    handle, driver_path = tempfile.mkstemp(suffix="_asm_driver.py")
    with os.fdopen(handle, "w") as driver:
        driver.write(DRIVER)
    try:
        result_a = run(tree_a, driver_path)
        result_b = run(tree_b, driver_path)
    finally:
        os.remove(driver_path)
    differences = 0
    for key in sorted(set(result_a) | set(result_b)):
        if result_a.get(key, "<missing>") != result_b.get(key, "<missing>"):
            differences += 1
            if differences <= 25:
                print("DIFFERENT: %s\n  A: %.600s\n  B: %.600s" % (
                    key, json.dumps(result_a.get(key), sort_keys=True), json.dumps(result_b.get(key), sort_keys=True)))
    errors = sum(1 for value in result_a.values() if isinstance(value, list) and value[:1] == ["EXC"])
    rejected = sum(1 for value in result_a.values() if isinstance(value, dict) and "error" in value)
    print("%d cases compared (%d raise, %d programs rejected in tree A), %d differences" % (
        len(result_a), errors, rejected, differences))
    return 1 if differences else 0


if __name__ == "__main__":
    sys.exit(main())
