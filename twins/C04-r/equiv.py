#!/venv/bin/python
"""
Differential check for property C04 (symbols and two-term expressions).

Usage: equiv.py <treeA> <treeB>

Runs the same set of inputs against the code in both trees (one subprocess per
tree, tree at the front of sys.path and as cwd) and compares every observable:
emitted bytes, listing lines, symbol table lines, origin, name, exception type
and message, CLI stdout / exit code / files written.  Exit 0 if identical.
"""
import json
import os
import subprocess
import sys
import tempfile

PY = "/venv/bin/python"

# ---------------------------------------------------------------------------
# Case tables
# ---------------------------------------------------------------------------

CONSTS = ["5", "$5", "$05", "$0005", "%101", "'A", "255", "256", "$FF", "$0FF", "$00FF", "$100",
          "32767", "32768", "$7FFF", "$8000", "65535", "$FFFF", "0", "$0", "$0000", "65536", "70000"]

OPERAND_SHAPES = [
    "LDA #{e}", "LDX #{e}", "LDD #{e}", "LDA {e}", "LDX {e}", "STA {e}", "JMP {e}", "JSR {e}",
    "LDA <{e}", "LDA >{e}", "LDA [{e}]", "LDA {e},X", "LDA [{e},X]", "LEAX {e},PCR", "LDA {e},PCR",
    "LDA [{e},PCR]", "BRA {e}", "LBRA {e}", "FCB {e}", "FDB {e}", "RMB {e}", "ORG {e}",
    "LDA {e},Y", "LEAY {e},U", "LDB [{e},S]", "CMPX #{e}", "ADDD {e}", "FCB {e},1", "FDB 1,{e}",
]

EXPRS = [
    "K", "K+1", "K-1", "1+K", "K*2", "K/2", "K/0", "K+K", "K-K2", "K2-K", "K*K2", "K2/K", "K/K2",
    "L", "L+1", "L-1", "1+L", "L*2", "L/2", "L/0", "3-L", "L+K", "L-K", "K+L", "K-L", "L*K", "L/K",
    "L-L2", "L2-L", "L+L2", "F", "F+1", "F-1", "F-L", "L-F", "F+K", "K+F", "F*2", "F/2",
    "E", "E+1", "$10+$20", "$FFFF+1", "$FFFF+2", "0-1", "0-K", "65535+1", "32767+1", "256-1", "255+1",
    "$8000*2", "$100*$100", "300*300", "7/2", "1/2", "$FFFF/2", "$FF+$FF", "$00FF+$0001", "%1111+%1",
    "'A+1", "U+1", "U", "1+U", "$+1", "*+1", "K+", "+K", "K++1", "K+1+1",
]


def program_cases():
    cases = []
    # 1. every operand shape x a representative subset of expressions
    sub = ["K", "K+1", "K-1", "K*2", "K/2", "K/0", "K2-K", "L", "L+1", "L-1", "L*2", "L/2", "F", "F+1", "F-1",
           "L-L2", "F-L", "L+K", "K+L", "E", "E+1", "0-1", "$FFFF+1", "$FF+1", "300*300", "U+1", "U", "$10+$20"]
    for shape in OPERAND_SHAPES:
        for e in sub:
            for kdef in ("$05", "$1234"):
                cases.append([
                    "K EQU {}".format(kdef),
                    "K2 EQU $00FF",
                    "E EQU K+1",
                    " ORG $0E00",
                    "L NOP",
                    "L2 NOP",
                    " " + shape.format(e=e),
                    " NOP",
                    "F NOP",
                    " END L",
                ])
    # 2. every expression in a few key positions, with EQU after use too
    for e in EXPRS:
        for shape in ("LDA #{e}", "LDX #{e}", "LDA {e}", "LDX {e},Y", "FDB {e}", "LEAX {e},PCR", "V EQU {e}"):
            cases.append([
                " ORG $0100",
                "L NOP",
                "L2 LDA #1",
                (" " if not shape.startswith("V ") else "") + shape.format(e=e),
                "F NOP",
                "K EQU 5",
                "K2 EQU $0300",
                "E EQU K2-1",
                " LDX #V" if shape.startswith("V ") else " NOP",
            ])
    # 3. EQU constant spelling x use site
    for c in CONSTS:
        for use in ("LDA #K", "LDX #K", "LDA K", "LDX K", "LDA K+1", "LDA K-1", "LDX #K*2", "LDD #K/2",
                    "LDA K,X", "LDA [K]", "FCB K", "FDB K", "LDA <K", "LDA >K", "LDX #0-K", "LDX #K+K"):
            cases.append(["K EQU {}".format(c), " ORG $2000", "S " + use, " RTS"])
            cases.append([" ORG $2000", "S " + use, " RTS", "K EQU {}".format(c)])
    # 4. boundary results
    for a, op, b in [("65535", "+", "1"), ("65535", "+", "0"), ("32767", "+", "1"), ("255", "+", "1"),
                     ("256", "-", "1"), ("0", "-", "1"), ("0", "-", "65535"), ("0", "-", "65536"),
                     ("256", "*", "256"), ("255", "*", "257"), ("65535", "/", "65535"), ("1", "/", "0"),
                     ("0", "/", "0"), ("0", "/", "1"), ("65535", "*", "65535"), ("128", "+", "127"),
                     ("$80", "+", "$80"), ("$7F", "+", "$1"), ("$FF00", "+", "$FF"), ("$FF00", "+", "$100")]:
        for shape in ("LDA #{e}", "LDX #{e}", "LDA {e}", "FCB {e}", "FDB {e}", "LDA {e},X", "LDA [{e}]",
                      "A EQU {e}", "ORG {e}"):
            e = a + op + b
            first = shape.format(e=e)
            cases.append([("" if first.startswith("A ") else " ") + first, " NOP", " LDX #A" if first.startswith("A ") else " NOP"])
            # the same through symbols
            cases.append(["P EQU " + a, "Q EQU " + b,
                          ("" if first.startswith("A ") else " ") + shape.format(e="P" + op + "Q"), " NOP"])
    # 5. misc programs
    cases += [
        [" NAM PROG", " ORG $0E00", "START LDX #TABLE+2", " LDA TABLE-1", " JMP START+3", "TABLE FCB 1,2,3", " END START"],
        [" ORG $0E00", "A LDX #B-A", "B LDX #A-B", " FDB B-A", " FCB B-A"],
        ["X1 EQU 1", "X2 EQU X1+1", "X3 EQU X2+1", " LDA #X3", " LDA X3"],
        ["X2 EQU X1+1", "X1 EQU 1", " LDA #X2"],
        [" LDA #NOPE+1"], [" LDA NOPE"], [" LDA NOPE,X"], [" LDA [NOPE]"], [" LDA NOPE-1,X"], [" FDB NOPE"],
        [" ORG $1000", "L LDA L+1,PCR", " LEAX L-1,PCR", " LEAX F+1,PCR", " LDA [L+2,PCR]", "F RTS"],
        [" ORG $1000", "L SETDP $10", " LDA L", " LDA L+1", " LDA <L+1", " RTS"],
        [" ORG $FFF0", "L NOP", " LDX #L+$20", " LDX #L*2", " LDX #L/0", " LDX #L-$FFF1"],
        [" ORG $FFF0", "L NOP", " LDX #L+$20"],
        [" ORG $0010", "L NOP", " LDX #L-$20"],
        [" ORG $0010", "L NOP", " LDX #L/0"],
        [" ORG $0010", "L NOP", " LDX #0/L"],
        [" ORG $0010", "L NOP", " LDX #100/L", " LDX #L/3", " LDX #3*L", " LDX #100-L"],
        ["L NOP", "L NOP"], ["K EQU 1", "K EQU 2"], ["K EQU 1", "K NOP"], ["L NOP", "L EQU 5", " LDA #L"],
        [" ORG $1000", "L LEAX L/0,PCR"], [" ORG $1000", "L LEAX L*$100,PCR"], [" ORG $FFF0", "L LEAX L+$20,PCR"],
        [" ORG $0010", "L LEAX L-$20,PCR"], [" ORG $1000", "L LDA [L/0,PCR]"], [" ORG $1000", "L LDA [L-1,PCR]", " LDA [F+1,PCR]", "F RTS"],
        [" ORG $1000", "L LEAX K,PCR", "K EQU 5"], [" ORG $1000", "L LEAX K+1,PCR", "K EQU 5"], [" ORG $1000", " LEAX U,PCR"],
        [" ORG $1000", "L LEAX 2+L,PCR", " LEAX 2*L,PCR", " LEAX F-2,PCR", " LDA F,PCR", " STA [L,PCR]", "F RTS"],
        [" ORG $1000", "L JMP L+1", " JSR F-1", " JMP [F+1]", " LDA [L]", " LDX #F", " FDB L,F", " FDB F", "F RTS"],
    ]
    # the line grammar wants white space after the mnemonic even when there is no operand
    return [[line + " " for line in case] for case in cases]


UNIT_EXPRS = ["1+1", "K+1", "1+K", "K-K2", "K*K2", "K/K2", "K2/K", "K/Z", "A+1", "1+A", "A-1", "A*2", "A/2",
              "A+A2", "A-A2", "A+K", "K+A", "$FFFF+1", "0-1", "$10+1", "$0010+1", "K3+1", "K4+1", "K5+K4",
              "M+1", "X+Y", "7/2", "1/0", "$FF*$FF", "%101+1", "Q", "", "1+", "A+N", "N+1", "A/Z", "Z/A"]


def worker(tree):
    sys.path.insert(0, tree)
    os.chdir(tree)
    from cocoasm.program import Program
    from cocoasm import values as V
    from cocoasm import operands as O
    from cocoasm.instruction import Instruction, INSTRUCTIONS

    def describe_value(v):
        if v is None:
            return None
        if isinstance(v, str):
            return ["str", v]
        out = [type(v).__name__, str(getattr(v, "type", None)), str(getattr(v, "explict_addressing_mode", None))]
        for attr in ("int", "size_hint", "resolved", "original_value", "operation"):
            if hasattr(v, attr):
                out.append([attr, repr(getattr(v, attr))])
        try:
            out.append(["hex", v.hex()])
            out.append(["hex_len", v.hex_len()])
        except Exception as exc:  # noqa
            out.append(["hexerr", type(exc).__name__, str(exc)])
        for side in ("left", "right"):
            if hasattr(v, side):
                s = getattr(v, side)
                out.append([side, describe_value(s) if s is not v else "self"])
        if hasattr(v, "value") and isinstance(getattr(v, "value"), V.Value):
            out.append(["value", describe_value(v.value)])
        return out

    def exc_info(exc):
        info = {"exc": type(exc).__name__, "msg": str(exc)}
        if hasattr(exc, "value"):
            info["value"] = str(exc.value)
        if hasattr(exc, "statement"):
            try:
                info["statement"] = str(exc.statement)
            except Exception as inner:  # noqa
                info["statement_err"] = [type(inner).__name__, str(inner)]
        return info

    results = []

    # ---- whole programs -------------------------------------------------
    for lines in program_cases():
        program = Program()
        try:
            program.process(list(lines))
            res = {
                "bytes": program.get_binary_array(),
                "listing": program.get_statements(),
                "symbols": program.get_symbol_table(),
                "origin": describe_value(program.origin),
                "name": program.name,
                "symtab": {k: describe_value(v) for k, v in program.symbol_table.items()},
                "operands": [[type(s.operand).__name__, describe_value(s.operand.value),
                              describe_value(getattr(s.operand, "left", None)),
                              describe_value(getattr(s.operand, "right", None))] for s in program.statements],
            }
        except BaseException as exc:  # noqa
            res = exc_info(exc)
        results.append(["prog", lines, res])

    # ---- ExpressionValue / SymbolValue units ------------------------------
    def table():
        return {
            "K": V.NumericValue(5), "K2": V.NumericValue("$1234"), "Z": V.NumericValue(0),
            "K3": V.DirectNumericValue(0x20), "K4": V.ExtendedNumericValue(0x20),
            "K5": V.NumericValue("$0020"),
            "A": V.AddressValue(1), "A2": V.AddressValue(2),
            "M": V.MultiByteValue("1,2"), "N": V.NoneValue(),
        }

    class FakeAddr:
        def __init__(self, n):
            self.address = V.NumericValue(n)

    class FakeStatement:
        def __init__(self, n):
            self.code_pkg = FakeAddr(n)

    fake_statements = [FakeStatement(0x0E00), FakeStatement(0xFFFE), FakeStatement(0x0003)]

    for mode in (V.ExplicitAddressingMode.NONE, V.ExplicitAddressingMode.DIRECT, V.ExplicitAddressingMode.EXTENDED):
        for text in UNIT_EXPRS:
            rec = {}
            try:
                ev = V.ExpressionValue(text, mode=mode)
                rec["ctor"] = describe_value(ev)
                try:
                    r = ev.resolve(table())
                    rec["resolve"] = describe_value(r)
                    rec["same"] = r is ev
                    rec["after"] = describe_value(ev)
                    if r is ev:
                        rec["idx"] = ev.extract_address_index_from_expression()
                        try:
                            rec["offset"] = describe_value(ev.calculate_address_offset(fake_statements))
                        except BaseException as exc:  # noqa
                            rec["offset"] = exc_info(exc)
                except BaseException as exc:  # noqa
                    rec["resolve"] = exc_info(exc)
                    rec["after"] = describe_value(ev)
            except BaseException as exc:  # noqa
                rec["ctor"] = exc_info(exc)
            results.append(["expr", text, str(mode), rec])

    for text in ["K", "K2", "A", "M", "N", "Q", "K3", "K4", "bad!", "", "@1", "A2"]:
        rec = {}
        try:
            sv = V.SymbolValue(text)
            rec["ctor"] = describe_value(sv)
            rec["resolve"] = describe_value(sv.resolve(table()))
        except BaseException as exc:  # noqa
            rec["err"] = exc_info(exc)
        try:
            rec["get_symbol"] = describe_value(V.Value.get_symbol(text, table()))
        except BaseException as exc:  # noqa
            rec["get_symbol"] = exc_info(exc)
        results.append(["sym", text, rec])

    # ---- operand level: resolve_symbols on each operand class ------------
    def find_instruction(mnemonic):
        return next(i for i in INSTRUCTIONS if i.mnemonic == mnemonic)

    operand_cases = [
        ("LDA", "K"), ("LDA", "K2"), ("LDA", "A"), ("LDA", "K+1"), ("LDA", "A+1"), ("LDA", "<K2"), ("LDA", ">K"),
        ("LDA", "#K"), ("LDA", "#K+1"), ("LDA", "#A"), ("LDA", "[K]"), ("LDA", "[A]"), ("LDA", "[A+1]"),
        ("LDA", "K,X"), ("LDA", "A,X"), ("LDA", "K+1,X"), ("LDA", "A+1,X"), ("LDA", ",X"), ("LDA", "A,X"),
        ("LDA", "B,X"), ("LDA", "D,X"), ("LDA", "[K,X]"), ("LDA", "[A,X]"), ("LDA", "[K+1,X]"), ("LDA", "[A+1,X]"),
        ("LDA", "[,X]"), ("LDA", "[D,X]"), ("LDA", "Q"), ("LDA", "Q,X"), ("LDA", "[Q,X]"), ("LDA", "[Q]"),
        ("LDA", "K/Z"), ("LDA", "K/Z,X"), ("LDA", "M"), ("LDA", "K3"), ("LDA", "K4"), ("LDA", "K5"),
        ("LDA", "K,PCR"), ("LDA", "A,PCR"), ("LDA", "A+1,PCR"), ("LDA", "[A-1,PCR]"), ("JMP", "A"), ("JMP", "K+1"),
        ("LEAX", "A2-1,Y"), ("LDX", "#K2*2"),
    ]
    for mnemonic, text in operand_cases:
        rec = {}
        try:
            instruction = find_instruction(mnemonic)
            operand = O.Operand.create_from_str(text, instruction)
            rec["before"] = [type(operand).__name__, describe_value(operand.value)]
            resolved = operand.resolve_symbols(table())
            rec["after"] = [type(resolved).__name__, str(resolved.type), describe_value(resolved.value),
                            describe_value(getattr(resolved, "left", None)),
                            describe_value(getattr(resolved, "right", None)), resolved is operand]
            try:
                pkg = resolved.translate()
                rec["pkg"] = [describe_value(pkg.op_code), describe_value(pkg.post_byte),
                              describe_value(pkg.additional), pkg.size, pkg.max_size,
                              pkg.additional_needs_resolution]
            except BaseException as exc:  # noqa
                rec["pkg"] = exc_info(exc)
        except BaseException as exc:  # noqa
            rec["err"] = exc_info(exc)
        results.append(["operand", mnemonic, text, rec])

    # ---- pseudo operand EQU capture --------------------------------------
    for text in CONSTS + ["K+1", "$10+1", "L", "$123", "$12", "$012", "%11111111", "%100000000", "'A", "", "1,2"]:
        for mnemonic in ("EQU", "ORG", "FCB", "FDB", "RMB", "SETDP"):
            rec = {}
            try:
                operand = O.PseudoOperand(text, find_instruction(mnemonic))
                rec["value"] = describe_value(operand.value)
                rec["same"] = operand.resolve_symbols(table()) is operand
            except BaseException as exc:  # noqa
                rec["err"] = exc_info(exc)
            results.append(["pseudo", mnemonic, text, rec])

    json.dump(results, sys.stdout)


CLI_SOURCES = [
    ["  NAM HELLO", "K EQU $05", "KK EQU $1234", "  ORG $0E00", "START LDX #TABLE+2", "  LDA K+1", "  LDB KK-1",
     "  LDA TABLE-START,X", "  LEAX FWD-1,PCR", "  FDB FWD-START", "  FCB K*2", "TABLE FCB 1,2,3", "FWD RTS", "  END START"],
    ["  ORG $0E00", "  LDA #K/0", "K EQU 4"],
    ["  ORG $0E00", "  LDA #UNDEF+1"],
    ["  ORG $0E00", "L LDX #L/0"],
    ["  ORG $0E00", "L LDX #$FFFF+1", " LDX #0-1", " LDA #255+1"],
    ["A EQU $FFFF", "B EQU A+1", " LDX #B", " LDX B"],
]


def run_cli(tree):
    out = []
    for n, source in enumerate(CLI_SOURCES):
        with tempfile.TemporaryDirectory() as tmp:
            src = os.path.join(tmp, "in.asm")
            with open(src, "w") as handle:
                handle.write("\n".join(source) + "\n")
            proc = subprocess.run(
                [PY, os.path.join(tree, "assembler.py"), src, "--print", "--symbols",
                 "--to_bin", os.path.join(tmp, "out.bin"), "--to_cas", os.path.join(tmp, "out.cas"),
                 "--to_dsk", os.path.join(tmp, "out.dsk"), "--name", "T{}".format(n)],
                cwd=tree, capture_output=True, text=True,
                env=dict(os.environ, PYTHONPATH=tree, PYTHONDONTWRITEBYTECODE="1"),
            )
            files = {}
            for name in sorted(os.listdir(tmp)):
                with open(os.path.join(tmp, name), "rb") as handle:
                    files[name] = handle.read().hex()
            err_tail = proc.stderr.strip().splitlines()[-1:] if proc.stderr.strip() else []
            out.append({"rc": proc.returncode, "stdout": proc.stdout.replace(tmp, "<TMP>"),
                        "stderr_tail": [line.replace(tmp, "<TMP>") for line in err_tail], "files": files})
    return out


def collect(tree):
    tree = os.path.abspath(tree)
    proc = subprocess.run([PY, os.path.abspath(__file__), "--worker", tree], cwd=tree, capture_output=True,
                          text=True, env=dict(os.environ, PYTHONDONTWRITEBYTECODE="1"))
    if proc.returncode != 0:
        print("worker failed for", tree)
        print(proc.stderr[-3000:])
        sys.exit(2)
    return json.loads(proc.stdout), run_cli(tree)


def main():
    if len(sys.argv) == 3 and sys.argv[1] == "--worker":
        worker(sys.argv[2])
        return 0
    if len(sys.argv) != 3:
        print(__doc__)
        return 2
    lib_a, cli_a = collect(sys.argv[1])
    lib_b, cli_b = collect(sys.argv[2])
    bad = 0
    if len(lib_a) != len(lib_b):
        print("different number of library results")
        bad += 1
    for a, b in zip(lib_a, lib_b):
        if a != b:
            bad += 1
            if bad <= 10:
                print("MISMATCH", json.dumps(a)[:1500])
                print("     vs ", json.dumps(b)[:1500])
    for n, (a, b) in enumerate(zip(cli_a, cli_b)):
        if a != b:
            bad += 1
            print("CLI MISMATCH case", n)
            print(a["stdout"][-800:], a["stderr_tail"], a["rc"])
            print(b["stdout"][-800:], b["stderr_tail"], b["rc"])
    kinds = {}
    for rec in lib_a:
        kinds[rec[0]] = kinds.get(rec[0], 0) + 1
    errors = sum(1 for rec in lib_a if rec[0] == "prog" and "exc" in rec[2])
    print("cases:", kinds, "cli:", len(cli_a), "program cases ending in an exception:", errors)
    print("mismatches:", bad)
    return 0 if bad == 0 else 1


if __name__ == "__main__":
    sys.exit(main())
