#!/usr/bin/env python
"""
Differential demonstration: runs the same inputs through the code of two
source trees (one subprocess per tree, the tree being cwd and the first entry
of sys.path) and compares every observable result.

usage: equiv.py <treeA> <treeB>      exit 0 = all cases agree, 1 = difference
"""
import json
import os
import subprocess
import sys

WORKER = r'''
import contextlib, enum, io, json, os, subprocess, sys, tempfile
tree = os.path.abspath(sys.argv[1])
os.chdir(tree)
sys.path.insert(0, tree)
sys.dont_write_bytecode = True

import cocoasm.values as values_mod
import cocoasm.operands as operands_mod
import cocoasm.instruction as instruction_mod
import cocoasm.statement as statement_mod
import cocoasm.program as program_mod
import cocoasm.exceptions as exceptions_mod
from cocoasm.values import *
from cocoasm.operands import *
from cocoasm.instruction import *
from cocoasm.statement import Statement
from cocoasm.program import Program
from cocoasm.exceptions import *


def safe(fn):
    try:
        return describe(fn())
    except Exception as error:
        return {"raised": type(error).__name__, "msg": str(error)}


def describe(obj, depth=0):
    if depth > 6:
        return "<deep>"
    if obj is None or isinstance(obj, (bool, int, str, float)):
        return obj
    if isinstance(obj, bytes):
        return obj.hex()
    if isinstance(obj, enum.Enum):
        return str(obj)
    if isinstance(obj, (list, tuple)):
        return [describe(x, depth + 1) for x in obj]
    if isinstance(obj, (set, frozenset)):
        return sorted(describe(x, depth + 1) for x in obj)
    if isinstance(obj, dict):
        return [[describe(k, depth + 1), describe(v, depth + 1)] for k, v in obj.items()]
    if isinstance(obj, values_mod.Value):
        out = {"cls": type(obj).__name__}
        for name in ("type", "int", "size_hint", "explict_addressing_mode", "negative", "resolved",
                     "original_string", "hex_array", "operation", "original_value"):
            if hasattr(obj, name):
                out[name] = describe(getattr(obj, name), depth + 1)
        for name in ("left", "right", "value"):
            if hasattr(obj, name):
                out[name] = describe(getattr(obj, name), depth + 1)
        out["hex()"] = safe(obj.hex)
        out["hex_len()"] = safe(obj.hex_len)
        out["byte_len()"] = safe(obj.byte_len)
        out["is_8_bit()"] = safe(obj.is_8_bit)
        out["is_16_bit()"] = safe(obj.is_16_bit)
        return out
    if isinstance(obj, instruction_mod.CodePackage):
        return {"cls": "CodePackage", "fields": [[k, describe(v, depth + 1)] for k, v in sorted(vars(obj).items())]}
    if isinstance(obj, operands_mod.Operand):
        out = {"cls": type(obj).__name__}
        for name in ("type", "operand_string", "requires_resolution", "operation", "value", "left", "right"):
            out[name] = describe(getattr(obj, name, "<missing>"), depth + 1)
        out["mnemonic"] = getattr(obj.instruction, "mnemonic", None)
        return out
    if isinstance(obj, instruction_mod.Instruction):
        return {"cls": "Instruction", "fields": describe(tuple(obj), depth + 1)}
    if isinstance(obj, instruction_mod.Mode):
        return {"cls": "Mode", "fields": list(obj)}
    if isinstance(obj, statement_mod.Statement):
        out = {"cls": "Statement"}
        for name in ("is_empty", "is_comment_only", "label", "mnemonic", "comment", "state", "fixed_size",
                     "pcr_size_hint", "operand", "original_operand", "code_pkg"):
            out[name] = describe(getattr(obj, name, "<missing>"), depth + 1)
        out["str"] = safe(lambda: str(obj))
        return out
    if isinstance(obj, BaseException):
        out = {"exc": type(obj).__name__, "msg": str(obj), "args": describe(obj.args, depth + 1)}
        if hasattr(obj, "value"):
            out["value"] = describe(obj.value, depth + 1)
        if hasattr(obj, "statement"):
            stmt = obj.statement
            out["statement"] = stmt if isinstance(stmt, str) else safe(lambda: str(stmt))
        return out
    return "<{}>".format(type(obj).__name__)


def run_program(lines, deep):
    program = Program()
    out = {}
    try:
        program.process([line + "\n" for line in lines])
    except BaseException as error:
        out["error"] = describe(error)
        out["statements_so_far"] = len(program.statements)
        return out
    out["binary"] = safe(program.get_binary_array)
    out["listing"] = safe(program.get_statements)
    out["symbols"] = safe(program.get_symbol_table)
    out["symbol_table"] = describe(program.symbol_table)
    out["origin"] = describe(program.origin)
    out["name"] = describe(program.name)
    out["layout"] = [
        [s.code_pkg.size, s.code_pkg.max_size, describe(s.code_pkg.address.hex()), s.fixed_size, s.pcr_size_hint]
        for s in program.statements
    ]
    if deep:
        out["statements"] = [describe(s) for s in program.statements]
    return out


def run_python(code):
    namespace = dict(globals())
    stream = io.StringIO()
    out = {}
    try:
        with contextlib.redirect_stdout(stream):
            exec(code, namespace)
        out["result"] = describe(namespace.get("result"))
    except BaseException as error:
        out["error"] = describe(error)
    out["stdout"] = stream.getvalue()
    return out


def run_cli(case):
    out = {"runs": []}
    with tempfile.TemporaryDirectory() as work:
        for name, content in case.get("files", {}).items():
            with open(os.path.join(work, name), "wb") as handle:
                handle.write(content.encode("latin-1"))
        env = dict(os.environ, PYTHONDONTWRITEBYTECODE="1")
        for argv in case["runs"]:
            done = subprocess.run(
                [sys.executable, os.path.join(tree, case["tool"])] + argv,
                cwd=work, env=env, stdout=subprocess.PIPE, stderr=subprocess.PIPE, timeout=120,
            )
            run = {"returncode": done.returncode}
            run["stdout"] = done.stdout.decode("latin-1").replace(tree, "<TREE>").replace(work, "<WORK>")
            stderr_lines = done.stderr.decode("latin-1").replace(tree, "<TREE>").replace(work, "<WORK>")
            stderr_lines = stderr_lines.strip().splitlines()
            # tracebacks carry line numbers of the tree, keep only the final line
            run["stderr_last"] = stderr_lines[-1] if stderr_lines else ""
            run["files"] = {}
            for name in sorted(os.listdir(work)):
                path = os.path.join(work, name)
                if os.path.isfile(path):
                    with open(path, "rb") as handle:
                        run["files"][name] = handle.read().hex()
                else:
                    run["files"][name] = sorted(os.listdir(path))
            out["runs"].append(run)
    return out


results = []
for case in json.load(sys.stdin):
    kind = case["k"]
    if kind == "prog":
        results.append(run_program(case["src"], case.get("deep", False)))
    elif kind == "py":
        results.append(run_python(case["code"]))
    elif kind == "cli":
        results.append(run_cli(case))
    else:
        results.append({"bad kind": kind})
json.dump(results, sys.stdout)
'''


def prog(*lines, deep=True):
    return {"k": "prog", "src": list(lines), "deep": deep}


def py(code):
    return {"k": "py", "code": code}


def cli(tool, argv, files=None):
    """One command line run (argv is a list of strings) or several in the same directory (a list of lists)."""
    runs = [list(argv)] if argv and isinstance(argv[0], str) else [list(a) for a in argv]
    return {"k": "cli", "tool": tool, "runs": runs, "files": files or {}}


def one(statement, *extra, deep=True):
    """A one-instruction program at $1000 with a few symbols available."""
    return prog(
        "        ORG   $1000",
        "SMALL   EQU   $12",
        "BIG     EQU   $1234",
        "START   NOP   ",
        "        " + statement,
        "NEXT    NOP   ",
        *extra, deep=deep
    )


def run_tree(tree, cases):
    env = dict(os.environ, PYTHONDONTWRITEBYTECODE="1")
    done = subprocess.run(
        [sys.executable, "-B", "-c", WORKER, tree],
        input=json.dumps(cases).encode(), stdout=subprocess.PIPE, stderr=subprocess.PIPE,
        cwd=tree, env=env,
    )
    if done.returncode != 0:
        sys.stderr.write(done.stderr.decode())
        raise SystemExit("worker failed for " + tree)
    return json.loads(done.stdout.decode())


def main():
    if len(sys.argv) != 3:
        raise SystemExit(__doc__)
    tree_a, tree_b = (os.path.abspath(p) for p in sys.argv[1:3])
    cases = build_cases()
    results_a = run_tree(tree_a, cases)
    results_b = run_tree(tree_b, cases)
    different = 0
    errors = 0
    for case, res_a, res_b in zip(cases, results_a, results_b):
        if "error" in res_a:
            errors += 1
        if res_a != res_b:
            different += 1
            if different <= 10:
                print("DIFFERENT:", json.dumps(case)[:400])
                print("   A:", json.dumps(res_a)[:600])
                print("   B:", json.dumps(res_b)[:600])
    print("{} cases ({} of them error cases in tree A), {} different".format(len(cases), errors, different))
    return 1 if different or len(results_a) != len(cases) or len(results_b) != len(cases) else 0


SWEEP = '''
rows = []
for ins in INSTRUCTIONS:
    for cls, text, value in {combos}:
        try:
            operand = cls(text, ins, value) if value is not None else cls(text, ins)
            rows.append([ins.mnemonic, cls.__name__, text, describe(operand.translate())])
        except Exception as error:
            rows.append([ins.mnemonic, cls.__name__, text, describe(error)])
result = rows
'''

BRANCHES = ["BRA", "BNE", "BEQ", "BSR", "LBRA", "LBNE", "LBSR", "BHS", "LBLO", "BRN"]
INHERENT = ["ABX", "NOP", "RTS", "SWI", "SWI2", "SWI3", "SYNC", "DAA", "MUL", "CLRA", "NEGB", "SEX", "RTI", "LDA", "BRA",
            "PSHS", "END", "JMP"]


def build_cases():
    cases = []
    cases.append(py(SWEEP.format(combos="((InherentOperand, '', None), (InherentOperand, 'X', None))")))
    cases.append(py(SWEEP.format(combos="((RelativeOperand, 'THERE', None), (RelativeOperand, '$10', None), "
                                        "(RelativeOperand, '', AddressValue(3)), (RelativeOperand, '', NumericValue(3)))")))
    cases.append(py(SWEEP.format(combos="((SpecialOperand, 'A,B', None), (SpecialOperand, 'X,Y', None), "
                                        "(SpecialOperand, '', None), (SpecialOperand, 'A,X', None))")))
    cases.append(py(SWEEP.format(combos="((ExtendedIndexedOperand, '[$2000]', None), (ExtendedIndexedOperand, '[5]', None),"
                                        " (ExtendedIndexedOperand, '[,X]', None))")))
    cases.append(py(
        "ins = next(i for i in INSTRUCTIONS if i.mnemonic == 'LDA')\nrows = []\n"
        "for text in ('[LBL]', '[NUM]', '[BIG]', '[LBL+1]', '[NUM+1]', '[NOPE]', '[<NUM]', '[>NUM]', '[#NUM]', '[-3]'):\n"
        "    try:\n"
        "        op = Operand.create_from_str(text, ins)\n"
        "        op = op.resolve_symbols({'LBL': AddressValue(2), 'NUM': NumericValue(5), 'BIG': NumericValue(500)})\n"
        "        rows.append([text, describe(op.translate()), describe(op)])\n"
        "    except Exception as error:\n"
        "        rows.append([text, describe(error)])\n"
        "result = rows"))
    # the package itself
    for arguments in ["", "size=3", "size=3, max_size=5", "post_byte_choices=None", "post_byte_choices=[1, 2]",
                      "op_code=NumericValue(0x10CE), post_byte=NumericValue(0x9F), additional=NumericValue(5, size_hint=4)",
                      "address=NumericValue(0x1000), additional_needs_resolution=True",
                      "NumericValue(1), NumericValue(2), NumericValue(3), NumericValue(4), 5, True, [6], 7"]:
        cases.append(py("a = CodePackage({0})\nb = CodePackage({0})\n"
                        "result = [a, a.post_byte_choices is b.post_byte_choices, a.op_code is b.op_code,\n"
                        "          a.address is b.address, sorted(vars(a))]".format(arguments)))
    cases.append(py("shared = [1]\na = CodePackage(post_byte_choices=shared)\nresult = a.post_byte_choices is shared"))
    cases.append(py("result = CodePackage(bogus=1)"))
    # layout seen through whole programs: every label shows where the statement before it ended
    for mnemonic in INHERENT:
        cases.append(prog("        ORG   $2000", "A1      {}   ".format(mnemonic), "A2      {}   ".format(mnemonic),
                          "A3      JMP   A2"))
    for mnemonic in BRANCHES:
        for distance in (0, 1, 100, 120, 125, 126, 127, 128, 129, 130, 200, 300):
            cases.append(prog("        ORG   $2000", "BACK    NOP   ", "        RMB   {}".format(distance),
                              "B1      {:<5} AHEAD".format(mnemonic), "B2      {:<5} BACK".format(mnemonic),
                              "        RMB   {}".format(distance), "AHEAD   {:<5} B1".format(mnemonic),
                              "LAST    JMP   AHEAD", deep=False))
    for operand in ["A,B", "X,Y", "D,U", "A", "", "A,B,X", "CC,DP", "S,PC", "A,X"]:
        for mnemonic in ("TFR", "EXG", "PSHS", "PULU"):
            cases.append(prog("        ORG   $2000", "C1      {:<5} {}".format(mnemonic, operand), "C2      NOP   ",
                              "        JMP   C2"))
    for operand in ["[$2000]", "[$20]", "[5]", "[C1]", "[C2]", "[C2+1]", "[VAL]", "[VAL+1]", "[WIDE]", "[65535]", "[-1]",
                    "[NOPE]", "[]", "[<VAL]", "[>VAL]"]:
        for mnemonic in ("LDA", "LDY", "JMP", "LEAX", "CMPS", "BRA", "NOP"):
            cases.append(prog("        ORG   $2000", "VAL     EQU   7", "WIDE    EQU   $1234",
                              "C1      {:<5} {}".format(mnemonic, operand), "C2      NOP   ", "        JMP   C2"))
    source = "\n".join(["        NAM   FIXED", "        ORG   $0E00", "START   NOP   ", "L1      SWI2  ", "L2      BRA   L4",
                        "L3      LBRA  START", "L4      TFR   A,B", "L5      PSHS  A,B", "L6      LDA   [$1234]",
                        "L7      LDY   [L3]", "L8      RTS   ", "        END   START", ""])
    cases.append(cli("assembler.py", ["f.asm", "--print", "--symbols", "--to_bin", "f.bin"], {"f.asm": source}))
    return cases


if __name__ == "__main__":
    sys.exit(main())
