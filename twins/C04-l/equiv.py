#!/usr/bin/env python
"""
Differential demonstration: runs the same inputs through the code of two source
trees (one subprocess per tree, the tree first on sys.path and as cwd) and
compares every observable result.

usage: equiv.py <treeA> <treeB>      exit 0 = all cases agree, 1 = a difference
"""
import json
import os
import subprocess
import sys
import tempfile

WORKER = r'''
import contextlib, io, json, os, subprocess, sys, tempfile

tree = os.path.abspath(sys.argv[1])
sys.path.insert(0, tree)
os.chdir(tree)
cases = json.load(sys.stdin)

from cocoasm.program import Program


def describe_exc(error):
    info = {"type": type(error).__name__, "str": str(error)}
    if hasattr(error, "value"):
        info["value"] = str(error.value)
    statement = getattr(error, "statement", None)
    if statement is not None:
        try:
            info["statement"] = str(statement)
        except Exception as inner:
            info["statement"] = "unprintable " + type(inner).__name__
    return info


def guarded(function):
    try:
        return function()
    except Exception as error:
        return {"error": describe_exc(error)}


def observe_program(lines):
    program = Program()
    try:
        program.process(lines)
    except Exception as error:
        return {"error": describe_exc(error)}
    return {
        "binary": guarded(program.get_binary_array),
        "listing": guarded(program.get_statements),
        "symbols": guarded(program.get_symbol_table),
        "origin": guarded(lambda: program.origin.hex()),
        "name": program.name,
        "detail": guarded(lambda: [
            [s.code_pkg.size, s.code_pkg.max_size, s.fixed_size, s.pcr_size_hint,
             type(s.operand).__name__, list(s.code_pkg.post_byte_choices),
             s.code_pkg.additional_needs_resolution, s.code_pkg.op_code.hex(),
             s.code_pkg.post_byte.hex(), s.code_pkg.additional.hex(), s.code_pkg.address.hex()]
            for s in program.statements]),
    }


def observe_call(code):
    namespace = {}
    try:
        exec(code, namespace)
        return {"result": namespace.get("result")}
    except Exception as error:
        return {"error": describe_exc(error)}


def observe_cli(lines, args, tool="assembler.py", extra_files=None):
    with tempfile.TemporaryDirectory() as work:
        with open(os.path.join(work, "prog.asm"), "w") as handle:
            handle.writelines(lines)
        for name, text in (extra_files or {}).items():
            with open(os.path.join(work, name), "w") as handle:
                handle.write(text)
        before = set(os.listdir(work))
        done = subprocess.run(
            [sys.executable, os.path.join(tree, tool)] + args,
            cwd=work, capture_output=True, text=True,
            env=dict(os.environ, PYTHONPATH=tree, PYTHONDONTWRITEBYTECODE="1"),
        )
        files = {}
        for name in sorted(set(os.listdir(work)) - before):
            with open(os.path.join(work, name), "rb") as handle:
                files[name] = handle.read().hex()
        stderr_tail = done.stderr.strip().splitlines()[-1:] if done.stderr.strip() else []
        return {"code": done.returncode, "stdout": done.stdout, "stderr_tail": stderr_tail, "files": files}


results = []
for case in cases:
    kind = case["kind"]
    if kind == "program":
        results.append(observe_program(case["lines"]))
    elif kind == "call":
        results.append(observe_call(case["code"]))
    elif kind == "cli":
        results.append(observe_cli(case["lines"], case["args"], case.get("tool", "assembler.py"),
                                   case.get("extra_files")))
    else:
        raise SystemExit("unknown case kind " + kind)
json.dump(results, sys.stdout)
'''


def prog(*lines):
    """A program case; every line gets its newline like a line read from a file."""
    return {"kind": "program", "lines": [line + "\n" for line in lines]}


def call(code):
    """A direct library call; the snippet leaves a JSON-friendly value in `result`."""
    return {"kind": "call", "code": code}


def cli(lines, args=("prog.asm", "--print", "--symbols", "--to_bin", "out.bin"), extra_files=None):
    return {"kind": "cli", "lines": [line + "\n" for line in lines], "args": list(args),
            "extra_files": extra_files}


def run_tree(tree, cases):
    with tempfile.TemporaryDirectory() as work:
        worker = os.path.join(work, "worker.py")
        with open(worker, "w") as handle:
            handle.write(WORKER)
        done = subprocess.run(
            [sys.executable, worker, tree], input=json.dumps(cases), capture_output=True, text=True,
            cwd=tree, env=dict(os.environ, PYTHONDONTWRITEBYTECODE="1"),
        )
    if done.returncode != 0:
        print("worker failed for", tree)
        print(done.stderr)
        sys.exit(1)
    return json.loads(done.stdout)


def main(cases):
    if len(sys.argv) != 3:
        print(__doc__)
        sys.exit(2)
    tree_a, tree_b = (os.path.abspath(p) for p in sys.argv[1:3])
    results_a = run_tree(tree_a, cases)
    results_b = run_tree(tree_b, cases)
    differences = 0
    accepted = 0
    for number, (case, a, b) in enumerate(zip(cases, results_a, results_b)):
        if "error" not in a:
            accepted += 1
        if a != b:
            differences += 1
            print("DIFFERENCE in case", number, json.dumps(case)[:300])
            print("   A:", json.dumps(a)[:600])
            print("   B:", json.dumps(b)[:600])
    print("{} cases, {} without error in tree A, {} differences".format(len(cases), accepted, differences))
    sys.exit(1 if differences or len(results_a) != len(cases) or len(results_b) != len(cases) else 0)


# ---------------------------------------------------------------------------
# cases
# ---------------------------------------------------------------------------
CASES = []

# every rendering entry point of NumericValue and AddressValue over magnitudes, signs, carried widths and asked widths
CASES.append(call('''
from cocoasm.values import NumericValue, AddressValue, DirectNumericValue, ExtendedNumericValue, ExplicitAddressingMode
result = []
numbers = [0, 1, 9, 10, 15, 16, 17, 127, 128, 129, 255, 256, 257, 4095, 4096, 32767, 32768, 65535,
           -1, -15, -16, -17, -127, -128, -129, -255, -256, -32767, -32768, -65535]
texts = ["0", "00", "7", "007", "$0", "$7", "$07", "$007", "$0007", "$FF", "$100", "$FFFF", "%00000001", "%0000000000000001",
         "'A", "-1", "-128", "-129", "-32768", "255", "256", "65535"]
for hint in (None, 0, 1, 2, 3, 4, 6):
    for source in numbers + texts:
        for mode in (ExplicitAddressingMode.NONE, ExplicitAddressingMode.IMMEDIATE, ExplicitAddressingMode.EXPLICIT_EXTENDED):
            try:
                value = NumericValue(source, size_hint=hint, mode=mode)
            except Exception as error:
                result.append([source, hint, mode.name, type(error).__name__, str(error)])
                continue
            row = [source, hint, mode.name, value.int, value.negative, value.size_hint, value.hex_len(), value.byte_len(),
                   value.high_byte(), value.low_byte(), str(value)]
            for size in (0, 1, 2, 3, 4, 5, 8):
                row.append(value.hex(size))
                row.append(value.hex(size=size))
            for size in (None, 0, 1, 2, 3, 4, 5):
                row.append(value.get_negative(size))
            row.append(value.get_negative())
            row.append(value.hex())
            result.append(row)
for number in (0, 1, 15, 16, 255, 256, 4095, 4096, 65535, 65536, 1048575, "12", "0"):
    value = AddressValue(number)
    result.append([number, value.int, value.hex_len(), value.byte_len(), value.hex(), str(value)] +
                  [value.hex(size) for size in (0, 1, 2, 3, 4, 5, 8)])
for kind in (DirectNumericValue, ExtendedNumericValue):
    for number in (0, 5, 255, 256, -1, -200, "$12", "$0012"):
        value = kind(number)
        result.append([kind.__name__, number, value.hex(), value.hex_len(), value.hex(2), value.hex(4), value.size_hint])
'''))

# the renderings as they leave the assembler: constants, symbols and expressions at the width of the instruction
VALUES = ["0", "1", "15", "16", "-1", "-16", "-17", "127", "128", "-128", "-129", "255", "256", "-256", "4095", "32767", "-32768",
          "65535", "$7", "$07", "$007", "$0007", "%00000111", "'A", "FIVE", "WIDE", "FIVE-6", "WIDE+1", "FIVE*FIVE", "HERE", "HERE+1"]
FORMS = ["LDA #{}", "LDX #{}", "LDA {}", "LDA <{}", "LDA >{}", "LDA {},X", "LDA [{},Y]", "LDA [{}]", "LDA {},PCR", "FCB {}", "FDB {}",
         "FCB 1,{}", "FDB 1,{}", "RMB {}", "ORG {}", "NEW   EQU {}"]
for form in FORMS:
    for value in VALUES:
        line = form.format(value)
        line = line if line.startswith("NEW") else "      " + line
        CASES.append(prog("FIVE  EQU 5", "WIDE  EQU $1234", "      ORG $0F00", "HERE  NOP ", line, "      LDX #HERE", "      RTS "))

CASES.append(cli(["NEG   EQU -2", "      ORG $7", "GO    LDA #NEG", "      LDX #NEG", "      LDA -2,X", "      LDA -200,X", "      FCB -2",
                  "      FDB -2", "      FDB GO", "      RMB 0", "      RMB 3", "      END GO"]))

main(CASES)
