#!/venv/bin/python
"""
Differential check: run the same inputs through the code of two source trees
and compare every observable result.

usage: equiv.py <treeA> <treeB>      exit 0 = all results agree, 1 = differ

Refactoring C01/i: the 'no offset' and 'auto increment/decrement' tests of IndexedOperand.translate and
ExtendedIndexedOperand.translate become the shared predicates Operand.has_no_offset() / Operand.has_auto_step(); the branch on the
auto-step test is inverted together with its arms.
Inputs: every mnemonic x ~150 operand forms (corpus); direct translate() calls, with and without symbol resolution, over
(offset x register/auto-step) grids; hand written programs; CLI listing.
"""
import hashlib
import json
import os
import subprocess
import sys
import tempfile

# --------------------------------------------------------------------------
# inputs
# --------------------------------------------------------------------------

# Operand forms put behind every mnemonic of the instruction table.
OPERAND_FORMS = [
    "", "#$12", "#$1234", "#V8", "#V16", "#-1", "#-200", "#'A", "#%10101010", "#TARGET",
    "$12", "$1234", "<$12", ">$12", "<$1234", ">$1234", "V8", "V16", "<V16", ">V8",
    "TARGET", "START", "200", "255", "256", "300", "-5", "%00001111", "%0000111100001111",
    "[$1234]", "[$12]", "[TARGET]", "[V16]", "[V8]",
    ",X", ",Y", ",U", ",S", "0,X", "-0,X", "1,X", "15,Y", "16,U", "-16,S", "-17,X", "127,X", "128,X",
    "-128,Y", "-129,Y", "$10,X", "$0010,X", "$1000,X", "32767,X", "-32768,X", "65535,X",
    "A,X", "B,Y", "D,U", "A,S", ",X+", ",X++", ",-Y", ",--Y", ",S+", ",--U",
    "[,X]", "[,Y]", "[,X++]", "[,--S]", "[,X+]", "[,-X]", "[A,X]", "[B,Y]", "[D,S]",
    "[0,X]", "[5,X]", "[-5,X]", "[127,X]", "[128,X]", "[-128,X]", "[-129,X]", "[$1000,U]", "[$10,U]",
    "5,PCR", "$12,PCR", "$1234,PCR", "-3,PCR", "TARGET,PCR", "START,PCR", "TARGET+2,PCR", "FAR,PCR",
    "[TARGET,PCR]", "[5,PCR]", "[$1234,PCR]", "[FAR,PCR]", "[TARGET-1,PCR]",
    "V8,X", "V16,X", "TARGET,X", "V8+1,X", "[V8,X]", "[V16,Y]",
    "V8+1", "V16-V8", "TARGET+1", "TARGET-V8", "V8*2", "V16/2", "#V8+1", "#TARGET+1", "$10+$20", "5+5",
    "A,B", "X,Y", "D,X", "CC,DP", "PC,S", "B,A", "DP,CC", "Y,PC", "A,B,X", "U", "S", "Z,X", "A", "Q",
    "X,Y,U,S,PC,CC,DP,A,B", "D,X,Y", "CC", "PC,U,Y,X,DP,B,A,CC", "A,A",
    "\"AB\"", "/hello/", "1,2,3", "$1234,$5678", "-1,-2", "10", "0", "65535", "65536", "-32768", "-32769",
    "$12345", "%101", "'A", "NOSUCH", "NOSUCH,X", "#NOSUCH", "X+,Y", "1,X+", "foo bar",
]

CORPUS_TEMPLATE = [
    "        ORG   $0E00",
    "V8      EQU   $12",
    "V16     EQU   $1234",
    "START   {mnemonic} {operand}",
    "        NOP",
    "TARGET  NOP",
    "        RMB   200",
    "FAR     RTS",
]

# Hand written programs: (name, [source lines])
CASES = [
    ('auto step grid',
     [' ORG $100',
      'Z0 EQU 0',
      'V EQU 5',
      ' LDA ,X',
      ' LDA ,X+',
      ' LDA ,X++',
      ' LDA ,-X',
      ' LDA ,--X',
      ' LDA ,S+',
      ' LDA ,--U',
      ' LDA 0,X',
      ' LDA 0,X+',
      ' LDA 0,X++',
      ' LDA 0,-X',
      ' LDA 0,--X',
      ' LDA 0,S+',
      ' LDA 0,--U',
      ' LDA Z0,X',
      ' LDA Z0,X+',
      ' LDA Z0,X++',
      ' LDA Z0,-X',
      ' LDA Z0,--X',
      ' LDA Z0,S+',
      ' LDA Z0,--U',
      ' LDA V,X',
      ' LDA V,X+',
      ' LDA V,X++',
      ' LDA V,-X',
      ' LDA V,--X',
      ' LDA V,S+',
      ' LDA V,--U',
      ' LDA 1,X',
      ' LDA 1,X+',
      ' LDA 1,X++',
      ' LDA 1,-X',
      ' LDA 1,--X',
      ' LDA 1,S+',
      ' LDA 1,--U',
      ' LDA A,X',
      ' LDA A,X+',
      ' LDA A,X++',
      ' LDA A,-X',
      ' LDA A,--X',
      ' LDA A,S+',
      ' LDA A,--U']),
    ('auto step indirect grid',
     [' ORG $100',
      'Z0 EQU 0',
      ' LDA [,X]',
      ' LDA [,X++]',
      ' LDA [,--X]',
      ' LDA [,Y++]',
      ' LDA [,--S]',
      ' LDA [0,X]',
      ' LDA [0,X++]',
      ' LDA [0,--X]',
      ' LDA [0,Y++]',
      ' LDA [0,--S]',
      ' LDA [Z0,X]',
      ' LDA [Z0,X++]',
      ' LDA [Z0,--X]',
      ' LDA [Z0,Y++]',
      ' LDA [Z0,--S]',
      ' LDA [D,X]',
      ' LDA [D,X++]',
      ' LDA [D,--X]',
      ' LDA [D,Y++]',
      ' LDA [D,--S]']),
    ('indirect single increment', [' LDA [,Y+]']),
    ('indirect single decrement', [' LDA [,-U]']),
    ('offset with increment', [' LDA 5,X++']),
    ('offset with decrement indirect', [' LDA [5,--X]']),
    ('accumulator with increment', [' LDA A,X+']),
    ('zero equ with increment', ['Z0 EQU 0', ' LDA Z0,X+', ' LDA [Z0,X++]']),
    ('mixed program',
     ['        NAM   MIXED',
      '        ORG   $3F00',
      'SCREEN  EQU   $0400',
      'COUNT   EQU   32',
      'BEGIN   LDX   #SCREEN',
      '        LDA   #COUNT',
      'LOOP    STA   ,X+',
      '        DECA',
      '        BNE   LOOP',
      '        LDD   TABLE,PCR',
      '        LEAX  TABLE,PCR',
      '        LDY   [VECTOR]',
      '        JSR   SUB',
      '        LBRA  DONE',
      'SUB     PSHS  A,B,X',
      '        TFR   X,Y',
      '        EXG   A,B',
      '        LDA   5,X',
      '        LDB   -5,Y',
      '        STD   200,U',
      '        STD   -200,S',
      '        LDA   [10,X]',
      '        LDD   [D,Y]',
      '        PULS  A,B,X,PC',
      'TABLE   FCB   1,2,3,$FF',
      '        FDB   $1234,$5678',
      '        FDB   BEGIN',
      'VECTOR  FDB   $A000',
      'MSG     FCC   /HELLO, WORLD/',
      'BUF     RMB   4',
      'DONE    RTS',
      '        END   BEGIN']),
    ('branches forward and backward',
     ['        ORG   $1000',
      'TOP     NOP',
      '        BRA   TOP',
      '        BEQ   DOWN',
      '        LBNE  TOP',
      '        LBSR  DOWN',
      '        BSR   TOP',
      '        RMB   100',
      'DOWN    RTS']),
    ('short branch too far forward', ['A BRA B', ' RMB 128', 'B RTS']),
    ('short branch just reaching forward', ['A BRA B', ' RMB 127', 'B RTS']),
    ('short branch too far back', ['A NOP', ' RMB 126', ' BRA A']),
    ('short branch just reaching back', ['A NOP', ' RMB 125', ' BRA A']),
    ('pcr sizes near the boundary',
     ['        ORG   $2000',
      'S       LEAX  NEAR,PCR',
      '        LEAY  FARX,PCR',
      '        LDA   [NEAR,PCR]',
      '        LDD   NEAR+1,PCR',
      '        RMB   110',
      'NEAR    NOP',
      '        RMB   300',
      'FARX    NOP',
      '        LEAX  S,PCR',
      '        LEAX  NEAR,PCR']),
    ('pcr backwards boundary', [' ORG $100', 'L NOP', ' RMB 121', ' LEAX L,PCR', ' LEAX L,PCR', ' LEAX L,PCR']),
    ('equ forward reference',
     [' LDA #LATER', ' LDB LATER', ' LDX #BIG', 'LATER EQU 7', 'BIG EQU $1234', ' STA BIG']),
    ('expressions',
     ['        ORG   $4000',
      'BASE    EQU   $1000',
      'STEP    EQU   3',
      '        LDX   #BASE+STEP',
      '        LDA   #STEP*2',
      '        LDD   BASE/STEP',
      '        LDX   #HERE+2',
      '        LDX   #HERE-BASE',
      '        LDA   BASE-1',
      'HERE    LDA   STEP+4,X',
      '        JMP   HERE+1',
      '        FDB   HERE']),
    ('division by zero', ['Z EQU 0', ' LDA #4/Z']),
    ('undefined symbol', [' LDA MISSING']),
    ('undefined symbol in expression', [' LDA #MISSING+1']),
    ('duplicate label', ['A NOP', 'A NOP']),
    ('duplicate equ', ['A EQU 1', 'A EQU 2']),
    ('label defined after equ of same name', ['A EQU 1', 'A NOP']),
    ('bad mnemonic', [' FROB 1']),
    ('unparsable line', ['@@@ !!!']),
    ('org twice', [' ORG $100', ' NOP', ' ORG $200', 'X NOP', ' JMP X']),
    ('code before org', [' NOP', ' ORG $200', 'X NOP', ' JMP X']),
    ('no org', ['A LDA #1', ' JMP A']),
    ('data directives',
     ['        ORG   $10',
      '        FCB   1',
      "        FCB   $FF,255,-1,'A,%10101010",
      '        FDB   1',
      '        FDB   $FFFF,-1,65535,$12',
      '        FCC   "two words" trailing',
      '        FCC   /a;b/',
      '        RMB   3',
      '        RMB   0']),
    ('data directives 2',
     ['        FCB   -128',
      '        FDB   -32768',
      '        FCB   ,1,,2',
      "        FCC   'x'",
      'N       EQU   $10',
      '        RMB   N',
      '        FCB   N',
      '        FDB   N',
      '        SETDP $10',
      '        END']),
    ('fcb too big', [' FCB 256']),
    ('fcb list too big', [' FCB 1,256']),
    ('fdb too big', [' FDB 65536']),
    ('fcc unterminated', [' FCC /abc']),
    ('fcc empty', [' FCC']),
    ('rmb symbol undefined', [' RMB NOPE']),
    ('equ of label', ['A NOP', 'B EQU A', ' JMP B']),
    ('equ string-ish', ['S EQU X,Y', ' LDA S']),
    ('comments and blanks', ['; comment only', '', '   ', ' NOP ; trailing', 'L NOP', ' ; indented comment']),
    ('include missing', [' INCLUDE /nonexistent/file.asm']),
    ('nam and end', [' NAM PROG', ' ORG $E00', 'S RTS', ' END S']),
    ('inherent with operand', [' RTS 5']),
    ('operand missing', [' LDA']),
    ('immediate store', [' STA #5']),
    ('lea immediate', [' LEAX #5']),
    ('tfr mixed size', [' TFR A,X']),
    ('pshs own stack', [' PSHS S']),
    ('pshu own stack', [' PSHU U']),
    ('pshs empty', [' PSHS']),
    ('exg three', [' EXG A,B,X']),
    ('indexed auto with offset', [' LDA 1,X+']),
    ('indirect single auto', [' LDA [,X+]']),
    ('16 bit immediates',
     [' LDX #1',
      ' LDD #$12',
      ' CMPX #-1',
      ' LDS #%00000001',
      " LDU #'A",
      ' CMPY #300',
      ' ADDD #1',
      ' SUBD #$1234',
      ' CMPD #5',
      ' CMPS #5',
      ' CMPU #5',
      ' LDY #5']),
    ('8 bit immediates',
     [' LDA #1',
      ' LDB #$12',
      ' CMPA #-1',
      ' ANDCC #%11110000',
      ' ORCC #$50',
      " LDA #'z",
      ' LDA #255',
      ' LDA #256',
      ' LDA #$1234',
      ' CWAI #$FF']),
    ('direct and extended',
     [' LDA $12',
      ' LDA $0012',
      ' LDA <$0012',
      ' LDA >$12',
      ' LDA 18',
      ' LDA 300',
      ' JMP $12',
      ' JSR <$12',
      ' STA >$00',
      ' NEG $12',
      ' CLR <$FF',
      ' TST >$FF',
      ' LDA %00010010',
      ' LDA >%00010010',
      ' LDA <%0000000000010010']),
]

# Python expressions evaluated inside each tree (modules of the tree imported
# beforehand); the value - or the exception - is compared.
PROBES = [
    "IndexedOperand(',X', MN['LDA']).translate()",
    "ExtendedIndexedOperand('[,X]', MN['LDA']).translate()",
    ("IndexedOperand(',X', MN['LEAX']).resolve_symbols({'V': NumericValue(5), 'Z0': NumericValue(0), 'L': "
     'AddressValue(2)}).translate()'),
    ("ExtendedIndexedOperand('[,X]', MN['LDD']).resolve_symbols({'V': NumericValue(5), 'Z0': NumericValue(0), "
     "'L': AddressValue(2)}).translate()"),
    "IndexedOperand(',Y', MN['LDA']).translate()",
    "ExtendedIndexedOperand('[,Y]', MN['LDA']).translate()",
    ("IndexedOperand(',Y', MN['LEAX']).resolve_symbols({'V': NumericValue(5), 'Z0': NumericValue(0), 'L': "
     'AddressValue(2)}).translate()'),
    ("ExtendedIndexedOperand('[,Y]', MN['LDD']).resolve_symbols({'V': NumericValue(5), 'Z0': NumericValue(0), "
     "'L': AddressValue(2)}).translate()"),
    "IndexedOperand(',U', MN['LDA']).translate()",
    "ExtendedIndexedOperand('[,U]', MN['LDA']).translate()",
    ("IndexedOperand(',U', MN['LEAX']).resolve_symbols({'V': NumericValue(5), 'Z0': NumericValue(0), 'L': "
     'AddressValue(2)}).translate()'),
    ("ExtendedIndexedOperand('[,U]', MN['LDD']).resolve_symbols({'V': NumericValue(5), 'Z0': NumericValue(0), "
     "'L': AddressValue(2)}).translate()"),
    "IndexedOperand(',S', MN['LDA']).translate()",
    "ExtendedIndexedOperand('[,S]', MN['LDA']).translate()",
    ("IndexedOperand(',S', MN['LEAX']).resolve_symbols({'V': NumericValue(5), 'Z0': NumericValue(0), 'L': "
     'AddressValue(2)}).translate()'),
    ("ExtendedIndexedOperand('[,S]', MN['LDD']).resolve_symbols({'V': NumericValue(5), 'Z0': NumericValue(0), "
     "'L': AddressValue(2)}).translate()"),
    "IndexedOperand(',X+', MN['LDA']).translate()",
    "ExtendedIndexedOperand('[,X+]', MN['LDA']).translate()",
    ("IndexedOperand(',X+', MN['LEAX']).resolve_symbols({'V': NumericValue(5), 'Z0': NumericValue(0), 'L': "
     'AddressValue(2)}).translate()'),
    ("ExtendedIndexedOperand('[,X+]', MN['LDD']).resolve_symbols({'V': NumericValue(5), 'Z0': NumericValue(0), "
     "'L': AddressValue(2)}).translate()"),
    "IndexedOperand(',X++', MN['LDA']).translate()",
    "ExtendedIndexedOperand('[,X++]', MN['LDA']).translate()",
    ("IndexedOperand(',X++', MN['LEAX']).resolve_symbols({'V': NumericValue(5), 'Z0': NumericValue(0), 'L': "
     'AddressValue(2)}).translate()'),
    ("ExtendedIndexedOperand('[,X++]', MN['LDD']).resolve_symbols({'V': NumericValue(5), 'Z0': NumericValue(0), "
     "'L': AddressValue(2)}).translate()"),
    "IndexedOperand(',-X', MN['LDA']).translate()",
    "ExtendedIndexedOperand('[,-X]', MN['LDA']).translate()",
    ("IndexedOperand(',-X', MN['LEAX']).resolve_symbols({'V': NumericValue(5), 'Z0': NumericValue(0), 'L': "
     'AddressValue(2)}).translate()'),
    ("ExtendedIndexedOperand('[,-X]', MN['LDD']).resolve_symbols({'V': NumericValue(5), 'Z0': NumericValue(0), "
     "'L': AddressValue(2)}).translate()"),
    "IndexedOperand(',--X', MN['LDA']).translate()",
    "ExtendedIndexedOperand('[,--X]', MN['LDA']).translate()",
    ("IndexedOperand(',--X', MN['LEAX']).resolve_symbols({'V': NumericValue(5), 'Z0': NumericValue(0), 'L': "
     'AddressValue(2)}).translate()'),
    ("ExtendedIndexedOperand('[,--X]', MN['LDD']).resolve_symbols({'V': NumericValue(5), 'Z0': NumericValue(0), "
     "'L': AddressValue(2)}).translate()"),
    "IndexedOperand(',Y+', MN['LDA']).translate()",
    "ExtendedIndexedOperand('[,Y+]', MN['LDA']).translate()",
    ("IndexedOperand(',Y+', MN['LEAX']).resolve_symbols({'V': NumericValue(5), 'Z0': NumericValue(0), 'L': "
     'AddressValue(2)}).translate()'),
    ("ExtendedIndexedOperand('[,Y+]', MN['LDD']).resolve_symbols({'V': NumericValue(5), 'Z0': NumericValue(0), "
     "'L': AddressValue(2)}).translate()"),
    "IndexedOperand(',Y++', MN['LDA']).translate()",
    "ExtendedIndexedOperand('[,Y++]', MN['LDA']).translate()",
    ("IndexedOperand(',Y++', MN['LEAX']).resolve_symbols({'V': NumericValue(5), 'Z0': NumericValue(0), 'L': "
     'AddressValue(2)}).translate()'),
    ("ExtendedIndexedOperand('[,Y++]', MN['LDD']).resolve_symbols({'V': NumericValue(5), 'Z0': NumericValue(0), "
     "'L': AddressValue(2)}).translate()"),
    "IndexedOperand(',-U', MN['LDA']).translate()",
    "ExtendedIndexedOperand('[,-U]', MN['LDA']).translate()",
    ("IndexedOperand(',-U', MN['LEAX']).resolve_symbols({'V': NumericValue(5), 'Z0': NumericValue(0), 'L': "
     'AddressValue(2)}).translate()'),
    ("ExtendedIndexedOperand('[,-U]', MN['LDD']).resolve_symbols({'V': NumericValue(5), 'Z0': NumericValue(0), "
     "'L': AddressValue(2)}).translate()"),
    "IndexedOperand(',--S', MN['LDA']).translate()",
    "ExtendedIndexedOperand('[,--S]', MN['LDA']).translate()",
    ("IndexedOperand(',--S', MN['LEAX']).resolve_symbols({'V': NumericValue(5), 'Z0': NumericValue(0), 'L': "
     'AddressValue(2)}).translate()'),
    ("ExtendedIndexedOperand('[,--S]', MN['LDD']).resolve_symbols({'V': NumericValue(5), 'Z0': NumericValue(0), "
     "'L': AddressValue(2)}).translate()"),
    "IndexedOperand(',PCR', MN['LDA']).translate()",
    "ExtendedIndexedOperand('[,PCR]', MN['LDA']).translate()",
    ("IndexedOperand(',PCR', MN['LEAX']).resolve_symbols({'V': NumericValue(5), 'Z0': NumericValue(0), 'L': "
     'AddressValue(2)}).translate()'),
    ("ExtendedIndexedOperand('[,PCR]', MN['LDD']).resolve_symbols({'V': NumericValue(5), 'Z0': NumericValue(0), "
     "'L': AddressValue(2)}).translate()"),
    "IndexedOperand(',PC', MN['LDA']).translate()",
    "ExtendedIndexedOperand('[,PC]', MN['LDA']).translate()",
    ("IndexedOperand(',PC', MN['LEAX']).resolve_symbols({'V': NumericValue(5), 'Z0': NumericValue(0), 'L': "
     'AddressValue(2)}).translate()'),
    ("ExtendedIndexedOperand('[,PC]', MN['LDD']).resolve_symbols({'V': NumericValue(5), 'Z0': NumericValue(0), "
     "'L': AddressValue(2)}).translate()"),
    "IndexedOperand(',X-', MN['LDA']).translate()",
    "ExtendedIndexedOperand('[,X-]', MN['LDA']).translate()",
    ("IndexedOperand(',X-', MN['LEAX']).resolve_symbols({'V': NumericValue(5), 'Z0': NumericValue(0), 'L': "
     'AddressValue(2)}).translate()'),
    ("ExtendedIndexedOperand('[,X-]', MN['LDD']).resolve_symbols({'V': NumericValue(5), 'Z0': NumericValue(0), "
     "'L': AddressValue(2)}).translate()"),
    "IndexedOperand(',X--', MN['LDA']).translate()",
    "ExtendedIndexedOperand('[,X--]', MN['LDA']).translate()",
    ("IndexedOperand(',X--', MN['LEAX']).resolve_symbols({'V': NumericValue(5), 'Z0': NumericValue(0), 'L': "
     'AddressValue(2)}).translate()'),
    ("ExtendedIndexedOperand('[,X--]', MN['LDD']).resolve_symbols({'V': NumericValue(5), 'Z0': NumericValue(0), "
     "'L': AddressValue(2)}).translate()"),
    "IndexedOperand(',+X', MN['LDA']).translate()",
    "ExtendedIndexedOperand('[,+X]', MN['LDA']).translate()",
    ("IndexedOperand(',+X', MN['LEAX']).resolve_symbols({'V': NumericValue(5), 'Z0': NumericValue(0), 'L': "
     'AddressValue(2)}).translate()'),
    ("ExtendedIndexedOperand('[,+X]', MN['LDD']).resolve_symbols({'V': NumericValue(5), 'Z0': NumericValue(0), "
     "'L': AddressValue(2)}).translate()"),
    "IndexedOperand(',++X', MN['LDA']).translate()",
    "ExtendedIndexedOperand('[,++X]', MN['LDA']).translate()",
    ("IndexedOperand(',++X', MN['LEAX']).resolve_symbols({'V': NumericValue(5), 'Z0': NumericValue(0), 'L': "
     'AddressValue(2)}).translate()'),
    ("ExtendedIndexedOperand('[,++X]', MN['LDD']).resolve_symbols({'V': NumericValue(5), 'Z0': NumericValue(0), "
     "'L': AddressValue(2)}).translate()"),
    "IndexedOperand(',X+-', MN['LDA']).translate()",
    "ExtendedIndexedOperand('[,X+-]', MN['LDA']).translate()",
    ("IndexedOperand(',X+-', MN['LEAX']).resolve_symbols({'V': NumericValue(5), 'Z0': NumericValue(0), 'L': "
     'AddressValue(2)}).translate()'),
    ("ExtendedIndexedOperand('[,X+-]', MN['LDD']).resolve_symbols({'V': NumericValue(5), 'Z0': NumericValue(0), "
     "'L': AddressValue(2)}).translate()"),
    "IndexedOperand(',-X+', MN['LDA']).translate()",
    "ExtendedIndexedOperand('[,-X+]', MN['LDA']).translate()",
    ("IndexedOperand(',-X+', MN['LEAX']).resolve_symbols({'V': NumericValue(5), 'Z0': NumericValue(0), 'L': "
     'AddressValue(2)}).translate()'),
    ("ExtendedIndexedOperand('[,-X+]', MN['LDD']).resolve_symbols({'V': NumericValue(5), 'Z0': NumericValue(0), "
     "'L': AddressValue(2)}).translate()"),
    "IndexedOperand(',', MN['LDA']).translate()",
    "ExtendedIndexedOperand('[,]', MN['LDA']).translate()",
    ("IndexedOperand(',', MN['LEAX']).resolve_symbols({'V': NumericValue(5), 'Z0': NumericValue(0), 'L': "
     'AddressValue(2)}).translate()'),
    ("ExtendedIndexedOperand('[,]', MN['LDD']).resolve_symbols({'V': NumericValue(5), 'Z0': NumericValue(0), "
     "'L': AddressValue(2)}).translate()"),
    "IndexedOperand(',Q', MN['LDA']).translate()",
    "ExtendedIndexedOperand('[,Q]', MN['LDA']).translate()",
    ("IndexedOperand(',Q', MN['LEAX']).resolve_symbols({'V': NumericValue(5), 'Z0': NumericValue(0), 'L': "
     'AddressValue(2)}).translate()'),
    ("ExtendedIndexedOperand('[,Q]', MN['LDD']).resolve_symbols({'V': NumericValue(5), 'Z0': NumericValue(0), "
     "'L': AddressValue(2)}).translate()"),
    "IndexedOperand(',X++Y', MN['LDA']).translate()",
    "ExtendedIndexedOperand('[,X++Y]', MN['LDA']).translate()",
    ("IndexedOperand(',X++Y', MN['LEAX']).resolve_symbols({'V': NumericValue(5), 'Z0': NumericValue(0), 'L': "
     'AddressValue(2)}).translate()'),
    ("ExtendedIndexedOperand('[,X++Y]', MN['LDD']).resolve_symbols({'V': NumericValue(5), 'Z0': NumericValue(0), "
     "'L': AddressValue(2)}).translate()"),
    "IndexedOperand('0,X', MN['LDA']).translate()",
    "ExtendedIndexedOperand('[0,X]', MN['LDA']).translate()",
    ("IndexedOperand('0,X', MN['LEAX']).resolve_symbols({'V': NumericValue(5), 'Z0': NumericValue(0), 'L': "
     'AddressValue(2)}).translate()'),
    ("ExtendedIndexedOperand('[0,X]', MN['LDD']).resolve_symbols({'V': NumericValue(5), 'Z0': NumericValue(0), "
     "'L': AddressValue(2)}).translate()"),
    "IndexedOperand('0,Y', MN['LDA']).translate()",
    "ExtendedIndexedOperand('[0,Y]', MN['LDA']).translate()",
    ("IndexedOperand('0,Y', MN['LEAX']).resolve_symbols({'V': NumericValue(5), 'Z0': NumericValue(0), 'L': "
     'AddressValue(2)}).translate()'),
    ("ExtendedIndexedOperand('[0,Y]', MN['LDD']).resolve_symbols({'V': NumericValue(5), 'Z0': NumericValue(0), "
     "'L': AddressValue(2)}).translate()"),
    "IndexedOperand('0,U', MN['LDA']).translate()",
    "ExtendedIndexedOperand('[0,U]', MN['LDA']).translate()",
    ("IndexedOperand('0,U', MN['LEAX']).resolve_symbols({'V': NumericValue(5), 'Z0': NumericValue(0), 'L': "
     'AddressValue(2)}).translate()'),
    ("ExtendedIndexedOperand('[0,U]', MN['LDD']).resolve_symbols({'V': NumericValue(5), 'Z0': NumericValue(0), "
     "'L': AddressValue(2)}).translate()"),
    "IndexedOperand('0,S', MN['LDA']).translate()",
    "ExtendedIndexedOperand('[0,S]', MN['LDA']).translate()",
    ("IndexedOperand('0,S', MN['LEAX']).resolve_symbols({'V': NumericValue(5), 'Z0': NumericValue(0), 'L': "
     'AddressValue(2)}).translate()'),
    ("ExtendedIndexedOperand('[0,S]', MN['LDD']).resolve_symbols({'V': NumericValue(5), 'Z0': NumericValue(0), "
     "'L': AddressValue(2)}).translate()"),
    "IndexedOperand('0,X+', MN['LDA']).translate()",
    "ExtendedIndexedOperand('[0,X+]', MN['LDA']).translate()",
    ("IndexedOperand('0,X+', MN['LEAX']).resolve_symbols({'V': NumericValue(5), 'Z0': NumericValue(0), 'L': "
     'AddressValue(2)}).translate()'),
    ("ExtendedIndexedOperand('[0,X+]', MN['LDD']).resolve_symbols({'V': NumericValue(5), 'Z0': NumericValue(0), "
     "'L': AddressValue(2)}).translate()"),
    "IndexedOperand('0,X++', MN['LDA']).translate()",
    "ExtendedIndexedOperand('[0,X++]', MN['LDA']).translate()",
    ("IndexedOperand('0,X++', MN['LEAX']).resolve_symbols({'V': NumericValue(5), 'Z0': NumericValue(0), 'L': "
     'AddressValue(2)}).translate()'),
    ("ExtendedIndexedOperand('[0,X++]', MN['LDD']).resolve_symbols({'V': NumericValue(5), 'Z0': NumericValue(0), "
     "'L': AddressValue(2)}).translate()"),
    "IndexedOperand('0,-X', MN['LDA']).translate()",
    "ExtendedIndexedOperand('[0,-X]', MN['LDA']).translate()",
    ("IndexedOperand('0,-X', MN['LEAX']).resolve_symbols({'V': NumericValue(5), 'Z0': NumericValue(0), 'L': "
     'AddressValue(2)}).translate()'),
    ("ExtendedIndexedOperand('[0,-X]', MN['LDD']).resolve_symbols({'V': NumericValue(5), 'Z0': NumericValue(0), "
     "'L': AddressValue(2)}).translate()"),
    "IndexedOperand('0,--X', MN['LDA']).translate()",
    "ExtendedIndexedOperand('[0,--X]', MN['LDA']).translate()",
    ("IndexedOperand('0,--X', MN['LEAX']).resolve_symbols({'V': NumericValue(5), 'Z0': NumericValue(0), 'L': "
     'AddressValue(2)}).translate()'),
    ("ExtendedIndexedOperand('[0,--X]', MN['LDD']).resolve_symbols({'V': NumericValue(5), 'Z0': NumericValue(0), "
     "'L': AddressValue(2)}).translate()"),
    "IndexedOperand('0,Y+', MN['LDA']).translate()",
    "ExtendedIndexedOperand('[0,Y+]', MN['LDA']).translate()",
    ("IndexedOperand('0,Y+', MN['LEAX']).resolve_symbols({'V': NumericValue(5), 'Z0': NumericValue(0), 'L': "
     'AddressValue(2)}).translate()'),
    ("ExtendedIndexedOperand('[0,Y+]', MN['LDD']).resolve_symbols({'V': NumericValue(5), 'Z0': NumericValue(0), "
     "'L': AddressValue(2)}).translate()"),
    "IndexedOperand('0,Y++', MN['LDA']).translate()",
    "ExtendedIndexedOperand('[0,Y++]', MN['LDA']).translate()",
    ("IndexedOperand('0,Y++', MN['LEAX']).resolve_symbols({'V': NumericValue(5), 'Z0': NumericValue(0), 'L': "
     'AddressValue(2)}).translate()'),
    ("ExtendedIndexedOperand('[0,Y++]', MN['LDD']).resolve_symbols({'V': NumericValue(5), 'Z0': NumericValue(0), "
     "'L': AddressValue(2)}).translate()"),
    "IndexedOperand('0,-U', MN['LDA']).translate()",
    "ExtendedIndexedOperand('[0,-U]', MN['LDA']).translate()",
    ("IndexedOperand('0,-U', MN['LEAX']).resolve_symbols({'V': NumericValue(5), 'Z0': NumericValue(0), 'L': "
     'AddressValue(2)}).translate()'),
    ("ExtendedIndexedOperand('[0,-U]', MN['LDD']).resolve_symbols({'V': NumericValue(5), 'Z0': NumericValue(0), "
     "'L': AddressValue(2)}).translate()"),
    "IndexedOperand('0,--S', MN['LDA']).translate()",
    "ExtendedIndexedOperand('[0,--S]', MN['LDA']).translate()",
    ("IndexedOperand('0,--S', MN['LEAX']).resolve_symbols({'V': NumericValue(5), 'Z0': NumericValue(0), 'L': "
     'AddressValue(2)}).translate()'),
    ("ExtendedIndexedOperand('[0,--S]', MN['LDD']).resolve_symbols({'V': NumericValue(5), 'Z0': NumericValue(0), "
     "'L': AddressValue(2)}).translate()"),
    "IndexedOperand('0,PCR', MN['LDA']).translate()",
    "ExtendedIndexedOperand('[0,PCR]', MN['LDA']).translate()",
    ("IndexedOperand('0,PCR', MN['LEAX']).resolve_symbols({'V': NumericValue(5), 'Z0': NumericValue(0), 'L': "
     'AddressValue(2)}).translate()'),
    ("ExtendedIndexedOperand('[0,PCR]', MN['LDD']).resolve_symbols({'V': NumericValue(5), 'Z0': NumericValue(0), "
     "'L': AddressValue(2)}).translate()"),
    "IndexedOperand('0,PC', MN['LDA']).translate()",
    "ExtendedIndexedOperand('[0,PC]', MN['LDA']).translate()",
    ("IndexedOperand('0,PC', MN['LEAX']).resolve_symbols({'V': NumericValue(5), 'Z0': NumericValue(0), 'L': "
     'AddressValue(2)}).translate()'),
    ("ExtendedIndexedOperand('[0,PC]', MN['LDD']).resolve_symbols({'V': NumericValue(5), 'Z0': NumericValue(0), "
     "'L': AddressValue(2)}).translate()"),
    "IndexedOperand('0,X-', MN['LDA']).translate()",
    "ExtendedIndexedOperand('[0,X-]', MN['LDA']).translate()",
    ("IndexedOperand('0,X-', MN['LEAX']).resolve_symbols({'V': NumericValue(5), 'Z0': NumericValue(0), 'L': "
     'AddressValue(2)}).translate()'),
    ("ExtendedIndexedOperand('[0,X-]', MN['LDD']).resolve_symbols({'V': NumericValue(5), 'Z0': NumericValue(0), "
     "'L': AddressValue(2)}).translate()"),
    "IndexedOperand('0,X--', MN['LDA']).translate()",
    "ExtendedIndexedOperand('[0,X--]', MN['LDA']).translate()",
    ("IndexedOperand('0,X--', MN['LEAX']).resolve_symbols({'V': NumericValue(5), 'Z0': NumericValue(0), 'L': "
     'AddressValue(2)}).translate()'),
    ("ExtendedIndexedOperand('[0,X--]', MN['LDD']).resolve_symbols({'V': NumericValue(5), 'Z0': NumericValue(0), "
     "'L': AddressValue(2)}).translate()"),
    "IndexedOperand('0,+X', MN['LDA']).translate()",
    "ExtendedIndexedOperand('[0,+X]', MN['LDA']).translate()",
    ("IndexedOperand('0,+X', MN['LEAX']).resolve_symbols({'V': NumericValue(5), 'Z0': NumericValue(0), 'L': "
     'AddressValue(2)}).translate()'),
    ("ExtendedIndexedOperand('[0,+X]', MN['LDD']).resolve_symbols({'V': NumericValue(5), 'Z0': NumericValue(0), "
     "'L': AddressValue(2)}).translate()"),
    "IndexedOperand('0,++X', MN['LDA']).translate()",
    "ExtendedIndexedOperand('[0,++X]', MN['LDA']).translate()",
    ("IndexedOperand('0,++X', MN['LEAX']).resolve_symbols({'V': NumericValue(5), 'Z0': NumericValue(0), 'L': "
     'AddressValue(2)}).translate()'),
    ("ExtendedIndexedOperand('[0,++X]', MN['LDD']).resolve_symbols({'V': NumericValue(5), 'Z0': NumericValue(0), "
     "'L': AddressValue(2)}).translate()"),
    "IndexedOperand('0,X+-', MN['LDA']).translate()",
    "ExtendedIndexedOperand('[0,X+-]', MN['LDA']).translate()",
    ("IndexedOperand('0,X+-', MN['LEAX']).resolve_symbols({'V': NumericValue(5), 'Z0': NumericValue(0), 'L': "
     'AddressValue(2)}).translate()'),
    ("ExtendedIndexedOperand('[0,X+-]', MN['LDD']).resolve_symbols({'V': NumericValue(5), 'Z0': NumericValue(0), "
     "'L': AddressValue(2)}).translate()"),
    "IndexedOperand('0,-X+', MN['LDA']).translate()",
    "ExtendedIndexedOperand('[0,-X+]', MN['LDA']).translate()",
    ("IndexedOperand('0,-X+', MN['LEAX']).resolve_symbols({'V': NumericValue(5), 'Z0': NumericValue(0), 'L': "
     'AddressValue(2)}).translate()'),
    ("ExtendedIndexedOperand('[0,-X+]', MN['LDD']).resolve_symbols({'V': NumericValue(5), 'Z0': NumericValue(0), "
     "'L': AddressValue(2)}).translate()"),
    "IndexedOperand('0,', MN['LDA']).translate()",
    "ExtendedIndexedOperand('[0,]', MN['LDA']).translate()",
    ("IndexedOperand('0,', MN['LEAX']).resolve_symbols({'V': NumericValue(5), 'Z0': NumericValue(0), 'L': "
     'AddressValue(2)}).translate()'),
    ("ExtendedIndexedOperand('[0,]', MN['LDD']).resolve_symbols({'V': NumericValue(5), 'Z0': NumericValue(0), "
     "'L': AddressValue(2)}).translate()"),
    "IndexedOperand('0,Q', MN['LDA']).translate()",
    "ExtendedIndexedOperand('[0,Q]', MN['LDA']).translate()",
    ("IndexedOperand('0,Q', MN['LEAX']).resolve_symbols({'V': NumericValue(5), 'Z0': NumericValue(0), 'L': "
     'AddressValue(2)}).translate()'),
    ("ExtendedIndexedOperand('[0,Q]', MN['LDD']).resolve_symbols({'V': NumericValue(5), 'Z0': NumericValue(0), "
     "'L': AddressValue(2)}).translate()"),
    "IndexedOperand('0,X++Y', MN['LDA']).translate()",
    "ExtendedIndexedOperand('[0,X++Y]', MN['LDA']).translate()",
    ("IndexedOperand('0,X++Y', MN['LEAX']).resolve_symbols({'V': NumericValue(5), 'Z0': NumericValue(0), 'L': "
     'AddressValue(2)}).translate()'),
    ("ExtendedIndexedOperand('[0,X++Y]', MN['LDD']).resolve_symbols({'V': NumericValue(5), 'Z0': "
     "NumericValue(0), 'L': AddressValue(2)}).translate()"),
    "IndexedOperand('-0,X', MN['LDA']).translate()",
    "ExtendedIndexedOperand('[-0,X]', MN['LDA']).translate()",
    ("IndexedOperand('-0,X', MN['LEAX']).resolve_symbols({'V': NumericValue(5), 'Z0': NumericValue(0), 'L': "
     'AddressValue(2)}).translate()'),
    ("ExtendedIndexedOperand('[-0,X]', MN['LDD']).resolve_symbols({'V': NumericValue(5), 'Z0': NumericValue(0), "
     "'L': AddressValue(2)}).translate()"),
    "IndexedOperand('-0,Y', MN['LDA']).translate()",
    "ExtendedIndexedOperand('[-0,Y]', MN['LDA']).translate()",
    ("IndexedOperand('-0,Y', MN['LEAX']).resolve_symbols({'V': NumericValue(5), 'Z0': NumericValue(0), 'L': "
     'AddressValue(2)}).translate()'),
    ("ExtendedIndexedOperand('[-0,Y]', MN['LDD']).resolve_symbols({'V': NumericValue(5), 'Z0': NumericValue(0), "
     "'L': AddressValue(2)}).translate()"),
    "IndexedOperand('-0,U', MN['LDA']).translate()",
    "ExtendedIndexedOperand('[-0,U]', MN['LDA']).translate()",
    ("IndexedOperand('-0,U', MN['LEAX']).resolve_symbols({'V': NumericValue(5), 'Z0': NumericValue(0), 'L': "
     'AddressValue(2)}).translate()'),
    ("ExtendedIndexedOperand('[-0,U]', MN['LDD']).resolve_symbols({'V': NumericValue(5), 'Z0': NumericValue(0), "
     "'L': AddressValue(2)}).translate()"),
    "IndexedOperand('-0,S', MN['LDA']).translate()",
    "ExtendedIndexedOperand('[-0,S]', MN['LDA']).translate()",
    ("IndexedOperand('-0,S', MN['LEAX']).resolve_symbols({'V': NumericValue(5), 'Z0': NumericValue(0), 'L': "
     'AddressValue(2)}).translate()'),
    ("ExtendedIndexedOperand('[-0,S]', MN['LDD']).resolve_symbols({'V': NumericValue(5), 'Z0': NumericValue(0), "
     "'L': AddressValue(2)}).translate()"),
    "IndexedOperand('-0,X+', MN['LDA']).translate()",
    "ExtendedIndexedOperand('[-0,X+]', MN['LDA']).translate()",
    ("IndexedOperand('-0,X+', MN['LEAX']).resolve_symbols({'V': NumericValue(5), 'Z0': NumericValue(0), 'L': "
     'AddressValue(2)}).translate()'),
    ("ExtendedIndexedOperand('[-0,X+]', MN['LDD']).resolve_symbols({'V': NumericValue(5), 'Z0': NumericValue(0), "
     "'L': AddressValue(2)}).translate()"),
    "IndexedOperand('-0,X++', MN['LDA']).translate()",
    "ExtendedIndexedOperand('[-0,X++]', MN['LDA']).translate()",
    ("IndexedOperand('-0,X++', MN['LEAX']).resolve_symbols({'V': NumericValue(5), 'Z0': NumericValue(0), 'L': "
     'AddressValue(2)}).translate()'),
    ("ExtendedIndexedOperand('[-0,X++]', MN['LDD']).resolve_symbols({'V': NumericValue(5), 'Z0': "
     "NumericValue(0), 'L': AddressValue(2)}).translate()"),
    "IndexedOperand('-0,-X', MN['LDA']).translate()",
    "ExtendedIndexedOperand('[-0,-X]', MN['LDA']).translate()",
    ("IndexedOperand('-0,-X', MN['LEAX']).resolve_symbols({'V': NumericValue(5), 'Z0': NumericValue(0), 'L': "
     'AddressValue(2)}).translate()'),
    ("ExtendedIndexedOperand('[-0,-X]', MN['LDD']).resolve_symbols({'V': NumericValue(5), 'Z0': NumericValue(0), "
     "'L': AddressValue(2)}).translate()"),
    "IndexedOperand('-0,--X', MN['LDA']).translate()",
    "ExtendedIndexedOperand('[-0,--X]', MN['LDA']).translate()",
    ("IndexedOperand('-0,--X', MN['LEAX']).resolve_symbols({'V': NumericValue(5), 'Z0': NumericValue(0), 'L': "
     'AddressValue(2)}).translate()'),
    ("ExtendedIndexedOperand('[-0,--X]', MN['LDD']).resolve_symbols({'V': NumericValue(5), 'Z0': "
     "NumericValue(0), 'L': AddressValue(2)}).translate()"),
    "IndexedOperand('-0,Y+', MN['LDA']).translate()",
    "ExtendedIndexedOperand('[-0,Y+]', MN['LDA']).translate()",
    ("IndexedOperand('-0,Y+', MN['LEAX']).resolve_symbols({'V': NumericValue(5), 'Z0': NumericValue(0), 'L': "
     'AddressValue(2)}).translate()'),
    ("ExtendedIndexedOperand('[-0,Y+]', MN['LDD']).resolve_symbols({'V': NumericValue(5), 'Z0': NumericValue(0), "
     "'L': AddressValue(2)}).translate()"),
    "IndexedOperand('-0,Y++', MN['LDA']).translate()",
    "ExtendedIndexedOperand('[-0,Y++]', MN['LDA']).translate()",
    ("IndexedOperand('-0,Y++', MN['LEAX']).resolve_symbols({'V': NumericValue(5), 'Z0': NumericValue(0), 'L': "
     'AddressValue(2)}).translate()'),
    ("ExtendedIndexedOperand('[-0,Y++]', MN['LDD']).resolve_symbols({'V': NumericValue(5), 'Z0': "
     "NumericValue(0), 'L': AddressValue(2)}).translate()"),
    "IndexedOperand('-0,-U', MN['LDA']).translate()",
    "ExtendedIndexedOperand('[-0,-U]', MN['LDA']).translate()",
    ("IndexedOperand('-0,-U', MN['LEAX']).resolve_symbols({'V': NumericValue(5), 'Z0': NumericValue(0), 'L': "
     'AddressValue(2)}).translate()'),
    ("ExtendedIndexedOperand('[-0,-U]', MN['LDD']).resolve_symbols({'V': NumericValue(5), 'Z0': NumericValue(0), "
     "'L': AddressValue(2)}).translate()"),
    "IndexedOperand('-0,--S', MN['LDA']).translate()",
    "ExtendedIndexedOperand('[-0,--S]', MN['LDA']).translate()",
    ("IndexedOperand('-0,--S', MN['LEAX']).resolve_symbols({'V': NumericValue(5), 'Z0': NumericValue(0), 'L': "
     'AddressValue(2)}).translate()'),
    ("ExtendedIndexedOperand('[-0,--S]', MN['LDD']).resolve_symbols({'V': NumericValue(5), 'Z0': "
     "NumericValue(0), 'L': AddressValue(2)}).translate()"),
    "IndexedOperand('-0,PCR', MN['LDA']).translate()",
    "ExtendedIndexedOperand('[-0,PCR]', MN['LDA']).translate()",
    ("IndexedOperand('-0,PCR', MN['LEAX']).resolve_symbols({'V': NumericValue(5), 'Z0': NumericValue(0), 'L': "
     'AddressValue(2)}).translate()'),
    ("ExtendedIndexedOperand('[-0,PCR]', MN['LDD']).resolve_symbols({'V': NumericValue(5), 'Z0': "
     "NumericValue(0), 'L': AddressValue(2)}).translate()"),
    "IndexedOperand('-0,PC', MN['LDA']).translate()",
    "ExtendedIndexedOperand('[-0,PC]', MN['LDA']).translate()",
    ("IndexedOperand('-0,PC', MN['LEAX']).resolve_symbols({'V': NumericValue(5), 'Z0': NumericValue(0), 'L': "
     'AddressValue(2)}).translate()'),
    ("ExtendedIndexedOperand('[-0,PC]', MN['LDD']).resolve_symbols({'V': NumericValue(5), 'Z0': NumericValue(0), "
     "'L': AddressValue(2)}).translate()"),
    "IndexedOperand('-0,X-', MN['LDA']).translate()",
    "ExtendedIndexedOperand('[-0,X-]', MN['LDA']).translate()",
    ("IndexedOperand('-0,X-', MN['LEAX']).resolve_symbols({'V': NumericValue(5), 'Z0': NumericValue(0), 'L': "
     'AddressValue(2)}).translate()'),
    ("ExtendedIndexedOperand('[-0,X-]', MN['LDD']).resolve_symbols({'V': NumericValue(5), 'Z0': NumericValue(0), "
     "'L': AddressValue(2)}).translate()"),
    "IndexedOperand('-0,X--', MN['LDA']).translate()",
    "ExtendedIndexedOperand('[-0,X--]', MN['LDA']).translate()",
    ("IndexedOperand('-0,X--', MN['LEAX']).resolve_symbols({'V': NumericValue(5), 'Z0': NumericValue(0), 'L': "
     'AddressValue(2)}).translate()'),
    ("ExtendedIndexedOperand('[-0,X--]', MN['LDD']).resolve_symbols({'V': NumericValue(5), 'Z0': "
     "NumericValue(0), 'L': AddressValue(2)}).translate()"),
    "IndexedOperand('-0,+X', MN['LDA']).translate()",
    "ExtendedIndexedOperand('[-0,+X]', MN['LDA']).translate()",
    ("IndexedOperand('-0,+X', MN['LEAX']).resolve_symbols({'V': NumericValue(5), 'Z0': NumericValue(0), 'L': "
     'AddressValue(2)}).translate()'),
    ("ExtendedIndexedOperand('[-0,+X]', MN['LDD']).resolve_symbols({'V': NumericValue(5), 'Z0': NumericValue(0), "
     "'L': AddressValue(2)}).translate()"),
    "IndexedOperand('-0,++X', MN['LDA']).translate()",
    "ExtendedIndexedOperand('[-0,++X]', MN['LDA']).translate()",
    ("IndexedOperand('-0,++X', MN['LEAX']).resolve_symbols({'V': NumericValue(5), 'Z0': NumericValue(0), 'L': "
     'AddressValue(2)}).translate()'),
    ("ExtendedIndexedOperand('[-0,++X]', MN['LDD']).resolve_symbols({'V': NumericValue(5), 'Z0': "
     "NumericValue(0), 'L': AddressValue(2)}).translate()"),
    "IndexedOperand('-0,X+-', MN['LDA']).translate()",
    "ExtendedIndexedOperand('[-0,X+-]', MN['LDA']).translate()",
    ("IndexedOperand('-0,X+-', MN['LEAX']).resolve_symbols({'V': NumericValue(5), 'Z0': NumericValue(0), 'L': "
     'AddressValue(2)}).translate()'),
    ("ExtendedIndexedOperand('[-0,X+-]', MN['LDD']).resolve_symbols({'V': NumericValue(5), 'Z0': "
     "NumericValue(0), 'L': AddressValue(2)}).translate()"),
    "IndexedOperand('-0,-X+', MN['LDA']).translate()",
    "ExtendedIndexedOperand('[-0,-X+]', MN['LDA']).translate()",
    ("IndexedOperand('-0,-X+', MN['LEAX']).resolve_symbols({'V': NumericValue(5), 'Z0': NumericValue(0), 'L': "
     'AddressValue(2)}).translate()'),
    ("ExtendedIndexedOperand('[-0,-X+]', MN['LDD']).resolve_symbols({'V': NumericValue(5), 'Z0': "
     "NumericValue(0), 'L': AddressValue(2)}).translate()"),
    "IndexedOperand('-0,', MN['LDA']).translate()",
    "ExtendedIndexedOperand('[-0,]', MN['LDA']).translate()",
    ("IndexedOperand('-0,', MN['LEAX']).resolve_symbols({'V': NumericValue(5), 'Z0': NumericValue(0), 'L': "
     'AddressValue(2)}).translate()'),
    ("ExtendedIndexedOperand('[-0,]', MN['LDD']).resolve_symbols({'V': NumericValue(5), 'Z0': NumericValue(0), "
     "'L': AddressValue(2)}).translate()"),
    "IndexedOperand('-0,Q', MN['LDA']).translate()",
    "ExtendedIndexedOperand('[-0,Q]', MN['LDA']).translate()",
    ("IndexedOperand('-0,Q', MN['LEAX']).resolve_symbols({'V': NumericValue(5), 'Z0': NumericValue(0), 'L': "
     'AddressValue(2)}).translate()'),
    ("ExtendedIndexedOperand('[-0,Q]', MN['LDD']).resolve_symbols({'V': NumericValue(5), 'Z0': NumericValue(0), "
     "'L': AddressValue(2)}).translate()"),
    "IndexedOperand('-0,X++Y', MN['LDA']).translate()",
    "ExtendedIndexedOperand('[-0,X++Y]', MN['LDA']).translate()",
    ("IndexedOperand('-0,X++Y', MN['LEAX']).resolve_symbols({'V': NumericValue(5), 'Z0': NumericValue(0), 'L': "
     'AddressValue(2)}).translate()'),
    ("ExtendedIndexedOperand('[-0,X++Y]', MN['LDD']).resolve_symbols({'V': NumericValue(5), 'Z0': "
     "NumericValue(0), 'L': AddressValue(2)}).translate()"),
    "IndexedOperand('00,X', MN['LDA']).translate()",
    "ExtendedIndexedOperand('[00,X]', MN['LDA']).translate()",
    ("IndexedOperand('00,X', MN['LEAX']).resolve_symbols({'V': NumericValue(5), 'Z0': NumericValue(0), 'L': "
     'AddressValue(2)}).translate()'),
    ("ExtendedIndexedOperand('[00,X]', MN['LDD']).resolve_symbols({'V': NumericValue(5), 'Z0': NumericValue(0), "
     "'L': AddressValue(2)}).translate()"),
    "IndexedOperand('00,Y', MN['LDA']).translate()",
    "ExtendedIndexedOperand('[00,Y]', MN['LDA']).translate()",
    ("IndexedOperand('00,Y', MN['LEAX']).resolve_symbols({'V': NumericValue(5), 'Z0': NumericValue(0), 'L': "
     'AddressValue(2)}).translate()'),
    ("ExtendedIndexedOperand('[00,Y]', MN['LDD']).resolve_symbols({'V': NumericValue(5), 'Z0': NumericValue(0), "
     "'L': AddressValue(2)}).translate()"),
    "IndexedOperand('00,U', MN['LDA']).translate()",
    "ExtendedIndexedOperand('[00,U]', MN['LDA']).translate()",
    ("IndexedOperand('00,U', MN['LEAX']).resolve_symbols({'V': NumericValue(5), 'Z0': NumericValue(0), 'L': "
     'AddressValue(2)}).translate()'),
    ("ExtendedIndexedOperand('[00,U]', MN['LDD']).resolve_symbols({'V': NumericValue(5), 'Z0': NumericValue(0), "
     "'L': AddressValue(2)}).translate()"),
    "IndexedOperand('00,S', MN['LDA']).translate()",
    "ExtendedIndexedOperand('[00,S]', MN['LDA']).translate()",
    ("IndexedOperand('00,S', MN['LEAX']).resolve_symbols({'V': NumericValue(5), 'Z0': NumericValue(0), 'L': "
     'AddressValue(2)}).translate()'),
    ("ExtendedIndexedOperand('[00,S]', MN['LDD']).resolve_symbols({'V': NumericValue(5), 'Z0': NumericValue(0), "
     "'L': AddressValue(2)}).translate()"),
    "IndexedOperand('00,X+', MN['LDA']).translate()",
    "ExtendedIndexedOperand('[00,X+]', MN['LDA']).translate()",
    ("IndexedOperand('00,X+', MN['LEAX']).resolve_symbols({'V': NumericValue(5), 'Z0': NumericValue(0), 'L': "
     'AddressValue(2)}).translate()'),
    ("ExtendedIndexedOperand('[00,X+]', MN['LDD']).resolve_symbols({'V': NumericValue(5), 'Z0': NumericValue(0), "
     "'L': AddressValue(2)}).translate()"),
    "IndexedOperand('00,X++', MN['LDA']).translate()",
    "ExtendedIndexedOperand('[00,X++]', MN['LDA']).translate()",
    ("IndexedOperand('00,X++', MN['LEAX']).resolve_symbols({'V': NumericValue(5), 'Z0': NumericValue(0), 'L': "
     'AddressValue(2)}).translate()'),
    ("ExtendedIndexedOperand('[00,X++]', MN['LDD']).resolve_symbols({'V': NumericValue(5), 'Z0': "
     "NumericValue(0), 'L': AddressValue(2)}).translate()"),
    "IndexedOperand('00,-X', MN['LDA']).translate()",
    "ExtendedIndexedOperand('[00,-X]', MN['LDA']).translate()",
    ("IndexedOperand('00,-X', MN['LEAX']).resolve_symbols({'V': NumericValue(5), 'Z0': NumericValue(0), 'L': "
     'AddressValue(2)}).translate()'),
    ("ExtendedIndexedOperand('[00,-X]', MN['LDD']).resolve_symbols({'V': NumericValue(5), 'Z0': NumericValue(0), "
     "'L': AddressValue(2)}).translate()"),
    "IndexedOperand('00,--X', MN['LDA']).translate()",
    "ExtendedIndexedOperand('[00,--X]', MN['LDA']).translate()",
    ("IndexedOperand('00,--X', MN['LEAX']).resolve_symbols({'V': NumericValue(5), 'Z0': NumericValue(0), 'L': "
     'AddressValue(2)}).translate()'),
    ("ExtendedIndexedOperand('[00,--X]', MN['LDD']).resolve_symbols({'V': NumericValue(5), 'Z0': "
     "NumericValue(0), 'L': AddressValue(2)}).translate()"),
    "IndexedOperand('00,Y+', MN['LDA']).translate()",
    "ExtendedIndexedOperand('[00,Y+]', MN['LDA']).translate()",
    ("IndexedOperand('00,Y+', MN['LEAX']).resolve_symbols({'V': NumericValue(5), 'Z0': NumericValue(0), 'L': "
     'AddressValue(2)}).translate()'),
    ("ExtendedIndexedOperand('[00,Y+]', MN['LDD']).resolve_symbols({'V': NumericValue(5), 'Z0': NumericValue(0), "
     "'L': AddressValue(2)}).translate()"),
    "IndexedOperand('00,Y++', MN['LDA']).translate()",
    "ExtendedIndexedOperand('[00,Y++]', MN['LDA']).translate()",
    ("IndexedOperand('00,Y++', MN['LEAX']).resolve_symbols({'V': NumericValue(5), 'Z0': NumericValue(0), 'L': "
     'AddressValue(2)}).translate()'),
    ("ExtendedIndexedOperand('[00,Y++]', MN['LDD']).resolve_symbols({'V': NumericValue(5), 'Z0': "
     "NumericValue(0), 'L': AddressValue(2)}).translate()"),
    "IndexedOperand('00,-U', MN['LDA']).translate()",
    "ExtendedIndexedOperand('[00,-U]', MN['LDA']).translate()",
    ("IndexedOperand('00,-U', MN['LEAX']).resolve_symbols({'V': NumericValue(5), 'Z0': NumericValue(0), 'L': "
     'AddressValue(2)}).translate()'),
    ("ExtendedIndexedOperand('[00,-U]', MN['LDD']).resolve_symbols({'V': NumericValue(5), 'Z0': NumericValue(0), "
     "'L': AddressValue(2)}).translate()"),
    "IndexedOperand('00,--S', MN['LDA']).translate()",
    "ExtendedIndexedOperand('[00,--S]', MN['LDA']).translate()",
    ("IndexedOperand('00,--S', MN['LEAX']).resolve_symbols({'V': NumericValue(5), 'Z0': NumericValue(0), 'L': "
     'AddressValue(2)}).translate()'),
    ("ExtendedIndexedOperand('[00,--S]', MN['LDD']).resolve_symbols({'V': NumericValue(5), 'Z0': "
     "NumericValue(0), 'L': AddressValue(2)}).translate()"),
    "IndexedOperand('00,PCR', MN['LDA']).translate()",
    "ExtendedIndexedOperand('[00,PCR]', MN['LDA']).translate()",
    ("IndexedOperand('00,PCR', MN['LEAX']).resolve_symbols({'V': NumericValue(5), 'Z0': NumericValue(0), 'L': "
     'AddressValue(2)}).translate()'),
    ("ExtendedIndexedOperand('[00,PCR]', MN['LDD']).resolve_symbols({'V': NumericValue(5), 'Z0': "
     "NumericValue(0), 'L': AddressValue(2)}).translate()"),
    "IndexedOperand('00,PC', MN['LDA']).translate()",
    "ExtendedIndexedOperand('[00,PC]', MN['LDA']).translate()",
    ("IndexedOperand('00,PC', MN['LEAX']).resolve_symbols({'V': NumericValue(5), 'Z0': NumericValue(0), 'L': "
     'AddressValue(2)}).translate()'),
    ("ExtendedIndexedOperand('[00,PC]', MN['LDD']).resolve_symbols({'V': NumericValue(5), 'Z0': NumericValue(0), "
     "'L': AddressValue(2)}).translate()"),
    "IndexedOperand('00,X-', MN['LDA']).translate()",
    "ExtendedIndexedOperand('[00,X-]', MN['LDA']).translate()",
    ("IndexedOperand('00,X-', MN['LEAX']).resolve_symbols({'V': NumericValue(5), 'Z0': NumericValue(0), 'L': "
     'AddressValue(2)}).translate()'),
    ("ExtendedIndexedOperand('[00,X-]', MN['LDD']).resolve_symbols({'V': NumericValue(5), 'Z0': NumericValue(0), "
     "'L': AddressValue(2)}).translate()"),
    "IndexedOperand('00,X--', MN['LDA']).translate()",
    "ExtendedIndexedOperand('[00,X--]', MN['LDA']).translate()",
    ("IndexedOperand('00,X--', MN['LEAX']).resolve_symbols({'V': NumericValue(5), 'Z0': NumericValue(0), 'L': "
     'AddressValue(2)}).translate()'),
    ("ExtendedIndexedOperand('[00,X--]', MN['LDD']).resolve_symbols({'V': NumericValue(5), 'Z0': "
     "NumericValue(0), 'L': AddressValue(2)}).translate()"),
    "IndexedOperand('00,+X', MN['LDA']).translate()",
    "ExtendedIndexedOperand('[00,+X]', MN['LDA']).translate()",
    ("IndexedOperand('00,+X', MN['LEAX']).resolve_symbols({'V': NumericValue(5), 'Z0': NumericValue(0), 'L': "
     'AddressValue(2)}).translate()'),
    ("ExtendedIndexedOperand('[00,+X]', MN['LDD']).resolve_symbols({'V': NumericValue(5), 'Z0': NumericValue(0), "
     "'L': AddressValue(2)}).translate()"),
    "IndexedOperand('00,++X', MN['LDA']).translate()",
    "ExtendedIndexedOperand('[00,++X]', MN['LDA']).translate()",
    ("IndexedOperand('00,++X', MN['LEAX']).resolve_symbols({'V': NumericValue(5), 'Z0': NumericValue(0), 'L': "
     'AddressValue(2)}).translate()'),
    ("ExtendedIndexedOperand('[00,++X]', MN['LDD']).resolve_symbols({'V': NumericValue(5), 'Z0': "
     "NumericValue(0), 'L': AddressValue(2)}).translate()"),
    "IndexedOperand('00,X+-', MN['LDA']).translate()",
    "ExtendedIndexedOperand('[00,X+-]', MN['LDA']).translate()",
    ("IndexedOperand('00,X+-', MN['LEAX']).resolve_symbols({'V': NumericValue(5), 'Z0': NumericValue(0), 'L': "
     'AddressValue(2)}).translate()'),
    ("ExtendedIndexedOperand('[00,X+-]', MN['LDD']).resolve_symbols({'V': NumericValue(5), 'Z0': "
     "NumericValue(0), 'L': AddressValue(2)}).translate()"),
    "IndexedOperand('00,-X+', MN['LDA']).translate()",
    "ExtendedIndexedOperand('[00,-X+]', MN['LDA']).translate()",
    ("IndexedOperand('00,-X+', MN['LEAX']).resolve_symbols({'V': NumericValue(5), 'Z0': NumericValue(0), 'L': "
     'AddressValue(2)}).translate()'),
    ("ExtendedIndexedOperand('[00,-X+]', MN['LDD']).resolve_symbols({'V': NumericValue(5), 'Z0': "
     "NumericValue(0), 'L': AddressValue(2)}).translate()"),
    "IndexedOperand('00,', MN['LDA']).translate()",
    "ExtendedIndexedOperand('[00,]', MN['LDA']).translate()",
    ("IndexedOperand('00,', MN['LEAX']).resolve_symbols({'V': NumericValue(5), 'Z0': NumericValue(0), 'L': "
     'AddressValue(2)}).translate()'),
    ("ExtendedIndexedOperand('[00,]', MN['LDD']).resolve_symbols({'V': NumericValue(5), 'Z0': NumericValue(0), "
     "'L': AddressValue(2)}).translate()"),
    "IndexedOperand('00,Q', MN['LDA']).translate()",
    "ExtendedIndexedOperand('[00,Q]', MN['LDA']).translate()",
    ("IndexedOperand('00,Q', MN['LEAX']).resolve_symbols({'V': NumericValue(5), 'Z0': NumericValue(0), 'L': "
     'AddressValue(2)}).translate()'),
    ("ExtendedIndexedOperand('[00,Q]', MN['LDD']).resolve_symbols({'V': NumericValue(5), 'Z0': NumericValue(0), "
     "'L': AddressValue(2)}).translate()"),
    "IndexedOperand('00,X++Y', MN['LDA']).translate()",
    "ExtendedIndexedOperand('[00,X++Y]', MN['LDA']).translate()",
    ("IndexedOperand('00,X++Y', MN['LEAX']).resolve_symbols({'V': NumericValue(5), 'Z0': NumericValue(0), 'L': "
     'AddressValue(2)}).translate()'),
    ("ExtendedIndexedOperand('[00,X++Y]', MN['LDD']).resolve_symbols({'V': NumericValue(5), 'Z0': "
     "NumericValue(0), 'L': AddressValue(2)}).translate()"),
    "IndexedOperand('$00,X', MN['LDA']).translate()",
    "ExtendedIndexedOperand('[$00,X]', MN['LDA']).translate()",
    ("IndexedOperand('$00,X', MN['LEAX']).resolve_symbols({'V': NumericValue(5), 'Z0': NumericValue(0), 'L': "
     'AddressValue(2)}).translate()'),
    ("ExtendedIndexedOperand('[$00,X]', MN['LDD']).resolve_symbols({'V': NumericValue(5), 'Z0': NumericValue(0), "
     "'L': AddressValue(2)}).translate()"),
    "IndexedOperand('$00,Y', MN['LDA']).translate()",
    "ExtendedIndexedOperand('[$00,Y]', MN['LDA']).translate()",
    ("IndexedOperand('$00,Y', MN['LEAX']).resolve_symbols({'V': NumericValue(5), 'Z0': NumericValue(0), 'L': "
     'AddressValue(2)}).translate()'),
    ("ExtendedIndexedOperand('[$00,Y]', MN['LDD']).resolve_symbols({'V': NumericValue(5), 'Z0': NumericValue(0), "
     "'L': AddressValue(2)}).translate()"),
    "IndexedOperand('$00,U', MN['LDA']).translate()",
    "ExtendedIndexedOperand('[$00,U]', MN['LDA']).translate()",
    ("IndexedOperand('$00,U', MN['LEAX']).resolve_symbols({'V': NumericValue(5), 'Z0': NumericValue(0), 'L': "
     'AddressValue(2)}).translate()'),
    ("ExtendedIndexedOperand('[$00,U]', MN['LDD']).resolve_symbols({'V': NumericValue(5), 'Z0': NumericValue(0), "
     "'L': AddressValue(2)}).translate()"),
    "IndexedOperand('$00,S', MN['LDA']).translate()",
    "ExtendedIndexedOperand('[$00,S]', MN['LDA']).translate()",
    ("IndexedOperand('$00,S', MN['LEAX']).resolve_symbols({'V': NumericValue(5), 'Z0': NumericValue(0), 'L': "
     'AddressValue(2)}).translate()'),
    ("ExtendedIndexedOperand('[$00,S]', MN['LDD']).resolve_symbols({'V': NumericValue(5), 'Z0': NumericValue(0), "
     "'L': AddressValue(2)}).translate()"),
    "IndexedOperand('$00,X+', MN['LDA']).translate()",
    "ExtendedIndexedOperand('[$00,X+]', MN['LDA']).translate()",
    ("IndexedOperand('$00,X+', MN['LEAX']).resolve_symbols({'V': NumericValue(5), 'Z0': NumericValue(0), 'L': "
     'AddressValue(2)}).translate()'),
    ("ExtendedIndexedOperand('[$00,X+]', MN['LDD']).resolve_symbols({'V': NumericValue(5), 'Z0': "
     "NumericValue(0), 'L': AddressValue(2)}).translate()"),
    "IndexedOperand('$00,X++', MN['LDA']).translate()",
    "ExtendedIndexedOperand('[$00,X++]', MN['LDA']).translate()",
    ("IndexedOperand('$00,X++', MN['LEAX']).resolve_symbols({'V': NumericValue(5), 'Z0': NumericValue(0), 'L': "
     'AddressValue(2)}).translate()'),
    ("ExtendedIndexedOperand('[$00,X++]', MN['LDD']).resolve_symbols({'V': NumericValue(5), 'Z0': "
     "NumericValue(0), 'L': AddressValue(2)}).translate()"),
    "IndexedOperand('$00,-X', MN['LDA']).translate()",
    "ExtendedIndexedOperand('[$00,-X]', MN['LDA']).translate()",
    ("IndexedOperand('$00,-X', MN['LEAX']).resolve_symbols({'V': NumericValue(5), 'Z0': NumericValue(0), 'L': "
     'AddressValue(2)}).translate()'),
    ("ExtendedIndexedOperand('[$00,-X]', MN['LDD']).resolve_symbols({'V': NumericValue(5), 'Z0': "
     "NumericValue(0), 'L': AddressValue(2)}).translate()"),
    "IndexedOperand('$00,--X', MN['LDA']).translate()",
    "ExtendedIndexedOperand('[$00,--X]', MN['LDA']).translate()",
    ("IndexedOperand('$00,--X', MN['LEAX']).resolve_symbols({'V': NumericValue(5), 'Z0': NumericValue(0), 'L': "
     'AddressValue(2)}).translate()'),
    ("ExtendedIndexedOperand('[$00,--X]', MN['LDD']).resolve_symbols({'V': NumericValue(5), 'Z0': "
     "NumericValue(0), 'L': AddressValue(2)}).translate()"),
    "IndexedOperand('$00,Y+', MN['LDA']).translate()",
    "ExtendedIndexedOperand('[$00,Y+]', MN['LDA']).translate()",
    ("IndexedOperand('$00,Y+', MN['LEAX']).resolve_symbols({'V': NumericValue(5), 'Z0': NumericValue(0), 'L': "
     'AddressValue(2)}).translate()'),
    ("ExtendedIndexedOperand('[$00,Y+]', MN['LDD']).resolve_symbols({'V': NumericValue(5), 'Z0': "
     "NumericValue(0), 'L': AddressValue(2)}).translate()"),
    "IndexedOperand('$00,Y++', MN['LDA']).translate()",
    "ExtendedIndexedOperand('[$00,Y++]', MN['LDA']).translate()",
    ("IndexedOperand('$00,Y++', MN['LEAX']).resolve_symbols({'V': NumericValue(5), 'Z0': NumericValue(0), 'L': "
     'AddressValue(2)}).translate()'),
    ("ExtendedIndexedOperand('[$00,Y++]', MN['LDD']).resolve_symbols({'V': NumericValue(5), 'Z0': "
     "NumericValue(0), 'L': AddressValue(2)}).translate()"),
    "IndexedOperand('$00,-U', MN['LDA']).translate()",
    "ExtendedIndexedOperand('[$00,-U]', MN['LDA']).translate()",
    ("IndexedOperand('$00,-U', MN['LEAX']).resolve_symbols({'V': NumericValue(5), 'Z0': NumericValue(0), 'L': "
     'AddressValue(2)}).translate()'),
    ("ExtendedIndexedOperand('[$00,-U]', MN['LDD']).resolve_symbols({'V': NumericValue(5), 'Z0': "
     "NumericValue(0), 'L': AddressValue(2)}).translate()"),
    "IndexedOperand('$00,--S', MN['LDA']).translate()",
    "ExtendedIndexedOperand('[$00,--S]', MN['LDA']).translate()",
    ("IndexedOperand('$00,--S', MN['LEAX']).resolve_symbols({'V': NumericValue(5), 'Z0': NumericValue(0), 'L': "
     'AddressValue(2)}).translate()'),
    ("ExtendedIndexedOperand('[$00,--S]', MN['LDD']).resolve_symbols({'V': NumericValue(5), 'Z0': "
     "NumericValue(0), 'L': AddressValue(2)}).translate()"),
    "IndexedOperand('$00,PCR', MN['LDA']).translate()",
    "ExtendedIndexedOperand('[$00,PCR]', MN['LDA']).translate()",
    ("IndexedOperand('$00,PCR', MN['LEAX']).resolve_symbols({'V': NumericValue(5), 'Z0': NumericValue(0), 'L': "
     'AddressValue(2)}).translate()'),
    ("ExtendedIndexedOperand('[$00,PCR]', MN['LDD']).resolve_symbols({'V': NumericValue(5), 'Z0': "
     "NumericValue(0), 'L': AddressValue(2)}).translate()"),
    "IndexedOperand('$00,PC', MN['LDA']).translate()",
    "ExtendedIndexedOperand('[$00,PC]', MN['LDA']).translate()",
    ("IndexedOperand('$00,PC', MN['LEAX']).resolve_symbols({'V': NumericValue(5), 'Z0': NumericValue(0), 'L': "
     'AddressValue(2)}).translate()'),
    ("ExtendedIndexedOperand('[$00,PC]', MN['LDD']).resolve_symbols({'V': NumericValue(5), 'Z0': "
     "NumericValue(0), 'L': AddressValue(2)}).translate()"),
    "IndexedOperand('$00,X-', MN['LDA']).translate()",
    "ExtendedIndexedOperand('[$00,X-]', MN['LDA']).translate()",
    ("IndexedOperand('$00,X-', MN['LEAX']).resolve_symbols({'V': NumericValue(5), 'Z0': NumericValue(0), 'L': "
     'AddressValue(2)}).translate()'),
    ("ExtendedIndexedOperand('[$00,X-]', MN['LDD']).resolve_symbols({'V': NumericValue(5), 'Z0': "
     "NumericValue(0), 'L': AddressValue(2)}).translate()"),
    "IndexedOperand('$00,X--', MN['LDA']).translate()",
    "ExtendedIndexedOperand('[$00,X--]', MN['LDA']).translate()",
    ("IndexedOperand('$00,X--', MN['LEAX']).resolve_symbols({'V': NumericValue(5), 'Z0': NumericValue(0), 'L': "
     'AddressValue(2)}).translate()'),
    ("ExtendedIndexedOperand('[$00,X--]', MN['LDD']).resolve_symbols({'V': NumericValue(5), 'Z0': "
     "NumericValue(0), 'L': AddressValue(2)}).translate()"),
    "IndexedOperand('$00,+X', MN['LDA']).translate()",
    "ExtendedIndexedOperand('[$00,+X]', MN['LDA']).translate()",
    ("IndexedOperand('$00,+X', MN['LEAX']).resolve_symbols({'V': NumericValue(5), 'Z0': NumericValue(0), 'L': "
     'AddressValue(2)}).translate()'),
    ("ExtendedIndexedOperand('[$00,+X]', MN['LDD']).resolve_symbols({'V': NumericValue(5), 'Z0': "
     "NumericValue(0), 'L': AddressValue(2)}).translate()"),
    "IndexedOperand('$00,++X', MN['LDA']).translate()",
    "ExtendedIndexedOperand('[$00,++X]', MN['LDA']).translate()",
    ("IndexedOperand('$00,++X', MN['LEAX']).resolve_symbols({'V': NumericValue(5), 'Z0': NumericValue(0), 'L': "
     'AddressValue(2)}).translate()'),
    ("ExtendedIndexedOperand('[$00,++X]', MN['LDD']).resolve_symbols({'V': NumericValue(5), 'Z0': "
     "NumericValue(0), 'L': AddressValue(2)}).translate()"),
    "IndexedOperand('$00,X+-', MN['LDA']).translate()",
    "ExtendedIndexedOperand('[$00,X+-]', MN['LDA']).translate()",
    ("IndexedOperand('$00,X+-', MN['LEAX']).resolve_symbols({'V': NumericValue(5), 'Z0': NumericValue(0), 'L': "
     'AddressValue(2)}).translate()'),
    ("ExtendedIndexedOperand('[$00,X+-]', MN['LDD']).resolve_symbols({'V': NumericValue(5), 'Z0': "
     "NumericValue(0), 'L': AddressValue(2)}).translate()"),
    "IndexedOperand('$00,-X+', MN['LDA']).translate()",
    "ExtendedIndexedOperand('[$00,-X+]', MN['LDA']).translate()",
    ("IndexedOperand('$00,-X+', MN['LEAX']).resolve_symbols({'V': NumericValue(5), 'Z0': NumericValue(0), 'L': "
     'AddressValue(2)}).translate()'),
    ("ExtendedIndexedOperand('[$00,-X+]', MN['LDD']).resolve_symbols({'V': NumericValue(5), 'Z0': "
     "NumericValue(0), 'L': AddressValue(2)}).translate()"),
    "IndexedOperand('$00,', MN['LDA']).translate()",
    "ExtendedIndexedOperand('[$00,]', MN['LDA']).translate()",
    ("IndexedOperand('$00,', MN['LEAX']).resolve_symbols({'V': NumericValue(5), 'Z0': NumericValue(0), 'L': "
     'AddressValue(2)}).translate()'),
    ("ExtendedIndexedOperand('[$00,]', MN['LDD']).resolve_symbols({'V': NumericValue(5), 'Z0': NumericValue(0), "
     "'L': AddressValue(2)}).translate()"),
    "IndexedOperand('$00,Q', MN['LDA']).translate()",
    "ExtendedIndexedOperand('[$00,Q]', MN['LDA']).translate()",
    ("IndexedOperand('$00,Q', MN['LEAX']).resolve_symbols({'V': NumericValue(5), 'Z0': NumericValue(0), 'L': "
     'AddressValue(2)}).translate()'),
    ("ExtendedIndexedOperand('[$00,Q]', MN['LDD']).resolve_symbols({'V': NumericValue(5), 'Z0': NumericValue(0), "
     "'L': AddressValue(2)}).translate()"),
    "IndexedOperand('$00,X++Y', MN['LDA']).translate()",
    "ExtendedIndexedOperand('[$00,X++Y]', MN['LDA']).translate()",
    ("IndexedOperand('$00,X++Y', MN['LEAX']).resolve_symbols({'V': NumericValue(5), 'Z0': NumericValue(0), 'L': "
     'AddressValue(2)}).translate()'),
    ("ExtendedIndexedOperand('[$00,X++Y]', MN['LDD']).resolve_symbols({'V': NumericValue(5), 'Z0': "
     "NumericValue(0), 'L': AddressValue(2)}).translate()"),
    "IndexedOperand('$0000,X', MN['LDA']).translate()",
    "ExtendedIndexedOperand('[$0000,X]', MN['LDA']).translate()",
    ("IndexedOperand('$0000,X', MN['LEAX']).resolve_symbols({'V': NumericValue(5), 'Z0': NumericValue(0), 'L': "
     'AddressValue(2)}).translate()'),
    ("ExtendedIndexedOperand('[$0000,X]', MN['LDD']).resolve_symbols({'V': NumericValue(5), 'Z0': "
     "NumericValue(0), 'L': AddressValue(2)}).translate()"),
    "IndexedOperand('$0000,Y', MN['LDA']).translate()",
    "ExtendedIndexedOperand('[$0000,Y]', MN['LDA']).translate()",
    ("IndexedOperand('$0000,Y', MN['LEAX']).resolve_symbols({'V': NumericValue(5), 'Z0': NumericValue(0), 'L': "
     'AddressValue(2)}).translate()'),
    ("ExtendedIndexedOperand('[$0000,Y]', MN['LDD']).resolve_symbols({'V': NumericValue(5), 'Z0': "
     "NumericValue(0), 'L': AddressValue(2)}).translate()"),
    "IndexedOperand('$0000,U', MN['LDA']).translate()",
    "ExtendedIndexedOperand('[$0000,U]', MN['LDA']).translate()",
    ("IndexedOperand('$0000,U', MN['LEAX']).resolve_symbols({'V': NumericValue(5), 'Z0': NumericValue(0), 'L': "
     'AddressValue(2)}).translate()'),
    ("ExtendedIndexedOperand('[$0000,U]', MN['LDD']).resolve_symbols({'V': NumericValue(5), 'Z0': "
     "NumericValue(0), 'L': AddressValue(2)}).translate()"),
    "IndexedOperand('$0000,S', MN['LDA']).translate()",
    "ExtendedIndexedOperand('[$0000,S]', MN['LDA']).translate()",
    ("IndexedOperand('$0000,S', MN['LEAX']).resolve_symbols({'V': NumericValue(5), 'Z0': NumericValue(0), 'L': "
     'AddressValue(2)}).translate()'),
    ("ExtendedIndexedOperand('[$0000,S]', MN['LDD']).resolve_symbols({'V': NumericValue(5), 'Z0': "
     "NumericValue(0), 'L': AddressValue(2)}).translate()"),
    "IndexedOperand('$0000,X+', MN['LDA']).translate()",
    "ExtendedIndexedOperand('[$0000,X+]', MN['LDA']).translate()",
    ("IndexedOperand('$0000,X+', MN['LEAX']).resolve_symbols({'V': NumericValue(5), 'Z0': NumericValue(0), 'L': "
     'AddressValue(2)}).translate()'),
    ("ExtendedIndexedOperand('[$0000,X+]', MN['LDD']).resolve_symbols({'V': NumericValue(5), 'Z0': "
     "NumericValue(0), 'L': AddressValue(2)}).translate()"),
    "IndexedOperand('$0000,X++', MN['LDA']).translate()",
    "ExtendedIndexedOperand('[$0000,X++]', MN['LDA']).translate()",
    ("IndexedOperand('$0000,X++', MN['LEAX']).resolve_symbols({'V': NumericValue(5), 'Z0': NumericValue(0), 'L': "
     'AddressValue(2)}).translate()'),
    ("ExtendedIndexedOperand('[$0000,X++]', MN['LDD']).resolve_symbols({'V': NumericValue(5), 'Z0': "
     "NumericValue(0), 'L': AddressValue(2)}).translate()"),
    "IndexedOperand('$0000,-X', MN['LDA']).translate()",
    "ExtendedIndexedOperand('[$0000,-X]', MN['LDA']).translate()",
    ("IndexedOperand('$0000,-X', MN['LEAX']).resolve_symbols({'V': NumericValue(5), 'Z0': NumericValue(0), 'L': "
     'AddressValue(2)}).translate()'),
    ("ExtendedIndexedOperand('[$0000,-X]', MN['LDD']).resolve_symbols({'V': NumericValue(5), 'Z0': "
     "NumericValue(0), 'L': AddressValue(2)}).translate()"),
    "IndexedOperand('$0000,--X', MN['LDA']).translate()",
    "ExtendedIndexedOperand('[$0000,--X]', MN['LDA']).translate()",
    ("IndexedOperand('$0000,--X', MN['LEAX']).resolve_symbols({'V': NumericValue(5), 'Z0': NumericValue(0), 'L': "
     'AddressValue(2)}).translate()'),
    ("ExtendedIndexedOperand('[$0000,--X]', MN['LDD']).resolve_symbols({'V': NumericValue(5), 'Z0': "
     "NumericValue(0), 'L': AddressValue(2)}).translate()"),
    "IndexedOperand('$0000,Y+', MN['LDA']).translate()",
    "ExtendedIndexedOperand('[$0000,Y+]', MN['LDA']).translate()",
    ("IndexedOperand('$0000,Y+', MN['LEAX']).resolve_symbols({'V': NumericValue(5), 'Z0': NumericValue(0), 'L': "
     'AddressValue(2)}).translate()'),
    ("ExtendedIndexedOperand('[$0000,Y+]', MN['LDD']).resolve_symbols({'V': NumericValue(5), 'Z0': "
     "NumericValue(0), 'L': AddressValue(2)}).translate()"),
    "IndexedOperand('$0000,Y++', MN['LDA']).translate()",
    "ExtendedIndexedOperand('[$0000,Y++]', MN['LDA']).translate()",
    ("IndexedOperand('$0000,Y++', MN['LEAX']).resolve_symbols({'V': NumericValue(5), 'Z0': NumericValue(0), 'L': "
     'AddressValue(2)}).translate()'),
    ("ExtendedIndexedOperand('[$0000,Y++]', MN['LDD']).resolve_symbols({'V': NumericValue(5), 'Z0': "
     "NumericValue(0), 'L': AddressValue(2)}).translate()"),
    "IndexedOperand('$0000,-U', MN['LDA']).translate()",
    "ExtendedIndexedOperand('[$0000,-U]', MN['LDA']).translate()",
    ("IndexedOperand('$0000,-U', MN['LEAX']).resolve_symbols({'V': NumericValue(5), 'Z0': NumericValue(0), 'L': "
     'AddressValue(2)}).translate()'),
    ("ExtendedIndexedOperand('[$0000,-U]', MN['LDD']).resolve_symbols({'V': NumericValue(5), 'Z0': "
     "NumericValue(0), 'L': AddressValue(2)}).translate()"),
    "IndexedOperand('$0000,--S', MN['LDA']).translate()",
    "ExtendedIndexedOperand('[$0000,--S]', MN['LDA']).translate()",
    ("IndexedOperand('$0000,--S', MN['LEAX']).resolve_symbols({'V': NumericValue(5), 'Z0': NumericValue(0), 'L': "
     'AddressValue(2)}).translate()'),
    ("ExtendedIndexedOperand('[$0000,--S]', MN['LDD']).resolve_symbols({'V': NumericValue(5), 'Z0': "
     "NumericValue(0), 'L': AddressValue(2)}).translate()"),
    "IndexedOperand('$0000,PCR', MN['LDA']).translate()",
    "ExtendedIndexedOperand('[$0000,PCR]', MN['LDA']).translate()",
    ("IndexedOperand('$0000,PCR', MN['LEAX']).resolve_symbols({'V': NumericValue(5), 'Z0': NumericValue(0), 'L': "
     'AddressValue(2)}).translate()'),
    ("ExtendedIndexedOperand('[$0000,PCR]', MN['LDD']).resolve_symbols({'V': NumericValue(5), 'Z0': "
     "NumericValue(0), 'L': AddressValue(2)}).translate()"),
    "IndexedOperand('$0000,PC', MN['LDA']).translate()",
    "ExtendedIndexedOperand('[$0000,PC]', MN['LDA']).translate()",
    ("IndexedOperand('$0000,PC', MN['LEAX']).resolve_symbols({'V': NumericValue(5), 'Z0': NumericValue(0), 'L': "
     'AddressValue(2)}).translate()'),
    ("ExtendedIndexedOperand('[$0000,PC]', MN['LDD']).resolve_symbols({'V': NumericValue(5), 'Z0': "
     "NumericValue(0), 'L': AddressValue(2)}).translate()"),
    "IndexedOperand('$0000,X-', MN['LDA']).translate()",
    "ExtendedIndexedOperand('[$0000,X-]', MN['LDA']).translate()",
    ("IndexedOperand('$0000,X-', MN['LEAX']).resolve_symbols({'V': NumericValue(5), 'Z0': NumericValue(0), 'L': "
     'AddressValue(2)}).translate()'),
    ("ExtendedIndexedOperand('[$0000,X-]', MN['LDD']).resolve_symbols({'V': NumericValue(5), 'Z0': "
     "NumericValue(0), 'L': AddressValue(2)}).translate()"),
    "IndexedOperand('$0000,X--', MN['LDA']).translate()",
    "ExtendedIndexedOperand('[$0000,X--]', MN['LDA']).translate()",
    ("IndexedOperand('$0000,X--', MN['LEAX']).resolve_symbols({'V': NumericValue(5), 'Z0': NumericValue(0), 'L': "
     'AddressValue(2)}).translate()'),
    ("ExtendedIndexedOperand('[$0000,X--]', MN['LDD']).resolve_symbols({'V': NumericValue(5), 'Z0': "
     "NumericValue(0), 'L': AddressValue(2)}).translate()"),
    "IndexedOperand('$0000,+X', MN['LDA']).translate()",
    "ExtendedIndexedOperand('[$0000,+X]', MN['LDA']).translate()",
    ("IndexedOperand('$0000,+X', MN['LEAX']).resolve_symbols({'V': NumericValue(5), 'Z0': NumericValue(0), 'L': "
     'AddressValue(2)}).translate()'),
    ("ExtendedIndexedOperand('[$0000,+X]', MN['LDD']).resolve_symbols({'V': NumericValue(5), 'Z0': "
     "NumericValue(0), 'L': AddressValue(2)}).translate()"),
    "IndexedOperand('$0000,++X', MN['LDA']).translate()",
    "ExtendedIndexedOperand('[$0000,++X]', MN['LDA']).translate()",
    ("IndexedOperand('$0000,++X', MN['LEAX']).resolve_symbols({'V': NumericValue(5), 'Z0': NumericValue(0), 'L': "
     'AddressValue(2)}).translate()'),
    ("ExtendedIndexedOperand('[$0000,++X]', MN['LDD']).resolve_symbols({'V': NumericValue(5), 'Z0': "
     "NumericValue(0), 'L': AddressValue(2)}).translate()"),
    "IndexedOperand('$0000,X+-', MN['LDA']).translate()",
    "ExtendedIndexedOperand('[$0000,X+-]', MN['LDA']).translate()",
    ("IndexedOperand('$0000,X+-', MN['LEAX']).resolve_symbols({'V': NumericValue(5), 'Z0': NumericValue(0), 'L': "
     'AddressValue(2)}).translate()'),
    ("ExtendedIndexedOperand('[$0000,X+-]', MN['LDD']).resolve_symbols({'V': NumericValue(5), 'Z0': "
     "NumericValue(0), 'L': AddressValue(2)}).translate()"),
    "IndexedOperand('$0000,-X+', MN['LDA']).translate()",
    "ExtendedIndexedOperand('[$0000,-X+]', MN['LDA']).translate()",
    ("IndexedOperand('$0000,-X+', MN['LEAX']).resolve_symbols({'V': NumericValue(5), 'Z0': NumericValue(0), 'L': "
     'AddressValue(2)}).translate()'),
    ("ExtendedIndexedOperand('[$0000,-X+]', MN['LDD']).resolve_symbols({'V': NumericValue(5), 'Z0': "
     "NumericValue(0), 'L': AddressValue(2)}).translate()"),
    "IndexedOperand('$0000,', MN['LDA']).translate()",
    "ExtendedIndexedOperand('[$0000,]', MN['LDA']).translate()",
    ("IndexedOperand('$0000,', MN['LEAX']).resolve_symbols({'V': NumericValue(5), 'Z0': NumericValue(0), 'L': "
     'AddressValue(2)}).translate()'),
    ("ExtendedIndexedOperand('[$0000,]', MN['LDD']).resolve_symbols({'V': NumericValue(5), 'Z0': "
     "NumericValue(0), 'L': AddressValue(2)}).translate()"),
    "IndexedOperand('$0000,Q', MN['LDA']).translate()",
    "ExtendedIndexedOperand('[$0000,Q]', MN['LDA']).translate()",
    ("IndexedOperand('$0000,Q', MN['LEAX']).resolve_symbols({'V': NumericValue(5), 'Z0': NumericValue(0), 'L': "
     'AddressValue(2)}).translate()'),
    ("ExtendedIndexedOperand('[$0000,Q]', MN['LDD']).resolve_symbols({'V': NumericValue(5), 'Z0': "
     "NumericValue(0), 'L': AddressValue(2)}).translate()"),
    "IndexedOperand('$0000,X++Y', MN['LDA']).translate()",
    "ExtendedIndexedOperand('[$0000,X++Y]', MN['LDA']).translate()",
    ("IndexedOperand('$0000,X++Y', MN['LEAX']).resolve_symbols({'V': NumericValue(5), 'Z0': NumericValue(0), "
     "'L': AddressValue(2)}).translate()"),
    ("ExtendedIndexedOperand('[$0000,X++Y]', MN['LDD']).resolve_symbols({'V': NumericValue(5), 'Z0': "
     "NumericValue(0), 'L': AddressValue(2)}).translate()"),
    "IndexedOperand('%00000000,X', MN['LDA']).translate()",
    "ExtendedIndexedOperand('[%00000000,X]', MN['LDA']).translate()",
    ("IndexedOperand('%00000000,X', MN['LEAX']).resolve_symbols({'V': NumericValue(5), 'Z0': NumericValue(0), "
     "'L': AddressValue(2)}).translate()"),
    ("ExtendedIndexedOperand('[%00000000,X]', MN['LDD']).resolve_symbols({'V': NumericValue(5), 'Z0': "
     "NumericValue(0), 'L': AddressValue(2)}).translate()"),
    "IndexedOperand('%00000000,Y', MN['LDA']).translate()",
    "ExtendedIndexedOperand('[%00000000,Y]', MN['LDA']).translate()",
    ("IndexedOperand('%00000000,Y', MN['LEAX']).resolve_symbols({'V': NumericValue(5), 'Z0': NumericValue(0), "
     "'L': AddressValue(2)}).translate()"),
    ("ExtendedIndexedOperand('[%00000000,Y]', MN['LDD']).resolve_symbols({'V': NumericValue(5), 'Z0': "
     "NumericValue(0), 'L': AddressValue(2)}).translate()"),
    "IndexedOperand('%00000000,U', MN['LDA']).translate()",
    "ExtendedIndexedOperand('[%00000000,U]', MN['LDA']).translate()",
    ("IndexedOperand('%00000000,U', MN['LEAX']).resolve_symbols({'V': NumericValue(5), 'Z0': NumericValue(0), "
     "'L': AddressValue(2)}).translate()"),
    ("ExtendedIndexedOperand('[%00000000,U]', MN['LDD']).resolve_symbols({'V': NumericValue(5), 'Z0': "
     "NumericValue(0), 'L': AddressValue(2)}).translate()"),
    "IndexedOperand('%00000000,S', MN['LDA']).translate()",
    "ExtendedIndexedOperand('[%00000000,S]', MN['LDA']).translate()",
    ("IndexedOperand('%00000000,S', MN['LEAX']).resolve_symbols({'V': NumericValue(5), 'Z0': NumericValue(0), "
     "'L': AddressValue(2)}).translate()"),
    ("ExtendedIndexedOperand('[%00000000,S]', MN['LDD']).resolve_symbols({'V': NumericValue(5), 'Z0': "
     "NumericValue(0), 'L': AddressValue(2)}).translate()"),
    "IndexedOperand('%00000000,X+', MN['LDA']).translate()",
    "ExtendedIndexedOperand('[%00000000,X+]', MN['LDA']).translate()",
    ("IndexedOperand('%00000000,X+', MN['LEAX']).resolve_symbols({'V': NumericValue(5), 'Z0': NumericValue(0), "
     "'L': AddressValue(2)}).translate()"),
    ("ExtendedIndexedOperand('[%00000000,X+]', MN['LDD']).resolve_symbols({'V': NumericValue(5), 'Z0': "
     "NumericValue(0), 'L': AddressValue(2)}).translate()"),
    "IndexedOperand('%00000000,X++', MN['LDA']).translate()",
    "ExtendedIndexedOperand('[%00000000,X++]', MN['LDA']).translate()",
    ("IndexedOperand('%00000000,X++', MN['LEAX']).resolve_symbols({'V': NumericValue(5), 'Z0': NumericValue(0), "
     "'L': AddressValue(2)}).translate()"),
    ("ExtendedIndexedOperand('[%00000000,X++]', MN['LDD']).resolve_symbols({'V': NumericValue(5), 'Z0': "
     "NumericValue(0), 'L': AddressValue(2)}).translate()"),
    "IndexedOperand('%00000000,-X', MN['LDA']).translate()",
    "ExtendedIndexedOperand('[%00000000,-X]', MN['LDA']).translate()",
    ("IndexedOperand('%00000000,-X', MN['LEAX']).resolve_symbols({'V': NumericValue(5), 'Z0': NumericValue(0), "
     "'L': AddressValue(2)}).translate()"),
    ("ExtendedIndexedOperand('[%00000000,-X]', MN['LDD']).resolve_symbols({'V': NumericValue(5), 'Z0': "
     "NumericValue(0), 'L': AddressValue(2)}).translate()"),
    "IndexedOperand('%00000000,--X', MN['LDA']).translate()",
    "ExtendedIndexedOperand('[%00000000,--X]', MN['LDA']).translate()",
    ("IndexedOperand('%00000000,--X', MN['LEAX']).resolve_symbols({'V': NumericValue(5), 'Z0': NumericValue(0), "
     "'L': AddressValue(2)}).translate()"),
    ("ExtendedIndexedOperand('[%00000000,--X]', MN['LDD']).resolve_symbols({'V': NumericValue(5), 'Z0': "
     "NumericValue(0), 'L': AddressValue(2)}).translate()"),
    "IndexedOperand('%00000000,Y+', MN['LDA']).translate()",
    "ExtendedIndexedOperand('[%00000000,Y+]', MN['LDA']).translate()",
    ("IndexedOperand('%00000000,Y+', MN['LEAX']).resolve_symbols({'V': NumericValue(5), 'Z0': NumericValue(0), "
     "'L': AddressValue(2)}).translate()"),
    ("ExtendedIndexedOperand('[%00000000,Y+]', MN['LDD']).resolve_symbols({'V': NumericValue(5), 'Z0': "
     "NumericValue(0), 'L': AddressValue(2)}).translate()"),
    "IndexedOperand('%00000000,Y++', MN['LDA']).translate()",
    "ExtendedIndexedOperand('[%00000000,Y++]', MN['LDA']).translate()",
    ("IndexedOperand('%00000000,Y++', MN['LEAX']).resolve_symbols({'V': NumericValue(5), 'Z0': NumericValue(0), "
     "'L': AddressValue(2)}).translate()"),
    ("ExtendedIndexedOperand('[%00000000,Y++]', MN['LDD']).resolve_symbols({'V': NumericValue(5), 'Z0': "
     "NumericValue(0), 'L': AddressValue(2)}).translate()"),
    "IndexedOperand('%00000000,-U', MN['LDA']).translate()",
    "ExtendedIndexedOperand('[%00000000,-U]', MN['LDA']).translate()",
    ("IndexedOperand('%00000000,-U', MN['LEAX']).resolve_symbols({'V': NumericValue(5), 'Z0': NumericValue(0), "
     "'L': AddressValue(2)}).translate()"),
    ("ExtendedIndexedOperand('[%00000000,-U]', MN['LDD']).resolve_symbols({'V': NumericValue(5), 'Z0': "
     "NumericValue(0), 'L': AddressValue(2)}).translate()"),
    "IndexedOperand('%00000000,--S', MN['LDA']).translate()",
    "ExtendedIndexedOperand('[%00000000,--S]', MN['LDA']).translate()",
    ("IndexedOperand('%00000000,--S', MN['LEAX']).resolve_symbols({'V': NumericValue(5), 'Z0': NumericValue(0), "
     "'L': AddressValue(2)}).translate()"),
    ("ExtendedIndexedOperand('[%00000000,--S]', MN['LDD']).resolve_symbols({'V': NumericValue(5), 'Z0': "
     "NumericValue(0), 'L': AddressValue(2)}).translate()"),
    "IndexedOperand('%00000000,PCR', MN['LDA']).translate()",
    "ExtendedIndexedOperand('[%00000000,PCR]', MN['LDA']).translate()",
    ("IndexedOperand('%00000000,PCR', MN['LEAX']).resolve_symbols({'V': NumericValue(5), 'Z0': NumericValue(0), "
     "'L': AddressValue(2)}).translate()"),
    ("ExtendedIndexedOperand('[%00000000,PCR]', MN['LDD']).resolve_symbols({'V': NumericValue(5), 'Z0': "
     "NumericValue(0), 'L': AddressValue(2)}).translate()"),
    "IndexedOperand('%00000000,PC', MN['LDA']).translate()",
    "ExtendedIndexedOperand('[%00000000,PC]', MN['LDA']).translate()",
    ("IndexedOperand('%00000000,PC', MN['LEAX']).resolve_symbols({'V': NumericValue(5), 'Z0': NumericValue(0), "
     "'L': AddressValue(2)}).translate()"),
    ("ExtendedIndexedOperand('[%00000000,PC]', MN['LDD']).resolve_symbols({'V': NumericValue(5), 'Z0': "
     "NumericValue(0), 'L': AddressValue(2)}).translate()"),
    "IndexedOperand('%00000000,X-', MN['LDA']).translate()",
    "ExtendedIndexedOperand('[%00000000,X-]', MN['LDA']).translate()",
    ("IndexedOperand('%00000000,X-', MN['LEAX']).resolve_symbols({'V': NumericValue(5), 'Z0': NumericValue(0), "
     "'L': AddressValue(2)}).translate()"),
    ("ExtendedIndexedOperand('[%00000000,X-]', MN['LDD']).resolve_symbols({'V': NumericValue(5), 'Z0': "
     "NumericValue(0), 'L': AddressValue(2)}).translate()"),
    "IndexedOperand('%00000000,X--', MN['LDA']).translate()",
    "ExtendedIndexedOperand('[%00000000,X--]', MN['LDA']).translate()",
    ("IndexedOperand('%00000000,X--', MN['LEAX']).resolve_symbols({'V': NumericValue(5), 'Z0': NumericValue(0), "
     "'L': AddressValue(2)}).translate()"),
    ("ExtendedIndexedOperand('[%00000000,X--]', MN['LDD']).resolve_symbols({'V': NumericValue(5), 'Z0': "
     "NumericValue(0), 'L': AddressValue(2)}).translate()"),
    "IndexedOperand('%00000000,+X', MN['LDA']).translate()",
    "ExtendedIndexedOperand('[%00000000,+X]', MN['LDA']).translate()",
    ("IndexedOperand('%00000000,+X', MN['LEAX']).resolve_symbols({'V': NumericValue(5), 'Z0': NumericValue(0), "
     "'L': AddressValue(2)}).translate()"),
    ("ExtendedIndexedOperand('[%00000000,+X]', MN['LDD']).resolve_symbols({'V': NumericValue(5), 'Z0': "
     "NumericValue(0), 'L': AddressValue(2)}).translate()"),
    "IndexedOperand('%00000000,++X', MN['LDA']).translate()",
    "ExtendedIndexedOperand('[%00000000,++X]', MN['LDA']).translate()",
    ("IndexedOperand('%00000000,++X', MN['LEAX']).resolve_symbols({'V': NumericValue(5), 'Z0': NumericValue(0), "
     "'L': AddressValue(2)}).translate()"),
    ("ExtendedIndexedOperand('[%00000000,++X]', MN['LDD']).resolve_symbols({'V': NumericValue(5), 'Z0': "
     "NumericValue(0), 'L': AddressValue(2)}).translate()"),
    "IndexedOperand('%00000000,X+-', MN['LDA']).translate()",
    "ExtendedIndexedOperand('[%00000000,X+-]', MN['LDA']).translate()",
    ("IndexedOperand('%00000000,X+-', MN['LEAX']).resolve_symbols({'V': NumericValue(5), 'Z0': NumericValue(0), "
     "'L': AddressValue(2)}).translate()"),
    ("ExtendedIndexedOperand('[%00000000,X+-]', MN['LDD']).resolve_symbols({'V': NumericValue(5), 'Z0': "
     "NumericValue(0), 'L': AddressValue(2)}).translate()"),
    "IndexedOperand('%00000000,-X+', MN['LDA']).translate()",
    "ExtendedIndexedOperand('[%00000000,-X+]', MN['LDA']).translate()",
    ("IndexedOperand('%00000000,-X+', MN['LEAX']).resolve_symbols({'V': NumericValue(5), 'Z0': NumericValue(0), "
     "'L': AddressValue(2)}).translate()"),
    ("ExtendedIndexedOperand('[%00000000,-X+]', MN['LDD']).resolve_symbols({'V': NumericValue(5), 'Z0': "
     "NumericValue(0), 'L': AddressValue(2)}).translate()"),
    "IndexedOperand('%00000000,', MN['LDA']).translate()",
    "ExtendedIndexedOperand('[%00000000,]', MN['LDA']).translate()",
    ("IndexedOperand('%00000000,', MN['LEAX']).resolve_symbols({'V': NumericValue(5), 'Z0': NumericValue(0), "
     "'L': AddressValue(2)}).translate()"),
    ("ExtendedIndexedOperand('[%00000000,]', MN['LDD']).resolve_symbols({'V': NumericValue(5), 'Z0': "
     "NumericValue(0), 'L': AddressValue(2)}).translate()"),
    "IndexedOperand('%00000000,Q', MN['LDA']).translate()",
    "ExtendedIndexedOperand('[%00000000,Q]', MN['LDA']).translate()",
    ("IndexedOperand('%00000000,Q', MN['LEAX']).resolve_symbols({'V': NumericValue(5), 'Z0': NumericValue(0), "
     "'L': AddressValue(2)}).translate()"),
    ("ExtendedIndexedOperand('[%00000000,Q]', MN['LDD']).resolve_symbols({'V': NumericValue(5), 'Z0': "
     "NumericValue(0), 'L': AddressValue(2)}).translate()"),
    "IndexedOperand('%00000000,X++Y', MN['LDA']).translate()",
    "ExtendedIndexedOperand('[%00000000,X++Y]', MN['LDA']).translate()",
    ("IndexedOperand('%00000000,X++Y', MN['LEAX']).resolve_symbols({'V': NumericValue(5), 'Z0': NumericValue(0), "
     "'L': AddressValue(2)}).translate()"),
    ("ExtendedIndexedOperand('[%00000000,X++Y]', MN['LDD']).resolve_symbols({'V': NumericValue(5), 'Z0': "
     "NumericValue(0), 'L': AddressValue(2)}).translate()"),
    "IndexedOperand('1,X', MN['LDA']).translate()",
    "ExtendedIndexedOperand('[1,X]', MN['LDA']).translate()",
    ("IndexedOperand('1,X', MN['LEAX']).resolve_symbols({'V': NumericValue(5), 'Z0': NumericValue(0), 'L': "
     'AddressValue(2)}).translate()'),
    ("ExtendedIndexedOperand('[1,X]', MN['LDD']).resolve_symbols({'V': NumericValue(5), 'Z0': NumericValue(0), "
     "'L': AddressValue(2)}).translate()"),
    "IndexedOperand('1,Y', MN['LDA']).translate()",
    "ExtendedIndexedOperand('[1,Y]', MN['LDA']).translate()",
    ("IndexedOperand('1,Y', MN['LEAX']).resolve_symbols({'V': NumericValue(5), 'Z0': NumericValue(0), 'L': "
     'AddressValue(2)}).translate()'),
    ("ExtendedIndexedOperand('[1,Y]', MN['LDD']).resolve_symbols({'V': NumericValue(5), 'Z0': NumericValue(0), "
     "'L': AddressValue(2)}).translate()"),
    "IndexedOperand('1,U', MN['LDA']).translate()",
    "ExtendedIndexedOperand('[1,U]', MN['LDA']).translate()",
    ("IndexedOperand('1,U', MN['LEAX']).resolve_symbols({'V': NumericValue(5), 'Z0': NumericValue(0), 'L': "
     'AddressValue(2)}).translate()'),
    ("ExtendedIndexedOperand('[1,U]', MN['LDD']).resolve_symbols({'V': NumericValue(5), 'Z0': NumericValue(0), "
     "'L': AddressValue(2)}).translate()"),
    "IndexedOperand('1,S', MN['LDA']).translate()",
    "ExtendedIndexedOperand('[1,S]', MN['LDA']).translate()",
    ("IndexedOperand('1,S', MN['LEAX']).resolve_symbols({'V': NumericValue(5), 'Z0': NumericValue(0), 'L': "
     'AddressValue(2)}).translate()'),
    ("ExtendedIndexedOperand('[1,S]', MN['LDD']).resolve_symbols({'V': NumericValue(5), 'Z0': NumericValue(0), "
     "'L': AddressValue(2)}).translate()"),
    "IndexedOperand('1,X+', MN['LDA']).translate()",
    "ExtendedIndexedOperand('[1,X+]', MN['LDA']).translate()",
    ("IndexedOperand('1,X+', MN['LEAX']).resolve_symbols({'V': NumericValue(5), 'Z0': NumericValue(0), 'L': "
     'AddressValue(2)}).translate()'),
    ("ExtendedIndexedOperand('[1,X+]', MN['LDD']).resolve_symbols({'V': NumericValue(5), 'Z0': NumericValue(0), "
     "'L': AddressValue(2)}).translate()"),
    "IndexedOperand('1,X++', MN['LDA']).translate()",
    "ExtendedIndexedOperand('[1,X++]', MN['LDA']).translate()",
    ("IndexedOperand('1,X++', MN['LEAX']).resolve_symbols({'V': NumericValue(5), 'Z0': NumericValue(0), 'L': "
     'AddressValue(2)}).translate()'),
    ("ExtendedIndexedOperand('[1,X++]', MN['LDD']).resolve_symbols({'V': NumericValue(5), 'Z0': NumericValue(0), "
     "'L': AddressValue(2)}).translate()"),
    "IndexedOperand('1,-X', MN['LDA']).translate()",
    "ExtendedIndexedOperand('[1,-X]', MN['LDA']).translate()",
    ("IndexedOperand('1,-X', MN['LEAX']).resolve_symbols({'V': NumericValue(5), 'Z0': NumericValue(0), 'L': "
     'AddressValue(2)}).translate()'),
    ("ExtendedIndexedOperand('[1,-X]', MN['LDD']).resolve_symbols({'V': NumericValue(5), 'Z0': NumericValue(0), "
     "'L': AddressValue(2)}).translate()"),
    "IndexedOperand('1,--X', MN['LDA']).translate()",
    "ExtendedIndexedOperand('[1,--X]', MN['LDA']).translate()",
    ("IndexedOperand('1,--X', MN['LEAX']).resolve_symbols({'V': NumericValue(5), 'Z0': NumericValue(0), 'L': "
     'AddressValue(2)}).translate()'),
    ("ExtendedIndexedOperand('[1,--X]', MN['LDD']).resolve_symbols({'V': NumericValue(5), 'Z0': NumericValue(0), "
     "'L': AddressValue(2)}).translate()"),
    "IndexedOperand('1,Y+', MN['LDA']).translate()",
    "ExtendedIndexedOperand('[1,Y+]', MN['LDA']).translate()",
    ("IndexedOperand('1,Y+', MN['LEAX']).resolve_symbols({'V': NumericValue(5), 'Z0': NumericValue(0), 'L': "
     'AddressValue(2)}).translate()'),
    ("ExtendedIndexedOperand('[1,Y+]', MN['LDD']).resolve_symbols({'V': NumericValue(5), 'Z0': NumericValue(0), "
     "'L': AddressValue(2)}).translate()"),
    "IndexedOperand('1,Y++', MN['LDA']).translate()",
    "ExtendedIndexedOperand('[1,Y++]', MN['LDA']).translate()",
    ("IndexedOperand('1,Y++', MN['LEAX']).resolve_symbols({'V': NumericValue(5), 'Z0': NumericValue(0), 'L': "
     'AddressValue(2)}).translate()'),
    ("ExtendedIndexedOperand('[1,Y++]', MN['LDD']).resolve_symbols({'V': NumericValue(5), 'Z0': NumericValue(0), "
     "'L': AddressValue(2)}).translate()"),
    "IndexedOperand('1,-U', MN['LDA']).translate()",
    "ExtendedIndexedOperand('[1,-U]', MN['LDA']).translate()",
    ("IndexedOperand('1,-U', MN['LEAX']).resolve_symbols({'V': NumericValue(5), 'Z0': NumericValue(0), 'L': "
     'AddressValue(2)}).translate()'),
    ("ExtendedIndexedOperand('[1,-U]', MN['LDD']).resolve_symbols({'V': NumericValue(5), 'Z0': NumericValue(0), "
     "'L': AddressValue(2)}).translate()"),
    "IndexedOperand('1,--S', MN['LDA']).translate()",
    "ExtendedIndexedOperand('[1,--S]', MN['LDA']).translate()",
    ("IndexedOperand('1,--S', MN['LEAX']).resolve_symbols({'V': NumericValue(5), 'Z0': NumericValue(0), 'L': "
     'AddressValue(2)}).translate()'),
    ("ExtendedIndexedOperand('[1,--S]', MN['LDD']).resolve_symbols({'V': NumericValue(5), 'Z0': NumericValue(0), "
     "'L': AddressValue(2)}).translate()"),
    "IndexedOperand('1,PCR', MN['LDA']).translate()",
    "ExtendedIndexedOperand('[1,PCR]', MN['LDA']).translate()",
    ("IndexedOperand('1,PCR', MN['LEAX']).resolve_symbols({'V': NumericValue(5), 'Z0': NumericValue(0), 'L': "
     'AddressValue(2)}).translate()'),
    ("ExtendedIndexedOperand('[1,PCR]', MN['LDD']).resolve_symbols({'V': NumericValue(5), 'Z0': NumericValue(0), "
     "'L': AddressValue(2)}).translate()"),
    "IndexedOperand('1,PC', MN['LDA']).translate()",
    "ExtendedIndexedOperand('[1,PC]', MN['LDA']).translate()",
    ("IndexedOperand('1,PC', MN['LEAX']).resolve_symbols({'V': NumericValue(5), 'Z0': NumericValue(0), 'L': "
     'AddressValue(2)}).translate()'),
    ("ExtendedIndexedOperand('[1,PC]', MN['LDD']).resolve_symbols({'V': NumericValue(5), 'Z0': NumericValue(0), "
     "'L': AddressValue(2)}).translate()"),
    "IndexedOperand('1,X-', MN['LDA']).translate()",
    "ExtendedIndexedOperand('[1,X-]', MN['LDA']).translate()",
    ("IndexedOperand('1,X-', MN['LEAX']).resolve_symbols({'V': NumericValue(5), 'Z0': NumericValue(0), 'L': "
     'AddressValue(2)}).translate()'),
    ("ExtendedIndexedOperand('[1,X-]', MN['LDD']).resolve_symbols({'V': NumericValue(5), 'Z0': NumericValue(0), "
     "'L': AddressValue(2)}).translate()"),
    "IndexedOperand('1,X--', MN['LDA']).translate()",
    "ExtendedIndexedOperand('[1,X--]', MN['LDA']).translate()",
    ("IndexedOperand('1,X--', MN['LEAX']).resolve_symbols({'V': NumericValue(5), 'Z0': NumericValue(0), 'L': "
     'AddressValue(2)}).translate()'),
    ("ExtendedIndexedOperand('[1,X--]', MN['LDD']).resolve_symbols({'V': NumericValue(5), 'Z0': NumericValue(0), "
     "'L': AddressValue(2)}).translate()"),
    "IndexedOperand('1,+X', MN['LDA']).translate()",
    "ExtendedIndexedOperand('[1,+X]', MN['LDA']).translate()",
    ("IndexedOperand('1,+X', MN['LEAX']).resolve_symbols({'V': NumericValue(5), 'Z0': NumericValue(0), 'L': "
     'AddressValue(2)}).translate()'),
    ("ExtendedIndexedOperand('[1,+X]', MN['LDD']).resolve_symbols({'V': NumericValue(5), 'Z0': NumericValue(0), "
     "'L': AddressValue(2)}).translate()"),
    "IndexedOperand('1,++X', MN['LDA']).translate()",
    "ExtendedIndexedOperand('[1,++X]', MN['LDA']).translate()",
    ("IndexedOperand('1,++X', MN['LEAX']).resolve_symbols({'V': NumericValue(5), 'Z0': NumericValue(0), 'L': "
     'AddressValue(2)}).translate()'),
    ("ExtendedIndexedOperand('[1,++X]', MN['LDD']).resolve_symbols({'V': NumericValue(5), 'Z0': NumericValue(0), "
     "'L': AddressValue(2)}).translate()"),
    "IndexedOperand('1,X+-', MN['LDA']).translate()",
    "ExtendedIndexedOperand('[1,X+-]', MN['LDA']).translate()",
    ("IndexedOperand('1,X+-', MN['LEAX']).resolve_symbols({'V': NumericValue(5), 'Z0': NumericValue(0), 'L': "
     'AddressValue(2)}).translate()'),
    ("ExtendedIndexedOperand('[1,X+-]', MN['LDD']).resolve_symbols({'V': NumericValue(5), 'Z0': NumericValue(0), "
     "'L': AddressValue(2)}).translate()"),
    "IndexedOperand('1,-X+', MN['LDA']).translate()",
    "ExtendedIndexedOperand('[1,-X+]', MN['LDA']).translate()",
    ("IndexedOperand('1,-X+', MN['LEAX']).resolve_symbols({'V': NumericValue(5), 'Z0': NumericValue(0), 'L': "
     'AddressValue(2)}).translate()'),
    ("ExtendedIndexedOperand('[1,-X+]', MN['LDD']).resolve_symbols({'V': NumericValue(5), 'Z0': NumericValue(0), "
     "'L': AddressValue(2)}).translate()"),
    "IndexedOperand('1,', MN['LDA']).translate()",
    "ExtendedIndexedOperand('[1,]', MN['LDA']).translate()",
    ("IndexedOperand('1,', MN['LEAX']).resolve_symbols({'V': NumericValue(5), 'Z0': NumericValue(0), 'L': "
     'AddressValue(2)}).translate()'),
    ("ExtendedIndexedOperand('[1,]', MN['LDD']).resolve_symbols({'V': NumericValue(5), 'Z0': NumericValue(0), "
     "'L': AddressValue(2)}).translate()"),
    "IndexedOperand('1,Q', MN['LDA']).translate()",
    "ExtendedIndexedOperand('[1,Q]', MN['LDA']).translate()",
    ("IndexedOperand('1,Q', MN['LEAX']).resolve_symbols({'V': NumericValue(5), 'Z0': NumericValue(0), 'L': "
     'AddressValue(2)}).translate()'),
    ("ExtendedIndexedOperand('[1,Q]', MN['LDD']).resolve_symbols({'V': NumericValue(5), 'Z0': NumericValue(0), "
     "'L': AddressValue(2)}).translate()"),
    "IndexedOperand('1,X++Y', MN['LDA']).translate()",
    "ExtendedIndexedOperand('[1,X++Y]', MN['LDA']).translate()",
    ("IndexedOperand('1,X++Y', MN['LEAX']).resolve_symbols({'V': NumericValue(5), 'Z0': NumericValue(0), 'L': "
     'AddressValue(2)}).translate()'),
    ("ExtendedIndexedOperand('[1,X++Y]', MN['LDD']).resolve_symbols({'V': NumericValue(5), 'Z0': "
     "NumericValue(0), 'L': AddressValue(2)}).translate()"),
    "IndexedOperand('-1,X', MN['LDA']).translate()",
    "ExtendedIndexedOperand('[-1,X]', MN['LDA']).translate()",
    ("IndexedOperand('-1,X', MN['LEAX']).resolve_symbols({'V': NumericValue(5), 'Z0': NumericValue(0), 'L': "
     'AddressValue(2)}).translate()'),
    ("ExtendedIndexedOperand('[-1,X]', MN['LDD']).resolve_symbols({'V': NumericValue(5), 'Z0': NumericValue(0), "
     "'L': AddressValue(2)}).translate()"),
    "IndexedOperand('-1,Y', MN['LDA']).translate()",
    "ExtendedIndexedOperand('[-1,Y]', MN['LDA']).translate()",
    ("IndexedOperand('-1,Y', MN['LEAX']).resolve_symbols({'V': NumericValue(5), 'Z0': NumericValue(0), 'L': "
     'AddressValue(2)}).translate()'),
    ("ExtendedIndexedOperand('[-1,Y]', MN['LDD']).resolve_symbols({'V': NumericValue(5), 'Z0': NumericValue(0), "
     "'L': AddressValue(2)}).translate()"),
    "IndexedOperand('-1,U', MN['LDA']).translate()",
    "ExtendedIndexedOperand('[-1,U]', MN['LDA']).translate()",
    ("IndexedOperand('-1,U', MN['LEAX']).resolve_symbols({'V': NumericValue(5), 'Z0': NumericValue(0), 'L': "
     'AddressValue(2)}).translate()'),
    ("ExtendedIndexedOperand('[-1,U]', MN['LDD']).resolve_symbols({'V': NumericValue(5), 'Z0': NumericValue(0), "
     "'L': AddressValue(2)}).translate()"),
    "IndexedOperand('-1,S', MN['LDA']).translate()",
    "ExtendedIndexedOperand('[-1,S]', MN['LDA']).translate()",
    ("IndexedOperand('-1,S', MN['LEAX']).resolve_symbols({'V': NumericValue(5), 'Z0': NumericValue(0), 'L': "
     'AddressValue(2)}).translate()'),
    ("ExtendedIndexedOperand('[-1,S]', MN['LDD']).resolve_symbols({'V': NumericValue(5), 'Z0': NumericValue(0), "
     "'L': AddressValue(2)}).translate()"),
    "IndexedOperand('-1,X+', MN['LDA']).translate()",
    "ExtendedIndexedOperand('[-1,X+]', MN['LDA']).translate()",
    ("IndexedOperand('-1,X+', MN['LEAX']).resolve_symbols({'V': NumericValue(5), 'Z0': NumericValue(0), 'L': "
     'AddressValue(2)}).translate()'),
    ("ExtendedIndexedOperand('[-1,X+]', MN['LDD']).resolve_symbols({'V': NumericValue(5), 'Z0': NumericValue(0), "
     "'L': AddressValue(2)}).translate()"),
    "IndexedOperand('-1,X++', MN['LDA']).translate()",
    "ExtendedIndexedOperand('[-1,X++]', MN['LDA']).translate()",
    ("IndexedOperand('-1,X++', MN['LEAX']).resolve_symbols({'V': NumericValue(5), 'Z0': NumericValue(0), 'L': "
     'AddressValue(2)}).translate()'),
    ("ExtendedIndexedOperand('[-1,X++]', MN['LDD']).resolve_symbols({'V': NumericValue(5), 'Z0': "
     "NumericValue(0), 'L': AddressValue(2)}).translate()"),
    "IndexedOperand('-1,-X', MN['LDA']).translate()",
    "ExtendedIndexedOperand('[-1,-X]', MN['LDA']).translate()",
    ("IndexedOperand('-1,-X', MN['LEAX']).resolve_symbols({'V': NumericValue(5), 'Z0': NumericValue(0), 'L': "
     'AddressValue(2)}).translate()'),
    ("ExtendedIndexedOperand('[-1,-X]', MN['LDD']).resolve_symbols({'V': NumericValue(5), 'Z0': NumericValue(0), "
     "'L': AddressValue(2)}).translate()"),
    "IndexedOperand('-1,--X', MN['LDA']).translate()",
    "ExtendedIndexedOperand('[-1,--X]', MN['LDA']).translate()",
    ("IndexedOperand('-1,--X', MN['LEAX']).resolve_symbols({'V': NumericValue(5), 'Z0': NumericValue(0), 'L': "
     'AddressValue(2)}).translate()'),
    ("ExtendedIndexedOperand('[-1,--X]', MN['LDD']).resolve_symbols({'V': NumericValue(5), 'Z0': "
     "NumericValue(0), 'L': AddressValue(2)}).translate()"),
    "IndexedOperand('-1,Y+', MN['LDA']).translate()",
    "ExtendedIndexedOperand('[-1,Y+]', MN['LDA']).translate()",
    ("IndexedOperand('-1,Y+', MN['LEAX']).resolve_symbols({'V': NumericValue(5), 'Z0': NumericValue(0), 'L': "
     'AddressValue(2)}).translate()'),
    ("ExtendedIndexedOperand('[-1,Y+]', MN['LDD']).resolve_symbols({'V': NumericValue(5), 'Z0': NumericValue(0), "
     "'L': AddressValue(2)}).translate()"),
    "IndexedOperand('-1,Y++', MN['LDA']).translate()",
    "ExtendedIndexedOperand('[-1,Y++]', MN['LDA']).translate()",
    ("IndexedOperand('-1,Y++', MN['LEAX']).resolve_symbols({'V': NumericValue(5), 'Z0': NumericValue(0), 'L': "
     'AddressValue(2)}).translate()'),
    ("ExtendedIndexedOperand('[-1,Y++]', MN['LDD']).resolve_symbols({'V': NumericValue(5), 'Z0': "
     "NumericValue(0), 'L': AddressValue(2)}).translate()"),
    "IndexedOperand('-1,-U', MN['LDA']).translate()",
    "ExtendedIndexedOperand('[-1,-U]', MN['LDA']).translate()",
    ("IndexedOperand('-1,-U', MN['LEAX']).resolve_symbols({'V': NumericValue(5), 'Z0': NumericValue(0), 'L': "
     'AddressValue(2)}).translate()'),
    ("ExtendedIndexedOperand('[-1,-U]', MN['LDD']).resolve_symbols({'V': NumericValue(5), 'Z0': NumericValue(0), "
     "'L': AddressValue(2)}).translate()"),
    "IndexedOperand('-1,--S', MN['LDA']).translate()",
    "ExtendedIndexedOperand('[-1,--S]', MN['LDA']).translate()",
    ("IndexedOperand('-1,--S', MN['LEAX']).resolve_symbols({'V': NumericValue(5), 'Z0': NumericValue(0), 'L': "
     'AddressValue(2)}).translate()'),
    ("ExtendedIndexedOperand('[-1,--S]', MN['LDD']).resolve_symbols({'V': NumericValue(5), 'Z0': "
     "NumericValue(0), 'L': AddressValue(2)}).translate()"),
    "IndexedOperand('-1,PCR', MN['LDA']).translate()",
    "ExtendedIndexedOperand('[-1,PCR]', MN['LDA']).translate()",
    ("IndexedOperand('-1,PCR', MN['LEAX']).resolve_symbols({'V': NumericValue(5), 'Z0': NumericValue(0), 'L': "
     'AddressValue(2)}).translate()'),
    ("ExtendedIndexedOperand('[-1,PCR]', MN['LDD']).resolve_symbols({'V': NumericValue(5), 'Z0': "
     "NumericValue(0), 'L': AddressValue(2)}).translate()"),
    "IndexedOperand('-1,PC', MN['LDA']).translate()",
    "ExtendedIndexedOperand('[-1,PC]', MN['LDA']).translate()",
    ("IndexedOperand('-1,PC', MN['LEAX']).resolve_symbols({'V': NumericValue(5), 'Z0': NumericValue(0), 'L': "
     'AddressValue(2)}).translate()'),
    ("ExtendedIndexedOperand('[-1,PC]', MN['LDD']).resolve_symbols({'V': NumericValue(5), 'Z0': NumericValue(0), "
     "'L': AddressValue(2)}).translate()"),
    "IndexedOperand('-1,X-', MN['LDA']).translate()",
    "ExtendedIndexedOperand('[-1,X-]', MN['LDA']).translate()",
    ("IndexedOperand('-1,X-', MN['LEAX']).resolve_symbols({'V': NumericValue(5), 'Z0': NumericValue(0), 'L': "
     'AddressValue(2)}).translate()'),
    ("ExtendedIndexedOperand('[-1,X-]', MN['LDD']).resolve_symbols({'V': NumericValue(5), 'Z0': NumericValue(0), "
     "'L': AddressValue(2)}).translate()"),
    "IndexedOperand('-1,X--', MN['LDA']).translate()",
    "ExtendedIndexedOperand('[-1,X--]', MN['LDA']).translate()",
    ("IndexedOperand('-1,X--', MN['LEAX']).resolve_symbols({'V': NumericValue(5), 'Z0': NumericValue(0), 'L': "
     'AddressValue(2)}).translate()'),
    ("ExtendedIndexedOperand('[-1,X--]', MN['LDD']).resolve_symbols({'V': NumericValue(5), 'Z0': "
     "NumericValue(0), 'L': AddressValue(2)}).translate()"),
    "IndexedOperand('-1,+X', MN['LDA']).translate()",
    "ExtendedIndexedOperand('[-1,+X]', MN['LDA']).translate()",
    ("IndexedOperand('-1,+X', MN['LEAX']).resolve_symbols({'V': NumericValue(5), 'Z0': NumericValue(0), 'L': "
     'AddressValue(2)}).translate()'),
    ("ExtendedIndexedOperand('[-1,+X]', MN['LDD']).resolve_symbols({'V': NumericValue(5), 'Z0': NumericValue(0), "
     "'L': AddressValue(2)}).translate()"),
    "IndexedOperand('-1,++X', MN['LDA']).translate()",
    "ExtendedIndexedOperand('[-1,++X]', MN['LDA']).translate()",
    ("IndexedOperand('-1,++X', MN['LEAX']).resolve_symbols({'V': NumericValue(5), 'Z0': NumericValue(0), 'L': "
     'AddressValue(2)}).translate()'),
    ("ExtendedIndexedOperand('[-1,++X]', MN['LDD']).resolve_symbols({'V': NumericValue(5), 'Z0': "
     "NumericValue(0), 'L': AddressValue(2)}).translate()"),
    "IndexedOperand('-1,X+-', MN['LDA']).translate()",
    "ExtendedIndexedOperand('[-1,X+-]', MN['LDA']).translate()",
    ("IndexedOperand('-1,X+-', MN['LEAX']).resolve_symbols({'V': NumericValue(5), 'Z0': NumericValue(0), 'L': "
     'AddressValue(2)}).translate()'),
    ("ExtendedIndexedOperand('[-1,X+-]', MN['LDD']).resolve_symbols({'V': NumericValue(5), 'Z0': "
     "NumericValue(0), 'L': AddressValue(2)}).translate()"),
    "IndexedOperand('-1,-X+', MN['LDA']).translate()",
    "ExtendedIndexedOperand('[-1,-X+]', MN['LDA']).translate()",
    ("IndexedOperand('-1,-X+', MN['LEAX']).resolve_symbols({'V': NumericValue(5), 'Z0': NumericValue(0), 'L': "
     'AddressValue(2)}).translate()'),
    ("ExtendedIndexedOperand('[-1,-X+]', MN['LDD']).resolve_symbols({'V': NumericValue(5), 'Z0': "
     "NumericValue(0), 'L': AddressValue(2)}).translate()"),
    "IndexedOperand('-1,', MN['LDA']).translate()",
    "ExtendedIndexedOperand('[-1,]', MN['LDA']).translate()",
    ("IndexedOperand('-1,', MN['LEAX']).resolve_symbols({'V': NumericValue(5), 'Z0': NumericValue(0), 'L': "
     'AddressValue(2)}).translate()'),
    ("ExtendedIndexedOperand('[-1,]', MN['LDD']).resolve_symbols({'V': NumericValue(5), 'Z0': NumericValue(0), "
     "'L': AddressValue(2)}).translate()"),
    "IndexedOperand('-1,Q', MN['LDA']).translate()",
    "ExtendedIndexedOperand('[-1,Q]', MN['LDA']).translate()",
    ("IndexedOperand('-1,Q', MN['LEAX']).resolve_symbols({'V': NumericValue(5), 'Z0': NumericValue(0), 'L': "
     'AddressValue(2)}).translate()'),
    ("ExtendedIndexedOperand('[-1,Q]', MN['LDD']).resolve_symbols({'V': NumericValue(5), 'Z0': NumericValue(0), "
     "'L': AddressValue(2)}).translate()"),
    "IndexedOperand('-1,X++Y', MN['LDA']).translate()",
    "ExtendedIndexedOperand('[-1,X++Y]', MN['LDA']).translate()",
    ("IndexedOperand('-1,X++Y', MN['LEAX']).resolve_symbols({'V': NumericValue(5), 'Z0': NumericValue(0), 'L': "
     'AddressValue(2)}).translate()'),
    ("ExtendedIndexedOperand('[-1,X++Y]', MN['LDD']).resolve_symbols({'V': NumericValue(5), 'Z0': "
     "NumericValue(0), 'L': AddressValue(2)}).translate()"),
    "IndexedOperand('15,X', MN['LDA']).translate()",
    "ExtendedIndexedOperand('[15,X]', MN['LDA']).translate()",
    ("IndexedOperand('15,X', MN['LEAX']).resolve_symbols({'V': NumericValue(5), 'Z0': NumericValue(0), 'L': "
     'AddressValue(2)}).translate()'),
    ("ExtendedIndexedOperand('[15,X]', MN['LDD']).resolve_symbols({'V': NumericValue(5), 'Z0': NumericValue(0), "
     "'L': AddressValue(2)}).translate()"),
    "IndexedOperand('15,Y', MN['LDA']).translate()",
    "ExtendedIndexedOperand('[15,Y]', MN['LDA']).translate()",
    ("IndexedOperand('15,Y', MN['LEAX']).resolve_symbols({'V': NumericValue(5), 'Z0': NumericValue(0), 'L': "
     'AddressValue(2)}).translate()'),
    ("ExtendedIndexedOperand('[15,Y]', MN['LDD']).resolve_symbols({'V': NumericValue(5), 'Z0': NumericValue(0), "
     "'L': AddressValue(2)}).translate()"),
    "IndexedOperand('15,U', MN['LDA']).translate()",
    "ExtendedIndexedOperand('[15,U]', MN['LDA']).translate()",
    ("IndexedOperand('15,U', MN['LEAX']).resolve_symbols({'V': NumericValue(5), 'Z0': NumericValue(0), 'L': "
     'AddressValue(2)}).translate()'),
    ("ExtendedIndexedOperand('[15,U]', MN['LDD']).resolve_symbols({'V': NumericValue(5), 'Z0': NumericValue(0), "
     "'L': AddressValue(2)}).translate()"),
    "IndexedOperand('15,S', MN['LDA']).translate()",
    "ExtendedIndexedOperand('[15,S]', MN['LDA']).translate()",
    ("IndexedOperand('15,S', MN['LEAX']).resolve_symbols({'V': NumericValue(5), 'Z0': NumericValue(0), 'L': "
     'AddressValue(2)}).translate()'),
    ("ExtendedIndexedOperand('[15,S]', MN['LDD']).resolve_symbols({'V': NumericValue(5), 'Z0': NumericValue(0), "
     "'L': AddressValue(2)}).translate()"),
    "IndexedOperand('15,X+', MN['LDA']).translate()",
    "ExtendedIndexedOperand('[15,X+]', MN['LDA']).translate()",
    ("IndexedOperand('15,X+', MN['LEAX']).resolve_symbols({'V': NumericValue(5), 'Z0': NumericValue(0), 'L': "
     'AddressValue(2)}).translate()'),
    ("ExtendedIndexedOperand('[15,X+]', MN['LDD']).resolve_symbols({'V': NumericValue(5), 'Z0': NumericValue(0), "
     "'L': AddressValue(2)}).translate()"),
    "IndexedOperand('15,X++', MN['LDA']).translate()",
    "ExtendedIndexedOperand('[15,X++]', MN['LDA']).translate()",
    ("IndexedOperand('15,X++', MN['LEAX']).resolve_symbols({'V': NumericValue(5), 'Z0': NumericValue(0), 'L': "
     'AddressValue(2)}).translate()'),
    ("ExtendedIndexedOperand('[15,X++]', MN['LDD']).resolve_symbols({'V': NumericValue(5), 'Z0': "
     "NumericValue(0), 'L': AddressValue(2)}).translate()"),
    "IndexedOperand('15,-X', MN['LDA']).translate()",
    "ExtendedIndexedOperand('[15,-X]', MN['LDA']).translate()",
    ("IndexedOperand('15,-X', MN['LEAX']).resolve_symbols({'V': NumericValue(5), 'Z0': NumericValue(0), 'L': "
     'AddressValue(2)}).translate()'),
    ("ExtendedIndexedOperand('[15,-X]', MN['LDD']).resolve_symbols({'V': NumericValue(5), 'Z0': NumericValue(0), "
     "'L': AddressValue(2)}).translate()"),
    "IndexedOperand('15,--X', MN['LDA']).translate()",
    "ExtendedIndexedOperand('[15,--X]', MN['LDA']).translate()",
    ("IndexedOperand('15,--X', MN['LEAX']).resolve_symbols({'V': NumericValue(5), 'Z0': NumericValue(0), 'L': "
     'AddressValue(2)}).translate()'),
    ("ExtendedIndexedOperand('[15,--X]', MN['LDD']).resolve_symbols({'V': NumericValue(5), 'Z0': "
     "NumericValue(0), 'L': AddressValue(2)}).translate()"),
    "IndexedOperand('15,Y+', MN['LDA']).translate()",
    "ExtendedIndexedOperand('[15,Y+]', MN['LDA']).translate()",
    ("IndexedOperand('15,Y+', MN['LEAX']).resolve_symbols({'V': NumericValue(5), 'Z0': NumericValue(0), 'L': "
     'AddressValue(2)}).translate()'),
    ("ExtendedIndexedOperand('[15,Y+]', MN['LDD']).resolve_symbols({'V': NumericValue(5), 'Z0': NumericValue(0), "
     "'L': AddressValue(2)}).translate()"),
    "IndexedOperand('15,Y++', MN['LDA']).translate()",
    "ExtendedIndexedOperand('[15,Y++]', MN['LDA']).translate()",
    ("IndexedOperand('15,Y++', MN['LEAX']).resolve_symbols({'V': NumericValue(5), 'Z0': NumericValue(0), 'L': "
     'AddressValue(2)}).translate()'),
    ("ExtendedIndexedOperand('[15,Y++]', MN['LDD']).resolve_symbols({'V': NumericValue(5), 'Z0': "
     "NumericValue(0), 'L': AddressValue(2)}).translate()"),
    "IndexedOperand('15,-U', MN['LDA']).translate()",
    "ExtendedIndexedOperand('[15,-U]', MN['LDA']).translate()",
    ("IndexedOperand('15,-U', MN['LEAX']).resolve_symbols({'V': NumericValue(5), 'Z0': NumericValue(0), 'L': "
     'AddressValue(2)}).translate()'),
    ("ExtendedIndexedOperand('[15,-U]', MN['LDD']).resolve_symbols({'V': NumericValue(5), 'Z0': NumericValue(0), "
     "'L': AddressValue(2)}).translate()"),
    "IndexedOperand('15,--S', MN['LDA']).translate()",
    "ExtendedIndexedOperand('[15,--S]', MN['LDA']).translate()",
    ("IndexedOperand('15,--S', MN['LEAX']).resolve_symbols({'V': NumericValue(5), 'Z0': NumericValue(0), 'L': "
     'AddressValue(2)}).translate()'),
    ("ExtendedIndexedOperand('[15,--S]', MN['LDD']).resolve_symbols({'V': NumericValue(5), 'Z0': "
     "NumericValue(0), 'L': AddressValue(2)}).translate()"),
    "IndexedOperand('15,PCR', MN['LDA']).translate()",
    "ExtendedIndexedOperand('[15,PCR]', MN['LDA']).translate()",
    ("IndexedOperand('15,PCR', MN['LEAX']).resolve_symbols({'V': NumericValue(5), 'Z0': NumericValue(0), 'L': "
     'AddressValue(2)}).translate()'),
    ("ExtendedIndexedOperand('[15,PCR]', MN['LDD']).resolve_symbols({'V': NumericValue(5), 'Z0': "
     "NumericValue(0), 'L': AddressValue(2)}).translate()"),
    "IndexedOperand('15,PC', MN['LDA']).translate()",
    "ExtendedIndexedOperand('[15,PC]', MN['LDA']).translate()",
    ("IndexedOperand('15,PC', MN['LEAX']).resolve_symbols({'V': NumericValue(5), 'Z0': NumericValue(0), 'L': "
     'AddressValue(2)}).translate()'),
    ("ExtendedIndexedOperand('[15,PC]', MN['LDD']).resolve_symbols({'V': NumericValue(5), 'Z0': NumericValue(0), "
     "'L': AddressValue(2)}).translate()"),
    "IndexedOperand('15,X-', MN['LDA']).translate()",
    "ExtendedIndexedOperand('[15,X-]', MN['LDA']).translate()",
    ("IndexedOperand('15,X-', MN['LEAX']).resolve_symbols({'V': NumericValue(5), 'Z0': NumericValue(0), 'L': "
     'AddressValue(2)}).translate()'),
    ("ExtendedIndexedOperand('[15,X-]', MN['LDD']).resolve_symbols({'V': NumericValue(5), 'Z0': NumericValue(0), "
     "'L': AddressValue(2)}).translate()"),
    "IndexedOperand('15,X--', MN['LDA']).translate()",
    "ExtendedIndexedOperand('[15,X--]', MN['LDA']).translate()",
    ("IndexedOperand('15,X--', MN['LEAX']).resolve_symbols({'V': NumericValue(5), 'Z0': NumericValue(0), 'L': "
     'AddressValue(2)}).translate()'),
    ("ExtendedIndexedOperand('[15,X--]', MN['LDD']).resolve_symbols({'V': NumericValue(5), 'Z0': "
     "NumericValue(0), 'L': AddressValue(2)}).translate()"),
    "IndexedOperand('15,+X', MN['LDA']).translate()",
    "ExtendedIndexedOperand('[15,+X]', MN['LDA']).translate()",
    ("IndexedOperand('15,+X', MN['LEAX']).resolve_symbols({'V': NumericValue(5), 'Z0': NumericValue(0), 'L': "
     'AddressValue(2)}).translate()'),
    ("ExtendedIndexedOperand('[15,+X]', MN['LDD']).resolve_symbols({'V': NumericValue(5), 'Z0': NumericValue(0), "
     "'L': AddressValue(2)}).translate()"),
    "IndexedOperand('15,++X', MN['LDA']).translate()",
    "ExtendedIndexedOperand('[15,++X]', MN['LDA']).translate()",
    ("IndexedOperand('15,++X', MN['LEAX']).resolve_symbols({'V': NumericValue(5), 'Z0': NumericValue(0), 'L': "
     'AddressValue(2)}).translate()'),
    ("ExtendedIndexedOperand('[15,++X]', MN['LDD']).resolve_symbols({'V': NumericValue(5), 'Z0': "
     "NumericValue(0), 'L': AddressValue(2)}).translate()"),
    "IndexedOperand('15,X+-', MN['LDA']).translate()",
    "ExtendedIndexedOperand('[15,X+-]', MN['LDA']).translate()",
    ("IndexedOperand('15,X+-', MN['LEAX']).resolve_symbols({'V': NumericValue(5), 'Z0': NumericValue(0), 'L': "
     'AddressValue(2)}).translate()'),
    ("ExtendedIndexedOperand('[15,X+-]', MN['LDD']).resolve_symbols({'V': NumericValue(5), 'Z0': "
     "NumericValue(0), 'L': AddressValue(2)}).translate()"),
    "IndexedOperand('15,-X+', MN['LDA']).translate()",
    "ExtendedIndexedOperand('[15,-X+]', MN['LDA']).translate()",
    ("IndexedOperand('15,-X+', MN['LEAX']).resolve_symbols({'V': NumericValue(5), 'Z0': NumericValue(0), 'L': "
     'AddressValue(2)}).translate()'),
    ("ExtendedIndexedOperand('[15,-X+]', MN['LDD']).resolve_symbols({'V': NumericValue(5), 'Z0': "
     "NumericValue(0), 'L': AddressValue(2)}).translate()"),
    "IndexedOperand('15,', MN['LDA']).translate()",
    "ExtendedIndexedOperand('[15,]', MN['LDA']).translate()",
    ("IndexedOperand('15,', MN['LEAX']).resolve_symbols({'V': NumericValue(5), 'Z0': NumericValue(0), 'L': "
     'AddressValue(2)}).translate()'),
    ("ExtendedIndexedOperand('[15,]', MN['LDD']).resolve_symbols({'V': NumericValue(5), 'Z0': NumericValue(0), "
     "'L': AddressValue(2)}).translate()"),
    "IndexedOperand('15,Q', MN['LDA']).translate()",
    "ExtendedIndexedOperand('[15,Q]', MN['LDA']).translate()",
    ("IndexedOperand('15,Q', MN['LEAX']).resolve_symbols({'V': NumericValue(5), 'Z0': NumericValue(0), 'L': "
     'AddressValue(2)}).translate()'),
    ("ExtendedIndexedOperand('[15,Q]', MN['LDD']).resolve_symbols({'V': NumericValue(5), 'Z0': NumericValue(0), "
     "'L': AddressValue(2)}).translate()"),
    "IndexedOperand('15,X++Y', MN['LDA']).translate()",
    "ExtendedIndexedOperand('[15,X++Y]', MN['LDA']).translate()",
    ("IndexedOperand('15,X++Y', MN['LEAX']).resolve_symbols({'V': NumericValue(5), 'Z0': NumericValue(0), 'L': "
     'AddressValue(2)}).translate()'),
    ("ExtendedIndexedOperand('[15,X++Y]', MN['LDD']).resolve_symbols({'V': NumericValue(5), 'Z0': "
     "NumericValue(0), 'L': AddressValue(2)}).translate()"),
    "IndexedOperand('16,X', MN['LDA']).translate()",
    "ExtendedIndexedOperand('[16,X]', MN['LDA']).translate()",
    ("IndexedOperand('16,X', MN['LEAX']).resolve_symbols({'V': NumericValue(5), 'Z0': NumericValue(0), 'L': "
     'AddressValue(2)}).translate()'),
    ("ExtendedIndexedOperand('[16,X]', MN['LDD']).resolve_symbols({'V': NumericValue(5), 'Z0': NumericValue(0), "
     "'L': AddressValue(2)}).translate()"),
    "IndexedOperand('16,Y', MN['LDA']).translate()",
    "ExtendedIndexedOperand('[16,Y]', MN['LDA']).translate()",
    ("IndexedOperand('16,Y', MN['LEAX']).resolve_symbols({'V': NumericValue(5), 'Z0': NumericValue(0), 'L': "
     'AddressValue(2)}).translate()'),
    ("ExtendedIndexedOperand('[16,Y]', MN['LDD']).resolve_symbols({'V': NumericValue(5), 'Z0': NumericValue(0), "
     "'L': AddressValue(2)}).translate()"),
    "IndexedOperand('16,U', MN['LDA']).translate()",
    "ExtendedIndexedOperand('[16,U]', MN['LDA']).translate()",
    ("IndexedOperand('16,U', MN['LEAX']).resolve_symbols({'V': NumericValue(5), 'Z0': NumericValue(0), 'L': "
     'AddressValue(2)}).translate()'),
    ("ExtendedIndexedOperand('[16,U]', MN['LDD']).resolve_symbols({'V': NumericValue(5), 'Z0': NumericValue(0), "
     "'L': AddressValue(2)}).translate()"),
    "IndexedOperand('16,S', MN['LDA']).translate()",
    "ExtendedIndexedOperand('[16,S]', MN['LDA']).translate()",
    ("IndexedOperand('16,S', MN['LEAX']).resolve_symbols({'V': NumericValue(5), 'Z0': NumericValue(0), 'L': "
     'AddressValue(2)}).translate()'),
    ("ExtendedIndexedOperand('[16,S]', MN['LDD']).resolve_symbols({'V': NumericValue(5), 'Z0': NumericValue(0), "
     "'L': AddressValue(2)}).translate()"),
    "IndexedOperand('16,X+', MN['LDA']).translate()",
    "ExtendedIndexedOperand('[16,X+]', MN['LDA']).translate()",
    ("IndexedOperand('16,X+', MN['LEAX']).resolve_symbols({'V': NumericValue(5), 'Z0': NumericValue(0), 'L': "
     'AddressValue(2)}).translate()'),
    ("ExtendedIndexedOperand('[16,X+]', MN['LDD']).resolve_symbols({'V': NumericValue(5), 'Z0': NumericValue(0), "
     "'L': AddressValue(2)}).translate()"),
    "IndexedOperand('16,X++', MN['LDA']).translate()",
    "ExtendedIndexedOperand('[16,X++]', MN['LDA']).translate()",
    ("IndexedOperand('16,X++', MN['LEAX']).resolve_symbols({'V': NumericValue(5), 'Z0': NumericValue(0), 'L': "
     'AddressValue(2)}).translate()'),
    ("ExtendedIndexedOperand('[16,X++]', MN['LDD']).resolve_symbols({'V': NumericValue(5), 'Z0': "
     "NumericValue(0), 'L': AddressValue(2)}).translate()"),
    "IndexedOperand('16,-X', MN['LDA']).translate()",
    "ExtendedIndexedOperand('[16,-X]', MN['LDA']).translate()",
    ("IndexedOperand('16,-X', MN['LEAX']).resolve_symbols({'V': NumericValue(5), 'Z0': NumericValue(0), 'L': "
     'AddressValue(2)}).translate()'),
    ("ExtendedIndexedOperand('[16,-X]', MN['LDD']).resolve_symbols({'V': NumericValue(5), 'Z0': NumericValue(0), "
     "'L': AddressValue(2)}).translate()"),
    "IndexedOperand('16,--X', MN['LDA']).translate()",
    "ExtendedIndexedOperand('[16,--X]', MN['LDA']).translate()",
    ("IndexedOperand('16,--X', MN['LEAX']).resolve_symbols({'V': NumericValue(5), 'Z0': NumericValue(0), 'L': "
     'AddressValue(2)}).translate()'),
    ("ExtendedIndexedOperand('[16,--X]', MN['LDD']).resolve_symbols({'V': NumericValue(5), 'Z0': "
     "NumericValue(0), 'L': AddressValue(2)}).translate()"),
    "IndexedOperand('16,Y+', MN['LDA']).translate()",
    "ExtendedIndexedOperand('[16,Y+]', MN['LDA']).translate()",
    ("IndexedOperand('16,Y+', MN['LEAX']).resolve_symbols({'V': NumericValue(5), 'Z0': NumericValue(0), 'L': "
     'AddressValue(2)}).translate()'),
    ("ExtendedIndexedOperand('[16,Y+]', MN['LDD']).resolve_symbols({'V': NumericValue(5), 'Z0': NumericValue(0), "
     "'L': AddressValue(2)}).translate()"),
    "IndexedOperand('16,Y++', MN['LDA']).translate()",
    "ExtendedIndexedOperand('[16,Y++]', MN['LDA']).translate()",
    ("IndexedOperand('16,Y++', MN['LEAX']).resolve_symbols({'V': NumericValue(5), 'Z0': NumericValue(0), 'L': "
     'AddressValue(2)}).translate()'),
    ("ExtendedIndexedOperand('[16,Y++]', MN['LDD']).resolve_symbols({'V': NumericValue(5), 'Z0': "
     "NumericValue(0), 'L': AddressValue(2)}).translate()"),
    "IndexedOperand('16,-U', MN['LDA']).translate()",
    "ExtendedIndexedOperand('[16,-U]', MN['LDA']).translate()",
    ("IndexedOperand('16,-U', MN['LEAX']).resolve_symbols({'V': NumericValue(5), 'Z0': NumericValue(0), 'L': "
     'AddressValue(2)}).translate()'),
    ("ExtendedIndexedOperand('[16,-U]', MN['LDD']).resolve_symbols({'V': NumericValue(5), 'Z0': NumericValue(0), "
     "'L': AddressValue(2)}).translate()"),
    "IndexedOperand('16,--S', MN['LDA']).translate()",
    "ExtendedIndexedOperand('[16,--S]', MN['LDA']).translate()",
    ("IndexedOperand('16,--S', MN['LEAX']).resolve_symbols({'V': NumericValue(5), 'Z0': NumericValue(0), 'L': "
     'AddressValue(2)}).translate()'),
    ("ExtendedIndexedOperand('[16,--S]', MN['LDD']).resolve_symbols({'V': NumericValue(5), 'Z0': "
     "NumericValue(0), 'L': AddressValue(2)}).translate()"),
    "IndexedOperand('16,PCR', MN['LDA']).translate()",
    "ExtendedIndexedOperand('[16,PCR]', MN['LDA']).translate()",
    ("IndexedOperand('16,PCR', MN['LEAX']).resolve_symbols({'V': NumericValue(5), 'Z0': NumericValue(0), 'L': "
     'AddressValue(2)}).translate()'),
    ("ExtendedIndexedOperand('[16,PCR]', MN['LDD']).resolve_symbols({'V': NumericValue(5), 'Z0': "
     "NumericValue(0), 'L': AddressValue(2)}).translate()"),
    "IndexedOperand('16,PC', MN['LDA']).translate()",
    "ExtendedIndexedOperand('[16,PC]', MN['LDA']).translate()",
    ("IndexedOperand('16,PC', MN['LEAX']).resolve_symbols({'V': NumericValue(5), 'Z0': NumericValue(0), 'L': "
     'AddressValue(2)}).translate()'),
    ("ExtendedIndexedOperand('[16,PC]', MN['LDD']).resolve_symbols({'V': NumericValue(5), 'Z0': NumericValue(0), "
     "'L': AddressValue(2)}).translate()"),
    "IndexedOperand('16,X-', MN['LDA']).translate()",
    "ExtendedIndexedOperand('[16,X-]', MN['LDA']).translate()",
    ("IndexedOperand('16,X-', MN['LEAX']).resolve_symbols({'V': NumericValue(5), 'Z0': NumericValue(0), 'L': "
     'AddressValue(2)}).translate()'),
    ("ExtendedIndexedOperand('[16,X-]', MN['LDD']).resolve_symbols({'V': NumericValue(5), 'Z0': NumericValue(0), "
     "'L': AddressValue(2)}).translate()"),
    "IndexedOperand('16,X--', MN['LDA']).translate()",
    "ExtendedIndexedOperand('[16,X--]', MN['LDA']).translate()",
    ("IndexedOperand('16,X--', MN['LEAX']).resolve_symbols({'V': NumericValue(5), 'Z0': NumericValue(0), 'L': "
     'AddressValue(2)}).translate()'),
    ("ExtendedIndexedOperand('[16,X--]', MN['LDD']).resolve_symbols({'V': NumericValue(5), 'Z0': "
     "NumericValue(0), 'L': AddressValue(2)}).translate()"),
    "IndexedOperand('16,+X', MN['LDA']).translate()",
    "ExtendedIndexedOperand('[16,+X]', MN['LDA']).translate()",
    ("IndexedOperand('16,+X', MN['LEAX']).resolve_symbols({'V': NumericValue(5), 'Z0': NumericValue(0), 'L': "
     'AddressValue(2)}).translate()'),
    ("ExtendedIndexedOperand('[16,+X]', MN['LDD']).resolve_symbols({'V': NumericValue(5), 'Z0': NumericValue(0), "
     "'L': AddressValue(2)}).translate()"),
    "IndexedOperand('16,++X', MN['LDA']).translate()",
    "ExtendedIndexedOperand('[16,++X]', MN['LDA']).translate()",
    ("IndexedOperand('16,++X', MN['LEAX']).resolve_symbols({'V': NumericValue(5), 'Z0': NumericValue(0), 'L': "
     'AddressValue(2)}).translate()'),
    ("ExtendedIndexedOperand('[16,++X]', MN['LDD']).resolve_symbols({'V': NumericValue(5), 'Z0': "
     "NumericValue(0), 'L': AddressValue(2)}).translate()"),
    "IndexedOperand('16,X+-', MN['LDA']).translate()",
    "ExtendedIndexedOperand('[16,X+-]', MN['LDA']).translate()",
    ("IndexedOperand('16,X+-', MN['LEAX']).resolve_symbols({'V': NumericValue(5), 'Z0': NumericValue(0), 'L': "
     'AddressValue(2)}).translate()'),
    ("ExtendedIndexedOperand('[16,X+-]', MN['LDD']).resolve_symbols({'V': NumericValue(5), 'Z0': "
     "NumericValue(0), 'L': AddressValue(2)}).translate()"),
    "IndexedOperand('16,-X+', MN['LDA']).translate()",
    "ExtendedIndexedOperand('[16,-X+]', MN['LDA']).translate()",
    ("IndexedOperand('16,-X+', MN['LEAX']).resolve_symbols({'V': NumericValue(5), 'Z0': NumericValue(0), 'L': "
     'AddressValue(2)}).translate()'),
    ("ExtendedIndexedOperand('[16,-X+]', MN['LDD']).resolve_symbols({'V': NumericValue(5), 'Z0': "
     "NumericValue(0), 'L': AddressValue(2)}).translate()"),
    "IndexedOperand('16,', MN['LDA']).translate()",
    "ExtendedIndexedOperand('[16,]', MN['LDA']).translate()",
    ("IndexedOperand('16,', MN['LEAX']).resolve_symbols({'V': NumericValue(5), 'Z0': NumericValue(0), 'L': "
     'AddressValue(2)}).translate()'),
    ("ExtendedIndexedOperand('[16,]', MN['LDD']).resolve_symbols({'V': NumericValue(5), 'Z0': NumericValue(0), "
     "'L': AddressValue(2)}).translate()"),
    "IndexedOperand('16,Q', MN['LDA']).translate()",
    "ExtendedIndexedOperand('[16,Q]', MN['LDA']).translate()",
    ("IndexedOperand('16,Q', MN['LEAX']).resolve_symbols({'V': NumericValue(5), 'Z0': NumericValue(0), 'L': "
     'AddressValue(2)}).translate()'),
    ("ExtendedIndexedOperand('[16,Q]', MN['LDD']).resolve_symbols({'V': NumericValue(5), 'Z0': NumericValue(0), "
     "'L': AddressValue(2)}).translate()"),
    "IndexedOperand('16,X++Y', MN['LDA']).translate()",
    "ExtendedIndexedOperand('[16,X++Y]', MN['LDA']).translate()",
    ("IndexedOperand('16,X++Y', MN['LEAX']).resolve_symbols({'V': NumericValue(5), 'Z0': NumericValue(0), 'L': "
     'AddressValue(2)}).translate()'),
    ("ExtendedIndexedOperand('[16,X++Y]', MN['LDD']).resolve_symbols({'V': NumericValue(5), 'Z0': "
     "NumericValue(0), 'L': AddressValue(2)}).translate()"),
    "IndexedOperand('-16,X', MN['LDA']).translate()",
    "ExtendedIndexedOperand('[-16,X]', MN['LDA']).translate()",
    ("IndexedOperand('-16,X', MN['LEAX']).resolve_symbols({'V': NumericValue(5), 'Z0': NumericValue(0), 'L': "
     'AddressValue(2)}).translate()'),
    ("ExtendedIndexedOperand('[-16,X]', MN['LDD']).resolve_symbols({'V': NumericValue(5), 'Z0': NumericValue(0), "
     "'L': AddressValue(2)}).translate()"),
    "IndexedOperand('-16,Y', MN['LDA']).translate()",
    "ExtendedIndexedOperand('[-16,Y]', MN['LDA']).translate()",
    ("IndexedOperand('-16,Y', MN['LEAX']).resolve_symbols({'V': NumericValue(5), 'Z0': NumericValue(0), 'L': "
     'AddressValue(2)}).translate()'),
    ("ExtendedIndexedOperand('[-16,Y]', MN['LDD']).resolve_symbols({'V': NumericValue(5), 'Z0': NumericValue(0), "
     "'L': AddressValue(2)}).translate()"),
    "IndexedOperand('-16,U', MN['LDA']).translate()",
    "ExtendedIndexedOperand('[-16,U]', MN['LDA']).translate()",
    ("IndexedOperand('-16,U', MN['LEAX']).resolve_symbols({'V': NumericValue(5), 'Z0': NumericValue(0), 'L': "
     'AddressValue(2)}).translate()'),
    ("ExtendedIndexedOperand('[-16,U]', MN['LDD']).resolve_symbols({'V': NumericValue(5), 'Z0': NumericValue(0), "
     "'L': AddressValue(2)}).translate()"),
    "IndexedOperand('-16,S', MN['LDA']).translate()",
    "ExtendedIndexedOperand('[-16,S]', MN['LDA']).translate()",
    ("IndexedOperand('-16,S', MN['LEAX']).resolve_symbols({'V': NumericValue(5), 'Z0': NumericValue(0), 'L': "
     'AddressValue(2)}).translate()'),
    ("ExtendedIndexedOperand('[-16,S]', MN['LDD']).resolve_symbols({'V': NumericValue(5), 'Z0': NumericValue(0), "
     "'L': AddressValue(2)}).translate()"),
    "IndexedOperand('-16,X+', MN['LDA']).translate()",
    "ExtendedIndexedOperand('[-16,X+]', MN['LDA']).translate()",
    ("IndexedOperand('-16,X+', MN['LEAX']).resolve_symbols({'V': NumericValue(5), 'Z0': NumericValue(0), 'L': "
     'AddressValue(2)}).translate()'),
    ("ExtendedIndexedOperand('[-16,X+]', MN['LDD']).resolve_symbols({'V': NumericValue(5), 'Z0': "
     "NumericValue(0), 'L': AddressValue(2)}).translate()"),
    "IndexedOperand('-16,X++', MN['LDA']).translate()",
    "ExtendedIndexedOperand('[-16,X++]', MN['LDA']).translate()",
    ("IndexedOperand('-16,X++', MN['LEAX']).resolve_symbols({'V': NumericValue(5), 'Z0': NumericValue(0), 'L': "
     'AddressValue(2)}).translate()'),
    ("ExtendedIndexedOperand('[-16,X++]', MN['LDD']).resolve_symbols({'V': NumericValue(5), 'Z0': "
     "NumericValue(0), 'L': AddressValue(2)}).translate()"),
    "IndexedOperand('-16,-X', MN['LDA']).translate()",
    "ExtendedIndexedOperand('[-16,-X]', MN['LDA']).translate()",
    ("IndexedOperand('-16,-X', MN['LEAX']).resolve_symbols({'V': NumericValue(5), 'Z0': NumericValue(0), 'L': "
     'AddressValue(2)}).translate()'),
    ("ExtendedIndexedOperand('[-16,-X]', MN['LDD']).resolve_symbols({'V': NumericValue(5), 'Z0': "
     "NumericValue(0), 'L': AddressValue(2)}).translate()"),
    "IndexedOperand('-16,--X', MN['LDA']).translate()",
    "ExtendedIndexedOperand('[-16,--X]', MN['LDA']).translate()",
    ("IndexedOperand('-16,--X', MN['LEAX']).resolve_symbols({'V': NumericValue(5), 'Z0': NumericValue(0), 'L': "
     'AddressValue(2)}).translate()'),
    ("ExtendedIndexedOperand('[-16,--X]', MN['LDD']).resolve_symbols({'V': NumericValue(5), 'Z0': "
     "NumericValue(0), 'L': AddressValue(2)}).translate()"),
    "IndexedOperand('-16,Y+', MN['LDA']).translate()",
    "ExtendedIndexedOperand('[-16,Y+]', MN['LDA']).translate()",
    ("IndexedOperand('-16,Y+', MN['LEAX']).resolve_symbols({'V': NumericValue(5), 'Z0': NumericValue(0), 'L': "
     'AddressValue(2)}).translate()'),
    ("ExtendedIndexedOperand('[-16,Y+]', MN['LDD']).resolve_symbols({'V': NumericValue(5), 'Z0': "
     "NumericValue(0), 'L': AddressValue(2)}).translate()"),
    "IndexedOperand('-16,Y++', MN['LDA']).translate()",
    "ExtendedIndexedOperand('[-16,Y++]', MN['LDA']).translate()",
    ("IndexedOperand('-16,Y++', MN['LEAX']).resolve_symbols({'V': NumericValue(5), 'Z0': NumericValue(0), 'L': "
     'AddressValue(2)}).translate()'),
    ("ExtendedIndexedOperand('[-16,Y++]', MN['LDD']).resolve_symbols({'V': NumericValue(5), 'Z0': "
     "NumericValue(0), 'L': AddressValue(2)}).translate()"),
    "IndexedOperand('-16,-U', MN['LDA']).translate()",
    "ExtendedIndexedOperand('[-16,-U]', MN['LDA']).translate()",
    ("IndexedOperand('-16,-U', MN['LEAX']).resolve_symbols({'V': NumericValue(5), 'Z0': NumericValue(0), 'L': "
     'AddressValue(2)}).translate()'),
    ("ExtendedIndexedOperand('[-16,-U]', MN['LDD']).resolve_symbols({'V': NumericValue(5), 'Z0': "
     "NumericValue(0), 'L': AddressValue(2)}).translate()"),
    "IndexedOperand('-16,--S', MN['LDA']).translate()",
    "ExtendedIndexedOperand('[-16,--S]', MN['LDA']).translate()",
    ("IndexedOperand('-16,--S', MN['LEAX']).resolve_symbols({'V': NumericValue(5), 'Z0': NumericValue(0), 'L': "
     'AddressValue(2)}).translate()'),
    ("ExtendedIndexedOperand('[-16,--S]', MN['LDD']).resolve_symbols({'V': NumericValue(5), 'Z0': "
     "NumericValue(0), 'L': AddressValue(2)}).translate()"),
    "IndexedOperand('-16,PCR', MN['LDA']).translate()",
    "ExtendedIndexedOperand('[-16,PCR]', MN['LDA']).translate()",
    ("IndexedOperand('-16,PCR', MN['LEAX']).resolve_symbols({'V': NumericValue(5), 'Z0': NumericValue(0), 'L': "
     'AddressValue(2)}).translate()'),
    ("ExtendedIndexedOperand('[-16,PCR]', MN['LDD']).resolve_symbols({'V': NumericValue(5), 'Z0': "
     "NumericValue(0), 'L': AddressValue(2)}).translate()"),
    "IndexedOperand('-16,PC', MN['LDA']).translate()",
    "ExtendedIndexedOperand('[-16,PC]', MN['LDA']).translate()",
    ("IndexedOperand('-16,PC', MN['LEAX']).resolve_symbols({'V': NumericValue(5), 'Z0': NumericValue(0), 'L': "
     'AddressValue(2)}).translate()'),
    ("ExtendedIndexedOperand('[-16,PC]', MN['LDD']).resolve_symbols({'V': NumericValue(5), 'Z0': "
     "NumericValue(0), 'L': AddressValue(2)}).translate()"),
    "IndexedOperand('-16,X-', MN['LDA']).translate()",
    "ExtendedIndexedOperand('[-16,X-]', MN['LDA']).translate()",
    ("IndexedOperand('-16,X-', MN['LEAX']).resolve_symbols({'V': NumericValue(5), 'Z0': NumericValue(0), 'L': "
     'AddressValue(2)}).translate()'),
    ("ExtendedIndexedOperand('[-16,X-]', MN['LDD']).resolve_symbols({'V': NumericValue(5), 'Z0': "
     "NumericValue(0), 'L': AddressValue(2)}).translate()"),
    "IndexedOperand('-16,X--', MN['LDA']).translate()",
    "ExtendedIndexedOperand('[-16,X--]', MN['LDA']).translate()",
    ("IndexedOperand('-16,X--', MN['LEAX']).resolve_symbols({'V': NumericValue(5), 'Z0': NumericValue(0), 'L': "
     'AddressValue(2)}).translate()'),
    ("ExtendedIndexedOperand('[-16,X--]', MN['LDD']).resolve_symbols({'V': NumericValue(5), 'Z0': "
     "NumericValue(0), 'L': AddressValue(2)}).translate()"),
    "IndexedOperand('-16,+X', MN['LDA']).translate()",
    "ExtendedIndexedOperand('[-16,+X]', MN['LDA']).translate()",
    ("IndexedOperand('-16,+X', MN['LEAX']).resolve_symbols({'V': NumericValue(5), 'Z0': NumericValue(0), 'L': "
     'AddressValue(2)}).translate()'),
    ("ExtendedIndexedOperand('[-16,+X]', MN['LDD']).resolve_symbols({'V': NumericValue(5), 'Z0': "
     "NumericValue(0), 'L': AddressValue(2)}).translate()"),
    "IndexedOperand('-16,++X', MN['LDA']).translate()",
    "ExtendedIndexedOperand('[-16,++X]', MN['LDA']).translate()",
    ("IndexedOperand('-16,++X', MN['LEAX']).resolve_symbols({'V': NumericValue(5), 'Z0': NumericValue(0), 'L': "
     'AddressValue(2)}).translate()'),
    ("ExtendedIndexedOperand('[-16,++X]', MN['LDD']).resolve_symbols({'V': NumericValue(5), 'Z0': "
     "NumericValue(0), 'L': AddressValue(2)}).translate()"),
    "IndexedOperand('-16,X+-', MN['LDA']).translate()",
    "ExtendedIndexedOperand('[-16,X+-]', MN['LDA']).translate()",
    ("IndexedOperand('-16,X+-', MN['LEAX']).resolve_symbols({'V': NumericValue(5), 'Z0': NumericValue(0), 'L': "
     'AddressValue(2)}).translate()'),
    ("ExtendedIndexedOperand('[-16,X+-]', MN['LDD']).resolve_symbols({'V': NumericValue(5), 'Z0': "
     "NumericValue(0), 'L': AddressValue(2)}).translate()"),
    "IndexedOperand('-16,-X+', MN['LDA']).translate()",
    "ExtendedIndexedOperand('[-16,-X+]', MN['LDA']).translate()",
    ("IndexedOperand('-16,-X+', MN['LEAX']).resolve_symbols({'V': NumericValue(5), 'Z0': NumericValue(0), 'L': "
     'AddressValue(2)}).translate()'),
    ("ExtendedIndexedOperand('[-16,-X+]', MN['LDD']).resolve_symbols({'V': NumericValue(5), 'Z0': "
     "NumericValue(0), 'L': AddressValue(2)}).translate()"),
    "IndexedOperand('-16,', MN['LDA']).translate()",
    "ExtendedIndexedOperand('[-16,]', MN['LDA']).translate()",
    ("IndexedOperand('-16,', MN['LEAX']).resolve_symbols({'V': NumericValue(5), 'Z0': NumericValue(0), 'L': "
     'AddressValue(2)}).translate()'),
    ("ExtendedIndexedOperand('[-16,]', MN['LDD']).resolve_symbols({'V': NumericValue(5), 'Z0': NumericValue(0), "
     "'L': AddressValue(2)}).translate()"),
    "IndexedOperand('-16,Q', MN['LDA']).translate()",
    "ExtendedIndexedOperand('[-16,Q]', MN['LDA']).translate()",
    ("IndexedOperand('-16,Q', MN['LEAX']).resolve_symbols({'V': NumericValue(5), 'Z0': NumericValue(0), 'L': "
     'AddressValue(2)}).translate()'),
    ("ExtendedIndexedOperand('[-16,Q]', MN['LDD']).resolve_symbols({'V': NumericValue(5), 'Z0': NumericValue(0), "
     "'L': AddressValue(2)}).translate()"),
    "IndexedOperand('-16,X++Y', MN['LDA']).translate()",
    "ExtendedIndexedOperand('[-16,X++Y]', MN['LDA']).translate()",
    ("IndexedOperand('-16,X++Y', MN['LEAX']).resolve_symbols({'V': NumericValue(5), 'Z0': NumericValue(0), 'L': "
     'AddressValue(2)}).translate()'),
    ("ExtendedIndexedOperand('[-16,X++Y]', MN['LDD']).resolve_symbols({'V': NumericValue(5), 'Z0': "
     "NumericValue(0), 'L': AddressValue(2)}).translate()"),
    "IndexedOperand('-17,X', MN['LDA']).translate()",
    "ExtendedIndexedOperand('[-17,X]', MN['LDA']).translate()",
    ("IndexedOperand('-17,X', MN['LEAX']).resolve_symbols({'V': NumericValue(5), 'Z0': NumericValue(0), 'L': "
     'AddressValue(2)}).translate()'),
    ("ExtendedIndexedOperand('[-17,X]', MN['LDD']).resolve_symbols({'V': NumericValue(5), 'Z0': NumericValue(0), "
     "'L': AddressValue(2)}).translate()"),
    "IndexedOperand('-17,Y', MN['LDA']).translate()",
    "ExtendedIndexedOperand('[-17,Y]', MN['LDA']).translate()",
    ("IndexedOperand('-17,Y', MN['LEAX']).resolve_symbols({'V': NumericValue(5), 'Z0': NumericValue(0), 'L': "
     'AddressValue(2)}).translate()'),
    ("ExtendedIndexedOperand('[-17,Y]', MN['LDD']).resolve_symbols({'V': NumericValue(5), 'Z0': NumericValue(0), "
     "'L': AddressValue(2)}).translate()"),
    "IndexedOperand('-17,U', MN['LDA']).translate()",
    "ExtendedIndexedOperand('[-17,U]', MN['LDA']).translate()",
    ("IndexedOperand('-17,U', MN['LEAX']).resolve_symbols({'V': NumericValue(5), 'Z0': NumericValue(0), 'L': "
     'AddressValue(2)}).translate()'),
    ("ExtendedIndexedOperand('[-17,U]', MN['LDD']).resolve_symbols({'V': NumericValue(5), 'Z0': NumericValue(0), "
     "'L': AddressValue(2)}).translate()"),
    "IndexedOperand('-17,S', MN['LDA']).translate()",
    "ExtendedIndexedOperand('[-17,S]', MN['LDA']).translate()",
    ("IndexedOperand('-17,S', MN['LEAX']).resolve_symbols({'V': NumericValue(5), 'Z0': NumericValue(0), 'L': "
     'AddressValue(2)}).translate()'),
    ("ExtendedIndexedOperand('[-17,S]', MN['LDD']).resolve_symbols({'V': NumericValue(5), 'Z0': NumericValue(0), "
     "'L': AddressValue(2)}).translate()"),
    "IndexedOperand('-17,X+', MN['LDA']).translate()",
    "ExtendedIndexedOperand('[-17,X+]', MN['LDA']).translate()",
    ("IndexedOperand('-17,X+', MN['LEAX']).resolve_symbols({'V': NumericValue(5), 'Z0': NumericValue(0), 'L': "
     'AddressValue(2)}).translate()'),
    ("ExtendedIndexedOperand('[-17,X+]', MN['LDD']).resolve_symbols({'V': NumericValue(5), 'Z0': "
     "NumericValue(0), 'L': AddressValue(2)}).translate()"),
    "IndexedOperand('-17,X++', MN['LDA']).translate()",
    "ExtendedIndexedOperand('[-17,X++]', MN['LDA']).translate()",
    ("IndexedOperand('-17,X++', MN['LEAX']).resolve_symbols({'V': NumericValue(5), 'Z0': NumericValue(0), 'L': "
     'AddressValue(2)}).translate()'),
    ("ExtendedIndexedOperand('[-17,X++]', MN['LDD']).resolve_symbols({'V': NumericValue(5), 'Z0': "
     "NumericValue(0), 'L': AddressValue(2)}).translate()"),
    "IndexedOperand('-17,-X', MN['LDA']).translate()",
    "ExtendedIndexedOperand('[-17,-X]', MN['LDA']).translate()",
    ("IndexedOperand('-17,-X', MN['LEAX']).resolve_symbols({'V': NumericValue(5), 'Z0': NumericValue(0), 'L': "
     'AddressValue(2)}).translate()'),
    ("ExtendedIndexedOperand('[-17,-X]', MN['LDD']).resolve_symbols({'V': NumericValue(5), 'Z0': "
     "NumericValue(0), 'L': AddressValue(2)}).translate()"),
    "IndexedOperand('-17,--X', MN['LDA']).translate()",
    "ExtendedIndexedOperand('[-17,--X]', MN['LDA']).translate()",
    ("IndexedOperand('-17,--X', MN['LEAX']).resolve_symbols({'V': NumericValue(5), 'Z0': NumericValue(0), 'L': "
     'AddressValue(2)}).translate()'),
    ("ExtendedIndexedOperand('[-17,--X]', MN['LDD']).resolve_symbols({'V': NumericValue(5), 'Z0': "
     "NumericValue(0), 'L': AddressValue(2)}).translate()"),
    "IndexedOperand('-17,Y+', MN['LDA']).translate()",
    "ExtendedIndexedOperand('[-17,Y+]', MN['LDA']).translate()",
    ("IndexedOperand('-17,Y+', MN['LEAX']).resolve_symbols({'V': NumericValue(5), 'Z0': NumericValue(0), 'L': "
     'AddressValue(2)}).translate()'),
    ("ExtendedIndexedOperand('[-17,Y+]', MN['LDD']).resolve_symbols({'V': NumericValue(5), 'Z0': "
     "NumericValue(0), 'L': AddressValue(2)}).translate()"),
    "IndexedOperand('-17,Y++', MN['LDA']).translate()",
    "ExtendedIndexedOperand('[-17,Y++]', MN['LDA']).translate()",
    ("IndexedOperand('-17,Y++', MN['LEAX']).resolve_symbols({'V': NumericValue(5), 'Z0': NumericValue(0), 'L': "
     'AddressValue(2)}).translate()'),
    ("ExtendedIndexedOperand('[-17,Y++]', MN['LDD']).resolve_symbols({'V': NumericValue(5), 'Z0': "
     "NumericValue(0), 'L': AddressValue(2)}).translate()"),
    "IndexedOperand('-17,-U', MN['LDA']).translate()",
    "ExtendedIndexedOperand('[-17,-U]', MN['LDA']).translate()",
    ("IndexedOperand('-17,-U', MN['LEAX']).resolve_symbols({'V': NumericValue(5), 'Z0': NumericValue(0), 'L': "
     'AddressValue(2)}).translate()'),
    ("ExtendedIndexedOperand('[-17,-U]', MN['LDD']).resolve_symbols({'V': NumericValue(5), 'Z0': "
     "NumericValue(0), 'L': AddressValue(2)}).translate()"),
    "IndexedOperand('-17,--S', MN['LDA']).translate()",
    "ExtendedIndexedOperand('[-17,--S]', MN['LDA']).translate()",
    ("IndexedOperand('-17,--S', MN['LEAX']).resolve_symbols({'V': NumericValue(5), 'Z0': NumericValue(0), 'L': "
     'AddressValue(2)}).translate()'),
    ("ExtendedIndexedOperand('[-17,--S]', MN['LDD']).resolve_symbols({'V': NumericValue(5), 'Z0': "
     "NumericValue(0), 'L': AddressValue(2)}).translate()"),
    "IndexedOperand('-17,PCR', MN['LDA']).translate()",
    "ExtendedIndexedOperand('[-17,PCR]', MN['LDA']).translate()",
    ("IndexedOperand('-17,PCR', MN['LEAX']).resolve_symbols({'V': NumericValue(5), 'Z0': NumericValue(0), 'L': "
     'AddressValue(2)}).translate()'),
    ("ExtendedIndexedOperand('[-17,PCR]', MN['LDD']).resolve_symbols({'V': NumericValue(5), 'Z0': "
     "NumericValue(0), 'L': AddressValue(2)}).translate()"),
    "IndexedOperand('-17,PC', MN['LDA']).translate()",
    "ExtendedIndexedOperand('[-17,PC]', MN['LDA']).translate()",
    ("IndexedOperand('-17,PC', MN['LEAX']).resolve_symbols({'V': NumericValue(5), 'Z0': NumericValue(0), 'L': "
     'AddressValue(2)}).translate()'),
    ("ExtendedIndexedOperand('[-17,PC]', MN['LDD']).resolve_symbols({'V': NumericValue(5), 'Z0': "
     "NumericValue(0), 'L': AddressValue(2)}).translate()"),
    "IndexedOperand('-17,X-', MN['LDA']).translate()",
    "ExtendedIndexedOperand('[-17,X-]', MN['LDA']).translate()",
    ("IndexedOperand('-17,X-', MN['LEAX']).resolve_symbols({'V': NumericValue(5), 'Z0': NumericValue(0), 'L': "
     'AddressValue(2)}).translate()'),
    ("ExtendedIndexedOperand('[-17,X-]', MN['LDD']).resolve_symbols({'V': NumericValue(5), 'Z0': "
     "NumericValue(0), 'L': AddressValue(2)}).translate()"),
    "IndexedOperand('-17,X--', MN['LDA']).translate()",
    "ExtendedIndexedOperand('[-17,X--]', MN['LDA']).translate()",
    ("IndexedOperand('-17,X--', MN['LEAX']).resolve_symbols({'V': NumericValue(5), 'Z0': NumericValue(0), 'L': "
     'AddressValue(2)}).translate()'),
    ("ExtendedIndexedOperand('[-17,X--]', MN['LDD']).resolve_symbols({'V': NumericValue(5), 'Z0': "
     "NumericValue(0), 'L': AddressValue(2)}).translate()"),
    "IndexedOperand('-17,+X', MN['LDA']).translate()",
    "ExtendedIndexedOperand('[-17,+X]', MN['LDA']).translate()",
    ("IndexedOperand('-17,+X', MN['LEAX']).resolve_symbols({'V': NumericValue(5), 'Z0': NumericValue(0), 'L': "
     'AddressValue(2)}).translate()'),
    ("ExtendedIndexedOperand('[-17,+X]', MN['LDD']).resolve_symbols({'V': NumericValue(5), 'Z0': "
     "NumericValue(0), 'L': AddressValue(2)}).translate()"),
    "IndexedOperand('-17,++X', MN['LDA']).translate()",
    "ExtendedIndexedOperand('[-17,++X]', MN['LDA']).translate()",
    ("IndexedOperand('-17,++X', MN['LEAX']).resolve_symbols({'V': NumericValue(5), 'Z0': NumericValue(0), 'L': "
     'AddressValue(2)}).translate()'),
    ("ExtendedIndexedOperand('[-17,++X]', MN['LDD']).resolve_symbols({'V': NumericValue(5), 'Z0': "
     "NumericValue(0), 'L': AddressValue(2)}).translate()"),
    "IndexedOperand('-17,X+-', MN['LDA']).translate()",
    "ExtendedIndexedOperand('[-17,X+-]', MN['LDA']).translate()",
    ("IndexedOperand('-17,X+-', MN['LEAX']).resolve_symbols({'V': NumericValue(5), 'Z0': NumericValue(0), 'L': "
     'AddressValue(2)}).translate()'),
    ("ExtendedIndexedOperand('[-17,X+-]', MN['LDD']).resolve_symbols({'V': NumericValue(5), 'Z0': "
     "NumericValue(0), 'L': AddressValue(2)}).translate()"),
    "IndexedOperand('-17,-X+', MN['LDA']).translate()",
    "ExtendedIndexedOperand('[-17,-X+]', MN['LDA']).translate()",
    ("IndexedOperand('-17,-X+', MN['LEAX']).resolve_symbols({'V': NumericValue(5), 'Z0': NumericValue(0), 'L': "
     'AddressValue(2)}).translate()'),
    ("ExtendedIndexedOperand('[-17,-X+]', MN['LDD']).resolve_symbols({'V': NumericValue(5), 'Z0': "
     "NumericValue(0), 'L': AddressValue(2)}).translate()"),
    "IndexedOperand('-17,', MN['LDA']).translate()",
    "ExtendedIndexedOperand('[-17,]', MN['LDA']).translate()",
    ("IndexedOperand('-17,', MN['LEAX']).resolve_symbols({'V': NumericValue(5), 'Z0': NumericValue(0), 'L': "
     'AddressValue(2)}).translate()'),
    ("ExtendedIndexedOperand('[-17,]', MN['LDD']).resolve_symbols({'V': NumericValue(5), 'Z0': NumericValue(0), "
     "'L': AddressValue(2)}).translate()"),
    "IndexedOperand('-17,Q', MN['LDA']).translate()",
    "ExtendedIndexedOperand('[-17,Q]', MN['LDA']).translate()",
    ("IndexedOperand('-17,Q', MN['LEAX']).resolve_symbols({'V': NumericValue(5), 'Z0': NumericValue(0), 'L': "
     'AddressValue(2)}).translate()'),
    ("ExtendedIndexedOperand('[-17,Q]', MN['LDD']).resolve_symbols({'V': NumericValue(5), 'Z0': NumericValue(0), "
     "'L': AddressValue(2)}).translate()"),
    "IndexedOperand('-17,X++Y', MN['LDA']).translate()",
    "ExtendedIndexedOperand('[-17,X++Y]', MN['LDA']).translate()",
    ("IndexedOperand('-17,X++Y', MN['LEAX']).resolve_symbols({'V': NumericValue(5), 'Z0': NumericValue(0), 'L': "
     'AddressValue(2)}).translate()'),
    ("ExtendedIndexedOperand('[-17,X++Y]', MN['LDD']).resolve_symbols({'V': NumericValue(5), 'Z0': "
     "NumericValue(0), 'L': AddressValue(2)}).translate()"),
    "IndexedOperand('127,X', MN['LDA']).translate()",
    "ExtendedIndexedOperand('[127,X]', MN['LDA']).translate()",
    ("IndexedOperand('127,X', MN['LEAX']).resolve_symbols({'V': NumericValue(5), 'Z0': NumericValue(0), 'L': "
     'AddressValue(2)}).translate()'),
    ("ExtendedIndexedOperand('[127,X]', MN['LDD']).resolve_symbols({'V': NumericValue(5), 'Z0': NumericValue(0), "
     "'L': AddressValue(2)}).translate()"),
    "IndexedOperand('127,Y', MN['LDA']).translate()",
    "ExtendedIndexedOperand('[127,Y]', MN['LDA']).translate()",
    ("IndexedOperand('127,Y', MN['LEAX']).resolve_symbols({'V': NumericValue(5), 'Z0': NumericValue(0), 'L': "
     'AddressValue(2)}).translate()'),
    ("ExtendedIndexedOperand('[127,Y]', MN['LDD']).resolve_symbols({'V': NumericValue(5), 'Z0': NumericValue(0), "
     "'L': AddressValue(2)}).translate()"),
    "IndexedOperand('127,U', MN['LDA']).translate()",
    "ExtendedIndexedOperand('[127,U]', MN['LDA']).translate()",
    ("IndexedOperand('127,U', MN['LEAX']).resolve_symbols({'V': NumericValue(5), 'Z0': NumericValue(0), 'L': "
     'AddressValue(2)}).translate()'),
    ("ExtendedIndexedOperand('[127,U]', MN['LDD']).resolve_symbols({'V': NumericValue(5), 'Z0': NumericValue(0), "
     "'L': AddressValue(2)}).translate()"),
    "IndexedOperand('127,S', MN['LDA']).translate()",
    "ExtendedIndexedOperand('[127,S]', MN['LDA']).translate()",
    ("IndexedOperand('127,S', MN['LEAX']).resolve_symbols({'V': NumericValue(5), 'Z0': NumericValue(0), 'L': "
     'AddressValue(2)}).translate()'),
    ("ExtendedIndexedOperand('[127,S]', MN['LDD']).resolve_symbols({'V': NumericValue(5), 'Z0': NumericValue(0), "
     "'L': AddressValue(2)}).translate()"),
    "IndexedOperand('127,X+', MN['LDA']).translate()",
    "ExtendedIndexedOperand('[127,X+]', MN['LDA']).translate()",
    ("IndexedOperand('127,X+', MN['LEAX']).resolve_symbols({'V': NumericValue(5), 'Z0': NumericValue(0), 'L': "
     'AddressValue(2)}).translate()'),
    ("ExtendedIndexedOperand('[127,X+]', MN['LDD']).resolve_symbols({'V': NumericValue(5), 'Z0': "
     "NumericValue(0), 'L': AddressValue(2)}).translate()"),
    "IndexedOperand('127,X++', MN['LDA']).translate()",
    "ExtendedIndexedOperand('[127,X++]', MN['LDA']).translate()",
    ("IndexedOperand('127,X++', MN['LEAX']).resolve_symbols({'V': NumericValue(5), 'Z0': NumericValue(0), 'L': "
     'AddressValue(2)}).translate()'),
    ("ExtendedIndexedOperand('[127,X++]', MN['LDD']).resolve_symbols({'V': NumericValue(5), 'Z0': "
     "NumericValue(0), 'L': AddressValue(2)}).translate()"),
    "IndexedOperand('127,-X', MN['LDA']).translate()",
    "ExtendedIndexedOperand('[127,-X]', MN['LDA']).translate()",
    ("IndexedOperand('127,-X', MN['LEAX']).resolve_symbols({'V': NumericValue(5), 'Z0': NumericValue(0), 'L': "
     'AddressValue(2)}).translate()'),
    ("ExtendedIndexedOperand('[127,-X]', MN['LDD']).resolve_symbols({'V': NumericValue(5), 'Z0': "
     "NumericValue(0), 'L': AddressValue(2)}).translate()"),
    "IndexedOperand('127,--X', MN['LDA']).translate()",
    "ExtendedIndexedOperand('[127,--X]', MN['LDA']).translate()",
    ("IndexedOperand('127,--X', MN['LEAX']).resolve_symbols({'V': NumericValue(5), 'Z0': NumericValue(0), 'L': "
     'AddressValue(2)}).translate()'),
    ("ExtendedIndexedOperand('[127,--X]', MN['LDD']).resolve_symbols({'V': NumericValue(5), 'Z0': "
     "NumericValue(0), 'L': AddressValue(2)}).translate()"),
    "IndexedOperand('127,Y+', MN['LDA']).translate()",
    "ExtendedIndexedOperand('[127,Y+]', MN['LDA']).translate()",
    ("IndexedOperand('127,Y+', MN['LEAX']).resolve_symbols({'V': NumericValue(5), 'Z0': NumericValue(0), 'L': "
     'AddressValue(2)}).translate()'),
    ("ExtendedIndexedOperand('[127,Y+]', MN['LDD']).resolve_symbols({'V': NumericValue(5), 'Z0': "
     "NumericValue(0), 'L': AddressValue(2)}).translate()"),
    "IndexedOperand('127,Y++', MN['LDA']).translate()",
    "ExtendedIndexedOperand('[127,Y++]', MN['LDA']).translate()",
    ("IndexedOperand('127,Y++', MN['LEAX']).resolve_symbols({'V': NumericValue(5), 'Z0': NumericValue(0), 'L': "
     'AddressValue(2)}).translate()'),
    ("ExtendedIndexedOperand('[127,Y++]', MN['LDD']).resolve_symbols({'V': NumericValue(5), 'Z0': "
     "NumericValue(0), 'L': AddressValue(2)}).translate()"),
    "IndexedOperand('127,-U', MN['LDA']).translate()",
    "ExtendedIndexedOperand('[127,-U]', MN['LDA']).translate()",
    ("IndexedOperand('127,-U', MN['LEAX']).resolve_symbols({'V': NumericValue(5), 'Z0': NumericValue(0), 'L': "
     'AddressValue(2)}).translate()'),
    ("ExtendedIndexedOperand('[127,-U]', MN['LDD']).resolve_symbols({'V': NumericValue(5), 'Z0': "
     "NumericValue(0), 'L': AddressValue(2)}).translate()"),
    "IndexedOperand('127,--S', MN['LDA']).translate()",
    "ExtendedIndexedOperand('[127,--S]', MN['LDA']).translate()",
    ("IndexedOperand('127,--S', MN['LEAX']).resolve_symbols({'V': NumericValue(5), 'Z0': NumericValue(0), 'L': "
     'AddressValue(2)}).translate()'),
    ("ExtendedIndexedOperand('[127,--S]', MN['LDD']).resolve_symbols({'V': NumericValue(5), 'Z0': "
     "NumericValue(0), 'L': AddressValue(2)}).translate()"),
    "IndexedOperand('127,PCR', MN['LDA']).translate()",
    "ExtendedIndexedOperand('[127,PCR]', MN['LDA']).translate()",
    ("IndexedOperand('127,PCR', MN['LEAX']).resolve_symbols({'V': NumericValue(5), 'Z0': NumericValue(0), 'L': "
     'AddressValue(2)}).translate()'),
    ("ExtendedIndexedOperand('[127,PCR]', MN['LDD']).resolve_symbols({'V': NumericValue(5), 'Z0': "
     "NumericValue(0), 'L': AddressValue(2)}).translate()"),
    "IndexedOperand('127,PC', MN['LDA']).translate()",
    "ExtendedIndexedOperand('[127,PC]', MN['LDA']).translate()",
    ("IndexedOperand('127,PC', MN['LEAX']).resolve_symbols({'V': NumericValue(5), 'Z0': NumericValue(0), 'L': "
     'AddressValue(2)}).translate()'),
    ("ExtendedIndexedOperand('[127,PC]', MN['LDD']).resolve_symbols({'V': NumericValue(5), 'Z0': "
     "NumericValue(0), 'L': AddressValue(2)}).translate()"),
    "IndexedOperand('127,X-', MN['LDA']).translate()",
    "ExtendedIndexedOperand('[127,X-]', MN['LDA']).translate()",
    ("IndexedOperand('127,X-', MN['LEAX']).resolve_symbols({'V': NumericValue(5), 'Z0': NumericValue(0), 'L': "
     'AddressValue(2)}).translate()'),
    ("ExtendedIndexedOperand('[127,X-]', MN['LDD']).resolve_symbols({'V': NumericValue(5), 'Z0': "
     "NumericValue(0), 'L': AddressValue(2)}).translate()"),
    "IndexedOperand('127,X--', MN['LDA']).translate()",
    "ExtendedIndexedOperand('[127,X--]', MN['LDA']).translate()",
    ("IndexedOperand('127,X--', MN['LEAX']).resolve_symbols({'V': NumericValue(5), 'Z0': NumericValue(0), 'L': "
     'AddressValue(2)}).translate()'),
    ("ExtendedIndexedOperand('[127,X--]', MN['LDD']).resolve_symbols({'V': NumericValue(5), 'Z0': "
     "NumericValue(0), 'L': AddressValue(2)}).translate()"),
    "IndexedOperand('127,+X', MN['LDA']).translate()",
    "ExtendedIndexedOperand('[127,+X]', MN['LDA']).translate()",
    ("IndexedOperand('127,+X', MN['LEAX']).resolve_symbols({'V': NumericValue(5), 'Z0': NumericValue(0), 'L': "
     'AddressValue(2)}).translate()'),
    ("ExtendedIndexedOperand('[127,+X]', MN['LDD']).resolve_symbols({'V': NumericValue(5), 'Z0': "
     "NumericValue(0), 'L': AddressValue(2)}).translate()"),
    "IndexedOperand('127,++X', MN['LDA']).translate()",
    "ExtendedIndexedOperand('[127,++X]', MN['LDA']).translate()",
    ("IndexedOperand('127,++X', MN['LEAX']).resolve_symbols({'V': NumericValue(5), 'Z0': NumericValue(0), 'L': "
     'AddressValue(2)}).translate()'),
    ("ExtendedIndexedOperand('[127,++X]', MN['LDD']).resolve_symbols({'V': NumericValue(5), 'Z0': "
     "NumericValue(0), 'L': AddressValue(2)}).translate()"),
    "IndexedOperand('127,X+-', MN['LDA']).translate()",
    "ExtendedIndexedOperand('[127,X+-]', MN['LDA']).translate()",
    ("IndexedOperand('127,X+-', MN['LEAX']).resolve_symbols({'V': NumericValue(5), 'Z0': NumericValue(0), 'L': "
     'AddressValue(2)}).translate()'),
    ("ExtendedIndexedOperand('[127,X+-]', MN['LDD']).resolve_symbols({'V': NumericValue(5), 'Z0': "
     "NumericValue(0), 'L': AddressValue(2)}).translate()"),
    "IndexedOperand('127,-X+', MN['LDA']).translate()",
    "ExtendedIndexedOperand('[127,-X+]', MN['LDA']).translate()",
    ("IndexedOperand('127,-X+', MN['LEAX']).resolve_symbols({'V': NumericValue(5), 'Z0': NumericValue(0), 'L': "
     'AddressValue(2)}).translate()'),
    ("ExtendedIndexedOperand('[127,-X+]', MN['LDD']).resolve_symbols({'V': NumericValue(5), 'Z0': "
     "NumericValue(0), 'L': AddressValue(2)}).translate()"),
    "IndexedOperand('127,', MN['LDA']).translate()",
    "ExtendedIndexedOperand('[127,]', MN['LDA']).translate()",
    ("IndexedOperand('127,', MN['LEAX']).resolve_symbols({'V': NumericValue(5), 'Z0': NumericValue(0), 'L': "
     'AddressValue(2)}).translate()'),
    ("ExtendedIndexedOperand('[127,]', MN['LDD']).resolve_symbols({'V': NumericValue(5), 'Z0': NumericValue(0), "
     "'L': AddressValue(2)}).translate()"),
    "IndexedOperand('127,Q', MN['LDA']).translate()",
    "ExtendedIndexedOperand('[127,Q]', MN['LDA']).translate()",
    ("IndexedOperand('127,Q', MN['LEAX']).resolve_symbols({'V': NumericValue(5), 'Z0': NumericValue(0), 'L': "
     'AddressValue(2)}).translate()'),
    ("ExtendedIndexedOperand('[127,Q]', MN['LDD']).resolve_symbols({'V': NumericValue(5), 'Z0': NumericValue(0), "
     "'L': AddressValue(2)}).translate()"),
    "IndexedOperand('127,X++Y', MN['LDA']).translate()",
    "ExtendedIndexedOperand('[127,X++Y]', MN['LDA']).translate()",
    ("IndexedOperand('127,X++Y', MN['LEAX']).resolve_symbols({'V': NumericValue(5), 'Z0': NumericValue(0), 'L': "
     'AddressValue(2)}).translate()'),
    ("ExtendedIndexedOperand('[127,X++Y]', MN['LDD']).resolve_symbols({'V': NumericValue(5), 'Z0': "
     "NumericValue(0), 'L': AddressValue(2)}).translate()"),
    "IndexedOperand('128,X', MN['LDA']).translate()",
    "ExtendedIndexedOperand('[128,X]', MN['LDA']).translate()",
    ("IndexedOperand('128,X', MN['LEAX']).resolve_symbols({'V': NumericValue(5), 'Z0': NumericValue(0), 'L': "
     'AddressValue(2)}).translate()'),
    ("ExtendedIndexedOperand('[128,X]', MN['LDD']).resolve_symbols({'V': NumericValue(5), 'Z0': NumericValue(0), "
     "'L': AddressValue(2)}).translate()"),
    "IndexedOperand('128,Y', MN['LDA']).translate()",
    "ExtendedIndexedOperand('[128,Y]', MN['LDA']).translate()",
    ("IndexedOperand('128,Y', MN['LEAX']).resolve_symbols({'V': NumericValue(5), 'Z0': NumericValue(0), 'L': "
     'AddressValue(2)}).translate()'),
    ("ExtendedIndexedOperand('[128,Y]', MN['LDD']).resolve_symbols({'V': NumericValue(5), 'Z0': NumericValue(0), "
     "'L': AddressValue(2)}).translate()"),
    "IndexedOperand('128,U', MN['LDA']).translate()",
    "ExtendedIndexedOperand('[128,U]', MN['LDA']).translate()",
    ("IndexedOperand('128,U', MN['LEAX']).resolve_symbols({'V': NumericValue(5), 'Z0': NumericValue(0), 'L': "
     'AddressValue(2)}).translate()'),
    ("ExtendedIndexedOperand('[128,U]', MN['LDD']).resolve_symbols({'V': NumericValue(5), 'Z0': NumericValue(0), "
     "'L': AddressValue(2)}).translate()"),
    "IndexedOperand('128,S', MN['LDA']).translate()",
    "ExtendedIndexedOperand('[128,S]', MN['LDA']).translate()",
    ("IndexedOperand('128,S', MN['LEAX']).resolve_symbols({'V': NumericValue(5), 'Z0': NumericValue(0), 'L': "
     'AddressValue(2)}).translate()'),
    ("ExtendedIndexedOperand('[128,S]', MN['LDD']).resolve_symbols({'V': NumericValue(5), 'Z0': NumericValue(0), "
     "'L': AddressValue(2)}).translate()"),
    "IndexedOperand('128,X+', MN['LDA']).translate()",
    "ExtendedIndexedOperand('[128,X+]', MN['LDA']).translate()",
    ("IndexedOperand('128,X+', MN['LEAX']).resolve_symbols({'V': NumericValue(5), 'Z0': NumericValue(0), 'L': "
     'AddressValue(2)}).translate()'),
    ("ExtendedIndexedOperand('[128,X+]', MN['LDD']).resolve_symbols({'V': NumericValue(5), 'Z0': "
     "NumericValue(0), 'L': AddressValue(2)}).translate()"),
    "IndexedOperand('128,X++', MN['LDA']).translate()",
    "ExtendedIndexedOperand('[128,X++]', MN['LDA']).translate()",
    ("IndexedOperand('128,X++', MN['LEAX']).resolve_symbols({'V': NumericValue(5), 'Z0': NumericValue(0), 'L': "
     'AddressValue(2)}).translate()'),
    ("ExtendedIndexedOperand('[128,X++]', MN['LDD']).resolve_symbols({'V': NumericValue(5), 'Z0': "
     "NumericValue(0), 'L': AddressValue(2)}).translate()"),
    "IndexedOperand('128,-X', MN['LDA']).translate()",
    "ExtendedIndexedOperand('[128,-X]', MN['LDA']).translate()",
    ("IndexedOperand('128,-X', MN['LEAX']).resolve_symbols({'V': NumericValue(5), 'Z0': NumericValue(0), 'L': "
     'AddressValue(2)}).translate()'),
    ("ExtendedIndexedOperand('[128,-X]', MN['LDD']).resolve_symbols({'V': NumericValue(5), 'Z0': "
     "NumericValue(0), 'L': AddressValue(2)}).translate()"),
    "IndexedOperand('128,--X', MN['LDA']).translate()",
    "ExtendedIndexedOperand('[128,--X]', MN['LDA']).translate()",
    ("IndexedOperand('128,--X', MN['LEAX']).resolve_symbols({'V': NumericValue(5), 'Z0': NumericValue(0), 'L': "
     'AddressValue(2)}).translate()'),
    ("ExtendedIndexedOperand('[128,--X]', MN['LDD']).resolve_symbols({'V': NumericValue(5), 'Z0': "
     "NumericValue(0), 'L': AddressValue(2)}).translate()"),
    "IndexedOperand('128,Y+', MN['LDA']).translate()",
    "ExtendedIndexedOperand('[128,Y+]', MN['LDA']).translate()",
    ("IndexedOperand('128,Y+', MN['LEAX']).resolve_symbols({'V': NumericValue(5), 'Z0': NumericValue(0), 'L': "
     'AddressValue(2)}).translate()'),
    ("ExtendedIndexedOperand('[128,Y+]', MN['LDD']).resolve_symbols({'V': NumericValue(5), 'Z0': "
     "NumericValue(0), 'L': AddressValue(2)}).translate()"),
    "IndexedOperand('128,Y++', MN['LDA']).translate()",
    "ExtendedIndexedOperand('[128,Y++]', MN['LDA']).translate()",
    ("IndexedOperand('128,Y++', MN['LEAX']).resolve_symbols({'V': NumericValue(5), 'Z0': NumericValue(0), 'L': "
     'AddressValue(2)}).translate()'),
    ("ExtendedIndexedOperand('[128,Y++]', MN['LDD']).resolve_symbols({'V': NumericValue(5), 'Z0': "
     "NumericValue(0), 'L': AddressValue(2)}).translate()"),
    "IndexedOperand('128,-U', MN['LDA']).translate()",
    "ExtendedIndexedOperand('[128,-U]', MN['LDA']).translate()",
    ("IndexedOperand('128,-U', MN['LEAX']).resolve_symbols({'V': NumericValue(5), 'Z0': NumericValue(0), 'L': "
     'AddressValue(2)}).translate()'),
    ("ExtendedIndexedOperand('[128,-U]', MN['LDD']).resolve_symbols({'V': NumericValue(5), 'Z0': "
     "NumericValue(0), 'L': AddressValue(2)}).translate()"),
    "IndexedOperand('128,--S', MN['LDA']).translate()",
    "ExtendedIndexedOperand('[128,--S]', MN['LDA']).translate()",
    ("IndexedOperand('128,--S', MN['LEAX']).resolve_symbols({'V': NumericValue(5), 'Z0': NumericValue(0), 'L': "
     'AddressValue(2)}).translate()'),
    ("ExtendedIndexedOperand('[128,--S]', MN['LDD']).resolve_symbols({'V': NumericValue(5), 'Z0': "
     "NumericValue(0), 'L': AddressValue(2)}).translate()"),
    "IndexedOperand('128,PCR', MN['LDA']).translate()",
    "ExtendedIndexedOperand('[128,PCR]', MN['LDA']).translate()",
    ("IndexedOperand('128,PCR', MN['LEAX']).resolve_symbols({'V': NumericValue(5), 'Z0': NumericValue(0), 'L': "
     'AddressValue(2)}).translate()'),
    ("ExtendedIndexedOperand('[128,PCR]', MN['LDD']).resolve_symbols({'V': NumericValue(5), 'Z0': "
     "NumericValue(0), 'L': AddressValue(2)}).translate()"),
    "IndexedOperand('128,PC', MN['LDA']).translate()",
    "ExtendedIndexedOperand('[128,PC]', MN['LDA']).translate()",
    ("IndexedOperand('128,PC', MN['LEAX']).resolve_symbols({'V': NumericValue(5), 'Z0': NumericValue(0), 'L': "
     'AddressValue(2)}).translate()'),
    ("ExtendedIndexedOperand('[128,PC]', MN['LDD']).resolve_symbols({'V': NumericValue(5), 'Z0': "
     "NumericValue(0), 'L': AddressValue(2)}).translate()"),
    "IndexedOperand('128,X-', MN['LDA']).translate()",
    "ExtendedIndexedOperand('[128,X-]', MN['LDA']).translate()",
    ("IndexedOperand('128,X-', MN['LEAX']).resolve_symbols({'V': NumericValue(5), 'Z0': NumericValue(0), 'L': "
     'AddressValue(2)}).translate()'),
    ("ExtendedIndexedOperand('[128,X-]', MN['LDD']).resolve_symbols({'V': NumericValue(5), 'Z0': "
     "NumericValue(0), 'L': AddressValue(2)}).translate()"),
    "IndexedOperand('128,X--', MN['LDA']).translate()",
    "ExtendedIndexedOperand('[128,X--]', MN['LDA']).translate()",
    ("IndexedOperand('128,X--', MN['LEAX']).resolve_symbols({'V': NumericValue(5), 'Z0': NumericValue(0), 'L': "
     'AddressValue(2)}).translate()'),
    ("ExtendedIndexedOperand('[128,X--]', MN['LDD']).resolve_symbols({'V': NumericValue(5), 'Z0': "
     "NumericValue(0), 'L': AddressValue(2)}).translate()"),
    "IndexedOperand('128,+X', MN['LDA']).translate()",
    "ExtendedIndexedOperand('[128,+X]', MN['LDA']).translate()",
    ("IndexedOperand('128,+X', MN['LEAX']).resolve_symbols({'V': NumericValue(5), 'Z0': NumericValue(0), 'L': "
     'AddressValue(2)}).translate()'),
    ("ExtendedIndexedOperand('[128,+X]', MN['LDD']).resolve_symbols({'V': NumericValue(5), 'Z0': "
     "NumericValue(0), 'L': AddressValue(2)}).translate()"),
    "IndexedOperand('128,++X', MN['LDA']).translate()",
    "ExtendedIndexedOperand('[128,++X]', MN['LDA']).translate()",
    ("IndexedOperand('128,++X', MN['LEAX']).resolve_symbols({'V': NumericValue(5), 'Z0': NumericValue(0), 'L': "
     'AddressValue(2)}).translate()'),
    ("ExtendedIndexedOperand('[128,++X]', MN['LDD']).resolve_symbols({'V': NumericValue(5), 'Z0': "
     "NumericValue(0), 'L': AddressValue(2)}).translate()"),
    "IndexedOperand('128,X+-', MN['LDA']).translate()",
    "ExtendedIndexedOperand('[128,X+-]', MN['LDA']).translate()",
    ("IndexedOperand('128,X+-', MN['LEAX']).resolve_symbols({'V': NumericValue(5), 'Z0': NumericValue(0), 'L': "
     'AddressValue(2)}).translate()'),
    ("ExtendedIndexedOperand('[128,X+-]', MN['LDD']).resolve_symbols({'V': NumericValue(5), 'Z0': "
     "NumericValue(0), 'L': AddressValue(2)}).translate()"),
    "IndexedOperand('128,-X+', MN['LDA']).translate()",
    "ExtendedIndexedOperand('[128,-X+]', MN['LDA']).translate()",
    ("IndexedOperand('128,-X+', MN['LEAX']).resolve_symbols({'V': NumericValue(5), 'Z0': NumericValue(0), 'L': "
     'AddressValue(2)}).translate()'),
    ("ExtendedIndexedOperand('[128,-X+]', MN['LDD']).resolve_symbols({'V': NumericValue(5), 'Z0': "
     "NumericValue(0), 'L': AddressValue(2)}).translate()"),
    "IndexedOperand('128,', MN['LDA']).translate()",
    "ExtendedIndexedOperand('[128,]', MN['LDA']).translate()",
    ("IndexedOperand('128,', MN['LEAX']).resolve_symbols({'V': NumericValue(5), 'Z0': NumericValue(0), 'L': "
     'AddressValue(2)}).translate()'),
    ("ExtendedIndexedOperand('[128,]', MN['LDD']).resolve_symbols({'V': NumericValue(5), 'Z0': NumericValue(0), "
     "'L': AddressValue(2)}).translate()"),
    "IndexedOperand('128,Q', MN['LDA']).translate()",
    "ExtendedIndexedOperand('[128,Q]', MN['LDA']).translate()",
    ("IndexedOperand('128,Q', MN['LEAX']).resolve_symbols({'V': NumericValue(5), 'Z0': NumericValue(0), 'L': "
     'AddressValue(2)}).translate()'),
    ("ExtendedIndexedOperand('[128,Q]', MN['LDD']).resolve_symbols({'V': NumericValue(5), 'Z0': NumericValue(0), "
     "'L': AddressValue(2)}).translate()"),
    "IndexedOperand('128,X++Y', MN['LDA']).translate()",
    "ExtendedIndexedOperand('[128,X++Y]', MN['LDA']).translate()",
    ("IndexedOperand('128,X++Y', MN['LEAX']).resolve_symbols({'V': NumericValue(5), 'Z0': NumericValue(0), 'L': "
     'AddressValue(2)}).translate()'),
    ("ExtendedIndexedOperand('[128,X++Y]', MN['LDD']).resolve_symbols({'V': NumericValue(5), 'Z0': "
     "NumericValue(0), 'L': AddressValue(2)}).translate()"),
    "IndexedOperand('-128,X', MN['LDA']).translate()",
    "ExtendedIndexedOperand('[-128,X]', MN['LDA']).translate()",
    ("IndexedOperand('-128,X', MN['LEAX']).resolve_symbols({'V': NumericValue(5), 'Z0': NumericValue(0), 'L': "
     'AddressValue(2)}).translate()'),
    ("ExtendedIndexedOperand('[-128,X]', MN['LDD']).resolve_symbols({'V': NumericValue(5), 'Z0': "
     "NumericValue(0), 'L': AddressValue(2)}).translate()"),
    "IndexedOperand('-128,Y', MN['LDA']).translate()",
    "ExtendedIndexedOperand('[-128,Y]', MN['LDA']).translate()",
    ("IndexedOperand('-128,Y', MN['LEAX']).resolve_symbols({'V': NumericValue(5), 'Z0': NumericValue(0), 'L': "
     'AddressValue(2)}).translate()'),
    ("ExtendedIndexedOperand('[-128,Y]', MN['LDD']).resolve_symbols({'V': NumericValue(5), 'Z0': "
     "NumericValue(0), 'L': AddressValue(2)}).translate()"),
    "IndexedOperand('-128,U', MN['LDA']).translate()",
    "ExtendedIndexedOperand('[-128,U]', MN['LDA']).translate()",
    ("IndexedOperand('-128,U', MN['LEAX']).resolve_symbols({'V': NumericValue(5), 'Z0': NumericValue(0), 'L': "
     'AddressValue(2)}).translate()'),
    ("ExtendedIndexedOperand('[-128,U]', MN['LDD']).resolve_symbols({'V': NumericValue(5), 'Z0': "
     "NumericValue(0), 'L': AddressValue(2)}).translate()"),
    "IndexedOperand('-128,S', MN['LDA']).translate()",
    "ExtendedIndexedOperand('[-128,S]', MN['LDA']).translate()",
    ("IndexedOperand('-128,S', MN['LEAX']).resolve_symbols({'V': NumericValue(5), 'Z0': NumericValue(0), 'L': "
     'AddressValue(2)}).translate()'),
    ("ExtendedIndexedOperand('[-128,S]', MN['LDD']).resolve_symbols({'V': NumericValue(5), 'Z0': "
     "NumericValue(0), 'L': AddressValue(2)}).translate()"),
    "IndexedOperand('-128,X+', MN['LDA']).translate()",
    "ExtendedIndexedOperand('[-128,X+]', MN['LDA']).translate()",
    ("IndexedOperand('-128,X+', MN['LEAX']).resolve_symbols({'V': NumericValue(5), 'Z0': NumericValue(0), 'L': "
     'AddressValue(2)}).translate()'),
    ("ExtendedIndexedOperand('[-128,X+]', MN['LDD']).resolve_symbols({'V': NumericValue(5), 'Z0': "
     "NumericValue(0), 'L': AddressValue(2)}).translate()"),
    "IndexedOperand('-128,X++', MN['LDA']).translate()",
    "ExtendedIndexedOperand('[-128,X++]', MN['LDA']).translate()",
    ("IndexedOperand('-128,X++', MN['LEAX']).resolve_symbols({'V': NumericValue(5), 'Z0': NumericValue(0), 'L': "
     'AddressValue(2)}).translate()'),
    ("ExtendedIndexedOperand('[-128,X++]', MN['LDD']).resolve_symbols({'V': NumericValue(5), 'Z0': "
     "NumericValue(0), 'L': AddressValue(2)}).translate()"),
    "IndexedOperand('-128,-X', MN['LDA']).translate()",
    "ExtendedIndexedOperand('[-128,-X]', MN['LDA']).translate()",
    ("IndexedOperand('-128,-X', MN['LEAX']).resolve_symbols({'V': NumericValue(5), 'Z0': NumericValue(0), 'L': "
     'AddressValue(2)}).translate()'),
    ("ExtendedIndexedOperand('[-128,-X]', MN['LDD']).resolve_symbols({'V': NumericValue(5), 'Z0': "
     "NumericValue(0), 'L': AddressValue(2)}).translate()"),
    "IndexedOperand('-128,--X', MN['LDA']).translate()",
    "ExtendedIndexedOperand('[-128,--X]', MN['LDA']).translate()",
    ("IndexedOperand('-128,--X', MN['LEAX']).resolve_symbols({'V': NumericValue(5), 'Z0': NumericValue(0), 'L': "
     'AddressValue(2)}).translate()'),
    ("ExtendedIndexedOperand('[-128,--X]', MN['LDD']).resolve_symbols({'V': NumericValue(5), 'Z0': "
     "NumericValue(0), 'L': AddressValue(2)}).translate()"),
    "IndexedOperand('-128,Y+', MN['LDA']).translate()",
    "ExtendedIndexedOperand('[-128,Y+]', MN['LDA']).translate()",
    ("IndexedOperand('-128,Y+', MN['LEAX']).resolve_symbols({'V': NumericValue(5), 'Z0': NumericValue(0), 'L': "
     'AddressValue(2)}).translate()'),
    ("ExtendedIndexedOperand('[-128,Y+]', MN['LDD']).resolve_symbols({'V': NumericValue(5), 'Z0': "
     "NumericValue(0), 'L': AddressValue(2)}).translate()"),
    "IndexedOperand('-128,Y++', MN['LDA']).translate()",
    "ExtendedIndexedOperand('[-128,Y++]', MN['LDA']).translate()",
    ("IndexedOperand('-128,Y++', MN['LEAX']).resolve_symbols({'V': NumericValue(5), 'Z0': NumericValue(0), 'L': "
     'AddressValue(2)}).translate()'),
    ("ExtendedIndexedOperand('[-128,Y++]', MN['LDD']).resolve_symbols({'V': NumericValue(5), 'Z0': "
     "NumericValue(0), 'L': AddressValue(2)}).translate()"),
    "IndexedOperand('-128,-U', MN['LDA']).translate()",
    "ExtendedIndexedOperand('[-128,-U]', MN['LDA']).translate()",
    ("IndexedOperand('-128,-U', MN['LEAX']).resolve_symbols({'V': NumericValue(5), 'Z0': NumericValue(0), 'L': "
     'AddressValue(2)}).translate()'),
    ("ExtendedIndexedOperand('[-128,-U]', MN['LDD']).resolve_symbols({'V': NumericValue(5), 'Z0': "
     "NumericValue(0), 'L': AddressValue(2)}).translate()"),
    "IndexedOperand('-128,--S', MN['LDA']).translate()",
    "ExtendedIndexedOperand('[-128,--S]', MN['LDA']).translate()",
    ("IndexedOperand('-128,--S', MN['LEAX']).resolve_symbols({'V': NumericValue(5), 'Z0': NumericValue(0), 'L': "
     'AddressValue(2)}).translate()'),
    ("ExtendedIndexedOperand('[-128,--S]', MN['LDD']).resolve_symbols({'V': NumericValue(5), 'Z0': "
     "NumericValue(0), 'L': AddressValue(2)}).translate()"),
    "IndexedOperand('-128,PCR', MN['LDA']).translate()",
    "ExtendedIndexedOperand('[-128,PCR]', MN['LDA']).translate()",
    ("IndexedOperand('-128,PCR', MN['LEAX']).resolve_symbols({'V': NumericValue(5), 'Z0': NumericValue(0), 'L': "
     'AddressValue(2)}).translate()'),
    ("ExtendedIndexedOperand('[-128,PCR]', MN['LDD']).resolve_symbols({'V': NumericValue(5), 'Z0': "
     "NumericValue(0), 'L': AddressValue(2)}).translate()"),
    "IndexedOperand('-128,PC', MN['LDA']).translate()",
    "ExtendedIndexedOperand('[-128,PC]', MN['LDA']).translate()",
    ("IndexedOperand('-128,PC', MN['LEAX']).resolve_symbols({'V': NumericValue(5), 'Z0': NumericValue(0), 'L': "
     'AddressValue(2)}).translate()'),
    ("ExtendedIndexedOperand('[-128,PC]', MN['LDD']).resolve_symbols({'V': NumericValue(5), 'Z0': "
     "NumericValue(0), 'L': AddressValue(2)}).translate()"),
    "IndexedOperand('-128,X-', MN['LDA']).translate()",
    "ExtendedIndexedOperand('[-128,X-]', MN['LDA']).translate()",
    ("IndexedOperand('-128,X-', MN['LEAX']).resolve_symbols({'V': NumericValue(5), 'Z0': NumericValue(0), 'L': "
     'AddressValue(2)}).translate()'),
    ("ExtendedIndexedOperand('[-128,X-]', MN['LDD']).resolve_symbols({'V': NumericValue(5), 'Z0': "
     "NumericValue(0), 'L': AddressValue(2)}).translate()"),
    "IndexedOperand('-128,X--', MN['LDA']).translate()",
    "ExtendedIndexedOperand('[-128,X--]', MN['LDA']).translate()",
    ("IndexedOperand('-128,X--', MN['LEAX']).resolve_symbols({'V': NumericValue(5), 'Z0': NumericValue(0), 'L': "
     'AddressValue(2)}).translate()'),
    ("ExtendedIndexedOperand('[-128,X--]', MN['LDD']).resolve_symbols({'V': NumericValue(5), 'Z0': "
     "NumericValue(0), 'L': AddressValue(2)}).translate()"),
    "IndexedOperand('-128,+X', MN['LDA']).translate()",
    "ExtendedIndexedOperand('[-128,+X]', MN['LDA']).translate()",
    ("IndexedOperand('-128,+X', MN['LEAX']).resolve_symbols({'V': NumericValue(5), 'Z0': NumericValue(0), 'L': "
     'AddressValue(2)}).translate()'),
    ("ExtendedIndexedOperand('[-128,+X]', MN['LDD']).resolve_symbols({'V': NumericValue(5), 'Z0': "
     "NumericValue(0), 'L': AddressValue(2)}).translate()"),
    "IndexedOperand('-128,++X', MN['LDA']).translate()",
    "ExtendedIndexedOperand('[-128,++X]', MN['LDA']).translate()",
    ("IndexedOperand('-128,++X', MN['LEAX']).resolve_symbols({'V': NumericValue(5), 'Z0': NumericValue(0), 'L': "
     'AddressValue(2)}).translate()'),
    ("ExtendedIndexedOperand('[-128,++X]', MN['LDD']).resolve_symbols({'V': NumericValue(5), 'Z0': "
     "NumericValue(0), 'L': AddressValue(2)}).translate()"),
    "IndexedOperand('-128,X+-', MN['LDA']).translate()",
    "ExtendedIndexedOperand('[-128,X+-]', MN['LDA']).translate()",
    ("IndexedOperand('-128,X+-', MN['LEAX']).resolve_symbols({'V': NumericValue(5), 'Z0': NumericValue(0), 'L': "
     'AddressValue(2)}).translate()'),
    ("ExtendedIndexedOperand('[-128,X+-]', MN['LDD']).resolve_symbols({'V': NumericValue(5), 'Z0': "
     "NumericValue(0), 'L': AddressValue(2)}).translate()"),
    "IndexedOperand('-128,-X+', MN['LDA']).translate()",
    "ExtendedIndexedOperand('[-128,-X+]', MN['LDA']).translate()",
    ("IndexedOperand('-128,-X+', MN['LEAX']).resolve_symbols({'V': NumericValue(5), 'Z0': NumericValue(0), 'L': "
     'AddressValue(2)}).translate()'),
    ("ExtendedIndexedOperand('[-128,-X+]', MN['LDD']).resolve_symbols({'V': NumericValue(5), 'Z0': "
     "NumericValue(0), 'L': AddressValue(2)}).translate()"),
    "IndexedOperand('-128,', MN['LDA']).translate()",
    "ExtendedIndexedOperand('[-128,]', MN['LDA']).translate()",
    ("IndexedOperand('-128,', MN['LEAX']).resolve_symbols({'V': NumericValue(5), 'Z0': NumericValue(0), 'L': "
     'AddressValue(2)}).translate()'),
    ("ExtendedIndexedOperand('[-128,]', MN['LDD']).resolve_symbols({'V': NumericValue(5), 'Z0': NumericValue(0), "
     "'L': AddressValue(2)}).translate()"),
    "IndexedOperand('-128,Q', MN['LDA']).translate()",
    "ExtendedIndexedOperand('[-128,Q]', MN['LDA']).translate()",
    ("IndexedOperand('-128,Q', MN['LEAX']).resolve_symbols({'V': NumericValue(5), 'Z0': NumericValue(0), 'L': "
     'AddressValue(2)}).translate()'),
    ("ExtendedIndexedOperand('[-128,Q]', MN['LDD']).resolve_symbols({'V': NumericValue(5), 'Z0': "
     "NumericValue(0), 'L': AddressValue(2)}).translate()"),
    "IndexedOperand('-128,X++Y', MN['LDA']).translate()",
    "ExtendedIndexedOperand('[-128,X++Y]', MN['LDA']).translate()",
    ("IndexedOperand('-128,X++Y', MN['LEAX']).resolve_symbols({'V': NumericValue(5), 'Z0': NumericValue(0), 'L': "
     'AddressValue(2)}).translate()'),
    ("ExtendedIndexedOperand('[-128,X++Y]', MN['LDD']).resolve_symbols({'V': NumericValue(5), 'Z0': "
     "NumericValue(0), 'L': AddressValue(2)}).translate()"),
    "IndexedOperand('-129,X', MN['LDA']).translate()",
    "ExtendedIndexedOperand('[-129,X]', MN['LDA']).translate()",
    ("IndexedOperand('-129,X', MN['LEAX']).resolve_symbols({'V': NumericValue(5), 'Z0': NumericValue(0), 'L': "
     'AddressValue(2)}).translate()'),
    ("ExtendedIndexedOperand('[-129,X]', MN['LDD']).resolve_symbols({'V': NumericValue(5), 'Z0': "
     "NumericValue(0), 'L': AddressValue(2)}).translate()"),
    "IndexedOperand('-129,Y', MN['LDA']).translate()",
    "ExtendedIndexedOperand('[-129,Y]', MN['LDA']).translate()",
    ("IndexedOperand('-129,Y', MN['LEAX']).resolve_symbols({'V': NumericValue(5), 'Z0': NumericValue(0), 'L': "
     'AddressValue(2)}).translate()'),
    ("ExtendedIndexedOperand('[-129,Y]', MN['LDD']).resolve_symbols({'V': NumericValue(5), 'Z0': "
     "NumericValue(0), 'L': AddressValue(2)}).translate()"),
    "IndexedOperand('-129,U', MN['LDA']).translate()",
    "ExtendedIndexedOperand('[-129,U]', MN['LDA']).translate()",
    ("IndexedOperand('-129,U', MN['LEAX']).resolve_symbols({'V': NumericValue(5), 'Z0': NumericValue(0), 'L': "
     'AddressValue(2)}).translate()'),
    ("ExtendedIndexedOperand('[-129,U]', MN['LDD']).resolve_symbols({'V': NumericValue(5), 'Z0': "
     "NumericValue(0), 'L': AddressValue(2)}).translate()"),
    "IndexedOperand('-129,S', MN['LDA']).translate()",
    "ExtendedIndexedOperand('[-129,S]', MN['LDA']).translate()",
    ("IndexedOperand('-129,S', MN['LEAX']).resolve_symbols({'V': NumericValue(5), 'Z0': NumericValue(0), 'L': "
     'AddressValue(2)}).translate()'),
    ("ExtendedIndexedOperand('[-129,S]', MN['LDD']).resolve_symbols({'V': NumericValue(5), 'Z0': "
     "NumericValue(0), 'L': AddressValue(2)}).translate()"),
    "IndexedOperand('-129,X+', MN['LDA']).translate()",
    "ExtendedIndexedOperand('[-129,X+]', MN['LDA']).translate()",
    ("IndexedOperand('-129,X+', MN['LEAX']).resolve_symbols({'V': NumericValue(5), 'Z0': NumericValue(0), 'L': "
     'AddressValue(2)}).translate()'),
    ("ExtendedIndexedOperand('[-129,X+]', MN['LDD']).resolve_symbols({'V': NumericValue(5), 'Z0': "
     "NumericValue(0), 'L': AddressValue(2)}).translate()"),
    "IndexedOperand('-129,X++', MN['LDA']).translate()",
    "ExtendedIndexedOperand('[-129,X++]', MN['LDA']).translate()",
    ("IndexedOperand('-129,X++', MN['LEAX']).resolve_symbols({'V': NumericValue(5), 'Z0': NumericValue(0), 'L': "
     'AddressValue(2)}).translate()'),
    ("ExtendedIndexedOperand('[-129,X++]', MN['LDD']).resolve_symbols({'V': NumericValue(5), 'Z0': "
     "NumericValue(0), 'L': AddressValue(2)}).translate()"),
    "IndexedOperand('-129,-X', MN['LDA']).translate()",
    "ExtendedIndexedOperand('[-129,-X]', MN['LDA']).translate()",
    ("IndexedOperand('-129,-X', MN['LEAX']).resolve_symbols({'V': NumericValue(5), 'Z0': NumericValue(0), 'L': "
     'AddressValue(2)}).translate()'),
    ("ExtendedIndexedOperand('[-129,-X]', MN['LDD']).resolve_symbols({'V': NumericValue(5), 'Z0': "
     "NumericValue(0), 'L': AddressValue(2)}).translate()"),
    "IndexedOperand('-129,--X', MN['LDA']).translate()",
    "ExtendedIndexedOperand('[-129,--X]', MN['LDA']).translate()",
    ("IndexedOperand('-129,--X', MN['LEAX']).resolve_symbols({'V': NumericValue(5), 'Z0': NumericValue(0), 'L': "
     'AddressValue(2)}).translate()'),
    ("ExtendedIndexedOperand('[-129,--X]', MN['LDD']).resolve_symbols({'V': NumericValue(5), 'Z0': "
     "NumericValue(0), 'L': AddressValue(2)}).translate()"),
    "IndexedOperand('-129,Y+', MN['LDA']).translate()",
    "ExtendedIndexedOperand('[-129,Y+]', MN['LDA']).translate()",
    ("IndexedOperand('-129,Y+', MN['LEAX']).resolve_symbols({'V': NumericValue(5), 'Z0': NumericValue(0), 'L': "
     'AddressValue(2)}).translate()'),
    ("ExtendedIndexedOperand('[-129,Y+]', MN['LDD']).resolve_symbols({'V': NumericValue(5), 'Z0': "
     "NumericValue(0), 'L': AddressValue(2)}).translate()"),
    "IndexedOperand('-129,Y++', MN['LDA']).translate()",
    "ExtendedIndexedOperand('[-129,Y++]', MN['LDA']).translate()",
    ("IndexedOperand('-129,Y++', MN['LEAX']).resolve_symbols({'V': NumericValue(5), 'Z0': NumericValue(0), 'L': "
     'AddressValue(2)}).translate()'),
    ("ExtendedIndexedOperand('[-129,Y++]', MN['LDD']).resolve_symbols({'V': NumericValue(5), 'Z0': "
     "NumericValue(0), 'L': AddressValue(2)}).translate()"),
    "IndexedOperand('-129,-U', MN['LDA']).translate()",
    "ExtendedIndexedOperand('[-129,-U]', MN['LDA']).translate()",
    ("IndexedOperand('-129,-U', MN['LEAX']).resolve_symbols({'V': NumericValue(5), 'Z0': NumericValue(0), 'L': "
     'AddressValue(2)}).translate()'),
    ("ExtendedIndexedOperand('[-129,-U]', MN['LDD']).resolve_symbols({'V': NumericValue(5), 'Z0': "
     "NumericValue(0), 'L': AddressValue(2)}).translate()"),
    "IndexedOperand('-129,--S', MN['LDA']).translate()",
    "ExtendedIndexedOperand('[-129,--S]', MN['LDA']).translate()",
    ("IndexedOperand('-129,--S', MN['LEAX']).resolve_symbols({'V': NumericValue(5), 'Z0': NumericValue(0), 'L': "
     'AddressValue(2)}).translate()'),
    ("ExtendedIndexedOperand('[-129,--S]', MN['LDD']).resolve_symbols({'V': NumericValue(5), 'Z0': "
     "NumericValue(0), 'L': AddressValue(2)}).translate()"),
    "IndexedOperand('-129,PCR', MN['LDA']).translate()",
    "ExtendedIndexedOperand('[-129,PCR]', MN['LDA']).translate()",
    ("IndexedOperand('-129,PCR', MN['LEAX']).resolve_symbols({'V': NumericValue(5), 'Z0': NumericValue(0), 'L': "
     'AddressValue(2)}).translate()'),
    ("ExtendedIndexedOperand('[-129,PCR]', MN['LDD']).resolve_symbols({'V': NumericValue(5), 'Z0': "
     "NumericValue(0), 'L': AddressValue(2)}).translate()"),
    "IndexedOperand('-129,PC', MN['LDA']).translate()",
    "ExtendedIndexedOperand('[-129,PC]', MN['LDA']).translate()",
    ("IndexedOperand('-129,PC', MN['LEAX']).resolve_symbols({'V': NumericValue(5), 'Z0': NumericValue(0), 'L': "
     'AddressValue(2)}).translate()'),
    ("ExtendedIndexedOperand('[-129,PC]', MN['LDD']).resolve_symbols({'V': NumericValue(5), 'Z0': "
     "NumericValue(0), 'L': AddressValue(2)}).translate()"),
    "IndexedOperand('-129,X-', MN['LDA']).translate()",
    "ExtendedIndexedOperand('[-129,X-]', MN['LDA']).translate()",
    ("IndexedOperand('-129,X-', MN['LEAX']).resolve_symbols({'V': NumericValue(5), 'Z0': NumericValue(0), 'L': "
     'AddressValue(2)}).translate()'),
    ("ExtendedIndexedOperand('[-129,X-]', MN['LDD']).resolve_symbols({'V': NumericValue(5), 'Z0': "
     "NumericValue(0), 'L': AddressValue(2)}).translate()"),
    "IndexedOperand('-129,X--', MN['LDA']).translate()",
    "ExtendedIndexedOperand('[-129,X--]', MN['LDA']).translate()",
    ("IndexedOperand('-129,X--', MN['LEAX']).resolve_symbols({'V': NumericValue(5), 'Z0': NumericValue(0), 'L': "
     'AddressValue(2)}).translate()'),
    ("ExtendedIndexedOperand('[-129,X--]', MN['LDD']).resolve_symbols({'V': NumericValue(5), 'Z0': "
     "NumericValue(0), 'L': AddressValue(2)}).translate()"),
    "IndexedOperand('-129,+X', MN['LDA']).translate()",
    "ExtendedIndexedOperand('[-129,+X]', MN['LDA']).translate()",
    ("IndexedOperand('-129,+X', MN['LEAX']).resolve_symbols({'V': NumericValue(5), 'Z0': NumericValue(0), 'L': "
     'AddressValue(2)}).translate()'),
    ("ExtendedIndexedOperand('[-129,+X]', MN['LDD']).resolve_symbols({'V': NumericValue(5), 'Z0': "
     "NumericValue(0), 'L': AddressValue(2)}).translate()"),
    "IndexedOperand('-129,++X', MN['LDA']).translate()",
    "ExtendedIndexedOperand('[-129,++X]', MN['LDA']).translate()",
    ("IndexedOperand('-129,++X', MN['LEAX']).resolve_symbols({'V': NumericValue(5), 'Z0': NumericValue(0), 'L': "
     'AddressValue(2)}).translate()'),
    ("ExtendedIndexedOperand('[-129,++X]', MN['LDD']).resolve_symbols({'V': NumericValue(5), 'Z0': "
     "NumericValue(0), 'L': AddressValue(2)}).translate()"),
    "IndexedOperand('-129,X+-', MN['LDA']).translate()",
    "ExtendedIndexedOperand('[-129,X+-]', MN['LDA']).translate()",
    ("IndexedOperand('-129,X+-', MN['LEAX']).resolve_symbols({'V': NumericValue(5), 'Z0': NumericValue(0), 'L': "
     'AddressValue(2)}).translate()'),
    ("ExtendedIndexedOperand('[-129,X+-]', MN['LDD']).resolve_symbols({'V': NumericValue(5), 'Z0': "
     "NumericValue(0), 'L': AddressValue(2)}).translate()"),
    "IndexedOperand('-129,-X+', MN['LDA']).translate()",
    "ExtendedIndexedOperand('[-129,-X+]', MN['LDA']).translate()",
    ("IndexedOperand('-129,-X+', MN['LEAX']).resolve_symbols({'V': NumericValue(5), 'Z0': NumericValue(0), 'L': "
     'AddressValue(2)}).translate()'),
    ("ExtendedIndexedOperand('[-129,-X+]', MN['LDD']).resolve_symbols({'V': NumericValue(5), 'Z0': "
     "NumericValue(0), 'L': AddressValue(2)}).translate()"),
    "IndexedOperand('-129,', MN['LDA']).translate()",
    "ExtendedIndexedOperand('[-129,]', MN['LDA']).translate()",
    ("IndexedOperand('-129,', MN['LEAX']).resolve_symbols({'V': NumericValue(5), 'Z0': NumericValue(0), 'L': "
     'AddressValue(2)}).translate()'),
    ("ExtendedIndexedOperand('[-129,]', MN['LDD']).resolve_symbols({'V': NumericValue(5), 'Z0': NumericValue(0), "
     "'L': AddressValue(2)}).translate()"),
    "IndexedOperand('-129,Q', MN['LDA']).translate()",
    "ExtendedIndexedOperand('[-129,Q]', MN['LDA']).translate()",
    ("IndexedOperand('-129,Q', MN['LEAX']).resolve_symbols({'V': NumericValue(5), 'Z0': NumericValue(0), 'L': "
     'AddressValue(2)}).translate()'),
    ("ExtendedIndexedOperand('[-129,Q]', MN['LDD']).resolve_symbols({'V': NumericValue(5), 'Z0': "
     "NumericValue(0), 'L': AddressValue(2)}).translate()"),
    "IndexedOperand('-129,X++Y', MN['LDA']).translate()",
    "ExtendedIndexedOperand('[-129,X++Y]', MN['LDA']).translate()",
    ("IndexedOperand('-129,X++Y', MN['LEAX']).resolve_symbols({'V': NumericValue(5), 'Z0': NumericValue(0), 'L': "
     'AddressValue(2)}).translate()'),
    ("ExtendedIndexedOperand('[-129,X++Y]', MN['LDD']).resolve_symbols({'V': NumericValue(5), 'Z0': "
     "NumericValue(0), 'L': AddressValue(2)}).translate()"),
    "IndexedOperand('$10,X', MN['LDA']).translate()",
    "ExtendedIndexedOperand('[$10,X]', MN['LDA']).translate()",
    ("IndexedOperand('$10,X', MN['LEAX']).resolve_symbols({'V': NumericValue(5), 'Z0': NumericValue(0), 'L': "
     'AddressValue(2)}).translate()'),
    ("ExtendedIndexedOperand('[$10,X]', MN['LDD']).resolve_symbols({'V': NumericValue(5), 'Z0': NumericValue(0), "
     "'L': AddressValue(2)}).translate()"),
    "IndexedOperand('$10,Y', MN['LDA']).translate()",
    "ExtendedIndexedOperand('[$10,Y]', MN['LDA']).translate()",
    ("IndexedOperand('$10,Y', MN['LEAX']).resolve_symbols({'V': NumericValue(5), 'Z0': NumericValue(0), 'L': "
     'AddressValue(2)}).translate()'),
    ("ExtendedIndexedOperand('[$10,Y]', MN['LDD']).resolve_symbols({'V': NumericValue(5), 'Z0': NumericValue(0), "
     "'L': AddressValue(2)}).translate()"),
    "IndexedOperand('$10,U', MN['LDA']).translate()",
    "ExtendedIndexedOperand('[$10,U]', MN['LDA']).translate()",
    ("IndexedOperand('$10,U', MN['LEAX']).resolve_symbols({'V': NumericValue(5), 'Z0': NumericValue(0), 'L': "
     'AddressValue(2)}).translate()'),
    ("ExtendedIndexedOperand('[$10,U]', MN['LDD']).resolve_symbols({'V': NumericValue(5), 'Z0': NumericValue(0), "
     "'L': AddressValue(2)}).translate()"),
    "IndexedOperand('$10,S', MN['LDA']).translate()",
    "ExtendedIndexedOperand('[$10,S]', MN['LDA']).translate()",
    ("IndexedOperand('$10,S', MN['LEAX']).resolve_symbols({'V': NumericValue(5), 'Z0': NumericValue(0), 'L': "
     'AddressValue(2)}).translate()'),
    ("ExtendedIndexedOperand('[$10,S]', MN['LDD']).resolve_symbols({'V': NumericValue(5), 'Z0': NumericValue(0), "
     "'L': AddressValue(2)}).translate()"),
    "IndexedOperand('$10,X+', MN['LDA']).translate()",
    "ExtendedIndexedOperand('[$10,X+]', MN['LDA']).translate()",
    ("IndexedOperand('$10,X+', MN['LEAX']).resolve_symbols({'V': NumericValue(5), 'Z0': NumericValue(0), 'L': "
     'AddressValue(2)}).translate()'),
    ("ExtendedIndexedOperand('[$10,X+]', MN['LDD']).resolve_symbols({'V': NumericValue(5), 'Z0': "
     "NumericValue(0), 'L': AddressValue(2)}).translate()"),
    "IndexedOperand('$10,X++', MN['LDA']).translate()",
    "ExtendedIndexedOperand('[$10,X++]', MN['LDA']).translate()",
    ("IndexedOperand('$10,X++', MN['LEAX']).resolve_symbols({'V': NumericValue(5), 'Z0': NumericValue(0), 'L': "
     'AddressValue(2)}).translate()'),
    ("ExtendedIndexedOperand('[$10,X++]', MN['LDD']).resolve_symbols({'V': NumericValue(5), 'Z0': "
     "NumericValue(0), 'L': AddressValue(2)}).translate()"),
    "IndexedOperand('$10,-X', MN['LDA']).translate()",
    "ExtendedIndexedOperand('[$10,-X]', MN['LDA']).translate()",
    ("IndexedOperand('$10,-X', MN['LEAX']).resolve_symbols({'V': NumericValue(5), 'Z0': NumericValue(0), 'L': "
     'AddressValue(2)}).translate()'),
    ("ExtendedIndexedOperand('[$10,-X]', MN['LDD']).resolve_symbols({'V': NumericValue(5), 'Z0': "
     "NumericValue(0), 'L': AddressValue(2)}).translate()"),
    "IndexedOperand('$10,--X', MN['LDA']).translate()",
    "ExtendedIndexedOperand('[$10,--X]', MN['LDA']).translate()",
    ("IndexedOperand('$10,--X', MN['LEAX']).resolve_symbols({'V': NumericValue(5), 'Z0': NumericValue(0), 'L': "
     'AddressValue(2)}).translate()'),
    ("ExtendedIndexedOperand('[$10,--X]', MN['LDD']).resolve_symbols({'V': NumericValue(5), 'Z0': "
     "NumericValue(0), 'L': AddressValue(2)}).translate()"),
    "IndexedOperand('$10,Y+', MN['LDA']).translate()",
    "ExtendedIndexedOperand('[$10,Y+]', MN['LDA']).translate()",
    ("IndexedOperand('$10,Y+', MN['LEAX']).resolve_symbols({'V': NumericValue(5), 'Z0': NumericValue(0), 'L': "
     'AddressValue(2)}).translate()'),
    ("ExtendedIndexedOperand('[$10,Y+]', MN['LDD']).resolve_symbols({'V': NumericValue(5), 'Z0': "
     "NumericValue(0), 'L': AddressValue(2)}).translate()"),
    "IndexedOperand('$10,Y++', MN['LDA']).translate()",
    "ExtendedIndexedOperand('[$10,Y++]', MN['LDA']).translate()",
    ("IndexedOperand('$10,Y++', MN['LEAX']).resolve_symbols({'V': NumericValue(5), 'Z0': NumericValue(0), 'L': "
     'AddressValue(2)}).translate()'),
    ("ExtendedIndexedOperand('[$10,Y++]', MN['LDD']).resolve_symbols({'V': NumericValue(5), 'Z0': "
     "NumericValue(0), 'L': AddressValue(2)}).translate()"),
    "IndexedOperand('$10,-U', MN['LDA']).translate()",
    "ExtendedIndexedOperand('[$10,-U]', MN['LDA']).translate()",
    ("IndexedOperand('$10,-U', MN['LEAX']).resolve_symbols({'V': NumericValue(5), 'Z0': NumericValue(0), 'L': "
     'AddressValue(2)}).translate()'),
    ("ExtendedIndexedOperand('[$10,-U]', MN['LDD']).resolve_symbols({'V': NumericValue(5), 'Z0': "
     "NumericValue(0), 'L': AddressValue(2)}).translate()"),
    "IndexedOperand('$10,--S', MN['LDA']).translate()",
    "ExtendedIndexedOperand('[$10,--S]', MN['LDA']).translate()",
    ("IndexedOperand('$10,--S', MN['LEAX']).resolve_symbols({'V': NumericValue(5), 'Z0': NumericValue(0), 'L': "
     'AddressValue(2)}).translate()'),
    ("ExtendedIndexedOperand('[$10,--S]', MN['LDD']).resolve_symbols({'V': NumericValue(5), 'Z0': "
     "NumericValue(0), 'L': AddressValue(2)}).translate()"),
    "IndexedOperand('$10,PCR', MN['LDA']).translate()",
    "ExtendedIndexedOperand('[$10,PCR]', MN['LDA']).translate()",
    ("IndexedOperand('$10,PCR', MN['LEAX']).resolve_symbols({'V': NumericValue(5), 'Z0': NumericValue(0), 'L': "
     'AddressValue(2)}).translate()'),
    ("ExtendedIndexedOperand('[$10,PCR]', MN['LDD']).resolve_symbols({'V': NumericValue(5), 'Z0': "
     "NumericValue(0), 'L': AddressValue(2)}).translate()"),
    "IndexedOperand('$10,PC', MN['LDA']).translate()",
    "ExtendedIndexedOperand('[$10,PC]', MN['LDA']).translate()",
    ("IndexedOperand('$10,PC', MN['LEAX']).resolve_symbols({'V': NumericValue(5), 'Z0': NumericValue(0), 'L': "
     'AddressValue(2)}).translate()'),
    ("ExtendedIndexedOperand('[$10,PC]', MN['LDD']).resolve_symbols({'V': NumericValue(5), 'Z0': "
     "NumericValue(0), 'L': AddressValue(2)}).translate()"),
    "IndexedOperand('$10,X-', MN['LDA']).translate()",
    "ExtendedIndexedOperand('[$10,X-]', MN['LDA']).translate()",
    ("IndexedOperand('$10,X-', MN['LEAX']).resolve_symbols({'V': NumericValue(5), 'Z0': NumericValue(0), 'L': "
     'AddressValue(2)}).translate()'),
    ("ExtendedIndexedOperand('[$10,X-]', MN['LDD']).resolve_symbols({'V': NumericValue(5), 'Z0': "
     "NumericValue(0), 'L': AddressValue(2)}).translate()"),
    "IndexedOperand('$10,X--', MN['LDA']).translate()",
    "ExtendedIndexedOperand('[$10,X--]', MN['LDA']).translate()",
    ("IndexedOperand('$10,X--', MN['LEAX']).resolve_symbols({'V': NumericValue(5), 'Z0': NumericValue(0), 'L': "
     'AddressValue(2)}).translate()'),
    ("ExtendedIndexedOperand('[$10,X--]', MN['LDD']).resolve_symbols({'V': NumericValue(5), 'Z0': "
     "NumericValue(0), 'L': AddressValue(2)}).translate()"),
    "IndexedOperand('$10,+X', MN['LDA']).translate()",
    "ExtendedIndexedOperand('[$10,+X]', MN['LDA']).translate()",
    ("IndexedOperand('$10,+X', MN['LEAX']).resolve_symbols({'V': NumericValue(5), 'Z0': NumericValue(0), 'L': "
     'AddressValue(2)}).translate()'),
    ("ExtendedIndexedOperand('[$10,+X]', MN['LDD']).resolve_symbols({'V': NumericValue(5), 'Z0': "
     "NumericValue(0), 'L': AddressValue(2)}).translate()"),
    "IndexedOperand('$10,++X', MN['LDA']).translate()",
    "ExtendedIndexedOperand('[$10,++X]', MN['LDA']).translate()",
    ("IndexedOperand('$10,++X', MN['LEAX']).resolve_symbols({'V': NumericValue(5), 'Z0': NumericValue(0), 'L': "
     'AddressValue(2)}).translate()'),
    ("ExtendedIndexedOperand('[$10,++X]', MN['LDD']).resolve_symbols({'V': NumericValue(5), 'Z0': "
     "NumericValue(0), 'L': AddressValue(2)}).translate()"),
    "IndexedOperand('$10,X+-', MN['LDA']).translate()",
    "ExtendedIndexedOperand('[$10,X+-]', MN['LDA']).translate()",
    ("IndexedOperand('$10,X+-', MN['LEAX']).resolve_symbols({'V': NumericValue(5), 'Z0': NumericValue(0), 'L': "
     'AddressValue(2)}).translate()'),
    ("ExtendedIndexedOperand('[$10,X+-]', MN['LDD']).resolve_symbols({'V': NumericValue(5), 'Z0': "
     "NumericValue(0), 'L': AddressValue(2)}).translate()"),
    "IndexedOperand('$10,-X+', MN['LDA']).translate()",
    "ExtendedIndexedOperand('[$10,-X+]', MN['LDA']).translate()",
    ("IndexedOperand('$10,-X+', MN['LEAX']).resolve_symbols({'V': NumericValue(5), 'Z0': NumericValue(0), 'L': "
     'AddressValue(2)}).translate()'),
    ("ExtendedIndexedOperand('[$10,-X+]', MN['LDD']).resolve_symbols({'V': NumericValue(5), 'Z0': "
     "NumericValue(0), 'L': AddressValue(2)}).translate()"),
    "IndexedOperand('$10,', MN['LDA']).translate()",
    "ExtendedIndexedOperand('[$10,]', MN['LDA']).translate()",
    ("IndexedOperand('$10,', MN['LEAX']).resolve_symbols({'V': NumericValue(5), 'Z0': NumericValue(0), 'L': "
     'AddressValue(2)}).translate()'),
    ("ExtendedIndexedOperand('[$10,]', MN['LDD']).resolve_symbols({'V': NumericValue(5), 'Z0': NumericValue(0), "
     "'L': AddressValue(2)}).translate()"),
    "IndexedOperand('$10,Q', MN['LDA']).translate()",
    "ExtendedIndexedOperand('[$10,Q]', MN['LDA']).translate()",
    ("IndexedOperand('$10,Q', MN['LEAX']).resolve_symbols({'V': NumericValue(5), 'Z0': NumericValue(0), 'L': "
     'AddressValue(2)}).translate()'),
    ("ExtendedIndexedOperand('[$10,Q]', MN['LDD']).resolve_symbols({'V': NumericValue(5), 'Z0': NumericValue(0), "
     "'L': AddressValue(2)}).translate()"),
    "IndexedOperand('$10,X++Y', MN['LDA']).translate()",
    "ExtendedIndexedOperand('[$10,X++Y]', MN['LDA']).translate()",
    ("IndexedOperand('$10,X++Y', MN['LEAX']).resolve_symbols({'V': NumericValue(5), 'Z0': NumericValue(0), 'L': "
     'AddressValue(2)}).translate()'),
    ("ExtendedIndexedOperand('[$10,X++Y]', MN['LDD']).resolve_symbols({'V': NumericValue(5), 'Z0': "
     "NumericValue(0), 'L': AddressValue(2)}).translate()"),
    "IndexedOperand('$1000,X', MN['LDA']).translate()",
    "ExtendedIndexedOperand('[$1000,X]', MN['LDA']).translate()",
    ("IndexedOperand('$1000,X', MN['LEAX']).resolve_symbols({'V': NumericValue(5), 'Z0': NumericValue(0), 'L': "
     'AddressValue(2)}).translate()'),
    ("ExtendedIndexedOperand('[$1000,X]', MN['LDD']).resolve_symbols({'V': NumericValue(5), 'Z0': "
     "NumericValue(0), 'L': AddressValue(2)}).translate()"),
    "IndexedOperand('$1000,Y', MN['LDA']).translate()",
    "ExtendedIndexedOperand('[$1000,Y]', MN['LDA']).translate()",
    ("IndexedOperand('$1000,Y', MN['LEAX']).resolve_symbols({'V': NumericValue(5), 'Z0': NumericValue(0), 'L': "
     'AddressValue(2)}).translate()'),
    ("ExtendedIndexedOperand('[$1000,Y]', MN['LDD']).resolve_symbols({'V': NumericValue(5), 'Z0': "
     "NumericValue(0), 'L': AddressValue(2)}).translate()"),
    "IndexedOperand('$1000,U', MN['LDA']).translate()",
    "ExtendedIndexedOperand('[$1000,U]', MN['LDA']).translate()",
    ("IndexedOperand('$1000,U', MN['LEAX']).resolve_symbols({'V': NumericValue(5), 'Z0': NumericValue(0), 'L': "
     'AddressValue(2)}).translate()'),
    ("ExtendedIndexedOperand('[$1000,U]', MN['LDD']).resolve_symbols({'V': NumericValue(5), 'Z0': "
     "NumericValue(0), 'L': AddressValue(2)}).translate()"),
    "IndexedOperand('$1000,S', MN['LDA']).translate()",
    "ExtendedIndexedOperand('[$1000,S]', MN['LDA']).translate()",
    ("IndexedOperand('$1000,S', MN['LEAX']).resolve_symbols({'V': NumericValue(5), 'Z0': NumericValue(0), 'L': "
     'AddressValue(2)}).translate()'),
    ("ExtendedIndexedOperand('[$1000,S]', MN['LDD']).resolve_symbols({'V': NumericValue(5), 'Z0': "
     "NumericValue(0), 'L': AddressValue(2)}).translate()"),
    "IndexedOperand('$1000,X+', MN['LDA']).translate()",
    "ExtendedIndexedOperand('[$1000,X+]', MN['LDA']).translate()",
    ("IndexedOperand('$1000,X+', MN['LEAX']).resolve_symbols({'V': NumericValue(5), 'Z0': NumericValue(0), 'L': "
     'AddressValue(2)}).translate()'),
    ("ExtendedIndexedOperand('[$1000,X+]', MN['LDD']).resolve_symbols({'V': NumericValue(5), 'Z0': "
     "NumericValue(0), 'L': AddressValue(2)}).translate()"),
    "IndexedOperand('$1000,X++', MN['LDA']).translate()",
    "ExtendedIndexedOperand('[$1000,X++]', MN['LDA']).translate()",
    ("IndexedOperand('$1000,X++', MN['LEAX']).resolve_symbols({'V': NumericValue(5), 'Z0': NumericValue(0), 'L': "
     'AddressValue(2)}).translate()'),
    ("ExtendedIndexedOperand('[$1000,X++]', MN['LDD']).resolve_symbols({'V': NumericValue(5), 'Z0': "
     "NumericValue(0), 'L': AddressValue(2)}).translate()"),
    "IndexedOperand('$1000,-X', MN['LDA']).translate()",
    "ExtendedIndexedOperand('[$1000,-X]', MN['LDA']).translate()",
    ("IndexedOperand('$1000,-X', MN['LEAX']).resolve_symbols({'V': NumericValue(5), 'Z0': NumericValue(0), 'L': "
     'AddressValue(2)}).translate()'),
    ("ExtendedIndexedOperand('[$1000,-X]', MN['LDD']).resolve_symbols({'V': NumericValue(5), 'Z0': "
     "NumericValue(0), 'L': AddressValue(2)}).translate()"),
    "IndexedOperand('$1000,--X', MN['LDA']).translate()",
    "ExtendedIndexedOperand('[$1000,--X]', MN['LDA']).translate()",
    ("IndexedOperand('$1000,--X', MN['LEAX']).resolve_symbols({'V': NumericValue(5), 'Z0': NumericValue(0), 'L': "
     'AddressValue(2)}).translate()'),
    ("ExtendedIndexedOperand('[$1000,--X]', MN['LDD']).resolve_symbols({'V': NumericValue(5), 'Z0': "
     "NumericValue(0), 'L': AddressValue(2)}).translate()"),
    "IndexedOperand('$1000,Y+', MN['LDA']).translate()",
    "ExtendedIndexedOperand('[$1000,Y+]', MN['LDA']).translate()",
    ("IndexedOperand('$1000,Y+', MN['LEAX']).resolve_symbols({'V': NumericValue(5), 'Z0': NumericValue(0), 'L': "
     'AddressValue(2)}).translate()'),
    ("ExtendedIndexedOperand('[$1000,Y+]', MN['LDD']).resolve_symbols({'V': NumericValue(5), 'Z0': "
     "NumericValue(0), 'L': AddressValue(2)}).translate()"),
    "IndexedOperand('$1000,Y++', MN['LDA']).translate()",
    "ExtendedIndexedOperand('[$1000,Y++]', MN['LDA']).translate()",
    ("IndexedOperand('$1000,Y++', MN['LEAX']).resolve_symbols({'V': NumericValue(5), 'Z0': NumericValue(0), 'L': "
     'AddressValue(2)}).translate()'),
    ("ExtendedIndexedOperand('[$1000,Y++]', MN['LDD']).resolve_symbols({'V': NumericValue(5), 'Z0': "
     "NumericValue(0), 'L': AddressValue(2)}).translate()"),
    "IndexedOperand('$1000,-U', MN['LDA']).translate()",
    "ExtendedIndexedOperand('[$1000,-U]', MN['LDA']).translate()",
    ("IndexedOperand('$1000,-U', MN['LEAX']).resolve_symbols({'V': NumericValue(5), 'Z0': NumericValue(0), 'L': "
     'AddressValue(2)}).translate()'),
    ("ExtendedIndexedOperand('[$1000,-U]', MN['LDD']).resolve_symbols({'V': NumericValue(5), 'Z0': "
     "NumericValue(0), 'L': AddressValue(2)}).translate()"),
    "IndexedOperand('$1000,--S', MN['LDA']).translate()",
    "ExtendedIndexedOperand('[$1000,--S]', MN['LDA']).translate()",
    ("IndexedOperand('$1000,--S', MN['LEAX']).resolve_symbols({'V': NumericValue(5), 'Z0': NumericValue(0), 'L': "
     'AddressValue(2)}).translate()'),
    ("ExtendedIndexedOperand('[$1000,--S]', MN['LDD']).resolve_symbols({'V': NumericValue(5), 'Z0': "
     "NumericValue(0), 'L': AddressValue(2)}).translate()"),
    "IndexedOperand('$1000,PCR', MN['LDA']).translate()",
    "ExtendedIndexedOperand('[$1000,PCR]', MN['LDA']).translate()",
    ("IndexedOperand('$1000,PCR', MN['LEAX']).resolve_symbols({'V': NumericValue(5), 'Z0': NumericValue(0), 'L': "
     'AddressValue(2)}).translate()'),
    ("ExtendedIndexedOperand('[$1000,PCR]', MN['LDD']).resolve_symbols({'V': NumericValue(5), 'Z0': "
     "NumericValue(0), 'L': AddressValue(2)}).translate()"),
    "IndexedOperand('$1000,PC', MN['LDA']).translate()",
    "ExtendedIndexedOperand('[$1000,PC]', MN['LDA']).translate()",
    ("IndexedOperand('$1000,PC', MN['LEAX']).resolve_symbols({'V': NumericValue(5), 'Z0': NumericValue(0), 'L': "
     'AddressValue(2)}).translate()'),
    ("ExtendedIndexedOperand('[$1000,PC]', MN['LDD']).resolve_symbols({'V': NumericValue(5), 'Z0': "
     "NumericValue(0), 'L': AddressValue(2)}).translate()"),
    "IndexedOperand('$1000,X-', MN['LDA']).translate()",
    "ExtendedIndexedOperand('[$1000,X-]', MN['LDA']).translate()",
    ("IndexedOperand('$1000,X-', MN['LEAX']).resolve_symbols({'V': NumericValue(5), 'Z0': NumericValue(0), 'L': "
     'AddressValue(2)}).translate()'),
    ("ExtendedIndexedOperand('[$1000,X-]', MN['LDD']).resolve_symbols({'V': NumericValue(5), 'Z0': "
     "NumericValue(0), 'L': AddressValue(2)}).translate()"),
    "IndexedOperand('$1000,X--', MN['LDA']).translate()",
    "ExtendedIndexedOperand('[$1000,X--]', MN['LDA']).translate()",
    ("IndexedOperand('$1000,X--', MN['LEAX']).resolve_symbols({'V': NumericValue(5), 'Z0': NumericValue(0), 'L': "
     'AddressValue(2)}).translate()'),
    ("ExtendedIndexedOperand('[$1000,X--]', MN['LDD']).resolve_symbols({'V': NumericValue(5), 'Z0': "
     "NumericValue(0), 'L': AddressValue(2)}).translate()"),
    "IndexedOperand('$1000,+X', MN['LDA']).translate()",
    "ExtendedIndexedOperand('[$1000,+X]', MN['LDA']).translate()",
    ("IndexedOperand('$1000,+X', MN['LEAX']).resolve_symbols({'V': NumericValue(5), 'Z0': NumericValue(0), 'L': "
     'AddressValue(2)}).translate()'),
    ("ExtendedIndexedOperand('[$1000,+X]', MN['LDD']).resolve_symbols({'V': NumericValue(5), 'Z0': "
     "NumericValue(0), 'L': AddressValue(2)}).translate()"),
    "IndexedOperand('$1000,++X', MN['LDA']).translate()",
    "ExtendedIndexedOperand('[$1000,++X]', MN['LDA']).translate()",
    ("IndexedOperand('$1000,++X', MN['LEAX']).resolve_symbols({'V': NumericValue(5), 'Z0': NumericValue(0), 'L': "
     'AddressValue(2)}).translate()'),
    ("ExtendedIndexedOperand('[$1000,++X]', MN['LDD']).resolve_symbols({'V': NumericValue(5), 'Z0': "
     "NumericValue(0), 'L': AddressValue(2)}).translate()"),
    "IndexedOperand('$1000,X+-', MN['LDA']).translate()",
    "ExtendedIndexedOperand('[$1000,X+-]', MN['LDA']).translate()",
    ("IndexedOperand('$1000,X+-', MN['LEAX']).resolve_symbols({'V': NumericValue(5), 'Z0': NumericValue(0), 'L': "
     'AddressValue(2)}).translate()'),
    ("ExtendedIndexedOperand('[$1000,X+-]', MN['LDD']).resolve_symbols({'V': NumericValue(5), 'Z0': "
     "NumericValue(0), 'L': AddressValue(2)}).translate()"),
    "IndexedOperand('$1000,-X+', MN['LDA']).translate()",
    "ExtendedIndexedOperand('[$1000,-X+]', MN['LDA']).translate()",
    ("IndexedOperand('$1000,-X+', MN['LEAX']).resolve_symbols({'V': NumericValue(5), 'Z0': NumericValue(0), 'L': "
     'AddressValue(2)}).translate()'),
    ("ExtendedIndexedOperand('[$1000,-X+]', MN['LDD']).resolve_symbols({'V': NumericValue(5), 'Z0': "
     "NumericValue(0), 'L': AddressValue(2)}).translate()"),
    "IndexedOperand('$1000,', MN['LDA']).translate()",
    "ExtendedIndexedOperand('[$1000,]', MN['LDA']).translate()",
    ("IndexedOperand('$1000,', MN['LEAX']).resolve_symbols({'V': NumericValue(5), 'Z0': NumericValue(0), 'L': "
     'AddressValue(2)}).translate()'),
    ("ExtendedIndexedOperand('[$1000,]', MN['LDD']).resolve_symbols({'V': NumericValue(5), 'Z0': "
     "NumericValue(0), 'L': AddressValue(2)}).translate()"),
    "IndexedOperand('$1000,Q', MN['LDA']).translate()",
    "ExtendedIndexedOperand('[$1000,Q]', MN['LDA']).translate()",
    ("IndexedOperand('$1000,Q', MN['LEAX']).resolve_symbols({'V': NumericValue(5), 'Z0': NumericValue(0), 'L': "
     'AddressValue(2)}).translate()'),
    ("ExtendedIndexedOperand('[$1000,Q]', MN['LDD']).resolve_symbols({'V': NumericValue(5), 'Z0': "
     "NumericValue(0), 'L': AddressValue(2)}).translate()"),
    "IndexedOperand('$1000,X++Y', MN['LDA']).translate()",
    "ExtendedIndexedOperand('[$1000,X++Y]', MN['LDA']).translate()",
    ("IndexedOperand('$1000,X++Y', MN['LEAX']).resolve_symbols({'V': NumericValue(5), 'Z0': NumericValue(0), "
     "'L': AddressValue(2)}).translate()"),
    ("ExtendedIndexedOperand('[$1000,X++Y]', MN['LDD']).resolve_symbols({'V': NumericValue(5), 'Z0': "
     "NumericValue(0), 'L': AddressValue(2)}).translate()"),
    "IndexedOperand('A,X', MN['LDA']).translate()",
    "ExtendedIndexedOperand('[A,X]', MN['LDA']).translate()",
    ("IndexedOperand('A,X', MN['LEAX']).resolve_symbols({'V': NumericValue(5), 'Z0': NumericValue(0), 'L': "
     'AddressValue(2)}).translate()'),
    ("ExtendedIndexedOperand('[A,X]', MN['LDD']).resolve_symbols({'V': NumericValue(5), 'Z0': NumericValue(0), "
     "'L': AddressValue(2)}).translate()"),
    "IndexedOperand('A,Y', MN['LDA']).translate()",
    "ExtendedIndexedOperand('[A,Y]', MN['LDA']).translate()",
    ("IndexedOperand('A,Y', MN['LEAX']).resolve_symbols({'V': NumericValue(5), 'Z0': NumericValue(0), 'L': "
     'AddressValue(2)}).translate()'),
    ("ExtendedIndexedOperand('[A,Y]', MN['LDD']).resolve_symbols({'V': NumericValue(5), 'Z0': NumericValue(0), "
     "'L': AddressValue(2)}).translate()"),
    "IndexedOperand('A,U', MN['LDA']).translate()",
    "ExtendedIndexedOperand('[A,U]', MN['LDA']).translate()",
    ("IndexedOperand('A,U', MN['LEAX']).resolve_symbols({'V': NumericValue(5), 'Z0': NumericValue(0), 'L': "
     'AddressValue(2)}).translate()'),
    ("ExtendedIndexedOperand('[A,U]', MN['LDD']).resolve_symbols({'V': NumericValue(5), 'Z0': NumericValue(0), "
     "'L': AddressValue(2)}).translate()"),
    "IndexedOperand('A,S', MN['LDA']).translate()",
    "ExtendedIndexedOperand('[A,S]', MN['LDA']).translate()",
    ("IndexedOperand('A,S', MN['LEAX']).resolve_symbols({'V': NumericValue(5), 'Z0': NumericValue(0), 'L': "
     'AddressValue(2)}).translate()'),
    ("ExtendedIndexedOperand('[A,S]', MN['LDD']).resolve_symbols({'V': NumericValue(5), 'Z0': NumericValue(0), "
     "'L': AddressValue(2)}).translate()"),
    "IndexedOperand('A,X+', MN['LDA']).translate()",
    "ExtendedIndexedOperand('[A,X+]', MN['LDA']).translate()",
    ("IndexedOperand('A,X+', MN['LEAX']).resolve_symbols({'V': NumericValue(5), 'Z0': NumericValue(0), 'L': "
     'AddressValue(2)}).translate()'),
    ("ExtendedIndexedOperand('[A,X+]', MN['LDD']).resolve_symbols({'V': NumericValue(5), 'Z0': NumericValue(0), "
     "'L': AddressValue(2)}).translate()"),
    "IndexedOperand('A,X++', MN['LDA']).translate()",
    "ExtendedIndexedOperand('[A,X++]', MN['LDA']).translate()",
    ("IndexedOperand('A,X++', MN['LEAX']).resolve_symbols({'V': NumericValue(5), 'Z0': NumericValue(0), 'L': "
     'AddressValue(2)}).translate()'),
    ("ExtendedIndexedOperand('[A,X++]', MN['LDD']).resolve_symbols({'V': NumericValue(5), 'Z0': NumericValue(0), "
     "'L': AddressValue(2)}).translate()"),
    "IndexedOperand('A,-X', MN['LDA']).translate()",
    "ExtendedIndexedOperand('[A,-X]', MN['LDA']).translate()",
    ("IndexedOperand('A,-X', MN['LEAX']).resolve_symbols({'V': NumericValue(5), 'Z0': NumericValue(0), 'L': "
     'AddressValue(2)}).translate()'),
    ("ExtendedIndexedOperand('[A,-X]', MN['LDD']).resolve_symbols({'V': NumericValue(5), 'Z0': NumericValue(0), "
     "'L': AddressValue(2)}).translate()"),
    "IndexedOperand('A,--X', MN['LDA']).translate()",
    "ExtendedIndexedOperand('[A,--X]', MN['LDA']).translate()",
    ("IndexedOperand('A,--X', MN['LEAX']).resolve_symbols({'V': NumericValue(5), 'Z0': NumericValue(0), 'L': "
     'AddressValue(2)}).translate()'),
    ("ExtendedIndexedOperand('[A,--X]', MN['LDD']).resolve_symbols({'V': NumericValue(5), 'Z0': NumericValue(0), "
     "'L': AddressValue(2)}).translate()"),
    "IndexedOperand('A,Y+', MN['LDA']).translate()",
    "ExtendedIndexedOperand('[A,Y+]', MN['LDA']).translate()",
    ("IndexedOperand('A,Y+', MN['LEAX']).resolve_symbols({'V': NumericValue(5), 'Z0': NumericValue(0), 'L': "
     'AddressValue(2)}).translate()'),
    ("ExtendedIndexedOperand('[A,Y+]', MN['LDD']).resolve_symbols({'V': NumericValue(5), 'Z0': NumericValue(0), "
     "'L': AddressValue(2)}).translate()"),
    "IndexedOperand('A,Y++', MN['LDA']).translate()",
    "ExtendedIndexedOperand('[A,Y++]', MN['LDA']).translate()",
    ("IndexedOperand('A,Y++', MN['LEAX']).resolve_symbols({'V': NumericValue(5), 'Z0': NumericValue(0), 'L': "
     'AddressValue(2)}).translate()'),
    ("ExtendedIndexedOperand('[A,Y++]', MN['LDD']).resolve_symbols({'V': NumericValue(5), 'Z0': NumericValue(0), "
     "'L': AddressValue(2)}).translate()"),
    "IndexedOperand('A,-U', MN['LDA']).translate()",
    "ExtendedIndexedOperand('[A,-U]', MN['LDA']).translate()",
    ("IndexedOperand('A,-U', MN['LEAX']).resolve_symbols({'V': NumericValue(5), 'Z0': NumericValue(0), 'L': "
     'AddressValue(2)}).translate()'),
    ("ExtendedIndexedOperand('[A,-U]', MN['LDD']).resolve_symbols({'V': NumericValue(5), 'Z0': NumericValue(0), "
     "'L': AddressValue(2)}).translate()"),
    "IndexedOperand('A,--S', MN['LDA']).translate()",
    "ExtendedIndexedOperand('[A,--S]', MN['LDA']).translate()",
    ("IndexedOperand('A,--S', MN['LEAX']).resolve_symbols({'V': NumericValue(5), 'Z0': NumericValue(0), 'L': "
     'AddressValue(2)}).translate()'),
    ("ExtendedIndexedOperand('[A,--S]', MN['LDD']).resolve_symbols({'V': NumericValue(5), 'Z0': NumericValue(0), "
     "'L': AddressValue(2)}).translate()"),
    "IndexedOperand('A,PCR', MN['LDA']).translate()",
    "ExtendedIndexedOperand('[A,PCR]', MN['LDA']).translate()",
    ("IndexedOperand('A,PCR', MN['LEAX']).resolve_symbols({'V': NumericValue(5), 'Z0': NumericValue(0), 'L': "
     'AddressValue(2)}).translate()'),
    ("ExtendedIndexedOperand('[A,PCR]', MN['LDD']).resolve_symbols({'V': NumericValue(5), 'Z0': NumericValue(0), "
     "'L': AddressValue(2)}).translate()"),
    "IndexedOperand('A,PC', MN['LDA']).translate()",
    "ExtendedIndexedOperand('[A,PC]', MN['LDA']).translate()",
    ("IndexedOperand('A,PC', MN['LEAX']).resolve_symbols({'V': NumericValue(5), 'Z0': NumericValue(0), 'L': "
     'AddressValue(2)}).translate()'),
    ("ExtendedIndexedOperand('[A,PC]', MN['LDD']).resolve_symbols({'V': NumericValue(5), 'Z0': NumericValue(0), "
     "'L': AddressValue(2)}).translate()"),
    "IndexedOperand('A,X-', MN['LDA']).translate()",
    "ExtendedIndexedOperand('[A,X-]', MN['LDA']).translate()",
    ("IndexedOperand('A,X-', MN['LEAX']).resolve_symbols({'V': NumericValue(5), 'Z0': NumericValue(0), 'L': "
     'AddressValue(2)}).translate()'),
    ("ExtendedIndexedOperand('[A,X-]', MN['LDD']).resolve_symbols({'V': NumericValue(5), 'Z0': NumericValue(0), "
     "'L': AddressValue(2)}).translate()"),
    "IndexedOperand('A,X--', MN['LDA']).translate()",
    "ExtendedIndexedOperand('[A,X--]', MN['LDA']).translate()",
    ("IndexedOperand('A,X--', MN['LEAX']).resolve_symbols({'V': NumericValue(5), 'Z0': NumericValue(0), 'L': "
     'AddressValue(2)}).translate()'),
    ("ExtendedIndexedOperand('[A,X--]', MN['LDD']).resolve_symbols({'V': NumericValue(5), 'Z0': NumericValue(0), "
     "'L': AddressValue(2)}).translate()"),
    "IndexedOperand('A,+X', MN['LDA']).translate()",
    "ExtendedIndexedOperand('[A,+X]', MN['LDA']).translate()",
    ("IndexedOperand('A,+X', MN['LEAX']).resolve_symbols({'V': NumericValue(5), 'Z0': NumericValue(0), 'L': "
     'AddressValue(2)}).translate()'),
    ("ExtendedIndexedOperand('[A,+X]', MN['LDD']).resolve_symbols({'V': NumericValue(5), 'Z0': NumericValue(0), "
     "'L': AddressValue(2)}).translate()"),
    "IndexedOperand('A,++X', MN['LDA']).translate()",
    "ExtendedIndexedOperand('[A,++X]', MN['LDA']).translate()",
    ("IndexedOperand('A,++X', MN['LEAX']).resolve_symbols({'V': NumericValue(5), 'Z0': NumericValue(0), 'L': "
     'AddressValue(2)}).translate()'),
    ("ExtendedIndexedOperand('[A,++X]', MN['LDD']).resolve_symbols({'V': NumericValue(5), 'Z0': NumericValue(0), "
     "'L': AddressValue(2)}).translate()"),
    "IndexedOperand('A,X+-', MN['LDA']).translate()",
    "ExtendedIndexedOperand('[A,X+-]', MN['LDA']).translate()",
    ("IndexedOperand('A,X+-', MN['LEAX']).resolve_symbols({'V': NumericValue(5), 'Z0': NumericValue(0), 'L': "
     'AddressValue(2)}).translate()'),
    ("ExtendedIndexedOperand('[A,X+-]', MN['LDD']).resolve_symbols({'V': NumericValue(5), 'Z0': NumericValue(0), "
     "'L': AddressValue(2)}).translate()"),
    "IndexedOperand('A,-X+', MN['LDA']).translate()",
    "ExtendedIndexedOperand('[A,-X+]', MN['LDA']).translate()",
    ("IndexedOperand('A,-X+', MN['LEAX']).resolve_symbols({'V': NumericValue(5), 'Z0': NumericValue(0), 'L': "
     'AddressValue(2)}).translate()'),
    ("ExtendedIndexedOperand('[A,-X+]', MN['LDD']).resolve_symbols({'V': NumericValue(5), 'Z0': NumericValue(0), "
     "'L': AddressValue(2)}).translate()"),
    "IndexedOperand('A,', MN['LDA']).translate()",
    "ExtendedIndexedOperand('[A,]', MN['LDA']).translate()",
    ("IndexedOperand('A,', MN['LEAX']).resolve_symbols({'V': NumericValue(5), 'Z0': NumericValue(0), 'L': "
     'AddressValue(2)}).translate()'),
    ("ExtendedIndexedOperand('[A,]', MN['LDD']).resolve_symbols({'V': NumericValue(5), 'Z0': NumericValue(0), "
     "'L': AddressValue(2)}).translate()"),
    "IndexedOperand('A,Q', MN['LDA']).translate()",
    "ExtendedIndexedOperand('[A,Q]', MN['LDA']).translate()",
    ("IndexedOperand('A,Q', MN['LEAX']).resolve_symbols({'V': NumericValue(5), 'Z0': NumericValue(0), 'L': "
     'AddressValue(2)}).translate()'),
    ("ExtendedIndexedOperand('[A,Q]', MN['LDD']).resolve_symbols({'V': NumericValue(5), 'Z0': NumericValue(0), "
     "'L': AddressValue(2)}).translate()"),
    "IndexedOperand('A,X++Y', MN['LDA']).translate()",
    "ExtendedIndexedOperand('[A,X++Y]', MN['LDA']).translate()",
    ("IndexedOperand('A,X++Y', MN['LEAX']).resolve_symbols({'V': NumericValue(5), 'Z0': NumericValue(0), 'L': "
     'AddressValue(2)}).translate()'),
    ("ExtendedIndexedOperand('[A,X++Y]', MN['LDD']).resolve_symbols({'V': NumericValue(5), 'Z0': "
     "NumericValue(0), 'L': AddressValue(2)}).translate()"),
    "IndexedOperand('B,X', MN['LDA']).translate()",
    "ExtendedIndexedOperand('[B,X]', MN['LDA']).translate()",
    ("IndexedOperand('B,X', MN['LEAX']).resolve_symbols({'V': NumericValue(5), 'Z0': NumericValue(0), 'L': "
     'AddressValue(2)}).translate()'),
    ("ExtendedIndexedOperand('[B,X]', MN['LDD']).resolve_symbols({'V': NumericValue(5), 'Z0': NumericValue(0), "
     "'L': AddressValue(2)}).translate()"),
    "IndexedOperand('B,Y', MN['LDA']).translate()",
    "ExtendedIndexedOperand('[B,Y]', MN['LDA']).translate()",
    ("IndexedOperand('B,Y', MN['LEAX']).resolve_symbols({'V': NumericValue(5), 'Z0': NumericValue(0), 'L': "
     'AddressValue(2)}).translate()'),
    ("ExtendedIndexedOperand('[B,Y]', MN['LDD']).resolve_symbols({'V': NumericValue(5), 'Z0': NumericValue(0), "
     "'L': AddressValue(2)}).translate()"),
    "IndexedOperand('B,U', MN['LDA']).translate()",
    "ExtendedIndexedOperand('[B,U]', MN['LDA']).translate()",
    ("IndexedOperand('B,U', MN['LEAX']).resolve_symbols({'V': NumericValue(5), 'Z0': NumericValue(0), 'L': "
     'AddressValue(2)}).translate()'),
    ("ExtendedIndexedOperand('[B,U]', MN['LDD']).resolve_symbols({'V': NumericValue(5), 'Z0': NumericValue(0), "
     "'L': AddressValue(2)}).translate()"),
    "IndexedOperand('B,S', MN['LDA']).translate()",
    "ExtendedIndexedOperand('[B,S]', MN['LDA']).translate()",
    ("IndexedOperand('B,S', MN['LEAX']).resolve_symbols({'V': NumericValue(5), 'Z0': NumericValue(0), 'L': "
     'AddressValue(2)}).translate()'),
    ("ExtendedIndexedOperand('[B,S]', MN['LDD']).resolve_symbols({'V': NumericValue(5), 'Z0': NumericValue(0), "
     "'L': AddressValue(2)}).translate()"),
    "IndexedOperand('B,X+', MN['LDA']).translate()",
    "ExtendedIndexedOperand('[B,X+]', MN['LDA']).translate()",
    ("IndexedOperand('B,X+', MN['LEAX']).resolve_symbols({'V': NumericValue(5), 'Z0': NumericValue(0), 'L': "
     'AddressValue(2)}).translate()'),
    ("ExtendedIndexedOperand('[B,X+]', MN['LDD']).resolve_symbols({'V': NumericValue(5), 'Z0': NumericValue(0), "
     "'L': AddressValue(2)}).translate()"),
    "IndexedOperand('B,X++', MN['LDA']).translate()",
    "ExtendedIndexedOperand('[B,X++]', MN['LDA']).translate()",
    ("IndexedOperand('B,X++', MN['LEAX']).resolve_symbols({'V': NumericValue(5), 'Z0': NumericValue(0), 'L': "
     'AddressValue(2)}).translate()'),
    ("ExtendedIndexedOperand('[B,X++]', MN['LDD']).resolve_symbols({'V': NumericValue(5), 'Z0': NumericValue(0), "
     "'L': AddressValue(2)}).translate()"),
    "IndexedOperand('B,-X', MN['LDA']).translate()",
    "ExtendedIndexedOperand('[B,-X]', MN['LDA']).translate()",
    ("IndexedOperand('B,-X', MN['LEAX']).resolve_symbols({'V': NumericValue(5), 'Z0': NumericValue(0), 'L': "
     'AddressValue(2)}).translate()'),
    ("ExtendedIndexedOperand('[B,-X]', MN['LDD']).resolve_symbols({'V': NumericValue(5), 'Z0': NumericValue(0), "
     "'L': AddressValue(2)}).translate()"),
    "IndexedOperand('B,--X', MN['LDA']).translate()",
    "ExtendedIndexedOperand('[B,--X]', MN['LDA']).translate()",
    ("IndexedOperand('B,--X', MN['LEAX']).resolve_symbols({'V': NumericValue(5), 'Z0': NumericValue(0), 'L': "
     'AddressValue(2)}).translate()'),
    ("ExtendedIndexedOperand('[B,--X]', MN['LDD']).resolve_symbols({'V': NumericValue(5), 'Z0': NumericValue(0), "
     "'L': AddressValue(2)}).translate()"),
    "IndexedOperand('B,Y+', MN['LDA']).translate()",
    "ExtendedIndexedOperand('[B,Y+]', MN['LDA']).translate()",
    ("IndexedOperand('B,Y+', MN['LEAX']).resolve_symbols({'V': NumericValue(5), 'Z0': NumericValue(0), 'L': "
     'AddressValue(2)}).translate()'),
    ("ExtendedIndexedOperand('[B,Y+]', MN['LDD']).resolve_symbols({'V': NumericValue(5), 'Z0': NumericValue(0), "
     "'L': AddressValue(2)}).translate()"),
    "IndexedOperand('B,Y++', MN['LDA']).translate()",
    "ExtendedIndexedOperand('[B,Y++]', MN['LDA']).translate()",
    ("IndexedOperand('B,Y++', MN['LEAX']).resolve_symbols({'V': NumericValue(5), 'Z0': NumericValue(0), 'L': "
     'AddressValue(2)}).translate()'),
    ("ExtendedIndexedOperand('[B,Y++]', MN['LDD']).resolve_symbols({'V': NumericValue(5), 'Z0': NumericValue(0), "
     "'L': AddressValue(2)}).translate()"),
    "IndexedOperand('B,-U', MN['LDA']).translate()",
    "ExtendedIndexedOperand('[B,-U]', MN['LDA']).translate()",
    ("IndexedOperand('B,-U', MN['LEAX']).resolve_symbols({'V': NumericValue(5), 'Z0': NumericValue(0), 'L': "
     'AddressValue(2)}).translate()'),
    ("ExtendedIndexedOperand('[B,-U]', MN['LDD']).resolve_symbols({'V': NumericValue(5), 'Z0': NumericValue(0), "
     "'L': AddressValue(2)}).translate()"),
    "IndexedOperand('B,--S', MN['LDA']).translate()",
    "ExtendedIndexedOperand('[B,--S]', MN['LDA']).translate()",
    ("IndexedOperand('B,--S', MN['LEAX']).resolve_symbols({'V': NumericValue(5), 'Z0': NumericValue(0), 'L': "
     'AddressValue(2)}).translate()'),
    ("ExtendedIndexedOperand('[B,--S]', MN['LDD']).resolve_symbols({'V': NumericValue(5), 'Z0': NumericValue(0), "
     "'L': AddressValue(2)}).translate()"),
    "IndexedOperand('B,PCR', MN['LDA']).translate()",
    "ExtendedIndexedOperand('[B,PCR]', MN['LDA']).translate()",
    ("IndexedOperand('B,PCR', MN['LEAX']).resolve_symbols({'V': NumericValue(5), 'Z0': NumericValue(0), 'L': "
     'AddressValue(2)}).translate()'),
    ("ExtendedIndexedOperand('[B,PCR]', MN['LDD']).resolve_symbols({'V': NumericValue(5), 'Z0': NumericValue(0), "
     "'L': AddressValue(2)}).translate()"),
    "IndexedOperand('B,PC', MN['LDA']).translate()",
    "ExtendedIndexedOperand('[B,PC]', MN['LDA']).translate()",
    ("IndexedOperand('B,PC', MN['LEAX']).resolve_symbols({'V': NumericValue(5), 'Z0': NumericValue(0), 'L': "
     'AddressValue(2)}).translate()'),
    ("ExtendedIndexedOperand('[B,PC]', MN['LDD']).resolve_symbols({'V': NumericValue(5), 'Z0': NumericValue(0), "
     "'L': AddressValue(2)}).translate()"),
    "IndexedOperand('B,X-', MN['LDA']).translate()",
    "ExtendedIndexedOperand('[B,X-]', MN['LDA']).translate()",
    ("IndexedOperand('B,X-', MN['LEAX']).resolve_symbols({'V': NumericValue(5), 'Z0': NumericValue(0), 'L': "
     'AddressValue(2)}).translate()'),
    ("ExtendedIndexedOperand('[B,X-]', MN['LDD']).resolve_symbols({'V': NumericValue(5), 'Z0': NumericValue(0), "
     "'L': AddressValue(2)}).translate()"),
    "IndexedOperand('B,X--', MN['LDA']).translate()",
    "ExtendedIndexedOperand('[B,X--]', MN['LDA']).translate()",
    ("IndexedOperand('B,X--', MN['LEAX']).resolve_symbols({'V': NumericValue(5), 'Z0': NumericValue(0), 'L': "
     'AddressValue(2)}).translate()'),
    ("ExtendedIndexedOperand('[B,X--]', MN['LDD']).resolve_symbols({'V': NumericValue(5), 'Z0': NumericValue(0), "
     "'L': AddressValue(2)}).translate()"),
    "IndexedOperand('B,+X', MN['LDA']).translate()",
    "ExtendedIndexedOperand('[B,+X]', MN['LDA']).translate()",
    ("IndexedOperand('B,+X', MN['LEAX']).resolve_symbols({'V': NumericValue(5), 'Z0': NumericValue(0), 'L': "
     'AddressValue(2)}).translate()'),
    ("ExtendedIndexedOperand('[B,+X]', MN['LDD']).resolve_symbols({'V': NumericValue(5), 'Z0': NumericValue(0), "
     "'L': AddressValue(2)}).translate()"),
    "IndexedOperand('B,++X', MN['LDA']).translate()",
    "ExtendedIndexedOperand('[B,++X]', MN['LDA']).translate()",
    ("IndexedOperand('B,++X', MN['LEAX']).resolve_symbols({'V': NumericValue(5), 'Z0': NumericValue(0), 'L': "
     'AddressValue(2)}).translate()'),
    ("ExtendedIndexedOperand('[B,++X]', MN['LDD']).resolve_symbols({'V': NumericValue(5), 'Z0': NumericValue(0), "
     "'L': AddressValue(2)}).translate()"),
    "IndexedOperand('B,X+-', MN['LDA']).translate()",
    "ExtendedIndexedOperand('[B,X+-]', MN['LDA']).translate()",
    ("IndexedOperand('B,X+-', MN['LEAX']).resolve_symbols({'V': NumericValue(5), 'Z0': NumericValue(0), 'L': "
     'AddressValue(2)}).translate()'),
    ("ExtendedIndexedOperand('[B,X+-]', MN['LDD']).resolve_symbols({'V': NumericValue(5), 'Z0': NumericValue(0), "
     "'L': AddressValue(2)}).translate()"),
    "IndexedOperand('B,-X+', MN['LDA']).translate()",
    "ExtendedIndexedOperand('[B,-X+]', MN['LDA']).translate()",
    ("IndexedOperand('B,-X+', MN['LEAX']).resolve_symbols({'V': NumericValue(5), 'Z0': NumericValue(0), 'L': "
     'AddressValue(2)}).translate()'),
    ("ExtendedIndexedOperand('[B,-X+]', MN['LDD']).resolve_symbols({'V': NumericValue(5), 'Z0': NumericValue(0), "
     "'L': AddressValue(2)}).translate()"),
    "IndexedOperand('B,', MN['LDA']).translate()",
    "ExtendedIndexedOperand('[B,]', MN['LDA']).translate()",
    ("IndexedOperand('B,', MN['LEAX']).resolve_symbols({'V': NumericValue(5), 'Z0': NumericValue(0), 'L': "
     'AddressValue(2)}).translate()'),
    ("ExtendedIndexedOperand('[B,]', MN['LDD']).resolve_symbols({'V': NumericValue(5), 'Z0': NumericValue(0), "
     "'L': AddressValue(2)}).translate()"),
    "IndexedOperand('B,Q', MN['LDA']).translate()",
    "ExtendedIndexedOperand('[B,Q]', MN['LDA']).translate()",
    ("IndexedOperand('B,Q', MN['LEAX']).resolve_symbols({'V': NumericValue(5), 'Z0': NumericValue(0), 'L': "
     'AddressValue(2)}).translate()'),
    ("ExtendedIndexedOperand('[B,Q]', MN['LDD']).resolve_symbols({'V': NumericValue(5), 'Z0': NumericValue(0), "
     "'L': AddressValue(2)}).translate()"),
    "IndexedOperand('B,X++Y', MN['LDA']).translate()",
    "ExtendedIndexedOperand('[B,X++Y]', MN['LDA']).translate()",
    ("IndexedOperand('B,X++Y', MN['LEAX']).resolve_symbols({'V': NumericValue(5), 'Z0': NumericValue(0), 'L': "
     'AddressValue(2)}).translate()'),
    ("ExtendedIndexedOperand('[B,X++Y]', MN['LDD']).resolve_symbols({'V': NumericValue(5), 'Z0': "
     "NumericValue(0), 'L': AddressValue(2)}).translate()"),
    "IndexedOperand('D,X', MN['LDA']).translate()",
    "ExtendedIndexedOperand('[D,X]', MN['LDA']).translate()",
    ("IndexedOperand('D,X', MN['LEAX']).resolve_symbols({'V': NumericValue(5), 'Z0': NumericValue(0), 'L': "
     'AddressValue(2)}).translate()'),
    ("ExtendedIndexedOperand('[D,X]', MN['LDD']).resolve_symbols({'V': NumericValue(5), 'Z0': NumericValue(0), "
     "'L': AddressValue(2)}).translate()"),
    "IndexedOperand('D,Y', MN['LDA']).translate()",
    "ExtendedIndexedOperand('[D,Y]', MN['LDA']).translate()",
    ("IndexedOperand('D,Y', MN['LEAX']).resolve_symbols({'V': NumericValue(5), 'Z0': NumericValue(0), 'L': "
     'AddressValue(2)}).translate()'),
    ("ExtendedIndexedOperand('[D,Y]', MN['LDD']).resolve_symbols({'V': NumericValue(5), 'Z0': NumericValue(0), "
     "'L': AddressValue(2)}).translate()"),
    "IndexedOperand('D,U', MN['LDA']).translate()",
    "ExtendedIndexedOperand('[D,U]', MN['LDA']).translate()",
    ("IndexedOperand('D,U', MN['LEAX']).resolve_symbols({'V': NumericValue(5), 'Z0': NumericValue(0), 'L': "
     'AddressValue(2)}).translate()'),
    ("ExtendedIndexedOperand('[D,U]', MN['LDD']).resolve_symbols({'V': NumericValue(5), 'Z0': NumericValue(0), "
     "'L': AddressValue(2)}).translate()"),
    "IndexedOperand('D,S', MN['LDA']).translate()",
    "ExtendedIndexedOperand('[D,S]', MN['LDA']).translate()",
    ("IndexedOperand('D,S', MN['LEAX']).resolve_symbols({'V': NumericValue(5), 'Z0': NumericValue(0), 'L': "
     'AddressValue(2)}).translate()'),
    ("ExtendedIndexedOperand('[D,S]', MN['LDD']).resolve_symbols({'V': NumericValue(5), 'Z0': NumericValue(0), "
     "'L': AddressValue(2)}).translate()"),
    "IndexedOperand('D,X+', MN['LDA']).translate()",
    "ExtendedIndexedOperand('[D,X+]', MN['LDA']).translate()",
    ("IndexedOperand('D,X+', MN['LEAX']).resolve_symbols({'V': NumericValue(5), 'Z0': NumericValue(0), 'L': "
     'AddressValue(2)}).translate()'),
    ("ExtendedIndexedOperand('[D,X+]', MN['LDD']).resolve_symbols({'V': NumericValue(5), 'Z0': NumericValue(0), "
     "'L': AddressValue(2)}).translate()"),
    "IndexedOperand('D,X++', MN['LDA']).translate()",
    "ExtendedIndexedOperand('[D,X++]', MN['LDA']).translate()",
    ("IndexedOperand('D,X++', MN['LEAX']).resolve_symbols({'V': NumericValue(5), 'Z0': NumericValue(0), 'L': "
     'AddressValue(2)}).translate()'),
    ("ExtendedIndexedOperand('[D,X++]', MN['LDD']).resolve_symbols({'V': NumericValue(5), 'Z0': NumericValue(0), "
     "'L': AddressValue(2)}).translate()"),
    "IndexedOperand('D,-X', MN['LDA']).translate()",
    "ExtendedIndexedOperand('[D,-X]', MN['LDA']).translate()",
    ("IndexedOperand('D,-X', MN['LEAX']).resolve_symbols({'V': NumericValue(5), 'Z0': NumericValue(0), 'L': "
     'AddressValue(2)}).translate()'),
    ("ExtendedIndexedOperand('[D,-X]', MN['LDD']).resolve_symbols({'V': NumericValue(5), 'Z0': NumericValue(0), "
     "'L': AddressValue(2)}).translate()"),
    "IndexedOperand('D,--X', MN['LDA']).translate()",
    "ExtendedIndexedOperand('[D,--X]', MN['LDA']).translate()",
    ("IndexedOperand('D,--X', MN['LEAX']).resolve_symbols({'V': NumericValue(5), 'Z0': NumericValue(0), 'L': "
     'AddressValue(2)}).translate()'),
    ("ExtendedIndexedOperand('[D,--X]', MN['LDD']).resolve_symbols({'V': NumericValue(5), 'Z0': NumericValue(0), "
     "'L': AddressValue(2)}).translate()"),
    "IndexedOperand('D,Y+', MN['LDA']).translate()",
    "ExtendedIndexedOperand('[D,Y+]', MN['LDA']).translate()",
    ("IndexedOperand('D,Y+', MN['LEAX']).resolve_symbols({'V': NumericValue(5), 'Z0': NumericValue(0), 'L': "
     'AddressValue(2)}).translate()'),
    ("ExtendedIndexedOperand('[D,Y+]', MN['LDD']).resolve_symbols({'V': NumericValue(5), 'Z0': NumericValue(0), "
     "'L': AddressValue(2)}).translate()"),
    "IndexedOperand('D,Y++', MN['LDA']).translate()",
    "ExtendedIndexedOperand('[D,Y++]', MN['LDA']).translate()",
    ("IndexedOperand('D,Y++', MN['LEAX']).resolve_symbols({'V': NumericValue(5), 'Z0': NumericValue(0), 'L': "
     'AddressValue(2)}).translate()'),
    ("ExtendedIndexedOperand('[D,Y++]', MN['LDD']).resolve_symbols({'V': NumericValue(5), 'Z0': NumericValue(0), "
     "'L': AddressValue(2)}).translate()"),
    "IndexedOperand('D,-U', MN['LDA']).translate()",
    "ExtendedIndexedOperand('[D,-U]', MN['LDA']).translate()",
    ("IndexedOperand('D,-U', MN['LEAX']).resolve_symbols({'V': NumericValue(5), 'Z0': NumericValue(0), 'L': "
     'AddressValue(2)}).translate()'),
    ("ExtendedIndexedOperand('[D,-U]', MN['LDD']).resolve_symbols({'V': NumericValue(5), 'Z0': NumericValue(0), "
     "'L': AddressValue(2)}).translate()"),
    "IndexedOperand('D,--S', MN['LDA']).translate()",
    "ExtendedIndexedOperand('[D,--S]', MN['LDA']).translate()",
    ("IndexedOperand('D,--S', MN['LEAX']).resolve_symbols({'V': NumericValue(5), 'Z0': NumericValue(0), 'L': "
     'AddressValue(2)}).translate()'),
    ("ExtendedIndexedOperand('[D,--S]', MN['LDD']).resolve_symbols({'V': NumericValue(5), 'Z0': NumericValue(0), "
     "'L': AddressValue(2)}).translate()"),
    "IndexedOperand('D,PCR', MN['LDA']).translate()",
    "ExtendedIndexedOperand('[D,PCR]', MN['LDA']).translate()",
    ("IndexedOperand('D,PCR', MN['LEAX']).resolve_symbols({'V': NumericValue(5), 'Z0': NumericValue(0), 'L': "
     'AddressValue(2)}).translate()'),
    ("ExtendedIndexedOperand('[D,PCR]', MN['LDD']).resolve_symbols({'V': NumericValue(5), 'Z0': NumericValue(0), "
     "'L': AddressValue(2)}).translate()"),
    "IndexedOperand('D,PC', MN['LDA']).translate()",
    "ExtendedIndexedOperand('[D,PC]', MN['LDA']).translate()",
    ("IndexedOperand('D,PC', MN['LEAX']).resolve_symbols({'V': NumericValue(5), 'Z0': NumericValue(0), 'L': "
     'AddressValue(2)}).translate()'),
    ("ExtendedIndexedOperand('[D,PC]', MN['LDD']).resolve_symbols({'V': NumericValue(5), 'Z0': NumericValue(0), "
     "'L': AddressValue(2)}).translate()"),
    "IndexedOperand('D,X-', MN['LDA']).translate()",
    "ExtendedIndexedOperand('[D,X-]', MN['LDA']).translate()",
    ("IndexedOperand('D,X-', MN['LEAX']).resolve_symbols({'V': NumericValue(5), 'Z0': NumericValue(0), 'L': "
     'AddressValue(2)}).translate()'),
    ("ExtendedIndexedOperand('[D,X-]', MN['LDD']).resolve_symbols({'V': NumericValue(5), 'Z0': NumericValue(0), "
     "'L': AddressValue(2)}).translate()"),
    "IndexedOperand('D,X--', MN['LDA']).translate()",
    "ExtendedIndexedOperand('[D,X--]', MN['LDA']).translate()",
    ("IndexedOperand('D,X--', MN['LEAX']).resolve_symbols({'V': NumericValue(5), 'Z0': NumericValue(0), 'L': "
     'AddressValue(2)}).translate()'),
    ("ExtendedIndexedOperand('[D,X--]', MN['LDD']).resolve_symbols({'V': NumericValue(5), 'Z0': NumericValue(0), "
     "'L': AddressValue(2)}).translate()"),
    "IndexedOperand('D,+X', MN['LDA']).translate()",
    "ExtendedIndexedOperand('[D,+X]', MN['LDA']).translate()",
    ("IndexedOperand('D,+X', MN['LEAX']).resolve_symbols({'V': NumericValue(5), 'Z0': NumericValue(0), 'L': "
     'AddressValue(2)}).translate()'),
    ("ExtendedIndexedOperand('[D,+X]', MN['LDD']).resolve_symbols({'V': NumericValue(5), 'Z0': NumericValue(0), "
     "'L': AddressValue(2)}).translate()"),
    "IndexedOperand('D,++X', MN['LDA']).translate()",
    "ExtendedIndexedOperand('[D,++X]', MN['LDA']).translate()",
    ("IndexedOperand('D,++X', MN['LEAX']).resolve_symbols({'V': NumericValue(5), 'Z0': NumericValue(0), 'L': "
     'AddressValue(2)}).translate()'),
    ("ExtendedIndexedOperand('[D,++X]', MN['LDD']).resolve_symbols({'V': NumericValue(5), 'Z0': NumericValue(0), "
     "'L': AddressValue(2)}).translate()"),
    "IndexedOperand('D,X+-', MN['LDA']).translate()",
    "ExtendedIndexedOperand('[D,X+-]', MN['LDA']).translate()",
    ("IndexedOperand('D,X+-', MN['LEAX']).resolve_symbols({'V': NumericValue(5), 'Z0': NumericValue(0), 'L': "
     'AddressValue(2)}).translate()'),
    ("ExtendedIndexedOperand('[D,X+-]', MN['LDD']).resolve_symbols({'V': NumericValue(5), 'Z0': NumericValue(0), "
     "'L': AddressValue(2)}).translate()"),
    "IndexedOperand('D,-X+', MN['LDA']).translate()",
    "ExtendedIndexedOperand('[D,-X+]', MN['LDA']).translate()",
    ("IndexedOperand('D,-X+', MN['LEAX']).resolve_symbols({'V': NumericValue(5), 'Z0': NumericValue(0), 'L': "
     'AddressValue(2)}).translate()'),
    ("ExtendedIndexedOperand('[D,-X+]', MN['LDD']).resolve_symbols({'V': NumericValue(5), 'Z0': NumericValue(0), "
     "'L': AddressValue(2)}).translate()"),
    "IndexedOperand('D,', MN['LDA']).translate()",
    "ExtendedIndexedOperand('[D,]', MN['LDA']).translate()",
    ("IndexedOperand('D,', MN['LEAX']).resolve_symbols({'V': NumericValue(5), 'Z0': NumericValue(0), 'L': "
     'AddressValue(2)}).translate()'),
    ("ExtendedIndexedOperand('[D,]', MN['LDD']).resolve_symbols({'V': NumericValue(5), 'Z0': NumericValue(0), "
     "'L': AddressValue(2)}).translate()"),
    "IndexedOperand('D,Q', MN['LDA']).translate()",
    "ExtendedIndexedOperand('[D,Q]', MN['LDA']).translate()",
    ("IndexedOperand('D,Q', MN['LEAX']).resolve_symbols({'V': NumericValue(5), 'Z0': NumericValue(0), 'L': "
     'AddressValue(2)}).translate()'),
    ("ExtendedIndexedOperand('[D,Q]', MN['LDD']).resolve_symbols({'V': NumericValue(5), 'Z0': NumericValue(0), "
     "'L': AddressValue(2)}).translate()"),
    "IndexedOperand('D,X++Y', MN['LDA']).translate()",
    "ExtendedIndexedOperand('[D,X++Y]', MN['LDA']).translate()",
    ("IndexedOperand('D,X++Y', MN['LEAX']).resolve_symbols({'V': NumericValue(5), 'Z0': NumericValue(0), 'L': "
     'AddressValue(2)}).translate()'),
    ("ExtendedIndexedOperand('[D,X++Y]', MN['LDD']).resolve_symbols({'V': NumericValue(5), 'Z0': "
     "NumericValue(0), 'L': AddressValue(2)}).translate()"),
    "IndexedOperand('E,X', MN['LDA']).translate()",
    "ExtendedIndexedOperand('[E,X]', MN['LDA']).translate()",
    ("IndexedOperand('E,X', MN['LEAX']).resolve_symbols({'V': NumericValue(5), 'Z0': NumericValue(0), 'L': "
     'AddressValue(2)}).translate()'),
    ("ExtendedIndexedOperand('[E,X]', MN['LDD']).resolve_symbols({'V': NumericValue(5), 'Z0': NumericValue(0), "
     "'L': AddressValue(2)}).translate()"),
    "IndexedOperand('E,Y', MN['LDA']).translate()",
    "ExtendedIndexedOperand('[E,Y]', MN['LDA']).translate()",
    ("IndexedOperand('E,Y', MN['LEAX']).resolve_symbols({'V': NumericValue(5), 'Z0': NumericValue(0), 'L': "
     'AddressValue(2)}).translate()'),
    ("ExtendedIndexedOperand('[E,Y]', MN['LDD']).resolve_symbols({'V': NumericValue(5), 'Z0': NumericValue(0), "
     "'L': AddressValue(2)}).translate()"),
    "IndexedOperand('E,U', MN['LDA']).translate()",
    "ExtendedIndexedOperand('[E,U]', MN['LDA']).translate()",
    ("IndexedOperand('E,U', MN['LEAX']).resolve_symbols({'V': NumericValue(5), 'Z0': NumericValue(0), 'L': "
     'AddressValue(2)}).translate()'),
    ("ExtendedIndexedOperand('[E,U]', MN['LDD']).resolve_symbols({'V': NumericValue(5), 'Z0': NumericValue(0), "
     "'L': AddressValue(2)}).translate()"),
    "IndexedOperand('E,S', MN['LDA']).translate()",
    "ExtendedIndexedOperand('[E,S]', MN['LDA']).translate()",
    ("IndexedOperand('E,S', MN['LEAX']).resolve_symbols({'V': NumericValue(5), 'Z0': NumericValue(0), 'L': "
     'AddressValue(2)}).translate()'),
    ("ExtendedIndexedOperand('[E,S]', MN['LDD']).resolve_symbols({'V': NumericValue(5), 'Z0': NumericValue(0), "
     "'L': AddressValue(2)}).translate()"),
    "IndexedOperand('E,X+', MN['LDA']).translate()",
    "ExtendedIndexedOperand('[E,X+]', MN['LDA']).translate()",
    ("IndexedOperand('E,X+', MN['LEAX']).resolve_symbols({'V': NumericValue(5), 'Z0': NumericValue(0), 'L': "
     'AddressValue(2)}).translate()'),
    ("ExtendedIndexedOperand('[E,X+]', MN['LDD']).resolve_symbols({'V': NumericValue(5), 'Z0': NumericValue(0), "
     "'L': AddressValue(2)}).translate()"),
    "IndexedOperand('E,X++', MN['LDA']).translate()",
    "ExtendedIndexedOperand('[E,X++]', MN['LDA']).translate()",
    ("IndexedOperand('E,X++', MN['LEAX']).resolve_symbols({'V': NumericValue(5), 'Z0': NumericValue(0), 'L': "
     'AddressValue(2)}).translate()'),
    ("ExtendedIndexedOperand('[E,X++]', MN['LDD']).resolve_symbols({'V': NumericValue(5), 'Z0': NumericValue(0), "
     "'L': AddressValue(2)}).translate()"),
    "IndexedOperand('E,-X', MN['LDA']).translate()",
    "ExtendedIndexedOperand('[E,-X]', MN['LDA']).translate()",
    ("IndexedOperand('E,-X', MN['LEAX']).resolve_symbols({'V': NumericValue(5), 'Z0': NumericValue(0), 'L': "
     'AddressValue(2)}).translate()'),
    ("ExtendedIndexedOperand('[E,-X]', MN['LDD']).resolve_symbols({'V': NumericValue(5), 'Z0': NumericValue(0), "
     "'L': AddressValue(2)}).translate()"),
    "IndexedOperand('E,--X', MN['LDA']).translate()",
    "ExtendedIndexedOperand('[E,--X]', MN['LDA']).translate()",
    ("IndexedOperand('E,--X', MN['LEAX']).resolve_symbols({'V': NumericValue(5), 'Z0': NumericValue(0), 'L': "
     'AddressValue(2)}).translate()'),
    ("ExtendedIndexedOperand('[E,--X]', MN['LDD']).resolve_symbols({'V': NumericValue(5), 'Z0': NumericValue(0), "
     "'L': AddressValue(2)}).translate()"),
    "IndexedOperand('E,Y+', MN['LDA']).translate()",
    "ExtendedIndexedOperand('[E,Y+]', MN['LDA']).translate()",
    ("IndexedOperand('E,Y+', MN['LEAX']).resolve_symbols({'V': NumericValue(5), 'Z0': NumericValue(0), 'L': "
     'AddressValue(2)}).translate()'),
    ("ExtendedIndexedOperand('[E,Y+]', MN['LDD']).resolve_symbols({'V': NumericValue(5), 'Z0': NumericValue(0), "
     "'L': AddressValue(2)}).translate()"),
    "IndexedOperand('E,Y++', MN['LDA']).translate()",
    "ExtendedIndexedOperand('[E,Y++]', MN['LDA']).translate()",
    ("IndexedOperand('E,Y++', MN['LEAX']).resolve_symbols({'V': NumericValue(5), 'Z0': NumericValue(0), 'L': "
     'AddressValue(2)}).translate()'),
    ("ExtendedIndexedOperand('[E,Y++]', MN['LDD']).resolve_symbols({'V': NumericValue(5), 'Z0': NumericValue(0), "
     "'L': AddressValue(2)}).translate()"),
    "IndexedOperand('E,-U', MN['LDA']).translate()",
    "ExtendedIndexedOperand('[E,-U]', MN['LDA']).translate()",
    ("IndexedOperand('E,-U', MN['LEAX']).resolve_symbols({'V': NumericValue(5), 'Z0': NumericValue(0), 'L': "
     'AddressValue(2)}).translate()'),
    ("ExtendedIndexedOperand('[E,-U]', MN['LDD']).resolve_symbols({'V': NumericValue(5), 'Z0': NumericValue(0), "
     "'L': AddressValue(2)}).translate()"),
    "IndexedOperand('E,--S', MN['LDA']).translate()",
    "ExtendedIndexedOperand('[E,--S]', MN['LDA']).translate()",
    ("IndexedOperand('E,--S', MN['LEAX']).resolve_symbols({'V': NumericValue(5), 'Z0': NumericValue(0), 'L': "
     'AddressValue(2)}).translate()'),
    ("ExtendedIndexedOperand('[E,--S]', MN['LDD']).resolve_symbols({'V': NumericValue(5), 'Z0': NumericValue(0), "
     "'L': AddressValue(2)}).translate()"),
    "IndexedOperand('E,PCR', MN['LDA']).translate()",
    "ExtendedIndexedOperand('[E,PCR]', MN['LDA']).translate()",
    ("IndexedOperand('E,PCR', MN['LEAX']).resolve_symbols({'V': NumericValue(5), 'Z0': NumericValue(0), 'L': "
     'AddressValue(2)}).translate()'),
    ("ExtendedIndexedOperand('[E,PCR]', MN['LDD']).resolve_symbols({'V': NumericValue(5), 'Z0': NumericValue(0), "
     "'L': AddressValue(2)}).translate()"),
    "IndexedOperand('E,PC', MN['LDA']).translate()",
    "ExtendedIndexedOperand('[E,PC]', MN['LDA']).translate()",
    ("IndexedOperand('E,PC', MN['LEAX']).resolve_symbols({'V': NumericValue(5), 'Z0': NumericValue(0), 'L': "
     'AddressValue(2)}).translate()'),
    ("ExtendedIndexedOperand('[E,PC]', MN['LDD']).resolve_symbols({'V': NumericValue(5), 'Z0': NumericValue(0), "
     "'L': AddressValue(2)}).translate()"),
    "IndexedOperand('E,X-', MN['LDA']).translate()",
    "ExtendedIndexedOperand('[E,X-]', MN['LDA']).translate()",
    ("IndexedOperand('E,X-', MN['LEAX']).resolve_symbols({'V': NumericValue(5), 'Z0': NumericValue(0), 'L': "
     'AddressValue(2)}).translate()'),
    ("ExtendedIndexedOperand('[E,X-]', MN['LDD']).resolve_symbols({'V': NumericValue(5), 'Z0': NumericValue(0), "
     "'L': AddressValue(2)}).translate()"),
    "IndexedOperand('E,X--', MN['LDA']).translate()",
    "ExtendedIndexedOperand('[E,X--]', MN['LDA']).translate()",
    ("IndexedOperand('E,X--', MN['LEAX']).resolve_symbols({'V': NumericValue(5), 'Z0': NumericValue(0), 'L': "
     'AddressValue(2)}).translate()'),
    ("ExtendedIndexedOperand('[E,X--]', MN['LDD']).resolve_symbols({'V': NumericValue(5), 'Z0': NumericValue(0), "
     "'L': AddressValue(2)}).translate()"),
    "IndexedOperand('E,+X', MN['LDA']).translate()",
    "ExtendedIndexedOperand('[E,+X]', MN['LDA']).translate()",
    ("IndexedOperand('E,+X', MN['LEAX']).resolve_symbols({'V': NumericValue(5), 'Z0': NumericValue(0), 'L': "
     'AddressValue(2)}).translate()'),
    ("ExtendedIndexedOperand('[E,+X]', MN['LDD']).resolve_symbols({'V': NumericValue(5), 'Z0': NumericValue(0), "
     "'L': AddressValue(2)}).translate()"),
    "IndexedOperand('E,++X', MN['LDA']).translate()",
    "ExtendedIndexedOperand('[E,++X]', MN['LDA']).translate()",
    ("IndexedOperand('E,++X', MN['LEAX']).resolve_symbols({'V': NumericValue(5), 'Z0': NumericValue(0), 'L': "
     'AddressValue(2)}).translate()'),
    ("ExtendedIndexedOperand('[E,++X]', MN['LDD']).resolve_symbols({'V': NumericValue(5), 'Z0': NumericValue(0), "
     "'L': AddressValue(2)}).translate()"),
    "IndexedOperand('E,X+-', MN['LDA']).translate()",
    "ExtendedIndexedOperand('[E,X+-]', MN['LDA']).translate()",
    ("IndexedOperand('E,X+-', MN['LEAX']).resolve_symbols({'V': NumericValue(5), 'Z0': NumericValue(0), 'L': "
     'AddressValue(2)}).translate()'),
    ("ExtendedIndexedOperand('[E,X+-]', MN['LDD']).resolve_symbols({'V': NumericValue(5), 'Z0': NumericValue(0), "
     "'L': AddressValue(2)}).translate()"),
    "IndexedOperand('E,-X+', MN['LDA']).translate()",
    "ExtendedIndexedOperand('[E,-X+]', MN['LDA']).translate()",
    ("IndexedOperand('E,-X+', MN['LEAX']).resolve_symbols({'V': NumericValue(5), 'Z0': NumericValue(0), 'L': "
     'AddressValue(2)}).translate()'),
    ("ExtendedIndexedOperand('[E,-X+]', MN['LDD']).resolve_symbols({'V': NumericValue(5), 'Z0': NumericValue(0), "
     "'L': AddressValue(2)}).translate()"),
    "IndexedOperand('E,', MN['LDA']).translate()",
    "ExtendedIndexedOperand('[E,]', MN['LDA']).translate()",
    ("IndexedOperand('E,', MN['LEAX']).resolve_symbols({'V': NumericValue(5), 'Z0': NumericValue(0), 'L': "
     'AddressValue(2)}).translate()'),
    ("ExtendedIndexedOperand('[E,]', MN['LDD']).resolve_symbols({'V': NumericValue(5), 'Z0': NumericValue(0), "
     "'L': AddressValue(2)}).translate()"),
    "IndexedOperand('E,Q', MN['LDA']).translate()",
    "ExtendedIndexedOperand('[E,Q]', MN['LDA']).translate()",
    ("IndexedOperand('E,Q', MN['LEAX']).resolve_symbols({'V': NumericValue(5), 'Z0': NumericValue(0), 'L': "
     'AddressValue(2)}).translate()'),
    ("ExtendedIndexedOperand('[E,Q]', MN['LDD']).resolve_symbols({'V': NumericValue(5), 'Z0': NumericValue(0), "
     "'L': AddressValue(2)}).translate()"),
    "IndexedOperand('E,X++Y', MN['LDA']).translate()",
    "ExtendedIndexedOperand('[E,X++Y]', MN['LDA']).translate()",
    ("IndexedOperand('E,X++Y', MN['LEAX']).resolve_symbols({'V': NumericValue(5), 'Z0': NumericValue(0), 'L': "
     'AddressValue(2)}).translate()'),
    ("ExtendedIndexedOperand('[E,X++Y]', MN['LDD']).resolve_symbols({'V': NumericValue(5), 'Z0': "
     "NumericValue(0), 'L': AddressValue(2)}).translate()"),
    "IndexedOperand('V,X', MN['LDA']).translate()",
    "ExtendedIndexedOperand('[V,X]', MN['LDA']).translate()",
    ("IndexedOperand('V,X', MN['LEAX']).resolve_symbols({'V': NumericValue(5), 'Z0': NumericValue(0), 'L': "
     'AddressValue(2)}).translate()'),
    ("ExtendedIndexedOperand('[V,X]', MN['LDD']).resolve_symbols({'V': NumericValue(5), 'Z0': NumericValue(0), "
     "'L': AddressValue(2)}).translate()"),
    "IndexedOperand('V,Y', MN['LDA']).translate()",
    "ExtendedIndexedOperand('[V,Y]', MN['LDA']).translate()",
    ("IndexedOperand('V,Y', MN['LEAX']).resolve_symbols({'V': NumericValue(5), 'Z0': NumericValue(0), 'L': "
     'AddressValue(2)}).translate()'),
    ("ExtendedIndexedOperand('[V,Y]', MN['LDD']).resolve_symbols({'V': NumericValue(5), 'Z0': NumericValue(0), "
     "'L': AddressValue(2)}).translate()"),
    "IndexedOperand('V,U', MN['LDA']).translate()",
    "ExtendedIndexedOperand('[V,U]', MN['LDA']).translate()",
    ("IndexedOperand('V,U', MN['LEAX']).resolve_symbols({'V': NumericValue(5), 'Z0': NumericValue(0), 'L': "
     'AddressValue(2)}).translate()'),
    ("ExtendedIndexedOperand('[V,U]', MN['LDD']).resolve_symbols({'V': NumericValue(5), 'Z0': NumericValue(0), "
     "'L': AddressValue(2)}).translate()"),
    "IndexedOperand('V,S', MN['LDA']).translate()",
    "ExtendedIndexedOperand('[V,S]', MN['LDA']).translate()",
    ("IndexedOperand('V,S', MN['LEAX']).resolve_symbols({'V': NumericValue(5), 'Z0': NumericValue(0), 'L': "
     'AddressValue(2)}).translate()'),
    ("ExtendedIndexedOperand('[V,S]', MN['LDD']).resolve_symbols({'V': NumericValue(5), 'Z0': NumericValue(0), "
     "'L': AddressValue(2)}).translate()"),
    "IndexedOperand('V,X+', MN['LDA']).translate()",
    "ExtendedIndexedOperand('[V,X+]', MN['LDA']).translate()",
    ("IndexedOperand('V,X+', MN['LEAX']).resolve_symbols({'V': NumericValue(5), 'Z0': NumericValue(0), 'L': "
     'AddressValue(2)}).translate()'),
    ("ExtendedIndexedOperand('[V,X+]', MN['LDD']).resolve_symbols({'V': NumericValue(5), 'Z0': NumericValue(0), "
     "'L': AddressValue(2)}).translate()"),
    "IndexedOperand('V,X++', MN['LDA']).translate()",
    "ExtendedIndexedOperand('[V,X++]', MN['LDA']).translate()",
    ("IndexedOperand('V,X++', MN['LEAX']).resolve_symbols({'V': NumericValue(5), 'Z0': NumericValue(0), 'L': "
     'AddressValue(2)}).translate()'),
    ("ExtendedIndexedOperand('[V,X++]', MN['LDD']).resolve_symbols({'V': NumericValue(5), 'Z0': NumericValue(0), "
     "'L': AddressValue(2)}).translate()"),
    "IndexedOperand('V,-X', MN['LDA']).translate()",
    "ExtendedIndexedOperand('[V,-X]', MN['LDA']).translate()",
    ("IndexedOperand('V,-X', MN['LEAX']).resolve_symbols({'V': NumericValue(5), 'Z0': NumericValue(0), 'L': "
     'AddressValue(2)}).translate()'),
    ("ExtendedIndexedOperand('[V,-X]', MN['LDD']).resolve_symbols({'V': NumericValue(5), 'Z0': NumericValue(0), "
     "'L': AddressValue(2)}).translate()"),
    "IndexedOperand('V,--X', MN['LDA']).translate()",
    "ExtendedIndexedOperand('[V,--X]', MN['LDA']).translate()",
    ("IndexedOperand('V,--X', MN['LEAX']).resolve_symbols({'V': NumericValue(5), 'Z0': NumericValue(0), 'L': "
     'AddressValue(2)}).translate()'),
    ("ExtendedIndexedOperand('[V,--X]', MN['LDD']).resolve_symbols({'V': NumericValue(5), 'Z0': NumericValue(0), "
     "'L': AddressValue(2)}).translate()"),
    "IndexedOperand('V,Y+', MN['LDA']).translate()",
    "ExtendedIndexedOperand('[V,Y+]', MN['LDA']).translate()",
    ("IndexedOperand('V,Y+', MN['LEAX']).resolve_symbols({'V': NumericValue(5), 'Z0': NumericValue(0), 'L': "
     'AddressValue(2)}).translate()'),
    ("ExtendedIndexedOperand('[V,Y+]', MN['LDD']).resolve_symbols({'V': NumericValue(5), 'Z0': NumericValue(0), "
     "'L': AddressValue(2)}).translate()"),
    "IndexedOperand('V,Y++', MN['LDA']).translate()",
    "ExtendedIndexedOperand('[V,Y++]', MN['LDA']).translate()",
    ("IndexedOperand('V,Y++', MN['LEAX']).resolve_symbols({'V': NumericValue(5), 'Z0': NumericValue(0), 'L': "
     'AddressValue(2)}).translate()'),
    ("ExtendedIndexedOperand('[V,Y++]', MN['LDD']).resolve_symbols({'V': NumericValue(5), 'Z0': NumericValue(0), "
     "'L': AddressValue(2)}).translate()"),
    "IndexedOperand('V,-U', MN['LDA']).translate()",
    "ExtendedIndexedOperand('[V,-U]', MN['LDA']).translate()",
    ("IndexedOperand('V,-U', MN['LEAX']).resolve_symbols({'V': NumericValue(5), 'Z0': NumericValue(0), 'L': "
     'AddressValue(2)}).translate()'),
    ("ExtendedIndexedOperand('[V,-U]', MN['LDD']).resolve_symbols({'V': NumericValue(5), 'Z0': NumericValue(0), "
     "'L': AddressValue(2)}).translate()"),
    "IndexedOperand('V,--S', MN['LDA']).translate()",
    "ExtendedIndexedOperand('[V,--S]', MN['LDA']).translate()",
    ("IndexedOperand('V,--S', MN['LEAX']).resolve_symbols({'V': NumericValue(5), 'Z0': NumericValue(0), 'L': "
     'AddressValue(2)}).translate()'),
    ("ExtendedIndexedOperand('[V,--S]', MN['LDD']).resolve_symbols({'V': NumericValue(5), 'Z0': NumericValue(0), "
     "'L': AddressValue(2)}).translate()"),
    "IndexedOperand('V,PCR', MN['LDA']).translate()",
    "ExtendedIndexedOperand('[V,PCR]', MN['LDA']).translate()",
    ("IndexedOperand('V,PCR', MN['LEAX']).resolve_symbols({'V': NumericValue(5), 'Z0': NumericValue(0), 'L': "
     'AddressValue(2)}).translate()'),
    ("ExtendedIndexedOperand('[V,PCR]', MN['LDD']).resolve_symbols({'V': NumericValue(5), 'Z0': NumericValue(0), "
     "'L': AddressValue(2)}).translate()"),
    "IndexedOperand('V,PC', MN['LDA']).translate()",
    "ExtendedIndexedOperand('[V,PC]', MN['LDA']).translate()",
    ("IndexedOperand('V,PC', MN['LEAX']).resolve_symbols({'V': NumericValue(5), 'Z0': NumericValue(0), 'L': "
     'AddressValue(2)}).translate()'),
    ("ExtendedIndexedOperand('[V,PC]', MN['LDD']).resolve_symbols({'V': NumericValue(5), 'Z0': NumericValue(0), "
     "'L': AddressValue(2)}).translate()"),
    "IndexedOperand('V,X-', MN['LDA']).translate()",
    "ExtendedIndexedOperand('[V,X-]', MN['LDA']).translate()",
    ("IndexedOperand('V,X-', MN['LEAX']).resolve_symbols({'V': NumericValue(5), 'Z0': NumericValue(0), 'L': "
     'AddressValue(2)}).translate()'),
    ("ExtendedIndexedOperand('[V,X-]', MN['LDD']).resolve_symbols({'V': NumericValue(5), 'Z0': NumericValue(0), "
     "'L': AddressValue(2)}).translate()"),
    "IndexedOperand('V,X--', MN['LDA']).translate()",
    "ExtendedIndexedOperand('[V,X--]', MN['LDA']).translate()",
    ("IndexedOperand('V,X--', MN['LEAX']).resolve_symbols({'V': NumericValue(5), 'Z0': NumericValue(0), 'L': "
     'AddressValue(2)}).translate()'),
    ("ExtendedIndexedOperand('[V,X--]', MN['LDD']).resolve_symbols({'V': NumericValue(5), 'Z0': NumericValue(0), "
     "'L': AddressValue(2)}).translate()"),
    "IndexedOperand('V,+X', MN['LDA']).translate()",
    "ExtendedIndexedOperand('[V,+X]', MN['LDA']).translate()",
    ("IndexedOperand('V,+X', MN['LEAX']).resolve_symbols({'V': NumericValue(5), 'Z0': NumericValue(0), 'L': "
     'AddressValue(2)}).translate()'),
    ("ExtendedIndexedOperand('[V,+X]', MN['LDD']).resolve_symbols({'V': NumericValue(5), 'Z0': NumericValue(0), "
     "'L': AddressValue(2)}).translate()"),
    "IndexedOperand('V,++X', MN['LDA']).translate()",
    "ExtendedIndexedOperand('[V,++X]', MN['LDA']).translate()",
    ("IndexedOperand('V,++X', MN['LEAX']).resolve_symbols({'V': NumericValue(5), 'Z0': NumericValue(0), 'L': "
     'AddressValue(2)}).translate()'),
    ("ExtendedIndexedOperand('[V,++X]', MN['LDD']).resolve_symbols({'V': NumericValue(5), 'Z0': NumericValue(0), "
     "'L': AddressValue(2)}).translate()"),
    "IndexedOperand('V,X+-', MN['LDA']).translate()",
    "ExtendedIndexedOperand('[V,X+-]', MN['LDA']).translate()",
    ("IndexedOperand('V,X+-', MN['LEAX']).resolve_symbols({'V': NumericValue(5), 'Z0': NumericValue(0), 'L': "
     'AddressValue(2)}).translate()'),
    ("ExtendedIndexedOperand('[V,X+-]', MN['LDD']).resolve_symbols({'V': NumericValue(5), 'Z0': NumericValue(0), "
     "'L': AddressValue(2)}).translate()"),
    "IndexedOperand('V,-X+', MN['LDA']).translate()",
    "ExtendedIndexedOperand('[V,-X+]', MN['LDA']).translate()",
    ("IndexedOperand('V,-X+', MN['LEAX']).resolve_symbols({'V': NumericValue(5), 'Z0': NumericValue(0), 'L': "
     'AddressValue(2)}).translate()'),
    ("ExtendedIndexedOperand('[V,-X+]', MN['LDD']).resolve_symbols({'V': NumericValue(5), 'Z0': NumericValue(0), "
     "'L': AddressValue(2)}).translate()"),
    "IndexedOperand('V,', MN['LDA']).translate()",
    "ExtendedIndexedOperand('[V,]', MN['LDA']).translate()",
    ("IndexedOperand('V,', MN['LEAX']).resolve_symbols({'V': NumericValue(5), 'Z0': NumericValue(0), 'L': "
     'AddressValue(2)}).translate()'),
    ("ExtendedIndexedOperand('[V,]', MN['LDD']).resolve_symbols({'V': NumericValue(5), 'Z0': NumericValue(0), "
     "'L': AddressValue(2)}).translate()"),
    "IndexedOperand('V,Q', MN['LDA']).translate()",
    "ExtendedIndexedOperand('[V,Q]', MN['LDA']).translate()",
    ("IndexedOperand('V,Q', MN['LEAX']).resolve_symbols({'V': NumericValue(5), 'Z0': NumericValue(0), 'L': "
     'AddressValue(2)}).translate()'),
    ("ExtendedIndexedOperand('[V,Q]', MN['LDD']).resolve_symbols({'V': NumericValue(5), 'Z0': NumericValue(0), "
     "'L': AddressValue(2)}).translate()"),
    "IndexedOperand('V,X++Y', MN['LDA']).translate()",
    "ExtendedIndexedOperand('[V,X++Y]', MN['LDA']).translate()",
    ("IndexedOperand('V,X++Y', MN['LEAX']).resolve_symbols({'V': NumericValue(5), 'Z0': NumericValue(0), 'L': "
     'AddressValue(2)}).translate()'),
    ("ExtendedIndexedOperand('[V,X++Y]', MN['LDD']).resolve_symbols({'V': NumericValue(5), 'Z0': "
     "NumericValue(0), 'L': AddressValue(2)}).translate()"),
    "IndexedOperand('Z0,X', MN['LDA']).translate()",
    "ExtendedIndexedOperand('[Z0,X]', MN['LDA']).translate()",
    ("IndexedOperand('Z0,X', MN['LEAX']).resolve_symbols({'V': NumericValue(5), 'Z0': NumericValue(0), 'L': "
     'AddressValue(2)}).translate()'),
    ("ExtendedIndexedOperand('[Z0,X]', MN['LDD']).resolve_symbols({'V': NumericValue(5), 'Z0': NumericValue(0), "
     "'L': AddressValue(2)}).translate()"),
    "IndexedOperand('Z0,Y', MN['LDA']).translate()",
    "ExtendedIndexedOperand('[Z0,Y]', MN['LDA']).translate()",
    ("IndexedOperand('Z0,Y', MN['LEAX']).resolve_symbols({'V': NumericValue(5), 'Z0': NumericValue(0), 'L': "
     'AddressValue(2)}).translate()'),
    ("ExtendedIndexedOperand('[Z0,Y]', MN['LDD']).resolve_symbols({'V': NumericValue(5), 'Z0': NumericValue(0), "
     "'L': AddressValue(2)}).translate()"),
    "IndexedOperand('Z0,U', MN['LDA']).translate()",
    "ExtendedIndexedOperand('[Z0,U]', MN['LDA']).translate()",
    ("IndexedOperand('Z0,U', MN['LEAX']).resolve_symbols({'V': NumericValue(5), 'Z0': NumericValue(0), 'L': "
     'AddressValue(2)}).translate()'),
    ("ExtendedIndexedOperand('[Z0,U]', MN['LDD']).resolve_symbols({'V': NumericValue(5), 'Z0': NumericValue(0), "
     "'L': AddressValue(2)}).translate()"),
    "IndexedOperand('Z0,S', MN['LDA']).translate()",
    "ExtendedIndexedOperand('[Z0,S]', MN['LDA']).translate()",
    ("IndexedOperand('Z0,S', MN['LEAX']).resolve_symbols({'V': NumericValue(5), 'Z0': NumericValue(0), 'L': "
     'AddressValue(2)}).translate()'),
    ("ExtendedIndexedOperand('[Z0,S]', MN['LDD']).resolve_symbols({'V': NumericValue(5), 'Z0': NumericValue(0), "
     "'L': AddressValue(2)}).translate()"),
    "IndexedOperand('Z0,X+', MN['LDA']).translate()",
    "ExtendedIndexedOperand('[Z0,X+]', MN['LDA']).translate()",
    ("IndexedOperand('Z0,X+', MN['LEAX']).resolve_symbols({'V': NumericValue(5), 'Z0': NumericValue(0), 'L': "
     'AddressValue(2)}).translate()'),
    ("ExtendedIndexedOperand('[Z0,X+]', MN['LDD']).resolve_symbols({'V': NumericValue(5), 'Z0': NumericValue(0), "
     "'L': AddressValue(2)}).translate()"),
    "IndexedOperand('Z0,X++', MN['LDA']).translate()",
    "ExtendedIndexedOperand('[Z0,X++]', MN['LDA']).translate()",
    ("IndexedOperand('Z0,X++', MN['LEAX']).resolve_symbols({'V': NumericValue(5), 'Z0': NumericValue(0), 'L': "
     'AddressValue(2)}).translate()'),
    ("ExtendedIndexedOperand('[Z0,X++]', MN['LDD']).resolve_symbols({'V': NumericValue(5), 'Z0': "
     "NumericValue(0), 'L': AddressValue(2)}).translate()"),
    "IndexedOperand('Z0,-X', MN['LDA']).translate()",
    "ExtendedIndexedOperand('[Z0,-X]', MN['LDA']).translate()",
    ("IndexedOperand('Z0,-X', MN['LEAX']).resolve_symbols({'V': NumericValue(5), 'Z0': NumericValue(0), 'L': "
     'AddressValue(2)}).translate()'),
    ("ExtendedIndexedOperand('[Z0,-X]', MN['LDD']).resolve_symbols({'V': NumericValue(5), 'Z0': NumericValue(0), "
     "'L': AddressValue(2)}).translate()"),
    "IndexedOperand('Z0,--X', MN['LDA']).translate()",
    "ExtendedIndexedOperand('[Z0,--X]', MN['LDA']).translate()",
    ("IndexedOperand('Z0,--X', MN['LEAX']).resolve_symbols({'V': NumericValue(5), 'Z0': NumericValue(0), 'L': "
     'AddressValue(2)}).translate()'),
    ("ExtendedIndexedOperand('[Z0,--X]', MN['LDD']).resolve_symbols({'V': NumericValue(5), 'Z0': "
     "NumericValue(0), 'L': AddressValue(2)}).translate()"),
    "IndexedOperand('Z0,Y+', MN['LDA']).translate()",
    "ExtendedIndexedOperand('[Z0,Y+]', MN['LDA']).translate()",
    ("IndexedOperand('Z0,Y+', MN['LEAX']).resolve_symbols({'V': NumericValue(5), 'Z0': NumericValue(0), 'L': "
     'AddressValue(2)}).translate()'),
    ("ExtendedIndexedOperand('[Z0,Y+]', MN['LDD']).resolve_symbols({'V': NumericValue(5), 'Z0': NumericValue(0), "
     "'L': AddressValue(2)}).translate()"),
    "IndexedOperand('Z0,Y++', MN['LDA']).translate()",
    "ExtendedIndexedOperand('[Z0,Y++]', MN['LDA']).translate()",
    ("IndexedOperand('Z0,Y++', MN['LEAX']).resolve_symbols({'V': NumericValue(5), 'Z0': NumericValue(0), 'L': "
     'AddressValue(2)}).translate()'),
    ("ExtendedIndexedOperand('[Z0,Y++]', MN['LDD']).resolve_symbols({'V': NumericValue(5), 'Z0': "
     "NumericValue(0), 'L': AddressValue(2)}).translate()"),
    "IndexedOperand('Z0,-U', MN['LDA']).translate()",
    "ExtendedIndexedOperand('[Z0,-U]', MN['LDA']).translate()",
    ("IndexedOperand('Z0,-U', MN['LEAX']).resolve_symbols({'V': NumericValue(5), 'Z0': NumericValue(0), 'L': "
     'AddressValue(2)}).translate()'),
    ("ExtendedIndexedOperand('[Z0,-U]', MN['LDD']).resolve_symbols({'V': NumericValue(5), 'Z0': NumericValue(0), "
     "'L': AddressValue(2)}).translate()"),
    "IndexedOperand('Z0,--S', MN['LDA']).translate()",
    "ExtendedIndexedOperand('[Z0,--S]', MN['LDA']).translate()",
    ("IndexedOperand('Z0,--S', MN['LEAX']).resolve_symbols({'V': NumericValue(5), 'Z0': NumericValue(0), 'L': "
     'AddressValue(2)}).translate()'),
    ("ExtendedIndexedOperand('[Z0,--S]', MN['LDD']).resolve_symbols({'V': NumericValue(5), 'Z0': "
     "NumericValue(0), 'L': AddressValue(2)}).translate()"),
    "IndexedOperand('Z0,PCR', MN['LDA']).translate()",
    "ExtendedIndexedOperand('[Z0,PCR]', MN['LDA']).translate()",
    ("IndexedOperand('Z0,PCR', MN['LEAX']).resolve_symbols({'V': NumericValue(5), 'Z0': NumericValue(0), 'L': "
     'AddressValue(2)}).translate()'),
    ("ExtendedIndexedOperand('[Z0,PCR]', MN['LDD']).resolve_symbols({'V': NumericValue(5), 'Z0': "
     "NumericValue(0), 'L': AddressValue(2)}).translate()"),
    "IndexedOperand('Z0,PC', MN['LDA']).translate()",
    "ExtendedIndexedOperand('[Z0,PC]', MN['LDA']).translate()",
    ("IndexedOperand('Z0,PC', MN['LEAX']).resolve_symbols({'V': NumericValue(5), 'Z0': NumericValue(0), 'L': "
     'AddressValue(2)}).translate()'),
    ("ExtendedIndexedOperand('[Z0,PC]', MN['LDD']).resolve_symbols({'V': NumericValue(5), 'Z0': NumericValue(0), "
     "'L': AddressValue(2)}).translate()"),
    "IndexedOperand('Z0,X-', MN['LDA']).translate()",
    "ExtendedIndexedOperand('[Z0,X-]', MN['LDA']).translate()",
    ("IndexedOperand('Z0,X-', MN['LEAX']).resolve_symbols({'V': NumericValue(5), 'Z0': NumericValue(0), 'L': "
     'AddressValue(2)}).translate()'),
    ("ExtendedIndexedOperand('[Z0,X-]', MN['LDD']).resolve_symbols({'V': NumericValue(5), 'Z0': NumericValue(0), "
     "'L': AddressValue(2)}).translate()"),
    "IndexedOperand('Z0,X--', MN['LDA']).translate()",
    "ExtendedIndexedOperand('[Z0,X--]', MN['LDA']).translate()",
    ("IndexedOperand('Z0,X--', MN['LEAX']).resolve_symbols({'V': NumericValue(5), 'Z0': NumericValue(0), 'L': "
     'AddressValue(2)}).translate()'),
    ("ExtendedIndexedOperand('[Z0,X--]', MN['LDD']).resolve_symbols({'V': NumericValue(5), 'Z0': "
     "NumericValue(0), 'L': AddressValue(2)}).translate()"),
    "IndexedOperand('Z0,+X', MN['LDA']).translate()",
    "ExtendedIndexedOperand('[Z0,+X]', MN['LDA']).translate()",
    ("IndexedOperand('Z0,+X', MN['LEAX']).resolve_symbols({'V': NumericValue(5), 'Z0': NumericValue(0), 'L': "
     'AddressValue(2)}).translate()'),
    ("ExtendedIndexedOperand('[Z0,+X]', MN['LDD']).resolve_symbols({'V': NumericValue(5), 'Z0': NumericValue(0), "
     "'L': AddressValue(2)}).translate()"),
    "IndexedOperand('Z0,++X', MN['LDA']).translate()",
    "ExtendedIndexedOperand('[Z0,++X]', MN['LDA']).translate()",
    ("IndexedOperand('Z0,++X', MN['LEAX']).resolve_symbols({'V': NumericValue(5), 'Z0': NumericValue(0), 'L': "
     'AddressValue(2)}).translate()'),
    ("ExtendedIndexedOperand('[Z0,++X]', MN['LDD']).resolve_symbols({'V': NumericValue(5), 'Z0': "
     "NumericValue(0), 'L': AddressValue(2)}).translate()"),
    "IndexedOperand('Z0,X+-', MN['LDA']).translate()",
    "ExtendedIndexedOperand('[Z0,X+-]', MN['LDA']).translate()",
    ("IndexedOperand('Z0,X+-', MN['LEAX']).resolve_symbols({'V': NumericValue(5), 'Z0': NumericValue(0), 'L': "
     'AddressValue(2)}).translate()'),
    ("ExtendedIndexedOperand('[Z0,X+-]', MN['LDD']).resolve_symbols({'V': NumericValue(5), 'Z0': "
     "NumericValue(0), 'L': AddressValue(2)}).translate()"),
    "IndexedOperand('Z0,-X+', MN['LDA']).translate()",
    "ExtendedIndexedOperand('[Z0,-X+]', MN['LDA']).translate()",
    ("IndexedOperand('Z0,-X+', MN['LEAX']).resolve_symbols({'V': NumericValue(5), 'Z0': NumericValue(0), 'L': "
     'AddressValue(2)}).translate()'),
    ("ExtendedIndexedOperand('[Z0,-X+]', MN['LDD']).resolve_symbols({'V': NumericValue(5), 'Z0': "
     "NumericValue(0), 'L': AddressValue(2)}).translate()"),
    "IndexedOperand('Z0,', MN['LDA']).translate()",
    "ExtendedIndexedOperand('[Z0,]', MN['LDA']).translate()",
    ("IndexedOperand('Z0,', MN['LEAX']).resolve_symbols({'V': NumericValue(5), 'Z0': NumericValue(0), 'L': "
     'AddressValue(2)}).translate()'),
    ("ExtendedIndexedOperand('[Z0,]', MN['LDD']).resolve_symbols({'V': NumericValue(5), 'Z0': NumericValue(0), "
     "'L': AddressValue(2)}).translate()"),
    "IndexedOperand('Z0,Q', MN['LDA']).translate()",
    "ExtendedIndexedOperand('[Z0,Q]', MN['LDA']).translate()",
    ("IndexedOperand('Z0,Q', MN['LEAX']).resolve_symbols({'V': NumericValue(5), 'Z0': NumericValue(0), 'L': "
     'AddressValue(2)}).translate()'),
    ("ExtendedIndexedOperand('[Z0,Q]', MN['LDD']).resolve_symbols({'V': NumericValue(5), 'Z0': NumericValue(0), "
     "'L': AddressValue(2)}).translate()"),
    "IndexedOperand('Z0,X++Y', MN['LDA']).translate()",
    "ExtendedIndexedOperand('[Z0,X++Y]', MN['LDA']).translate()",
    ("IndexedOperand('Z0,X++Y', MN['LEAX']).resolve_symbols({'V': NumericValue(5), 'Z0': NumericValue(0), 'L': "
     'AddressValue(2)}).translate()'),
    ("ExtendedIndexedOperand('[Z0,X++Y]', MN['LDD']).resolve_symbols({'V': NumericValue(5), 'Z0': "
     "NumericValue(0), 'L': AddressValue(2)}).translate()"),
    "IndexedOperand('L,X', MN['LDA']).translate()",
    "ExtendedIndexedOperand('[L,X]', MN['LDA']).translate()",
    ("IndexedOperand('L,X', MN['LEAX']).resolve_symbols({'V': NumericValue(5), 'Z0': NumericValue(0), 'L': "
     'AddressValue(2)}).translate()'),
    ("ExtendedIndexedOperand('[L,X]', MN['LDD']).resolve_symbols({'V': NumericValue(5), 'Z0': NumericValue(0), "
     "'L': AddressValue(2)}).translate()"),
    "IndexedOperand('L,Y', MN['LDA']).translate()",
    "ExtendedIndexedOperand('[L,Y]', MN['LDA']).translate()",
    ("IndexedOperand('L,Y', MN['LEAX']).resolve_symbols({'V': NumericValue(5), 'Z0': NumericValue(0), 'L': "
     'AddressValue(2)}).translate()'),
    ("ExtendedIndexedOperand('[L,Y]', MN['LDD']).resolve_symbols({'V': NumericValue(5), 'Z0': NumericValue(0), "
     "'L': AddressValue(2)}).translate()"),
    "IndexedOperand('L,U', MN['LDA']).translate()",
    "ExtendedIndexedOperand('[L,U]', MN['LDA']).translate()",
    ("IndexedOperand('L,U', MN['LEAX']).resolve_symbols({'V': NumericValue(5), 'Z0': NumericValue(0), 'L': "
     'AddressValue(2)}).translate()'),
    ("ExtendedIndexedOperand('[L,U]', MN['LDD']).resolve_symbols({'V': NumericValue(5), 'Z0': NumericValue(0), "
     "'L': AddressValue(2)}).translate()"),
    "IndexedOperand('L,S', MN['LDA']).translate()",
    "ExtendedIndexedOperand('[L,S]', MN['LDA']).translate()",
    ("IndexedOperand('L,S', MN['LEAX']).resolve_symbols({'V': NumericValue(5), 'Z0': NumericValue(0), 'L': "
     'AddressValue(2)}).translate()'),
    ("ExtendedIndexedOperand('[L,S]', MN['LDD']).resolve_symbols({'V': NumericValue(5), 'Z0': NumericValue(0), "
     "'L': AddressValue(2)}).translate()"),
    "IndexedOperand('L,X+', MN['LDA']).translate()",
    "ExtendedIndexedOperand('[L,X+]', MN['LDA']).translate()",
    ("IndexedOperand('L,X+', MN['LEAX']).resolve_symbols({'V': NumericValue(5), 'Z0': NumericValue(0), 'L': "
     'AddressValue(2)}).translate()'),
    ("ExtendedIndexedOperand('[L,X+]', MN['LDD']).resolve_symbols({'V': NumericValue(5), 'Z0': NumericValue(0), "
     "'L': AddressValue(2)}).translate()"),
    "IndexedOperand('L,X++', MN['LDA']).translate()",
    "ExtendedIndexedOperand('[L,X++]', MN['LDA']).translate()",
    ("IndexedOperand('L,X++', MN['LEAX']).resolve_symbols({'V': NumericValue(5), 'Z0': NumericValue(0), 'L': "
     'AddressValue(2)}).translate()'),
    ("ExtendedIndexedOperand('[L,X++]', MN['LDD']).resolve_symbols({'V': NumericValue(5), 'Z0': NumericValue(0), "
     "'L': AddressValue(2)}).translate()"),
    "IndexedOperand('L,-X', MN['LDA']).translate()",
    "ExtendedIndexedOperand('[L,-X]', MN['LDA']).translate()",
    ("IndexedOperand('L,-X', MN['LEAX']).resolve_symbols({'V': NumericValue(5), 'Z0': NumericValue(0), 'L': "
     'AddressValue(2)}).translate()'),
    ("ExtendedIndexedOperand('[L,-X]', MN['LDD']).resolve_symbols({'V': NumericValue(5), 'Z0': NumericValue(0), "
     "'L': AddressValue(2)}).translate()"),
    "IndexedOperand('L,--X', MN['LDA']).translate()",
    "ExtendedIndexedOperand('[L,--X]', MN['LDA']).translate()",
    ("IndexedOperand('L,--X', MN['LEAX']).resolve_symbols({'V': NumericValue(5), 'Z0': NumericValue(0), 'L': "
     'AddressValue(2)}).translate()'),
    ("ExtendedIndexedOperand('[L,--X]', MN['LDD']).resolve_symbols({'V': NumericValue(5), 'Z0': NumericValue(0), "
     "'L': AddressValue(2)}).translate()"),
    "IndexedOperand('L,Y+', MN['LDA']).translate()",
    "ExtendedIndexedOperand('[L,Y+]', MN['LDA']).translate()",
    ("IndexedOperand('L,Y+', MN['LEAX']).resolve_symbols({'V': NumericValue(5), 'Z0': NumericValue(0), 'L': "
     'AddressValue(2)}).translate()'),
    ("ExtendedIndexedOperand('[L,Y+]', MN['LDD']).resolve_symbols({'V': NumericValue(5), 'Z0': NumericValue(0), "
     "'L': AddressValue(2)}).translate()"),
    "IndexedOperand('L,Y++', MN['LDA']).translate()",
    "ExtendedIndexedOperand('[L,Y++]', MN['LDA']).translate()",
    ("IndexedOperand('L,Y++', MN['LEAX']).resolve_symbols({'V': NumericValue(5), 'Z0': NumericValue(0), 'L': "
     'AddressValue(2)}).translate()'),
    ("ExtendedIndexedOperand('[L,Y++]', MN['LDD']).resolve_symbols({'V': NumericValue(5), 'Z0': NumericValue(0), "
     "'L': AddressValue(2)}).translate()"),
    "IndexedOperand('L,-U', MN['LDA']).translate()",
    "ExtendedIndexedOperand('[L,-U]', MN['LDA']).translate()",
    ("IndexedOperand('L,-U', MN['LEAX']).resolve_symbols({'V': NumericValue(5), 'Z0': NumericValue(0), 'L': "
     'AddressValue(2)}).translate()'),
    ("ExtendedIndexedOperand('[L,-U]', MN['LDD']).resolve_symbols({'V': NumericValue(5), 'Z0': NumericValue(0), "
     "'L': AddressValue(2)}).translate()"),
    "IndexedOperand('L,--S', MN['LDA']).translate()",
    "ExtendedIndexedOperand('[L,--S]', MN['LDA']).translate()",
    ("IndexedOperand('L,--S', MN['LEAX']).resolve_symbols({'V': NumericValue(5), 'Z0': NumericValue(0), 'L': "
     'AddressValue(2)}).translate()'),
    ("ExtendedIndexedOperand('[L,--S]', MN['LDD']).resolve_symbols({'V': NumericValue(5), 'Z0': NumericValue(0), "
     "'L': AddressValue(2)}).translate()"),
    "IndexedOperand('L,PCR', MN['LDA']).translate()",
    "ExtendedIndexedOperand('[L,PCR]', MN['LDA']).translate()",
    ("IndexedOperand('L,PCR', MN['LEAX']).resolve_symbols({'V': NumericValue(5), 'Z0': NumericValue(0), 'L': "
     'AddressValue(2)}).translate()'),
    ("ExtendedIndexedOperand('[L,PCR]', MN['LDD']).resolve_symbols({'V': NumericValue(5), 'Z0': NumericValue(0), "
     "'L': AddressValue(2)}).translate()"),
    "IndexedOperand('L,PC', MN['LDA']).translate()",
    "ExtendedIndexedOperand('[L,PC]', MN['LDA']).translate()",
    ("IndexedOperand('L,PC', MN['LEAX']).resolve_symbols({'V': NumericValue(5), 'Z0': NumericValue(0), 'L': "
     'AddressValue(2)}).translate()'),
    ("ExtendedIndexedOperand('[L,PC]', MN['LDD']).resolve_symbols({'V': NumericValue(5), 'Z0': NumericValue(0), "
     "'L': AddressValue(2)}).translate()"),
    "IndexedOperand('L,X-', MN['LDA']).translate()",
    "ExtendedIndexedOperand('[L,X-]', MN['LDA']).translate()",
    ("IndexedOperand('L,X-', MN['LEAX']).resolve_symbols({'V': NumericValue(5), 'Z0': NumericValue(0), 'L': "
     'AddressValue(2)}).translate()'),
    ("ExtendedIndexedOperand('[L,X-]', MN['LDD']).resolve_symbols({'V': NumericValue(5), 'Z0': NumericValue(0), "
     "'L': AddressValue(2)}).translate()"),
    "IndexedOperand('L,X--', MN['LDA']).translate()",
    "ExtendedIndexedOperand('[L,X--]', MN['LDA']).translate()",
    ("IndexedOperand('L,X--', MN['LEAX']).resolve_symbols({'V': NumericValue(5), 'Z0': NumericValue(0), 'L': "
     'AddressValue(2)}).translate()'),
    ("ExtendedIndexedOperand('[L,X--]', MN['LDD']).resolve_symbols({'V': NumericValue(5), 'Z0': NumericValue(0), "
     "'L': AddressValue(2)}).translate()"),
    "IndexedOperand('L,+X', MN['LDA']).translate()",
    "ExtendedIndexedOperand('[L,+X]', MN['LDA']).translate()",
    ("IndexedOperand('L,+X', MN['LEAX']).resolve_symbols({'V': NumericValue(5), 'Z0': NumericValue(0), 'L': "
     'AddressValue(2)}).translate()'),
    ("ExtendedIndexedOperand('[L,+X]', MN['LDD']).resolve_symbols({'V': NumericValue(5), 'Z0': NumericValue(0), "
     "'L': AddressValue(2)}).translate()"),
    "IndexedOperand('L,++X', MN['LDA']).translate()",
    "ExtendedIndexedOperand('[L,++X]', MN['LDA']).translate()",
    ("IndexedOperand('L,++X', MN['LEAX']).resolve_symbols({'V': NumericValue(5), 'Z0': NumericValue(0), 'L': "
     'AddressValue(2)}).translate()'),
    ("ExtendedIndexedOperand('[L,++X]', MN['LDD']).resolve_symbols({'V': NumericValue(5), 'Z0': NumericValue(0), "
     "'L': AddressValue(2)}).translate()"),
    "IndexedOperand('L,X+-', MN['LDA']).translate()",
    "ExtendedIndexedOperand('[L,X+-]', MN['LDA']).translate()",
    ("IndexedOperand('L,X+-', MN['LEAX']).resolve_symbols({'V': NumericValue(5), 'Z0': NumericValue(0), 'L': "
     'AddressValue(2)}).translate()'),
    ("ExtendedIndexedOperand('[L,X+-]', MN['LDD']).resolve_symbols({'V': NumericValue(5), 'Z0': NumericValue(0), "
     "'L': AddressValue(2)}).translate()"),
    "IndexedOperand('L,-X+', MN['LDA']).translate()",
    "ExtendedIndexedOperand('[L,-X+]', MN['LDA']).translate()",
    ("IndexedOperand('L,-X+', MN['LEAX']).resolve_symbols({'V': NumericValue(5), 'Z0': NumericValue(0), 'L': "
     'AddressValue(2)}).translate()'),
    ("ExtendedIndexedOperand('[L,-X+]', MN['LDD']).resolve_symbols({'V': NumericValue(5), 'Z0': NumericValue(0), "
     "'L': AddressValue(2)}).translate()"),
    "IndexedOperand('L,', MN['LDA']).translate()",
    "ExtendedIndexedOperand('[L,]', MN['LDA']).translate()",
    ("IndexedOperand('L,', MN['LEAX']).resolve_symbols({'V': NumericValue(5), 'Z0': NumericValue(0), 'L': "
     'AddressValue(2)}).translate()'),
    ("ExtendedIndexedOperand('[L,]', MN['LDD']).resolve_symbols({'V': NumericValue(5), 'Z0': NumericValue(0), "
     "'L': AddressValue(2)}).translate()"),
    "IndexedOperand('L,Q', MN['LDA']).translate()",
    "ExtendedIndexedOperand('[L,Q]', MN['LDA']).translate()",
    ("IndexedOperand('L,Q', MN['LEAX']).resolve_symbols({'V': NumericValue(5), 'Z0': NumericValue(0), 'L': "
     'AddressValue(2)}).translate()'),
    ("ExtendedIndexedOperand('[L,Q]', MN['LDD']).resolve_symbols({'V': NumericValue(5), 'Z0': NumericValue(0), "
     "'L': AddressValue(2)}).translate()"),
    "IndexedOperand('L,X++Y', MN['LDA']).translate()",
    "ExtendedIndexedOperand('[L,X++Y]', MN['LDA']).translate()",
    ("IndexedOperand('L,X++Y', MN['LEAX']).resolve_symbols({'V': NumericValue(5), 'Z0': NumericValue(0), 'L': "
     'AddressValue(2)}).translate()'),
    ("ExtendedIndexedOperand('[L,X++Y]', MN['LDD']).resolve_symbols({'V': NumericValue(5), 'Z0': "
     "NumericValue(0), 'L': AddressValue(2)}).translate()"),
    "IndexedOperand('V-5,X', MN['LDA']).translate()",
    "ExtendedIndexedOperand('[V-5,X]', MN['LDA']).translate()",
    ("IndexedOperand('V-5,X', MN['LEAX']).resolve_symbols({'V': NumericValue(5), 'Z0': NumericValue(0), 'L': "
     'AddressValue(2)}).translate()'),
    ("ExtendedIndexedOperand('[V-5,X]', MN['LDD']).resolve_symbols({'V': NumericValue(5), 'Z0': NumericValue(0), "
     "'L': AddressValue(2)}).translate()"),
    "IndexedOperand('V-5,Y', MN['LDA']).translate()",
    "ExtendedIndexedOperand('[V-5,Y]', MN['LDA']).translate()",
    ("IndexedOperand('V-5,Y', MN['LEAX']).resolve_symbols({'V': NumericValue(5), 'Z0': NumericValue(0), 'L': "
     'AddressValue(2)}).translate()'),
    ("ExtendedIndexedOperand('[V-5,Y]', MN['LDD']).resolve_symbols({'V': NumericValue(5), 'Z0': NumericValue(0), "
     "'L': AddressValue(2)}).translate()"),
    "IndexedOperand('V-5,U', MN['LDA']).translate()",
    "ExtendedIndexedOperand('[V-5,U]', MN['LDA']).translate()",
    ("IndexedOperand('V-5,U', MN['LEAX']).resolve_symbols({'V': NumericValue(5), 'Z0': NumericValue(0), 'L': "
     'AddressValue(2)}).translate()'),
    ("ExtendedIndexedOperand('[V-5,U]', MN['LDD']).resolve_symbols({'V': NumericValue(5), 'Z0': NumericValue(0), "
     "'L': AddressValue(2)}).translate()"),
    "IndexedOperand('V-5,S', MN['LDA']).translate()",
    "ExtendedIndexedOperand('[V-5,S]', MN['LDA']).translate()",
    ("IndexedOperand('V-5,S', MN['LEAX']).resolve_symbols({'V': NumericValue(5), 'Z0': NumericValue(0), 'L': "
     'AddressValue(2)}).translate()'),
    ("ExtendedIndexedOperand('[V-5,S]', MN['LDD']).resolve_symbols({'V': NumericValue(5), 'Z0': NumericValue(0), "
     "'L': AddressValue(2)}).translate()"),
    "IndexedOperand('V-5,X+', MN['LDA']).translate()",
    "ExtendedIndexedOperand('[V-5,X+]', MN['LDA']).translate()",
    ("IndexedOperand('V-5,X+', MN['LEAX']).resolve_symbols({'V': NumericValue(5), 'Z0': NumericValue(0), 'L': "
     'AddressValue(2)}).translate()'),
    ("ExtendedIndexedOperand('[V-5,X+]', MN['LDD']).resolve_symbols({'V': NumericValue(5), 'Z0': "
     "NumericValue(0), 'L': AddressValue(2)}).translate()"),
    "IndexedOperand('V-5,X++', MN['LDA']).translate()",
    "ExtendedIndexedOperand('[V-5,X++]', MN['LDA']).translate()",
    ("IndexedOperand('V-5,X++', MN['LEAX']).resolve_symbols({'V': NumericValue(5), 'Z0': NumericValue(0), 'L': "
     'AddressValue(2)}).translate()'),
    ("ExtendedIndexedOperand('[V-5,X++]', MN['LDD']).resolve_symbols({'V': NumericValue(5), 'Z0': "
     "NumericValue(0), 'L': AddressValue(2)}).translate()"),
    "IndexedOperand('V-5,-X', MN['LDA']).translate()",
    "ExtendedIndexedOperand('[V-5,-X]', MN['LDA']).translate()",
    ("IndexedOperand('V-5,-X', MN['LEAX']).resolve_symbols({'V': NumericValue(5), 'Z0': NumericValue(0), 'L': "
     'AddressValue(2)}).translate()'),
    ("ExtendedIndexedOperand('[V-5,-X]', MN['LDD']).resolve_symbols({'V': NumericValue(5), 'Z0': "
     "NumericValue(0), 'L': AddressValue(2)}).translate()"),
    "IndexedOperand('V-5,--X', MN['LDA']).translate()",
    "ExtendedIndexedOperand('[V-5,--X]', MN['LDA']).translate()",
    ("IndexedOperand('V-5,--X', MN['LEAX']).resolve_symbols({'V': NumericValue(5), 'Z0': NumericValue(0), 'L': "
     'AddressValue(2)}).translate()'),
    ("ExtendedIndexedOperand('[V-5,--X]', MN['LDD']).resolve_symbols({'V': NumericValue(5), 'Z0': "
     "NumericValue(0), 'L': AddressValue(2)}).translate()"),
    "IndexedOperand('V-5,Y+', MN['LDA']).translate()",
    "ExtendedIndexedOperand('[V-5,Y+]', MN['LDA']).translate()",
    ("IndexedOperand('V-5,Y+', MN['LEAX']).resolve_symbols({'V': NumericValue(5), 'Z0': NumericValue(0), 'L': "
     'AddressValue(2)}).translate()'),
    ("ExtendedIndexedOperand('[V-5,Y+]', MN['LDD']).resolve_symbols({'V': NumericValue(5), 'Z0': "
     "NumericValue(0), 'L': AddressValue(2)}).translate()"),
    "IndexedOperand('V-5,Y++', MN['LDA']).translate()",
    "ExtendedIndexedOperand('[V-5,Y++]', MN['LDA']).translate()",
    ("IndexedOperand('V-5,Y++', MN['LEAX']).resolve_symbols({'V': NumericValue(5), 'Z0': NumericValue(0), 'L': "
     'AddressValue(2)}).translate()'),
    ("ExtendedIndexedOperand('[V-5,Y++]', MN['LDD']).resolve_symbols({'V': NumericValue(5), 'Z0': "
     "NumericValue(0), 'L': AddressValue(2)}).translate()"),
    "IndexedOperand('V-5,-U', MN['LDA']).translate()",
    "ExtendedIndexedOperand('[V-5,-U]', MN['LDA']).translate()",
    ("IndexedOperand('V-5,-U', MN['LEAX']).resolve_symbols({'V': NumericValue(5), 'Z0': NumericValue(0), 'L': "
     'AddressValue(2)}).translate()'),
    ("ExtendedIndexedOperand('[V-5,-U]', MN['LDD']).resolve_symbols({'V': NumericValue(5), 'Z0': "
     "NumericValue(0), 'L': AddressValue(2)}).translate()"),
    "IndexedOperand('V-5,--S', MN['LDA']).translate()",
    "ExtendedIndexedOperand('[V-5,--S]', MN['LDA']).translate()",
    ("IndexedOperand('V-5,--S', MN['LEAX']).resolve_symbols({'V': NumericValue(5), 'Z0': NumericValue(0), 'L': "
     'AddressValue(2)}).translate()'),
    ("ExtendedIndexedOperand('[V-5,--S]', MN['LDD']).resolve_symbols({'V': NumericValue(5), 'Z0': "
     "NumericValue(0), 'L': AddressValue(2)}).translate()"),
    "IndexedOperand('V-5,PCR', MN['LDA']).translate()",
    "ExtendedIndexedOperand('[V-5,PCR]', MN['LDA']).translate()",
    ("IndexedOperand('V-5,PCR', MN['LEAX']).resolve_symbols({'V': NumericValue(5), 'Z0': NumericValue(0), 'L': "
     'AddressValue(2)}).translate()'),
    ("ExtendedIndexedOperand('[V-5,PCR]', MN['LDD']).resolve_symbols({'V': NumericValue(5), 'Z0': "
     "NumericValue(0), 'L': AddressValue(2)}).translate()"),
    "IndexedOperand('V-5,PC', MN['LDA']).translate()",
    "ExtendedIndexedOperand('[V-5,PC]', MN['LDA']).translate()",
    ("IndexedOperand('V-5,PC', MN['LEAX']).resolve_symbols({'V': NumericValue(5), 'Z0': NumericValue(0), 'L': "
     'AddressValue(2)}).translate()'),
    ("ExtendedIndexedOperand('[V-5,PC]', MN['LDD']).resolve_symbols({'V': NumericValue(5), 'Z0': "
     "NumericValue(0), 'L': AddressValue(2)}).translate()"),
    "IndexedOperand('V-5,X-', MN['LDA']).translate()",
    "ExtendedIndexedOperand('[V-5,X-]', MN['LDA']).translate()",
    ("IndexedOperand('V-5,X-', MN['LEAX']).resolve_symbols({'V': NumericValue(5), 'Z0': NumericValue(0), 'L': "
     'AddressValue(2)}).translate()'),
    ("ExtendedIndexedOperand('[V-5,X-]', MN['LDD']).resolve_symbols({'V': NumericValue(5), 'Z0': "
     "NumericValue(0), 'L': AddressValue(2)}).translate()"),
    "IndexedOperand('V-5,X--', MN['LDA']).translate()",
    "ExtendedIndexedOperand('[V-5,X--]', MN['LDA']).translate()",
    ("IndexedOperand('V-5,X--', MN['LEAX']).resolve_symbols({'V': NumericValue(5), 'Z0': NumericValue(0), 'L': "
     'AddressValue(2)}).translate()'),
    ("ExtendedIndexedOperand('[V-5,X--]', MN['LDD']).resolve_symbols({'V': NumericValue(5), 'Z0': "
     "NumericValue(0), 'L': AddressValue(2)}).translate()"),
    "IndexedOperand('V-5,+X', MN['LDA']).translate()",
    "ExtendedIndexedOperand('[V-5,+X]', MN['LDA']).translate()",
    ("IndexedOperand('V-5,+X', MN['LEAX']).resolve_symbols({'V': NumericValue(5), 'Z0': NumericValue(0), 'L': "
     'AddressValue(2)}).translate()'),
    ("ExtendedIndexedOperand('[V-5,+X]', MN['LDD']).resolve_symbols({'V': NumericValue(5), 'Z0': "
     "NumericValue(0), 'L': AddressValue(2)}).translate()"),
    "IndexedOperand('V-5,++X', MN['LDA']).translate()",
    "ExtendedIndexedOperand('[V-5,++X]', MN['LDA']).translate()",
    ("IndexedOperand('V-5,++X', MN['LEAX']).resolve_symbols({'V': NumericValue(5), 'Z0': NumericValue(0), 'L': "
     'AddressValue(2)}).translate()'),
    ("ExtendedIndexedOperand('[V-5,++X]', MN['LDD']).resolve_symbols({'V': NumericValue(5), 'Z0': "
     "NumericValue(0), 'L': AddressValue(2)}).translate()"),
    "IndexedOperand('V-5,X+-', MN['LDA']).translate()",
    "ExtendedIndexedOperand('[V-5,X+-]', MN['LDA']).translate()",
    ("IndexedOperand('V-5,X+-', MN['LEAX']).resolve_symbols({'V': NumericValue(5), 'Z0': NumericValue(0), 'L': "
     'AddressValue(2)}).translate()'),
    ("ExtendedIndexedOperand('[V-5,X+-]', MN['LDD']).resolve_symbols({'V': NumericValue(5), 'Z0': "
     "NumericValue(0), 'L': AddressValue(2)}).translate()"),
    "IndexedOperand('V-5,-X+', MN['LDA']).translate()",
    "ExtendedIndexedOperand('[V-5,-X+]', MN['LDA']).translate()",
    ("IndexedOperand('V-5,-X+', MN['LEAX']).resolve_symbols({'V': NumericValue(5), 'Z0': NumericValue(0), 'L': "
     'AddressValue(2)}).translate()'),
    ("ExtendedIndexedOperand('[V-5,-X+]', MN['LDD']).resolve_symbols({'V': NumericValue(5), 'Z0': "
     "NumericValue(0), 'L': AddressValue(2)}).translate()"),
    "IndexedOperand('V-5,', MN['LDA']).translate()",
    "ExtendedIndexedOperand('[V-5,]', MN['LDA']).translate()",
    ("IndexedOperand('V-5,', MN['LEAX']).resolve_symbols({'V': NumericValue(5), 'Z0': NumericValue(0), 'L': "
     'AddressValue(2)}).translate()'),
    ("ExtendedIndexedOperand('[V-5,]', MN['LDD']).resolve_symbols({'V': NumericValue(5), 'Z0': NumericValue(0), "
     "'L': AddressValue(2)}).translate()"),
    "IndexedOperand('V-5,Q', MN['LDA']).translate()",
    "ExtendedIndexedOperand('[V-5,Q]', MN['LDA']).translate()",
    ("IndexedOperand('V-5,Q', MN['LEAX']).resolve_symbols({'V': NumericValue(5), 'Z0': NumericValue(0), 'L': "
     'AddressValue(2)}).translate()'),
    ("ExtendedIndexedOperand('[V-5,Q]', MN['LDD']).resolve_symbols({'V': NumericValue(5), 'Z0': NumericValue(0), "
     "'L': AddressValue(2)}).translate()"),
    "IndexedOperand('V-5,X++Y', MN['LDA']).translate()",
    "ExtendedIndexedOperand('[V-5,X++Y]', MN['LDA']).translate()",
    ("IndexedOperand('V-5,X++Y', MN['LEAX']).resolve_symbols({'V': NumericValue(5), 'Z0': NumericValue(0), 'L': "
     'AddressValue(2)}).translate()'),
    ("ExtendedIndexedOperand('[V-5,X++Y]', MN['LDD']).resolve_symbols({'V': NumericValue(5), 'Z0': "
     "NumericValue(0), 'L': AddressValue(2)}).translate()"),
    "IndexedOperand('V+0,X', MN['LDA']).translate()",
    "ExtendedIndexedOperand('[V+0,X]', MN['LDA']).translate()",
    ("IndexedOperand('V+0,X', MN['LEAX']).resolve_symbols({'V': NumericValue(5), 'Z0': NumericValue(0), 'L': "
     'AddressValue(2)}).translate()'),
    ("ExtendedIndexedOperand('[V+0,X]', MN['LDD']).resolve_symbols({'V': NumericValue(5), 'Z0': NumericValue(0), "
     "'L': AddressValue(2)}).translate()"),
    "IndexedOperand('V+0,Y', MN['LDA']).translate()",
    "ExtendedIndexedOperand('[V+0,Y]', MN['LDA']).translate()",
    ("IndexedOperand('V+0,Y', MN['LEAX']).resolve_symbols({'V': NumericValue(5), 'Z0': NumericValue(0), 'L': "
     'AddressValue(2)}).translate()'),
    ("ExtendedIndexedOperand('[V+0,Y]', MN['LDD']).resolve_symbols({'V': NumericValue(5), 'Z0': NumericValue(0), "
     "'L': AddressValue(2)}).translate()"),
    "IndexedOperand('V+0,U', MN['LDA']).translate()",
    "ExtendedIndexedOperand('[V+0,U]', MN['LDA']).translate()",
    ("IndexedOperand('V+0,U', MN['LEAX']).resolve_symbols({'V': NumericValue(5), 'Z0': NumericValue(0), 'L': "
     'AddressValue(2)}).translate()'),
    ("ExtendedIndexedOperand('[V+0,U]', MN['LDD']).resolve_symbols({'V': NumericValue(5), 'Z0': NumericValue(0), "
     "'L': AddressValue(2)}).translate()"),
    "IndexedOperand('V+0,S', MN['LDA']).translate()",
    "ExtendedIndexedOperand('[V+0,S]', MN['LDA']).translate()",
    ("IndexedOperand('V+0,S', MN['LEAX']).resolve_symbols({'V': NumericValue(5), 'Z0': NumericValue(0), 'L': "
     'AddressValue(2)}).translate()'),
    ("ExtendedIndexedOperand('[V+0,S]', MN['LDD']).resolve_symbols({'V': NumericValue(5), 'Z0': NumericValue(0), "
     "'L': AddressValue(2)}).translate()"),
    "IndexedOperand('V+0,X+', MN['LDA']).translate()",
    "ExtendedIndexedOperand('[V+0,X+]', MN['LDA']).translate()",
    ("IndexedOperand('V+0,X+', MN['LEAX']).resolve_symbols({'V': NumericValue(5), 'Z0': NumericValue(0), 'L': "
     'AddressValue(2)}).translate()'),
    ("ExtendedIndexedOperand('[V+0,X+]', MN['LDD']).resolve_symbols({'V': NumericValue(5), 'Z0': "
     "NumericValue(0), 'L': AddressValue(2)}).translate()"),
    "IndexedOperand('V+0,X++', MN['LDA']).translate()",
    "ExtendedIndexedOperand('[V+0,X++]', MN['LDA']).translate()",
    ("IndexedOperand('V+0,X++', MN['LEAX']).resolve_symbols({'V': NumericValue(5), 'Z0': NumericValue(0), 'L': "
     'AddressValue(2)}).translate()'),
    ("ExtendedIndexedOperand('[V+0,X++]', MN['LDD']).resolve_symbols({'V': NumericValue(5), 'Z0': "
     "NumericValue(0), 'L': AddressValue(2)}).translate()"),
    "IndexedOperand('V+0,-X', MN['LDA']).translate()",
    "ExtendedIndexedOperand('[V+0,-X]', MN['LDA']).translate()",
    ("IndexedOperand('V+0,-X', MN['LEAX']).resolve_symbols({'V': NumericValue(5), 'Z0': NumericValue(0), 'L': "
     'AddressValue(2)}).translate()'),
    ("ExtendedIndexedOperand('[V+0,-X]', MN['LDD']).resolve_symbols({'V': NumericValue(5), 'Z0': "
     "NumericValue(0), 'L': AddressValue(2)}).translate()"),
    "IndexedOperand('V+0,--X', MN['LDA']).translate()",
    "ExtendedIndexedOperand('[V+0,--X]', MN['LDA']).translate()",
    ("IndexedOperand('V+0,--X', MN['LEAX']).resolve_symbols({'V': NumericValue(5), 'Z0': NumericValue(0), 'L': "
     'AddressValue(2)}).translate()'),
    ("ExtendedIndexedOperand('[V+0,--X]', MN['LDD']).resolve_symbols({'V': NumericValue(5), 'Z0': "
     "NumericValue(0), 'L': AddressValue(2)}).translate()"),
    "IndexedOperand('V+0,Y+', MN['LDA']).translate()",
    "ExtendedIndexedOperand('[V+0,Y+]', MN['LDA']).translate()",
    ("IndexedOperand('V+0,Y+', MN['LEAX']).resolve_symbols({'V': NumericValue(5), 'Z0': NumericValue(0), 'L': "
     'AddressValue(2)}).translate()'),
    ("ExtendedIndexedOperand('[V+0,Y+]', MN['LDD']).resolve_symbols({'V': NumericValue(5), 'Z0': "
     "NumericValue(0), 'L': AddressValue(2)}).translate()"),
    "IndexedOperand('V+0,Y++', MN['LDA']).translate()",
    "ExtendedIndexedOperand('[V+0,Y++]', MN['LDA']).translate()",
    ("IndexedOperand('V+0,Y++', MN['LEAX']).resolve_symbols({'V': NumericValue(5), 'Z0': NumericValue(0), 'L': "
     'AddressValue(2)}).translate()'),
    ("ExtendedIndexedOperand('[V+0,Y++]', MN['LDD']).resolve_symbols({'V': NumericValue(5), 'Z0': "
     "NumericValue(0), 'L': AddressValue(2)}).translate()"),
    "IndexedOperand('V+0,-U', MN['LDA']).translate()",
    "ExtendedIndexedOperand('[V+0,-U]', MN['LDA']).translate()",
    ("IndexedOperand('V+0,-U', MN['LEAX']).resolve_symbols({'V': NumericValue(5), 'Z0': NumericValue(0), 'L': "
     'AddressValue(2)}).translate()'),
    ("ExtendedIndexedOperand('[V+0,-U]', MN['LDD']).resolve_symbols({'V': NumericValue(5), 'Z0': "
     "NumericValue(0), 'L': AddressValue(2)}).translate()"),
    "IndexedOperand('V+0,--S', MN['LDA']).translate()",
    "ExtendedIndexedOperand('[V+0,--S]', MN['LDA']).translate()",
    ("IndexedOperand('V+0,--S', MN['LEAX']).resolve_symbols({'V': NumericValue(5), 'Z0': NumericValue(0), 'L': "
     'AddressValue(2)}).translate()'),
    ("ExtendedIndexedOperand('[V+0,--S]', MN['LDD']).resolve_symbols({'V': NumericValue(5), 'Z0': "
     "NumericValue(0), 'L': AddressValue(2)}).translate()"),
    "IndexedOperand('V+0,PCR', MN['LDA']).translate()",
    "ExtendedIndexedOperand('[V+0,PCR]', MN['LDA']).translate()",
    ("IndexedOperand('V+0,PCR', MN['LEAX']).resolve_symbols({'V': NumericValue(5), 'Z0': NumericValue(0), 'L': "
     'AddressValue(2)}).translate()'),
    ("ExtendedIndexedOperand('[V+0,PCR]', MN['LDD']).resolve_symbols({'V': NumericValue(5), 'Z0': "
     "NumericValue(0), 'L': AddressValue(2)}).translate()"),
    "IndexedOperand('V+0,PC', MN['LDA']).translate()",
    "ExtendedIndexedOperand('[V+0,PC]', MN['LDA']).translate()",
    ("IndexedOperand('V+0,PC', MN['LEAX']).resolve_symbols({'V': NumericValue(5), 'Z0': NumericValue(0), 'L': "
     'AddressValue(2)}).translate()'),
    ("ExtendedIndexedOperand('[V+0,PC]', MN['LDD']).resolve_symbols({'V': NumericValue(5), 'Z0': "
     "NumericValue(0), 'L': AddressValue(2)}).translate()"),
    "IndexedOperand('V+0,X-', MN['LDA']).translate()",
    "ExtendedIndexedOperand('[V+0,X-]', MN['LDA']).translate()",
    ("IndexedOperand('V+0,X-', MN['LEAX']).resolve_symbols({'V': NumericValue(5), 'Z0': NumericValue(0), 'L': "
     'AddressValue(2)}).translate()'),
    ("ExtendedIndexedOperand('[V+0,X-]', MN['LDD']).resolve_symbols({'V': NumericValue(5), 'Z0': "
     "NumericValue(0), 'L': AddressValue(2)}).translate()"),
    "IndexedOperand('V+0,X--', MN['LDA']).translate()",
    "ExtendedIndexedOperand('[V+0,X--]', MN['LDA']).translate()",
    ("IndexedOperand('V+0,X--', MN['LEAX']).resolve_symbols({'V': NumericValue(5), 'Z0': NumericValue(0), 'L': "
     'AddressValue(2)}).translate()'),
    ("ExtendedIndexedOperand('[V+0,X--]', MN['LDD']).resolve_symbols({'V': NumericValue(5), 'Z0': "
     "NumericValue(0), 'L': AddressValue(2)}).translate()"),
    "IndexedOperand('V+0,+X', MN['LDA']).translate()",
    "ExtendedIndexedOperand('[V+0,+X]', MN['LDA']).translate()",
    ("IndexedOperand('V+0,+X', MN['LEAX']).resolve_symbols({'V': NumericValue(5), 'Z0': NumericValue(0), 'L': "
     'AddressValue(2)}).translate()'),
    ("ExtendedIndexedOperand('[V+0,+X]', MN['LDD']).resolve_symbols({'V': NumericValue(5), 'Z0': "
     "NumericValue(0), 'L': AddressValue(2)}).translate()"),
    "IndexedOperand('V+0,++X', MN['LDA']).translate()",
    "ExtendedIndexedOperand('[V+0,++X]', MN['LDA']).translate()",
    ("IndexedOperand('V+0,++X', MN['LEAX']).resolve_symbols({'V': NumericValue(5), 'Z0': NumericValue(0), 'L': "
     'AddressValue(2)}).translate()'),
    ("ExtendedIndexedOperand('[V+0,++X]', MN['LDD']).resolve_symbols({'V': NumericValue(5), 'Z0': "
     "NumericValue(0), 'L': AddressValue(2)}).translate()"),
    "IndexedOperand('V+0,X+-', MN['LDA']).translate()",
    "ExtendedIndexedOperand('[V+0,X+-]', MN['LDA']).translate()",
    ("IndexedOperand('V+0,X+-', MN['LEAX']).resolve_symbols({'V': NumericValue(5), 'Z0': NumericValue(0), 'L': "
     'AddressValue(2)}).translate()'),
    ("ExtendedIndexedOperand('[V+0,X+-]', MN['LDD']).resolve_symbols({'V': NumericValue(5), 'Z0': "
     "NumericValue(0), 'L': AddressValue(2)}).translate()"),
    "IndexedOperand('V+0,-X+', MN['LDA']).translate()",
    "ExtendedIndexedOperand('[V+0,-X+]', MN['LDA']).translate()",
    ("IndexedOperand('V+0,-X+', MN['LEAX']).resolve_symbols({'V': NumericValue(5), 'Z0': NumericValue(0), 'L': "
     'AddressValue(2)}).translate()'),
    ("ExtendedIndexedOperand('[V+0,-X+]', MN['LDD']).resolve_symbols({'V': NumericValue(5), 'Z0': "
     "NumericValue(0), 'L': AddressValue(2)}).translate()"),
    "IndexedOperand('V+0,', MN['LDA']).translate()",
    "ExtendedIndexedOperand('[V+0,]', MN['LDA']).translate()",
    ("IndexedOperand('V+0,', MN['LEAX']).resolve_symbols({'V': NumericValue(5), 'Z0': NumericValue(0), 'L': "
     'AddressValue(2)}).translate()'),
    ("ExtendedIndexedOperand('[V+0,]', MN['LDD']).resolve_symbols({'V': NumericValue(5), 'Z0': NumericValue(0), "
     "'L': AddressValue(2)}).translate()"),
    "IndexedOperand('V+0,Q', MN['LDA']).translate()",
    "ExtendedIndexedOperand('[V+0,Q]', MN['LDA']).translate()",
    ("IndexedOperand('V+0,Q', MN['LEAX']).resolve_symbols({'V': NumericValue(5), 'Z0': NumericValue(0), 'L': "
     'AddressValue(2)}).translate()'),
    ("ExtendedIndexedOperand('[V+0,Q]', MN['LDD']).resolve_symbols({'V': NumericValue(5), 'Z0': NumericValue(0), "
     "'L': AddressValue(2)}).translate()"),
    "IndexedOperand('V+0,X++Y', MN['LDA']).translate()",
    "ExtendedIndexedOperand('[V+0,X++Y]', MN['LDA']).translate()",
    ("IndexedOperand('V+0,X++Y', MN['LEAX']).resolve_symbols({'V': NumericValue(5), 'Z0': NumericValue(0), 'L': "
     'AddressValue(2)}).translate()'),
    ("ExtendedIndexedOperand('[V+0,X++Y]', MN['LDD']).resolve_symbols({'V': NumericValue(5), 'Z0': "
     "NumericValue(0), 'L': AddressValue(2)}).translate()"),
    "IndexedOperand('NOPE,X', MN['LDA']).translate()",
    "ExtendedIndexedOperand('[NOPE,X]', MN['LDA']).translate()",
    ("IndexedOperand('NOPE,X', MN['LEAX']).resolve_symbols({'V': NumericValue(5), 'Z0': NumericValue(0), 'L': "
     'AddressValue(2)}).translate()'),
    ("ExtendedIndexedOperand('[NOPE,X]', MN['LDD']).resolve_symbols({'V': NumericValue(5), 'Z0': "
     "NumericValue(0), 'L': AddressValue(2)}).translate()"),
    "IndexedOperand('NOPE,Y', MN['LDA']).translate()",
    "ExtendedIndexedOperand('[NOPE,Y]', MN['LDA']).translate()",
    ("IndexedOperand('NOPE,Y', MN['LEAX']).resolve_symbols({'V': NumericValue(5), 'Z0': NumericValue(0), 'L': "
     'AddressValue(2)}).translate()'),
    ("ExtendedIndexedOperand('[NOPE,Y]', MN['LDD']).resolve_symbols({'V': NumericValue(5), 'Z0': "
     "NumericValue(0), 'L': AddressValue(2)}).translate()"),
    "IndexedOperand('NOPE,U', MN['LDA']).translate()",
    "ExtendedIndexedOperand('[NOPE,U]', MN['LDA']).translate()",
    ("IndexedOperand('NOPE,U', MN['LEAX']).resolve_symbols({'V': NumericValue(5), 'Z0': NumericValue(0), 'L': "
     'AddressValue(2)}).translate()'),
    ("ExtendedIndexedOperand('[NOPE,U]', MN['LDD']).resolve_symbols({'V': NumericValue(5), 'Z0': "
     "NumericValue(0), 'L': AddressValue(2)}).translate()"),
    "IndexedOperand('NOPE,S', MN['LDA']).translate()",
    "ExtendedIndexedOperand('[NOPE,S]', MN['LDA']).translate()",
    ("IndexedOperand('NOPE,S', MN['LEAX']).resolve_symbols({'V': NumericValue(5), 'Z0': NumericValue(0), 'L': "
     'AddressValue(2)}).translate()'),
    ("ExtendedIndexedOperand('[NOPE,S]', MN['LDD']).resolve_symbols({'V': NumericValue(5), 'Z0': "
     "NumericValue(0), 'L': AddressValue(2)}).translate()"),
    "IndexedOperand('NOPE,X+', MN['LDA']).translate()",
    "ExtendedIndexedOperand('[NOPE,X+]', MN['LDA']).translate()",
    ("IndexedOperand('NOPE,X+', MN['LEAX']).resolve_symbols({'V': NumericValue(5), 'Z0': NumericValue(0), 'L': "
     'AddressValue(2)}).translate()'),
    ("ExtendedIndexedOperand('[NOPE,X+]', MN['LDD']).resolve_symbols({'V': NumericValue(5), 'Z0': "
     "NumericValue(0), 'L': AddressValue(2)}).translate()"),
    "IndexedOperand('NOPE,X++', MN['LDA']).translate()",
    "ExtendedIndexedOperand('[NOPE,X++]', MN['LDA']).translate()",
    ("IndexedOperand('NOPE,X++', MN['LEAX']).resolve_symbols({'V': NumericValue(5), 'Z0': NumericValue(0), 'L': "
     'AddressValue(2)}).translate()'),
    ("ExtendedIndexedOperand('[NOPE,X++]', MN['LDD']).resolve_symbols({'V': NumericValue(5), 'Z0': "
     "NumericValue(0), 'L': AddressValue(2)}).translate()"),
    "IndexedOperand('NOPE,-X', MN['LDA']).translate()",
    "ExtendedIndexedOperand('[NOPE,-X]', MN['LDA']).translate()",
    ("IndexedOperand('NOPE,-X', MN['LEAX']).resolve_symbols({'V': NumericValue(5), 'Z0': NumericValue(0), 'L': "
     'AddressValue(2)}).translate()'),
    ("ExtendedIndexedOperand('[NOPE,-X]', MN['LDD']).resolve_symbols({'V': NumericValue(5), 'Z0': "
     "NumericValue(0), 'L': AddressValue(2)}).translate()"),
    "IndexedOperand('NOPE,--X', MN['LDA']).translate()",
    "ExtendedIndexedOperand('[NOPE,--X]', MN['LDA']).translate()",
    ("IndexedOperand('NOPE,--X', MN['LEAX']).resolve_symbols({'V': NumericValue(5), 'Z0': NumericValue(0), 'L': "
     'AddressValue(2)}).translate()'),
    ("ExtendedIndexedOperand('[NOPE,--X]', MN['LDD']).resolve_symbols({'V': NumericValue(5), 'Z0': "
     "NumericValue(0), 'L': AddressValue(2)}).translate()"),
    "IndexedOperand('NOPE,Y+', MN['LDA']).translate()",
    "ExtendedIndexedOperand('[NOPE,Y+]', MN['LDA']).translate()",
    ("IndexedOperand('NOPE,Y+', MN['LEAX']).resolve_symbols({'V': NumericValue(5), 'Z0': NumericValue(0), 'L': "
     'AddressValue(2)}).translate()'),
    ("ExtendedIndexedOperand('[NOPE,Y+]', MN['LDD']).resolve_symbols({'V': NumericValue(5), 'Z0': "
     "NumericValue(0), 'L': AddressValue(2)}).translate()"),
    "IndexedOperand('NOPE,Y++', MN['LDA']).translate()",
    "ExtendedIndexedOperand('[NOPE,Y++]', MN['LDA']).translate()",
    ("IndexedOperand('NOPE,Y++', MN['LEAX']).resolve_symbols({'V': NumericValue(5), 'Z0': NumericValue(0), 'L': "
     'AddressValue(2)}).translate()'),
    ("ExtendedIndexedOperand('[NOPE,Y++]', MN['LDD']).resolve_symbols({'V': NumericValue(5), 'Z0': "
     "NumericValue(0), 'L': AddressValue(2)}).translate()"),
    "IndexedOperand('NOPE,-U', MN['LDA']).translate()",
    "ExtendedIndexedOperand('[NOPE,-U]', MN['LDA']).translate()",
    ("IndexedOperand('NOPE,-U', MN['LEAX']).resolve_symbols({'V': NumericValue(5), 'Z0': NumericValue(0), 'L': "
     'AddressValue(2)}).translate()'),
    ("ExtendedIndexedOperand('[NOPE,-U]', MN['LDD']).resolve_symbols({'V': NumericValue(5), 'Z0': "
     "NumericValue(0), 'L': AddressValue(2)}).translate()"),
    "IndexedOperand('NOPE,--S', MN['LDA']).translate()",
    "ExtendedIndexedOperand('[NOPE,--S]', MN['LDA']).translate()",
    ("IndexedOperand('NOPE,--S', MN['LEAX']).resolve_symbols({'V': NumericValue(5), 'Z0': NumericValue(0), 'L': "
     'AddressValue(2)}).translate()'),
    ("ExtendedIndexedOperand('[NOPE,--S]', MN['LDD']).resolve_symbols({'V': NumericValue(5), 'Z0': "
     "NumericValue(0), 'L': AddressValue(2)}).translate()"),
    "IndexedOperand('NOPE,PCR', MN['LDA']).translate()",
    "ExtendedIndexedOperand('[NOPE,PCR]', MN['LDA']).translate()",
    ("IndexedOperand('NOPE,PCR', MN['LEAX']).resolve_symbols({'V': NumericValue(5), 'Z0': NumericValue(0), 'L': "
     'AddressValue(2)}).translate()'),
    ("ExtendedIndexedOperand('[NOPE,PCR]', MN['LDD']).resolve_symbols({'V': NumericValue(5), 'Z0': "
     "NumericValue(0), 'L': AddressValue(2)}).translate()"),
    "IndexedOperand('NOPE,PC', MN['LDA']).translate()",
    "ExtendedIndexedOperand('[NOPE,PC]', MN['LDA']).translate()",
    ("IndexedOperand('NOPE,PC', MN['LEAX']).resolve_symbols({'V': NumericValue(5), 'Z0': NumericValue(0), 'L': "
     'AddressValue(2)}).translate()'),
    ("ExtendedIndexedOperand('[NOPE,PC]', MN['LDD']).resolve_symbols({'V': NumericValue(5), 'Z0': "
     "NumericValue(0), 'L': AddressValue(2)}).translate()"),
    "IndexedOperand('NOPE,X-', MN['LDA']).translate()",
    "ExtendedIndexedOperand('[NOPE,X-]', MN['LDA']).translate()",
    ("IndexedOperand('NOPE,X-', MN['LEAX']).resolve_symbols({'V': NumericValue(5), 'Z0': NumericValue(0), 'L': "
     'AddressValue(2)}).translate()'),
    ("ExtendedIndexedOperand('[NOPE,X-]', MN['LDD']).resolve_symbols({'V': NumericValue(5), 'Z0': "
     "NumericValue(0), 'L': AddressValue(2)}).translate()"),
    "IndexedOperand('NOPE,X--', MN['LDA']).translate()",
    "ExtendedIndexedOperand('[NOPE,X--]', MN['LDA']).translate()",
    ("IndexedOperand('NOPE,X--', MN['LEAX']).resolve_symbols({'V': NumericValue(5), 'Z0': NumericValue(0), 'L': "
     'AddressValue(2)}).translate()'),
    ("ExtendedIndexedOperand('[NOPE,X--]', MN['LDD']).resolve_symbols({'V': NumericValue(5), 'Z0': "
     "NumericValue(0), 'L': AddressValue(2)}).translate()"),
    "IndexedOperand('NOPE,+X', MN['LDA']).translate()",
    "ExtendedIndexedOperand('[NOPE,+X]', MN['LDA']).translate()",
    ("IndexedOperand('NOPE,+X', MN['LEAX']).resolve_symbols({'V': NumericValue(5), 'Z0': NumericValue(0), 'L': "
     'AddressValue(2)}).translate()'),
    ("ExtendedIndexedOperand('[NOPE,+X]', MN['LDD']).resolve_symbols({'V': NumericValue(5), 'Z0': "
     "NumericValue(0), 'L': AddressValue(2)}).translate()"),
    "IndexedOperand('NOPE,++X', MN['LDA']).translate()",
    "ExtendedIndexedOperand('[NOPE,++X]', MN['LDA']).translate()",
    ("IndexedOperand('NOPE,++X', MN['LEAX']).resolve_symbols({'V': NumericValue(5), 'Z0': NumericValue(0), 'L': "
     'AddressValue(2)}).translate()'),
    ("ExtendedIndexedOperand('[NOPE,++X]', MN['LDD']).resolve_symbols({'V': NumericValue(5), 'Z0': "
     "NumericValue(0), 'L': AddressValue(2)}).translate()"),
    "IndexedOperand('NOPE,X+-', MN['LDA']).translate()",
    "ExtendedIndexedOperand('[NOPE,X+-]', MN['LDA']).translate()",
    ("IndexedOperand('NOPE,X+-', MN['LEAX']).resolve_symbols({'V': NumericValue(5), 'Z0': NumericValue(0), 'L': "
     'AddressValue(2)}).translate()'),
    ("ExtendedIndexedOperand('[NOPE,X+-]', MN['LDD']).resolve_symbols({'V': NumericValue(5), 'Z0': "
     "NumericValue(0), 'L': AddressValue(2)}).translate()"),
    "IndexedOperand('NOPE,-X+', MN['LDA']).translate()",
    "ExtendedIndexedOperand('[NOPE,-X+]', MN['LDA']).translate()",
    ("IndexedOperand('NOPE,-X+', MN['LEAX']).resolve_symbols({'V': NumericValue(5), 'Z0': NumericValue(0), 'L': "
     'AddressValue(2)}).translate()'),
    ("ExtendedIndexedOperand('[NOPE,-X+]', MN['LDD']).resolve_symbols({'V': NumericValue(5), 'Z0': "
     "NumericValue(0), 'L': AddressValue(2)}).translate()"),
    "IndexedOperand('NOPE,', MN['LDA']).translate()",
    "ExtendedIndexedOperand('[NOPE,]', MN['LDA']).translate()",
    ("IndexedOperand('NOPE,', MN['LEAX']).resolve_symbols({'V': NumericValue(5), 'Z0': NumericValue(0), 'L': "
     'AddressValue(2)}).translate()'),
    ("ExtendedIndexedOperand('[NOPE,]', MN['LDD']).resolve_symbols({'V': NumericValue(5), 'Z0': NumericValue(0), "
     "'L': AddressValue(2)}).translate()"),
    "IndexedOperand('NOPE,Q', MN['LDA']).translate()",
    "ExtendedIndexedOperand('[NOPE,Q]', MN['LDA']).translate()",
    ("IndexedOperand('NOPE,Q', MN['LEAX']).resolve_symbols({'V': NumericValue(5), 'Z0': NumericValue(0), 'L': "
     'AddressValue(2)}).translate()'),
    ("ExtendedIndexedOperand('[NOPE,Q]', MN['LDD']).resolve_symbols({'V': NumericValue(5), 'Z0': "
     "NumericValue(0), 'L': AddressValue(2)}).translate()"),
    "IndexedOperand('NOPE,X++Y', MN['LDA']).translate()",
    "ExtendedIndexedOperand('[NOPE,X++Y]', MN['LDA']).translate()",
    ("IndexedOperand('NOPE,X++Y', MN['LEAX']).resolve_symbols({'V': NumericValue(5), 'Z0': NumericValue(0), 'L': "
     'AddressValue(2)}).translate()'),
    ("ExtendedIndexedOperand('[NOPE,X++Y]', MN['LDD']).resolve_symbols({'V': NumericValue(5), 'Z0': "
     "NumericValue(0), 'L': AddressValue(2)}).translate()"),
]

# Command line runs: (name, [source lines], [arguments], [files expected])
CLI_CASES = [
    ('auto step listing',
     [' NAM AUTO',
      ' ORG $E00',
      'S LDA ,X+',
      ' LDA ,X++',
      ' LDA ,-X',
      ' LDA ,--X',
      ' LDA [,X++]',
      ' LDA [,--X]',
      ' LDA ,X',
      ' LDA [,X]',
      ' LDA 0,X',
      ' LDA A,X',
      ' RTS'],
     [['--print', '--symbols', '--to_bin', 'o.bin']],
     []),
]

USE_CORPUS = True

# --------------------------------------------------------------------------
# worker: runs inside ONE tree
# --------------------------------------------------------------------------


def show(obj, depth=0):
    """Turns a library object into plain comparable data."""
    from enum import Enum
    if depth > 6:
        return "<deep>"
    if obj is None or isinstance(obj, (bool, int, float, str)):
        return obj
    if isinstance(obj, bytes):
        return obj.hex()
    if isinstance(obj, Enum):
        return "{}.{}".format(type(obj).__name__, obj.name)
    if isinstance(obj, (list, tuple)):
        return [show(x, depth + 1) for x in obj]
    if isinstance(obj, (set, frozenset)):
        return sorted(repr(show(x, depth + 1)) for x in obj)
    if isinstance(obj, dict):
        return {str(k): show(v, depth + 1) for k, v in obj.items()}
    if isinstance(obj, BaseException):
        return describe_error(obj)
    if isinstance(obj, type):
        return "class " + obj.__name__
    result = {"__class__": type(obj).__name__}
    fields = getattr(obj, "__dict__", None)
    if fields is None:
        return repr(obj)
    for key in sorted(fields):
        if key.startswith("_"):
            continue
        result[key] = show(fields[key], depth + 1)
    for method in ("hex", "hex_len", "byte_len", "ascii", "is_8_bit", "is_16_bit", "is_4_bit",
                   "high_byte", "low_byte"):
        function = getattr(obj, method, None)
        if callable(function) and hasattr(obj, "explict_addressing_mode"):
            try:
                result["." + method] = show(function(), depth + 1)
            except Exception as error:
                result["." + method] = describe_error(error)
    return result


def describe_error(error):
    description = {"error": type(error).__name__, "text": str(error), "args": show(list(error.args))}
    if hasattr(error, "value"):
        description["value"] = show(getattr(error, "value"))
    if hasattr(error, "statement"):
        statement = getattr(error, "statement")
        try:
            description["statement"] = str(statement)
        except Exception as inner:
            description["statement"] = "unprintable: " + type(inner).__name__
    return description


def assemble(lines):
    from cocoasm.program import Program
    program = Program()
    try:
        program.process(list(lines))
    except BaseException as error:
        return {"raised": describe_error(error),
                "symbols_so_far": sorted(program.symbol_table.keys())}
    outcome = {}
    for name, function in (
            ("binary", program.get_binary_array),
            ("listing", program.get_statements),
            ("symbols", program.get_symbol_table),
    ):
        try:
            outcome[name] = show(function())
        except BaseException as error:
            outcome[name] = describe_error(error)
    outcome["origin"] = show(program.origin)
    outcome["name"] = show(program.name)
    outcome["packages"] = [
        [s.code_pkg.size, s.code_pkg.max_size, s.fixed_size, s.pcr_size_hint,
         show(s.code_pkg.post_byte_choices), s.code_pkg.additional_needs_resolution,
         type(s.operand).__name__, show(s.operand.type)]
        for s in program.statements
    ]
    return outcome


def run_cli(tree, name, lines, arguments, files):
    results = {}
    with tempfile.TemporaryDirectory() as scratch:
        source = os.path.join(scratch, "input.asm")
        with open(source, "w") as handle:
            handle.write("\n".join(lines) + "\n")
        environment = dict(os.environ, PYTHONPATH=tree, PYTHONDONTWRITEBYTECODE="1")
        for round_number, argument_list in enumerate(arguments):
            completed = subprocess.run(
                [sys.executable, os.path.join(tree, "assembler.py"), "input.asm"] + argument_list,
                cwd=scratch, env=environment, capture_output=True, text=True, timeout=120,
            )
            results["run{}".format(round_number)] = {
                "stdout": completed.stdout.replace(tree, "<TREE>"),
                "stderr": completed.stderr.replace(tree, "<TREE>"),
                "code": completed.returncode,
            }
        produced = {}
        for file_name in sorted(os.listdir(scratch)):
            if file_name == "input.asm":
                continue
            with open(os.path.join(scratch, file_name), "rb") as handle:
                produced[file_name] = handle.read().hex()
        results["files"] = produced
    return results


def worker(tree):
    tree = os.path.abspath(tree)
    sys.path.insert(0, tree)
    os.chdir(tree)
    sys.dont_write_bytecode = True
    results = {}

    import cocoasm.instruction
    import cocoasm.operands
    import cocoasm.values
    import cocoasm.statement
    import cocoasm.program
    assert os.path.abspath(cocoasm.program.__file__).startswith(tree), cocoasm.program.__file__

    for name, lines in CASES:
        # as SourceFile.readlines() delivers them, and bare
        results["case:" + name] = assemble([line + "\n" for line in lines])
        results["bare:" + name] = assemble(lines)

    namespace = {"show": show}
    for module in (cocoasm.instruction, cocoasm.operands, cocoasm.values, cocoasm.statement, cocoasm.program):
        namespace.update({k: v for k, v in vars(module).items() if not k.startswith("__")})
    namespace["MN"] = {i.mnemonic: i for i in cocoasm.instruction.INSTRUCTIONS}
    for expression in PROBES:
        try:
            results["probe:" + expression] = show(eval(expression, dict(namespace)))
        except BaseException as error:
            results["probe:" + expression] = {"raised": describe_error(error)}

    if USE_CORPUS:
        for instruction in cocoasm.instruction.INSTRUCTIONS:
            for operand in OPERAND_FORMS:
                lines = [x.format(mnemonic=instruction.mnemonic, operand=operand) + "\n" for x in CORPUS_TEMPLATE]
                outcome = assemble(lines)
                # the corpus is big: keep a digest plus the essentials
                blob = json.dumps(outcome, sort_keys=True)
                results["corpus:{} {}".format(instruction.mnemonic, operand)] = [
                    hashlib.sha1(blob.encode()).hexdigest(),
                    outcome.get("binary", outcome.get("raised")),
                ]

    for name, lines, arguments, files in CLI_CASES:
        results["cli:" + name] = run_cli(tree, name, lines, arguments, files)

    json.dump(results, sys.stdout, sort_keys=True)


# --------------------------------------------------------------------------
# driver
# --------------------------------------------------------------------------


def main():
    if len(sys.argv) == 3 and sys.argv[1] == "--worker":
        worker(sys.argv[2])
        return 0
    if len(sys.argv) != 3:
        print(__doc__)
        return 2
    outputs = []
    for tree in sys.argv[1:3]:
        tree = os.path.abspath(tree)
        completed = subprocess.run(
            [sys.executable, os.path.abspath(__file__), "--worker", tree],
            capture_output=True, text=True, cwd=tree,
            env=dict(os.environ, PYTHONDONTWRITEBYTECODE="1"),
        )
        if completed.returncode != 0:
            print("worker failed for", tree)
            print(completed.stderr[-3000:])
            return 1
        outputs.append(json.loads(completed.stdout))
    first, second = outputs
    differences = 0
    for key in sorted(set(first) | set(second)):
        if first.get(key, "<missing>") != second.get(key, "<missing>"):
            differences += 1
            if differences <= 10:
                print("DIFFERENT:", key)
                print("   A:", json.dumps(first.get(key, "<missing>"), sort_keys=True)[:300])
                print("   B:", json.dumps(second.get(key, "<missing>"), sort_keys=True)[:300])
    kinds = {}
    for key in first:
        kinds[key.split(":")[0]] = kinds.get(key.split(":")[0], 0) + 1
    print("compared {} results ({}); {} differ".format(
        len(first), ", ".join("{} {}".format(v, k) for k, v in sorted(kinds.items())), differences))
    return 1 if differences else 0


if __name__ == "__main__":
    sys.exit(main())
