#!/usr/bin/env python
"""
Differential check for refactoring C16/d (CassetteFile.read_file / read_blocks / read_byte).

usage: equiv.py <treeA> <treeB>

The driver below is run once per tree in a subprocess (tree at the front of sys.path and as cwd).
It reads hand-made and generated cassette images with the library readers and with file_util.py,
and prints one JSON record per case. The two outputs must be identical.
"""
import json
import os
import subprocess
import sys
import tempfile

DRIVER = r'''
import sys, os, json, subprocess, hashlib, traceback
tree, work = sys.argv[1], sys.argv[2]
sys.path.insert(0, tree)
from cocoasm.values import NumericValue, NoneValue
from cocoasm.virtualfiles.coco_file import CoCoFile
from cocoasm.virtualfiles.cassette import CassetteFile
from cocoasm.virtualfiles.disk import DiskFile
from cocoasm.virtualfiles.virtual_file import VirtualFile, VirtualFileType
from cocoasm.virtualfiles.source_file import SourceFile, SourceFileType

def val(v):
    try:
        return [type(v).__name__, v.int, v.hex()]
    except Exception as e:
        return [type(v).__name__, repr(e)]

def cf(f):
    if f is None:
        return None
    return dict(name=f.name, ext=f.extension, type=val(f.type), data_type=val(f.data_type), gaps=val(f.gaps),
                load=val(f.load_addr), exec=val(f.exec_addr), data=list(f.data), ignore_gaps=f.ignore_gaps,
                text=str(f))

def attempt(fn):
    try:
        return ["ok", fn()]
    except BaseException as e:
        return ["raise", type(e).__name__, str(e)]

CASES = []
def case(name, fn):
    CASES.append((name, fn))

def mk(name, ftype, dtype, load, exe, data):
    return CoCoFile(name=name, extension="BIN" if ftype == 2 else "BAS", type=NumericValue(ftype),
                    data_type=NumericValue(dtype), load_addr=NumericValue(load), exec_addr=NumericValue(exe),
                    data=data)

def image(files):
    c = CassetteFile()
    c.add_files(files)
    return list(c.get_buffer())

def pattern(n, seed=7):
    return [(i * seed + 3) & 0xFF for i in range(n)]

FILESETS = {
    "one_ml": [mk("HELLO", 2, 0, 0x0E00, 0x0E10, pattern(10))],
    "one_basic": [mk("PROG", 0, 0, 0, 0, pattern(40))],
    "ascii": [mk("TEXT", 0, 0xFF, 0, 0, [0x41, 0x42, 0x0D])],
    "data_file": [mk("DATAFILE", 1, 0xFF, 0x1234, 0x5678, pattern(5))],
    "three": [mk("A", 2, 0, 0x100, 0x100, pattern(3)), mk("LONGNAME", 0, 0, 0, 0, pattern(300)),
              mk("c", 2, 0, 0xFFFF, 0x0000, pattern(255))],
    "len254": [mk("L254", 2, 0, 0x2000, 0x2000, pattern(254))],
    "len255": [mk("L255", 2, 0, 0x2000, 0x2000, pattern(255))],
    "len256": [mk("L256", 2, 0, 0x2000, 0x2000, pattern(256))],
    "len600": [mk("L600", 2, 0, 0x3000, 0x3001, pattern(600, 11))],
    "marker_in_data": [mk("MARK", 2, 0, 0x10, 0x20, [0x55, 0x3C, 0x00, 0x0F, 0x55, 0x3C, 0xFF, 0x00, 1, 2, 3])],
    "empty_then_full": [mk("EMPTY", 2, 0, 1, 2, []), mk("FULL", 2, 0, 3, 4, [9, 8, 7])],
    "same_names": [mk("DUP", 2, 0, 1, 2, [1]), mk("DUP", 0, 0, 0, 0, [2, 3])],
    "nul_name": [mk("AB\0\0", 2, 0, 1, 2, [1, 2])],
}

def list_all(buf, names=None):
    c = CassetteFile(buffer=list(buf))
    return [cf(f) for f in c.list_files(filenames=names)]

for key, fs in FILESETS.items():
    case("list:" + key, lambda fs=fs: list_all(image(fs)))
    case("read_file0:" + key, lambda fs=fs: (lambda r: [cf(r[0]), r[1]])(CassetteFile(buffer=image(fs)).read_file(0)))
    case("read_file_mid:" + key, lambda fs=fs: (lambda r: [cf(r[0]), r[1]])(CassetteFile(buffer=image(fs)).read_file(300)))

case("list_filter", lambda: list_all(image(FILESETS["three"]), ["A       ", "c       "]))
case("list_filter_nomatch", lambda: list_all(image(FILESETS["three"]), ["A"]))

# truncated images: every truncation point around the header and the data of a small file
small = image(FILESETS["one_ml"])
hdr = 256
for cut in list(range(hdr - 2, hdr + 30)) + list(range(len(small) - 30, len(small) + 1)):
    case("truncated:%d" % cut, lambda cut=cut: list_all(small[:cut]))

# hand made block streams for read_blocks
def blocks(buf, pointer=0):
    c = CassetteFile(buffer=list(buf))
    data, p = c.read_blocks(pointer)
    return [list(data), p]

case("blocks:eof_only", lambda: blocks([0x55, 0x3C, 0xFF, 0x00, 0xFF, 0x55]))
case("blocks:data_eof", lambda: blocks([0x55, 0x3C, 0x01, 0x02, 0xAA, 0xBB, 0x70, 0x55, 0x55, 0x3C, 0xFF, 0x00, 0xFF, 0x55]))
case("blocks:two_data", lambda: blocks([0x55, 0x3C, 0x01, 0x01, 0xAA, 0, 0x55, 0x55, 0x3C, 0x01, 0x01, 0xBB, 0, 0x55, 0x55, 0x3C, 0xFF, 0, 0xFF, 0x55]))
case("blocks:zero_len_data", lambda: blocks([0x55, 0x3C, 0x01, 0x00, 0x01, 0x55, 0x55, 0x3C, 0xFF, 0, 0xFF, 0x55]))
case("blocks:unknown_type", lambda: blocks([0x55, 0x3C, 0x02, 0x00, 0x01, 0x55]))
case("blocks:unknown_type_7f", lambda: blocks([0x55, 0x3C, 0x01, 0x01, 0xAA, 0, 0x55, 0x55, 0x3C, 0x7F, 0x00]))
case("blocks:none", lambda: blocks([0x00, 0x01, 0x02]))
case("blocks:empty", lambda: blocks([]))
case("blocks:no_eof", lambda: blocks([0x55, 0x3C, 0x01, 0x01, 0xAA, 0, 0x55]))
case("blocks:marker_at_end", lambda: blocks([0x00, 0x55, 0x3C]))
case("blocks:short_data", lambda: blocks([0x55, 0x3C, 0x01, 0x05, 0xAA]))
case("blocks:len_missing", lambda: blocks([0x55, 0x3C, 0x01]))
case("blocks:offset", lambda: blocks([0x55, 0x3C, 0x01, 0x01, 0xAA, 0, 0x55, 0x55, 0x3C, 0xFF, 0, 0xFF, 0x55], 3))
case("blocks:leading_noise", lambda: blocks([0x55, 0x55, 0x55, 0x3C, 0xFF, 0, 0xFF, 0x55]))

# hand made headers for read_file
def rf(buf, pointer=0):
    c = CassetteFile(buffer=list(buf))
    f, p = c.read_file(pointer)
    return [cf(f), p]

HDR = [0x55, 0x3C, 0x00, 0x0F] + [ord(x) for x in "NAME    "]
EOFB = [0x55, 0x3C, 0xFF, 0x00, 0xFF, 0x55]
DATAB = [0x55, 0x3C, 0x01, 0x02, 0x11, 0x22, 0x36, 0x55]
for t in (0, 1, 2, 3, 0xFF):
    for d in (0, 0xFF, 0x7F):
        for g in (0, 0xFF):
            case("hdr:%d:%d:%d" % (t, d, g),
                 lambda t=t, d=d, g=g: rf(HDR + [t, d, g, 0x12, 0x34, 0x56, 0x78, 0x00, 0x55] + DATAB + EOFB))
case("hdr:no_data", lambda: rf(HDR + [2, 0, 0, 0x12, 0x34, 0x56, 0x78, 0x00, 0x55] + EOFB))
case("hdr:no_blocks", lambda: rf(HDR + [2, 0, 0, 0x12, 0x34, 0x56, 0x78, 0x00, 0x55]))
case("hdr:none", lambda: rf([1, 2, 3]))
case("hdr:empty", lambda: rf([]))
case("hdr:start_past_end", lambda: rf(HDR + [2, 0, 0, 1, 2, 3, 4, 0, 0x55] + DATAB + EOFB, 5))
case("hdr:non_utf8_name", lambda: rf([0x55, 0x3C, 0x00, 0x0F] + [0xC3, 0x28] + [0x20] * 6 + [2, 0, 0, 1, 2, 3, 4, 0, 0x55] + DATAB + EOFB))
for n in range(4, 26):
    case("hdr:cut:%d" % n, lambda n=n: rf((HDR + [2, 0, 0, 0x12, 0x34, 0x56, 0x78, 0x00, 0x55] + DATAB + EOFB)[:n]))

# detection through VirtualFile and the command line tool
def write(path, data):
    with open(path, "wb") as f:
        f.write(bytearray(data))

def snapshot():
    out = {}
    for n in sorted(os.listdir(work)):
        with open(os.path.join(work, n), "rb") as f:
            out[n] = hashlib.sha256(f.read()).hexdigest() + ":" + str(os.path.getsize(os.path.join(work, n)))
    return out

def cli(*args):
    p = subprocess.run([sys.executable, os.path.join(tree, "file_util.py")] + list(args), cwd=work,
                       capture_output=True, text=True)
    err = p.stderr.replace(tree, "<TREE>")
    if "Traceback" in err:
        err = "Traceback ... " + err.strip().splitlines()[-1]
    return [p.returncode, p.stdout.replace(tree, "<TREE>"), err, snapshot()]

for key, fs in FILESETS.items():
    write(os.path.join(work, key + ".cas"), image(fs))
write(os.path.join(work, "trunc.cas"), small[:hdr + 10])
write(os.path.join(work, "noeof.cas"), small[:-6])
write(os.path.join(work, "junk.cas"), [1, 2, 3, 4])

for key in FILESETS:
    case("cli:list:" + key, lambda key=key: cli(key + ".cas", "--list"))
    case("cli:to_dsk:" + key, lambda key=key: cli(key + ".cas", "--to_dsk", key + ".dsk"))
    case("cli:dsk_list:" + key, lambda key=key: cli(key + ".dsk", "--list"))
    case("cli:back_to_cas:" + key, lambda key=key: cli(key + ".dsk", "--to_cas", key + "_2.cas"))
    case("cli:back_list:" + key, lambda key=key: cli(key + "_2.cas", "--list"))
    case("cli:to_cas:" + key, lambda key=key: cli(key + ".cas", "--to_cas", key + "_copy.cas"))
    case("cli:to_bin:" + key, lambda key=key: cli(key + ".cas", "--to_bin", key + ".bin"))
case("cli:files_lower", lambda: cli("three.cas", "--to_cas", "sel1.cas", "--files", "a", "C"))
case("cli:files_mixed", lambda: cli("three.cas", "--to_dsk", "sel2.dsk", "--files", "LongName"))
case("cli:files_none", lambda: cli("three.cas", "--to_dsk", "sel3.dsk", "--files", "nothere"))
case("cli:exists", lambda: cli("three.cas", "--to_cas", "sel1.cas"))
case("cli:append", lambda: cli("one_ml.cas", "--to_cas", "sel1.cas", "--append"))
case("cli:append_list", lambda: cli("sel1.cas", "--list"))
case("cli:trunc", lambda: cli("trunc.cas", "--list"))
case("cli:trunc_dsk", lambda: cli("trunc.cas", "--to_dsk", "trunc.dsk"))
case("cli:noeof", lambda: cli("noeof.cas", "--list"))
case("cli:junk", lambda: cli("junk.cas", "--list"))
case("cli:junk_bin", lambda: cli("junk.cas", "--to_bin", "junk.bin"))
case("cli:missing", lambda: cli("missing.cas", "--list"))

def vf(name):
    v = VirtualFile(SourceFile(os.path.join(work, name), file_type=SourceFileType.BINARY))
    v.open_virtual_file()
    return [str(v.virtual_file_type), v.file_exists, [cf(f) for f in v.list_files()]]

for name in ("three.cas", "trunc.cas", "noeof.cas", "junk.cas", "len600.cas", "nope.cas"):
    case("vf:" + name, lambda name=name: vf(name))

for name, fn in CASES:
    print(json.dumps([name, attempt(fn)], sort_keys=True))
print(json.dumps(["#cases", len(CASES)]))
'''


def run(tree):
    tree = os.path.abspath(tree)
    with tempfile.TemporaryDirectory() as tmp:
        driver = os.path.join(tmp, "driver.py")
        work = os.path.join(tmp, "work")
        os.mkdir(work)
        with open(driver, "w") as handle:
            handle.write(DRIVER)
        env = dict(os.environ, PYTHONDONTWRITEBYTECODE="1", PYTHONHASHSEED="0")
        env.pop("PYTHONPATH", None)
        proc = subprocess.run([sys.executable, driver, tree, work], cwd=tree, env=env,
                              capture_output=True, text=True)
        return proc.returncode, proc.stdout.replace(work, "<WORK>"), proc.stderr.replace(tree, "<TREE>")


def main():
    if len(sys.argv) != 3:
        print(__doc__)
        return 2
    a = run(sys.argv[1])
    b = run(sys.argv[2])
    if a[0] != 0 or b[0] != 0:
        print("driver failed:", a[0], a[2][-2000:], b[0], b[2][-2000:])
        return 1
    lines_a, lines_b = a[1].splitlines(), b[1].splitlines()
    bad = 0
    for la, lb in zip(lines_a, lines_b):
        if la != lb:
            bad += 1
            print("DIFF\n  A: %s\n  B: %s" % (la[:600], lb[:600]))
    if len(lines_a) != len(lines_b):
        bad += 1
        print("different number of records: %d vs %d" % (len(lines_a), len(lines_b)))
    count = json.loads(lines_a[-1])[1] if lines_a else 0
    if count < 30:
        print("too few cases:", count)
        return 1
    print("%d cases compared, %d differences" % (count, bad))
    return 1 if bad else 0


if __name__ == "__main__":
    sys.exit(main())
