#!/usr/bin/env python
"""
Differential check for refactoring C11/l: assembler.py main() - one save_as() closure for the three output switches, the no-name guard as require_name() raising MissingProgramName, listings through print_section().

usage: equiv.py <treeA> <treeB>   (exit 0 = every observable result agrees)
Each tree is exercised in its own subprocess with the tree first on sys.path.
"""
import sys, os, json, subprocess, tempfile

PRELUDE = r'''
# ---- driver prelude: runs inside ONE tree (argv[1]) with a scratch dir (argv[2]) ----
import sys, os, io, json, hashlib, contextlib, importlib, shutil, traceback

TREE = os.path.realpath(sys.argv[1])
SCRATCH = os.path.realpath(sys.argv[2])
sys.path.insert(0, TREE)
os.chdir(TREE)

import cocoasm
assert os.path.realpath(cocoasm.__file__).startswith(TREE + os.sep), cocoasm.__file__

RESULTS = []
_case_no = [0]


def norm(value):
    """Turns any result into something JSON can carry, without losing what is observable."""
    if isinstance(value, (bytes, bytearray)):
        return {"bytes": bytes(value).hex()}
    if isinstance(value, (list, tuple)):
        if len(value) > 64 and all(isinstance(x, int) and not isinstance(x, bool) for x in value):
            blob = ",".join(str(x) for x in value).encode()
            return {"ints": len(value), "sha1": hashlib.sha1(blob).hexdigest()}
        return [norm(x) for x in value]
    if isinstance(value, dict):
        return {str(k): norm(v) for k, v in value.items()}
    if value is None or isinstance(value, (bool, int, float, str)):
        return value
    if hasattr(value, "_asdict"):
        return {"nt": type(value).__name__, "fields": norm(value._asdict())}
    if hasattr(value, "hex") and hasattr(value, "hex_len"):
        try:
            return {"value": type(value).__name__, "hex": value.hex(), "int": getattr(value, "int", None)}
        except Exception as error:      # noqa
            return {"value": type(value).__name__, "hex_error": repr(error)}
    return {"repr": type(value).__name__ + ":" + str(value)}


def snapshot(directory):
    files = {}
    for root, _, names in os.walk(directory):
        for name in sorted(names):
            path = os.path.join(root, name)
            with open(path, "rb") as handle:
                blob = handle.read()
            files[os.path.relpath(path, directory)] = [len(blob), hashlib.sha1(blob).hexdigest()]
    return files


def case(name, fn, workdir=None):
    """Runs fn(), records value / exception / stdout / stderr / files left in workdir."""
    out, err = io.StringIO(), io.StringIO()
    record = {"name": name}
    old_cwd = os.getcwd()
    if workdir:
        os.chdir(workdir)
    try:
        with contextlib.redirect_stdout(out), contextlib.redirect_stderr(err):
            try:
                record["value"] = norm(fn())
            except SystemExit as error:
                record["exit"] = norm(error.code)
            except BaseException as error:      # noqa
                record["exc"] = [type(error).__name__, str(error)]
    finally:
        os.chdir(old_cwd)
    record["stdout"] = out.getvalue()
    record["stderr"] = err.getvalue()
    if workdir:
        record["files"] = snapshot(workdir)
    RESULTS.append(record)
    return record


def fresh_dir(files=None):
    _case_no[0] += 1
    path = os.path.join(SCRATCH, "c%04d" % _case_no[0])
    os.makedirs(path)
    for name, content in (files or {}).items():
        mode = "wb" if isinstance(content, (bytes, bytearray)) else "w"
        with open(os.path.join(path, name), mode) as handle:
            handle.write(content)
    return path


def cli(module_name, argv):
    """Runs a command-line front end the way `python module.py argv...` would."""
    def run():
        module = importlib.import_module(module_name)
        assert os.path.realpath(module.__file__).startswith(TREE + os.sep)
        old = sys.argv
        sys.argv = [module_name + ".py"] + list(argv)
        try:
            module.main(module.parse_arguments())
        finally:
            sys.argv = old
    return run


def cli_case(name, module_name, argv, files=None, workdir=None, then=()):
    """One CLI run in a fresh (or given) directory, optionally followed by more runs in the same directory."""
    workdir = workdir or fresh_dir(files)
    case(name, cli(module_name, argv), workdir)
    for index, (module2, argv2) in enumerate(then):
        case("%s/then%d" % (name, index), cli(module2, argv2), workdir)
    return workdir


def finish():
    json.dump(RESULTS, sys.stdout)
    sys.stdout.write("\n")
# ---- end of prelude ----
'''

CASES = r'''# ---- cases for C11/l: assembler.py main(): save_as closure, require_name/MissingProgramName, print_section ----
import itertools


def program(size, name="prog", origin="$0E00", end="START", extra=""):
    lines = []
    if name is not None:
        lines.append("        NAM %s\n" % name)
    if origin is not None:
        lines.append("        ORG %s\n" % origin)
    lines.append("START   LDA #$01\n")
    lines.append("LOOP    STA ,X+\n")
    lines.append("        BNE LOOP\n")
    left = size - 6
    value = 0
    while left > 0:
        chunk = min(left, 40)
        lines.append("        FCB %s\n" % ",".join(str((value + i) % 251) for i in range(chunk)))
        value += chunk
        left -= chunk
    lines.append(extra)
    if end is not None:
        lines.append("        END %s\n" % end)
    return "".join(lines)


SOURCES = {
    "named.asm": program(40, "hello"),
    "upper.asm": program(300, "LOUDNAME", "$3F00"),
    "long.asm": program(10, "twelvechars1"),
    "anon.asm": program(40, None),
    "noorg.asm": program(12, "noorg", None, None),
    "endop.asm": program(12, "endop", "$1000", "LOOP"),
    "big.asm": program(5000, "big", "$2000"),
    "empty.asm": "        NAM nothing\n",
    "blank.asm": "",
    "undefined.asm": program(10, "bad", extra="        JMP NOWHERE\n"),
    "badmnemonic.asm": program(10, "bad", extra="        FROB #1\n"),
    "dup.asm": program(10, "bad", extra="START   NOP\n"),
    "incl.asm": "        NAM incl\n        ORG $4000\n        INCLUDE named.asm\n        NOP\n",
    "inclmissing.asm": "        NAM incl\n        INCLUDE nothere.asm\n",
    "twonames.asm": "        NAM one\n        ORG $100\n        NOP\n        NAM two\n        ORG $200\n        NOP\n",
}

SWITCHES = {
    "none": [],
    "bin": ["--to_bin", "o.bin"],
    "cas": ["--to_cas", "o.cas"],
    "dsk": ["--to_dsk", "o.dsk"],
    "bin+cas": ["--to_bin", "o.bin", "--to_cas", "o.cas"],
    "cas+dsk": ["--to_cas", "o.cas", "--to_dsk", "o.dsk"],
    "dsk+bin": ["--to_dsk", "o.dsk", "--to_bin", "o.bin"],
    "all": ["--to_bin", "o.bin", "--to_cas", "o.cas", "--to_dsk", "o.dsk"],
}
LISTS = [("file_util", ["o.cas", "--list"]), ("file_util", ["o.dsk", "--list"]), ("file_util", ["o.bin", "--list"])]

for source in ["named.asm", "upper.asm", "long.asm", "anon.asm", "noorg.asm", "endop.asm", "twonames.asm", "empty.asm"]:
    for label, switches in SWITCHES.items():
        cli_case("%s-%s" % (source, label), "assembler", [source] + switches, files=SOURCES, then=LISTS)
        if source == "anon.asm":
            cli_case("%s-%s-argname" % (source, label), "assembler", [source] + switches + ["--name", "Given"],
                     files=SOURCES, then=LISTS)
cli_case("named-argname-ignored", "assembler", ["named.asm", "--name", "other"] + SWITCHES["all"], files=SOURCES, then=LISTS)
cli_case("anon-empty-argname", "assembler", ["anon.asm", "--name", ""] + SWITCHES["all"], files=SOURCES, then=LISTS)
cli_case("anon-long-argname", "assembler", ["anon.asm", "--name", "ABCDEFGHIJKL"] + SWITCHES["all"], files=SOURCES, then=LISTS)

# listings
for source in ["named.asm", "anon.asm", "big.asm", "incl.asm", "blank.asm", "empty.asm"]:
    cli_case("%s-symbols" % source, "assembler", [source, "--symbols"], files=SOURCES)
    cli_case("%s-print" % source, "assembler", [source, "--print"], files=SOURCES)
    cli_case("%s-both-all" % source, "assembler", [source, "--print", "--symbols", "--width", "60"] + SWITCHES["all"],
             files=SOURCES, then=LISTS)

# failing assemblies: nothing may be written
for source in ["undefined.asm", "badmnemonic.asm", "dup.asm", "inclmissing.asm", "missing-file.asm"]:
    cli_case("%s-all" % source, "assembler", [source, "--symbols", "--print"] + SWITCHES["all"], files=SOURCES)

# existing targets, --append, wrong container types, unwritable targets
work = cli_case("exist-1", "assembler", ["named.asm"] + SWITCHES["all"], files=SOURCES)
cli_case("exist-2-again", "assembler", ["upper.asm"] + SWITCHES["all"], workdir=work, then=LISTS)
cli_case("exist-3-append", "assembler", ["upper.asm", "--append"] + SWITCHES["all"], workdir=work, then=LISTS)
cli_case("exist-4-append-anon", "assembler", ["anon.asm", "--append"] + SWITCHES["all"], workdir=work, then=LISTS)
cli_case("exist-5-append-anon-named", "assembler", ["anon.asm", "--append", "--name", "late"] + SWITCHES["all"], workdir=work, then=LISTS)
cli_case("exist-6-crossed", "assembler", ["big.asm", "--append", "--to_cas", "o.dsk", "--to_dsk", "o.cas", "--to_bin", "o.cas"],
         workdir=work, then=LISTS)
cli_case("exist-7-bin-onto-dsk", "assembler", ["big.asm", "--append", "--to_bin", "o.dsk"], workdir=work, then=LISTS)
cli_case("nodir-all", "assembler", ["named.asm", "--to_bin", "no/such/o.bin", "--to_cas", "no/such/o.cas", "--to_dsk", "no/such/o.dsk"],
         files=SOURCES)
work = fresh_dir(SOURCES)
os.mkdir(os.path.join(work, "adir"))
cli_case("target-is-directory", "assembler", ["named.asm", "--to_bin", "adir", "--to_cas", "adir", "--to_dsk", "adir"], workdir=work)
cli_case("target-is-directory-anon", "assembler", ["anon.asm", "--to_bin", "adir", "--to_cas", "adir", "--to_dsk", "adir"], workdir=work)
cli_case("same-target-thrice", "assembler", ["named.asm", "--to_bin", "same", "--to_cas", "same", "--to_dsk", "same"], files=SOURCES,
         then=[("file_util", ["same", "--list"])])
cli_case("same-target-thrice-append", "assembler", ["named.asm", "--append", "--to_bin", "same", "--to_cas", "same", "--to_dsk", "same"],
         files=SOURCES, then=[("file_util", ["same", "--list"])])
cli_case("bad-arguments", "assembler", ["--to_cas"], files=SOURCES)
cli_case("no-arguments", "assembler", [], files=SOURCES)


# library level: the helpers that exist in both trees
def throw():
    import assembler

    class Fake(object):
        value = "something went wrong"
        statement = "   LDA #1"
    assembler.throw_error(Fake())


case("throw-error", throw)
'''


def run_tree(tree):
    tree = os.path.realpath(tree)
    with tempfile.TemporaryDirectory(prefix="equiv_") as tmp:
        driver = os.path.join(tmp, "driver.py")
        with open(driver, "w") as handle:
            handle.write(PRELUDE + "\n" + CASES + "\nfinish()\n")
        scratch = os.path.join(tmp, "scratch")
        os.mkdir(scratch)
        env = dict(os.environ, PYTHONDONTWRITEBYTECODE="1", PYTHONHASHSEED="0")
        env.pop("PYTHONPATH", None)
        proc = subprocess.run(
            [sys.executable, "-B", driver, tree, scratch],
            cwd=tree, env=env, capture_output=True, text=True,
        )
        if proc.returncode != 0:
            print("driver failed in", tree)
            print(proc.stderr[-4000:])
            sys.exit(2)
        return json.loads(proc.stdout.splitlines()[-1])


def main():
    if len(sys.argv) != 3:
        print("usage: equiv.py <treeA> <treeB>")
        sys.exit(2)
    res_a = run_tree(sys.argv[1])
    res_b = run_tree(sys.argv[2])
    bad = 0
    if [r["name"] for r in res_a] != [r["name"] for r in res_b]:
        print("case lists differ")
        bad += 1
    for rec_a, rec_b in zip(res_a, res_b):
        if rec_a != rec_b:
            bad += 1
            print("DIFF in case", rec_a["name"])
            for key in sorted(set(rec_a) | set(rec_b)):
                if rec_a.get(key) != rec_b.get(key):
                    print("   ", key, ":", repr(rec_a.get(key))[:300], "!=", repr(rec_b.get(key))[:300])
    errors = sum(1 for r in res_a if "exc" in r or "exit" in r)
    print("%d cases compared (%d of them end in an exception/exit), %d differ" % (len(res_a), errors, bad))
    sys.exit(1 if bad else 0)


if __name__ == "__main__":
    main()
