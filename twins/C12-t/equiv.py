#!/venv/bin/python
"""
Differential demonstration for property C12 refactoring "t".

usage: equiv.py <treeA> <treeB>

Runs the same battery of inputs against both trees (one subprocess per tree,
the tree being both cwd and sys.path[0]) and compares every observable:
emitted bytes, listing lines, symbol table lines, origin / name, per statement
code package sizes, exception type and message, CLI stdout / stderr / exit
status and the files the CLI writes.  Exit status 0 when everything agrees,
1 otherwise.
"""
import hashlib
import json
import os
import random
import subprocess
import sys
import tempfile

PYTHON = "/venv/bin/python"

# --------------------------------------------------------------------------
# inputs
# --------------------------------------------------------------------------

MNEMONICS = [
    "LDA", "LDB", "LDD", "LDX", "LDY", "LDU", "LDS", "STA", "STB", "STD", "STX", "STY",
    "ADDA", "ADDD", "SUBD", "CMPX", "CMPY", "CMPA", "ANDCC", "ORCC", "CWAI",
    "LEAX", "LEAY", "LEAS", "LEAU", "JMP", "JSR", "NEG", "CLR", "TST", "INC", "ASL",
    "NOP", "RTS", "CLRA", "ABX", "SWI2", "SYNC",
    "BRA", "BNE", "LBRA", "LBEQ", "BSR", "LBSR",
    "PSHS", "PSHU", "PULS", "PULU", "TFR", "EXG",
    "FCB", "FDB", "RMB", "FCC", "EQU", "SETDP", "ORG",
]

OPERANDS = [
    "",
    # immediates
    "#0", "#1", "#$7F", "#$80", "#$FF", "#255", "#256", "#$100", "#$1234", "#$FFFF", "#65535", "#65536",
    "#70000", "#-1", "#-128", "#-129", "#-32768", "#-32769", "#%10101010", "#%1010", "#%1010101010101010",
    "#'A", "#VAL", "#WVAL", "#START", "#NEXT", "#VAL+1", "#$12345", "#NOSUCH",
    # direct / extended
    "0", "1", "$00", "$7F", "$FF", "255", "256", "$100", "$0100", "$1234", "$FFFF", "65535", "65536", "70000",
    "-1", "-128", "-32768", "-32769", "$12345", "%00001111", "%0000111100001111", "%101",
    "<$12", "<$1234", "<VAL", "<WVAL", "<300", ">$12", ">$1234", ">VAL", ">0", "<", ">", "#",
    "VAL", "WVAL", "START", "NEXT", "NOSUCH", "VAL+1", "WVAL-1", "NEXT+2", "START-NEXT", "NEXT*2", "WVAL/2",
    "'A", "'", "\"AB\"", "/AB/", "/AB",
    # indexed
    ",X", ",Y", ",U", ",S", ",X+", ",X++", ",-X", ",--X", ",Y+", ",Y++", ",-Y", ",--Y", ",U++", ",--S",
    "0,X", "1,X", "15,X", "16,X", "-16,X", "-17,X", "127,Y", "128,Y", "-128,U", "-129,U", "255,S", "256,S",
    "$10,X", "$1234,X", "$FFFF,Y", "65535,X", "65536,X", "70000,X", "-32768,X", "-32769,X",
    "A,X", "B,Y", "D,U", "A,S", "E,X", "X,X", "A,PCR", "A,Z",
    "5,Z", "1,PC", "5,PC", "0,PCR", "5,PCR", "$10,PCR", "$1234,PCR", "NEXT,PCR", "START,PCR", "VAL,PCR",
    "WVAL,PCR", "NOSUCH,PCR", "VAL,X", "WVAL,Y", "NEXT,X", "START,U", "NOSUCH,X", "VAL+1,X", "NEXT+1,Y",
    "5,X+", "5,-X", "1,X++", "2,--Y", ",", ",,", "1,2,X", ",XY", ",SU", ",PCR", ",PC", ",Z", "5,", "A,", "A",
    ",X,", "5,XS", "$,X", "-,X", "+,X",
    # extended indirect
    "[$12]", "[$1234]", "[$FFFF]", "[0]", "[255]", "[256]", "[65535]", "[65536]", "[70000]", "[-1]", "[VAL]",
    "[WVAL]", "[NEXT]", "[START]", "[NOSUCH]", "[VAL+1]", "[NEXT+1]",
    "[,X]", "[,Y]", "[,U]", "[,S]", "[,X+]", "[,X++]", "[,-X]", "[,--X]", "[,Y+]", "[,-U]", "[,S++]", "[,--S]",
    "[0,X]", "[1,X]", "[15,Y]", "[16,Y]", "[-16,U]", "[-17,U]", "[127,S]", "[128,S]", "[-128,X]", "[-129,X]",
    "[$10,X]", "[$1234,Y]", "[65535,X]", "[70000,X]", "[-32768,X]",
    "[A,X]", "[B,Y]", "[D,U]", "[E,X]", "[5,Z]", "[1,PC]", "[5,PCR]", "[$1234,PCR]", "[NEXT,PCR]",
    "[START,PCR]", "[VAL,PCR]", "[VAL,X]", "[NEXT,Y]", "[NOSUCH,X]", "[5,X+]", "[5,-X]", "[1,X++]",
    "[", "]", "[]", "[,]", "[,X", ",X]", "[[,X]]", "[#1]", "[<$12]", "[>$12]", "[A]", "[,XY]", "[,PCR]",
    # register lists
    "A", "B", "D", "X", "Y", "U", "S", "PC", "CC", "DP", "Z", "A,B", "A,B,X,Y,U,PC,CC,DP,D", "S,U", "U,S", "A,A",
    "A,X", "X,A", "X,Y", "D,X", "X,D", "A,B", "B,A", "A,CC", "CC,DP", "DP,A", "PC,X", "S,U", "U,PC", "A,D", "D,A",
    "A,Z", "Z,A", "A,B,X", "a,b", "X,", ",X",
]

ALPHABET = "0123456789ABCDEFXYUSPCRZ$%#<>[],+-*/'\"@"


def program_cases():
    cases = []
    for mnemonic in MNEMONICS:
        for operand in OPERANDS:
            cases.append((mnemonic, operand))
    rng = random.Random(0xC12)
    seeds = [o for o in OPERANDS if o]
    for _ in range(1500):
        mnemonic = rng.choice(MNEMONICS[:34] + MNEMONICS[44:50])
        kind = rng.random()
        if kind < 0.5:
            text = list(rng.choice(seeds))
            for _ in range(rng.randint(1, 2)):
                action = rng.randint(0, 2)
                pos = rng.randint(0, len(text))
                if action == 0:
                    text.insert(pos, rng.choice(ALPHABET))
                elif action == 1 and text:
                    del text[min(pos, len(text) - 1)]
                elif text:
                    text[min(pos, len(text) - 1)] = rng.choice(ALPHABET)
            operand = "".join(text)
        else:
            operand = "".join(rng.choice(ALPHABET) for _ in range(rng.randint(1, 7)))
        cases.append((mnemonic, operand))
    return cases


def source_for(mnemonic, operand):
    if mnemonic == "ORG":
        return ["        ORG %s" % operand, "START   NOP", "NEXT    NOP", "VAL     EQU $20", "WVAL    EQU $1234"]
    label = "CONST" if mnemonic == "EQU" else "START"
    return [
        "        NAM TWIN",
        "        ORG $0E00",
        "%-7s %s %s ; c" % (label, mnemonic, operand),
        "NEXT    NOP",
        "VAL     EQU $20",
        "WVAL    EQU $1234",
        "START   NOP" if mnemonic == "EQU" else "; nothing",
        "        END START",
    ]


MULTI_PROGRAMS = [
    [
        "        NAM MULTI", "        ORG $3F00", "BEGIN   LDX #TABLE", "LOOP    LDA ,X+", "        BEQ DONE",
        "        STA [OUT]", "        LDB TABLE,PCR", "        LEAY DONE,PCR", "        LBRA LOOP", "DONE    RTS",
        "OUT     FDB $0400", "TABLE   FCB 1,2,3,0", "MSG     FCC /HELLO/", "BUF     RMB 4", "        END BEGIN",
    ],
    [
        "        ORG $0100", "A1      LDA <$20", "A2      LDA >$20", "A3      LDA $20", "A4      LDA $2000",
        "A5      LDD #A1", "A6      JSR A9", "A7      JMP [A9]", "A8      LEAX A1,PCR", "A9      LEAX [A1,PCR]",
        "        PSHS A,B,X", "        PULS A,B,X,PC", "        TFR X,Y", "        EXG A,B",
    ],
    ["X1      LDA 200,X", "        RMB 300", "X2      BRA X1"],
    ["        LDA FWD,PCR", "        RMB 200", "FWD     NOP"],
    ["        LDA FWD,PCR", "        RMB 100", "FWD     NOP"],
    ["        LDA [FWD,PCR]", "        RMB 126", "FWD     NOP"],
    ["DUP     NOP", "DUP     NOP"],
    ["        BOGUS 1"],
    ["        LDA"],
    ["        NOP 1"],
    ["L       BRA L"],
    ["        BRA FAR", "        RMB 200", "FAR     NOP"],
    ["        LBRA FAR", "        RMB 200", "FAR     NOP"],
    ["        STA #1"],
    ["        LEAX $10"],
    ["        FCB $1FF"],
    ["        FDB $12345"],
    ["        FCB 1,256,3"],
    ["        FDB 1,70000"],
    ["        RMB 0", "Z       NOP"],
    ["        RMB 1", "Z       FCB 0"],
]

NUMERIC_INPUTS = [
    0, 1, 15, 16, 17, 127, 128, 129, 255, 256, 4095, 4096, 32767, 32768, 65535, 65536, 70000,
    -1, -15, -16, -17, -127, -128, -129, -255, -256, -32767, -32768, -32769, -65535, -65536, True, False,
    "0", "1", "9", "15", "16", "127", "128", "255", "256", "65535", "65536", "70000", "007", "00000",
    "-0", "-1", "-16", "-17", "-128", "-129", "-32768", "-32769", "-65535", "--1", "+1", "1-",
    "$0", "$F", "$0F", "$7F", "$80", "$FF", "$100", "$0100", "$FFF", "$1234", "$FFFF", "$00000", "$12345", "$",
    "$G", "$ff", "$aBcD", "0x10",
    "%0", "%1", "%101", "%00000000", "%11111111", "%10101010", "%0000000000000001", "%1111111111111111",
    "%111111111", "%11111111111111111", "%", "%2", "%0101010",
    "'A", "'z", "'0", "' ", "''", "'", "'AB", "'$", "',", "'-", "'[", "'\\",
    "", "A", "VAL", "1,2", "1 ", " 1", "1.0", "1e3", None, 1.5, [], b"1",
]

CLI_SOURCES = {
    "good.asm": MULTI_PROGRAMS[0],
    "modes.asm": MULTI_PROGRAMS[1],
    "big_imm.asm": ["        ORG $1000", "S       LDA #256", "        END S"],
    "bad_reg.asm": ["        ORG $1000", "S       LDA 5,Z", "        END S"],
    "bad_mode.asm": ["        ORG $1000", "S       STA #1", "        END S"],
    "bad_tfr.asm": ["        ORG $1000", "S       TFR A,X", "        END S"],
    "bad_psh.asm": ["        ORG $1000", "S       PSHS S", "        END S"],
    "big_dir.asm": ["        ORG $1000", "S       LDA <$1234", "        END S"],
    "big_ind.asm": ["        ORG $1000", "S       LDA [$12]", "        LDA 70000", "        END S"],
    "lea.asm": ["        ORG $1000", "S       LEAX $10", "        END S"],
}

# --------------------------------------------------------------------------
# worker: runs inside one tree
# --------------------------------------------------------------------------


def describe_exception(error):
    info = {"exc": type(error).__name__, "msg": str(error)}
    if hasattr(error, "value"):
        info["value"] = repr(getattr(error, "value"))
    if hasattr(error, "statement"):
        try:
            info["statement"] = str(error.statement)
        except Exception as nested:
            info["statement"] = "!" + type(nested).__name__ + ":" + str(nested)
    return info


def safe(thunk):
    try:
        return thunk()
    except Exception as error:
        return describe_exception(error)


def run_program(lines):
    from cocoasm.program import Program
    program = Program()
    out = {}
    lines = [line + " " for line in lines]  # a mnemonic must be followed by white space to parse
    try:
        program.process(lines)
    except Exception as error:
        out["error"] = describe_exception(error)
        return out
    out["binary"] = safe(lambda: list(program.get_binary_array()))
    out["listing"] = safe(lambda: list(program.get_statements()))
    out["symbols"] = safe(lambda: list(program.get_symbol_table()))
    out["origin"] = safe(lambda: [type(program.origin).__name__, program.origin.hex(), program.origin.int])
    out["name"] = program.name
    out["packages"] = safe(lambda: [
        [
            s.code_pkg.size, s.code_pkg.max_size, s.code_pkg.op_code.hex(), s.code_pkg.post_byte.hex(),
            s.code_pkg.additional.hex(), s.code_pkg.address.hex(), list(s.code_pkg.post_byte_choices),
            s.code_pkg.additional_needs_resolution, type(s.operand).__name__, s.fixed_size,
        ] for s in program.statements
    ])
    return out


def run_numeric(value, size_hint, mode_name):
    from cocoasm.values import NumericValue, ExplicitAddressingMode
    kwargs = {}
    if size_hint is not None:
        kwargs["size_hint"] = size_hint
    if mode_name is not None:
        kwargs["mode"] = ExplicitAddressingMode[mode_name]
    try:
        number = NumericValue(value, **kwargs)
    except Exception as error:
        return describe_exception(error)
    return {
        "int": number.int, "negative": number.negative, "size_hint": number.size_hint,
        "mode": number.explict_addressing_mode.name, "type": number.type.name,
        "ascii": repr(number.ascii()), "str": safe(lambda: str(number)),
        "hex": safe(lambda: number.hex()), "hex2": safe(lambda: number.hex(2)), "hex4": safe(lambda: number.hex(4)),
        "hex_size": safe(lambda: number.hex(size=6)), "hex_len": safe(lambda: number.hex_len()),
        "byte_len": safe(lambda: number.byte_len()), "high": safe(lambda: number.high_byte()),
        "low": safe(lambda: number.low_byte()), "neg": safe(lambda: number.get_negative()),
        "neg2": safe(lambda: number.get_negative(2)), "neg4": safe(lambda: number.get_negative(4)),
        "b4": number.is_4_bit(), "b8": number.is_8_bit(), "b16": number.is_16_bit(),
        "attrs": sorted(vars(number).keys()),
    }


def run_operand_units():
    """Drive the operand classes directly, without going through Statement."""
    from cocoasm import operands as ops
    from cocoasm.instruction import INSTRUCTIONS
    from cocoasm.values import NumericValue, AddressValue
    by_name = {i.mnemonic: i for i in INSTRUCTIONS}
    results = {}

    def package(pkg):
        return [
            pkg.op_code.hex(), pkg.post_byte.hex(), pkg.additional.hex(), pkg.size, pkg.max_size,
            list(pkg.post_byte_choices), pkg.additional_needs_resolution, pkg.address.hex(),
            type(pkg.op_code).__name__, type(pkg.post_byte).__name__, type(pkg.additional).__name__,
        ]

    classes = ["InherentOperand", "ImmediateOperand", "DirectOperand", "ExtendedOperand", "RelativeOperand",
               "UnknownOperand"]
    for mnemonic in ["LDA", "STA", "NEG", "NOP", "LEAX", "JMP", "BRA", "LBRA", "LDD", "ANDCC", "TFR", "FCB", "ABX"]:
        instruction = by_name[mnemonic]
        for class_name in classes:
            for text in ["", "$20", "#$20", "<$20", ">$2000", "$2000", "#$1234", "VAL", "300", "#300"]:
                for value in [None, NumericValue(5), NumericValue(0x1234), AddressValue(3)]:
                    key = "%s/%s/%r/%s" % (mnemonic, class_name, text, None if value is None else value.hex())

                    def thunk():
                        operand = getattr(ops, class_name)(text, instruction, value=value)
                        return package(operand.translate())
                    results[key] = safe(thunk)
        for class_name in ["IndexedOperand", "ExtendedIndexedOperand", "SpecialOperand", "PseudoOperand"]:
            for text in ["", ",X", "5,Y", "[,U]", "[5,S]", "[$1234]", "A,X", "[B,Y]", "X,Y", "A,B", "5,PCR", "[5,PCR]",
                         "300,X", "[300,X]", "-5,X", "[-5,X]", "-200,Y", "[-200,Y]", ",XYUS", "[,XYUS]", "SYM,X",
                         "[SYM]", "[SYM,X]"]:
                key = "%s/%s/%r" % (mnemonic, class_name, text)

                def thunk():
                    operand = getattr(ops, class_name)(text, instruction)
                    first = package(operand.translate())
                    resolved = operand.resolve_symbols({"SYM": NumericValue(0x44)})
                    return [first, package(resolved.translate()), package(resolved.translate())]
                results[key] = safe(thunk)
    return results


def run_binary_units():
    """Drive Program.get_binary_array() with hand made code packages, including inconsistent ones."""
    from cocoasm.program import Program
    from cocoasm.instruction import CodePackage
    from cocoasm.values import NumericValue, NoneValue, StringValue, MultiByteValue, MultiWordValue

    class Stub(object):
        def __init__(self, digits, length, explode=False):
            self.digits, self.length, self.explode = digits, length, explode

        def hex(self, size=0):
            if self.explode:
                raise RuntimeError("hex() must not be called")
            return self.digits

        def hex_len(self):
            return self.length

    class Line(object):
        def __init__(self, package, is_empty=False, is_comment_only=False):
            self.code_pkg, self.is_empty, self.is_comment_only = package, is_empty, is_comment_only

    fields = {
        "none": lambda: NoneValue(),
        "n12": lambda: NumericValue(0x12),
        "n1234": lambda: NumericValue(0x1234),
        "wide": lambda: NumericValue(0x1234, size_hint=2),
        "wider": lambda: NumericValue(0xABCD, size_hint=3),
        "padded": lambda: NumericValue(0x12, size_hint=4),
        "six": lambda: NumericValue(0x12, size_hint=6),
        "zero": lambda: NumericValue(0, size_hint=0),
        "neg": lambda: NumericValue(-5),
        "neg4": lambda: NumericValue(-5, size_hint=4),
        "str": lambda: StringValue("/HI/"),
        "oddstr": lambda: StringValue("/A\x07/"),
        "mb": lambda: MultiByteValue("1,2,255"),
        "mw": lambda: MultiWordValue("1,$1234"),
        "stub_ok": lambda: Stub("A1B2", 4),
        "stub_trunc": lambda: Stub("A1B2C3", 2),
        "stub_short": lambda: Stub("A1", 4),
        "stub_odd": lambda: Stub("A1B", 3),
        "stub_one": lambda: Stub("A", 1),
        "stub_bad": lambda: Stub("ZZ", 2),
        "stub_neg": lambda: Stub("A1", -2),
        "stub_empty": lambda: Stub("", 0, explode=True),
        "stub_lower": lambda: Stub("a1ff", 4),
    }
    results = {}
    names = sorted(fields)
    for index, name in enumerate(names):
        for slot in ("op_code", "post_byte", "additional"):
            def thunk():
                program = Program()
                other = names[(index + 3) % len(names)]
                program.statements = [
                    Line(CodePackage(op_code=NumericValue(0xEE)), is_empty=True),
                    Line(CodePackage(op_code=NumericValue(0xDD)), is_comment_only=True),
                    Line(CodePackage(**{slot: fields[name]()})),
                    Line(CodePackage(op_code=NumericValue(0x10AE), post_byte=NumericValue(0x9F), additional=fields[other]())),
                ]
                return program.get_binary_array()
            results["%s/%s" % (name, slot)] = safe(thunk)
    results["empty"] = safe(lambda: Program().get_binary_array())
    return results


def run_cli(tree):
    results = {}
    with tempfile.TemporaryDirectory() as work:
        for name, lines in sorted(CLI_SOURCES.items()):
            path = os.path.join(work, name)
            with open(path, "w") as handle:
                handle.write(" \n".join(lines) + " \n")
            for extra in (["--print", "--symbols"], ["--print", "--symbols", "--to_bin", name + ".bin"],
                          ["--to_cas", name + ".cas", "--name", "TWIN"], ["--to_dsk", name + ".dsk", "--name", "TWIN"]):
                before = set(os.listdir(work))
                env = dict(os.environ, PYTHONPATH=tree, PYTHONDONTWRITEBYTECODE="1")
                proc = subprocess.run(
                    [PYTHON, os.path.join(tree, "assembler.py"), name] + extra,
                    cwd=work, env=env, capture_output=True, text=True,
                )
                created = {}
                for produced in sorted(set(os.listdir(work)) - before):
                    with open(os.path.join(work, produced), "rb") as handle:
                        data = handle.read()
                    created[produced] = [len(data), hashlib.sha256(data).hexdigest()]
                    os.remove(os.path.join(work, produced))
                results[name + " " + " ".join(extra)] = {
                    "rc": proc.returncode, "stdout": proc.stdout,
                    "stderr": proc.stderr.strip().splitlines()[-1:], "files": created,
                }
    return results


def worker(tree):
    tree = os.path.realpath(tree)
    os.chdir(tree)
    sys.path.insert(0, tree)
    sys.dont_write_bytecode = True
    import cocoasm.operands
    import cocoasm.values
    import cocoasm.program
    for module in (cocoasm.operands, cocoasm.values, cocoasm.program):
        assert os.path.realpath(module.__file__).startswith(tree + os.sep), module.__file__

    results = {}
    for mnemonic, operand in program_cases():
        results["asm|%s|%s" % (mnemonic, operand)] = run_program(source_for(mnemonic, operand))
    for index, lines in enumerate(MULTI_PROGRAMS):
        results["multi|%d" % index] = run_program(lines)
    for value in NUMERIC_INPUTS:
        for size_hint in (None, 0, 2, 3, 4):
            for mode_name in (None, "NONE", "DIRECT", "EXTENDED", "IMMEDIATE", "EXPLICIT_DIRECT", "EXPLICIT_EXTENDED"):
                results["num|%r|%r|%s" % (value, size_hint, mode_name)] = run_numeric(value, size_hint, mode_name)
    for key, value in run_operand_units().items():
        results["unit|" + key] = value
    for key, value in run_binary_units().items():
        results["bin|" + key] = value
    for key, value in run_cli(tree).items():
        results["cli|" + key] = value
    json.dump(results, sys.stdout, sort_keys=True)


# --------------------------------------------------------------------------
# driver
# --------------------------------------------------------------------------


def collect(tree):
    env = dict(os.environ, PYTHONDONTWRITEBYTECODE="1")
    env.pop("PYTHONPATH", None)
    proc = subprocess.run(
        [PYTHON, os.path.abspath(__file__), "--worker", tree], cwd=tree, env=env, capture_output=True, text=True,
    )
    if proc.returncode != 0:
        print("worker failed in %s:\n%s" % (tree, proc.stderr))
        sys.exit(1)
    return json.loads(proc.stdout)


def main():
    if len(sys.argv) == 3 and sys.argv[1] == "--worker":
        worker(sys.argv[2])
        return 0
    if len(sys.argv) != 3:
        print(__doc__)
        return 2
    tree_a, tree_b = (os.path.realpath(p) for p in sys.argv[1:3])
    result_a, result_b = collect(tree_a), collect(tree_b)
    differences = 0
    for key in sorted(set(result_a) | set(result_b)):
        if result_a.get(key) != result_b.get(key):
            differences += 1
            if differences <= 20:
                print("DIFF %s\n  A: %s\n  B: %s" % (key, json.dumps(result_a.get(key))[:600],
                                                     json.dumps(result_b.get(key))[:600]))
    accepted = sum(1 for k, v in result_a.items() if k.startswith("asm|") and "error" not in v)
    rejected = sum(1 for k, v in result_a.items() if k.startswith("asm|") and "error" in v)
    print("%d cases compared (%d single-statement programs: %d accepted, %d rejected); %d differences"
          % (len(result_a), accepted + rejected, accepted, rejected, differences))
    return 1 if differences else 0


if __name__ == "__main__":
    sys.exit(main())
