#!/usr/bin/env python
"""
Differential check for property C17 (assembler output depends only on the source text).

usage: equiv.py <treeA> <treeB>

Refactoring l reshapes the error handling of the passes of Program.translate_statements; the 'sabotage' cases make one statement fail inside each pass with many kinds of exception and the extra programs fail inside the sizing, addressing and fix-up passes for real.

The driver below is run once per tree in its own interpreter (tree first on
sys.path, an empty scratch directory as cwd).  It assembles every mnemonic of
the instruction table against some 230 operand spellings, a set of accepted
and rejected whole programs (all addressing modes, branches and PCR operands
around the 8 bit limits, origins on both sides of $100, EQU chains, INCLUDE
files, diagnostics), the same programs again in one interpreter in several
orders, and calls the value / operand / statement constructors directly over
grids of inputs.  Finally it runs the tree's assembler.py (listing, symbols,
image files, different hash seeds).  For every case it records emitted bytes,
listing lines, symbol table lines and objects, origin, name, whether the list
of source lines was left alone, or the exception type, message and statement;
the two records must agree exactly.
"""
import json
import os
import subprocess
import sys
import tempfile

DRIVER = r'''
import io, json, os, subprocess, sys, contextlib, hashlib, itertools
tree = os.path.abspath(sys.argv[1])
sys.path.insert(0, tree)
import cocoasm
assert os.path.abspath(cocoasm.__file__).startswith(tree + os.sep), cocoasm.__file__
from cocoasm.exceptions import TranslationError, ParseError, ValueTypeError, OperandTypeError
from cocoasm.instruction import INSTRUCTIONS, CodePackage, Instruction, Mode
from cocoasm.program import Program
from cocoasm.statement import Statement
from cocoasm.operands import Operand
from cocoasm import operands as operands_module
from cocoasm import values as values_module
from cocoasm.values import (Value, NumericValue, NoneValue, SymbolValue, AddressValue, ExpressionValue,
                            LeftRightValue, StringValue, MultiByteValue, MultiWordValue,
                            DirectNumericValue, ExtendedNumericValue, ExplicitAddressingMode, ValueType)
from cocoasm.virtualfiles.source_file import SourceFile, SourceFileType

RESULTS = {}


def describe_value(v, depth=0):
    if v is None or isinstance(v, (int, str, bool)):
        return v
    if isinstance(v, (list, tuple)):
        return [describe_value(x, depth) for x in v]
    if not isinstance(v, Value):
        return "<%s>" % type(v).__name__
    out = {"cls": type(v).__name__, "type": v.type.name, "int": v.int, "neg": v.negative, "hint": v.size_hint,
           "mode": v.explict_addressing_mode.name, "orig": v.original_string if isinstance(v.original_string, (str, int, type(None))) else "?",
           "resolved": v.resolved}
    for name, call in (("hex", lambda: v.hex()), ("hex2", lambda: v.hex(size=2)), ("hex4", lambda: v.hex(size=4)),
                       ("hex_len", lambda: v.hex_len()), ("byte_len", lambda: v.byte_len()),
                       ("hi", lambda: v.high_byte()), ("lo", lambda: v.low_byte()),
                       ("b8", lambda: v.is_8_bit()), ("b16", lambda: v.is_16_bit()), ("str", lambda: str(v))):
        try:
            out[name] = call()
        except Exception as e:
            out[name] = "!%s: %s" % (type(e).__name__, e)
    if isinstance(v, NumericValue):
        out["b4"] = v.is_4_bit()
        out["getneg"] = [v.get_negative(), v.get_negative(2), v.get_negative(4)]
    if depth < 2:
        for attr in ("left", "right", "value"):
            if hasattr(v, attr):
                out[attr] = describe_value(getattr(v, attr), depth + 1)
        if hasattr(v, "operation"):
            out["operation"] = v.operation
        if hasattr(v, "hex_array"):
            out["hex_array"] = list(v.hex_array)
    return out


def describe_package(pkg):
    if not isinstance(pkg, CodePackage):
        return "<%s>" % type(pkg).__name__
    return {"op": describe_value(pkg.op_code, 2), "address": describe_value(pkg.address, 2), "post": describe_value(pkg.post_byte, 2),
            "additional": describe_value(pkg.additional, 1), "size": pkg.size, "max": pkg.max_size,
            "needs": pkg.additional_needs_resolution, "choices": list(pkg.post_byte_choices)}


def describe_operand(op):
    if op is None:
        return None
    return {"cls": type(op).__name__, "type": op.type.name, "string": op.operand_string,
            "value": describe_value(op.value), "left": describe_value(op.left), "right": describe_value(op.right),
            "requires": op.requires_resolution, "operation": op.operation}


def describe_statement(st):
    if not isinstance(st, Statement):
        return st if isinstance(st, (str, type(None))) else "<%s>" % type(st).__name__
    out = {"label": st.label, "mnemonic": st.mnemonic, "comment": st.comment, "empty": st.is_empty,
           "comment_only": st.is_comment_only, "fixed": st.fixed_size, "hint": st.pcr_size_hint, "state": st.state,
           "instruction": st.instruction.mnemonic if st.instruction else None,
           "operand": describe_operand(st.operand), "original_operand": describe_operand(st.original_operand),
           "pkg": describe_package(st.code_pkg)}
    try:
        out["str"] = str(st)
    except Exception as e:
        out["str"] = "!%s: %s" % (type(e).__name__, e)
    return out


def guarded(fn):
    try:
        return {"ok": fn()}
    except (TranslationError, ParseError) as e:
        st = e.statement
        try:
            text = str(st)
        except Exception as e2:
            text = "!%s: %s" % (type(e2).__name__, e2)
        return {"diag": type(e).__name__, "value": e.value if isinstance(e.value, (str, int, type(None))) else repr(e.value),
                "statement": text, "str": str(e)}
    except SystemExit as e:
        return {"exit": repr(e.code)}
    except BaseException as e:
        return {"exc": type(e).__name__, "msg": str(e)}


def case(name, fn):
    assert name not in RESULTS, name
    RESULTS[name] = guarded(fn)


def assemble(lines, deep=False):
    given = list(lines)
    before = list(given)
    program = Program()
    try:
        program.process(given)
    finally:
        untouched = given == before
    out = {"bin": program.get_binary_array(), "listing": program.get_statements(), "symbols": program.get_symbol_table(),
           "origin": describe_value(program.origin, 2), "name": program.name, "untouched": untouched,
           "table": {k: describe_value(v, 2) for k, v in program.symbol_table.items()}, "order": list(program.symbol_table)}
    if deep:
        out["statements"] = [describe_statement(s) for s in program.statements]
    return out


def asm(name, text, deep=False):
    lines = [l + "\n" for l in text.split("\n")]
    case("asm " + name, lambda: assemble(lines, deep))
    return lines


# ------------------------------------------------------------------ one statement, every mnemonic x operand spelling
OPERANDS = [
    "", "#$10", "#$1234", "#10", "#300", "#-1", "#-200", "#%00001111", "#'A", "#DATA", "#DATA+1", "#SMALL", "#>$10", "#<$1234",
    "$10", "$1234", "$0010", "<$10", ">$10", "<$1234", ">$1234", "10", "255", "256", "300", "65535", "65536", "-5", "-200",
    "%00001111", "%0000111100001111", "%0101", "'A", "DATA", "DATA+1", "DATA-1", "1+DATA", "DATA*2", "DATA/2", "START", "UNDEF", "UNDEF+1",
    "SMALL", "SMALL+1", "BIG", "BIG-1", "<SMALL", ">SMALL", "<DATA", ">DATA", "2+3", "$10+$20", "7/0", "$FF+1",
    ",X", ",Y", ",U", ",S", ",X+", ",Y++", ",-U", ",--S", "0,X", "5,X", "-5,Y", "15,U", "16,U", "-16,S", "-17,S", "20,U", "-20,S",
    "127,X", "128,X", "-128,X", "-129,X", "200,X", "-200,X", "$10,X", "$1234,Y", "$0005,Y", "A,X", "B,Y", "D,U", "E,X", "DATA,X", "SMALL,Y", "BIG,U",
    "DATA+1,X", "UNDEF,X", "DATA,PCR", "DATA+2,PCR", "DATA-2,PCR", "START,PCR", "10,PCR", "$1234,PCR", "SMALL,PCR", "UNDEF,PCR", "5,X+", "5,-X", "A,X+",
    "[,X]", "[,Y++]", "[,X+]", "[,-X]", "[,--U]", "[0,S]", "[5,Y]", "[-5,Y]", "[200,X]", "[-200,X]", "[$1234]", "[$12]", "[DATA]", "[DATA+1]", "[SMALL]", "[UNDEF]",
    "[DATA,PCR]", "[DATA+1,PCR]", "[10,PCR]", "[$1234,PCR]", "[A,X]", "[B,Y]", "[D,U]", "[DATA,X]", "[5,X+]", "[]", "[,]", "[X]",
    "A,B", "X,Y", "A,X", "B,A", "D,X", "X,D", "CC,DP", "PC,S", "A,B,X", "CC,DP,PC", "CC,A,B,DP,X,Y,U,PC", "CC,A,B,DP,X,Y,S,PC", "S", "U", "D", "A", "Q", "A,Q", "a,b",
    "1,2,3", "$FF,$100", "1,", ",1", "$10,DATA", "\"AB\"", "/HELLO/", "/A", "XY,U", "5,XY", "5,PC", "DATA,PC", "1,2", "5,", "X", "PCR", "A", "#", "<", ">", "$", "$12345", "$G1", "'", "''", "'AB", "A B",
    "#$10,X", "<$10,X", ">$10,X", "<DATA,X", "DATA,X,Y", "[DATA,X,Y]", "[[,X]]", "-DATA", "DATA+-1", "DATA++1", "@L1", "L@1", "DATA_1", "1DATA",
]

TEMPLATE = """            ORG   $0E00
SMALL       EQU   $20
BIG         EQU   $2000
START       %s    %s
DATA        FCB   1
L@1         RTS
"""

count = 0
for instruction in INSTRUCTIONS:
    grouped = {}
    for operand in OPERANDS:
        lines = [l + "\n" for l in (TEMPLATE % (instruction.mnemonic, operand)).split("\n")]
        grouped[operand] = guarded(lambda: assemble(lines))
        count += 1
    RESULTS["single " + instruction.mnemonic] = grouped
RESULTS["single count"] = count

# ------------------------------------------------------------------ whole programs
PROGRAMS = {}
PROGRAMS["hello"] = """; hello world
            NAM   HELLO
            ORG   $0E00
SCREEN      EQU   $0400
START       LDX   #SCREEN       ; start of screen
            LDY   #TEXT
LOOP        LDA   ,Y+
            BEQ   DONE
            STA   ,X+
            BRA   LOOP
DONE        RTS
TEXT        FCC   "HELLO WORLD"
            FCB   0
            END   START
"""
PROGRAMS["modes"] = """            ORG   $3F00
ZP          EQU   $44
ABS         EQU   $1234
BEGIN       LDA   #$01
            LDA   <ZP
            LDA   ZP
            LDA   >ZP
            LDA   ABS
            LDA   >ABS
            LDD   #ABS
            LDD   #ZP
            LDX   #TABLE
            LDX   TABLE
            LDX   TABLE+2
            LDX   TABLE-1
            STX   [TABLE]
            JMP   [TABLE+2]
            JSR   SUB
            JSR   >SUB
            LEAX  TABLE,PCR
            LEAY  SUB,PCR
            LEAU  [TABLE,PCR]
            LDA   TABLE+1,PCR
            LDB   A,X
            LDB   B,Y
            ADDD  D,U
            LDA   5,X
            LDA   -5,X
            LDA   100,X
            LDA   -100,X
            LDA   1000,X
            LDA   -1000,X
            LDA   ZP,X
            LDA   ABS,X
            LDA   [ZP,X]
            LDA   [ABS,Y]
            LDA   [,X++]
            LDA   [,--Y]
            CLR   ,-S
            INC   ,U+
            PSHS  A,B,X,Y,U,PC
            PULS  CC,DP
            PSHU  D,S
            PULU  X,Y
            TFR   A,B
            TFR   X,Y
            EXG   D,X
            EXG   CC,DP
            ABX
            SWI2
            SWI3
            SYNC
SUB         NOP
            RTS
TABLE       FDB   BEGIN,SUB,$1234,10
            FDB   SUB
            FCB   1,2,3,$FF,%10101010,'A
            FCB   ZP
            FCC   /slashes; here/
            RMB   4
ENDP        FCB   $FF
            END   BEGIN
"""
PROGRAMS["branches"] = """            ORG   $1000
TOP         NOP
            BRA   TOP
            BRA   FWD
            LBRA  TOP
            LBRA  FWD
            BSR   FWD
            LBSR  TOP
            BEQ   NEXT
NEXT        BNE   NEXT
            LBEQ  FAR
            LBNE  TOP
            RMB   100
FWD         RTS
            RMB   300
FAR         RTS
            LBRA  FAR
            BRA   FAR
"""
PROGRAMS["pcr sizes"] = """            ORG   $2000
A1          LEAX  B1,PCR
            LEAX  C1,PCR
            LEAX  A1,PCR
            LDA   B1,PCR
            LDD   [C1,PCR]
            RMB   118
B1          FCB   1
            LEAY  A1,PCR
            LEAY  B1,PCR
            LEAY  C1+1,PCR
            LEAY  A1-1,PCR
            RMB   200
C1          FDB   A1
            LEAU  C1,PCR
            LEAU  A1,PCR
"""
PROGRAMS["no origin"] = """START       LDA   #1
            STA   $400
LOOP        BRA   LOOP
"""
PROGRAMS["two origins"] = """            ORG   $0100
ONE         LDA   ONE
            JMP   TWO
            ORG   $0050
TWO         LDA   TWO
            LDA   ONE
            JMP   TWO
            LDA   <TWO
"""
PROGRAMS["low origin"] = """            ORG   $0020
V1          FCB   1
V2          FDB   V1
CODE        LDA   V1
            LDB   V2
            LDX   #V1
            STA   V1,PCR
            JMP   CODE
"""
PROGRAMS["equ chain"] = """ONE         EQU   1
TWO         EQU   ONE+1
WORD        EQU   $1000
W2          EQU   WORD+TWO
NEGV        EQU   -2
            ORG   WORD
            LDA   #ONE
            LDA   #TWO
            LDX   #W2
            LDA   ONE
            LDA   W2
            LDA   TWO,X
            LDA   NEGV,X
            LDA   W2,X
            FCB   ONE
            FDB   W2
"""
PROGRAMS["case and space"] = """  ; indented comment
start\tlda\t#$10\t; tab separated
 \tldb   #$20;tight comment
Loop    Bra     Loop         comment without semicolon
        nop
lbl1 nop ;x
@at     rts
        jmp     @at
        fcc     'single quoted' trailing text
        fcc     "a;b" ; semicolon inside
        fcb     1 , 2
"""
# rejected programs
PROGRAMS["bad mnemonic"] = "START       FOO   #1\n            RTS\n"
PROGRAMS["bad mnemonic later"] = "START       NOP\n            BAR   1,2 ; what\n"
PROGRAMS["unparsable"] = "START LDA#1 !!\n"
PROGRAMS["no space label only"] = "START\n"
PROGRAMS["redefined"] = "L1          NOP\nL2          NOP\nL1          RTS\n"
PROGRAMS["redefined equ"] = "L1          EQU   1\nL1          EQU   2\n"
PROGRAMS["undefined"] = "            LDA   NOWHERE\n"
PROGRAMS["undefined branch"] = "            BRA   NOWHERE\n"
PROGRAMS["undefined in expr"] = "HERE        LDA   HERE+NOWHERE\n"
PROGRAMS["branch too far fwd"] = "            BRA   FAR\n            RMB   128\nFAR         RTS\n"
PROGRAMS["branch just fits fwd"] = "            BRA   FAR\n            RMB   127\nFAR         RTS\n"
PROGRAMS["branch too far back"] = "FAR         RMB   127\n            BRA   FAR\n"
PROGRAMS["branch just fits back"] = "FAR         RMB   126\n            BRA   FAR\n"
PROGRAMS["immediate store"] = "            STA   #1\n"
PROGRAMS["inherent missing"] = "            LDA\n"
PROGRAMS["fcc missing"] = "            FCC\n"
PROGRAMS["fcc unterminated"] = "            FCC   \"ABC\n"
PROGRAMS["bad register"] = "            PSHS  A,Q\n"
PROGRAMS["bad tfr"] = "            TFR   A,X\n"
PROGRAMS["two errors resolve then translate"] = "            STA   #1\n            LDA   NOWHERE\n"
PROGRAMS["two errors translate then range"] = "            BRA   FAR\n            RMB   300\nFAR         STA   #1\n"
PROGRAMS["big value"] = "            LDA   #70000\n"
PROGRAMS["symbol is string"] = "MSG         EQU   5\nX1          FCC   /AB/\n            LDA   X1\n            LDA   MSG\n"
PROGRAMS["label is register"] = "A           EQU   5\nX           NOP\n            LDA   A,X\n            LDA   X\n            JMP   A\n"
PROGRAMS["org label"] = "BASE        ORG   $4000\n            LDX   #BASE\nNEXT        LDX   #NEXT\n"
PROGRAMS["addr expr in ind"] = "T           FDB   0\n            LDA   [T+1]\n"
PROGRAMS["rmb symbol"] = "N           EQU   3\nBUF         RMB   N\nAFTER       FCB   1\n            LDA   AFTER\n"
PROGRAMS["end only"] = "            END\n"
PROGRAMS["comments only"] = "; nothing\n\n   ; at all\n"
PROGRAMS["empty"] = ""
PROGRAMS["include missing"] = "            INCLUDE no_such_file.asm\n            RTS\n"

for name, text in PROGRAMS.items():
    asm(name, text, deep=True)

# distances around the 8 bit limits for PCR and branches, forward and backward
for gap in (120, 121, 122, 123, 124, 125, 126, 127, 128, 129, 130, 131, 250, 256):
    asm("pcr fwd %d" % gap, "            ORG $1000\nS           LEAX  T,PCR\n            RMB   %d\nT           RTS\n" % gap)
    asm("pcr back %d" % gap, "            ORG $1000\nT           RMB   %d\nS           LEAX  T,PCR\n            RTS\n" % gap)
    asm("pcr ind fwd %d" % gap, "            ORG $1000\nS           LDA   [T,PCR]\n            RMB   %d\nT           RTS\n" % gap)
    asm("pcr expr back %d" % gap, "            ORG $1000\nT           RMB   %d\nS           LEAX  T+1,PCR\n            RTS\n" % gap)
    asm("two pcr %d" % gap, "            ORG $1000\nS           LEAX  T,PCR\n            LEAY  S,PCR\n            RMB   %d\nT           LEAU  S,PCR\n" % gap)
    asm("bra fwd %d" % gap, "            ORG $1000\nS           BRA   T\n            RMB   %d\nT           RTS\n" % gap)
    asm("bra back %d" % gap, "            ORG $1000\nT           RMB   %d\nS           BNE   T\n            RTS\n" % gap)
    asm("lbra %d" % gap, "            ORG $1000\nT           RMB   %d\nS           LBNE  T\n            LBRA  E\n            RMB   %d\nE           RTS\n" % (gap, gap))

# origins on both sides of $100 and at the ends of memory
for origin in ("$0000", "$0001", "$00F0", "$00FF", "$0100", "$0101", "$0E00", "$7FFF", "$8000", "$FF00", "$FFF0", "255", "256", "4096"):
    asm("origin " + origin, "            ORG   %s\nV           FCB   7\nGO          LDA   V\n            LDX   #V\n            LDB   V+1\n            STA   V,PCR\n            LDA   [V]\n            JMP   GO\n            BRA   GO\n            FDB   V,GO\n" % origin)

# ------------------------------------------------------------------ includes (files in the scratch directory)
def put(name, text):
    with open(name, "w") as f:
        f.write(text)

put("inc_a.asm", "INA         LDA   #1\n            BRA   MAIN2\n            INCLUDE inc_b.asm\nINA2        RTS\n")
put("inc_b.asm", "; innermost\nINB         LDB   INA\n            LEAX  MAIN,PCR\n")
put("inc_self.asm", "            NOP\n            INCLUDE inc_self.asm\n")
put("inc_c1.asm", "            INCLUDE inc_c2.asm\n")
put("inc_c2.asm", "            INCLUDE inc_c1.asm\n")
put("inc_bad.asm", "            FOO\n")
put("inc_dup.asm", "MAIN        NOP\n")
put("inc_org.asm", "            ORG   $5000\n            NAM   INNER\n")
os.mkdir("sub")
put(os.path.join("sub", "inc_d.asm"), "SUBD1       FCB   9\n            INCLUDE inc_b.asm\n")
asm("include nested", "            ORG   $2000\nMAIN        NOP\n            INCLUDE inc_a.asm\nMAIN2       JMP   INB\n            JMP   INA2\n", deep=True)
asm("include twice", "MAIN        NOP\nMAIN2       NOP\n            INCLUDE inc_b.asm\n            INCLUDE inc_b.asm\n")
asm("include twice ok", "MAIN        NOP\n            INCLUDE inc_org.asm\n            INCLUDE inc_org.asm\n            LDA   MAIN\n")
asm("include self", "            INCLUDE inc_self.asm\n")
asm("include cycle", "            INCLUDE inc_c1.asm\n")
asm("include bad", "            NOP\n            INCLUDE inc_bad.asm\n")
asm("include dup", "MAIN        NOP\n            INCLUDE inc_dup.asm\n")
asm("include subdir", "MAIN        NOP\nINA         NOP\n            INCLUDE sub/inc_d.asm\n            LDA   SUBD1\n")
asm("include dir", "            INCLUDE sub\n")
asm("include nothing", "            INCLUDE\n            RTS\n")
asm("include label", "HERE        INCLUDE inc_org.asm\n            JMP   HERE\n")
asm("include comment", "            INCLUDE inc_org.asm    ; with a comment\n            RTS\n")

# ------------------------------------------------------------------ history: everything again in one interpreter
def history(order):
    out = []
    for name in order:
        lines = [l + "\n" for l in PROGRAMS[name].split("\n")]
        out.append([name, guarded(lambda: assemble(lines))])
    return out

names = list(PROGRAMS)
case("history forward", lambda: history(names))
case("history backward", lambda: history(names[::-1]))
case("history same thrice", lambda: history(["modes", "bad tfr", "modes", "undefined", "modes", "pcr sizes", "pcr sizes"]))

def shared_defaults():
    a, b = CodePackage(), CodePackage()
    st1, st2 = Statement("    NOP\n"), Statement("    RTS\n")
    return [a.op_code is b.op_code, a.post_byte_choices is b.post_byte_choices, a.post_byte_choices,
            describe_package(a), st1.code_pkg is st2.code_pkg, describe_statement(st1), len(INSTRUCTIONS),
            [i.mnemonic for i in INSTRUCTIONS][:10], hashlib.sha1(repr(INSTRUCTIONS).encode()).hexdigest()]
case("shared defaults", shared_defaults)

# ------------------------------------------------------------------ values
LITERALS = [0, 1, 15, 16, 17, 127, 128, 129, 255, 256, 4095, 4096, 32767, 32768, 65535, 65536, -1, -15, -16, -17, -127, -128, -129,
            -255, -256, -32768, -32769, -65535, -65536, True, None, 1.5,
            "0", "1", "9", "15", "16", "127", "128", "255", "256", "0255", "00001", "65535", "65536", "99999", "-0", "-1", "-16", "-17", "-128", "-129",
            "-32768", "-32769", "--1", "+1", "$0", "$F", "$0F", "$10", "$FF", "$100", "$0FF", "$00FF", "$1234", "$FFFF", "$10000", "$00000", "$G", "$", "$ff", "$aB",
            "%0", "%1", "%00000000", "%11111111", "%0000000011111111", "%1111111111111111", "%111111111", "%00000002", "%", "'A", "'z", "'0", "' ", "';", "'\"", "''", "'",
            "'AB", "'_", "'@", "'-", "'[", "ABC", "", " 1", "1 ", "1\n", "$10\n", "٣", "1_0", "0x10", "1e3", "A", "@"]

def numeric(value, hint, mode):
    return describe_value(NumericValue(value, size_hint=hint, mode=mode))

grid = {}
for value in LITERALS:
    for hint in (None, 2, 4):
        for mode in ExplicitAddressingMode:
            grid["%r|%r|%s" % (value, hint, mode.name)] = guarded(lambda: numeric(value, hint, mode))
RESULTS["numeric grid"] = grid
RESULTS["numeric defaults"] = {repr(v): guarded(lambda: describe_value(NumericValue(v))) for v in LITERALS}
RESULTS["numeric direct"] = {repr(v): guarded(lambda: [describe_value(DirectNumericValue(v)), describe_value(ExtendedNumericValue(v)),
                                                        describe_value(DirectNumericValue(v, 4)), describe_value(ExtendedNumericValue(v, 2))]) for v in LITERALS}

TEXTS = ["", "1", "$10", "$1234", "#$10", "#1", "<$10", ">$10", "<$1234", ">$1234", "#<1", "<", "#", ">", "LABEL", "LABEL+1", "1+LABEL", "LABEL-LABEL", "A+B",
         "$10+$20", "1+2", "3-5", "2*3", "7/2", "7/0", "$FF+1", "$FFFF+1", ">1+1", "<LABEL+1", "#LABEL+1", "1,X", ",X", "A,B", "1,2,3", "LABEL,PCR", "\"AB\"", "/AB/", "/A",
         "%00001111", "'A", "-1", "-LABEL", "LABEL_1", "@L", "L@", "$L+1", "$$1+1", "1+", "+1", "1++1", "1+-1", "UNDEF", "NUM", "NUM+1", "ADDR+NUM", "NUM*ADDR", "ADDR/NUM", "ADDR-ADDR", "STR+1"]
INSTR = {i.mnemonic: i for i in INSTRUCTIONS}
TABLE = lambda: {"LABEL": AddressValue(3), "ADDR": AddressValue(1), "NUM": NumericValue(5), "BIGNUM": NumericValue("$1234"),
                 "A": NumericValue(1), "B": AddressValue(2), "STR": StringValue("/xy/"), "X": AddressValue(0)}

def value_round(text, instruction, extended):
    v = Value.create_from_str(text, instruction, default_mode_extended=extended)
    first = describe_value(v)
    try:
        resolved = describe_value(v.resolve(TABLE()))
    except Exception as e:
        resolved = "!%s: %s" % (type(e).__name__, e)
    return [first, resolved, describe_value(v)]

grid = {}
for text in TEXTS:
    for iname in (None, "LDA", "LDX", "FCC", "FCB"):
        for extended in (True, False):
            grid["%s|%s|%s" % (text, iname, extended)] = guarded(lambda: value_round(text, INSTR.get(iname), extended))
RESULTS["value grid"] = grid

class FakePackage(object):
    def __init__(self, address):
        self.address = NumericValue(address)
class FakeStatement(object):
    def __init__(self, address):
        self.code_pkg = FakePackage(address)

def offsets(text):
    v = ExpressionValue(text).resolve(TABLE())
    stmts = [FakeStatement(a) for a in (0x10, 0x200, 0x3000, 0xFFFE)]
    return [describe_value(v), v.extract_address_index_from_expression(), describe_value(v.calculate_address_offset(stmts))]
for text in ("LABEL+1", "1+LABEL", "LABEL-1", "LABEL-NUM", "ADDR*2", "2*ADDR", "ADDR/2", "ADDR/0", "LABEL+2", "LABEL*NUM", "X-1", "X+BIGNUM", "ADDR-LABEL", "LABEL+ADDR", "B+1", "LABEL+65535", "5/ADDR"):
    case("address offset " + text, lambda: offsets(text))

def symbols(text):
    s = SymbolValue(text)
    return [describe_value(s), describe_value(s.resolve(TABLE()))]
for text in ("LABEL", "NUM", "STR", "UNDEF", "A", "bad-name", "", "@", "X"):
    case("symbol " + text, lambda: symbols(text))
case("get_symbol", lambda: [describe_value(Value.get_symbol("NUM", TABLE()))])
case("get_symbol missing", lambda: Value.get_symbol("NOPE", {}))
for text in ("1,2", "1", "1,2,3", ",", ",,", "A,", ",X", ""):
    case("leftright " + text, lambda: describe_value(LeftRightValue(text)))
for text in ("1,2", "1", "1,,2", ",", "$FF,300", "1,X", "'A,'B", "-1,2", "70000,1", ""):
    case("multibyte " + text, lambda: describe_value(MultiByteValue(text)))
    case("multiword " + text, lambda: describe_value(MultiWordValue(text)))
for text in ("/AB/", "\"\"", "'", "AA", "/A;B /", "xABx", "/é/", "/\x01/", ""):
    case("string " + repr(text), lambda: describe_value(StringValue(text)))
case("create_from_byte", lambda: [describe_value(Value.create_from_byte(b"\x41")), describe_value(Value.create_from_byte(b"\x00"))])
case("create_from_byte none", lambda: Value.create_from_byte(b""))
case("none value", lambda: [describe_value(NoneValue()), describe_value(NoneValue("x"))])
case("address value", lambda: [describe_value(AddressValue(v)) for v in (0, 1, 15, 16, 255, 256, 4095, 4096, 65535, "12")])

# ------------------------------------------------------------------ operands
def operand_round(text, iname):
    op = Operand.create_from_str(text, INSTR[iname])
    created = describe_operand(op)
    resolved = op.resolve_symbols(TABLE())
    after = describe_operand(resolved)
    pkg = describe_package(resolved.translate())
    return [created, after, pkg, describe_operand(resolved)]

OPTEXTS = ["", "#1", "#$1234", "#LABEL", "#NUM", "$10", "$1234", "<$10", ">$10", "LABEL", "NUM", "BIGNUM", "STR", "UNDEF", "<LABEL", "<NUM", ">NUM", "LABEL+1", "NUM+1", "LABEL+NUM",
           ",X", ",Y+", ",U++", ",-S", ",--X", "5,X", "-5,X", "-16,X", "-17,X", "16,X", "100,Y", "-100,Y", "1000,U", "-1000,U", "$10,X", "$1234,X", "NUM,X", "BIGNUM,X", "LABEL,X", "LABEL+1,X",
           "A,X", "B,Y", "D,U", "LABEL,PCR", "NUM,PCR", "BIGNUM,PCR", "LABEL+1,PCR", "5,PCR", "$1234,PCR", "UNDEF,X", "STR,X", "5,X+", "X,Y", "XY,U", "0,X", "NUM-5,X", "NUM-6,X",
           "[,X]", "[,X+]", "[,X++]", "[,-X]", "[,--X]", "[5,X]", "[-5,X]", "[1000,X]", "[-1000,X]", "[NUM,X]", "[LABEL,X]", "[A,X]", "[B,Y]", "[D,S]", "[LABEL,PCR]", "[NUM,PCR]", "[BIGNUM,PCR]",
           "[LABEL+1,PCR]", "[$1234]", "[$12]", "[LABEL]", "[NUM]", "[LABEL+1]", "[NUM+1]", "[UNDEF]", "[STR]", "[0,X]", "[5,X+]", "[X]", "[]", "[1,2,3]",
           "A,B", "A,B,X", "X,Y,U", "CC,DP,PC", "S", "U", "A,Q", "", "D,X", "PC,X", "\"AB\"", "/AB/", "1,2,3", "NUM,NUM"]
for iname in ("LDA", "STA", "LDX", "LEAX", "JMP", "JSR", "CLR", "ABX", "RTS", "BRA", "LBRA", "PSHS", "PULU", "TFR", "EXG", "FCB", "FDB", "FCC", "RMB", "ORG", "EQU", "END", "NAM", "INCLUDE", "SETDP", "CMPD", "ANDCC"):
    RESULTS["operands " + iname] = {text: guarded(lambda: operand_round(text, iname)) for text in OPTEXTS}

# ------------------------------------------------------------------ statements
LINES = ["", "   ", "\t\n", "; c", "   ; c  ", "L NOP", "L  NOP ; c", " NOP", "NOP", "L", "L ", " LDA #1", " lda #1 c", "L LDA #1;c", " FCC /a b/ c", " FCC /a b/;c", " FCC 'x", " FCC", " FCC ;",
         " FOO 1", "L@1 LDA $10,X", "9L LDA 1", " LDA 1 2", " LDA !", "L: NOP", " INCLUDE a.asm", " INCLUDE", " NAM prog", " LDA #';", " FCB 1,2 ; c", " FCB 1, 2", "\tLDX\t#$10\t;t"]
for line in LINES:
    def one():
        st = Statement(line)
        return [describe_statement(st), st.get_include_filename() if st.instruction else None, st == Statement(line)]
    case("statement %r" % line, one)

# ------------------------------------------------------------------ extra: errors raised inside each translation pass
asm("div zero abs", "            LDA   DATA/0\nDATA        FCB   1\n")
asm("div zero pcr", "            LEAX  DATA/0,PCR\nDATA        FCB   1\n")
asm("div zero pcr back", "DATA        FCB   1\n            LEAX  DATA/0,PCR\n")
asm("div zero num pcr", "            LEAX  5/0,PCR\n")
asm("org symbol", "            ORG   START\nSTART       NOP\n            JMP   START\n")
asm("org string", "            ORG   /AB/\nSTART       NOP\n")
asm("org nothing", "            ORG\nSTART       NOP\n            JMP   START\n")
asm("org list", "            ORG   1,2\nSTART       NOP\n")
asm("branch to equ", "FIVE        EQU   5\n            BRA   FIVE\n")
asm("branch to number", "            BRA   $10\n            LBRA  300\n")
asm("pcr to equ", "FIVE        EQU   5\n            LEAX  FIVE,PCR\n            LEAX  [FIVE,PCR]\n")
asm("mul address", "            ORG   $10\nDATA        FCB   1\n            LDX   #DATA*2\n            LDX   DATA*5000\n")

def sabotage(which, error, position=1):
    lines = ["START       LEAX  DATA,PCR\n", "            BRA   START\n", "DATA        FCB   1\n", "            LDA   DATA\n"]
    program = Program()
    program.statements = program.parse(lines)
    victim = program.statements[position]
    def boom(*args, **kwargs):
        raise error
    setattr(victim, which, boom)
    program.translate_statements()
    return [program.get_binary_array(), program.get_statements(), program.get_symbol_table()]

for which in ("determine_pcr_relative_sizes", "set_address", "fix_addresses", "resolve_symbols", "translate", "get_include_filename"):
    for label, error in (("value", ValueError("plain failure")), ("key", KeyError("missing")), ("index", IndexError("list index out of range")),
                         ("translation", TranslationError("inner diagnostic", "inner statement")), ("parse", ParseError("inner parse", "line text")),
                         ("stop", StopIteration("stop")), ("runtime", RuntimeError("generator raised StopIteration")), ("empty", Exception()),
                         ("operand", OperandTypeError("bad operand")), ("exit", SystemExit(3)), ("keyboard", KeyboardInterrupt())):
        for position in (0, 1, 3):
            case("sabotage %s %s %d" % (which, label, position), lambda: sabotage(which, error, position))

# ------------------------------------------------------------------ command line
def cli(name, *argv, env_extra=None):
    env = dict(os.environ)
    env.update(env_extra or {})
    before = {n: open(n, "rb").read() for n in os.listdir(".") if os.path.isfile(n)}
    p = subprocess.run([sys.executable, os.path.join(tree, "assembler.py")] + list(argv), env=env,
                       stdout=subprocess.PIPE, stderr=subprocess.PIPE, universal_newlines=True)
    changed = {}
    for n in sorted(os.listdir(".")):
        if os.path.isfile(n):
            data = open(n, "rb").read()
            if before.get(n) != data:
                changed[n] = "len=%d sha1=%s" % (len(data), hashlib.sha1(data).hexdigest())
                os.remove(n)
    err = p.stderr.replace(tree, "<TREE>")
    if "Traceback" in err:
        err = "Traceback ... " + err.strip().split("\n")[-1]
    RESULTS["cli " + name] = {"rc": p.returncode, "out": p.stdout, "err": err, "changed": changed}

for name in ("hello", "modes", "branches", "pcr sizes", "two origins", "case and space", "bad mnemonic later", "undefined", "branch too far fwd", "redefined", "empty"):
    put("p.asm", PROGRAMS[name])
    cli(name + " print", "p.asm", "--print", "--symbols")
    cli(name + " seed1", "p.asm", "--print", "--symbols", env_extra={"PYTHONHASHSEED": "1"})
    cli(name + " out", "p.asm", "--to_bin", "o.bin", "--to_cas", "o.cas", "--to_dsk", "o.dsk", "--name", "prog")
put("main.asm", "            ORG   $2000\nMAIN        NOP\n            INCLUDE inc_a.asm\nMAIN2       JMP   INB\n            JMP   INA2\n")
cli("include print", "main.asm", "--print", "--symbols", "--to_bin", "o.bin")
put("main.asm", "            INCLUDE inc_c1.asm\n")
cli("include cycle", "main.asm", "--print")
put("main.asm", "            INCLUDE nothing.asm\n")
cli("include missing", "main.asm", "--print")
cli("missing source", "nothing.asm", "--print")
cli("no args")
put("p.asm", PROGRAMS["hello"])
cli("no name cas", "p.asm", "--to_cas", "o.cas")
put("p.asm", PROGRAMS["no origin"])
cli("no name given", "p.asm", "--to_cas", "o.cas", "--to_dsk", "o.dsk", "--to_bin", "o.bin")
cli("width", "p.asm", "--print", "--width", "40")

print(json.dumps(RESULTS, sort_keys=True))
'''


def run(tree):
    tree = os.path.abspath(tree)
    with tempfile.TemporaryDirectory() as scratch:
        driver = os.path.join(scratch, "_driver.py")
        with open(driver, "w") as handle:
            handle.write(DRIVER)
        work = os.path.join(scratch, "work")
        os.mkdir(work)
        env = dict(os.environ, PYTHONDONTWRITEBYTECODE="1", PYTHONHASHSEED="0")
        env.pop("PYTHONPATH", None)
        proc = subprocess.run([sys.executable, driver, tree], cwd=work, env=env,
                              stdout=subprocess.PIPE, stderr=subprocess.PIPE, universal_newlines=True)
        if proc.returncode != 0:
            print("driver failed for", tree)
            print(proc.stderr[-4000:])
            sys.exit(2)
        return json.loads(proc.stdout)


def flatten(prefix, node, out):
    """Grids are stored as nested dicts: count and compare their leaves one by one."""
    if isinstance(node, dict) and node and not ({"ok", "diag", "exc", "exit", "rc"} & set(node)) and len(node) > 8:
        for key, value in node.items():
            flatten(prefix + " :: " + key, value, out)
    else:
        out[prefix] = node


def main():
    if len(sys.argv) != 3:
        print(__doc__)
        sys.exit(2)
    first, second = {}, {}
    for name, value in run(sys.argv[1]).items():
        flatten(name, value, first)
    for name, value in run(sys.argv[2]).items():
        flatten(name, value, second)
    names = sorted(set(first) | set(second))
    bad = [name for name in names if first.get(name) != second.get(name)]
    for name in bad[:20]:
        print("DIFFERENT:", name)
        print("   A:", json.dumps(first.get(name))[:700])
        print("   B:", json.dumps(second.get(name))[:700])
    print("{} cases compared, {} differ".format(len(names), len(bad)))
    sys.exit(1 if bad else 0)


if __name__ == "__main__":
    main()
