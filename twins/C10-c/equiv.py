#!/venv/bin/python
"""
Differential check for a refactoring of the CoCoAssembler host file handling code
(VirtualFile, SourceFile, assembler.py and file_util.py), centred on what happens to
a target file that already exists.

usage: equiv.py <treeA> <treeB>

Runs the same driver (below) once per tree in a subprocess, with the tree as
cwd and at the front of sys.path, and compares every recorded observation:
histories of add / save / re-open / append on real temporary files, what both
command-line tools print, their exit codes, and the bytes of every file they
write. Exits 0 when all observations agree, 1 otherwise.
"""
import json
import os
import subprocess
import sys
import tempfile

DRIVER = r'''
import io, json, os, sys, contextlib, itertools, random, hashlib
tree, workdir = sys.argv[1], sys.argv[2]
sys.path.insert(0, tree)
os.chdir(tree)

from cocoasm.virtualfiles.cassette import CassetteFile
from cocoasm.virtualfiles.disk import DiskFile
from cocoasm.virtualfiles.coco_file import CoCoFile
from cocoasm.virtualfiles.virtual_file import VirtualFile, VirtualFileType
from cocoasm.virtualfiles.source_file import SourceFile, SourceFileType
from cocoasm.values import NumericValue, NoneValue
import assembler
import file_util

RESULTS = []
rng = random.Random(6809)


def clean(text):
    return str(text).replace(workdir, "<W>")


def digest(buffer):
    try:
        return [len(buffer), hashlib.sha256(bytes(buffer)).hexdigest()]
    except Exception:
        return [len(buffer), hashlib.sha256(repr(list(buffer)).encode()).hexdigest()]


def file_digest(name):
    return digest(open(name, "rb").read()) if os.path.exists(name) else None


def describe(coco_file):
    def hx(value):
        try:
            return value.hex()
        except Exception as error:
            return "!" + type(error).__name__
    return {
        "name": coco_file.name, "ext": coco_file.extension, "type": hx(coco_file.type),
        "data_type": hx(coco_file.data_type), "gaps": hx(coco_file.gaps),
        "load": hx(coco_file.load_addr), "exec": hx(coco_file.exec_addr),
        "data": digest(coco_file.data), "head": list(coco_file.data[:8]), "ignore_gaps": coco_file.ignore_gaps,
        "str": str(coco_file),
    }


def record(label, function):
    try:
        outcome = ["ok", function()]
    except BaseException as error:
        outcome = ["exc", type(error).__name__, clean(error)]
    RESULTS.append([label, outcome])


def path(name):
    return os.path.join(workdir, name)


def payload(length):
    return [rng.randrange(256) for _ in range(length)]


def make_file(name, data, ext="BIN", file_type=2, data_type=0, load=0x0E00, entry=0x0E10):
    return CoCoFile(name=name, extension=ext, type=NumericValue(file_type), data_type=NumericValue(data_type),
                    gaps=NumericValue(0), load_addr=NumericValue(load), exec_addr=NumericValue(entry), data=data)


# ---------------------------------------------------------------- histories through VirtualFile
def history(file_name, steps):
    """
    steps: list of ("open", type) / ("add", coco_file) / ("save", append) / ("list", filenames)
    Every step records what happened; the host file is digested after every save.
    """
    log = []
    virtual_file = None
    for step in steps:
        try:
            if step[0] == "open":
                virtual_file = VirtualFile(SourceFile(path(file_name), file_type=SourceFileType.BINARY), step[1])
                virtual_file.open_virtual_file()
                log.append(["open", str(virtual_file.virtual_file_type), virtual_file.file_exists,
                            [describe(x) for x in virtual_file.coco_file_list]])
            elif step[0] == "add":
                log.append(["add", virtual_file.add_coco_file(step[1]), len(virtual_file.coco_file_list)])
            elif step[0] == "save":
                result = virtual_file.save_virtual_file(append_mode=step[1]) if step[1] is not None \
                    else virtual_file.save_virtual_file()
                log.append(["save", result, file_digest(path(file_name))])
            elif step[0] == "list":
                listed = virtual_file.list_files(step[1]) if step[1] is not None else virtual_file.list_files()
                log.append(["list", [describe(x) for x in listed]])
        except Exception as error:
            log.append([step[0], "{}:{}".format(type(error).__name__, clean(error)), file_digest(path(file_name))])
    return log

CAS, DSK, BIN = VirtualFileType.CASSETTE, VirtualFileType.DISK, VirtualFileType.BINARY
LENGTHS = [0, 1, 254, 255, 256, 510, 511, 2293, 2294, 2295, 2299, 2304, 4603, 6000]
counter = itertools.count()
for kind, ext in ((CAS, "cas"), (DSK, "dsk"), (BIN, "bin")):
    for length in LENGTHS:
        name = "h%d.%s" % (next(counter), ext)
        first, second, third = (make_file("F%d" % n, payload(length + n), ext="BIN" if n % 2 else "bas",
                                          file_type=2 if n != 1 else 0) for n in range(3))
        record("history-%s-%d" % (ext, length), lambda: history(name, [
            ("open", kind), ("list", None), ("add", first), ("save", False), ("list", None),
            ("open", kind), ("add", second), ("save", False), ("save", True), ("list", ["F0"]),
            ("open", None), ("add", third), ("list", None), ("save", None), ("save", True),
            ("open", kind), ("list", None), ("list", ["F1      ", "F2"]), ("list", []),
        ]))
# a cassette image bigger than a disk image, and exactly as big
big_name = "big.cas"
record("history-big-cassette", lambda: history(big_name, [
    ("open", CAS), ("add", make_file("BIG1", payload(60000))), ("add", make_file("BIG2", payload(60000))),
    ("add", make_file("BIG3", payload(50000))), ("save", False), ("open", None), ("list", None),
    ("add", make_file("SMALL", payload(10))), ("save", True), ("open", CAS), ("list", None), ("open", DSK),
]))
def exact_size_cassette():
    cassette = CassetteFile()
    cassette.add_files([make_file("EXACT1", payload(65000)), make_file("EXACT2", payload(65000))])
    data = payload(161280 - len(cassette.get_buffer()) - 256 - 15 - 6 - 6 - 256)
    cassette.add_file(make_file("PAD", data))
    image = cassette.get_buffer()
    image.extend([0x55] * (161280 - len(image)))
    open(path("exact.cas"), "wb").write(bytearray(image))
    return len(image)
record("exact-size-cassette-built", exact_size_cassette)
record("history-exact-cassette", lambda: history("exact.cas", [
    ("open", None), ("list", None), ("add", make_file("MORE", [1, 2, 3])), ("save", True), ("open", None), ("list", None)]))
# type mismatches and non-images
open(path("junk.bin"), "wb").write(bytearray(payload(300)))
open(path("empty.cas"), "wb").write(b"")
open(path("ff.dsk"), "wb").write(b"\xff" * 161280)
open(path("zero.dsk"), "wb").write(b"\x00" * 161280)
for file_name in ("junk.bin", "empty.cas", "ff.dsk", "zero.dsk", "h0.cas", "h15.dsk", "h30.bin", "nothere.cas"):
    for kind in (None, CAS, DSK, BIN, VirtualFileType.UNKNOWN):
        copy_name = "copy-%s-%s" % (kind, file_name)
        if os.path.exists(path(file_name)):
            open(path(copy_name), "wb").write(open(path(file_name), "rb").read())
        record("mismatch-%s-%s" % (file_name, kind), lambda: history(copy_name, [
            ("open", kind), ("list", None), ("add", make_file("NEW", [7, 7, 7])), ("save", True), ("open", None), ("list", None)]))
# filling media
record("history-fill-disk", lambda: history("fill.dsk", [("open", DSK)] + [("add", make_file("G%d" % n, payload(2295 * 6))) for n in range(13)]
       + [("save", False), ("open", None), ("list", None)]))
record("history-many-small-disk", lambda: history("many.dsk", [("open", DSK)] + [("add", make_file("S%d" % n, [n])) for n in range(70)]
       + [("save", False), ("open", None), ("list", ["S69"]), ("add", make_file("S70", [70])), ("save", True)]))
record("history-bad-file", lambda: history("bad.cas", [("open", CAS), ("add", make_file("X", None)), ("save", False)]))
record("history-bad-file-dsk", lambda: history("bad.dsk", [("open", DSK), ("add", make_file("X", [1, "2"])), ("save", False)]))
for kind, ext in ((CAS, "cas"), (DSK, "dsk"), (BIN, "bin")):
    for append in (False, True, None):
        name = "precedence-%s-%s.%s" % (ext, append, ext)
        record("history-precedence-%s-%s" % (ext, append), lambda: history(name, [
            ("open", kind), ("add", make_file("GOOD", [1, 2, 3])), ("save", False),
            ("open", kind), ("add", make_file("BAD", None)), ("save", append),
            ("open", kind), ("add", make_file("BAD2", [1, "x"])), ("save", append),
            ("open", kind), ("add", make_file("TOOBIG", payload(70000))), ("save", append),
            ("open", kind), ("list", None)]))
def untyped_save(virtual_file_type, exists):
    name = path("untyped-%s-%s.img" % (virtual_file_type, exists))
    if exists:
        open(name, "wb").write(b"keep me")
    virtual_file = VirtualFile(SourceFile(name, file_type=SourceFileType.BINARY), virtual_file_type)
    virtual_file.file_exists = exists
    virtual_file.add_coco_file(make_file("X", [1]))
    outcome = []
    for append in (False, True):
        try:
            outcome.append(virtual_file.save_virtual_file(append_mode=append))
        except Exception as error:
            outcome.append("{}:{}".format(type(error).__name__, clean(error)))
        outcome.append(file_digest(name))
    return outcome
for virtual_file_type in (None, VirtualFileType.UNKNOWN, 1, "CASSETTE", CAS, DSK, BIN):
    for exists in (False, True):
        record("untyped-save-%s-%s" % (virtual_file_type, exists), lambda: untyped_save(virtual_file_type, exists))
record("save-without-source", lambda: VirtualFile(None, CAS).save_virtual_file())
record("save-without-source-untyped", lambda: VirtualFile().save_virtual_file())
record("history-none-source", lambda: VirtualFile().open_virtual_file())
record("history-delete", lambda: VirtualFile().delete_coco_file("X"))
def sniff(file_name):
    files, kind = VirtualFile(SourceFile(path(file_name), file_type=SourceFileType.BINARY)).get_coco_files()
    return [[describe(x) for x in files], str(kind)]
record("get_coco_files-unread", lambda: sniff("h0.cas"))

# ---------------------------------------------------------------- container level histories
def container_history(factory, rounds):
    log = []
    image = None
    for files in rounds:
        container = factory(buffer=image) if image is not None else factory()
        try:
            before = [describe(x) for x in container.list_files()] if image is not None else []
            container.add_files(files)
            image = list(container.get_buffer())
            after = [describe(x) for x in factory(buffer=list(image)).list_files()]
            log.append([before, digest(image), after])
        except Exception as error:
            log.append("{}:{}".format(type(error).__name__, error))
    return log
for factory in (CassetteFile, DiskFile):
    for seed in range(4):
        rounds = [[make_file("R%d_%d" % (r, i), payload(rng.choice(LENGTHS)), file_type=rng.choice([0, 1, 2]),
                             data_type=rng.choice([0, 0xFF])) for i in range(rng.randrange(1, 4))] for r in range(4)]
        record("container-%s-%d" % (factory.__name__, seed), lambda: container_history(factory, rounds))

# ---------------------------------------------------------------- cassette reader on hand-built streams
def header_block(name=b"HELLO   ", file_type=2, data_type=0, gaps=0, load=0x0E00, entry=0x0E01):
    body = [0x00, 0x0F] + list(name) + [file_type, data_type, gaps, load >> 8, load & 0xFF, entry >> 8, entry & 0xFF]
    return [0x55, 0x3C] + body + [sum(body) & 0xFF, 0x55]

def data_block(content, block_type=0x01):
    body = [block_type, len(content)] + list(content)
    return [0x55, 0x3C] + body + [sum(body) & 0xFF, 0x55]

EOF_BLOCK = [0x55, 0x3C, 0xFF, 0x00, 0xFF, 0x55]

def listing(stream, filenames=None):
    return [describe(x) for x in CassetteFile(buffer=stream).list_files(filenames)]

full = [0x55] * 4 + header_block() + [0x55] * 4 + data_block(list(range(255))) + [0] * 3 + [0x55] * 7 + data_block([0x55, 0x3C, 0xFF]) \
    + EOF_BLOCK + [0x55] * 4 + header_block(name=b"SECOND  ", file_type=0) + data_block([0x3C] * 20) + data_block([]) + EOF_BLOCK
record("stream-full", lambda: listing(full))
record("stream-full-bytes", lambda: listing(bytes(full)))
for cut in list(range(0, 45)) + list(range(285, 320)) + list(range(len(full) - 70, len(full) + 1)):
    record("stream-truncated-%d" % cut, lambda: listing(full[:cut]))
for block_type in (0x00, 0x02, 0x7F, 0xFE, 0x100):
    record("stream-block-type-%X" % block_type, lambda: listing(header_block() + data_block([1, 2], block_type) + EOF_BLOCK))
record("stream-no-blocks", lambda: listing(header_block() + [1, 2, 3, 4]))
record("stream-eof-only", lambda: listing(header_block() + EOF_BLOCK + header_block() + data_block([5]) + EOF_BLOCK))
record("stream-length-overrun", lambda: listing(header_block() + [0x55, 0x3C, 0x01, 0x09, 1, 2, 3]))
record("stream-length-missing", lambda: listing(header_block() + [0x55, 0x3C, 0x01]))
record("stream-type-missing", lambda: listing(header_block() + [0x55, 0x3C]))
def blocks_at(stream, pointer):
    data, end = CassetteFile(buffer=stream).read_blocks(pointer)
    return [data, end]
for pointer in [0, 1, 25, 26, 30, 283, 290, 300, 310, 330, len(full) - 6, len(full) - 5, len(full), len(full) + 3, -1, -6]:
    record("read_blocks-at-%d" % pointer, lambda: blocks_at(list(full), pointer))
    record("read_file-at-%d" % pointer, lambda: [describe(x) if x else x for x in CassetteFile(buffer=list(full)).read_file(pointer)[:1]]
           + [CassetteFile(buffer=list(full)).read_file(pointer)[1]])

# ---------------------------------------------------------------- command line tools
def run_cli(module, argv, files=()):
    out = io.StringIO()
    code = None
    old_argv = sys.argv
    sys.argv = [module.__name__ + ".py"] + list(argv)
    try:
        with contextlib.redirect_stdout(out), contextlib.redirect_stderr(out):
            try:
                module.main(module.parse_arguments())
            except SystemExit as error:
                code = error.code
    finally:
        sys.argv = old_argv
    return {"stdout": clean(out.getvalue()), "exit": code, "files": {clean(name): file_digest(name) for name in files}}

SOURCES = {
    "plain.asm": "        ORG $0E00\nSTART   LDA #$01\n        STA $0400\n        RTS\n        END START\n",
    "named.asm": "        NAM HELLO\n        ORG $3F00\nSTART   LDX #$0400\nLOOP    CLR ,X+\n        CMPX #$0600\n        BNE LOOP\n        RTS\n        END START\n",
    "big.asm": "        NAM BIGONE\n        ORG $1000\n" + "".join("        FDB $%04X\n" % (n * 37 & 0xFFFF) for n in range(1500)) + "        END\n",
    "bad.asm": "        ORG $0E00\n        FOO #$01\n",
    "unresolved.asm": "        ORG $0E00\n        JMP NOWHERE\n",
    "empty.asm": "",
}
for name, text in SOURCES.items():
    open(path(name), "w").write(text)

def asm(source, *options, files=()):
    return run_cli(assembler, [path(source)] + [path(x[1:]) if x.startswith("@") else x for x in options], [path(x) for x in files])

record("asm-plain-print", lambda: asm("plain.asm", "--print", "--symbols"))
record("asm-plain-width", lambda: asm("plain.asm", "--print", "--width", "60"))
record("asm-bad", lambda: asm("bad.asm", "--to_cas", "@never.cas", files=["never.cas"]))
record("asm-unresolved", lambda: asm("unresolved.asm", "--to_dsk", "@never.dsk", files=["never.dsk"]))
record("asm-missing-source", lambda: asm("nosuch.asm"))
for target, option in (("cas", "--to_cas"), ("dsk", "--to_dsk"), ("bin", "--to_bin")):
    out = "a1." + target
    record("asm-%s-noname" % target, lambda: asm("plain.asm", option, "@" + out, files=[out]))
    record("asm-%s-name" % target, lambda: asm("plain.asm", option, "@" + out, "--name", "first", files=[out]))
    record("asm-%s-exists" % target, lambda: asm("named.asm", option, "@" + out, files=[out]))
    record("asm-%s-append" % target, lambda: asm("named.asm", option, "@" + out, "--append", files=[out]))
    record("asm-%s-append-big" % target, lambda: asm("big.asm", option, "@" + out, "--append", "--name", "IGNORED", files=[out]))
    record("asm-%s-append-empty" % target, lambda: asm("empty.asm", option, "@" + out, "--append", "--name", "NOTHING", files=[out]))
    record("asm-%s-list" % target, lambda: run_cli(file_util, [path(out), "--list"]))
    record("asm-%s-append-new" % target, lambda: asm("named.asm", option, "@a2." + target, "--append", files=["a2." + target]))
for target, option in (("cas", "--to_cas"), ("dsk", "--to_dsk"), ("bin", "--to_bin")):
    for other in ("cas", "dsk", "bin"):
        if other != target:
            record("asm-%s-onto-%s" % (target, other), lambda: asm("named.asm", option, "@a2." + other, "--append", files=["a2." + other]))
            record("asm-%s-onto-%s-list" % (target, other), lambda: run_cli(file_util, [path("a2." + other), "--list"]))
    record("asm-%s-directory" % target, lambda: asm("named.asm", option, workdir, "--append"))
record("asm-all-three", lambda: asm("named.asm", "--to_bin", "@t.bin", "--to_cas", "@t.cas", "--to_dsk", "@t.dsk", "--symbols",
                                    files=["t.bin", "t.cas", "t.dsk"]))
record("asm-all-three-noname", lambda: asm("plain.asm", "--to_bin", "@u.bin", "--to_cas", "@u.cas", "--to_dsk", "@u.dsk",
                                           files=["u.bin", "u.cas", "u.dsk"]))
record("asm-dsk-noname-only", lambda: asm("plain.asm", "--to_dsk", "@v.dsk", files=["v.dsk"]))
record("asm-all-three-exist", lambda: asm("named.asm", "--to_bin", "@t.bin", "--to_cas", "@t.cas", "--to_dsk", "@t.dsk",
                                          files=["t.bin", "t.cas", "t.dsk"]))
record("asm-all-three-append", lambda: asm("big.asm", "--to_bin", "@t.bin", "--to_cas", "@t.cas", "--to_dsk", "@t.dsk", "--append",
                                           files=["t.bin", "t.cas", "t.dsk"]))

def util(*options, files=()):
    return run_cli(file_util, [path(x[1:]) if x.startswith("@") else x for x in options], [path(x) for x in files])

for image in ("t.cas", "t.dsk", "t.bin", "a1.cas", "a1.dsk", "big.cas", "exact.cas", "junk.bin", "empty.cas", "ff.dsk", "zero.dsk", "gone.cas"):
    record("util-list-%s" % image, lambda: util("@" + image, "--list"))
    record("util-nothing-%s" % image, lambda: util("@" + image))
for source in ("t.cas", "t.dsk", "a1.cas", "a1.dsk", "junk.bin", "gone.cas"):
    for option, ext in (("--to_cas", "cas"), ("--to_dsk", "dsk"), ("--to_bin", "bin")):
        out = "u-%s.%s" % (source.replace(".", "-"), ext)
        record("util-%s-%s" % (source, ext), lambda: util("@" + source, option, "@" + out, files=[out]))
        record("util-%s-%s-again" % (source, ext), lambda: util("@" + source, option, "@" + out, files=[out]))
        record("util-%s-%s-append" % (source, ext), lambda: util("@" + source, option, "@" + out, "--append", files=[out]))
        record("util-%s-%s-files" % (source, ext), lambda: util("@" + source, option, "@f" + out, "--files", "hello", "BIGONE", files=["f" + out]))
        record("util-%s-%s-files-none" % (source, ext), lambda: util("@" + source, option, "@n" + out, "--files", "zzz", files=["n" + out]))
        record("util-%s-%s-list" % (source, ext), lambda: util("@" + out, "--list"))
record("util-two-targets", lambda: util("@t.dsk", "--to_cas", "@w.cas", "--to_dsk", "@w.dsk", "--to_bin", "@w.bin", files=["w.cas", "w.dsk", "w.bin"]))
record("util-two-targets-list", lambda: util("@t.dsk", "--list", "--to_cas", "@x.cas", files=["x.cas"]))
record("util-wrong-kind", lambda: util("@t.dsk", "--to_cas", "@t.dsk", "--append", files=["t.dsk"]))
record("util-wrong-kind-2", lambda: util("@t.cas", "--to_dsk", "@t.cas", "--append", files=["t.cas"]))

# ---------------------------------------------------------------- the overwrite / append matrix
OLD_TIME = 1000000000

def existing_targets():
    cassette = CassetteFile()
    cassette.add_files([make_file("OLDCAS", payload(700)), make_file("OLDCAS2", payload(3), file_type=0)])
    disk = DiskFile()
    disk.add_files([make_file("OLDDSK", payload(5000)), make_file("OLDDSK2", payload(3), file_type=0, ext="BAS")])
    big = CassetteFile()
    big.add_files([make_file("HUGE%d" % n, payload(60000)) for n in range(3)])
    exact = list(cassette.get_buffer())
    exact.extend([0x55] * (161280 - len(exact)))
    return {
        "absent": None, "empty": [], "cassette": cassette.get_buffer(), "disk": disk.get_buffer(), "raw": payload(4000),
        "bigcas": big.get_buffer(), "exactcas": exact, "ffdisk": [0xFF] * 161280, "shortdisk": list(disk.get_buffer())[:-1],
    }

TARGET_CONTENTS = existing_targets()

def prepare(name, content):
    if os.path.exists(path(name)):
        os.remove(path(name))
    if content is not None:
        with open(path(name), "wb") as handle:
            handle.write(bytearray(content))
        os.utime(path(name), (OLD_TIME, OLD_TIME))

def observe(name, result):
    result["target"] = file_digest(path(name))
    result["untouched"] = os.path.exists(path(name)) and int(os.stat(path(name)).st_mtime) == OLD_TIME
    result["listing"] = run_cli(file_util, [path(name), "--list"])["stdout"] if os.path.exists(path(name)) else None
    return result

for content_name, content in TARGET_CONTENTS.items():
    for option in ("--to_bin", "--to_cas", "--to_dsk"):
        for append in (False, True):
            extra_options = ["--append"] if append else []
            label = "%s-%s-%s" % (content_name, option[5:], "append" if append else "plain")
            def through_assembler(source="named.asm", more=()):
                prepare("target.img", content)
                return observe("target.img", asm(source, option, "@target.img", *extra_options, *more))
            record("matrix-asm-" + label, through_assembler)
            record("matrix-asm-noname-" + label, lambda: through_assembler("plain.asm"))
            if append:
                record("matrix-asm-givenname-" + label, lambda: through_assembler("plain.asm", ("--name", "GIVEN")))
            for source_image in ("t.dsk", "one-file.cas"):
                def through_util(more=()):
                    prepare("target.img", content)
                    return observe("target.img", util("@" + source_image, option, "@target.img", *extra_options, *more))
                if source_image == "one-file.cas" and not os.path.exists(path("one-file.cas")):
                    single = CassetteFile()
                    single.add_files([make_file("SINGLE", payload(300))])
                    open(path("one-file.cas"), "wb").write(bytearray(single.get_buffer()))
                record("matrix-util-%s-%s" % (source_image, label), through_util)
                if source_image == "t.dsk" and append:
                    record("matrix-util-files-%s-%s" % (source_image, label), lambda: through_util(("--files", "bigone")))
    # twice in a row, then with the other flag
    for option in ("--to_bin", "--to_cas", "--to_dsk"):
        if content_name in ("exactcas", "shortdisk", "ffdisk"):
            continue
        def sequence():
            prepare("seq.img", content)
            steps = []
            for extra_options in ([], ["--append"], []):
                steps.append(observe("seq.img", asm("named.asm", option, "@seq.img", *extra_options)))
                steps.append(observe("seq.img", util("@one-file.cas", option, "@seq.img", *extra_options)))
            return steps
        record("matrix-sequence-%s-%s" % (content_name, option[5:]), sequence)
# all three targets in one invocation, against mixed pre-existing files
def all_three(tool, append):
    prepare("m.bin", TARGET_CONTENTS["raw"])
    prepare("m.cas", TARGET_CONTENTS["disk"])
    prepare("m.dsk", TARGET_CONTENTS["disk"])
    options = ["--to_bin", "@m.bin", "--to_cas", "@m.cas", "--to_dsk", "@m.dsk"] + (["--append"] if append else [])
    result = asm("named.asm", *options) if tool == "asm" else util("@one-file.cas", *options)
    return [observe(name, dict(result)) for name in ("m.bin", "m.cas", "m.dsk")]
for tool in ("asm", "util"):
    for append in (False, True):
        record("matrix-all-three-%s-%s" % (tool, append), lambda: all_three(tool, append))
# the source image is the target image
for content_name in ("cassette", "disk"):
    for option in ("--to_cas", "--to_dsk", "--to_bin"):
        for append in (False, True):
            def onto_itself():
                prepare("self.img", TARGET_CONTENTS[content_name])
                return observe("self.img", util("@self.img", option, "@self.img", *(["--append"] if append else [])))
            record("matrix-self-%s-%s-%s" % (content_name, option[5:], append), onto_itself)
# unwritable places
record("matrix-missing-directory-asm", lambda: asm("named.asm", "--to_cas", "@no/such/dir/x.cas"))
record("matrix-missing-directory-util", lambda: util("@t.cas", "--to_dsk", "@no/such/dir/x.dsk"))

# SourceFile primitives on real files
def source_file_roundtrip(content, file_type):
    name = path("sf.bin")
    with open(name, "wb") as handle:
        handle.write(bytes(content))
    os.utime(name, (OLD_TIME, OLD_TIME))
    source = SourceFile(name, file_type=file_type) if file_type is not None else SourceFile(name)
    first = [list(source.get_buffer()), clean(source.get_file_name()), str(source.file_type)]
    try:
        source.read_file()
        read = [type(source.get_buffer()).__name__, [x if isinstance(x, int) else repr(x) for x in source.get_buffer()][:40], len(source.get_buffer())]
    except Exception as error:
        read = "{}:{}".format(type(error).__name__, error)
    source.set_buffer([1, 2, 3, 255])
    try:
        written = source.write_file()
    except Exception as error:
        written = "{}:{}".format(type(error).__name__, error)
    return [first, read, written, file_digest(name), int(os.stat(name).st_mtime) == OLD_TIME]
for file_type in (None, SourceFileType.ASSEMBLY, SourceFileType.BINARY, "other"):
    for content in (b"", b"A", b" LDA #1\n RTS\n", bytes(range(256)), b"\xff\xfe\x00"):
        record("sourcefile-%s-%r" % (file_type, content[:6]), lambda: source_file_roundtrip(content, file_type))
def bad_write(buffer):
    name = path("sfw.bin")
    open(name, "wb").write(b"precious")
    source = SourceFile(name, file_type=SourceFileType.BINARY)
    source.set_buffer(buffer)
    try:
        source.write_file()
        status = "ok"
    except Exception as error:
        status = "{}:{}".format(type(error).__name__, error)
    return [status, file_digest(name)]
for buffer in ([], [0], [256], [-1], ["a"], None, b"bytes", "text", [1.5], bytearray(b"xyz")):
    record("sourcefile-write-%r" % (buffer,), lambda: bad_write(buffer))
record("sourcefile-missing", lambda: SourceFile(path("nope.bin"), file_type=SourceFileType.BINARY).read_file())
record("sourcefile-missing-asm", lambda: SourceFile(path("nope.asm")).read_file())
record("sourcefile-defaults", lambda: [SourceFile().get_file_name(), SourceFile().get_buffer(), str(SourceFile().file_type)])
record("sourcefile-static-read", lambda: SourceFile.read_binary_contents(path("one-file.cas"))[:20])
record("sourcefile-static-read-asm", lambda: SourceFile.read_assembly_contents(path("named.asm")))

json.dump(RESULTS, sys.stdout)
'''


def run_tree(tree):
    tree = os.path.abspath(tree)
    with tempfile.TemporaryDirectory() as workdir:
        driver = os.path.join(workdir, "driver.py")
        with open(driver, "w") as handle:
            handle.write(DRIVER)
        scratch = os.path.join(workdir, "w")
        os.mkdir(scratch)
        env = dict(os.environ, PYTHONDONTWRITEBYTECODE="1", PYTHONHASHSEED="0")
        env.pop("PYTHONPATH", None)
        process = subprocess.run(
            [sys.executable, driver, tree, scratch], cwd=tree, env=env,
            stdout=subprocess.PIPE, stderr=subprocess.PIPE, text=True
        )
    if process.returncode != 0:
        print("driver failed in {}:\n{}".format(tree, process.stderr))
        sys.exit(1)
    return json.loads(process.stdout)


def main():
    if len(sys.argv) != 3:
        print(__doc__)
        sys.exit(2)
    from concurrent.futures import ThreadPoolExecutor
    with ThreadPoolExecutor(max_workers=2) as pool:
        results_a, results_b = pool.map(run_tree, sys.argv[1:3])
    mismatches = 0
    if [x[0] for x in results_a] != [x[0] for x in results_b]:
        print("case lists differ")
        mismatches += 1
    for (label_a, outcome_a), (label_b, outcome_b) in zip(results_a, results_b):
        if outcome_a != outcome_b:
            mismatches += 1
            print("MISMATCH {}:\n  A: {}\n  B: {}".format(label_a, str(outcome_a)[:400], str(outcome_b)[:400]))
    errors = sum(1 for _, outcome in results_a if outcome[0] == "exc")
    print("{} cases compared ({} of them error cases), {} mismatches".format(len(results_a), errors, mismatches))
    sys.exit(1 if mismatches else 0)


if __name__ == "__main__":
    main()
