#!/usr/bin/env python
"""
Differential check for property C03 (branch / PC-relative displacements).

usage: equiv.py <treeA> <treeB>

Runs the same set of assembly programs (library API, statement-level API and
the assembler.py command line) against both trees, one subprocess per tree,
and compares every observable result. Exit 0 if all agree, 1 otherwise.
"""
import hashlib
import json
import os
import subprocess
import sys
import tempfile

WORKER = r'''
import hashlib, io, json, os, sys, contextlib
tree = sys.argv[1]
sys.path.insert(0, tree)
os.chdir(tree)
from cocoasm.program import Program
from cocoasm.statement import Statement
from cocoasm.exceptions import TranslationError, ParseError
import cocoasm.operands as operands
from cocoasm.instruction import INSTRUCTIONS
assert os.path.realpath(operands.__file__).startswith(os.path.realpath(tree)), operands.__file__

cases = json.load(open(sys.argv[2]))


def describe_error(error):
    out = {"type": type(error).__name__, "str": str(error)}
    if hasattr(error, "value"):
        out["value"] = str(error.value)
    if hasattr(error, "statement"):
        try:
            out["statement"] = str(error.statement)
        except Exception as inner:
            out["statement"] = "unprintable: {} {}".format(type(inner).__name__, inner)
    return out


def pkg_state(statement):
    pkg = statement.code_pkg
    return [
        statement.fixed_size, statement.pcr_size_hint, pkg.size, pkg.max_size,
        pkg.op_code.hex(), pkg.post_byte.hex(), pkg.additional.hex(), pkg.address.hex(),
        list(pkg.post_byte_choices), pkg.additional_needs_resolution,
    ]


def run_program(lines):
    result = {}
    program = Program()
    try:
        program.process(lines)
    except Exception as error:
        result["error"] = describe_error(error)
        # state left behind in the statements is visible to library callers
        try:
            result["state"] = [pkg_state(s) for s in program.statements]
        except Exception as inner:
            result["state"] = "unavailable: {}".format(type(inner).__name__)
        return result
    binary = program.get_binary_array()
    result["binary_len"] = len(binary)
    result["binary_sha"] = hashlib.sha256(bytes(b & 0xFF for b in binary)).hexdigest()
    if len(binary) <= 600:
        result["binary"] = binary
    listing = program.get_statements()
    result["listing"] = listing if len(listing) < 400 else hashlib.sha256("\n".join(listing).encode()).hexdigest()
    result["symbols"] = program.get_symbol_table()
    result["origin"] = program.origin.hex()
    result["name"] = program.name
    result["state"] = [pkg_state(s) for s in program.statements]
    return result


def run_statement_level(lines, index, method):
    """Drive Statement.determine_pcr_relative_sizes / fix_addresses by hand."""
    result = {}
    try:
        program = Program()
        program.statements = program.parse(lines)
        for i, s in enumerate(program.statements):
            program.save_symbol(i, s)
        for s in program.statements:
            s.resolve_symbols(program.symbol_table)
        for s in program.statements:
            s.translate()
        result["before"] = [pkg_state(s) for s in program.statements]
        target = program.statements[index]
        try:
            if method == "size":
                result["ret"] = repr(target.determine_pcr_relative_sizes(program.statements, index))
            elif method == "size_twice":
                target.determine_pcr_relative_sizes(program.statements, index)
                result["ret"] = repr(target.determine_pcr_relative_sizes(program.statements, index))
            elif method == "fix":
                address = 0
                for s in program.statements:
                    address = s.set_address(address)
                    address += s.code_pkg.size
                result["ret"] = repr(target.fix_addresses(program.statements, index))
            elif method == "all_sizes_fixed":
                result["ret"] = repr(program.all_sizes_fixed())
        except Exception as error:
            result["error"] = describe_error(error)
        result["after"] = [pkg_state(s) for s in program.statements]
    except Exception as error:
        result["setup_error"] = describe_error(error)
    return result


def run_operand_translate(mnemonic, operand_string):
    result = {}
    try:
        instruction = next(i for i in INSTRUCTIONS if i.mnemonic == mnemonic)
        operand = operands.Operand.create_from_str(operand_string, instruction)
        result["operand_type"] = type(operand).__name__
        operand = operand.resolve_symbols({})
        pkg = operand.translate()
        result["pkg"] = [pkg.size, pkg.max_size, pkg.op_code.hex(), pkg.post_byte.hex(), pkg.additional.hex(),
                         type(pkg.additional).__name__, list(pkg.post_byte_choices), pkg.additional_needs_resolution,
                         pkg.address.hex()]
    except Exception as error:
        result["error"] = describe_error(error)
    return result


out = {}
for name, case in cases.items():
    kind = case["kind"]
    if kind == "program":
        out[name] = run_program(case["lines"])
    elif kind == "statement":
        out[name] = run_statement_level(case["lines"], case["index"], case["method"])
    elif kind == "operand":
        out[name] = run_operand_translate(case["mnemonic"], case["operand"])
json.dump(out, open(sys.argv[3], "w"), sort_keys=True)
'''

SHORT_BRANCHES = ["BRA", "BRN", "BHI", "BLS", "BCC", "BHS", "BCS", "BLO", "BNE", "BEQ",
                  "BVC", "BVS", "BPL", "BMI", "BGE", "BLT", "BGT", "BLE", "BSR"]
LONG_BRANCHES = ["L" + m for m in SHORT_BRANCHES]


def line(label, mnemonic, operand="", comment=""):
    text = "{:<8} {:<6} {}".format(label, mnemonic, operand)
    if comment:
        text += " ; " + comment
    return text


def fwd(mnemonic, operand_fmt, gap, org=None, extra_between=()):
    lines = []
    if org is not None:
        lines.append(line("", "ORG", org))
    lines.append(line("START", mnemonic, operand_fmt.format("TARGET")))
    lines.extend(extra_between)
    if gap:
        lines.append(line("", "RMB", str(gap)))
    lines.append(line("TARGET", "NOP"))
    lines.append(line("", "END", "START"))
    return lines


def back(mnemonic, operand_fmt, gap, org=None, extra_between=()):
    lines = []
    if org is not None:
        lines.append(line("", "ORG", org))
    lines.append(line("TARGET", "NOP"))
    if gap:
        lines.append(line("", "RMB", str(gap)))
    lines.extend(extra_between)
    lines.append(line("HERE", mnemonic, operand_fmt.format("TARGET")))
    lines.append(line("", "RTS"))
    return lines


def build_cases():
    cases = {}

    def prog(name, lines):
        cases[name] = {"kind": "program", "lines": lines}

    # --- short branches: every mnemonic, and a sweep around the limits ---
    for i, m in enumerate(SHORT_BRANCHES):
        prog("sb_fwd_%s" % m, fwd(m, "{}", 120 + i))          # 120..138 straddles +127
        prog("sb_back_%s" % m, back(m, "{}", 118 + i))        # straddles -128
    for gap in list(range(119, 137)) + [0, 1, 2, 255, 256, 300]:
        prog("bra_fwd_gap%d" % gap, fwd("BRA", "{}", gap, org="$0E00"))
        prog("bne_back_gap%d" % gap, back("BNE", "{}", gap, org="$3F00"))
    prog("bra_self", [line("LOOP", "BRA", "LOOP")])
    prog("bra_next", [line("", "BRA", "NEXT"), line("NEXT", "RTS")])
    prog("bra_undefined", [line("", "BRA", "NOWHERE")])
    prog("bra_numeric", [line("", "BRA", "$10")])
    prog("bra_expr", [line("A", "NOP"), line("", "BRA", "A+1")])

    # --- long branches: every mnemonic, and the +-32767/32768 neighbourhood ---
    for i, m in enumerate(LONG_BRANCHES):
        prog("lb_fwd_%s" % m, fwd(m, "{}", 100 + 37 * i))
        prog("lb_back_%s" % m, back(m, "{}", 100 + 41 * i))
    for gap in [0, 1, 126, 127, 128, 129, 32759, 32760, 32763, 32764, 32765, 32766, 32767, 32768, 32769, 32775]:
        prog("lbra_fwd_gap%d" % gap, fwd("LBRA", "{}", gap))
        prog("lbeq_back_gap%d" % gap, back("LBEQ", "{}", gap))
        prog("lbsr_back_gap%d" % gap, back("LBSR", "{}", gap, org="$1000"))

    # --- PCR operands: 1- and 2-byte opcodes, direct and indirect, sweep ---
    pcr_mnemonics = ["LDA", "LEAX", "LDD", "STB", "JSR", "JMP", "LDY", "CMPS", "STY", "CMPU", "LEAS", "TST", "CLR"]
    for m in pcr_mnemonics:
        for gap in (0, 5, 122, 123, 124, 125, 126, 127, 128, 129, 130, 131, 132, 260):
            prog("pcr_fwd_%s_%d" % (m, gap), fwd(m, "{},PCR", gap))
            prog("pcr_back_%s_%d" % (m, gap), back(m, "{},PCR", gap))
    for m in ("LDA", "LEAX", "LDY", "JMP"):
        for gap in (0, 121, 122, 123, 124, 125, 126, 127, 128, 129, 130, 400):
            prog("pcri_fwd_%s_%d" % (m, gap), fwd(m, "[{},PCR]", gap, org="$2000"))
            prog("pcri_back_%s_%d" % (m, gap), back(m, "[{},PCR]", gap, org="$2000"))
    for gap in (32755, 32760, 32762, 32763, 32764, 32765, 32766, 32767, 32768, 32770):
        prog("pcr_far_fwd_%d" % gap, fwd("LEAX", "{},PCR", gap))
        prog("pcr_far_back_%d" % gap, back("LDD", "{},PCR", gap))

    # label plus / minus constant
    for gap in (100, 120, 123, 124, 125, 126, 127, 128, 129, 130, 200):
        prog("pcr_plus_fwd_%d" % gap, fwd("LEAX", "{}+2,PCR", gap))
        prog("pcr_minus_fwd_%d" % gap, fwd("LDA", "{}-3,PCR", gap))
        prog("pcr_plus_back_%d" % gap, back("LEAY", "{}+4,PCR", gap))
        prog("pcri_plus_back_%d" % gap, back("LDX", "[{}+1,PCR]", gap))

    # bare numeric n,PCR
    for n in ("0", "1", "5", "15", "16", "127", "128", "255", "256", "$7FFF", "$8000", "$FFFF", "-1", "-5", "-128",
              "-129", "$10", "%1010"):
        prog("pcr_num_%s" % n, [line("", "LDA", "%s,PCR" % n), line("", "LEAX", "[%s,PCR]" % n), line("", "RTS")])

    # several interdependent PCR statements between source and target
    for gap in (100, 110, 113, 114, 115, 116, 117, 118, 119, 120, 121, 122, 123, 124, 125, 126, 127, 128, 140):
        between = [line("", "LEAY", "TARGET,PCR"), line("MID", "LDD", "[START,PCR]"), line("", "LDY", "MID,PCR")]
        prog("pcr_multi_fwd_%d" % gap, fwd("LEAX", "{},PCR", gap, extra_between=between))
        between = [line("", "LEAY", "HERE,PCR"), line("MID", "LDD", "[TARGET,PCR]"), line("", "CMPS", "MID,PCR")]
        prog("pcr_multi_back_%d" % gap, back("LEAX", "{},PCR", gap, extra_between=between))
        prog("pcr_cross_%d" % gap, [
            line("", "ORG", "$4000"),
            line("A", "LEAX", "B,PCR"),
            line("", "RMB", str(gap // 2)),
            line("C", "LEAY", "D,PCR"),
            line("", "RMB", str(gap - gap // 2)),
            line("B", "LDA", "A,PCR"),
            line("", "BNE", "C"),
            line("D", "LDB", "[C,PCR]"),
            line("", "LBRA", "A"),
            line("", "END", "A"),
        ])
    prog("pcr_self", [line("ME", "LEAX", "ME,PCR")])
    prog("pcr_next", [line("", "LEAX", "NXT,PCR"), line("NXT", "RTS")])
    prog("pcr_undefined", [line("", "LEAX", "MISSING,PCR")])
    prog("pcr_equ", [line("K", "EQU", "$20"), line("", "LEAX", "K,PCR"), line("", "LDA", "[K,PCR]")])
    prog("pcr_not_indexed_capable", [line("L", "NOP"), line("", "ABX", "L,PCR")])
    prog("idx_label_no_pcr", [line("L", "NOP"), line("", "LDA", "L,X")])
    prog("idx_label_no_pcr_ind", [line("L", "NOP"), line("", "LDA", "[L,Y]")])
    prog("pcr_plus_inc", [line("L", "NOP"), line("", "LDA", "L,PCR+")])
    prog("mixed", [
        line("", "NAM", "MIXED"),
        line("", "ORG", "$0600"),
        line("BEGIN", "LDX", "#TABLE"),
        line("LOOP", "LDA", ",X+"),
        line("", "BEQ", "DONE"),
        line("", "STA", "$0400"),
        line("", "LEAY", "TABLE,PCR"),
        line("", "LBSR", "SUB"),
        line("", "BRA", "LOOP"),
        line("DONE", "RTS"),
        line("SUB", "LDD", "[VEC,PCR]"),
        line("", "RTS"),
        line("TABLE", "FCC", '"HELLO"'),
        line("", "FCB", "0"),
        line("VEC", "FDB", "BEGIN"),
        line("", "END", "BEGIN"),
    ])

    # --- statement-level API ---
    def stmt(name, lines, index, method):
        cases[name] = {"kind": "statement", "lines": lines, "index": index, "method": method}

    for gap in (0, 122, 123, 124, 125, 126, 127, 128, 129):
        stmt("stmt_size_fwd_%d" % gap, fwd("LEAX", "{},PCR", gap), 0, "size")
        stmt("stmt_size_back_%d" % gap, back("LDY", "[{},PCR]", gap), 2 if gap else 1, "size")
        stmt("stmt_fix_fwd_%d" % gap, fwd("BRA", "{}", gap), 0, "fix")
        stmt("stmt_fix_back_%d" % gap, back("BSR", "{}", gap), 2 if gap else 1, "fix")
        stmt("stmt_fix_lfwd_%d" % gap, fwd("LBRA", "{}", gap), 0, "fix")
        stmt("stmt_fix_pcr_unsized_%d" % gap, fwd("LDA", "{}+1,PCR", gap), 0, "fix")
        stmt("stmt_asf_%d" % gap, fwd("LDA", "{},PCR", gap), 0, "all_sizes_fixed")
    stmt("stmt_size_twice", fwd("LEAX", "{},PCR", 10), 0, "size_twice")
    stmt("stmt_size_on_branch", fwd("BRA", "{}", 10), 0, "size")
    stmt("stmt_size_on_inherent", [line("", "NOP")], 0, "size")
    stmt("stmt_size_on_nonpcr_idx", [line("L", "NOP"), line("", "LDA", "L,X")], 1, "size")
    stmt("stmt_size_on_rmb", [line("", "RMB", "4")], 0, "size")
    stmt("stmt_fix_on_rmb", [line("", "RMB", "4")], 0, "fix")
    stmt("stmt_fix_on_ext", [line("L", "NOP"), line("", "JMP", "L")], 1, "fix")
    stmt("stmt_fix_on_ext_expr", [line("L", "NOP"), line("", "LDX", "#L+2")], 1, "fix")
    stmt("stmt_fix_bad_index", fwd("BRA", "{}", 3), 7, "fix")
    stmt("stmt_asf_plain", [line("", "NOP"), line("", "RTS")], 0, "all_sizes_fixed")
    stmt("stmt_asf_empty", [], 0, "all_sizes_fixed")

    # --- operand-level API (translate only) ---
    def oper(name, mnemonic, operand):
        cases[name] = {"kind": "operand", "mnemonic": mnemonic, "operand": operand}

    for m in SHORT_BRANCHES[:4] + LONG_BRANCHES[:4] + ["NOP", "LDA"]:
        oper("op_rel_%s" % m, m, "SOMEWHERE")
        oper("op_rel_num_%s" % m, m, "$1234")
    for m in ("LDA", "LEAX", "LDY", "CMPS", "NOP", "BRA"):
        for text in ("5,PCR", "$1234,PCR", "[5,PCR]", "[$1234,PCR]", "LBL,PCR", "[LBL,PCR]", "-2,PCR", "0,PCR",
                     ",PCR", "[,PCR]", "A,PCR", "$80,PCR", "[$FF,PCR]", "<5,PCR", ">5,PCR", "5,PCR+"):
            oper("op_idx_%s_%s" % (m, text), m, text)
    return cases


def run_cli(tree, workdir, tag):
    """Run assembler.py of `tree` on a few source files; return stdout/stderr/rc and produced file hashes."""
    sources = {
        "ok_short.asm": fwd("BNE", "{}", 127) + [],
        "bad_short.asm": fwd("BNE", "{}", 128),
        "ok_back.asm": back("BSR", "{}", 125),
        "bad_back.asm": back("BSR", "{}", 126),
        "pcr8.asm": [line("", "NAM", "PCR8")] + fwd("LEAX", "{},PCR", 124, org="$0E00"),
        "pcr16.asm": [line("", "NAM", "PCR16")] + fwd("LEAX", "{},PCR", 126, org="$0E00"),
        "pcrback.asm": back("LDD", "[{},PCR]", 122, org="$7000"),
        "lb.asm": fwd("LBSR", "{}", 500, org="$0100"),
        "idxerr.asm": [line("L", "NOP"), line("", "LDA", "L,X")],
    }
    results = {}
    for fname, lines in sorted(sources.items()):
        src = os.path.join(workdir, fname)
        with open(src, "w") as handle:
            handle.write("\n".join(lines) + "\n")
        binfile = os.path.join(workdir, "%s.%s.bin" % (fname, tag))
        casfile = os.path.join(workdir, "%s.%s.cas" % (fname, tag))
        proc = subprocess.run(
            [sys.executable, os.path.join(tree, "assembler.py"), src, "--print", "--symbols",
             "--to_bin", binfile, "--to_cas", casfile, "--name", "PROG"],
            cwd=tree, capture_output=True, text=True, env=dict(os.environ, PYTHONPATH=tree, PYTHONDONTWRITEBYTECODE="1"),
        )
        entry = {"rc": proc.returncode, "stdout": proc.stdout, "stderr": proc.stderr.replace(tree, "<TREE>")}
        for label, path in (("bin", binfile), ("cas", casfile)):
            if os.path.exists(path):
                entry[label] = hashlib.sha256(open(path, "rb").read()).hexdigest()
            else:
                entry[label] = None
        results[fname] = entry
    return results


def run_tree(tree, cases_path, workdir, tag):
    worker_path = os.path.join(workdir, "worker.py")
    with open(worker_path, "w") as handle:
        handle.write(WORKER)
    out_path = os.path.join(workdir, "out_%s.json" % tag)
    proc = subprocess.run(
        [sys.executable, worker_path, tree, cases_path, out_path],
        cwd=tree, capture_output=True, text=True, env=dict(os.environ, PYTHONDONTWRITEBYTECODE="1"),
    )
    if proc.returncode != 0:
        print("worker failed for", tree)
        print(proc.stdout)
        print(proc.stderr)
        sys.exit(1)
    results = json.load(open(out_path))
    results["__cli__"] = run_cli(tree, workdir, tag)
    return results


def main():
    if len(sys.argv) != 3:
        print(__doc__)
        return 2
    tree_a, tree_b = (os.path.abspath(p) for p in sys.argv[1:3])
    cases = build_cases()
    with tempfile.TemporaryDirectory() as workdir:
        cases_path = os.path.join(workdir, "cases.json")
        json.dump(cases, open(cases_path, "w"))
        res_a = run_tree(tree_a, cases_path, workdir, "a")
        res_b = run_tree(tree_b, cases_path, workdir, "b")

    differences = 0
    for name in sorted(set(res_a) | set(res_b)):
        if res_a.get(name) != res_b.get(name):
            differences += 1
            print("DIFF in case", name)
            print("   A:", json.dumps(res_a.get(name), sort_keys=True)[:1500])
            print("   B:", json.dumps(res_b.get(name), sort_keys=True)[:1500])
    n_err = sum(1 for k, v in res_a.items() if isinstance(v, dict) and ("error" in v or "setup_error" in v))
    print("%d cases (+%d CLI runs) compared, %d raised errors in tree A, %d differences"
          % (len(cases), len(res_a["__cli__"]), n_err, differences))
    return 0 if differences == 0 else 1


if __name__ == "__main__":
    sys.exit(main())
