#!/usr/bin/env python
"""
Differential demonstration: runs the same set of cases against two source
trees (one subprocess per tree, the tree at the front of sys.path and as the
working directory) and compares every observable result.

usage: equiv.py <treeA> <treeB>      exit 0 = all cases agree, 1 = otherwise
"""
import json
import os
import subprocess
import sys

PYTHON = "/venv/bin/python" if os.path.exists("/venv/bin/python") else sys.executable

DRIVER_HEAD = r'''
import contextlib, enum, hashlib, io, json, os, shutil, subprocess, sys, tempfile
TREE = os.path.abspath(sys.argv[1])
PYTHON = sys.argv[2]
sys.path.insert(0, TREE)
os.chdir(TREE)
RESULTS = []


def norm(text):
    return str(text).replace(TREE, "<TREE>")


def show(obj, depth=0):
    """Canonical, address-free, JSON-able rendering of a result."""
    if depth > 20:
        return "<deep>"
    if obj is None or isinstance(obj, (bool, int, float)):
        return obj
    if isinstance(obj, str):
        return norm(obj)
    if isinstance(obj, (bytes, bytearray)):
        return {"bytes": bytes(obj).hex()}
    if isinstance(obj, enum.Enum):
        return str(obj)
    if isinstance(obj, dict):
        return {"dict": [[show(k, depth), show(v, depth)] for k, v in obj.items()]}
    if hasattr(obj, "_asdict"):
        if type(obj).__name__ in ("Instruction", "Mode") and depth > 0:
            return "<{} {}>".format(type(obj).__name__, getattr(obj, "mnemonic", ""))
        return {"nt": type(obj).__name__, "f": show(obj._asdict(), depth + 1)}
    if isinstance(obj, (list, tuple, set, frozenset)):
        items = list(obj)
        if len(items) > 600 and all(isinstance(i, int) and not isinstance(i, bool) for i in items):
            blob = ",".join(map(str, items)).encode()
            return {type(obj).__name__: len(items), "sha": hashlib.sha256(blob).hexdigest(),
                    "head": items[:24], "tail": items[-24:]}
        return {type(obj).__name__: [show(i, depth + 1) for i in items]}
    if hasattr(obj, "__dict__"):
        return {"obj": type(obj).__name__, "vars": show(vars(obj), depth + 1)}
    return norm(repr(obj))


def case(label, fn):
    out_buf, err_buf = io.StringIO(), io.StringIO()
    try:
        with contextlib.redirect_stdout(out_buf), contextlib.redirect_stderr(err_buf):
            value = fn()
        out = {"ok": show(value)}
    except SystemExit as error:
        out = {"exit": show(error.code)}
    except BaseException as error:
        out = {"exc": type(error).__name__, "msg": norm(error)}
    out["stdout"] = norm(out_buf.getvalue())
    out["stderr"] = norm(err_buf.getvalue())
    RESULTS.append([label, out])


def cli(tool, argv, files=None, keep=None):
    """
    Runs <TREE>/<tool> with argv inside a fresh temporary directory that first
    receives `files` (name -> str or bytes). Returns return code, stdout, the
    last line of stderr and name/size/sha256 of every file left behind.
    """
    work = keep or tempfile.mkdtemp(prefix="equiv")
    try:
        for name, content in (files or {}).items():
            mode = "wb" if isinstance(content, (bytes, bytearray)) else "w"
            with open(os.path.join(work, name), mode) as handle:
                handle.write(content)
        env = dict(os.environ, PYTHONPATH=TREE, PYTHONDONTWRITEBYTECODE="1", COLUMNS="80")
        done = subprocess.run([PYTHON, os.path.join(TREE, tool)] + list(argv), cwd=work, env=env,
                              capture_output=True, text=True, timeout=600)
        left = {}
        for name in sorted(os.listdir(work)):
            with open(os.path.join(work, name), "rb") as handle:
                blob = handle.read()
            left[name] = [len(blob), hashlib.sha256(blob).hexdigest()]
        err_lines = [line for line in done.stderr.splitlines() if line.strip()]
        return {"rc": done.returncode, "stdout": norm(done.stdout).replace(work, "<WORK>"),
                "stderr_last": norm(err_lines[-1]).replace(work, "<WORK>") if err_lines else "",
                "files": left}
    finally:
        if not keep:
            shutil.rmtree(work, ignore_errors=True)


def safe(fn):
    try:
        return fn()
    except Exception as error:
        return "<{}: {}>".format(type(error).__name__, error)


def read_back(work, name):
    with open(os.path.join(work, name), "rb") as handle:
        return handle.read()

'''

DRIVER_TAIL = r'''
print("@@RESULTS@@" + json.dumps(RESULTS))
'''

DRIVER_PROGS = r'''
def program(size, org="$0E00", nam=None, end=None, seed=7):
    """Assembly source producing `size` pseudo-random bytes at `org`."""
    lines = []
    if nam is not None:
        lines.append("\tNAM {}".format(nam))
    if org is not None:
        lines.append("\tORG {}".format(org))
    lines.append("START\tNOP") if size > 0 else None
    state, left = seed, max(size - 1, 0)
    while left > 0:
        count = min(left, 24)
        values = []
        for _ in range(count):
            state = (state * 1103515245 + 12345) & 0x7FFFFFFF
            values.append("${:02X}".format((state >> 16) & 0xFF))
        lines.append("\tFCB {}".format(",".join(values)))
        left -= count
    if end is not None:
        lines.append("\tEND {}".format(end))
    return "\n".join(lines) + "\n"


def data_bytes(size, seed=3):
    state, out = seed, []
    for _ in range(size):
        state = (state * 1103515245 + 12345) & 0x7FFFFFFF
        out.append((state >> 16) & 0xFF)
    return out

'''

DRIVER_DISK = r'''
import random
from cocoasm.virtualfiles.disk import DiskFile, DiskConstants, MLPreamble, BasicPreamble, ASCIIPreamble, Postamble
from cocoasm.virtualfiles.coco_file import CoCoFile
from cocoasm.virtualfiles.virtual_file import VirtualFile, VirtualFileType
from cocoasm.virtualfiles.source_file import SourceFile, SourceFileType
from cocoasm.values import NumericValue, NoneValue

GRANULE = 2304


def coco(name="PROG", size=100, kind=2, data_type=0, load=0x0E00, execute=0x0E00, extension="bin", seed=1):
    return CoCoFile(name=name, extension=extension, type=NumericValue(kind), data_type=NumericValue(data_type),
                    load_addr=NumericValue(load), exec_addr=NumericValue(execute), data=data_bytes(size, seed=seed))


def digest(buffer):
    return [len(buffer), hashlib.sha256(",".join(map(str, buffer)).encode()).hexdigest()]


def usage(buffer):
    """Which granules and directory slots an image says are taken (read straight from the bytes)."""
    fat = list(buffer[DiskConstants.FAT_OFFSET:DiskConstants.FAT_OFFSET + 68])
    slots = [buffer[DiskConstants.DIR_OFFSET + 32 * entry] for entry in range(72)]
    return [fat, slots]


def listing(buffer):
    try:
        files = DiskFile(buffer=list(buffer)).list_files()
    except Exception as error:
        return ["raised", type(error).__name__, str(error)]
    return [[f.name, f.extension, safe(f.type.hex), safe(f.data_type.hex), safe(f.load_addr.hex), safe(f.exec_addr.hex),
             digest(f.data)] for f in files]


def history(files, fill_order=None, start=None):
    """Adds the files one by one; after each step: outcome, image digest, FAT and directory usage."""
    disk = DiskFile(buffer=start, granule_fill_order=fill_order) if start is not None \
        else DiskFile(granule_fill_order=fill_order)
    steps = []
    for coco_file in files:
        try:
            outcome = show(disk.add_file(coco_file))
        except Exception as error:
            outcome = ["raised", type(error).__name__, str(error)]
        steps.append([coco_file.name, len(coco_file.data), outcome, digest(disk.buffer), usage(disk.buffer)])
    return [steps, listing(disk.buffer)]


def sizes_to_files(sizes, kinds=((2, 0, "bin"),)):
    files = []
    for number, size in enumerate(sizes):
        kind, data_type, extension = kinds[number % len(kinds)]
        files.append(coco("F{}".format(number), size, kind=kind, data_type=data_type, extension=extension, seed=number + 1))
    return files


ALL_KINDS = ((2, 0, "bin"), (0, 0, "bas"), (1, 0xFF, "txt"), (0, 0xFF, "bas"))
HISTORIES = {
    "slot exhaustion": sizes_to_files([10] * 75),
    "slot exhaustion empty files": sizes_to_files([0] * 75, ALL_KINDS),
    "granule exhaustion large": sizes_to_files([30000] * 7),
    "granule exhaustion exact": sizes_to_files([GRANULE * 10 - 10] * 8),
    "granule exhaustion one by one": sizes_to_files([GRANULE - 10] * 70),
    "boundary sizes": sizes_to_files([GRANULE - 11, GRANULE - 10, GRANULE - 9, GRANULE - 6, GRANULE - 5, GRANULE - 4,
                                      GRANULE - 3, GRANULE - 1, GRANULE, GRANULE + 1, 2 * GRANULE - 10, 2 * GRANULE - 5,
                                      2 * GRANULE - 3, 2 * GRANULE], ALL_KINDS),
    "sector boundary sizes": sizes_to_files([245, 246, 247, 250, 251, 252, 253, 255, 256, 257, 501, 502, 507, 512, 2293,
                                             2294, 2295, 2298, 2299], ALL_KINDS),
    "mixture": sizes_to_files([5000, 10, 0, 12000, 300, 2304, 40000, 1, 7000, 2294, 65535, 30000, 20000, 4608, 100],
                              ALL_KINDS),
    "too big first": sizes_to_files([65535, 65535, 65535, 10, 2000]),
    "whole disk in one file": sizes_to_files([65535, 65535, 26000, 100]),
    "too long for a length word": sizes_to_files([65536, 70000, 10]),
    "same name twice": [coco("SAME", 10), coco("SAME", 20, seed=2), coco("same", 30, seed=3)],
    "odd names": [coco("", 10), coco("A", 10), coco("LONGERTHAN8", 10), coco("SP ACE", 10), coco("\x00NUL", 10)],
}


def save_history(rounds, append=True):
    """Saves file lists to one host .dsk file through VirtualFile; host bytes before/after each save."""
    work = tempfile.mkdtemp(prefix="equiv")
    try:
        target = os.path.join(work, "host.dsk")
        steps = []
        for files in rounds:
            before = digest(read_back(work, "host.dsk")) if os.path.exists(target) else None
            virtual = VirtualFile(SourceFile(target, file_type=SourceFileType.BINARY), VirtualFileType.DISK)
            try:
                virtual.open_virtual_file()
                for coco_file in files:
                    virtual.add_coco_file(coco_file)
                virtual.save_virtual_file(append_mode=append)
                outcome = "saved"
            except Exception as error:
                outcome = ["raised", type(error).__name__, str(error).replace(work, "<WORK>")]
            after = digest(read_back(work, "host.dsk")) if os.path.exists(target) else None
            steps.append([outcome, before, after, before == after,
                          listing(list(read_back(work, "host.dsk"))) if os.path.exists(target) else None])
        return steps
    finally:
        shutil.rmtree(work, ignore_errors=True)

'''

DRIVER_CASES = DRIVER_PROGS + DRIVER_DISK + r'''
# 1. the data reader on its own: every length around the granule boundaries, with and without a preamble
def image_with(files, fill_order=None):
    disk = DiskFile(granule_fill_order=fill_order)
    for coco_file in files:
        disk.add_file(coco_file)
    return disk


def reading(disk, granule, preamble, length, fat=None):
    def run():
        table = list(disk.buffer[DiskConstants.FAT_OFFSET:DiskConstants.FAT_OFFSET + 256]) if fat is None else fat
        if length is None:
            data, pointer = disk.read_data(granule, table, preamble)
        else:
            data, pointer = disk.read_data(granule, table, preamble, data_length=length)
        return [len(data), digest(data), data[:8], data[-8:], pointer]
    return run


BIG = image_with([coco("BIG", 3 * GRANULE + 100, seed=9)])
for length in (None, 0, 1, 5, GRANULE - 6, GRANULE - 5, GRANULE - 4, GRANULE - 1, GRANULE, GRANULE + 1, 2 * GRANULE - 5,
               2 * GRANULE - 4, 2 * GRANULE, 3 * GRANULE, 3 * GRANULE + 100, 3 * GRANULE + 105, 4 * GRANULE - 5, 4 * GRANULE,
               5 * GRANULE, 60000, 161280, 200000, -1, -5000):
    case("read ml preamble length {}".format(length), reading(BIG, 32, MLPreamble(), length))
    case("read basic preamble length {}".format(length), reading(BIG, 32, BasicPreamble(), length))
    case("read ascii preamble length {}".format(length), reading(BIG, 32, ASCIIPreamble(), length))
    case("read no preamble length {}".format(length), reading(BIG, 32, None, length))
    case("read from second granule length {}".format(length), reading(BIG, 33, None, length))
for granule in (0, 1, 33, 34, 35, 66, 67, 68, 69, 100, -1, -68):
    case("read granule {}".format(granule), reading(BIG, granule, None, 3000))
case("read with looping fat", reading(BIG, 32, None, 20 * GRANULE, fat=[32] * 256))
case("read with short fat", reading(BIG, 32, None, 3 * GRANULE, fat=[1, 2, 3]))
case("read with fat pointing outside", reading(BIG, 32, None, 3 * GRANULE, fat=[200] * 256))
case("read with end marks in fat", reading(BIG, 32, None, 3 * GRANULE, fat=[0xC5] * 256))
case("read with none fat", reading(BIG, 32, None, 3 * GRANULE, fat=None))
case("read with none fat short", reading(BIG, 32, None, 30, fat=None))
case("read text length", reading(BIG, 32, None, "30"))
case("read float length", reading(BIG, 32, None, 30.0))
case("read none granule", reading(BIG, None, None, 30))


class WidePreamble(object):
    def __init__(self, length):
        self.length = length


for width in (0, 1, 100, GRANULE - 1, GRANULE, GRANULE + 1, -5):
    case("read preamble of width {}".format(width), reading(BIG, 32, WidePreamble(width), 3000))
case("read from bytes image", reading(DiskFile(buffer=bytes(BIG.buffer)), 32, MLPreamble(), 3000))
case("read from short image", reading(DiskFile(buffer=list(BIG.buffer[:80000])), 32, MLPreamble(), 3 * GRANULE))


# 2. listings of images that were damaged after they were written
def damaged(files, **changes):
    def run():
        disk = image_with(files)
        for offset, value in changes.items():
            disk.buffer[int(offset[1:])] = value
        return listing(disk.buffer)
    return run


THREE = [coco("ML", 3000, seed=2), coco("BASIC", 2400, kind=0, extension="bas", seed=3),
         coco("ASCII", 2500, kind=1, data_type=0xFF, extension="txt", seed=4), coco("EMPTY", 0, kind=0, extension="bas")]
START = 32 * GRANULE
case("listing intact", damaged(THREE))
case("listing preamble flag broken", damaged(THREE, **{"o{}".format(START): 0x01}))
case("listing preamble length zero", damaged(THREE, **{"o{}".format(START + 1): 0, "o{}".format(START + 2): 0}))
case("listing preamble length short", damaged(THREE, **{"o{}".format(START + 1): 0, "o{}".format(START + 2): 9}))
case("listing preamble length long", damaged(THREE, **{"o{}".format(START + 1): 0xFF, "o{}".format(START + 2): 0xFF}))
case("listing type changed to basic", damaged(THREE, **{"o{}".format(78848 + 11): 0}))
case("listing type changed to ml", damaged(THREE, **{"o{}".format(78848 + 32 + 11): 2}))
case("listing ascii flag set on ml", damaged(THREE, **{"o{}".format(78848 + 12): 0xFF}))
case("listing ascii flag cleared", damaged(THREE, **{"o{}".format(78848 + 64 + 12): 0}))
case("listing first granule moved", damaged(THREE, **{"o{}".format(78848 + 13): 40}))
case("listing first granule invalid", damaged(THREE, **{"o{}".format(78848 + 13): 200}))
case("listing fat chain cut", damaged(THREE, **{"o{}".format(78592 + 32): 0xC1}))
case("listing fat chain loops", damaged(THREE, **{"o{}".format(78592 + 33): 32}))
case("listing fat chain leaves disk", damaged(THREE, **{"o{}".format(78592 + 32): 0x70}))
case("listing last sector bytes changed", damaged(THREE, **{"o{}".format(78848 + 64 + 14): 1, "o{}".format(78848 + 64 + 15): 0}))
case("listing name not utf8", damaged(THREE, **{"o{}".format(78848): 0xC3}))
for size in (GRANULE - 11, GRANULE - 10, GRANULE - 9, GRANULE - 5, GRANULE - 4, GRANULE - 3, GRANULE, 2 * GRANULE - 10,
             2 * GRANULE - 9):
    for kind, data_type, extension in ALL_KINDS:
        case("listing size {} kind {} {}".format(size, kind, data_type),
             damaged([coco("F", size, kind=kind, data_type=data_type, extension=extension, seed=size)]))


# 3. histories that take an image from empty to full
for name, files in HISTORIES.items():
    case("history " + name, lambda: history(files))
    case("history reversed order " + name, lambda: history(files, fill_order=list(range(67, -1, -1))))
for seed in range(6):
    order = list(range(68))
    random.Random(seed).shuffle(order)
    sizes = [random.Random(seed * 7 + n).choice([0, 5, 300, 2294, 2295, 2304, 5000, 9000, 20000]) for n in range(40)]
    case("history shuffled {}".format(seed), lambda: history(sizes_to_files(sizes, ALL_KINDS), fill_order=order))
case("history short fill order", lambda: history(sizes_to_files([10, 10]), fill_order=[0, 1, 2]))
case("history long fill order", lambda: history(sizes_to_files([10, 3000]), fill_order=list(range(68)) + [0, 1]))
case("history fill order with bad granule", lambda: history(sizes_to_files([10, 3000]), fill_order=[99] + list(range(67))))

# 4. saving through VirtualFile: a save that does not fit leaves the host file as it was
case("save grows until full", lambda: save_history([sizes_to_files([30000] * 2)] * 5))
case("save slots until full", lambda: save_history([sizes_to_files([10] * 30)] * 4))
case("save too big at once", lambda: save_history([sizes_to_files([65535] * 4)]))
case("save without append", lambda: save_history([sizes_to_files([10]), sizes_to_files([20])], append=False))
case("save nothing", lambda: save_history([[], []]))


# 5. the command line tools
def fill_by_cli(size, rounds):
    work = tempfile.mkdtemp(prefix="equiv")
    try:
        steps = [cli("assembler.py", ["p.asm", "--to_dsk", "p.dsk"], files={"p.asm": program(size, nam="FILLER")}, keep=work)]
        for _ in range(rounds):
            steps.append(cli("assembler.py", ["p.asm", "--to_dsk", "p.dsk", "--append"], keep=work))
        steps.append(cli("file_util.py", ["p.dsk", "--list"], keep=work))
        steps.append(cli("file_util.py", ["p.dsk", "--to_cas", "p.cas"], keep=work))
        steps.append(cli("file_util.py", ["p.cas", "--to_dsk", "q.dsk"], keep=work))
        steps.append(cli("file_util.py", ["q.dsk", "--list"], keep=work))
        return steps
    finally:
        shutil.rmtree(work, ignore_errors=True)


case("cli fill with large programs", lambda: fill_by_cli(30000, 6))
case("cli fill with boundary programs", lambda: fill_by_cli(2294, 4))
case("cli fill with boundary programs plus one", lambda: fill_by_cli(2295, 4))
case("cli fill with small programs", lambda: fill_by_cli(5, 8))


# 6. directory slots run out before granules do when slots were taken beforehand
def taken_slots(count, mark=0x41):
    buffer = [0xFF] * DiskConstants.IMAGE_SIZE
    for entry in range(count):
        buffer[DiskConstants.DIR_OFFSET + 32 * entry] = mark
    return buffer


for count in (0, 1, 60, 69, 70, 71, 72):
    case("history {} slots taken".format(count), lambda: history(sizes_to_files([10] * 14), start=taken_slots(count)))
case("history deleted slots are free", lambda: history(sizes_to_files([10] * 5), start=taken_slots(72, mark=0x00)))
case("history short image", lambda: history(sizes_to_files([10, 3000]), start=[0xFF] * 1000))
'''


def run_tree(tree):
    tree = os.path.abspath(tree)
    env = dict(os.environ, PYTHONDONTWRITEBYTECODE="1")
    done = subprocess.run([PYTHON, "-c", DRIVER_HEAD + DRIVER_CASES + DRIVER_TAIL, tree, PYTHON],
                          cwd=tree, env=env, capture_output=True, text=True)
    marker = done.stdout.rfind("@@RESULTS@@")
    if done.returncode != 0 or marker < 0:
        print("driver failed for", tree)
        print(done.stdout[-2000:])
        print(done.stderr[-4000:])
        sys.exit(1)
    return json.loads(done.stdout[marker + len("@@RESULTS@@"):])


def main():
    if len(sys.argv) != 3:
        print(__doc__)
        sys.exit(2)
    first, second = run_tree(sys.argv[1]), run_tree(sys.argv[2])
    bad = 0
    if [label for label, _ in first] != [label for label, _ in second]:
        print("case lists differ")
        bad += 1
    for (label, left), (_, right) in zip(first, second):
        if left != right:
            bad += 1
            print("DIFF in case", label)
            print("  A:", json.dumps(left)[:1500])
            print("  B:", json.dumps(right)[:1500])
    print("{} cases compared, {} differ".format(len(first), bad))
    sys.exit(1 if bad or len(first) < 30 else 0)


if __name__ == "__main__":
    main()
