#!/venv/bin/python
"""
Differential demonstration for the disk container (property C08).

Usage: equiv.py <treeA> <treeB>

Runs the DRIVER below once per tree (subprocess, cwd = tree, tree first on
sys.path), collects a JSON record per case and compares the two records.
Exit status 0 when every case agrees, 1 otherwise.
"""
import json
import os
import subprocess
import sys
import tempfile

DRIVER = r'''
import json, os, random, subprocess, sys, tempfile, hashlib
tree = os.getcwd()
sys.path.insert(0, tree)
from cocoasm.virtualfiles.disk import (DiskFile, DiskConstants, MLPreamble, BasicPreamble, ASCIIPreamble,
                                        Postamble, Preamble, DirectoryEntry)
from cocoasm.virtualfiles.coco_file import CoCoFile
from cocoasm.virtualfiles.virtual_file_container import VirtualFileContainer
from cocoasm.values import NumericValue, NoneValue

results = {}
G = 2304
FAT = 78592
DIR = 78848

def sha(seq):
    return hashlib.sha256(bytes((b & 0xFF) for b in seq)).hexdigest()

def show_value(v):
    try:
        return [type(v).__name__, v.int, v.hex(), v.hex(size=4)]
    except Exception as e:
        return [type(v).__name__, repr(e)]

def show_file(f):
    data = list(f.data)
    return {"name": f.name, "extension": f.extension, "type": show_value(f.type), "data_type": show_value(f.data_type),
            "gaps": show_value(f.gaps), "load": show_value(f.load_addr), "exec": show_value(f.exec_addr),
            "ascii": f.ascii, "ignore_gaps": f.ignore_gaps, "len": len(data), "sha": sha(data),
            "head": data[:12], "tail": data[-12:], "str": str(f)}

def show_image(buf):
    return {"len": len(buf), "sha": sha(buf), "fat": list(buf[FAT:FAT + 256]),
            "dir": [list(buf[DIR + 32 * n:DIR + 32 * n + 32]) for n in range(72) if buf[DIR + 32 * n] not in (0xFF,)][:20],
            "odd": [b for b in buf if not (0 <= b <= 255)][:5]}

def run(label, fn):
    try:
        results[label] = ["ok", fn()]
    except BaseException as e:
        results[label] = ["exc", type(e).__name__, str(e)]

rnd = random.Random(7007)

def pattern(n, kind="random"):
    if kind == "count":
        return [i & 0xFF for i in range(n)]
    if kind == "ff":
        return [0xFF] * n
    if kind == "zero":
        return [0] * n
    return [rnd.randrange(256) for _ in range(n)]

def mk(name, data, ext="BIN", ftype=2, dtype=0, load=0x0E00, exe=0x0E10):
    return CoCoFile(name=name, extension=ext, type=NumericValue(ftype), data_type=NumericValue(dtype),
                    load_addr=NumericValue(load), exec_addr=NumericValue(exe), data=data)

def roundtrip(files, filenames=None, order=None, prefill=None):
    def go():
        d = DiskFile(granule_fill_order=order) if order is not None else DiskFile()
        if prefill:
            prefill(d)
        state = None
        try:
            d.add_files(files)
        except Exception as e:
            state = [type(e).__name__, str(e)]
        buf = list(d.get_buffer())
        r = DiskFile(buffer=list(buf))
        try:
            listed = [show_file(f) for f in (r.list_files(filenames) if filenames is not None else r.list_files())]
        except Exception as e:
            listed = [type(e).__name__, str(e)]
        return {"add_exc": state, "image": show_image(buf), "files": listed}
    return go

# ---- lengths around sector and granule multiples for the three kinds of file
kinds = (("ml", 2, 0, 10), ("bas", 0, 0, 3), ("asc", 0, 0xFF, 0), ("data", 1, 0, 3), ("text-asc", 3, 0xFF, 0))
lengths = set([0, 1, 2, 3, 5, 9, 10, 11, 100])
for base in (256, 512, 2304, 4608, 2304 * 3):
    for delta in (-11, -10, -6, -5, -4, -3, -1, 0, 1, 3, 5, 10):
        lengths.add(base + delta)
lengths = sorted(lengths)
for kind, ftype, dtype, _ in kinds[:3]:
    for length in lengths:
        run("rt/%s/%d" % (kind, length), roundtrip([mk("L%d" % length, pattern(length), ftype=ftype, dtype=dtype,
                                                       load=length & 0xFFFF, exe=0xFFFF - length)]))
for kind, ftype, dtype, _ in kinds[3:]:
    for length in (0, 1, 253, 256, 2301, 2304, 2305, 5000):
        run("rt/%s/%d" % (kind, length), roundtrip([mk("K", pattern(length, "count"), ftype=ftype, dtype=dtype)]))
for length in (20000, 40000, 65535):
    run("rt/big/%d" % length, roundtrip([mk("BIG", pattern(length), load=0x0100, exe=0x0200)]))
    run("rt/big-asc/%d" % length, roundtrip([mk("BIG", pattern(length, "count"), ftype=1, dtype=0xFF)]))
for kind in ("ff", "zero"):
    run("rt/content/%s" % kind, roundtrip([mk("C", pattern(3000, kind)), mk("D", pattern(3000, kind), ftype=0)]))

# names and extensions
for name, ext in (("A", ""), ("lower", "bas"), ("MiXeD12", "Tx"), ("EIGHTCHR", "BIN"), ("NINECHARS", "LONG"),
                  ("TWELVECHARS1", "B"), ("", "BIN"), ("a b", "c d"), ("N\0L", "\0\0\0"), ("\u00e9", "BIN"), ("\u0100", "X")):
    run("name/%r/%r" % (name, ext), roundtrip([mk(name, [1, 2, 3], ext=ext)]))

many = [mk("ONE", pattern(10)), mk("TWO", pattern(2304 * 2 - 10), ext="BAS", ftype=0),
        mk("THREE", pattern(7000, "count"), ext="TXT", ftype=1, dtype=0xFF), mk("FOUR", pattern(2299), load=0xFFFF, exe=0),
        mk("ONE", pattern(2294), ext="DUP")]
run("many/all", roundtrip(many))
run("many/none", roundtrip([]))
run("many/filter", roundtrip(many, ["ONE"]))
run("many/filter-empty", roundtrip(many, []))
run("many/reverse-order", roundtrip(many, order=list(range(67, -1, -1))))
run("many/natural-order", roundtrip(many, order=list(range(68))))
run("many/shuffled-order", roundtrip(many, order=rnd.sample(range(68), 68)))
run("many/short-order", roundtrip(many, order=list(range(40))))
run("many/order-with-bad-granule", roundtrip(many, order=[68] + list(range(68))))
run("many/order-with-neg-granule", roundtrip(many, order=[-1] + list(range(68))))
run("many/long-order-dups", roundtrip(many, order=[5] * 10 + list(range(68))))

def history(files, order=None):
    def go():
        d = DiskFile(granule_fill_order=order) if order is not None else DiskFile()
        out = []
        for f in files:
            try:
                d.add_file(f)
                out.append(sha(d.buffer))
            except Exception as e:
                out.append([type(e).__name__, str(e), sha(d.buffer)])
        return out
    return go
series = [mk("H%d" % n, pattern(length), ftype=ftype, dtype=dtype) for n, (length, ftype, dtype) in enumerate(
    [(0, 2, 0), (2294, 2, 0), (2295, 2, 0), (2301, 0, 0), (2304, 1, 0xFF), (4598, 2, 0), (4599, 2, 0), (9000, 0, 0), (30000, 2, 0), (65535, 2, 0), (65535, 1, 0xFF), (1, 2, 0)])]
run("history/default", history(series))
run("history/reverse", history(series, order=list(range(67, -1, -1))))
run("history/shuffled", history(series, order=rnd.sample(range(68), 68)))
run("history/80-small", history([mk("S%d" % n, [n], ftype=n % 3, dtype=0xFF if n % 5 == 0 else 0) for n in range(80)]))

def fragment(d):
    for g in (32, 34, 30, 36, 29, 0, 67, 33):
        d.buffer[FAT + g] = 0xC1
run("many/prefragmented", roundtrip(many, prefill=fragment))
def nearly_full(d):
    for g in range(68):
        if g not in (3, 60, 17):
            d.buffer[FAT + g] = 0xC1
run("full/fits-3", roundtrip([mk("FIT", pattern(2304 * 3 - 11))], prefill=nearly_full))
run("full/overflow-by-one", roundtrip([mk("OVER", pattern(2304 * 3 - 10))], prefill=nearly_full))
run("full/two-then-fail", roundtrip([mk("A", pattern(3000)), mk("B", pattern(3000))], prefill=nearly_full))
run("full/68-granules", roundtrip([mk("ALL", pattern(65535)), mk("REST", pattern(2304 * 39 - 10 - 1 - 65535 + 2304 * 0))]))
run("full/too-big", roundtrip([mk("A", pattern(65535)), mk("B", pattern(65535)), mk("C", pattern(30000))]))
run("full/72-files", roundtrip([mk("F%d" % n, [n]) for n in range(72)]))
def dir_used(d):
    for n in range(72):
        if n not in (70, 71):
            d.buffer[DIR + 32 * n] = 0x41
run("full/dir-slot-70", roundtrip([mk("S70", [1])], prefill=dir_used, filenames=["S70"]))
def dir_used71(d):
    for n in range(71):
        d.buffer[DIR + 32 * n] = 0x41
run("full/dir-only-71-free", roundtrip([mk("S71", [1])], prefill=dir_used71, filenames=["S71"]))
def dir_deleted(d):
    for n in range(5):
        d.buffer[DIR + 32 * n] = 0x41
    d.buffer[DIR + 32 * 2] = 0x00
run("full/dir-deleted-slot", roundtrip([mk("DEL", [1])], prefill=dir_deleted, filenames=["DEL"]))

run("w/nonevalue-type", roundtrip([CoCoFile(name="N", data=[1])]))
run("w/nonevalue-addr", roundtrip([CoCoFile(name="N", type=NumericValue(2), data_type=NumericValue(0), data=[1])]))
run("w/bytes-data", roundtrip([mk("BYTES", bytes(range(256)) * 10)]))
run("w/bad-data", roundtrip([mk("BAD", [1, "x", 300, -1])]))
run("w/none", roundtrip([None]))

# ---- hand built / fragmented images for the reader
def blank():
    return [0xFF] * DiskConstants.IMAGE_SIZE

def put_entry(img, slot, name, ext, ftype, flag, first, last_bytes):
    p = DIR + 32 * slot
    raw = [ord(c) for c in (name + " " * 8)[:8]] + [ord(c) for c in (ext + "   ")[:3]] + [ftype, flag, first, last_bytes >> 8, last_bytes & 255] + [0] * 16
    img[p:p + 32] = raw

def off(g):
    return G * g + (G * 2 if g > 33 else 0)

def store(img, chain, payload):
    rest = list(payload)
    for n, g in enumerate(chain):
        part, rest = rest[:G], rest[G:]
        img[off(g):off(g) + len(part)] = part
        last = n == len(chain) - 1
        img[FAT + g] = (0xC0 + (len(part) // 256) + 1) if last else chain[n + 1]

def ml(data, load, exe, dlen=None):
    dlen = len(data) if dlen is None else dlen
    return [0, dlen >> 8, dlen & 255, load >> 8, load & 255] + list(data) + [0xFF, 0, 0, exe >> 8, exe & 255]

def bas(data, dlen=None):
    dlen = len(data) if dlen is None else dlen
    return [0xFF, dlen >> 8, dlen & 255] + list(data)

def read(img, filenames=None):
    def go():
        d = DiskFile(buffer=img)
        listed = d.list_files(filenames) if filenames is not None else d.list_files()
        return [show_file(f) for f in listed]
    return go

img = blank()
d1 = pattern(5000); store(img, [45, 0, 34], ml(d1, 0x2000, 0x2010)); put_entry(img, 0, "SCATTER", "BIN", 2, 0, 45, (5010 - 2 * G) % 256)
d2 = pattern(2304 * 2 - 3, "count"); store(img, [33, 5], bas(d2)); put_entry(img, 3, "EXACT", "BAS", 0, 0, 33, 0)
d3 = pattern(300); store(img, [40], d3); put_entry(img, 71, "ASC", "TXT", 1, 0xFF, 40, 300 % 256)
img[DIR + 32 * 1] = 0x00
for dlen in (2298, 2299, 2300, 2303):
    simg = list(img); d4 = pattern(dlen); store(simg, [10, 66], ml(d4, 0x1000, 0x1004)); put_entry(simg, 5, "STRADDLE", "BIN", 2, 0, 10, (dlen + 10) % 256)
    run("image/straddle/%d" % dlen, read(simg))
    simg = list(img); store(simg, [10, 11], ml(d4, 0x1000, 0x1004)); put_entry(simg, 5, "STRADDLE", "BIN", 2, 0, 10, (dlen + 10) % 256)
    run("image/straddle-adjacent/%d" % dlen, read(simg))
run("image/fragmented", read(list(img)))
run("image/fragmented/filter", read(list(img), ["ASC", "EXACT"]))
run("image/fragmented/bytes", read(bytes(img)))
run("image/blank", read(blank()))
run("image/zero", read([0] * DiskConstants.IMAGE_SIZE))
run("image/short", read([0xFF] * (DiskConstants.IMAGE_SIZE - 1)))
run("image/empty", read([]))
run("image/long", read(blank() + [0xFF] * 4608))

img2 = blank(); store(img2, [2], bas(pattern(500), dlen=0)); put_entry(img2, 0, "NOLEN", "BAS", 0, 0, 2, 247)
run("image/basic-zero-length-preamble", read(img2))
img2 = blank(); store(img2, [2, 9, 50], ml(pattern(5500), 1, 2, dlen=0)); put_entry(img2, 0, "NOLEN", "BIN", 2, 0, 2, 100)
run("image/ml-zero-length-preamble", read(img2))
img2 = blank(); store(img2, [2], [1, 2, 3]); put_entry(img2, 0, "BADML", "BIN", 2, 0, 2, 3)
run("image/bad-ml-flag", read(img2))
img2 = blank(); store(img2, [2], [0, 2, 3]); put_entry(img2, 0, "BADBAS", "BAS", 0, 0, 2, 3)
run("image/bad-basic-flag", read(img2))
for pos, val in ((0, 0xFE), (1, 1), (2, 2)):
    img2 = blank(); payload = ml([7] * 20, 1, 2); payload[25 + pos] = val
    store(img2, [2], payload); put_entry(img2, 0, "BADPOST", "BIN", 2, 0, 2, 30)
    run("image/bad-postamble-%d" % pos, read(img2))
img2 = blank(); store(img2, [67], ml(pattern(2299), 1, 2)); put_entry(img2, 0, "ENDDISK", "BIN", 2, 0, 67, 0); img2 = img2[:DiskConstants.IMAGE_SIZE]
run("image/last-granule", read(img2))
img2 = blank(); store(img2, [67], ml(pattern(30), 1, 2, dlen=4000)); put_entry(img2, 0, "TOOLONG", "BIN", 2, 0, 67, 0)
run("image/length-beyond-image", read(img2))
img2 = blank(); store(img2, [1], ml(pattern(30), 1, 2, dlen=4000)); put_entry(img2, 0, "BADCHAIN", "BIN", 2, 0, 1, 0); img2[FAT + 1] = 0xC2
run("image/chain-ends-early", read(img2))
img2 = blank(); put_entry(img2, 0, "BADGRAN", "BIN", 2, 0, 200, 0)
run("image/first-granule-200", read(img2))
img2 = blank(); put_entry(img2, 0, "\xff\xfe", "BIN", 2, 0, 2, 0); img2[DIR] = 0xC3
run("image/bad-utf8-name", read(img2))
img2 = blank(); store(img2, [2], ml([1, 2], 3, 4)); put_entry(img2, 0, "A B C", " x ", 2, 0, 2, 12)
run("image/name-with-spaces", read(img2))

# ---- primitives
def seqread(buf, *a, **kw):
    def go():
        r = DiskFile(buffer=list(buf)).read_sequence(*a, **kw)
        return r if isinstance(r, str) else list(r)
    return go

text = [ord(c) for c in "HELLO WORLD!"]
for label, a, kw in (("all", (0, 12), {}), ("decode", (0, 5), {"decode": True}), ("decode-pos", (6, 5, True), {}), ("zero", (3, 0), {}),
                     ("zero-decode", (3, 0), {"decode": True}), ("too-long", (0, 13), {}), ("past", (8, 5), {}), ("edge", (7, 5), {}),
                     ("neg", (-5, 5), {}), ("neg-short", (-2, 5), {}), ("neg-len", (0, -1), {}), ("beyond", (40, 1), {}), ("beyond0", (40, 0), {})):
    run("read_sequence/%s" % label, seqread(text, *a, **kw))
run("read_sequence/bad-utf8", seqread([0xC3, 0x28], 0, 2, decode=True))

def seqval(buf, pointer, sequence):
    return lambda: DiskFile(buffer=list(buf)).validate_sequence(pointer, sequence)
for label, pointer, sequence in (("match", 0, [72, 69]), ("mismatch", 0, [72, 70]), ("tail", 10, [68, 33]), ("too-long", 11, [33, 1]),
                                 ("empty", 4, []), ("past-empty", 50, []), ("past", 50, [1]), ("neg", -1, [33]), ("tuple", 1, (69, 76, 76)), ("first-differs", 0, [0, 69])):
    run("validate_sequence/%s" % label, seqval(text, pointer, sequence))
run("validate_sequence/big-value", seqval([70000, 1], 0, [1]))

for g in (-1, 0, 1, 32, 33, 34, 35, 66, 67, 68, 100):
    run("seek_granule/%d" % g, lambda g=g: DiskFile.seek_granule(g))
    run("granule_in_use/%d" % g, lambda g=g: [DiskFile().granule_in_use(g), DiskFile(buffer=[0x00] * 161280).granule_in_use(g)])
for n in (-1, 0, 1, 35, 70, 71, 72, 1000):
    def go(n=n):
        d = DiskFile()
        before = d.directory_entry_in_use(n)
        d.buffer[DIR + 32 * n] = 0x00
        zero = d.directory_entry_in_use(n)
        d.buffer[DIR + 32 * n] = 0x41
        return [before, zero, d.directory_entry_in_use(n)]
    run("directory_entry_in_use/%d" % n, go)

def find_dir(used):
    def go():
        d = DiskFile()
        for n in used:
            d.buffer[DIR + 32 * n] = 0x42
        return d.find_empty_directory_entry()
    return go
for label, used in (("none", []), ("first", [0]), ("first3", [0, 1, 2]), ("gap", [0, 2]), ("all-but-70", [n for n in range(72) if n != 70]),
                    ("all-but-71", range(71)), ("all", range(72))):
    run("find_empty_directory_entry/%s" % label, find_dir(used))

def find_gran(used, order=None):
    def go():
        d = DiskFile(granule_fill_order=order)
        for g in used:
            d.buffer[FAT + g] = 0x10
        return d.find_empty_granule()
    return go
for label, used, order in (("none", [], None), ("first", [32], None), ("first4", [32, 33, 34, 35], None), ("all", range(68), None), ("all-but-67", range(67), None),
                           ("order", [0, 1], list(range(68))), ("short-order", [], list(range(67))), ("empty-order", [], []), ("bad-order", [], [99] * 68),
                           ("tuple-order", [67], tuple(range(67, -1, -1)))):
    run("find_empty_granule/%s" % label, find_gran(used, order))

class Amble:
    def __init__(self, length):
        self.length = length
ambles = (("ml", MLPreamble(), Postamble()), ("bas", BasicPreamble(), None), ("asc", ASCIIPreamble(), None), ("odd", Amble(7), Amble(0)), ("odd2", Amble(0), Amble(300)))
for label, pre, post in ambles:
    for length in sorted(set([0, 1, 245, 246, 250, 251, 252, 253, 255, 256, 257, 2293, 2294, 2295, 2298, 2299, 2300, 2301, 2303, 2304, 2305, 4597, 4598, 4599, 4603, 4604, 4605, 4608, 65535])):
        data = [0] * length
        run("calc/%s/%d" % (label, length), lambda data=data, pre=pre, post=post: [
            DiskFile.calculate_granules_needed(data, pre, post), DiskFile.calculate_last_sector_bytes_used(data, pre, post),
            DiskFile.calculate_last_granules_sectors_used(data, pre, post)])
for n in (-513, -512, -257, -256, -255, -1, 0, 1, 255, 256, 257, 511, 512, 2304, 65535, 0.5, 255.9, 256.0):
    run("calculate_sectors_needed/%r" % n, lambda n=n: [DiskFile.calculate_sectors_needed(n), type(DiskFile.calculate_sectors_needed(n)).__name__])
run("calc/none-preamble", lambda: DiskFile.calculate_granules_needed([1], None, None))

fat = [0xFF] * 256
fat[3] = 7; fat[7] = 60; fat[60] = 0xC4; fat[9] = 0xC1; fat[10] = 0xC0; fat[11] = 0xDF; fat[12] = 0xE9; fat[13] = 14; fat[14] = 0xFF
for start, last in ((3, 0), (3, 256), (7, 17), (60, 255), (9, 0), (9, 1), (10, 10), (11, 5), (12, 5), (13, 1), (14, 1), (255, 3), (256, 1)):
    run("calculate_file_length/%d/%d" % (start, last), lambda start=start, last=last: DiskFile.calculate_file_length(start, fat, last))
run("calculate_file_length/bytes-fat", lambda: DiskFile.calculate_file_length(0, bytes([1, 2, 0xC3]), 9))

def readdata(setup, *a, **kw):
    def go():
        d = DiskFile()
        setup(d)
        data, end = d.read_data(*a, **kw)
        return [len(data), sha(data), list(data[:8]), list(data[-8:]), end]
    return go
def fill(d):
    for g in range(68):
        p = off(g)
        for n in range(G):
            d.buffer[p + n] = (g * 3 + n) & 0xFF
chain = [0xFF] * 256
chain[5] = 40; chain[40] = 33; chain[33] = 34; chain[34] = 0xC9; chain[67] = 0xC1
for label, a, kw in (("one", (5, chain, None), {"data_length": 10}), ("zero", (5, chain, None), {}), ("exact", (5, chain, None), {"data_length": G}),
                     ("plus1", (5, chain, None), {"data_length": G + 1}), ("ml-exact", (5, chain, MLPreamble()), {"data_length": G - 5}),
                     ("ml-plus1", (5, chain, MLPreamble()), {"data_length": G - 4}), ("bas-3g", (5, chain, BasicPreamble()), {"data_length": G * 3}),
                     ("asc-4g", (5, chain, ASCIIPreamble()), {"data_length": G * 4}), ("four-plus", (5, chain, None), {"data_length": G * 4 + 1}),
                     ("last", (67, chain, None), {"data_length": G}), ("last-over", (67, chain, None), {"data_length": G + 1}),
                     ("last-ml-over", (67, chain, MLPreamble()), {"data_length": G}), ("free-next", (6, chain, None), {"data_length": G + 1}),
                     ("positional", (5, chain, BasicPreamble(), 50), {})):
    run("read_data/%s" % label, readdata(fill, *a, **kw))

def writer(fn):
    def go():
        d = DiskFile()
        ret, exc = None, None
        try:
            ret = fn(d)
        except Exception as e:
            exc = [type(e).__name__, str(e)]
        return {"ret": ret, "exc": exc, "image": show_image(d.buffer), "sha": sha(d.buffer)}
    return go

for label, slot, f, first, last in (("basic", 0, mk("hello", [], ext="bas", ftype=0, dtype=0xFF), 32, 0x1234), ("last", 71, mk("LONGNAMEHERE", [], ext="EXTN"), 67, 0),
                                    ("nul", 3, mk("A\0B", [], ext="\0"), 1, 256), ("empty", 4, mk("", [], ext=""), 0, 65535), ("too-big", 5, mk("X", []), 2, 65536),
                                    ("slot-72", 72, mk("X", []), 2, 1), ("slot-neg", -1, mk("X", []), 2, 1), ("far-slot", 5000, mk("FAR", []), 2, 1),
                                    ("nonevalue", 6, CoCoFile(name="NV"), 2, 1), ("unicode", 7, mk("\u00e9\u0100", []), 2, 1), ("none-name", 8, mk(None, []), 2, 1)):
    run("write_dir_entry/%s" % label, writer(lambda d, slot=slot, f=f, first=first, last=last: d.write_dir_entry(slot, f, first, last)))
for label, pointer, data in (("list", 10, [1, 2, 3]), ("empty", 10, []), ("bytes", 0, b"abc"), ("tuple", 161277, (1, 2, 3)), ("overflow", 161278, [1, 2, 3]),
                             ("neg", -3, [9, 9, 9]), ("generator", 5, (x for x in [4, 5])), ("range", 5, range(300))):
    run("write_bytes_to_buffer/%s" % label, writer(lambda d, pointer=pointer, data=data: d.write_bytes_to_buffer(pointer, data)))
for label, grans, sectors in (("empty", [], 3), ("one", [5], 1), ("two", [5, 9], 9), ("five", [67, 0, 33, 34, 1], 4), ("dup", [3, 3], 2), ("tuple", (1, 2, 3), 0),
                              ("big", [70, 71], 5), ("too-far", [100000], 1), ("self", [4, 4, 4], 7)):
    run("write_to_fat/%s" % label, writer(lambda d, grans=grans, sectors=sectors: d.write_to_fat(grans, sectors)))
def ml_pair(n, load=0x1234, exe=0xABCD):
    pre = MLPreamble(); pre.data_length = NumericValue(n); pre.load_addr = NumericValue(load)
    post = Postamble(); post.exec_addr = NumericValue(exe)
    return pre, post
def bas_pre(n):
    pre = BasicPreamble(); pre.data_length = NumericValue(n)
    return pre
for label, n, grans, amb in (("ml-small", 10, [3], "ml"), ("ml-exact", G - 5, [3, 9], "ml"), ("ml-minus1", G - 6, [3], "ml"), ("ml-straddle", G - 3, [33, 34], "ml"),
                             ("ml-3g", G * 2 + 7, [67, 0, 5], "ml"), ("bas-exact", G - 3, [3, 4], "bas"), ("bas-short-chain", G * 2, [3], "bas"),
                             ("asc", 100, [8], "asc"), ("asc-exact", G, [8, 2], "asc"), ("no-granules", 5, [], "ml"), ("extra-granules", 5, [1, 2, 3], "ml"),
                             ("none-preamble", 20, [6], "none"), ("ml-end-of-disk", G - 5, [67], "ml"), ("ml-exact-no-next", G - 5, [3], "ml")):
    def go(d, n=n, grans=grans, amb=amb):
        if amb == "ml":
            pre, post = ml_pair(n)
        elif amb == "bas":
            pre, post = bas_pre(n), None
        elif amb == "asc":
            pre, post = ASCIIPreamble(), None
        else:
            pre, post = None, None
        return d.write_to_granules(pattern(n, "count"), grans, pre, post)
    run("write_to_granules/%s" % label, writer(go))
run("write_to_granules/not-first", writer(lambda d: d.write_to_granules([1, 2, 3], [4], bas_pre(3), ml_pair(3)[1], first_granule=False)))
run("write_to_granules/positional-flag", writer(lambda d: d.write_to_granules([1, 2, 3], [4], bas_pre(3), None, False)))
run("add_file/one", writer(lambda d: d.add_file(mk("ADD", pattern(5000, "count")))))

def amble_io(make, method, buf, pointer):
    def go():
        a = make()
        b = list(buf)
        ret, exc = None, None
        try:
            ret = getattr(a, method)(b, pointer)
        except Exception as e:
            exc = [type(e).__name__, str(e)]
        return {"ret": ret, "exc": exc, "buf": b, "length": a.length, "data_length": show_value(getattr(a, "data_length", NoneValue())),
                "load": show_value(getattr(a, "load_addr", NoneValue())), "exec": show_value(getattr(a, "exec_addr", NoneValue())),
                "is_ml": a.is_ml() if hasattr(a, "is_ml") else None, "get_data_length": a.get_data_length() if ret is not None and method == "read" and hasattr(a, "get_data_length") else None}
    return go
def full_ml():
    return ml_pair(0x0102, 0x0304, 0x0506)[0]
def full_post():
    return ml_pair(1, 2, 0x0A0B)[1]
def full_bas():
    return bas_pre(0x0708)
bufs = (("ml", [0, 1, 2, 3, 4, 9, 9]), ("bas", [0xFF, 1, 2, 3, 4, 9, 9]), ("post", [9, 0xFF, 0, 0, 0x12, 0x34, 9]), ("short", [0, 1]), ("empty", []),
        ("badpost1", [0xFF, 1, 0, 0, 0]), ("badpost2", [0xFF, 0, 5, 0, 0]), ("ones", [1] * 8))
for mlabel, make in (("ml", full_ml), ("bas", full_bas), ("asc", ASCIIPreamble), ("post", full_post), ("ml-blank", MLPreamble), ("post-blank", Postamble)):
    for blabel, buf in bufs:
        for pointer in (0, 1, 3, -5):
            for method in ("read", "write"):
                run("amble/%s/%s/%s/%d" % (mlabel, method, blabel, pointer), amble_io(make, method, buf, pointer))

def container(buf, order):
    def go():
        d = DiskFile(buffer=buf, granule_fill_order=order)
        return {"len": len(d.buffer), "same": d.buffer is buf, "orig_len": len(d.original_buffer), "order": list(d.granule_fill_order),
                "default_order": d.granule_fill_order is DiskConstants.GRANULE_FILL_ORDER}
    return go
for label, buf, order in (("default", None, None), ("empty-list", [], None), ("list", [1, 2], [3, 2, 1]), ("empty-order", None, []), ("bytes", b"xy", None)):
    run("container/%s" % label, container(buf, order))
run("constants", lambda: {k: v for k, v in vars(DiskConstants).items() if k.isupper()})
run("directory-entry", lambda: list(DirectoryEntry()))

def word_at(buf, pointer):
    return lambda: show_value(VirtualFileContainer(buffer=buf).read_word(pointer))
for label, buf, pointer in (("zero", [0, 0], 0), ("ffff", [0xFF, 0xFF], 0), ("1234", [0x12, 0x34], 0), ("off1", [1, 2, 3], 1), ("last", [1, 2, 3], 2),
                            ("past", [1, 2, 3], 3), ("one-byte", [1], 0), ("empty", [], 0), ("neg2", [1, 2, 3], -2), ("neg1", [1, 2, 3], -1), ("bytes", bytes([0xAB, 0xCD]), 0)):
    run("word_at/%s" % label, word_at(buf, pointer))

# ---- command line front end
def cli(argv, workdir):
    proc = subprocess.run([sys.executable, os.path.join(tree, "file_util.py")] + argv, cwd=workdir,
                          stdout=subprocess.PIPE, stderr=subprocess.PIPE, universal_newlines=True)
    produced = {}
    for fn in sorted(os.listdir(workdir)):
        with open(os.path.join(workdir, fn), "rb") as fh:
            produced[fn] = hashlib.sha256(fh.read()).hexdigest()
    return {"rc": proc.returncode, "out": proc.stdout, "err_tail": proc.stderr.replace(tree, "<tree>").strip().splitlines()[-1:], "files": produced}

with tempfile.TemporaryDirectory() as wd:
    d = DiskFile(); d.add_files(many)
    open(os.path.join(wd, "many.dsk"), "wb").write(bytearray(d.get_buffer()))
    d = DiskFile(); d.add_files([mk("SINGLE", pattern(4700, "count"), load=0x3F00, exe=0x3F10)])
    open(os.path.join(wd, "single.dsk"), "wb").write(bytearray(d.get_buffer()))
    open(os.path.join(wd, "frag.dsk"), "wb").write(bytearray(img))
    open(os.path.join(wd, "blank.dsk"), "wb").write(bytearray(blank()))
    open(os.path.join(wd, "short.dsk"), "wb").write(bytearray([0xFF] * 1000))
    bad = blank(); store(bad, [2], [1, 2, 3]); put_entry(bad, 0, "BADML", "BIN", 2, 0, 2, 3)
    open(os.path.join(wd, "bad.dsk"), "wb").write(bytearray(bad))
    for label, argv in (("list-many", ["many.dsk", "--list"]), ("list-single", ["single.dsk", "--list"]), ("list-frag", ["frag.dsk", "--list"]),
                        ("list-blank", ["blank.dsk", "--list"]), ("list-short", ["short.dsk", "--list"]), ("list-bad", ["bad.dsk", "--list"]),
                        ("to-dsk", ["many.dsk", "--to_dsk", "copy.dsk"]), ("to-dsk-exists", ["frag.dsk", "--to_dsk", "copy.dsk"]),
                        ("to-dsk-append", ["frag.dsk", "--to_dsk", "copy.dsk", "--append"]), ("list-copy", ["copy.dsk", "--list"]),
                        ("to-dsk-files", ["frag.dsk", "--to_dsk", "some.dsk", "--files", "asc", "SCATTER"]), ("list-some", ["some.dsk", "--list"]),
                        ("to-cas", ["frag.dsk", "--to_cas", "frag.cas"]), ("list-cas", ["frag.cas", "--list"]), ("cas-to-dsk", ["frag.cas", "--to_dsk", "back.dsk"]),
                        ("list-back", ["back.dsk", "--list"]), ("to-bin", ["single.dsk", "--to_bin", "single.bin"]), ("to-bin-many", ["many.dsk", "--to_bin", "many.bin"])):
        run("cli/%s" % label, lambda argv=argv: cli(argv, wd))

print(json.dumps(results, sort_keys=True, default=repr))
'''


def run_tree(tree):
    tree = os.path.abspath(tree)
    with tempfile.NamedTemporaryFile("w", suffix="_driver.py", delete=False) as handle:
        handle.write(DRIVER)
        driver_path = handle.name
    try:
        env = dict(os.environ, PYTHONPATH=tree, PYTHONDONTWRITEBYTECODE="1", PYTHONHASHSEED="0")
        proc = subprocess.run([sys.executable, driver_path], cwd=tree, env=env,
                              stdout=subprocess.PIPE, stderr=subprocess.PIPE, universal_newlines=True)
    finally:
        os.unlink(driver_path)
    if proc.returncode != 0:
        print("driver failed in %s:\n%s" % (tree, proc.stderr))
        sys.exit(1)
    return json.loads(proc.stdout)


def main():
    if len(sys.argv) != 3:
        print("usage: equiv.py <treeA> <treeB>")
        return 1
    first = run_tree(sys.argv[1])
    second = run_tree(sys.argv[2])
    differing = 0
    for label in sorted(set(first) | set(second)):
        if first.get(label) != second.get(label):
            differing += 1
            print("DIFFERENT %s\n  A: %s\n  B: %s" % (label, str(first.get(label))[:400], str(second.get(label))[:400]))
    raising = sum(1 for value in first.values() if value[0] == "exc")
    print("%d cases compared (%d raise in tree A), %d differ" % (len(first), raising, differing))
    return 1 if differing else 0


if __name__ == "__main__":
    sys.exit(main())
