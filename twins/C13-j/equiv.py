#!/usr/bin/env python
"""
Differential check for refactoring C13/j: INCLUDE expansion - Program.process_mnemonics() as list(expand_includes()) with read_include().

usage: equiv.py <treeA> <treeB>   (exit 0 = every observable result agrees)
Each tree is exercised in its own subprocess with the tree first on sys.path.
"""
import sys, os, json, subprocess, tempfile

PRELUDE = r'''
# ---- driver prelude: runs inside ONE tree (argv[1]) with a scratch dir (argv[2]) ----
import sys, os, io, json, hashlib, contextlib, importlib, shutil, traceback

TREE = os.path.realpath(sys.argv[1])
SCRATCH = os.path.realpath(sys.argv[2])
sys.path.insert(0, TREE)
os.chdir(TREE)

import cocoasm
assert os.path.realpath(cocoasm.__file__).startswith(TREE + os.sep), cocoasm.__file__

RESULTS = []
_case_no = [0]


def norm(value):
    """Turns any result into something JSON can carry, without losing what is observable."""
    if isinstance(value, (bytes, bytearray)):
        return {"bytes": bytes(value).hex()}
    if isinstance(value, (list, tuple)):
        if len(value) > 64 and all(isinstance(x, int) and not isinstance(x, bool) for x in value):
            blob = ",".join(str(x) for x in value).encode()
            return {"ints": len(value), "sha1": hashlib.sha1(blob).hexdigest()}
        return [norm(x) for x in value]
    if isinstance(value, dict):
        return {str(k): norm(v) for k, v in value.items()}
    if value is None or isinstance(value, (bool, int, float, str)):
        return value
    if hasattr(value, "_asdict"):
        return {"nt": type(value).__name__, "fields": norm(value._asdict())}
    if hasattr(value, "hex") and hasattr(value, "hex_len"):
        try:
            return {"value": type(value).__name__, "hex": value.hex(), "int": getattr(value, "int", None)}
        except Exception as error:      # noqa
            return {"value": type(value).__name__, "hex_error": repr(error)}
    return {"repr": type(value).__name__ + ":" + str(value)}


def snapshot(directory):
    files = {}
    for root, _, names in os.walk(directory):
        for name in sorted(names):
            path = os.path.join(root, name)
            with open(path, "rb") as handle:
                blob = handle.read()
            files[os.path.relpath(path, directory)] = [len(blob), hashlib.sha1(blob).hexdigest()]
    return files


def case(name, fn, workdir=None):
    """Runs fn(), records value / exception / stdout / stderr / files left in workdir."""
    out, err = io.StringIO(), io.StringIO()
    record = {"name": name}
    old_cwd = os.getcwd()
    if workdir:
        os.chdir(workdir)
    try:
        with contextlib.redirect_stdout(out), contextlib.redirect_stderr(err):
            try:
                record["value"] = norm(fn())
            except SystemExit as error:
                record["exit"] = norm(error.code)
            except BaseException as error:      # noqa
                record["exc"] = [type(error).__name__, str(error)]
    finally:
        os.chdir(old_cwd)
    record["stdout"] = out.getvalue()
    record["stderr"] = err.getvalue()
    if workdir:
        record["files"] = snapshot(workdir)
    RESULTS.append(record)
    return record


def fresh_dir(files=None):
    _case_no[0] += 1
    path = os.path.join(SCRATCH, "c%04d" % _case_no[0])
    os.makedirs(path)
    for name, content in (files or {}).items():
        mode = "wb" if isinstance(content, (bytes, bytearray)) else "w"
        os.makedirs(os.path.dirname(os.path.join(path, name)), exist_ok=True)
        with open(os.path.join(path, name), mode) as handle:
            handle.write(content)
    return path


def cli(module_name, argv):
    """Runs a command-line front end the way `python module.py argv...` would."""
    def run():
        module = importlib.import_module(module_name)
        assert os.path.realpath(module.__file__).startswith(TREE + os.sep)
        old = sys.argv
        sys.argv = [module_name + ".py"] + list(argv)
        try:
            module.main(module.parse_arguments())
        finally:
            sys.argv = old
    return run


def cli_case(name, module_name, argv, files=None, workdir=None, then=()):
    """One CLI run in a fresh (or given) directory, optionally followed by more runs in the same directory."""
    workdir = workdir or fresh_dir(files)
    case(name, cli(module_name, argv), workdir)
    for index, (module2, argv2) in enumerate(then):
        case("%s/then%d" % (name, index), cli(module2, argv2), workdir)
    return workdir


def finish():
    json.dump(RESULTS, sys.stdout)
    sys.stdout.write("\n")
# ---- end of prelude ----
'''

CASES = r'''# ---- shared C12 helpers: assemble statements and report everything observable ----
import random
from cocoasm.program import Program
from cocoasm.statement import Statement
from cocoasm.exceptions import TranslationError, ParseError


def describe_error(error):
    info = [type(error).__name__, str(error)]
    if isinstance(error, (TranslationError, ParseError)):
        info.append(str(error.value))
        try:
            info.append(str(error.statement))
        except Exception as inner:      # noqa
            info.append("unprintable statement: " + type(inner).__name__ + ": " + str(inner))
    return info


def assemble(lines):
    """Everything a user can see of one assembly: bytes, listing, symbols, origin, name - or the diagnostic."""
    program = Program()
    try:
        program.process(lines)
    except BaseException as error:      # noqa
        return {"error": describe_error(error)}
    result = {}
    for key, getter in (("bytes", program.get_binary_array), ("listing", program.get_statements),
                        ("symbols", program.get_symbol_table)):
        try:
            result[key] = getter()
        except BaseException as error:      # noqa
            result[key] = {"error": describe_error(error)}
    result["origin"] = norm(program.origin)
    result["name"] = program.name
    result["sizes"] = [[s.code_pkg.size, s.code_pkg.max_size] for s in program.statements]
    return result


def frame(mnemonic, operand, label=""):
    """The statement under test in the middle of a small program with symbols before, after and far away."""
    return [
        "        ORG $1000\n",
        "BACK    NOP\n",
        "K5      EQU 5\n",
        "K0      EQU 0\n",
        "K200    EQU 200\n",
        "K300    EQU 300\n",
        "KADDR   EQU $2000\n",
        "%-7s %s %s\n" % (label, mnemonic, operand),
        "FWD     NOP\n",
        "        RMB 200\n",
        "FAR     NOP\n",
    ]


def statement_cases(prefix, mnemonics, operands, label=""):
    for mnemonic in mnemonics:
        for operand in operands:
            lines = frame(mnemonic, operand, label)
            case("%s %s %s" % (prefix, mnemonic, operand), lambda lines=lines: assemble(lines))


EXPRESSIONS = [
    "1+1", "K5+1", "1+K5", "K5+K5", "K5-1", "1-K5", "K5-K300", "K300-K5", "K5*K5", "K300*K300", "K300*K200", "K5/2", "K300/K5",
    "K5/K0", "4/0", "0/4", "K0*K0", "K0-K0", "K200+56", "K200+55", "K200-73", "K200-72", "KADDR+1", "KADDR-1", "KADDR*2", "KADDR*40",
    "KADDR/2", "KADDR/3", "$10+$10", "$FF+1", "$FF+$1", "$1000+$1", "$FFFF+1", "$FFFF+0", "65535+1", "65535-65535", "0-32768", "0-32769",
    "$1+K5", "K5+$1000", "255+1", "254+1", "7/2", "1/3", "3*0", "9-9",
    "FWD+1", "FWD-1", "1+FWD", "BACK+2", "BACK-1", "BACK-4097", "FAR*2", "FAR*20", "FAR/2", "FWD/K0", "FWD/0", "0/FWD", "FWD+FWD", "FWD-BACK",
    "FWD+K5", "K5+FWD", "FWD*K5", "FWD-K300", "K300-FWD", "2*FWD", "2/FWD", "FWD+NOSUCH", "NOSUCH+1", "1+NOSUCH", "NOSUCH-NOSUCH",
    "FWD+$10", "$10+FWD", "FWD+%00000001", "FWD+'A", "'A+1", "1+'A", "%00000001+1", "%0000000100000000+1", "1+", "+1", "1++1", "1+-1", "K5+-1",
    "K5+1+1", "K5%2", "K5&2", "FWD+1,X", "FWD+1,PCR", "K5+1,X", "K5+1,PCR", "K300+1,Y", "K5-K300,U", "K300*K300,S",
]

PLAIN = [
    "", "0", "1", "15", "16", "17", "127", "128", "129", "255", "256", "257", "32767", "32768", "65535", "65536", "70000",
    "-1", "-15", "-16", "-17", "-127", "-128", "-129", "-255", "-256", "-32768", "-32769", "$0", "$F", "$10", "$FF", "$100", "$0FF", "$00FF",
    "$FFFF", "$10000", "$G", "%1", "%00000001", "%11111111", "%0000000011111111", "%1111111111111111", "%111", "'A", "'", "''", "'AB",
    "K5", "K0", "K200", "K300", "KADDR", "FWD", "BACK", "FAR", "NOSUCH", "A", "B", "D", "X", "PC", "PCR", "@", "@@", "K5K", "5K",
]

PREFIXED = [p + v for p in ("#", "<", ">") for v in
            ("0", "1", "127", "128", "255", "256", "65535", "65536", "-1", "-128", "-129", "$10", "$FF", "$100", "$1234", "$12345",
             "%00000001", "%0000000100000000", "'A", "K5", "K300", "KADDR", "FWD", "BACK", "NOSUCH", "K5+1", "FWD+1", "K300-K5", "", "#1", "<1")]

INDEXED = [
    ",X", ",Y", ",U", ",S", ",PC", ",PCR", ",Z", ",", ",X+", ",X++", ",-X", ",--X", ",Y+", ",--S", ",X+++", ",---X", ",-X+", ",+X", ",XY", ",x",
    "0,X", "1,X", "15,X", "16,X", "17,Y", "127,U", "128,S", "129,X", "255,X", "256,X", "32767,X", "32768,X", "65535,X", "65536,X",
    "-1,X", "-15,X", "-16,X", "-17,X", "-127,Y", "-128,U", "-129,S", "-256,X", "-32768,X", "-32769,X", "$0,X", "$F,X", "$10,X", "$7F,X", "$80,X",
    "$FF,X", "$100,X", "$0010,X", "$FFFF,X", "%00000001,X", "%0000000100000000,X", "'A,X", "A,X", "B,Y", "D,U", "A,S", "E,X", "X,X", "AB,X", "a,X",
    "K5,X", "K0,X", "K200,Y", "K300,U", "KADDR,S", "FWD,X", "BACK,Y", "FAR,U", "NOSUCH,X", "K5,X+", "1,X+", "1,-X", "0,X+", "0,--X", "K0,X++", "FWD,X+",
    "0,PCR", "1,PCR", "127,PCR", "128,PCR", "-1,PCR", "-128,PCR", "-129,PCR", "$10,PCR", "$1000,PCR", "K5,PCR", "K300,PCR", "KADDR,PCR", "FWD,PCR",
    "BACK,PCR", "FAR,PCR", "NOSUCH,PCR", "FWD+1,PCR", "BACK-1,PCR", "FAR+K5,PCR", "A,PCR", ",PCR+", "5,PC", "5,Z", "1,PC", "FWD,PC", "5,", "5,,X", "1,2,X",
    "<5,X", ">5,X", "#5,X", "<$10,X", ">$10,X", "<FWD,X", ">K5,PCR", "<K5,PCR", ">FWD,PCR",
]

INDIRECT = ["[" + text + "]" for text in INDEXED if text not in (",",)] + [
    "[]", "[", "]", "[[,X]]", "[,X", ",X]", "[0]", "[1]", "[$12]", "[$1234]", "[$12345]", "[255]", "[256]", "[65535]", "[65536]", "[-1]", "[K5]", "[K300]",
    "[KADDR]", "[FWD]", "[BACK]", "[NOSUCH]", "[FWD+1]", "[K5+1]", "[K300*K300]", "[#1]", "[<1]", "[>1]", "[A]", "[X]", "['A]", "[%00000001]",
]

REGISTER_LISTS = [
    "A", "B", "D", "X", "Y", "U", "S", "PC", "CC", "DP", "A,B", "A,B,X,Y", "CC,A,B,DP,X,Y,U,PC", "CC,A,B,DP,X,Y,S,PC", "D,A", "A,A", "X,X", "Z", "A,Z",
    "A,", ",A", "a", "A, B", "PCR", "A,B,C", "D,X", "X,D", "A,X", "X,A", "A,CC", "CC,DP", "DP,A", "PC,S", "S,PC", "U,S", "Y,U", "D,D", "B,B", "PC,PC",
    "A,D", "D,B", "CC,X", "X,CC", "A,B,X", "X", "1", "#1", "$10", "", "A;B", "A+B", "AA", "DPP",
]


def random_operands(seed, count):
    rng = random.Random(seed)
    alphabet = "0123456789$%#<>[],+-*/'ABDXYUSPCRK@ FWN"
    atoms = ["$", "%", "#", "<", ">", "[", "]", ",", "+", "-", "*", "/", "X", "Y", "U", "S", "PCR", "PC", "A", "B", "D", "K5", "K300", "FWD",
             "BACK", "KADDR", "0", "1", "16", "127", "128", "255", "256", "$10", "$1000", "++", "--", "'A", "%00000001"]
    out = []
    for _ in range(count):
        if rng.random() < 0.5:
            out.append("".join(rng.choice(atoms) for _ in range(rng.randint(1, 5))))
        else:
            out.append("".join(rng.choice(alphabet) for _ in range(rng.randint(1, 7))).strip())
    return [text for text in out if " " not in text and ";" not in text]
# ---- end of shared C12 helpers ----
# ---- shared C13 helpers: watchdog and file-based assembly ----
import signal


class Watchdog(Exception):
    pass


def _alarm(signum, frame):
    raise Watchdog("timed out")


signal.signal(signal.SIGALRM, _alarm)


def guarded(fn, seconds=10):
    """Runs fn under a watchdog so that a non-terminating assembly shows up as a result, not as a hang."""
    def run():
        signal.setitimer(signal.ITIMER_REAL, seconds)
        try:
            return fn()
        except Watchdog:
            return {"timeout": True}
        finally:
            signal.setitimer(signal.ITIMER_REAL, 0)
    return run


def assemble_file(name):
    def run():
        with open(name) as handle:
            lines = handle.readlines()
        return assemble(lines)
    return guarded(run)


def project_case(label, files, main="main.asm", cli_args=("--print", "--symbols", "--to_bin", "out.bin", "--to_cas", "out.cas", "--to_dsk", "out.dsk")):
    """Library run and command line run of the same project directory."""
    work = fresh_dir(files)
    case(label + " [lib]", assemble_file(main), work)
    case(label + " [cli]", guarded(cli("assembler", [main] + list(cli_args))), work)
# ---- end of shared C13 helpers ----
# ---- cases for C13/j: Program.process_mnemonics() over the expand_includes() generator and read_include() ----
BODY = "        LDA #1\n        STA $400\n"


def inc(name, label=""):
    return "%-7s INCLUDE %s\n" % (label, name)


PROJECTS = {
    "no-include": {"main.asm": "        NAM plain\n        ORG $1000\nSTART   LDA #1\n        RTS\n"},
    "one-include": {"main.asm": "        NAM one\n        ORG $1000\n" + inc("a.asm") + "        JMP SUBA\n", "a.asm": "SUBA    NOP\n        RTS\n"},
    "include-first-line": {"main.asm": inc("a.asm") + "        JMP SUBA\n", "a.asm": "SUBA    NOP\n"},
    "include-last-line": {"main.asm": "        JMP SUBA\n" + inc("a.asm"), "a.asm": "SUBA    NOP\n"},
    "include-only": {"main.asm": inc("a.asm"), "a.asm": "SUBA    NOP\n"},
    "include-empty-file": {"main.asm": "        NOP\n" + inc("a.asm") + "        RTS\n", "a.asm": ""},
    "include-comments-only": {"main.asm": "        NOP\n" + inc("a.asm") + "        RTS\n", "a.asm": "; nothing here\n\n   ; really\n"},
    "include-twice": {"main.asm": inc("a.asm") + inc("a.asm"), "a.asm": "        NOP\n"},
    "include-twice-label-clash": {"main.asm": inc("a.asm") + inc("a.asm"), "a.asm": "DUP     NOP\n"},
    "diamond": {"main.asm": inc("l.asm") + inc("r.asm"), "l.asm": inc("leaf.asm") + "        CLRA\n", "r.asm": inc("leaf.asm") + "        CLRB\n", "leaf.asm": "        NOP\n"},
    "nested-3": {"main.asm": "        ORG $2000\n" + inc("a.asm") + "ENDM    RTS\n", "a.asm": "A1      NOP\n" + inc("b.asm") + "A2      NOP\n",
                 "b.asm": "B1      NOP\n" + inc("c.asm") + "B2      BRA A1\n", "c.asm": "C1      LDX #ENDM\n        LEAX A1,PCR\n"},
    "self-include": {"main.asm": "        NOP\n" + inc("main.asm")},
    "self-include-via-a": {"main.asm": inc("a.asm"), "a.asm": "        NOP\n" + inc("a.asm")},
    "cycle-2": {"main.asm": inc("a.asm"), "a.asm": "        NOP\n" + inc("b.asm"), "b.asm": "        CLRA\n" + inc("a.asm")},
    "cycle-3": {"main.asm": inc("a.asm"), "a.asm": inc("b.asm"), "b.asm": inc("c.asm"), "c.asm": "        NOP\n" + inc("a.asm")},
    "cycle-back-to-main": {"main.asm": "        NOP\n" + inc("a.asm"), "a.asm": inc("main.asm")},
    "cycle-other-spelling": {"main.asm": inc("a.asm"), "a.asm": "        NOP\n" + inc("./a.asm")},
    "missing": {"main.asm": "        NOP\n" + inc("nothere.asm") + "        RTS\n"},
    "missing-nested": {"main.asm": inc("a.asm"), "a.asm": "        NOP\n" + inc("nothere.asm")},
    "missing-after-error-free": {"main.asm": inc("a.asm") + inc("nothere.asm"), "a.asm": "        NOP\n"},
    "include-directory": {"main.asm": inc("sub"), "sub/x.asm": "        NOP\n"},
    "include-subdir": {"main.asm": inc("sub/x.asm") + "        JMP XX\n", "sub/x.asm": "XX      NOP\n" + inc("sub/y.asm"), "sub/y.asm": "YY      RTS\n"},
    "include-subdir-relative-miss": {"main.asm": inc("sub/x.asm"), "sub/x.asm": "XX      NOP\n" + inc("y.asm"), "sub/y.asm": "YY      RTS\n"},
    "include-no-operand": {"main.asm": "        NOP\n        INCLUDE\n        RTS\n"},
    "include-no-operand-comment": {"main.asm": "        NOP\n        INCLUDE ; nothing\n        RTS\n"},
    "include-with-label": {"main.asm": inc("a.asm", "HERE") + "        JMP HERE\n", "a.asm": "        NOP\n"},
    "include-with-comment": {"main.asm": "        INCLUDE a.asm ; the library\n", "a.asm": "        NOP\n"},
    "include-lowercase": {"main.asm": "        include a.asm\n", "a.asm": "        NOP\n"},
    "include-bad-name": {"main.asm": "        INCLUDE a b.asm\n", "a": "        NOP\n"},
    "include-quoted": {"main.asm": "        INCLUDE \"a.asm\"\n", "a.asm": "        NOP\n"},
    "parse-error-in-include": {"main.asm": "        NOP\n" + inc("a.asm") + "        FROB\n", "a.asm": "        NOP\n        BADMNEM 1\n"},
    "parse-error-before-include": {"main.asm": "        FROB 1\n" + inc("nothere.asm")},
    "parse-error-nested-before-cycle": {"main.asm": inc("a.asm"), "a.asm": inc("b.asm") + inc("a.asm"), "b.asm": "        LDA #\n        FROB 2\n"},
    "cycle-before-parse-error": {"main.asm": inc("a.asm"), "a.asm": inc("a.asm") + "        FROB 2\n"},
    "missing-before-cycle": {"main.asm": inc("a.asm"), "a.asm": inc("nothere.asm") + inc("a.asm")},
    "cycle-before-missing": {"main.asm": inc("a.asm"), "a.asm": inc("a.asm") + inc("nothere.asm")},
    "translate-error-in-include": {"main.asm": inc("a.asm"), "a.asm": "        LDA NOSUCH\n"},
    "redefined-across-include": {"main.asm": "DUP     NOP\n" + inc("a.asm"), "a.asm": "DUP     NOP\n"},
    "binary-include": {"main.asm": inc("blob.bin"), "blob.bin": b"\xff\xfe\x00\x01"},
    "include-unterminated-string": {"main.asm": inc("a.asm"), "a.asm": "        FCC \"OPEN\n"},
    "org-name-in-include": {"main.asm": "        NAM outer\n        ORG $100\n" + inc("a.asm") + "        NOP\n", "a.asm": "        NAM inner\n        ORG $300\n        NOP\n"},
    "end-in-include": {"main.asm": inc("a.asm") + "        NOP\n", "a.asm": "        NOP\n        END\n"},
    "pcr-across-include": {"main.asm": "        ORG $1000\nTOP     LEAX FAR,PCR\n" + inc("gap.asm") + "FAR     LEAY TOP,PCR\n", "gap.asm": "        RMB 120\n" + inc("gap2.asm"), "gap2.asm": "        RMB 5\n"},
}
for depth in [1, 2, 5, 20, 60]:
    files = {"main.asm": "        ORG $1000\n" + inc("f0.asm") + "LAST    RTS\n"}
    for level in range(depth):
        tail = inc("f%d.asm" % (level + 1)) if level + 1 < depth else "        NOP\n"
        files["f%d.asm" % level] = "L%d      LDA #%d\n" % (level, level) + tail + "E%d      STA $%X\n" % (level, 0x400 + level)
    PROJECTS["chain-%d" % depth] = files
    looped = dict(files)
    looped["f%d.asm" % (depth - 1)] = "        NOP\n" + inc("f0.asm")
    PROJECTS["chain-%d-closed" % depth] = looped
for width in [3, 12]:
    PROJECTS["fan-%d" % width] = dict(
        [("main.asm", "".join(inc("p%d.asm" % i) for i in range(width)) + "        RTS\n")] +
        [("p%d.asm" % i, "P%d      LDB #%d\n" % (i, i) + (inc("p%d.asm" % (i + 1)) if i % 3 == 0 and i + 1 < width else "")) for i in range(width)])

for name, files in PROJECTS.items():
    project_case("project " + name, files)


# the class method on its own, including the 'including' parameter
def expand(files, main_lines, including=None):
    def run():
        statements = Program.parse(main_lines)
        if including is None:
            processed = Program.process_mnemonics(statements)
        else:
            processed = Program.process_mnemonics(statements, including)
        return [type(processed).__name__, [[s.label, s.mnemonic, s.operand.operand_string, s.comment] for s in processed],
                [any(p is s for s in statements) for p in processed]]
    return guarded(run)


FILES = {"a.asm": "A1      NOP\n" + inc("b.asm"), "b.asm": "B1      NOP\n", "loop.asm": inc("loop.asm")}
case("expand plain", expand(FILES, ["  NOP\n", "  RTS\n"]), fresh_dir(FILES))
case("expand empty", expand(FILES, []), fresh_dir(FILES))
case("expand a", expand(FILES, [inc("a.asm"), "  RTS\n"]), fresh_dir(FILES))
case("expand a, already including a", expand(FILES, [inc("a.asm")], ("a.asm",)), fresh_dir(FILES))
case("expand a, already including b", expand(FILES, [inc("a.asm")], ("b.asm",)), fresh_dir(FILES))
case("expand a, already including other", expand(FILES, [inc("a.asm")], ("zzz.asm",)), fresh_dir(FILES))
case("expand a, including as list", expand(FILES, [inc("a.asm")], ["b.asm"]), fresh_dir(FILES))
case("expand a, including as string", expand(FILES, [inc("b.asm")], "xb.asmx"), fresh_dir(FILES))
case("expand loop", expand(FILES, [inc("loop.asm")]), fresh_dir(FILES))
case("expand missing", expand(FILES, ["  NOP\n", inc("none.asm")]), fresh_dir(FILES))


def expand_bad_input(items):
    def run():
        return [type(x).__name__ for x in Program.process_mnemonics(items)]
    return run


case("expand list with None", expand_bad_input([None]))
case("expand tuple input", lambda: [s.mnemonic for s in Program.process_mnemonics(tuple(Program.parse(["  NOP\n", "  RTS\n"])))])
case("expand generator input", lambda: [s.mnemonic for s in Program.process_mnemonics(s for s in Program.parse(["  NOP\n", "  RTS\n"]))])
case("expand None", lambda: Program.process_mnemonics(None))
'''


def run_tree(tree):
    tree = os.path.realpath(tree)
    with tempfile.TemporaryDirectory(prefix="equiv_") as tmp:
        driver = os.path.join(tmp, "driver.py")
        with open(driver, "w") as handle:
            handle.write(PRELUDE + "\n" + CASES + "\nfinish()\n")
        scratch = os.path.join(tmp, "scratch")
        os.mkdir(scratch)
        env = dict(os.environ, PYTHONDONTWRITEBYTECODE="1", PYTHONHASHSEED="0")
        env.pop("PYTHONPATH", None)
        proc = subprocess.run(
            [sys.executable, "-B", driver, tree, scratch],
            cwd=tree, env=env, capture_output=True, text=True,
        )
        if proc.returncode != 0:
            print("driver failed in", tree)
            print(proc.stderr[-4000:])
            sys.exit(2)
        return json.loads(proc.stdout.splitlines()[-1])


def main():
    if len(sys.argv) != 3:
        print("usage: equiv.py <treeA> <treeB>")
        sys.exit(2)
    res_a = run_tree(sys.argv[1])
    res_b = run_tree(sys.argv[2])
    bad = 0
    if [r["name"] for r in res_a] != [r["name"] for r in res_b]:
        print("case lists differ")
        bad += 1
    for rec_a, rec_b in zip(res_a, res_b):
        if rec_a != rec_b:
            bad += 1
            print("DIFF in case", rec_a["name"])
            for key in sorted(set(rec_a) | set(rec_b)):
                if rec_a.get(key) != rec_b.get(key):
                    print("   ", key, ":", repr(rec_a.get(key))[:300], "!=", repr(rec_b.get(key))[:300])
    errors = sum(1 for r in res_a if "exc" in r or "exit" in r)
    print("%d cases compared (%d of them end in an exception/exit), %d differ" % (len(res_a), errors, bad))
    sys.exit(1 if bad else 0)


if __name__ == "__main__":
    main()
