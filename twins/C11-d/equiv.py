#!/usr/bin/env python
"""
Differential demonstration: runs the same set of cases against two source trees
(one subprocess per tree, tree first on sys.path) and compares every observable
result.  Usage: equiv.py <treeA> <treeB>; exit status 0 when everything agrees.
"""
import json
import os
import shutil
import subprocess
import sys
import tempfile

HERE = os.path.abspath(__file__)


# ----------------------------------------------------------------- driver side

def norm(obj, depth=0):
    """Turns library objects into plain JSON-able data, without memory addresses."""
    if obj is None or isinstance(obj, (bool, int, float, str)):
        return obj
    if isinstance(obj, (bytes, bytearray)):
        return {"__bytes__": obj.hex()}
    if isinstance(obj, (list, tuple)):
        if len(obj) > 64 and all(isinstance(x, int) and not isinstance(x, bool) for x in obj):
            import hashlib
            return {"__ints__": len(obj), "sha": hashlib.sha256(repr(list(obj)).encode()).hexdigest(),
                    "head": list(obj[:16]), "tail": list(obj[-16:])}
        return [norm(x, depth + 1) for x in obj]
    if isinstance(obj, dict):
        return {str(k): norm(v, depth + 1) for k, v in obj.items()}
    if hasattr(obj, "_asdict") and depth < 6:
        return {"__nt__": type(obj).__name__, "fields": norm(obj._asdict(), depth + 1)}
    import enum
    if isinstance(obj, enum.Enum):
        return "enum:" + str(obj)
    if hasattr(obj, "__dict__") and depth < 6:
        return {"__obj__": type(obj).__name__,
                "attrs": {k: norm(v, depth + 1) for k, v in sorted(vars(obj).items())}}
    return "repr:" + type(obj).__name__


def attempt(fn, *args, **kwargs):
    """Calls fn and records either its normalised result or the exception type and message."""
    try:
        return ["ok", norm(fn(*args, **kwargs))]
    except SystemExit as error:
        return ["exit", repr(error.code)]
    except BaseException as error:  # noqa - we want to see everything
        return ["raised", type(error).__name__, str(error)]


def file_state(path):
    """The observable state of a file: absent, or its bytes."""
    if not os.path.exists(path):
        return None
    with open(path, "rb") as handle:
        data = handle.read()
    import hashlib
    return {"len": len(data), "sha": hashlib.sha256(data).hexdigest(), "head": data[:48].hex()}


def run_cli(tree, script, arguments, cwd):
    """Runs one of the command-line tools of the tree; tracebacks are reduced to their last line."""
    env = dict(os.environ, PYTHONDONTWRITEBYTECODE="1", PYTHONPATH=tree)
    done = subprocess.run([sys.executable, "-B", os.path.join(tree, script)] + list(arguments),
                          cwd=cwd, env=env, stdout=subprocess.PIPE, stderr=subprocess.PIPE, timeout=120)
    err = done.stderr.decode("utf-8", "replace").replace(tree, "<TREE>")
    if "Traceback (most recent call last)" in err:
        err = "TRACEBACK ... " + err.strip().splitlines()[-1]
    out = done.stdout.decode("utf-8", "replace").replace(tree, "<TREE>")
    return {"status": done.returncode, "stdout": out, "stderr": err}


def write_text(path, text):
    with open(path, "w") as handle:
        handle.write(text)


def write_bytes(path, data):
    with open(path, "wb") as handle:
        handle.write(bytes(data))


# ------------------------------------------------------------ shared CLI cases

PROGRAMS = {
    "hello": """        NAM     hello
        ORG     $0E00
START   LDA     #$01
        LDX     #MSG
LOOP    LDA     ,X+
        BEQ     DONE
        JSR     [$A002]
        BRA     LOOP
DONE    RTS
MSG     FCC     "HELLO WORLD"
        FCB     0
        END     START
""",
    "noname": """        ORG     $3F00
BEGIN   LDD     #$1234
        STD     $0400
        LEAX    TABLE,PCR
        RTS
TABLE   FDB     $0102,$0304,$FFFE
""",
    "longname": """        NAM     LongProgName
        ORG     $7000
        LDA     <$10
        STA     >$0010
        PSHS    A,B,X
        PULS    A,B,X,PC
""",
    "noorg": """        NAM     FLAT
        CLRA
        CLRB
LOOP    INCA
        BNE     LOOP
        RTS
""",
    "high": """        NAM     TOPMEM
        ORG     $FF00
        LDX     #$FFFE
        LDA     ,X
        RTS
""",
    "block255": """        NAM     B255
        ORG     $1000
        RMB     250
        FCB     1,2,3,4,5
""",
    "block256": """        NAM     B256
        ORG     $1000
        RMB     250
        FCB     1,2,3,4,5,6
""",
    "multi": """        NAM     BIGGER
        ORG     $2000
HEAD    LDA     #$55
        RMB     2296
        FCB     $AA,$BB
        RMB     2400
TAIL    RTS
""",
    "twoorg": """        NAM     TWICE
        ORG     $1000
        NOP
        ORG     $2000
        RTS
        NAM     AGAIN
""",
    "badmnemonic": """        NAM     BROKEN
        ORG     $1000
        FROB    #1
""",
    "badoperand": """        ORG     $1000
        LDA     #$12345
""",
}


def cli_suite(tree, work, wanted=None):
    """Assembles the programs through assembler.py with every output switch and lists what was written."""
    results = []
    for name, text in PROGRAMS.items():
        if wanted is not None and name not in wanted:
            continue
        folder = os.path.join(work, "cli_" + name)
        os.makedirs(folder)
        write_text(os.path.join(folder, "src.asm"), text)

        def step(label, script, arguments, watch):
            outcome = run_cli(tree, script, arguments, folder)
            outcome["files"] = {target: file_state(os.path.join(folder, target)) for target in watch}
            results.append(("cli/{}/{}".format(name, label), outcome))

        step("listing", "assembler.py", ["src.asm", "--print", "--symbols"], [])
        step("bin", "assembler.py", ["src.asm", "--to_bin", "a.bin"], ["a.bin"])
        step("cas", "assembler.py", ["src.asm", "--to_cas", "a.cas"], ["a.cas"])
        step("dsk", "assembler.py", ["src.asm", "--to_dsk", "a.dsk"], ["a.dsk"])
        step("named-all", "assembler.py",
             ["src.asm", "--name", "cliname", "--to_bin", "b.bin", "--to_cas", "b.cas", "--to_dsk", "b.dsk"],
             ["b.bin", "b.cas", "b.dsk"])
        step("again-no-append", "assembler.py",
             ["src.asm", "--name", "cliname", "--to_bin", "b.bin", "--to_cas", "b.cas", "--to_dsk", "b.dsk"],
             ["b.bin", "b.cas", "b.dsk"])
        step("again-append", "assembler.py",
             ["src.asm", "--name", "second", "--append", "--to_bin", "b.bin", "--to_cas", "b.cas",
              "--to_dsk", "b.dsk"],
             ["b.bin", "b.cas", "b.dsk"])
        step("cross-type", "assembler.py", ["src.asm", "--name", "x", "--append", "--to_cas", "b.dsk"], ["b.dsk"])
        for image in ("a.cas", "a.dsk", "b.cas", "b.dsk", "b.bin"):
            step("list-" + image, "file_util.py", [image, "--list"], [])
    return results

MINIMUM_CASES = 30


def cases(tree, work):
    from cocoasm.virtualfiles.disk import MLPreamble, BasicPreamble, ASCIIPreamble, Postamble, DiskFile
    from cocoasm.virtualfiles.coco_file import CoCoFile
    from cocoasm.values import NumericValue, NoneValue, AddressValue

    results = []

    def record(name, value):
        results.append((name, value))

    words = [NumericValue(0), NumericValue(1), NumericValue(0xFF), NumericValue(0x100), NumericValue(0x0E00),
             NumericValue(0xFFFF), NumericValue("$3F"), NumericValue("$003F"), NumericValue(0x1234, size_hint=4),
             NumericValue(0x12, size_hint=4), NumericValue(-1), NoneValue(), AddressValue(0x345), AddressValue(7),
             NumericValue(0x12345 & 0xFFFF)]

    # --- writing the pre/postambles: returned pointer and resulting buffer, for every kind of word
    for index, word in enumerate(words):
        other = words[(index * 7 + 3) % len(words)]
        for pointer in (0, 3):
            def write_ml():
                buffer = [0xEE] * 12
                preamble = MLPreamble()
                preamble.data_length = word
                preamble.load_addr = other
                return preamble.write(buffer, pointer), buffer, preamble.get_data_length(), preamble.is_ml()
            record("write/ml/{}/{}".format(index, pointer), attempt(write_ml))

            def write_basic():
                buffer = [0xEE] * 12
                preamble = BasicPreamble()
                preamble.data_length = word
                return preamble.write(buffer, pointer), buffer, preamble.is_ml()
            record("write/basic/{}/{}".format(index, pointer), attempt(write_basic))

            def write_post():
                buffer = [0xEE] * 12
                postamble = Postamble()
                postamble.exec_addr = word
                return postamble.write(buffer, pointer), buffer
            record("write/post/{}/{}".format(index, pointer), attempt(write_post))

    # --- not enough room, and what is left in the buffer after a failure half way
    for kind in (MLPreamble, BasicPreamble, ASCIIPreamble, Postamble):
        for size in (0, 1, 2, 3, 4, 5, 6):
            for pointer in (0, 2, 9):
                def short_write():
                    buffer = [0x11] * size
                    item = kind()
                    try:
                        return item.write(buffer, pointer), buffer
                    except Exception as error:
                        return type(error).__name__, str(error), buffer
                record("short-write/{}/{}/{}".format(kind.__name__, size, pointer), attempt(short_write))

                def short_read():
                    buffer = [0xFF, 0x00, 0x00, 0x12, 0x34, 0x56][:size]
                    item = kind()
                    return item.read(buffer, pointer), vars(item)
                record("short-read/{}/{}/{}".format(kind.__name__, size, pointer), attempt(short_read))

    def broken_word(kind, attribute):
        buffer = [0x77] * 8
        item = kind()
        setattr(item, attribute, "not a value")
        try:
            item.write(buffer, 1)
        except Exception as error:
            return type(error).__name__, str(error), buffer
        return "no error", buffer
    record("partial/ml/data_length", attempt(broken_word, MLPreamble, "data_length"))
    record("partial/ml/load_addr", attempt(broken_word, MLPreamble, "load_addr"))
    record("partial/basic/data_length", attempt(broken_word, BasicPreamble, "data_length"))
    record("partial/post/exec_addr", attempt(broken_word, Postamble, "exec_addr"))

    # --- reading: good and bad flags, every marker position wrong, various pointers
    samples = [
        [0x00, 0x01, 0x02, 0x03, 0x04, 0x05, 0x06, 0x07],
        [0xFF, 0x00, 0x00, 0x0E, 0x00, 0x99],
        [0xFF, 0x10, 0x20, 0x30, 0x40],
        [0xFF, 0x01, 0x00, 0x0E, 0x00],
        [0xFF, 0x00, 0x02, 0x0E, 0x00],
        [0xFE, 0x00, 0x00, 0x0E, 0x00],
        [0x00, 0xFF, 0xFF, 0xFF, 0xFF, 0xFF, 0x00, 0x00, 0xAB, 0xCD],
        [0x01, 0x00, 0x00, 0x00, 0x00],
        bytes([0x00, 0x12, 0x34, 0x56, 0x78, 0xFF, 0x00, 0x00, 0x9A, 0xBC]),
        bytearray([0xFF, 0x00, 0x00, 0x00, 0x00, 0xFF, 0x00, 0x00]),
    ]
    for number, sample in enumerate(samples):
        for kind in (MLPreamble, BasicPreamble, ASCIIPreamble, Postamble):
            for pointer in (0, 1, 5):
                def read_it():
                    item = kind()
                    return item.read(sample, pointer), vars(item)
                record("read/{}/{}/{}".format(number, kind.__name__, pointer), attempt(read_it))

    # --- whole disk images: write files, then read them back
    def coco(name, data, load, entry, kind=0x02, data_type=0x00, extension="BIN"):
        return CoCoFile(name=name, extension=extension, type=NumericValue(kind), data_type=NumericValue(data_type),
                        load_addr=load, exec_addr=entry, data=data)

    file_sets = {
        "one": [coco("HELLO", [1, 2, 3], NumericValue(0x0E00), NumericValue(0x0E00))],
        "empty-data": [coco("NOTHING", [], NumericValue(0x1000), NumericValue(0x1001))],
        "none-addr": [coco("NOADDR", [9] * 10, NoneValue(), NoneValue())],
        "granule-edge": [coco("EDGE{}".format(n), [n & 0xFF] * n, NumericValue(0x2000 + n), NumericValue(0xFFFF))
                         for n in (2293, 2294, 2295, 2299, 2304, 4598, 4599)],
        "basic+ascii": [coco("BAS", [0x10] * 40, NoneValue(), NoneValue(), kind=0x00, extension="BAS"),
                        coco("TXT", [0x41] * 300, NoneValue(), NoneValue(), kind=0x00, data_type=0xFF,
                             extension="BAS"),
                        coco("DAT", [0x42] * 3000, NoneValue(), NoneValue(), kind=0x01, data_type=0xFF,
                             extension="DAT")],
        "mixed": [coco("A", list(range(256)) * 10, NumericValue(0x00FF), NumericValue(0x0100)),
                  coco("lower", [7] * 77, NumericValue("$7F"), NumericValue("$007F")),
                  coco("ADDRVAL", [5] * 5, AddressValue(0x4000), AddressValue(0x12))],
    }
    for name, files in file_sets.items():
        def build():
            disk = DiskFile()
            disk.add_files(files)
            return list(disk.get_buffer())

        def read_back():
            listed = DiskFile(buffer=build()).list_files()
            return listed, [str(item) for item in listed]
        record("disk/image/" + name, attempt(build))
        record("disk/listed/" + name, attempt(read_back))

    def damaged(offset, value):
        disk = DiskFile()
        disk.add_files(file_sets["one"])
        image = list(disk.get_buffer())
        image[offset] = value
        return DiskFile(buffer=image).list_files()
    start = 2304 * 32
    for offset, value in ((start, 0x01), (start + 8, 0xFE), (start + 9, 0x01), (start + 10, 0x01),
                          (start + 1, 0xFF), (start + 2, 0xFF), (start + 11, 0x12)):
        record("disk/damaged/{}/{}".format(offset - start, value), attempt(damaged, offset, value))

    results.extend(cli_suite(tree, work))
    return results


# ------------------------------------------------------------- comparison side

def driver(tree):
    tree = os.path.abspath(tree)
    sys.path.insert(0, tree)
    sys.dont_write_bytecode = True
    work = tempfile.mkdtemp(prefix="equiv_")
    previous = os.getcwd()
    os.chdir(work)
    try:
        results = cases(tree, work)
    finally:
        os.chdir(previous)
        shutil.rmtree(work, ignore_errors=True)
    text = json.dumps(results, sort_keys=True)
    sys.stdout.write(text.replace(work, "<WORK>").replace(tree, "<TREE>"))


def run_tree(tree):
    env = dict(os.environ, PYTHONDONTWRITEBYTECODE="1")
    env.pop("PYTHONPATH", None)
    done = subprocess.run([sys.executable, "-B", HERE, "--driver", os.path.abspath(tree)],
                          cwd=os.path.abspath(tree), env=env, stdout=subprocess.PIPE, stderr=subprocess.PIPE)
    if done.returncode != 0:
        sys.stderr.write(done.stderr.decode("utf-8", "replace"))
        raise SystemExit("driver failed for {}".format(tree))
    return json.loads(done.stdout.decode("utf-8"))


def main():
    if len(sys.argv) == 3 and sys.argv[1] == "--driver":
        driver(sys.argv[2])
        return 0
    if len(sys.argv) != 3:
        print("usage: equiv.py <treeA> <treeB>")
        return 2
    first, second = run_tree(sys.argv[1]), run_tree(sys.argv[2])
    names = [name for name, _ in first]
    if names != [name for name, _ in second]:
        print("DIFFERENT case lists")
        return 1
    if len(names) < MINIMUM_CASES:
        print("too few cases: {}".format(len(names)))
        return 1
    failures = 0
    for (name, left), (_, right) in zip(first, second):
        if left != right:
            failures += 1
            print("DIFFER {}\n  A: {}\n  B: {}".format(name, json.dumps(left)[:600], json.dumps(right)[:600]))
    print("{} cases compared, {} differ".format(len(names), failures))
    return 1 if failures else 0


if __name__ == "__main__":
    sys.exit(main())
