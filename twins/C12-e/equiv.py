#!/usr/bin/env python
"""
Differential demonstration: runs the same set of cases against two source trees
(one subprocess per tree, tree first on sys.path) and compares every observable
result.  Usage: equiv.py <treeA> <treeB>; exit status 0 when everything agrees.
"""
import json
import os
import shutil
import subprocess
import sys
import tempfile

HERE = os.path.abspath(__file__)


# ----------------------------------------------------------------- driver side

def norm(obj, depth=0):
    """Turns library objects into plain JSON-able data, without memory addresses."""
    if obj is None or isinstance(obj, (bool, int, float, str)):
        return obj
    if isinstance(obj, (bytes, bytearray)):
        return {"__bytes__": obj.hex()}
    if isinstance(obj, (list, tuple)):
        if len(obj) > 64 and all(isinstance(x, int) and not isinstance(x, bool) for x in obj):
            import hashlib
            return {"__ints__": len(obj), "sha": hashlib.sha256(repr(list(obj)).encode()).hexdigest(),
                    "head": list(obj[:16]), "tail": list(obj[-16:])}
        return [norm(x, depth + 1) for x in obj]
    if isinstance(obj, dict):
        return {str(k): norm(v, depth + 1) for k, v in obj.items()}
    if hasattr(obj, "_asdict") and depth < 6:
        return {"__nt__": type(obj).__name__, "fields": norm(obj._asdict(), depth + 1)}
    import enum
    if isinstance(obj, enum.Enum):
        return "enum:" + str(obj)
    if hasattr(obj, "__dict__") and depth < 6:
        return {"__obj__": type(obj).__name__,
                "attrs": {k: norm(v, depth + 1) for k, v in sorted(vars(obj).items())}}
    return "repr:" + type(obj).__name__


def attempt(fn, *args, **kwargs):
    """Calls fn and records either its normalised result or the exception type and message."""
    try:
        return ["ok", norm(fn(*args, **kwargs))]
    except SystemExit as error:
        return ["exit", repr(error.code)]
    except BaseException as error:  # noqa - we want to see everything
        return ["raised", type(error).__name__, str(error)]


def file_state(path):
    """The observable state of a file: absent, or its bytes."""
    if not os.path.exists(path):
        return None
    with open(path, "rb") as handle:
        data = handle.read()
    import hashlib
    return {"len": len(data), "sha": hashlib.sha256(data).hexdigest(), "head": data[:48].hex()}


def run_cli(tree, script, arguments, cwd):
    """Runs one of the command-line tools of the tree; tracebacks are reduced to their last line."""
    env = dict(os.environ, PYTHONDONTWRITEBYTECODE="1", PYTHONPATH=tree)
    done = subprocess.run([sys.executable, "-B", os.path.join(tree, script)] + list(arguments),
                          cwd=cwd, env=env, stdout=subprocess.PIPE, stderr=subprocess.PIPE, timeout=120)
    err = done.stderr.decode("utf-8", "replace").replace(tree, "<TREE>")
    if "Traceback (most recent call last)" in err:
        err = "TRACEBACK ... " + err.strip().splitlines()[-1]
    out = done.stdout.decode("utf-8", "replace").replace(tree, "<TREE>")
    return {"status": done.returncode, "stdout": out, "stderr": err}


def write_text(path, text):
    with open(path, "w") as handle:
        handle.write(text)


def write_bytes(path, data):
    with open(path, "wb") as handle:
        handle.write(bytes(data))


# ------------------------------------------------------- shared assembly cases

def assemble(lines):
    """Assembles the lines with the tree's Program and reports everything observable about the outcome."""
    from cocoasm.program import Program
    program = Program()
    try:
        program.process(lines)
    except Exception as error:
        statement = getattr(error, "statement", None)
        return {"raised": type(error).__name__, "message": str(error), "value": repr(getattr(error, "value", None)),
                "statement": attempt(str, statement) if statement is not None else None}
    report = {
        "bytes": attempt(program.get_binary_array),
        "listing": attempt(program.get_statements),
        "symbols": attempt(program.get_symbol_table),
        "origin": attempt(lambda: (type(program.origin).__name__, program.origin.hex(), program.origin.int)),
        "name": program.name,
        "sizes": attempt(lambda: [(s.code_pkg.size, s.code_pkg.max_size, s.fixed_size, s.pcr_size_hint,
                                   type(s.operand).__name__, s.code_pkg.address.hex())
                                  for s in program.statements]),
    }
    return report


FRAME = """VAL5    EQU     5
VAL200  EQU     200
VALW    EQU     $1234
VALN    EQU     -3
        ORG     $2000
BEFORE  NOP
{label:<8}{mnemonic:<8}{operand}
AFTER   NOP
FAR     EQU     $7FFF
"""


def statement_cases(prefix, mnemonics, operands, label=""):
    """One program per mnemonic and operand: the statement framed by labelled NOPs and some EQUs."""
    results = []
    for mnemonic in mnemonics:
        for operand in operands:
            text = FRAME.format(label=label, mnemonic=mnemonic, operand=operand)
            results.append(("{}/{} {}".format(prefix, mnemonic, operand), assemble(text.splitlines(True))))
    return results

MINIMUM_CASES = 30

PSEUDO_OPERANDS = [
    "", "0", "1", "5", "127", "128", "255", "256", "300", "4095", "65535", "65536", "70000", "-1", "-128", "-129",
    "-32768", "-32769", "$0", "$5", "$05", "$FF", "$100", "$0005", "$1234", "$FFFF", "$12345", "$G1", "$",
    "%00000101", "%11111111", "%1111000011110000", "%101", "%", "'A", "'", "''", "'AB",
    "1,2", "1,2,3", "1,", ",1", ",", ",,", "1,,2", "255,256", "1,-1", "$10,$20,$FFFF", "$1,$12345", "'A,'B",
    "1,BEFORE", "BEFORE,AFTER", "%00000001,2", "1,2,3,4,5,6,7,8,9,10,11,12,13,14,15,16,17,18,19,20",
    "65535,65536", "A,B", "1 ,2",
    "BEFORE", "AFTER", "VAL5", "VALW", "VALN", "FAR", "UNDEFINED", "VAL5+1", "VALW-VAL5", "BEFORE+2", "AFTER-BEFORE",
    "1+1", "2*3", "9/0", "$10+$10", "UNDEFINED+1",
    "#1", "#$1234", "<$10", ">$10", "<BEFORE", ">5", "[1]", "[,X]", ",X", "5,X", "A,X", "BEFORE,PCR", "X", "PC",
    "\"TEXT\"", "\"A\"", "\"\"", "/slashes/", "'quoted'", "\"unterminated", "\"two\"\"strings\"", "xABCx", "\"a,b\"",
    "\"with space\"", "\"semi;colon\"", "\"#$%&\"", "12", "1\"", "\"", "AA", "ABA", "|bar|",
    "file.asm", "missing.asm", "A.B", "name", "Name1", "LONGERNAME12", "@", "a@b", "?", "*", "**", "!",
]

PSEUDO_MNEMONICS = ["FCB", "FDB", "FCC", "RMB", "ORG", "EQU", "SET", "SETDP", "END", "NAM", "INCLUDE"]


def cases(tree, work):
    write_text(os.path.join(work, "file.asm"), "INCLAB  NOP\n        RTS\n")
    write_text(os.path.join(work, "name"), "        FCB 1,2,3\n")
    results = statement_cases("pseudo", PSEUDO_MNEMONICS, PSEUDO_OPERANDS)
    results.extend(statement_cases("labelled", PSEUDO_MNEMONICS, PSEUDO_OPERANDS[::2], label="HERE"))
    results.extend(statement_cases("other", ["LDA", "NOP", "BRA", "PSHS", "FROB"], PSEUDO_OPERANDS[::5]))

    # programs that use the data defined by pseudo operations
    programs = {
        "equ-direct": "DP      EQU $20\n        LDA DP\n        LDA <DP\n        LDA >DP\n        LDA #DP\n",
        "equ-extended": "EX      EQU $0020\n        LDA EX\n        STA EX\n        LDX #EX\n",
        "equ-decimal": "TEN     EQU 10\nBIG     EQU 1000\n        LDA TEN\n        LDA BIG\n        LDB TEN,X\n",
        "equ-chain": "ONE     EQU 1\nTWO     EQU ONE+1\n        LDA #TWO\n",
        "equ-label": "HERE    NOP\nTHERE   EQU HERE\n        JMP THERE\n",
        "equ-binary": "MASK    EQU %00001111\nWIDE    EQU %0000000011111111\n        ANDA #MASK\n        LDD #WIDE\n",
        "rmb-table": "        ORG $1000\nBUF     RMB 16\nLEN     EQU 16\nNEXT    LDX #BUF\n        LDB #LEN\n",
        "rmb-zero": "        RMB 0\nX1      NOP\n",
        "rmb-symbol": "SZ      EQU 4\n        RMB SZ\nX1      NOP\n",
        "org-twice": "        ORG $1000\n        NOP\n        ORG $10\n        NOP\nL       BRA L\n",
        "org-symbol": "BASE    EQU $3000\n        ORG BASE\nS       NOP\n",
        "org-none": "        ORG\n        NOP\n",
        "fcb-mix": "T       FCB 1,2,3\n        FCB 255\n        FCB $FF,$0\n        FCB 'A\nE       FDB T,E\n",
        "fdb-mix": "T       FDB 1\n        FDB $1234,5\n        FDB T\n        FDB -1\n",
        "fcc-mix": "        FCC \"AB\"\n        FCC /C D/ trailing words\n        FCC 'E' ; comment\n        FCC \"\"\n",
        "nam-end": "        NAM first\n        NOP\n        NAM second\n        END START\nSTART   RTS\n",
        "setdp": "        SETDP $20\n        LDA $2010\n        SETDP\n",
        "include": "        INCLUDE file.asm\n        JMP INCLAB\n        INCLUDE name\n",
        "include-missing": "        NOP\n        INCLUDE nothere.asm\n",
        "include-empty": "        INCLUDE\n        NOP\n",
    }
    for name, text in programs.items():
        results.append(("program/" + name, assemble(text.splitlines(True))))

    # the operand class on its own
    from cocoasm.operands import PseudoOperand
    from cocoasm.instruction import INSTRUCTIONS
    by_name = {entry.mnemonic: entry for entry in INSTRUCTIONS}

    def direct(mnemonic, text):
        operand = PseudoOperand(text, by_name[mnemonic])
        same = operand.resolve_symbols({"BEFORE": None}) is operand
        package = operand.translate()
        return (same, type(operand.value).__name__, vars(operand), vars(package), package.additional.hex(),
                package.additional.hex_len(), package.address.hex())
    for mnemonic in PSEUDO_MNEMONICS + ["LDA", "NOP", "TFR"]:
        for text in PSEUDO_OPERANDS:
            results.append(("direct/{}/{}".format(mnemonic, text), attempt(direct, mnemonic, text)))
    return results


# ------------------------------------------------------------- comparison side

def driver(tree):
    tree = os.path.abspath(tree)
    sys.path.insert(0, tree)
    sys.dont_write_bytecode = True
    work = tempfile.mkdtemp(prefix="equiv_")
    previous = os.getcwd()
    os.chdir(work)
    try:
        results = cases(tree, work)
    finally:
        os.chdir(previous)
        shutil.rmtree(work, ignore_errors=True)
    text = json.dumps(results, sort_keys=True)
    sys.stdout.write(text.replace(work, "<WORK>").replace(tree, "<TREE>"))


def run_tree(tree):
    env = dict(os.environ, PYTHONDONTWRITEBYTECODE="1")
    env.pop("PYTHONPATH", None)
    done = subprocess.run([sys.executable, "-B", HERE, "--driver", os.path.abspath(tree)],
                          cwd=os.path.abspath(tree), env=env, stdout=subprocess.PIPE, stderr=subprocess.PIPE)
    if done.returncode != 0:
        sys.stderr.write(done.stderr.decode("utf-8", "replace"))
        raise SystemExit("driver failed for {}".format(tree))
    return json.loads(done.stdout.decode("utf-8"))


def main():
    if len(sys.argv) == 3 and sys.argv[1] == "--driver":
        driver(sys.argv[2])
        return 0
    if len(sys.argv) != 3:
        print("usage: equiv.py <treeA> <treeB>")
        return 2
    first, second = run_tree(sys.argv[1]), run_tree(sys.argv[2])
    names = [name for name, _ in first]
    if names != [name for name, _ in second]:
        print("DIFFERENT case lists")
        return 1
    if len(names) < MINIMUM_CASES:
        print("too few cases: {}".format(len(names)))
        return 1
    failures = 0
    for (name, left), (_, right) in zip(first, second):
        if left != right:
            failures += 1
            print("DIFFER {}\n  A: {}\n  B: {}".format(name, json.dumps(left)[:600], json.dumps(right)[:600]))
    print("{} cases compared, {} differ".format(len(names), failures))
    return 1 if failures else 0


if __name__ == "__main__":
    sys.exit(main())
