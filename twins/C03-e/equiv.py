#!/usr/bin/env python
"""
Differential demonstration: runs the same inputs through the code of two
source trees (one subprocess per tree, the tree being cwd and the first entry
of sys.path) and compares every observable result.

usage: equiv.py <treeA> <treeB>      exit 0 = all cases agree, 1 = difference
"""
import json
import os
import subprocess
import sys

WORKER = r'''
import contextlib, enum, io, json, os, subprocess, sys, tempfile
tree = os.path.abspath(sys.argv[1])
os.chdir(tree)
sys.path.insert(0, tree)
sys.dont_write_bytecode = True

import cocoasm.values as values_mod
import cocoasm.operands as operands_mod
import cocoasm.instruction as instruction_mod
import cocoasm.statement as statement_mod
import cocoasm.program as program_mod
import cocoasm.exceptions as exceptions_mod
from cocoasm.values import *
from cocoasm.operands import *
from cocoasm.instruction import *
from cocoasm.statement import Statement
from cocoasm.program import Program
from cocoasm.exceptions import *


def safe(fn):
    try:
        return describe(fn())
    except Exception as error:
        return {"raised": type(error).__name__, "msg": str(error)}


def describe(obj, depth=0):
    if depth > 6:
        return "<deep>"
    if obj is None or isinstance(obj, (bool, int, str, float)):
        return obj
    if isinstance(obj, bytes):
        return obj.hex()
    if isinstance(obj, enum.Enum):
        return str(obj)
    if isinstance(obj, (list, tuple)):
        return [describe(x, depth + 1) for x in obj]
    if isinstance(obj, (set, frozenset)):
        return sorted(describe(x, depth + 1) for x in obj)
    if isinstance(obj, dict):
        return [[describe(k, depth + 1), describe(v, depth + 1)] for k, v in obj.items()]
    if isinstance(obj, values_mod.Value):
        out = {"cls": type(obj).__name__}
        for name in ("type", "int", "size_hint", "explict_addressing_mode", "negative", "resolved",
                     "original_string", "hex_array", "operation", "original_value"):
            if hasattr(obj, name):
                out[name] = describe(getattr(obj, name), depth + 1)
        for name in ("left", "right", "value"):
            if hasattr(obj, name):
                out[name] = describe(getattr(obj, name), depth + 1)
        out["hex()"] = safe(obj.hex)
        out["hex_len()"] = safe(obj.hex_len)
        out["byte_len()"] = safe(obj.byte_len)
        out["is_8_bit()"] = safe(obj.is_8_bit)
        out["is_16_bit()"] = safe(obj.is_16_bit)
        return out
    if isinstance(obj, instruction_mod.CodePackage):
        return {"cls": "CodePackage", "fields": [[k, describe(v, depth + 1)] for k, v in sorted(vars(obj).items())]}
    if isinstance(obj, operands_mod.Operand):
        out = {"cls": type(obj).__name__}
        for name in ("type", "operand_string", "requires_resolution", "operation", "value", "left", "right"):
            out[name] = describe(getattr(obj, name, "<missing>"), depth + 1)
        out["mnemonic"] = getattr(obj.instruction, "mnemonic", None)
        return out
    if isinstance(obj, instruction_mod.Instruction):
        return {"cls": "Instruction", "fields": describe(tuple(obj), depth + 1)}
    if isinstance(obj, instruction_mod.Mode):
        return {"cls": "Mode", "fields": list(obj)}
    if isinstance(obj, statement_mod.Statement):
        out = {"cls": "Statement"}
        for name in ("is_empty", "is_comment_only", "label", "mnemonic", "comment", "state", "fixed_size",
                     "pcr_size_hint", "operand", "original_operand", "code_pkg"):
            out[name] = describe(getattr(obj, name, "<missing>"), depth + 1)
        out["str"] = safe(lambda: str(obj))
        return out
    if isinstance(obj, BaseException):
        out = {"exc": type(obj).__name__, "msg": str(obj), "args": describe(obj.args, depth + 1)}
        if hasattr(obj, "value"):
            out["value"] = describe(obj.value, depth + 1)
        if hasattr(obj, "statement"):
            stmt = obj.statement
            out["statement"] = stmt if isinstance(stmt, str) else safe(lambda: str(stmt))
        return out
    return "<{}>".format(type(obj).__name__)


def run_program(lines, deep):
    program = Program()
    out = {}
    try:
        program.process([line + "\n" for line in lines])
    except BaseException as error:
        out["error"] = describe(error)
        out["statements_so_far"] = len(program.statements)
        return out
    out["binary"] = safe(program.get_binary_array)
    out["listing"] = safe(program.get_statements)
    out["symbols"] = safe(program.get_symbol_table)
    out["symbol_table"] = describe(program.symbol_table)
    out["origin"] = describe(program.origin)
    out["name"] = describe(program.name)
    out["layout"] = [
        [s.code_pkg.size, s.code_pkg.max_size, describe(s.code_pkg.address.hex()), s.fixed_size, s.pcr_size_hint]
        for s in program.statements
    ]
    if deep:
        out["statements"] = [describe(s) for s in program.statements]
    return out


def run_python(code):
    namespace = dict(globals())
    stream = io.StringIO()
    out = {}
    try:
        with contextlib.redirect_stdout(stream):
            exec(code, namespace)
        out["result"] = describe(namespace.get("result"))
    except BaseException as error:
        out["error"] = describe(error)
    out["stdout"] = stream.getvalue()
    return out


def run_cli(case):
    out = {"runs": []}
    with tempfile.TemporaryDirectory() as work:
        for name, content in case.get("files", {}).items():
            with open(os.path.join(work, name), "wb") as handle:
                handle.write(content.encode("latin-1"))
        env = dict(os.environ, PYTHONDONTWRITEBYTECODE="1")
        for argv in case["runs"]:
            done = subprocess.run(
                [sys.executable, os.path.join(tree, case["tool"])] + argv,
                cwd=work, env=env, stdout=subprocess.PIPE, stderr=subprocess.PIPE, timeout=120,
            )
            run = {"returncode": done.returncode}
            run["stdout"] = done.stdout.decode("latin-1").replace(tree, "<TREE>").replace(work, "<WORK>")
            stderr_lines = done.stderr.decode("latin-1").replace(tree, "<TREE>").replace(work, "<WORK>")
            stderr_lines = stderr_lines.strip().splitlines()
            # tracebacks carry line numbers of the tree, keep only the final line
            run["stderr_last"] = stderr_lines[-1] if stderr_lines else ""
            run["files"] = {}
            for name in sorted(os.listdir(work)):
                path = os.path.join(work, name)
                if os.path.isfile(path):
                    with open(path, "rb") as handle:
                        run["files"][name] = handle.read().hex()
                else:
                    run["files"][name] = sorted(os.listdir(path))
            out["runs"].append(run)
    return out


results = []
for case in json.load(sys.stdin):
    kind = case["k"]
    if kind == "prog":
        results.append(run_program(case["src"], case.get("deep", False)))
    elif kind == "py":
        results.append(run_python(case["code"]))
    elif kind == "cli":
        results.append(run_cli(case))
    else:
        results.append({"bad kind": kind})
json.dump(results, sys.stdout)
'''


def prog(*lines, deep=True):
    return {"k": "prog", "src": list(lines), "deep": deep}


def py(code):
    return {"k": "py", "code": code}


def cli(tool, argv, files=None):
    """One command line run (argv is a list of strings) or several in the same directory (a list of lists)."""
    runs = [list(argv)] if argv and isinstance(argv[0], str) else [list(a) for a in argv]
    return {"k": "cli", "tool": tool, "runs": runs, "files": files or {}}


def one(statement, *extra, deep=True):
    """A one-instruction program at $1000 with a few symbols available."""
    return prog(
        "        ORG   $1000",
        "SMALL   EQU   $12",
        "BIG     EQU   $1234",
        "START   NOP   ",
        "        " + statement,
        "NEXT    NOP   ",
        *extra, deep=deep
    )


def run_tree(tree, cases):
    env = dict(os.environ, PYTHONDONTWRITEBYTECODE="1")
    done = subprocess.run(
        [sys.executable, "-B", "-c", WORKER, tree],
        input=json.dumps(cases).encode(), stdout=subprocess.PIPE, stderr=subprocess.PIPE,
        cwd=tree, env=env,
    )
    if done.returncode != 0:
        sys.stderr.write(done.stderr.decode())
        raise SystemExit("worker failed for " + tree)
    return json.loads(done.stdout.decode())


def main():
    if len(sys.argv) != 3:
        raise SystemExit(__doc__)
    tree_a, tree_b = (os.path.abspath(p) for p in sys.argv[1:3])
    cases = build_cases()
    results_a = run_tree(tree_a, cases)
    results_b = run_tree(tree_b, cases)
    different = 0
    errors = 0
    for case, res_a, res_b in zip(cases, results_a, results_b):
        if "error" in res_a:
            errors += 1
        if res_a != res_b:
            different += 1
            if different <= 10:
                print("DIFFERENT:", json.dumps(case)[:400])
                print("   A:", json.dumps(res_a)[:600])
                print("   B:", json.dumps(res_b)[:600])
    print("{} cases ({} of them error cases in tree A), {} different".format(len(cases), errors, different))
    return 1 if different or len(results_a) != len(cases) or len(results_b) != len(cases) else 0


TARGETS = ["", "0", "1", "5", "127", "128", "255", "256", "$05", "$0005", "$7F", "$80", "$FF", "$100", "$FFFF", "65535",
           "-1", "-128", "-129", "'A", "%00000101", "%0000000000000101", "SMALL", "BIG", "START", "NEXT", "FAR", "START+1",
           "FAR-1", "FAR+SMALL", "SMALL+1", "BIG-1", "NOWHERE", "A", "B", "D", "<5", ">5", "#5"]
MNEMONICS = ["LDA", "LDX", "LEAX", "LEAS", "STD", "CMPY", "CMPU", "JSR", "JMP", "NEG", "LDS", "ADDD", "NOP", "BRA"]
GAPS = [0, 1, 100, 115, 116, 117, 118, 119, 120, 121, 122, 123, 124, 125, 126, 127, 128, 129, 130, 131, 132, 200, 253, 254,
        255, 256, 257, 1000]


def build_cases():
    cases = []
    tail = ["        RMB   300", "FAR     RTS   "]
    for target in TARGETS:
        for wrap in ("{},PCR", "[{},PCR]", "{},PC", "{},PCR+", "{},X"):
            cases.append(one("LDA   " + wrap.format(target), *tail))
    for mnemonic in MNEMONICS:
        for target in ("5", "$0005", "START", "NEXT", "FAR", "FAR+1", "SMALL", "BIG"):
            cases.append(one("{:<5} {},PCR".format(mnemonic, target), *tail, deep=False))
            cases.append(one("{:<5} [{},PCR]".format(mnemonic, target), *tail, deep=False))
    # distances around the 8/16 bit limit, forward and backward, one and two byte op codes, plain and indirect
    for gap in GAPS:
        for mnemonic in ("LEAX", "LDY"):
            for wrap in ("{},PCR", "[{},PCR]"):
                cases.append(prog("        ORG   $0E00", "FROM    {:<5} {}".format(mnemonic, wrap.format("TO")),
                                  "        RMB   {}".format(gap), "TO      RTS   ", deep=False))
                cases.append(prog("        ORG   $0E00", "TO      NOP   ", "        RMB   {}".format(gap),
                                  "FROM    {:<5} {}".format(mnemonic, wrap.format("TO")), "        RTS   ", deep=False))
    # several undecided statements that depend on each other
    for gap in GAPS[3:22]:
        cases.append(prog("        ORG   $0E00", "P1      LEAX  P4,PCR", "P2      LDA   [P4,PCR]", "        RMB   {}".format(gap),
                          "P3      LDD   P1,PCR", "P4      LEAY  [P2+1,PCR]", "        LDU   P5-1,PCR", "P5      RTS   "))
    # the operand objects: code package before the layout pass
    for text in ["5,PCR", "$0005,PCR", "300,PCR", "-5,PCR", "LBL,PCR", "LBL+1,PCR", "NUM,PCR", "NUM+1,PCR", "WIDE,PCR", ",PCR",
                 "A,PCR", "0,PCR"]:
        for wrapped in (text, "[" + text + "]"):
            for mnemonic in ("LEAX", "LDY"):
                cases.append(py(
                    "ins = next(i for i in INSTRUCTIONS if i.mnemonic == {!r})\n"
                    "table = {{'LBL': AddressValue(3), 'NUM': NumericValue(7), 'WIDE': NumericValue(700)}}\n"
                    "op = Operand.create_from_str({!r}, ins).resolve_symbols(table)\n"
                    "result = [op.translate(), op]".format(mnemonic, wrapped)))
    # branch operand construction
    for mnemonic in ("BRA", "LBRA", "BSR", "LBSR", "BNE", "LDA", "NOP", "FCB", "TFR"):
        for arguments in ("'THERE', ins", "'', ins", "'$10', ins", "'THERE', ins, AddressValue(4)", "'', ins, NumericValue(4)",
                          "'THERE', ins, None", "'A,B', ins", "'#1', ins", "'1+', ins"):
            cases.append(py("ins = next(i for i in INSTRUCTIONS if i.mnemonic == {!r})\n"
                            "op = RelativeOperand({})\nresult = [op, op.translate()]".format(mnemonic, arguments)))
    source = "\n".join(["        NAM   PCREL", "        ORG   $0E00", "START   LEAX  DATA,PCR", "        LDA   [PTR,PCR]",
                        "        LDB   5,PCR", "        LDU   $0005,PCR", "        BRA   START", "        RMB   120",
                        "PTR     FDB   $0E00", "DATA    FCB   1,2,3", "        LEAY  START,PCR", "        END   START", ""])
    cases.append(cli("assembler.py", ["p.asm", "--print", "--symbols", "--to_bin", "p.bin"], {"p.asm": source}))
    return cases


if __name__ == "__main__":
    sys.exit(main())
