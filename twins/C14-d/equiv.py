#!/usr/bin/env python
"""
Differential demonstration: runs the same set of cases against two source trees
(one subprocess per tree, tree first on sys.path) and compares every observable
result.  Usage: equiv.py <treeA> <treeB>; exit status 0 when everything agrees.
"""
import json
import os
import shutil
import subprocess
import sys
import tempfile

HERE = os.path.abspath(__file__)


# ----------------------------------------------------------------- driver side

def norm(obj, depth=0):
    """Turns library objects into plain JSON-able data, without memory addresses."""
    if obj is None or isinstance(obj, (bool, int, float, str)):
        return obj
    if isinstance(obj, (bytes, bytearray)):
        return {"__bytes__": obj.hex()}
    if isinstance(obj, (list, tuple)):
        if len(obj) > 64 and all(isinstance(x, int) and not isinstance(x, bool) for x in obj):
            import hashlib
            return {"__ints__": len(obj), "sha": hashlib.sha256(repr(list(obj)).encode()).hexdigest(),
                    "head": list(obj[:16]), "tail": list(obj[-16:])}
        return [norm(x, depth + 1) for x in obj]
    if isinstance(obj, dict):
        return {str(k): norm(v, depth + 1) for k, v in obj.items()}
    if hasattr(obj, "_asdict") and depth < 6:
        return {"__nt__": type(obj).__name__, "fields": norm(obj._asdict(), depth + 1)}
    import enum
    if isinstance(obj, enum.Enum):
        return "enum:" + str(obj)
    if hasattr(obj, "__dict__") and depth < 6:
        return {"__obj__": type(obj).__name__,
                "attrs": {k: norm(v, depth + 1) for k, v in sorted(vars(obj).items())}}
    return "repr:" + type(obj).__name__


def attempt(fn, *args, **kwargs):
    """Calls fn and records either its normalised result or the exception type and message."""
    try:
        return ["ok", norm(fn(*args, **kwargs))]
    except SystemExit as error:
        return ["exit", repr(error.code)]
    except BaseException as error:  # noqa - we want to see everything
        return ["raised", type(error).__name__, str(error)]


def file_state(path):
    """The observable state of a file: absent, or its bytes."""
    if not os.path.exists(path):
        return None
    with open(path, "rb") as handle:
        data = handle.read()
    import hashlib
    return {"len": len(data), "sha": hashlib.sha256(data).hexdigest(), "head": data[:48].hex()}


def run_cli(tree, script, arguments, cwd):
    """Runs one of the command-line tools of the tree; tracebacks are reduced to their last line."""
    env = dict(os.environ, PYTHONDONTWRITEBYTECODE="1", PYTHONPATH=tree)
    done = subprocess.run([sys.executable, "-B", os.path.join(tree, script)] + list(arguments),
                          cwd=cwd, env=env, stdout=subprocess.PIPE, stderr=subprocess.PIPE, timeout=120)
    err = done.stderr.decode("utf-8", "replace").replace(tree, "<TREE>")
    if "Traceback (most recent call last)" in err:
        err = "TRACEBACK ... " + err.strip().splitlines()[-1]
    out = done.stdout.decode("utf-8", "replace").replace(tree, "<TREE>")
    return {"status": done.returncode, "stdout": out, "stderr": err}


def write_text(path, text):
    with open(path, "w") as handle:
        handle.write(text)


def write_bytes(path, data):
    with open(path, "wb") as handle:
        handle.write(bytes(data))


# ------------------------------------------------------------ shared CLI cases

PROGRAMS = {
    "hello": """        NAM     hello
        ORG     $0E00
START   LDA     #$01
        LDX     #MSG
LOOP    LDA     ,X+
        BEQ     DONE
        JSR     [$A002]
        BRA     LOOP
DONE    RTS
MSG     FCC     "HELLO WORLD"
        FCB     0
        END     START
""",
    "noname": """        ORG     $3F00
BEGIN   LDD     #$1234
        STD     $0400
        LEAX    TABLE,PCR
        RTS
TABLE   FDB     $0102,$0304,$FFFE
""",
    "longname": """        NAM     LongProgName
        ORG     $7000
        LDA     <$10
        STA     >$0010
        PSHS    A,B,X
        PULS    A,B,X,PC
""",
    "noorg": """        NAM     FLAT
        CLRA
        CLRB
LOOP    INCA
        BNE     LOOP
        RTS
""",
    "high": """        NAM     TOPMEM
        ORG     $FF00
        LDX     #$FFFE
        LDA     ,X
        RTS
""",
    "block255": """        NAM     B255
        ORG     $1000
        RMB     250
        FCB     1,2,3,4,5
""",
    "block256": """        NAM     B256
        ORG     $1000
        RMB     250
        FCB     1,2,3,4,5,6
""",
    "multi": """        NAM     BIGGER
        ORG     $2000
HEAD    LDA     #$55
        RMB     2296
        FCB     $AA,$BB
        RMB     2400
TAIL    RTS
""",
    "twoorg": """        NAM     TWICE
        ORG     $1000
        NOP
        ORG     $2000
        RTS
        NAM     AGAIN
""",
    "badmnemonic": """        NAM     BROKEN
        ORG     $1000
        FROB    #1
""",
    "badoperand": """        ORG     $1000
        LDA     #$12345
""",
}


def cli_suite(tree, work, wanted=None):
    """Assembles the programs through assembler.py with every output switch and lists what was written."""
    results = []
    for name, text in PROGRAMS.items():
        if wanted is not None and name not in wanted:
            continue
        folder = os.path.join(work, "cli_" + name)
        os.makedirs(folder)
        write_text(os.path.join(folder, "src.asm"), text)

        def step(label, script, arguments, watch):
            outcome = run_cli(tree, script, arguments, folder)
            outcome["files"] = {target: file_state(os.path.join(folder, target)) for target in watch}
            results.append(("cli/{}/{}".format(name, label), outcome))

        step("listing", "assembler.py", ["src.asm", "--print", "--symbols"], [])
        step("bin", "assembler.py", ["src.asm", "--to_bin", "a.bin"], ["a.bin"])
        step("cas", "assembler.py", ["src.asm", "--to_cas", "a.cas"], ["a.cas"])
        step("dsk", "assembler.py", ["src.asm", "--to_dsk", "a.dsk"], ["a.dsk"])
        step("named-all", "assembler.py",
             ["src.asm", "--name", "cliname", "--to_bin", "b.bin", "--to_cas", "b.cas", "--to_dsk", "b.dsk"],
             ["b.bin", "b.cas", "b.dsk"])
        step("again-no-append", "assembler.py",
             ["src.asm", "--name", "cliname", "--to_bin", "b.bin", "--to_cas", "b.cas", "--to_dsk", "b.dsk"],
             ["b.bin", "b.cas", "b.dsk"])
        step("again-append", "assembler.py",
             ["src.asm", "--name", "second", "--append", "--to_bin", "b.bin", "--to_cas", "b.cas",
              "--to_dsk", "b.dsk"],
             ["b.bin", "b.cas", "b.dsk"])
        step("cross-type", "assembler.py", ["src.asm", "--name", "x", "--append", "--to_cas", "b.dsk"], ["b.dsk"])
        for image in ("a.cas", "a.dsk", "b.cas", "b.dsk", "b.bin"):
            step("list-" + image, "file_util.py", [image, "--list"], [])
    return results

# ------------------------------------------------------ shared cassette cases

def tape_cases(tree, work):
    from cocoasm.virtualfiles.cassette import CassetteFile
    from cocoasm.virtualfiles.coco_file import CoCoFile
    from cocoasm.virtualfiles.virtual_file import VirtualFile, VirtualFileType
    from cocoasm.virtualfiles.source_file import SourceFile, SourceFileType
    from cocoasm.values import NumericValue, NoneValue, AddressValue

    results = []

    def record(name, value):
        results.append((name, value))

    def pattern(count, seed=1):
        return [(index * seed + index // 255 + seed) & 0xFF for index in range(count)]

    def coco(name="FILE", data=(), kind=2, data_type=0, load=0x0E00, entry=0x0E00, **extra):
        wrap = lambda item: NumericValue(item) if isinstance(item, int) else item
        return CoCoFile(name=name, extension="BIN", type=wrap(kind), data_type=wrap(data_type), load_addr=wrap(load),
                        exec_addr=wrap(entry), data=list(data) if isinstance(data, (list, tuple)) else data, **extra)

    def written(files):
        tape = CassetteFile()
        tape.add_files(files)
        return list(tape.get_buffer())

    def listed(files):
        found = CassetteFile(buffer=written(files)).list_files()
        return found, [str(item) for item in found]

    sizes = [0, 1, 2, 100, 253, 254, 255, 256, 257, 509, 510, 511, 512, 764, 765, 766, 1020, 2550, 65535, 70000]
    names = ["A", "AB", "SEVENCH", "EIGHTCHR", "NINECHARS", "TWELVECHARSX", "lower", "Mixed1", "WITH SP", " LEAD", "", "\x00",
             "\x7f~", "DOT.BIN", "12345678"]
    addresses = [(0, 0), (0x0E00, 0x0E00), (0xFF, 0x100), (0x7FFF, 0x8000), (0xFFFF, 0xFFFF), (0x1234, 0x00AB),
                 (NoneValue(), NoneValue()), (NumericValue("$3F"), NumericValue("$003F")), (AddressValue(0x345), AddressValue(7)),
                 (NumericValue(0x12, size_hint=4), NumericValue(0x1234, size_hint=2)), (NumericValue(-1), NumericValue(-200))]

    for index, size in enumerate(sizes):
        name = names[index % len(names)]
        load, entry = addresses[index % len(addresses)]
        files = [coco(name, pattern(size, index + 1), load=load, entry=entry)]
        record("single/size{}".format(size), attempt(written, files))
        record("single-listed/size{}".format(size), attempt(listed, files))
    for index, name in enumerate(names):
        files = [coco(name, pattern(10 + index), kind=index % 3, data_type=0xFF if index % 2 else 0)]
        record("name/{!r}".format(name), attempt(written, files))
        record("name-listed/{!r}".format(name), attempt(listed, files))
    for index, (load, entry) in enumerate(addresses):
        files = [coco("ADDR{}".format(index), pattern(300, 3), load=load, entry=entry)]
        record("address/{}".format(index), attempt(written, files))
        record("address-listed/{}".format(index), attempt(listed, files))
    for kind in (0, 1, 2, 3, 0xFF, 256):
        for data_type in (0, 0xFF, 1, 300):
            files = [coco("T{}D{}".format(kind, data_type), pattern(20), kind=kind, data_type=data_type,
                          gaps=NumericValue(0xFF), ascii=1, ignore_gaps=True)]
            record("types/{}/{}".format(kind, data_type), attempt(written, files))
    many = [coco(names[n % len(names)] or "X", pattern(sizes[n % 12], n + 2), kind=n % 3, load=0x100 * n, entry=0x100 * n + 1)
            for n in range(14)]
    record("many", attempt(written, many))
    record("many-listed", attempt(listed, many))
    record("none", attempt(written, []))
    for data in (b"\x01\x02\x03", bytearray(range(256)) * 2, tuple(range(300)), range(600), "text", [1, "2", 3], [1, None],
                 [256, 1], [-1], [1.5], None, 5):
        def odd_data():
            tape = CassetteFile()
            try:
                tape.add_file(coco("ODD", data) if not isinstance(data, (list, tuple)) else coco("ODD")._replace(data=data))
                outcome = "added"
            except Exception as error:
                outcome = [type(error).__name__, str(error)]
            return outcome, list(tape.get_buffer())
        record("odd-data/{!r}".format(data)[:60], attempt(odd_data))

    # every writer step on its own, including the state of the buffer after a failure half way
    def step(method, *args, **kwargs):
        tape = CassetteFile(buffer=[0xAA, 0xBB])
        try:
            outcome = ["returned", getattr(tape, method)(*args, **kwargs)]
        except Exception as error:
            outcome = [type(error).__name__, str(error)]
        return outcome, list(tape.get_buffer())
    for name in names + [None, 5, b"BYTES", ["A", "B"], ("LONGERTHAN8",), "€é"]:
        record("step/append_name/{!r}".format(name), attempt(step, "append_name", name))
    for size in sizes[:17]:
        for gaps in (False, True, 0, 1, None, "yes"):
            record("step/append_data_blocks/{}/{!r}".format(size, gaps), attempt(step, "append_data_blocks", pattern(size, 5), gaps))
        record("step/append_data_blocks-kw/{}".format(size), attempt(step, "append_data_blocks", raw_bytes=pattern(size, 7), gaps=True))
    record("step/append_data_blocks/default", attempt(step, "append_data_blocks", pattern(600)))
    for method in ("append_eof", "append_leader", "append_blank"):
        record("step/" + method, attempt(step, method))
        record("step/{}-extra".format(method), attempt(step, method, 1))
    broken = [
        coco(), coco(name=None), coco(name=5), coco(kind="two"), coco(data_type="ff"), coco(kind=None), coco(data_type=None),
        coco(load="$0E00"), coco(entry="$0E00"), coco(load=None), coco(entry=None), coco(kind=2.0), coco(kind=NumericValue(700)),
        coco(load=NumericValue(0x12345 & 0xFFFF), entry=NumericValue("$FFFF")), coco(kind=NoneValue(), data_type=NoneValue()),
        None, "file", 5,
    ]
    for index, item in enumerate(broken):
        record("step/append_header/{}".format(index), attempt(step, "append_header", item))
        record("step/add_file/{}".format(index), attempt(step, "add_file", item))
    record("step/add_files/mixed", attempt(step, "add_files", [coco("OK", [1, 2]), coco(kind="bad"), coco("NEVER")]))

    # through VirtualFile and the host file system
    def saved(files, target, append):
        virtual = VirtualFile(SourceFile(target, file_type=SourceFileType.BINARY), VirtualFileType.CASSETTE)
        try:
            virtual.open_virtual_file()
            for item in files:
                virtual.add_coco_file(item)
            outcome = ["saved", virtual.save_virtual_file(append_mode=append)]
        except Exception as error:
            outcome = [type(error).__name__, str(error)]
        return outcome, file_state(target)
    target = os.path.join(work, "virtual.cas")
    record("virtual/new", attempt(saved, many[:3], target, False))
    record("virtual/refuse", attempt(saved, many[3:5], target, False))
    record("virtual/append", attempt(saved, many[3:9], target, True))
    record("virtual/append-more", attempt(saved, [coco("LAST", pattern(1000))], target, True))
    record("virtual/unwritable", attempt(saved, [coco("WIDE€", [1])], os.path.join(work, "wide.cas"), False))
    record("virtual/toolarge", attempt(saved, [coco("BIG", [1, 2, 300])], os.path.join(work, "big.cas"), False))

    # command line: assembler.py --to_cas and file_util.py --to_cas / --list
    results.extend(cli_suite(tree, work, wanted=("hello", "longname", "noorg", "block255", "block256", "multi", "noname")))
    folder = os.path.join(work, "copy")
    os.makedirs(folder)
    write_bytes(os.path.join(folder, "src.cas"), written(many[:6]))
    from cocoasm.virtualfiles.disk import DiskFile
    disk = DiskFile()
    disk.add_files([coco("DISKA", pattern(3000)), coco("DISKB", pattern(10), kind=0), coco("DISKC", pattern(255))])
    write_bytes(os.path.join(folder, "src.dsk"), disk.get_buffer())
    for label, arguments in (("cas-to-cas", ["src.cas", "--to_cas", "c1.cas"]), ("dsk-to-cas", ["src.dsk", "--to_cas", "c2.cas"]),
                             ("dsk-to-cas-append", ["src.dsk", "--to_cas", "c1.cas", "--append"]),
                             ("some-files", ["src.dsk", "--to_cas", "c3.cas", "--files", "diska", "DISKC"]),
                             ("refuse", ["src.cas", "--to_cas", "c2.cas"]), ("list-c1", ["c1.cas", "--list"]),
                             ("list-c2", ["c2.cas", "--list"]), ("list-c3", ["c3.cas", "--list"])):
        outcome = run_cli(tree, "file_util.py", arguments, folder)
        outcome["files"] = {name: file_state(os.path.join(folder, name)) for name in ("c1.cas", "c2.cas", "c3.cas")}
        results.append(("file_util/" + label, outcome))
    return results

MINIMUM_CASES = 30


def cases(tree, work):
    return tape_cases(tree, work)


# ------------------------------------------------------------- comparison side

def driver(tree):
    tree = os.path.abspath(tree)
    sys.path.insert(0, tree)
    sys.dont_write_bytecode = True
    work = tempfile.mkdtemp(prefix="equiv_")
    previous = os.getcwd()
    os.chdir(work)
    try:
        results = cases(tree, work)
    finally:
        os.chdir(previous)
        shutil.rmtree(work, ignore_errors=True)
    text = json.dumps(results, sort_keys=True)
    sys.stdout.write(text.replace(work, "<WORK>").replace(tree, "<TREE>"))


def run_tree(tree):
    env = dict(os.environ, PYTHONDONTWRITEBYTECODE="1")
    env.pop("PYTHONPATH", None)
    done = subprocess.run([sys.executable, "-B", HERE, "--driver", os.path.abspath(tree)],
                          cwd=os.path.abspath(tree), env=env, stdout=subprocess.PIPE, stderr=subprocess.PIPE)
    if done.returncode != 0:
        sys.stderr.write(done.stderr.decode("utf-8", "replace"))
        raise SystemExit("driver failed for {}".format(tree))
    return json.loads(done.stdout.decode("utf-8"))


def main():
    if len(sys.argv) == 3 and sys.argv[1] == "--driver":
        driver(sys.argv[2])
        return 0
    if len(sys.argv) != 3:
        print("usage: equiv.py <treeA> <treeB>")
        return 2
    first, second = run_tree(sys.argv[1]), run_tree(sys.argv[2])
    names = [name for name, _ in first]
    if names != [name for name, _ in second]:
        print("DIFFERENT case lists")
        return 1
    if len(names) < MINIMUM_CASES:
        print("too few cases: {}".format(len(names)))
        return 1
    failures = 0
    for (name, left), (_, right) in zip(first, second):
        if left != right:
            failures += 1
            print("DIFFER {}\n  A: {}\n  B: {}".format(name, json.dumps(left)[:600], json.dumps(right)[:600]))
    print("{} cases compared, {} differ".format(len(names), failures))
    return 1 if failures else 0


if __name__ == "__main__":
    sys.exit(main())
