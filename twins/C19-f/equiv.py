#!/usr/bin/env python
"""
Differential check for refactoring C19/f (assembler.py main: new functions build_coco_file and print_section), with programs split over INCLUDE files.

usage: equiv.py <treeA> <treeB>

A driver is run once per tree in a subprocess (tree at the front of sys.path and as cwd); it prints
one JSON record per case (results, exception type and message, CLI stdout/stderr/exit status, hashes of
the files produced). The two outputs must be identical; exit 0 if so, 1 otherwise.
"""
import json
import os
import subprocess
import sys
import tempfile

DRIVER = r'''
import sys, os, json, subprocess, hashlib
tree, work = sys.argv[1], sys.argv[2]
sys.path.insert(0, tree)
from cocoasm.program import Program
from cocoasm.statement import Statement
from cocoasm.instruction import INSTRUCTIONS, CodePackage, Instruction, Mode
from cocoasm.operands import *
from cocoasm.operands import Operand
from cocoasm.values import *
from cocoasm.values import Value
from cocoasm.exceptions import *

def attempt(fn):
    try:
        return ["ok", fn()]
    except BaseException as e:
        extra = []
        if hasattr(e, "value"):
            extra.append(str(e.value))
        if hasattr(e, "statement"):
            try:
                extra.append(str(e.statement))
            except BaseException as inner:
                extra.append("unprintable statement: " + type(inner).__name__)
        return ["raise", type(e).__name__, str(e), extra]

CASES = []
def case(name, fn):
    CASES.append((name, fn))

def L(text):
    return [line + "\n" for line in text.strip("\n").split("\n")]

def vdesc(v):
    if v is None or isinstance(v, (str, int, bool, list, tuple)):
        return repr(v)
    out = [type(v).__name__]
    for attr in ("type", "int", "size_hint", "explict_addressing_mode", "negative", "resolved", "original_string"):
        out.append(repr(getattr(v, attr, "<none>")))
    for meth in ("hex", "hex_len", "byte_len"):
        try:
            out.append(repr(getattr(v, meth)()))
        except BaseException as e:
            out.append(type(e).__name__)
    for attr in ("left", "right", "value"):
        inner = getattr(v, attr, None)
        if inner is not None and inner is not v:
            out.append(attr + "=" + (vdesc(inner) if not isinstance(inner, str) else repr(inner)))
    return " ".join(out)

def pdesc(p):
    return dict(op_code=vdesc(p.op_code), address=vdesc(p.address), post_byte=vdesc(p.post_byte),
                additional=vdesc(p.additional), size=p.size, max_size=p.max_size,
                needs=p.additional_needs_resolution, choices=list(p.post_byte_choices))

def assemble(lines):
    given = list(lines)
    copy_of_given = list(given)
    program = Program()
    outcome = attempt(lambda: program.process(given))
    result = dict(outcome=outcome, untouched=(given == copy_of_given))
    result["binary"] = attempt(program.get_binary_array)
    result["listing"] = attempt(program.get_statements)
    result["symbols"] = attempt(program.get_symbol_table)
    result["symbol_order"] = list(program.symbol_table.keys())
    result["origin"] = vdesc(program.origin)
    result["name"] = program.name
    result["packages"] = attempt(lambda: [pdesc(s.code_pkg) for s in program.statements])
    return result


PROGRAMS = {}
PROGRAMS["basic"] = L("""
        NAM BASIC
        ORG $0E00
START   LDA #$01        ; load
        LDB #10
        STA $0400
        STB <$20
        LDX #START
        LDD #$1234
LOOP    DECA
        BNE LOOP
        JSR SUB
        RTS
SUB     CLRA
        RTS
        END START
""")
PROGRAMS["inherent"] = L("""
        ORG $1000
        ABX
        ASLA
        ASLB
        CLRA
        CLRB
        COMA
        DAA
        DECB
        INCA
        LSRA
        MUL
        NEGA
        NOP
        ROLA
        RORB
        RTI
        RTS
        SEX
        SWI
        SWI2
        SWI3
        SYNC
        TSTA
""")
PROGRAMS["immediate"] = L("""
        ORG $2000
        ADCA #$10
        ADDB #255
        ADDD #$1234
        ANDA #%10101010
        ANDCC #$FE
        BITA #'A
        CMPA #0
        CMPX #$FFFF
        CMPY #1
        CMPU #$0100
        CMPS #256
        CMPD #65535
        EORB #$0F
        LDS #$7FFF
        LDU #$0001
        LDY #%1111000011110000
        ORA #1
        ORCC #$50
        SBCA #2
        SUBD #3
        CWAI #$FF
""")
PROGRAMS["direct_extended"] = L("""
        ORG $3000
VAL     EQU $20
BIG     EQU $1234
        LDA $20
        LDA $0020
        LDA <$20
        LDA >$20
        LDA >$0020
        LDA VAL
        LDA BIG
        STA 32
        STA 300
        NEG $10
        NEG $1000
        JMP $4000
        JMP BIG
        JSR VAL
        LDX DATA
        STX DATA+2
        LDD DATA-1
        INC <VAL
        TST >VAL
DATA    FDB $0001,$0002
""")
PROGRAMS["indexed"] = L("""
        ORG $4000
        LDA ,X
        LDA ,Y
        LDA ,U
        LDA ,S
        LDA ,X+
        LDA ,X++
        LDA ,-Y
        LDA ,--Y
        LDA 0,X
        LDA 1,X
        LDA 15,X
        LDA 16,X
        LDA -16,X
        LDA -17,X
        LDA 127,Y
        LDA 128,Y
        LDA -128,U
        LDA -129,U
        LDA $10,S
        LDA $1000,S
        LDA A,X
        LDA B,Y
        LDA D,U
        LEAX 1,X
        LEAY -1,Y
        LEAS 10,S
        LEAU D,U
        STA 300,X
        LDD 32767,X
""")
PROGRAMS["indirect"] = L("""
        ORG $5000
        LDA [,X]
        LDA [,X++]
        LDA [,--Y]
        LDA [0,X]
        LDA [5,X]
        LDA [-5,Y]
        LDA [200,U]
        LDA [$1000,S]
        LDA [A,X]
        LDA [B,Y]
        LDA [D,S]
        LDA [$2000]
        LDA [TARGET]
        JMP [TARGET]
        JSR [$FFFE]
TARGET  FDB $1234
""")
PROGRAMS["pcr"] = L("""
        ORG $6000
BEGIN   LEAX TABLE,PCR
        LDA TABLE,PCR
        LDB [TABLE,PCR]
        LEAY BEGIN,PCR
        LDD 10,PCR
        LDD $1000,PCR
        LEAX TABLE+1,PCR
        LEAX FAR,PCR
        RMB 200
TABLE   FCB 1,2,3,4
FAR     FCB 5
        LEAX BEGIN,PCR
        LEAX TABLE,PCR
""")
PROGRAMS["branches"] = L("""
        ORG $7000
TOP     NOP
        BRA TOP
        BEQ DOWN
        BNE DOWN
        BSR DOWN
        LBRA TOP
        LBSR DOWN
        LBEQ DOWN
        LBNE TOP
        BCC TOP
        BCS TOP
        BGE TOP
        BGT TOP
        BHI TOP
        BHS TOP
        BLE TOP
        BLO TOP
        BLS TOP
        BLT TOP
        BMI TOP
        BPL TOP
        BRN TOP
        BVC TOP
        BVS TOP
DOWN    RTS
""")
PROGRAMS["special"] = L("""
        ORG $0100
        PSHS A,B,X
        PSHS CC,A,B,DP,X,Y,U,PC
        PULS D
        PULS PC
        PSHU S,X
        PULU A
        TFR A,B
        TFR X,Y
        TFR D,U
        TFR S,PC
        EXG A,B
        EXG X,D
        EXG CC,DP
""")
PROGRAMS["data"] = L("""
        NAM DATA
        ORG $0200
B1      FCB 1
B2      FCB $FF
B3      FCB 1,2,3
B4      FCB $AA,255,%00001111
W1      FDB 1
W2      FDB $1234
W3      FDB 1,$FFFF,300
S1      FCC "HELLO"
S2      FCC /WORLD/ trailing comment
S3      FCC "A;B" ; real comment
R1      RMB 1
R2      RMB 16
AFTER   FCB 0
        SETDP $02
        END
""")
PROGRAMS["equ_chain"] = L("""
ONE     EQU 1
TWO     EQU $02
BIG     EQU $1000
BIGH    EQU $0010
CH      EQU 'A
        ORG BIG
        LDA #ONE
        LDA #TWO
        LDA #CH
        LDX #BIG
        LDA ONE
        LDA BIG
        LDA BIGH
        LDA ONE+1
        LDA BIG+1
        LDA BIG-1
        LDA #ONE+TWO
        LDX #BIG*2
        LDX #BIG/2
        LDA TWO,X
        LDA BIG,X
        LDA HERE,X
HERE    STA BIG,Y
        LDX #HERE
        LDX #HERE+4
        LDX #HERE-4
""")
PROGRAMS["forward_refs"] = L("""
        ORG $0E00
        JMP END1
        LDX #END1
        LDA END1
        LDA END1+1
        BRA END1
        LBRA END1
        LEAX END1,PCR
        LDA END1,X
MID     NOP
END1    FCB 1
        FDB 2
""")
PROGRAMS["no_org"] = L("""
FIRST   LDA #1
        STA FIRST
        BRA FIRST
        JMP FIRST
""")
PROGRAMS["two_orgs"] = L("""
        ORG $1000
A1      LDA #1
        ORG $2000
A2      LDA #2
        JMP A1
        JMP A2
""")
PROGRAMS["case_ws"] = L("""
        org $0e00
start   lda #$01
  ldb   #2     ; odd spacing
label@1 sta   $400
Lower   Jmp   start
	TAB	NOP
        bra label@1
""")
PROGRAMS["comments_blank"] = L("""
; a comment line

        ; indented comment
        ORG $0E00   ; origin
        NOP         ; a ; second ; semicolon
        NOP;tight
X1      NOP
""")
PROGRAMS["long_branch_range"] = ["        ORG $0E00\n", "TOP     NOP\n"] + ["        LDA $1234\n"] * 60 + \
    ["        LBRA TOP\n", "        LBNE BOT\n"] + ["        STA $1234\n"] * 60 + ["BOT     RTS\n"]
PROGRAMS["short_edge_back"] = ["        ORG $0E00\n", "TOP     NOP\n"] + ["        NOP\n"] * 125 + ["        BRA TOP\n"]
PROGRAMS["short_edge_fwd"] = ["        ORG $0E00\n", "        BRA BOT\n"] + ["        NOP\n"] * 127 + ["BOT     RTS\n"]
PROGRAMS["pcr_sizes"] = ["        ORG $0E00\n", "TOP     LEAX BOT,PCR\n", "        LEAY TOP,PCR\n"] + \
    ["        NOP\n"] * 120 + ["        LEAX BOT,PCR\n", "        LEAX TOP,PCR\n", "MIDDLE  LEAU FARBOT,PCR\n"] + \
    ["        NOP\n"] * 10 + ["BOT     RTS\n"] + ["        NOP\n"] * 140 + ["FARBOT  RTS\n", "        LEAX MIDDLE,PCR\n"]
PROGRAMS["register_labels"] = L("""
        ORG $0E00
AX      LDA #1
BY      LDB AX
XS      STA BY,X
PCX     LDA XS,PCR
        LDA AX,Y
        LDX #PCX
""")
PROGRAMS["fdb_symbol"] = L("""
        ORG $0E00
TAB     FDB $0E10
        FCB 7
PTR     LDX TAB
        LDD #TAB
""")
PROGRAMS["negatives"] = L("""
        ORG $0E00
        LDA #-1
        LDB #-128
        LDX #-1
        LDD #-32768
        LDA -1,X
        ADDA #-5
""")
# rejected programs
PROGRAMS["bad_mnemonic"] = L("""
        ORG $0E00
        FOO #1
""")
PROGRAMS["bad_line"] = L("""
        ORG $0E00
NOSPACE
""")
PROGRAMS["dup_label"] = L("""
        ORG $0E00
SAME    NOP
SAME    NOP
""")
PROGRAMS["undefined_symbol"] = L("""
        ORG $0E00
        LDA MISSING
""")
PROGRAMS["undefined_branch"] = L("""
        ORG $0E00
        BRA NOWHERE
""")
PROGRAMS["branch_out_of_range"] = ["        ORG $0E00\n", "TOP     NOP\n"] + ["        NOP\n"] * 200 + ["        BRA TOP\n"]
PROGRAMS["branch_out_of_range_fwd"] = ["        ORG $0E00\n", "        BEQ BOT\n"] + ["        NOP\n"] * 200 + ["BOT     NOP\n"]
PROGRAMS["bad_register"] = L("""
        ORG $0E00
        PSHS Q
""")
PROGRAMS["own_stack"] = L("""
        ORG $0E00
        PSHS S
""")
PROGRAMS["bad_tfr"] = L("""
        ORG $0E00
        TFR A,X
""")
PROGRAMS["tfr_one_reg"] = L("""
        ORG $0E00
        TFR A
""")
PROGRAMS["empty_push"] = L("""
        ORG $0E00
        PSHS
""")
PROGRAMS["no_immediate"] = L("""
        ORG $0E00
        STA #1
""")
PROGRAMS["no_indexed"] = L("""
        ORG $0E00
        ANDCC 1,X
""")
PROGRAMS["no_extended"] = L("""
        ORG $0E00
        ANDCC $1000
""")
PROGRAMS["no_direct"] = L("""
        ORG $0E00
        LEAX $10
""")
PROGRAMS["needs_operand"] = L("""
        ORG $0E00
        LDA
""")
PROGRAMS["inherent_with_operand"] = L("""
        ORG $0E00
        NOP 5
""")
PROGRAMS["hex_too_long"] = L("""
        ORG $0E00
        LDA $12345
""")
PROGRAMS["int_too_big"] = L("""
        ORG $0E00
        LDX #70000
""")
PROGRAMS["bad_binary"] = L("""
        ORG $0E00
        LDA #%101
""")
PROGRAMS["bad_string"] = L("""
        ORG $0E00
        FCC "UNTERMINATED
""")
PROGRAMS["empty_string"] = L("""
        ORG $0E00
        FCC
""")
PROGRAMS["bad_indexed_auto"] = L("""
        ORG $0E00
        LDA 5,X+
""")
PROGRAMS["bad_indirect_auto"] = L("""
        ORG $0E00
        LDA [,X+]
""")
PROGRAMS["div_zero"] = L("""
        ORG $0E00
        LDA #4/0
""")
PROGRAMS["symbol_to_string"] = L("""
        ORG $0E00
MSG     EQU 1,2
        LDA MSG
""")
PROGRAMS["missing_include"] = L("""
        ORG $0E00
        INCLUDE no_such_file.asm
""")
PROGRAMS["equ_no_value"] = L("""
X       EQU
        LDA X
""")
PROGRAMS["expr_unresolved"] = L("""
        ORG $0E00
        LDA FOO+BAR
""")
PROGRAMS["empty"] = []
PROGRAMS["only_comments"] = ["; nothing\n", "\n", "   \n"]
PROGRAMS["equ_chain_ok"] = [l for l in PROGRAMS["equ_chain"] if "HERE,X" not in l]
PROGRAMS["forward_refs_ok"] = [l for l in PROGRAMS["forward_refs"] if "END1,X" not in l]
PROGRAMS["case_ws_ok"] = [l for l in PROGRAMS["case_ws"] if "TAB" not in l]
PROGRAMS["comments_blank_ok"] = [l for l in PROGRAMS["comments_blank"] if "tight" not in l]
PROGRAMS["register_labels_ok"] = L("""
        ORG $0E00
AX      LDA #1
BY      LDB AX
XS      STA BY
PCX     LDA XS,PCR
        LDA [AX,PCR]
        LDX #PCX
        JMP PCX+1
""")

os.chdir(work)

def put(name, lines):
    with open(os.path.join(work, name), "w") as f:
        f.writelines(lines)

INC = "        INCLUDE %s\n"
INCLUDE_MAINS = []

def split(name, lines, tag, cuts):
    """cuts: nested list of (start, end) pairs, each inside the previous one"""
    def build(level, start, end):
        if level == len(cuts):
            return lines[start:end]
        s, e = cuts[level]
        inner_name = "%s_%s_i%d.asm" % (name, tag, level + 1)
        put(inner_name, build(level + 1, s, e))
        return lines[start:s] + [INC % inner_name] + lines[e:end]
    main = build(0, 0, len(lines))
    main_name = "%s_%s_main.asm" % (name, tag)
    put(main_name, main)
    INCLUDE_MAINS.append(main_name)
    PROGRAMS["inc_%s_%s" % (name, tag)] = main

for pname in ("basic", "pcr", "branches", "forward_refs_ok", "equ_chain_ok", "data", "pcr_sizes", "two_orgs", "no_org",
              "direct_extended", "long_branch_range"):
    body = PROGRAMS[pname]
    n = len(body)
    split(pname, body, "head", [(0, max(1, n // 3))])
    split(pname, body, "mid", [(n // 3, 2 * n // 3)])
    split(pname, body, "tail", [(2 * n // 3, n)])
    split(pname, body, "all", [(0, n)])
    split(pname, body, "one", [(n // 2, n // 2 + 1)])
    split(pname, body, "none", [(n // 2, n // 2)])
    split(pname, body, "deep2", [(1, n - 1), (n // 3, 2 * n // 3)])
    split(pname, body, "deep3", [(1, n - 1), (2, n - 2), (n // 2, n // 2 + 2)])
# two and three sibling includes
for pname in ("basic", "pcr", "branches", "equ_chain_ok"):
    body = PROGRAMS[pname]
    n = len(body)
    a, b, c = n // 4, n // 2, 3 * n // 4
    put(pname + "_sib1.asm", body[a:b])
    put(pname + "_sib2.asm", body[b:c])
    put(pname + "_sib3.asm", body[c:])
    PROGRAMS["inc_%s_sib" % pname] = body[:a] + [INC % (pname + "_sib1.asm"), INC % (pname + "_sib2.asm"), INC % (pname + "_sib3.asm")]
    put(pname + "_sib_main.asm", PROGRAMS["inc_%s_sib" % pname])
    INCLUDE_MAINS.append(pname + "_sib_main.asm")

# diagnostics
put("selfinc.asm", ["        NOP\n", INC % "selfinc.asm"])
PROGRAMS["inc_self"] = ["        ORG $0E00\n", INC % "selfinc.asm"]
put("cyc_a.asm", ["A1      NOP\n", INC % "cyc_b.asm"])
put("cyc_b.asm", ["B1      NOP\n", INC % "cyc_c.asm"])
put("cyc_c.asm", ["C1      NOP\n", INC % "cyc_a.asm"])
PROGRAMS["inc_cycle3"] = ["        ORG $0E00\n", INC % "cyc_a.asm"]
PROGRAMS["inc_missing"] = ["        ORG $0E00\n", "        NOP\n", INC % "does_not_exist.asm", "        NOP\n"]
put("has_missing.asm", ["        NOP\n", INC % "also_missing.asm"])
PROGRAMS["inc_missing_nested"] = ["        ORG $0E00\n", INC % "has_missing.asm"]
os.mkdir(os.path.join(work, "adir"))
PROGRAMS["inc_directory"] = ["        ORG $0E00\n", INC % "adir"]
PROGRAMS["inc_no_name"] = ["        ORG $0E00\n", "        INCLUDE\n", "        NOP\n"]
put("empty.asm", [])
PROGRAMS["inc_empty"] = ["        ORG $0E00\n", "L1      NOP\n", INC % "empty.asm", "L2      JMP L1\n"]
put("comments.asm", ["; only a comment\n", "\n", "   ; another\n"])
PROGRAMS["inc_comments"] = ["        ORG $0E00\n", "L1      NOP\n", INC % "comments.asm", "L2      JMP L1\n"]
put("badline.asm", ["        NOP\n", "GARBAGE\n"])
PROGRAMS["inc_badline"] = ["        ORG $0E00\n", INC % "badline.asm"]
put("badop.asm", ["        NOP\n", "        FOO 1\n"])
PROGRAMS["inc_badop"] = ["        ORG $0E00\n", INC % "badop.asm"]
put("deflabel.asm", ["SHARED  NOP\n"])
PROGRAMS["inc_dup_across"] = ["        ORG $0E00\n", "SHARED  NOP\n", INC % "deflabel.asm"]
PROGRAMS["inc_twice_labels"] = ["        ORG $0E00\n", INC % "deflabel.asm", INC % "deflabel.asm"]
put("nolabel.asm", ["        NOP\n", "        CLRA\n"])
PROGRAMS["inc_twice_ok"] = ["        ORG $0E00\n", INC % "nolabel.asm", "MID     NOP\n", INC % "nolabel.asm", "        JMP MID\n"]
put("uses_outer.asm", ["INNER   JMP OUTER\n", "        LEAX OUTER,PCR\n", "        BRA AFTER\n"])
PROGRAMS["inc_cross_refs"] = ["        ORG $0E00\n", "OUTER   JMP INNER\n", INC % "uses_outer.asm", "AFTER   BRA INNER\n", "        LEAX INNER,PCR\n"]
put("orgname.asm", ["        NAM INNER\n", "        ORG $3000\n"])
PROGRAMS["inc_org_in_include"] = [INC % "orgname.asm", "START   LDA #1\n", "        JMP START\n"]
PROGRAMS["inc_with_comment"] = ["        ORG $0E00\n", "        INCLUDE nolabel.asm ; pulls in two statements\n", "LAB     include nolabel.asm\n", "        JMP LAB\n"]
os.mkdir(os.path.join(work, "sub"))
put(os.path.join("sub", "inner.asm"), ["SUBL    NOP\n", INC % "nolabel.asm"])
PROGRAMS["inc_subdir"] = ["        ORG $0E00\n", INC % "sub/inner.asm", "        JMP SUBL\n"]
for pname in ("inc_self", "inc_cycle3", "inc_missing", "inc_missing_nested", "inc_directory", "inc_no_name", "inc_empty", "inc_comments",
              "inc_badline", "inc_badop", "inc_dup_across", "inc_twice_labels", "inc_twice_ok", "inc_cross_refs", "inc_org_in_include",
              "inc_with_comment", "inc_subdir"):
    put(pname + "_main.asm", PROGRAMS[pname])
    INCLUDE_MAINS.append(pname + "_main.asm")

def cli_main(name, index):
    env = dict(os.environ, PYTHONHASHSEED=str(index % 5), PYTHONDONTWRITEBYTECODE="1")
    out = name[:-4] + ".bin"
    p = subprocess.run([sys.executable, os.path.join(tree, "assembler.py"), name, "--print", "--symbols", "--to_bin", out],
                       cwd=work, capture_output=True, text=True, env=env)
    err = p.stderr.replace(tree, "<TREE>")
    if "Traceback" in err:
        err = "Traceback ... " + err.strip().splitlines()[-1]
    data = None
    if os.path.exists(os.path.join(work, out)):
        with open(os.path.join(work, out), "rb") as f:
            data = hashlib.sha256(f.read()).hexdigest()
    return [p.returncode, p.stdout.replace(tree, "<TREE>").replace(work, "<WORK>"), err.replace(work, "<WORK>"), data]

for index, name in enumerate(INCLUDE_MAINS):
    if index % 2 == 0 or "inc_" in name:
        case("clim:" + name, lambda name=name, index=index: cli_main(name, index))

import io, contextlib, argparse, importlib.util

def files_now():
    out = {}
    for n in sorted(os.listdir(work)):
        path = os.path.join(work, n)
        if os.path.isfile(path) and not n.endswith(".asm"):
            with open(path, "rb") as f:
                out[n] = hashlib.sha256(f.read()).hexdigest() + ":" + str(os.path.getsize(path))
    return out

def run_cli(*args):
    env = dict(os.environ, PYTHONHASHSEED="3", PYTHONDONTWRITEBYTECODE="1")
    p = subprocess.run([sys.executable, os.path.join(tree, "assembler.py")] + list(args), cwd=work, capture_output=True, text=True, env=env)
    err = p.stderr.replace(tree, "<TREE>").replace(work, "<WORK>")
    if "Traceback" in err:
        err = "Traceback ... " + err.strip().splitlines()[-1]
    return [p.returncode, p.stdout.replace(tree, "<TREE>").replace(work, "<WORK>"), err, files_now()]

put("named.asm", ["        NAM NAMED\n", "        ORG $0E00\n", "START   LDA #1\n", INC % "nolabel.asm", "        JMP START\n", "        END START\n"])
put("unnamed.asm", ["        ORG $2000\n", "START   LDA #1\n", INC % "nolabel.asm", "        JMP START\n"])
put("noorg.asm", ["START   LDA #1\n", "        JMP START\n"])
put("broken.asm", ["        ORG $0E00\n", "        LDA MISSING\n"])
put("unparsable.asm", ["        ORG $0E00\n", "GARBAGE\n"])
put("nothing.asm", [])

OPTION_SETS = [
    [], ["--symbols"], ["--print"], ["--symbols", "--print"], ["--print", "--symbols", "--width", "40"],
    ["--to_bin", "@.bin"], ["--to_cas", "@.cas"], ["--to_dsk", "@.dsk"], ["--to_cas", "@n.cas", "--name", "GIVEN"],
    ["--to_dsk", "@n.dsk", "--name", "given"], ["--to_bin", "@.bin"], ["--to_bin", "@.bin", "--append"],
    ["--to_cas", "@n.cas", "--name", "OTHER", "--append"], ["--to_dsk", "@n.dsk", "--name", "OTHER", "--append", "--symbols"],
    ["--to_bin", "@b.bin", "--to_cas", "@c.cas", "--to_dsk", "@d.dsk", "--name", "ALL3", "--print"],
    ["--to_cas", "@x.cas", "--to_dsk", "@x.dsk"],
]
for source in ("named", "unnamed", "noorg", "broken", "unparsable", "nothing", "inc_cross_refs_main", "basic_deep3_main", "inc_cycle3_main",
               "inc_missing_main"):
    for n, options in enumerate(OPTION_SETS):
        opts = [o.replace("@", source) for o in options]
        case("opts:%s:%d" % (source, n), lambda source=source, opts=opts: run_cli(source + ".asm", *opts))
case("opts:missing_source", lambda: run_cli("no_such_source.asm", "--print"))
case("opts:no_args", lambda: run_cli())
case("opts:bad_width", lambda: run_cli("named.asm", "--width", "x"))

# in process: main() with a prepared namespace, stdout captured
spec = importlib.util.spec_from_file_location("assembler_front_end", os.path.join(tree, "assembler.py"))
front_end = importlib.util.module_from_spec(spec)
spec.loader.exec_module(front_end)

def run_main(filename, **options):
    namespace = argparse.Namespace(filename=filename, symbols=False, print=False, to_bin=None, to_cas=None, to_dsk=None,
                                   name=None, append=False, width=100)
    for key, value in options.items():
        setattr(namespace, key, value)
    stream = io.StringIO()
    with contextlib.redirect_stdout(stream):
        outcome = attempt(lambda: front_end.main(namespace))
    return [outcome, stream.getvalue().replace(work, "<WORK>"), files_now()]

for source in ("named", "unnamed", "noorg", "broken", "unparsable", "nothing", "pcr_mid_main", "inc_self_main"):
    case("main:%s:plain" % source, lambda source=source: run_main(source + ".asm"))
    case("main:%s:both" % source, lambda source=source: run_main(source + ".asm", symbols=True, print=True))
    case("main:%s:cas" % source, lambda source=source: run_main(source + ".asm", to_cas=source + "_m.cas", name="MAINRUN", symbols=True))
    case("main:%s:dsk_noname" % source, lambda source=source: run_main(source + ".asm", to_dsk=source + "_m.dsk", print=True))

CLI_PROGRAMS = ["basic", "data", "pcr", "dup_label", "bad_mnemonic", "bad_line", "empty", "only_comments"]

# every program: cold-ish (first time in this process), again after everything else, and in reverse order
names = list(PROGRAMS)
for name in names:
    case("asm1:" + name, lambda name=name: assemble(PROGRAMS[name]))
for name in reversed(names):
    case("asm2:" + name, lambda name=name: assemble(PROGRAMS[name]))
for name in names[::3]:
    case("asm3:" + name, lambda name=name: [assemble(PROGRAMS[name]), assemble(PROGRAMS[name])])

def snapshot():
    out = {}
    for n in sorted(os.listdir(work)):
        path = os.path.join(work, n)
        if os.path.isfile(path) and not n.endswith(".asm"):
            with open(path, "rb") as f:
                out[n] = hashlib.sha256(f.read()).hexdigest() + ":" + str(os.path.getsize(path))
    return out

def cli(*args, seed="0"):
    env = dict(os.environ, PYTHONHASHSEED=seed, PYTHONDONTWRITEBYTECODE="1")
    p = subprocess.run([sys.executable, os.path.join(tree, "assembler.py")] + list(args), cwd=work,
                       capture_output=True, text=True, env=env)
    err = p.stderr.replace(tree, "<TREE>")
    if "Traceback" in err:
        err = "Traceback ... " + err.strip().splitlines()[-1]
    return [p.returncode, p.stdout.replace(tree, "<TREE>"), err, snapshot()]

for name in names:
    with open(os.path.join(work, name + ".asm"), "w") as f:
        f.writelines(PROGRAMS[name])
for index, name in enumerate(CLI_PROGRAMS):
    case("cli:" + name, lambda name=name, index=index: cli(name + ".asm", "--print", "--symbols", "--to_bin", name + ".bin",
                                              seed=str(index * 7919 % 1000)))

for name, fn in CASES:
    print(json.dumps([name, attempt(fn)], sort_keys=True))
print(json.dumps(["#cases", len(CASES)]))
'''


def run(tree):
    tree = os.path.abspath(tree)
    with tempfile.TemporaryDirectory() as tmp:
        driver = os.path.join(tmp, "driver.py")
        work = os.path.join(tmp, "work")
        os.mkdir(work)
        with open(driver, "w") as handle:
            handle.write(DRIVER)
        env = dict(os.environ, PYTHONDONTWRITEBYTECODE="1", PYTHONHASHSEED="0")
        env.pop("PYTHONPATH", None)
        proc = subprocess.run([sys.executable, driver, tree, work], cwd=tree, env=env,
                              capture_output=True, text=True)
        return proc.returncode, proc.stdout.replace(work, "<WORK>"), proc.stderr.replace(tree, "<TREE>")


def main():
    if len(sys.argv) != 3:
        print(__doc__)
        return 2
    a = run(sys.argv[1])
    b = run(sys.argv[2])
    if a[0] != 0 or b[0] != 0:
        print("driver failed:", a[0], a[2][-2000:], b[0], b[2][-2000:])
        return 1
    lines_a, lines_b = a[1].splitlines(), b[1].splitlines()
    bad = 0
    for la, lb in zip(lines_a, lines_b):
        if la != lb:
            bad += 1
            print("DIFF\n  A: %s\n  B: %s" % (la[:600], lb[:600]))
    if len(lines_a) != len(lines_b):
        bad += 1
        print("different number of records: %d vs %d" % (len(lines_a), len(lines_b)))
    count = json.loads(lines_a[-1])[1] if lines_a else 0
    if count < 30:
        print("too few cases:", count)
        return 1
    print("%d cases compared, %d differences" % (count, bad))
    return 1 if bad else 0


if __name__ == "__main__":
    sys.exit(main())
