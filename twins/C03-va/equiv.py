#!/venv/bin/python
"""
Differential check for the C03 'va' refactoring (branch arm of Statement.fix_addresses).

usage: equiv.py <treeA> <treeB>

Runs the same set of programs through the code of both trees (one subprocess per
tree, tree at the front of sys.path and as cwd) and compares binary image,
listing lines, symbol table, origin/name and exception type + message.  Also
calls Statement.fix_addresses directly on hand-built statement lists.
"""
import json
import os
import subprocess
import sys

WORKER = r'''
import json, sys
tree = sys.argv[1]
sys.path.insert(0, tree)
from cocoasm.program import Program
from cocoasm.statement import Statement
from cocoasm.values import NumericValue

SHORT = ["BCC", "BCS", "BEQ", "BGE", "BGT", "BHI", "BHS", "BLE", "BLO", "BLS", "BLT", "BMI", "BNE", "BPL",
         "BRA", "BRN", "BSR", "BVC", "BVS"]
LONG = ["L" + m for m in SHORT]


def filler(count):
    """count bytes of code: a mix of statement sizes, the bulk of a long gap as one RMB"""
    lines = []
    if count > 300:
        lines.append("  RMB %d" % (count - 300))
        count = 300
    for text, size in (("  JMP $1234", 3), ("  LDA #$01", 2), ("  NOP", 1)) * 40:
        if size <= count:
            lines.append(text)
            count -= size
    lines.extend(["  NOP"] * count)
    return lines


def forward(mnemonic, gap):
    return ["  ORG $2000", "START %s TARGET" % mnemonic] + filler(gap) + ["TARGET RTS", "  END START"]


def backward(mnemonic, gap):
    return ["  ORG $2000", "TARGET NOP"] + filler(gap) + ["  %s TARGET" % mnemonic, "  RTS"]


cases = []
for m in SHORT + LONG:
    cases.append(("fwd0 " + m, forward(m, 0)))
    cases.append(("bwd0 " + m, backward(m, 0)))
    cases.append(("self " + m, ["  ORG $0E00", "HERE %s HERE" % m]))
for gap in list(range(118, 137)) + [0, 1, 2, 3, 50, 200, 255, 256, 257, 1000]:
    for m in ("BRA", "BNE", "BSR", "LBRA", "LBEQ", "LBSR"):
        cases.append(("fwd%d %s" % (gap, m), forward(m, gap)))
        cases.append(("bwd%d %s" % (gap, m), backward(m, gap)))
for gap in [32750, 32759, 32760, 32761, 32762, 32763, 32764, 32765, 32766, 32767, 32768, 32769, 32770, 32775,
            40000, 65000, 65530, 65533, 65534, 65535, 65536, 65540]:
    for m in ("LBRA", "LBNE", "BRA"):
        cases.append(("fwd%d %s" % (gap, m), forward(m, gap)))
        cases.append(("bwd%d %s" % (gap, m), backward(m, gap)))
# several branches and PCR statements between source and target
cases.append(("mixed", [
    "  ORG $3000", "A LEAX DONE,PCR", "  BRA C", "B LDA TBL,PCR", "  LBRA A", "  BEQ B", "C LDX [TBL,PCR]",
    "  BSR A", "  LBSR DONE", "TBL FCB 1,2,3", "DONE RTS", "  BNE C", "  LBNE TBL"]))
cases.append(("pcr near limit", ["  ORG $100", "S LEAX T,PCR", "  BRA T"] + filler(121) + ["T RTS", "  BRA S"]))
cases.append(("pcr past limit", ["  ORG $100", "S LEAX T,PCR", "  BRA T"] + filler(126) + ["T RTS", "  BRA S"]))
cases.append(("undefined", ["  BRA NOWHERE"]))
cases.append(("numeric", ["  ORG $10", "  BRA $20", "  LBRA $4000"]))
cases.append(("equ target", ["X EQU $20", "  BRA X"]))
cases.append(("no origin", ["L1 NOP", "  BRA L1", "  BRA L2", "L2 NOP"]))


def run_program(lines):
    result = {}
    try:
        program = Program()
        program.process([line + " " for line in lines])
        result["binary"] = list(program.get_binary_array())
        result["listing"] = [str(s) for s in program.get_statements()]
        result["symbols"] = [str(s) for s in program.get_symbol_table()]
        result["origin"] = str(program.origin)
        result["name"] = str(program.name)
    except BaseException as error:
        result["error"] = [type(error).__name__, str(error)]
    return result


def run_direct(mnemonic, sizes, this_index, target_index):
    """fix_addresses on a hand-built statement list with the given code sizes"""
    result = {}
    try:
        program = Program()
        lines = ["L%d NOP" % p for p in range(len(sizes))]
        lines[this_index] = "L%d %s L%d" % (this_index, mnemonic, target_index)
        program.statements = Program.parse([line + " " for line in lines])
        program.statements = Program.process_mnemonics(program.statements)
        for index, s in enumerate(program.statements):
            program.save_symbol(index, s)
        for s in program.statements:
            s.resolve_symbols(program.symbol_table)
        for s in program.statements:
            s.translate()
        for s, size in zip(program.statements, sizes):
            s.code_pkg.size = size
        branch = program.statements[this_index]
        branch.fix_addresses(program.statements, this_index)
        result["additional"] = [branch.code_pkg.additional.hex(), branch.code_pkg.additional.int,
                                type(branch.code_pkg.additional).__name__, branch.code_pkg.additional.hex_len()]
        result["listing"] = str(branch)
    except BaseException as error:
        result["error"] = [type(error).__name__, str(error)]
    return result


out = {}
for name, lines in cases:
    out["prog " + name] = run_program(lines)
for mnemonic in ("BRA", "LBRA", "BSR", "LBHI"):
    for sizes, here, there in [
        ([0, 0, 0], 1, 0), ([0, 0, 0], 0, 2), ([0, 0, 0], 1, 1), ([2, 2, 2], 1, 1),
        ([126, 2, 1], 1, 0), ([127, 2, 1], 1, 0), ([1, 2, 127, 1], 1, 3), ([1, 2, 128, 1], 1, 3),
        ([65533, 3, 1], 1, 0), ([65534, 3, 1], 1, 0), ([70000, 3, 1], 1, 0), ([1, 3, 65535, 1], 1, 3),
        ([1, 3, 65536, 1], 1, 3), ([1, 3, 70000, 1], 1, 3), ([100, 28, 2], 2, 0), ([100, 27, 2], 2, 0),
    ]:
        out["direct %s %r %d->%d" % (mnemonic, sizes, here, there)] = run_direct(mnemonic, sizes, here, there)
json.dump(out, sys.stdout, sort_keys=True)
'''


def run(tree):
    tree = os.path.abspath(tree)
    done = subprocess.run([sys.executable, "-c", WORKER, tree], cwd=tree, capture_output=True, text=True)
    if done.returncode != 0:
        print("worker failed for", tree)
        print(done.stderr)
        sys.exit(1)
    return json.loads(done.stdout)


def main():
    if len(sys.argv) != 3:
        print(__doc__)
        return 1
    first, second = run(sys.argv[1]), run(sys.argv[2])
    bad = 0
    for key in sorted(set(first) | set(second)):
        if first.get(key) != second.get(key):
            bad += 1
            print("DIFFERENT:", key)
            print("   A:", str(first.get(key))[:300])
            print("   B:", str(second.get(key))[:300])
    errors = sum(1 for v in first.values() if "error" in v)
    print("%d cases (%d of them errors in tree A), %d differences" % (len(first), errors, bad))
    return 1 if bad else 0


if __name__ == "__main__":
    sys.exit(main())
