#!/usr/bin/env python
"""
Differential demonstration: runs the same set of cases against two source
trees (one subprocess per tree, the tree at the front of sys.path and as the
working directory) and compares every observable result.

usage: equiv.py <treeA> <treeB>      exit 0 = all cases agree, 1 = otherwise
"""
import json
import os
import subprocess
import sys

PYTHON = "/venv/bin/python" if os.path.exists("/venv/bin/python") else sys.executable

DRIVER_HEAD = r'''
import contextlib, enum, hashlib, io, json, os, shutil, subprocess, sys, tempfile
TREE = os.path.abspath(sys.argv[1])
PYTHON = sys.argv[2]
sys.path.insert(0, TREE)
os.chdir(TREE)
RESULTS = []


def norm(text):
    return str(text).replace(TREE, "<TREE>")


def show(obj, depth=0):
    """Canonical, address-free, JSON-able rendering of a result."""
    if depth > 20:
        return "<deep>"
    if obj is None or isinstance(obj, (bool, int, float)):
        return obj
    if isinstance(obj, str):
        return norm(obj)
    if isinstance(obj, (bytes, bytearray)):
        return {"bytes": bytes(obj).hex()}
    if isinstance(obj, enum.Enum):
        return str(obj)
    if isinstance(obj, dict):
        return {"dict": [[show(k, depth), show(v, depth)] for k, v in obj.items()]}
    if hasattr(obj, "_asdict"):
        if type(obj).__name__ in ("Instruction", "Mode") and depth > 0:
            return "<{} {}>".format(type(obj).__name__, getattr(obj, "mnemonic", ""))
        return {"nt": type(obj).__name__, "f": show(obj._asdict(), depth + 1)}
    if isinstance(obj, (list, tuple, set, frozenset)):
        items = list(obj)
        if len(items) > 600 and all(isinstance(i, int) and not isinstance(i, bool) for i in items):
            blob = ",".join(map(str, items)).encode()
            return {type(obj).__name__: len(items), "sha": hashlib.sha256(blob).hexdigest(),
                    "head": items[:24], "tail": items[-24:]}
        return {type(obj).__name__: [show(i, depth + 1) for i in items]}
    if hasattr(obj, "__dict__"):
        return {"obj": type(obj).__name__, "vars": show(vars(obj), depth + 1)}
    return norm(repr(obj))


def case(label, fn):
    out_buf, err_buf = io.StringIO(), io.StringIO()
    try:
        with contextlib.redirect_stdout(out_buf), contextlib.redirect_stderr(err_buf):
            value = fn()
        out = {"ok": show(value)}
    except SystemExit as error:
        out = {"exit": show(error.code)}
    except BaseException as error:
        out = {"exc": type(error).__name__, "msg": norm(error)}
    out["stdout"] = norm(out_buf.getvalue())
    out["stderr"] = norm(err_buf.getvalue())
    RESULTS.append([label, out])


def cli(tool, argv, files=None, keep=None):
    """
    Runs <TREE>/<tool> with argv inside a fresh temporary directory that first
    receives `files` (name -> str or bytes). Returns return code, stdout, the
    last line of stderr and name/size/sha256 of every file left behind.
    """
    work = keep or tempfile.mkdtemp(prefix="equiv")
    try:
        for name, content in (files or {}).items():
            mode = "wb" if isinstance(content, (bytes, bytearray)) else "w"
            with open(os.path.join(work, name), mode) as handle:
                handle.write(content)
        env = dict(os.environ, PYTHONPATH=TREE, PYTHONDONTWRITEBYTECODE="1", COLUMNS="80")
        done = subprocess.run([PYTHON, os.path.join(TREE, tool)] + list(argv), cwd=work, env=env,
                              capture_output=True, text=True, timeout=600)
        left = {}
        for name in sorted(os.listdir(work)):
            with open(os.path.join(work, name), "rb") as handle:
                blob = handle.read()
            left[name] = [len(blob), hashlib.sha256(blob).hexdigest()]
        err_lines = [line for line in done.stderr.splitlines() if line.strip()]
        return {"rc": done.returncode, "stdout": norm(done.stdout).replace(work, "<WORK>"),
                "stderr_last": norm(err_lines[-1]).replace(work, "<WORK>") if err_lines else "",
                "files": left}
    finally:
        if not keep:
            shutil.rmtree(work, ignore_errors=True)


def read_back(work, name):
    with open(os.path.join(work, name), "rb") as handle:
        return handle.read()

'''

DRIVER_TAIL = r'''
print("@@RESULTS@@" + json.dumps(RESULTS))
'''

DRIVER_ASM = r'''
import signal
from cocoasm.exceptions import TranslationError, ParseError
from cocoasm.instruction import INSTRUCTIONS
from cocoasm.program import Program


WATCHDOG_SECONDS = 20


class OutOfTime(BaseException):
    pass


def out_of_time(signum, frame):
    raise OutOfTime()


def safe(fn):
    try:
        return fn()
    except Exception as error:
        return "<{}: {}>".format(type(error).__name__, error)


def assemble(lines):
    """Everything observable about assembling `lines` (a list of source lines)."""
    program = Program()
    signal.signal(signal.SIGALRM, out_of_time)
    signal.alarm(WATCHDOG_SECONDS)
    try:
        program.process([line + "\n" for line in lines])
    except (TranslationError, ParseError) as error:
        return ["diagnostic", type(error).__name__, str(error.value), str(error), safe(lambda: str(error.statement))]
    except OutOfTime:
        return ["does not terminate"]
    except Exception as error:
        return ["crash", type(error).__name__, str(error)]
    finally:
        signal.alarm(0)
    shape = [[safe(lambda: s.code_pkg.size), safe(lambda: s.code_pkg.max_size), s.fixed_size, s.pcr_size_hint,
              type(s.operand).__name__, safe(lambda: s.code_pkg.address.hex(size=4))] for s in program.statements]
    return ["ok", safe(program.get_binary_array), safe(program.get_statements), safe(program.get_symbol_table),
            safe(lambda: program.origin.hex()), program.name, shape]


MNEMONICS = [instruction.mnemonic for instruction in INSTRUCTIONS]

OPERANDS = [
    "", "#0", "#1", "#$7F", "#$FF", "#255", "#256", "#-1", "#-128", "#-129", "#$1234", "#65535", "#65536", "#70000",
    "#%10101010", "#%1010", "#'A", "#SYM", "#BYTE", "#WORD", "#HERE",
    "0", "1", "$12", "$1234", "$12345", "255", "256", "65535", "65536", "70000", "-1", "-32768", "-32769",
    "<$12", "<$1234", "<256", "<WORD", "<BYTE", ">$12", ">$1234", ">1", ">BYTE", "<", ">",
    "%00001111", "%0000111100001111", "%101", "'A", "BYTE", "WORD", "HERE", "THERE", "UNDEFINED", "HERE+1", "WORD-BYTE",
    "BYTE+HERE", "HERE-THERE",
    "[$12]", "[$1234]", "[70000]", "[HERE]", "[WORD]", "[BYTE]", "[UNDEFINED]", "[,X]", "[,Y++]", "[,--U]", "[,S+]",
    "[,-X]", "[A,X]", "[B,Y]", "[D,U]", "[5,X]", "[-5,Y]", "[$7F,U]", "[$80,S]", "[$1234,X]", "[-129,Y]", "[HERE,X]",
    "[HERE,PCR]", "[5,PCR]", "[$1234,PCR]", "[WORD,X]", "[BYTE,Y]", "[0,X]", "[5,Z]", "[1,PC]", "[,X++]", "[]", "[,]",
    ",X", ",Y", ",U", ",S", ",X+", ",X++", ",-X", ",--X", ",Y+", ",--S", ",Z", ",PC", ",PCR", ",", "0,X", "1,X", "15,X",
    "16,X", "-16,X", "-17,Y", "127,U", "128,S", "-128,X", "-129,X", "255,X", "256,X", "$7FFF,Y", "65535,X", "70000,X",
    "-32768,X", "A,X", "B,Y", "D,U", "E,X", "5,Z", "1,PC", "5,PCR", "-5,PCR", "$1234,PCR", "HERE,PCR", "THERE,PCR",
    "HERE,X", "WORD,X", "BYTE,X", "UNDEFINED,X", "HERE+1,PCR", "HERE+1,X", "5,X+", "5,-X", "A,X+", "X,Y", "A,B",
    "A", "B", "D", "X", "Y", "U", "S", "PC", "CC", "DP", "Z", "A,B,X", "CC,A,B,DP,X,Y,U,PC", "CC,A,B,DP,X,Y,S,PC",
    "D,X", "X,D", "A,X ", "PC,X", "A,CC", "DP,B", "U,S", "a,b", "A,,B", ",A", "A,", "X,Y,U", "D,D", "A,D",
    '"text"', "/text/", "1,2,3", "$1234,$5678", "1,", "'", "#", "#,", "[", "]", "++", "--", "+", "-", "*", "*+2", "$", "%", "!",
]

PROLOGUE = ["BYTE EQU $12", "WORD EQU $1234", "SYM EQU 5"]


def wrap(mnemonic, operand):
    """A program with a label before and after the statement under test."""
    return PROLOGUE + ["HERE NOP", " {} {}".format(mnemonic, operand), "THERE NOP", " NOP"]


def sweep(mnemonic):
    return [[operand, assemble(wrap(mnemonic, operand))] for operand in OPERANDS]

'''

DRIVER_CASES = DRIVER_ASM + r'''
from cocoasm.values import Value, ExpressionValue, NumericValue, AddressValue, NoneValue, StringValue, SymbolValue, \
    ExplicitAddressingMode
from cocoasm.instruction import CodePackage
from cocoasm.statement import Statement

SIDES = ["0", "1", "3", "200", "65535", "$02", "$FF", "$0100", "$FFFF", "BYTE", "WORD", "SYM", "ZERO", "BIG", "HERE",
         "THERE", "NOWHERE"]
OPERATORS = "+-*/"
EXPRESSIONS = [left + operator + right for left in SIDES for operator in OPERATORS for right in SIDES]
EXPRESSION_PROLOGUE = ["BYTE EQU $12", "WORD EQU $1234", "SYM EQU 5", "ZERO EQU 0", "BIG EQU 40000"]


def expression_program(statement, expression):
    return EXPRESSION_PROLOGUE + ["HERE NOP", " " + statement.format(expression), "THERE NOP", " NOP"]


# 1. every expression in every position where an operand can hold one
for statement in ("LDA {}", "LDA #{}", "LDX #{}", "STA <{}", "STB >{}", "JMP [{}]", "LDA {},X", "LDD [{},Y]", "LEAX {},PCR",
                  "LDU [{},PCR]", "BRA {}", "LBSR {}", "FCB {}", "FDB {}", "RMB {}", "ORG {}", "SETDP {}", "END {}",
                  "FCB 1,{}", "NOP {}", "PSHS {}", "CLR {}"):
    case("in " + statement, lambda: [[e, assemble(expression_program(statement, e))] for e in EXPRESSIONS])
case("equ", lambda: [[e, assemble(EXPRESSION_PROLOGUE + ["HERE NOP", "RESULT EQU " + e, " LDA RESULT", " LDX #RESULT",
                                                         "THERE NOP"])] for e in EXPRESSIONS])

# 2. malformed and unusual expressions
ODD = ["1+", "+1", "1++1", "1+-1", "1+1+1", "A+B", "A+1", "1+A", "X+Y", "$+1", "$$1+1", "$1+$", "1 + 1", "1+$G", "_+_",
       "HERE+HERE", "HERE-HERE", "HERE*2", "HERE/2", "2*HERE", "2/HERE", "HERE/ZERO", "THERE-HERE", "BYTE+WORD",
       "WORD*WORD", "ZERO-SYM", "SYM/ZERO", "ZERO/ZERO", "BIG+BIG", "BIG*2", "1-2", "0-32768", "0-32769", "65535+1",
       "%101+1", "'A+1", "1+'A", "<1+1", ">1+1", "#1+1", "1+#1", "HERE+1+1", "(1+1)", "1+1,", "1*1*", "1/3", "7/2", "$7/$2"]
for statement in ("LDA {}", "LDX #{}", "LDA {},X", "LEAY {},PCR", "FDB {}", "BNE {}", "JSR [{}]"):
    case("odd in " + statement, lambda: [[e, assemble(expression_program(statement, e))] for e in ODD])


# 3. the class on its own: construction, resolution against all kinds of symbol tables, state afterwards
def resolution(text, table, mode=None, operation=None):
    def run():
        try:
            value = ExpressionValue(text) if mode is None else ExpressionValue(text, mode=mode)
        except Exception as error:
            return ["not built", type(error).__name__, str(error)]
        if operation is not None:
            value.operation = operation
        before = show(value)
        try:
            resolved = value.resolve(table)
            outcome = [type(resolved).__name__, resolved is value, show(resolved), safe(resolved.hex),
                       safe(resolved.hex_len)]
        except Exception as error:
            outcome = ["raised", type(error).__name__, str(error)]
        return [before, outcome, show(value), safe(value.hex), safe(value.hex_len)]
    return run


TABLES = {
    "empty": {},
    "numbers": {"A": NumericValue(7), "B": NumericValue("$20"), "C": NumericValue("$1234"), "Z": NumericValue(0),
                "N": NumericValue(-3), "W": NumericValue(300)},
    "addresses": {"A": AddressValue(1), "B": AddressValue(2), "C": AddressValue(0), "Z": AddressValue(9)},
    "mixed": {"A": AddressValue(4), "B": NumericValue(2), "C": NumericValue("$FFFF"), "Z": NumericValue("$00")},
    "strange": {"A": StringValue('"AB"'), "B": NoneValue(), "C": SymbolValue("D"), "Z": NumericValue(1)},
    "not values": {"A": 5, "B": "text", "C": None, "Z": NumericValue(1)},
}
TEXTS = ["A+B", "B-A", "A*B", "A/B", "A/Z", "Z/A", "C+C", "C*C", "C-A", "A-C", "N+A", "A+N", "W*W", "A+1", "1+A", "$10+A",
         "A+$10", "A+$1000", "$1000-A", "1+2", "$10*$10", "$0100/2", "5/0", "Q+1", "1+Q", "Q+Q", "A+Q", "B*3", "3*B", "C/3"]
for table_name, table in TABLES.items():
    for text in TEXTS:
        case("resolve {} in {}".format(text, table_name), resolution(text, dict(table)))
for mode in ExplicitAddressingMode:
    case("resolve mode {}".format(mode), resolution("A+$1000", dict(TABLES["numbers"]), mode=mode))
    case("resolve mode short {}".format(mode), resolution("A+1", dict(TABLES["numbers"]), mode=mode))
for operation in ("%", "", "**", None, "+"):
    case("resolve forced operation {!r}".format(operation), resolution("A+B", dict(TABLES["numbers"]), operation=operation or "&"))


def twice(text, table):
    def run():
        value = ExpressionValue(text)
        first = safe(lambda: show(value.resolve(dict(table))))
        second = safe(lambda: show(value.resolve(dict(table))))
        return [first, second, show(value)]
    return run


for text in ("A+B", "A/Z", "Q+1", "A+1"):
    for table_name in ("numbers", "addresses", "mixed"):
        case("twice {} in {}".format(text, table_name), twice(text, TABLES[table_name]))


# 4. address expressions once statements have addresses
def offsets(text, table, addresses):
    def run():
        value = ExpressionValue(text).resolve(dict(table))
        statements = []
        for address in addresses:
            statement = Statement(" NOP \n")
            statement.code_pkg = CodePackage(address=NumericValue(address), size=1, max_size=1)
            statements.append(statement)
        return [show(value), safe(lambda: show(value.extract_address_index_from_expression())),
                safe(lambda: show(value.calculate_address_offset(statements)))]
    return run


for text in ("A+1", "1+A", "A-1", "A*2", "A/2", "A+B", "B+A", "A-B", "A+$100", "A/0", "A-9", "A*9"):
    case("offset " + text, offsets(text, TABLES["mixed"], [0, 0x10, 0x20, 0x30, 0x4000, 0xFFF0]))
    case("offset short " + text, offsets(text, TABLES["mixed"], [0, 0x10]))

# 5. every mnemonic with the general operand list, and the command line front end
for mnemonic in MNEMONICS[::3]:
    case("sweep-" + mnemonic, lambda: sweep(mnemonic))


def front_end(lines, switches=("--print", "--symbols", "--to_bin", "p.bin", "--to_cas", "p.cas", "--to_dsk", "p.dsk")):
    return cli("assembler.py", ["p.asm"] + list(switches), files={"p.asm": "\n".join(lines) + "\n"})


for expression in ("1+2", "HERE+1", "THERE-HERE", "SYM/ZERO", "BIG*2", "NOWHERE+1", "WORD-BYTE", "1+"):
    case("cli lda " + expression, lambda: front_end([" NAM EXPR"] + expression_program("LDA {}", expression)))
    case("cli leax pcr " + expression, lambda: front_end([" NAM EXPR"] + expression_program("LEAX {},PCR", expression)))
'''


def run_tree(tree):
    tree = os.path.abspath(tree)
    env = dict(os.environ, PYTHONDONTWRITEBYTECODE="1")
    done = subprocess.run([PYTHON, "-c", DRIVER_HEAD + DRIVER_CASES + DRIVER_TAIL, tree, PYTHON],
                          cwd=tree, env=env, capture_output=True, text=True)
    marker = done.stdout.rfind("@@RESULTS@@")
    if done.returncode != 0 or marker < 0:
        print("driver failed for", tree)
        print(done.stdout[-2000:])
        print(done.stderr[-4000:])
        sys.exit(1)
    return json.loads(done.stdout[marker + len("@@RESULTS@@"):])


def main():
    if len(sys.argv) != 3:
        print(__doc__)
        sys.exit(2)
    first, second = run_tree(sys.argv[1]), run_tree(sys.argv[2])
    bad = 0
    if [label for label, _ in first] != [label for label, _ in second]:
        print("case lists differ")
        bad += 1
    for (label, left), (_, right) in zip(first, second):
        if left != right:
            bad += 1
            print("DIFF in case", label)
            print("  A:", json.dumps(left)[:1500])
            print("  B:", json.dumps(right)[:1500])
    print("{} cases compared, {} differ".format(len(first), bad))
    sys.exit(1 if bad or len(first) < 30 else 0)


if __name__ == "__main__":
    main()
