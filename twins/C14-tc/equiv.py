#!/usr/bin/env python
"""
Differential demonstration: runs the same battery of cases against two source
trees of CoCoAssembler (one subprocess per tree, the tree first on sys.path and
used for the command-line tools) and compares every observable result.

usage: equiv.py <treeA> <treeB>        exit 0 = all agree, 1 = a difference
"""
import json
import os
import subprocess
import sys
import tempfile

FOCUS = "CassetteFile.add_file / append_leader / append_blank / list_files / read_coco_file_name (cas/pieces, cas/multi with filters, cas/reader_errors, vf/cassette append, file_util --list) plus the whole battery"

DRIVER = r'''
import sys, os, json, hashlib, signal, subprocess, io, contextlib

tree, tmp = os.path.abspath(sys.argv[1]), os.path.abspath(sys.argv[2])
sys.path.insert(0, tree)
sys.dont_write_bytecode = True
os.chdir(tmp)
PY = sys.executable
RESULTS = {}


class Timeout(Exception):
    pass


def _alarm(signum, frame):
    raise Timeout()


signal.signal(signal.SIGALRM, _alarm)


def digest(seq):
    """Compact but complete description of a byte list."""
    seq = list(seq)
    raw = ",".join(str(x) for x in seq).encode()
    if len(seq) <= 600:
        return {"len": len(seq), "bytes": seq}
    return {"len": len(seq), "sha1": hashlib.sha1(raw).hexdigest(), "head": seq[:64], "tail": seq[-64:]}


def describe_exc(error):
    out = {"exc": type(error).__name__, "str": str(error)}
    if hasattr(error, "value"):
        out["value"] = repr(error.value)
    if hasattr(error, "statement"):
        try:
            out["statement"] = str(error.statement)
        except Exception as inner:
            out["statement"] = "unprintable:" + type(inner).__name__
    return out


def case(name, fn, seconds=20):
    signal.alarm(seconds)
    try:
        out = {"ok": fn()}
    except Timeout:
        out = {"timeout": True}
    except BaseException as error:
        out = describe_exc(error)
    finally:
        signal.alarm(0)
    assert name not in RESULTS, name
    RESULTS[name] = out


def val(v):
    if v is None:
        return None
    if isinstance(v, (str, int, bool)):
        return v
    try:
        return {"cls": type(v).__name__, "hex": v.hex(), "hex4": v.hex(size=4), "int": v.int, "hi": v.high_byte(),
                "lo": v.low_byte(), "len": v.hex_len(), "neg": v.negative, "mode": v.explict_addressing_mode.name,
                "hint": v.size_hint, "type": v.type.name}
    except Exception as error:
        return {"cls": type(v).__name__, "err": type(error).__name__ + ":" + str(error)}


def coco(f):
    if f is None:
        return None
    return {"name": f.name, "ext": f.extension, "type": val(f.type), "load": val(f.load_addr),
            "exec": val(f.exec_addr), "dtype": val(f.data_type), "gaps": val(f.gaps), "ascii": f.ascii,
            "data": digest(f.data), "ignore_gaps": f.ignore_gaps, "str": str(f)}


# ----------------------------------------------------------------- programs --
from cocoasm.program import Program
from cocoasm.statement import Statement
from cocoasm.values import Value, NumericValue, NoneValue, AddressValue, StringValue, MultiByteValue, \
    MultiWordValue, SymbolValue, ExpressionValue, LeftRightValue, DirectNumericValue, ExtendedNumericValue
from cocoasm.operands import Operand
from cocoasm.instruction import INSTRUCTIONS
from cocoasm.virtualfiles.coco_file import CoCoFile
from cocoasm.virtualfiles.cassette import CassetteFile
from cocoasm.virtualfiles.disk import DiskFile, DiskConstants, MLPreamble, BasicPreamble, ASCIIPreamble, Postamble
from cocoasm.virtualfiles.binary import BinaryFile
from cocoasm.virtualfiles.virtual_file import VirtualFile, VirtualFileType
from cocoasm.virtualfiles.source_file import SourceFile, SourceFileType

with open("inc1.asm", "w") as f:
    f.write("INCA   LDA #$01\n       RTS\n")
with open("self.asm", "w") as f:
    f.write("       INCLUDE self.asm\n")
with open("incbad.asm", "w") as f:
    f.write("       FOO 1\n")

PROGRAMS = {
    "empty": [],
    "comments": ["; only a comment", "", "   ; another"],
    "basic": ["       NAM HELLO", "       ORG $0E00", "START  LDA #$41", "       STA $0400", "LOOP   BRA LOOP", "       END START"],
    "noorg": ["       LDA #1", "       RTS"],
    "two_org": ["       ORG $1000", "       NOP", "       ORG $2000", "       NOP"],
    "two_nam": ["       NAM first", "       NAM second", "       NOP"],
    "nam_long": ["       NAM abcdefghijkl", "       ORG $3F00", "       RTS"],
    "immediates": ["       LDA #255", "       LDB #%10101010", "       LDD #$1234", "       LDX #65535", "       LDY #-1",
                   "       LDS #'A", "       CMPU #$10", "       ANDCC #$FE", "       ORCC #1", "       CWAI #$FF"],
    "direct_ext": ["       LDA $10", "       LDA $0010", "       LDA <$10", "       LDA >$10", "       LDA 16", "       LDA 256",
                   "       STA <255", "       JMP $FFFF", "       JSR >$00", "       LDA >%00001111", "       LDA %0000111100001111"],
    "indexed": ["       LDA ,X", "       LDA ,Y+", "       LDA ,U++", "       LDA ,-S", "       LDA ,--X", "       LDA 0,X",
                "       LDA 5,X", "       LDA -5,Y", "       LDA 15,X", "       LDA 16,X", "       LDA -16,X", "       LDA -17,X",
                "       LDA 127,U", "       LDA 128,U", "       LDA -128,S", "       LDA -129,S", "       LDA $1234,X",
                "       LDA A,X", "       LDA B,Y", "       LDA D,U", "       LEAX 1,X", "       LEAY -1,Y", "       LEAS $10,S",
                "       STD 300,X", "       LDA $10,PCR", "       LDA $1000,PCR"],
    "indirect": ["       LDA [,X]", "       LDA [,Y++]", "       LDA [,--U]", "       LDA [0,S]", "       LDA [5,X]", "       LDA [-5,X]",
                 "       LDA [200,Y]", "       LDA [-200,Y]", "       LDA [A,X]", "       LDA [B,X]", "       LDA [D,X]",
                 "       LDA [$1234]", "       JMP [$FFFE]", "       LDA [$10,PCR]", "       LDA [$1000,PCR]"],
    "indirect_bad1": ["       LDA [,X+]"],
    "indirect_bad2": ["       LDA [,-X]"],
    "indexed_bad1": ["       LDA 5,X+"],
    "indexed_bad2": ["       LDA 5,-X"],
    "indexed_noind": ["       ANDCC ,X"],
    "pcr_fwd": ["       ORG $1000", "       LEAX DATA,PCR", "       LDA DATA,PCR", "       RTS", "DATA   FCB $01"],
    "pcr_back": ["       ORG $1000", "DATA   FCB $01,$02", "       LEAX DATA,PCR", "       LDA [DATA,PCR]", "       RTS"],
    "pcr_far": ["       ORG $1000", "       LEAX DATA,PCR", "       RMB 200", "DATA   FCB $01", "       LEAY DATA,PCR"],
    "pcr_expr": ["       ORG $1000", "       LEAX DATA+1,PCR", "       NOP", "DATA   FDB $0102"],
    "branches": ["       ORG $2000", "TOP    NOP", "       BRA TOP", "       BEQ FWD", "       LBRA TOP", "       LBNE FWD",
                 "       BSR TOP", "       LBSR FWD", "FWD    RTS"],
    "branch_far_fwd": ["       BRA FAR", "       RMB 128", "FAR    RTS"],
    "branch_edge_fwd": ["       BRA FAR", "       RMB 127", "FAR    RTS"],
    "branch_far_back": ["BACK   RMB 127", "       BRA BACK"],
    "branch_edge_back": ["BACK   RMB 126", "       BRA BACK"],
    "branch_undefined": ["       BRA NOWHERE"],
    "branch_number": ["       BRA $10"],
    "special": ["       PSHS A,B,X", "       PULS PC,U,Y,X,DP,B,A,CC", "       PSHU S,D", "       PULU X", "       TFR X,Y",
                "       EXG A,B", "       TFR D,PC", "       EXG CC,DP", "       TFR S,U"],
    "special_bad_reg": ["       PSHS Q"],
    "special_own": ["       PSHS S"],
    "special_own_u": ["       PULU U"],
    "special_none": ["       PSHS"],
    "special_mix": ["       TFR A,X"],
    "special_three": ["       EXG A,B,X"],
    "special_unknown": ["       TFR A,Z"],
    "special_unknown0": ["       TFR Z,A"],
    "inherent": ["       NOP", "       RTS", "       MUL", "       SWI2", "       SWI3", "       SEX", "       ABX", "       DAA"],
    "inherent_missing": ["       LDA"],
    "inherent_extra": ["       NOP 5"],
    "imm_unsupported": ["       STA #5"],
    "imm_too_big": ["       LDA #65536"],
    "imm_wide8": ["       LDA #$1234"],
    "imm_wide8_dec": ["       LDA #300"],
    "hex5": ["       LDA $12345"],
    "bin_bad": ["       LDA %101"],
    "neg_too_small": ["       LDX #-32769"],
    "neg_ok": ["       LDX #-32768", "       LDA #-128", "       LDA #-1"],
    "bad_mnemonic": ["       FOO 1"],
    "bad_line": ["???"],
    "label_only": ["LABEL"],
    "dup_label": ["A1     NOP", "A1     NOP"],
    "unknown_symbol": ["       LDA MISSING"],
    "unknown_symbol_idx": ["       LDA MISSING,X"],
    "equ": ["VAL    EQU $20", "WIDE   EQU $1234", "DEC    EQU 10", "       LDA VAL", "       LDA WIDE", "       LDA #DEC",
            "       LDX #WIDE", "       LDA VAL,X", "       LDA WIDE,Y", "       STA VAL+1", "       STA WIDE-1", "       LDA #VAL*2",
            "       LDA #WIDE/2"],
    "equ_fwd": ["       LDA VAL", "VAL    EQU $20"],
    "expr_addr": ["       ORG $4000", "START  LDX #TABLE+2", "       LDD TABLE-1", "       JMP START+3", "TABLE  FDB 1,2,3"],
    "expr_div0": ["V      EQU 0", "       LDA #10/V"],
    "expr_bad": ["       LDA FOO+BAR"],
    "fcb": ["       FCB 1", "       FCB $FF", "       FCB 1,2,3", "       FCB $01,$FF,255", "       FCB 'A"],
    "fcb_big": ["       FCB 256"],
    "fcb_multi_big": ["       FCB 1,256"],
    "fdb": ["       FDB 1", "       FDB $FFFF", "       FDB 1,2,3", "       FDB $0102,65535", "LBL    FDB LBL"],
    "fdb_big": ["       FDB 65536"],
    "fcc": ["       FCC \"HELLO\"", "       FCC /A B C/ trailing", "       FCC 'x'"],
    "fcc_empty": ["       FCC"],
    "fcc_unterminated": ["       FCC \"ABC"],
    "rmb": ["       ORG $10", "BUF    RMB 4", "       RMB 0", "AFTER  NOP"],
    "setdp": ["       SETDP $10", "       LDA $1010"],
    "set_op": ["X1     SET 5", "       NOP"],
    "end_only": ["       END"],
    "end_label": ["       ORG $0100", "GO     NOP", "       END GO"],
    "include_ok": ["       ORG $0200", "       INCLUDE inc1.asm", "       JSR INCA"],
    "include_missing": ["       INCLUDE nosuch.asm"],
    "include_self": ["       INCLUDE self.asm"],
    "include_bad": ["       INCLUDE incbad.asm"],
    "sixteen": ["       LDD 5", "       LDX 5", "       ADDD #5", "       SUBD $10", "       CMPX #1", "       LDY 10", "       STS $20",
                "       CMPD #$1", "       CMPS #$12", "       LDU #0"],
    "char_ops": ["       LDA #'a", "       CMPA #'0", "       LDB #';"],
    "at_label": ["@LOOP  DECA", "       BNE @LOOP"],
    "lowercase": ["start  lda #$01", "       bra start"],
    "symbol_addr_imm": ["       ORG $1234", "HERE   LDX #HERE", "       LDD #THERE", "THERE  NOP"],
    "jmp_label": ["       ORG $C000", "       JMP AHEAD", "       JSR AHEAD", "       LDA AHEAD", "AHEAD  RTS"],
    "ext_ind_label": ["       ORG $C000", "       JMP [VEC]", "VEC    FDB $A000"],
    "big_rmb": ["       ORG $0000", "       RMB 300", "       NOP"],
    "lea_label": ["       ORG $0", "MSG    FCC 'HI'", "       LEAX MSG,X"],
    "comma_only": ["       LDA ,"],
    "three_commas": ["       LDA 1,2,3"],
    "force_ext_small": ["       LDA >5", "       LDA >$5", "       STA >VAL", "VAL    EQU 3"],
    "force_dir_big": ["       LDA <$1234"],
}


def run_program(lines):
    program = Program()
    program.process([line + "\n" for line in lines])
    return {
        "bytes": digest(program.get_binary_array()),
        "listing": program.get_statements(),
        "symbols": program.get_symbol_table(),
        "origin": val(program.origin),
        "name": program.name,
        "sizes": [(s.code_pkg.size, s.code_pkg.max_size, s.fixed_size) for s in program.statements],
    }


for _name, _lines in PROGRAMS.items():
    case("prog/" + _name, lambda: run_program(_lines), seconds=10)


def run_raw(lines):
    program = Program()
    program.process(list(lines))
    return [program.get_binary_array(), program.get_statements(), program.get_symbol_table(), val(program.origin), program.name]


for _name in ("basic", "immediates", "indexed", "equ", "fcb", "special", "branch_far_fwd", "inherent"):
    case("rawprog/" + _name, lambda: run_raw(PROGRAMS[_name]), seconds=10)

# ----------------------------------------------------- statements / operands --
for _i, _line in enumerate(["", "; c", "LBL LDA #1 ; c", "  NOP", "  FCC \"A B\" rest", "  XYZ", "noparse", "L  EQU  $10",
                            "  LDA  [,X]  comment here", "  FCC", "  LDA #", "  LDA >", "  LDA <", "  LDA $", "  LDA %"]):
    def _stmt(line=_line):
        s = Statement(line)
        return {"empty": s.is_empty, "comment_only": s.is_comment_only, "label": s.label, "mnemonic": s.mnemonic,
                "comment": s.comment, "operand": None if s.operand is None else
                [type(s.operand).__name__, s.operand.operand_string, val(s.operand.value)]}
    case("stmt/%d" % _i, _stmt)

VALUE_STRINGS = ["", "1", "255", "256", "65535", "65536", "-1", "-128", "-129", "-32768", "-32769", "$0", "$F", "$FF",
                 "$100", "$FFFF", "$10000", "%1", "%11111111", "%1111111100000000", "%111111111", "'A", "'", "ABC", "A@1",
                 "#5", "#$FF", "<$10", ">$10", "<300", ">3", "1+1", "$10+$20", "A+1", "5-10", "3*4", "8/2", ",X", "5,X", "A,B,C",
                 "#-5", "#'z", "[", "a b", "$G1", "--1", "+1", "1,", "#", ">", "<"]
for _i, _text in enumerate(VALUE_STRINGS):
    case("value/%d" % _i, lambda text=_text: val(Value.create_from_str(text)))
    case("value_nodef/%d" % _i, lambda text=_text: val(Value.create_from_str(text, default_mode_extended=False)))

for _n in [0, 1, 15, 16, 127, 128, 255, 256, 4095, 4096, 32767, 32768, 65535, 65536, -1, -127, -128, -129, -255, -256, -32768, -65535]:
    case("numeric/%d" % _n, lambda n=_n: [val(NumericValue(n)), val(NumericValue(n, size_hint=4)), val(NumericValue(n, size_hint=2)),
                                          NumericValue(n).hex(size=4), NumericValue(n).is_4_bit(), NumericValue(n).is_8_bit(),
                                          NumericValue(n).is_16_bit(), NumericValue(n).byte_len(), str(NumericValue(n))])
case("none_value", lambda: val(NoneValue()))
case("address_value", lambda: [val(AddressValue(n)) for n in (0, 1, 255, 256, 4660, 65535)])
case("string_value", lambda: [val(StringValue(s)) for s in ('"AB"', "/x y/", "''")])
case("string_value_bad", lambda: val(StringValue("'abc")))
case("multi_byte", lambda: [val(MultiByteValue(s)) for s in ("1,2", "$FF,1,", ",")])
case("multi_byte_bad", lambda: val(MultiByteValue("12")))
case("multi_word", lambda: [val(MultiWordValue(s)) for s in ("1,2", "$FFFF,1,", ",")])
case("multi_word_bad", lambda: val(MultiWordValue("12")))


def _by_mnemonic(m):
    return next(op for op in INSTRUCTIONS if op.mnemonic == m)


OPERAND_CASES = [("LDA", "#5"), ("LDA", "$10"), ("LDA", "$1000"), ("LDA", ",X"), ("LDA", "[,X]"), ("LDA", ""), ("NOP", ""),
                 ("NOP", "5"), ("BRA", "X1"), ("LBRA", "X1"), ("PSHS", "A"), ("TFR", "A,B"), ("FCB", "1,2"), ("FDB", "1,2"),
                 ("FCC", "/a/"), ("ORG", "$1000"), ("EQU", "$10"), ("EQU", "$1000"), ("EQU", "5"), ("RMB", "10"), ("END", ""),
                 ("NAM", "prog"), ("INCLUDE", "f.asm"), ("LDA", "[5"), ("LDA", "1,2,3"), ("STA", "#1"), ("LDX", "#$1"),
                 ("LDA", "<$10"), ("LDA", ">$10"), ("JMP", "[$1000]"), ("LEAX", "A,X"), ("LDA", "#"), ("FCB", ""), ("RMB", "")]
for _i, (_m, _o) in enumerate(OPERAND_CASES):
    def _operand(m=_m, o=_o):
        op = Operand.create_from_str(o, _by_mnemonic(m))
        out = {"cls": type(op).__name__, "type": op.type.name, "string": op.operand_string, "value": val(op.value),
               "left": val(op.left), "right": val(op.right)}
        op = op.resolve_symbols({"X1": AddressValue(3)})
        out["resolved_cls"] = type(op).__name__
        pkg = op.translate()
        out["pkg"] = [val(pkg.op_code), val(pkg.post_byte), val(pkg.additional), val(pkg.address), pkg.size, pkg.max_size,
                      pkg.additional_needs_resolution, pkg.post_byte_choices]
        return out
    case("operand/%d" % _i, _operand)

# ---------------------------------------------------------------- cassette --
def ml_file(name, data, load=0x0E00, exe=0x0E00, ftype=0x02, dtype=0x00, ext="bin"):
    return CoCoFile(name=name, load_addr=NumericValue(load), exec_addr=NumericValue(exe), data=list(data), extension=ext,
                    type=NumericValue(ftype), data_type=NumericValue(dtype))


def pattern(n, seed=7):
    return [(i * seed + (i >> 3)) & 0xFF for i in range(n)]


CAS_IMAGES = {}
for _n in [0, 1, 2, 254, 255, 256, 509, 510, 511, 765, 1000]:
    def _cas(n=_n):
        c = CassetteFile()
        c.add_file(ml_file("F%d" % n, pattern(n), load=0x1000 + n, exe=0x2000 + n))
        CAS_IMAGES[n] = list(c.get_buffer())
        return {"buffer": digest(c.get_buffer()), "files": [coco(f) for f in CassetteFile(buffer=list(c.get_buffer())).list_files()]}
    case("cas/len%d" % _n, _cas)

for _i, _nm in enumerate(["", "A", "ABCDEFG", "ABCDEFGH", "ABCDEFGHI", "abcdefghijkl", "a b", "été"]):
    def _casname(nm=_nm):
        c = CassetteFile()
        c.add_file(ml_file(nm, [1, 2, 3]))
        c2 = CassetteFile()
        total = c2.append_name(nm)
        return {"buffer": digest(c.get_buffer()), "name_sum": total, "name_bytes": list(c2.get_buffer())}
    case("cas/name%d" % _i, _casname)

for _i, (_l, _e, _t, _d) in enumerate([(0, 0, 2, 0), (0xFFFF, 0xFFFF, 2, 0), (0x00FF, 0x0100, 0, 0xFF), (0x1234, 0xABCD, 1, 0xFF),
                                       (255, 256, 2, 0), (0x0E00, 0x0E05, 0, 0)]):
    def _cashdr(l=_l, e=_e, t=_t, d=_d):
        c = CassetteFile()
        c.append_header(ml_file("HDR", [], load=l, exe=e, ftype=t, dtype=d))
        full = CassetteFile()
        full.add_file(ml_file("HDR", [9, 8, 7], load=l, exe=e, ftype=t, dtype=d))
        return {"header": list(c.get_buffer()), "files": [coco(f) for f in CassetteFile(buffer=list(full.get_buffer())).list_files()]}
    case("cas/header%d" % _i, _cashdr)


def _cas_pieces():
    out = {}
    for nm in ("append_eof", "append_leader", "append_blank"):
        c = CassetteFile()
        getattr(c, nm)()
        out[nm] = digest(c.get_buffer())
    c = CassetteFile()
    c.append_data_blocks(pattern(600), gaps=True)
    out["gaps"] = digest(c.get_buffer())
    c = CassetteFile()
    c.append_data_blocks([])
    out["nodata"] = list(c.get_buffer())
    c = CassetteFile()
    c.append_data_blocks(pattern(255))
    out["exact"] = digest(c.get_buffer())
    return out


case("cas/pieces", _cas_pieces)


def _cas_multi():
    c = CassetteFile()
    c.add_files([ml_file("ONE", pattern(10)), ml_file("TWO", pattern(300), ftype=0, dtype=0xFF), ml_file("THREE", pattern(255), ftype=1)])
    buf = list(c.get_buffer())
    r = CassetteFile(buffer=list(buf))
    return {"buffer": digest(buf), "all": [coco(f) for f in r.list_files()], "some": [coco(f) for f in r.list_files(["TWO     "])],
            "none": [coco(f) for f in r.list_files(["NOPE"])],
            "seek": [r.skip_to_sequence([0x55, 0x3C, 0x00], start=s) for s in (0, 200, 300, 5000)],
            "seek_missing": r.skip_to_sequence([1, 2, 3, 4]),
            "read_at": [(coco(f), p) for f, p in (r.read_file(s) for s in (0, 250, 600, 100000))]}


case("cas/multi", _cas_multi)


def _cas_reader_errors():
    out = {}
    good = CAS_IMAGES.get(256) or []
    for cut in (0, 10, 130, 270, 280, 300, 420, 540, 560, 700, len(good) - 7, len(good) - 1):
        try:
            out[str(cut)] = [coco(f) for f in CassetteFile(buffer=list(good[:cut])).list_files()]
        except BaseException as error:
            out[str(cut)] = describe_exc(error)
    bad = list(good)
    if bad:
        position = CassetteFile(buffer=list(bad)).skip_to_sequence([0x55, 0x3C, 0x01])
        bad[position + 2] = 0x07
        try:
            out["badtype"] = [coco(f) for f in CassetteFile(buffer=bad).list_files()]
        except BaseException as error:
            out["badtype"] = describe_exc(error)
    for text in ([], [0x55], [0x55, 0x3C], [0x55, 0x3C, 0x00], [0x55, 0x3C, 0xFF, 0, 0xFF, 0x55]):
        try:
            out[repr(text)] = [coco(f) for f in CassetteFile(buffer=list(text)).list_files()]
        except BaseException as error:
            out[repr(text)] = describe_exc(error)
    return out


case("cas/reader_errors", _cas_reader_errors)
case("cas/read_word", lambda: [val(CassetteFile(buffer=[1, 2, 3]).read_word(p)) for p in (0, 1)])
case("cas/read_word_short", lambda: val(CassetteFile(buffer=[1, 2, 3]).read_word(2)))
case("cas/read_word_empty", lambda: val(CassetteFile().read_word(0)))

# -------------------------------------------------------------------- disk --
def disk_summary(buffer):
    fat = buffer[DiskConstants.FAT_OFFSET:DiskConstants.FAT_OFFSET + 256]
    directory = buffer[DiskConstants.DIR_OFFSET:DiskConstants.DIR_OFFSET + 72 * 32]
    used = [i for i in range(0, len(buffer), 256) if any(b != 0xFF for b in buffer[i:i + 256])]
    return {"len": len(buffer), "sha1": hashlib.sha1(bytes(bytearray(buffer))).hexdigest(), "fat": fat,
            "dir": digest(directory), "touched_sectors": used}


DSK_IMAGES = {}
for _n in [0, 1, 245, 246, 247, 2293, 2294, 2295, 2304, 4597, 4598, 4599, 4608, 6902, 9216, 20000]:
    def _dsk(n=_n):
        d = DiskFile()
        d.add_file(ml_file("P%d" % n, pattern(n, 11), load=0x3000, exe=0x3003))
        buf = list(d.get_buffer())
        DSK_IMAGES[n] = buf
        return {"image": disk_summary(buf), "files": [coco(f) for f in DiskFile(buffer=list(buf)).list_files()]}
    case("dsk/len%d" % _n, _dsk)

for _i, (_t, _d, _ext) in enumerate([(0, 0, "BAS"), (0, 0xFF, "BAS"), (1, 0, "DAT"), (1, 0xFF, "DAT"), (3, 0xFF, "TXT"), (2, 0xFF, "BIN")]):
    def _dsktype(t=_t, d=_d, ext=_ext):
        out = {}
        for n in (0, 5, 2301, 2302, 2304, 3000):
            disk = DiskFile()
            disk.add_file(ml_file("T%d" % n, pattern(n, 3), ftype=t, dtype=d, ext=ext))
            buf = list(disk.get_buffer())
            try:
                files = [coco(f) for f in DiskFile(buffer=list(buf)).list_files()]
            except BaseException as error:
                files = describe_exc(error)
            out[str(n)] = {"image": disk_summary(buf), "files": files}
        return out
    case("dsk/type%d" % _i, _dsktype, seconds=60)

for _i, _nm in enumerate(["", "A", "ABCDEFGH", "ABCDEFGHIJ", "lower", "a\0b", "SP ACE"]):
    def _dskname(nm=_nm):
        d = DiskFile()
        d.add_file(ml_file(nm, [1, 2, 3], ext="b" if _i % 2 else "binx"))
        buf = list(d.get_buffer())
        return {"dir": buf[DiskConstants.DIR_OFFSET:DiskConstants.DIR_OFFSET + 32],
                "files": [coco(f) for f in DiskFile(buffer=list(buf)).list_files()]}
    case("dsk/name%d" % _i, _dskname)


def _dsk_multi():
    d = DiskFile()
    files = [ml_file("M%d" % i, pattern(n, i + 1), load=0x100 * i, exe=0x100 * i + 1) for i, n in enumerate([10, 2294, 2295, 5000, 1, 12000])]
    files.append(ml_file("BASIC", pattern(100), ftype=0, dtype=0, ext="BAS"))
    files.append(ml_file("TEXT", pattern(2500), ftype=1, dtype=0xFF, ext="TXT"))
    d.add_files(files)
    buf = list(d.get_buffer())
    r = DiskFile(buffer=list(buf))
    return {"image": disk_summary(buf), "files": [coco(f) for f in r.list_files()],
            "in_use": [r.granule_in_use(g) for g in range(68)], "dir_in_use": [r.directory_entry_in_use(e) for e in range(72)],
            "empty_dir": r.find_empty_directory_entry(), "empty_granule": r.find_empty_granule()}


case("dsk/multi", _dsk_multi, seconds=60)


def _dsk_fill(count, size):
    d = DiskFile()
    added = 0
    error = None
    for i in range(count):
        try:
            d.add_file(ml_file("F%d" % i, pattern(size, i + 1)))
            added += 1
        except BaseException as exc:
            error = describe_exc(exc)
            break
    buf = list(d.get_buffer())
    try:
        listed = [(f.name, len(f.data)) for f in DiskFile(buffer=list(buf)).list_files()]
    except BaseException as exc:
        listed = describe_exc(exc)
    return {"added": added, "error": error, "image": disk_summary(buf), "listed": listed}


case("dsk/fill_small", lambda: _dsk_fill(75, 3), seconds=120)
case("dsk/fill_two_granules", lambda: _dsk_fill(40, 2300), seconds=120)
case("dsk/fill_big", lambda: _dsk_fill(3, 60000), seconds=120)
case("dsk/whole_disk", lambda: _dsk_fill(2, 68 * 2304 - 11), seconds=120)
case("dsk/too_big", lambda: _dsk_fill(1, 68 * 2304 - 10), seconds=120)


def _dsk_dir_full():
    buf = [0xFF] * DiskConstants.IMAGE_SIZE
    out = {}
    for taken in (70, 71, 72):
        image = list(buf)
        for entry in range(taken):
            image[DiskConstants.DIR_OFFSET + 32 * entry] = 0x41
        d = DiskFile(buffer=image)
        out["empty_%d" % taken] = d.find_empty_directory_entry()
        try:
            d.add_file(ml_file("LATE", [1, 2, 3]))
            out["add_%d" % taken] = disk_summary(list(d.get_buffer()))
        except BaseException as error:
            out["add_%d" % taken] = describe_exc(error)
            out["after_%d" % taken] = disk_summary(list(d.get_buffer()))
    return out


case("dsk/dir_full", _dsk_dir_full, seconds=60)


def _dsk_probe():
    d = DiskFile()
    out = {"seek": [DiskFile.seek_granule(g) for g in range(68)],
           "sectors": [DiskFile.calculate_sectors_needed(n) for n in (0, 1, 255, 256, 257, 2303, 2304)]}
    for n in (0, 1, 245, 246, 247, 2293, 2294, 2295, 4598, 4599, 100000):
        for label, pre, post in (("ml", MLPreamble(), Postamble()), ("basic", BasicPreamble(), None), ("ascii", ASCIIPreamble(), None)):
            data = [0] * n
            out["%s_%d" % (label, n)] = [DiskFile.calculate_granules_needed(data, pre, post),
                                         DiskFile.calculate_last_sector_bytes_used(data, pre, post),
                                         DiskFile.calculate_last_granules_sectors_used(data, pre, post)]
    for bad in (-1, 68, 100):
        try:
            out["granule_%d" % bad] = d.granule_in_use(bad)
        except BaseException as error:
            out["granule_%d" % bad] = describe_exc(error)
    for bad in (-1, 71, 72, 100):
        try:
            out["entry_%d" % bad] = d.directory_entry_in_use(bad)
        except BaseException as error:
            out["entry_%d" % bad] = describe_exc(error)
    for order in ([1, 2, 3], list(range(68)), list(reversed(range(68))), list(range(67)) + [99]):
        try:
            custom = DiskFile(granule_fill_order=order)
            custom.add_file(ml_file("ORD", pattern(5000)))
            out["order_%d_%d" % (len(order), order[0])] = disk_summary(list(custom.get_buffer()))["fat"][:68]
        except BaseException as error:
            out["order_%d_%d" % (len(order), order[0])] = describe_exc(error)
    return out


case("dsk/probe", _dsk_probe, seconds=60)


def _dsk_reader_errors():
    out = {}
    for name, buf in (("empty", []), ("short", [0] * 1000), ("blank", [0xFF] * DiskConstants.IMAGE_SIZE),
                      ("zero", [0] * DiskConstants.IMAGE_SIZE), ("long", [0xFF] * (DiskConstants.IMAGE_SIZE + 10))):
        try:
            out[name] = [coco(f) for f in DiskFile(buffer=list(buf)).list_files()]
        except BaseException as error:
            out[name] = describe_exc(error)
    good = DSK_IMAGES.get(2295)
    if good:
        for label, offset, value in (("preflag", DiskFile.seek_granule(32), 0x01), ("type", DiskConstants.DIR_OFFSET + 11, 0x00),
                                     ("fat", DiskConstants.FAT_OFFSET + 32, 0xC1), ("gran", DiskConstants.DIR_OFFSET + 13, 0x05)):
            image = list(good)
            image[offset] = value
            try:
                out[label] = [coco(f) for f in DiskFile(buffer=image).list_files()]
            except BaseException as error:
                out[label] = describe_exc(error)
        r = DiskFile(buffer=list(good))
        out["seq"] = [r.read_sequence(DiskConstants.DIR_OFFSET, 8, decode=True), r.read_sequence(DiskConstants.DIR_OFFSET, 11),
                      r.validate_sequence(DiskConstants.DIR_OFFSET, [0x50, 0x32]), r.validate_sequence(DiskConstants.DIR_OFFSET, [0x50, 0x33])]
        for args in ((161279, 2), (0, 200000)):
            try:
                out["seq%r" % (args,)] = r.read_sequence(*args)
            except BaseException as error:
                out["seq%r" % (args,)] = describe_exc(error)
        try:
            out["validate_short"] = r.validate_sequence(161279, [1, 2])
        except BaseException as error:
            out["validate_short"] = describe_exc(error)
    return out


case("dsk/reader_errors", _dsk_reader_errors, seconds=60)


def _ambles():
    out = {}
    for label, obj in (("ml", MLPreamble()), ("basic", BasicPreamble()), ("ascii", ASCIIPreamble())):
        obj.data_length = NumericValue(0x1234)
        obj.load_addr = NumericValue(0xABCD)
        buf = [0xEE] * 8
        try:
            out[label + "_w"] = [obj.write(buf, 1), list(buf), obj.is_ml(), obj.get_data_length(), obj.length]
        except BaseException as error:
            out[label + "_w"] = describe_exc(error)
        for source in ([0x00, 1, 2, 3, 4], [0xFF, 1, 2, 3, 4], [0x00, 1], []):
            try:
                fresh = type(obj)()
                out[label + "_r" + repr(source)] = [fresh.read(list(source), 0), val(fresh.data_length), val(fresh.load_addr)]
            except BaseException as error:
                out[label + "_r" + repr(source)] = describe_exc(error)
    post = Postamble()
    post.exec_addr = NumericValue(0x00FF)
    buf = [0xEE] * 7
    out["post_w"] = [post.write(buf, 2), list(buf)]
    for source in ([0xFF, 0, 0, 0x12, 0x34], [0xFE, 0, 0, 1, 2], [0xFF, 1, 0, 1, 2], [0xFF, 0, 1, 1, 2], [0xFF, 0]):
        try:
            fresh = Postamble()
            out["post_r" + repr(source)] = [fresh.read(list(source), 0), val(fresh.exec_addr)]
        except BaseException as error:
            out["post_r" + repr(source)] = describe_exc(error)
    try:
        post.write([0] * 3, 0)
    except BaseException as error:
        out["post_w_short"] = describe_exc(error)
    return out


case("dsk/ambles", _ambles)

# ------------------------------------------------------------ virtual file --
def read_bytes(path):
    with open(path, "rb") as handle:
        return list(handle.read())


def file_digest(path):
    if not os.path.exists(path):
        return None
    data = read_bytes(path)
    return {"len": len(data), "sha1": hashlib.sha1(bytes(bytearray(data))).hexdigest(), "head": data[:48]}


def _vf(kind, vtype):
    out = {}
    path = "vf_%s.img" % kind
    first = ml_file("FIRST", pattern(300), load=0x0E00, exe=0x0E10)
    second = ml_file("SECOND", pattern(40), load=0x2000, exe=0x2000)
    v = VirtualFile(SourceFile(path, file_type=SourceFileType.BINARY), vtype)
    v.open_virtual_file()
    v.add_coco_file(first)
    v.save_virtual_file()
    out["first"] = file_digest(path)
    v = VirtualFile(SourceFile(path, file_type=SourceFileType.BINARY), vtype)
    try:
        v.open_virtual_file()
        v.add_coco_file(second)
        v.save_virtual_file()
        out["noappend"] = "saved"
    except BaseException as error:
        out["noappend"] = describe_exc(error)
    out["after_noappend"] = file_digest(path)
    v = VirtualFile(SourceFile(path, file_type=SourceFileType.BINARY), vtype)
    try:
        v.open_virtual_file()
        v.add_coco_file(second)
        v.save_virtual_file(append_mode=True)
        out["append"] = "saved"
    except BaseException as error:
        out["append"] = describe_exc(error)
    out["after_append"] = file_digest(path)
    v = VirtualFile(SourceFile(path, file_type=SourceFileType.BINARY))
    v.open_virtual_file()
    out["detected"] = str(v.virtual_file_type)
    out["listed"] = [coco(f) for f in v.list_files()]
    out["filtered"] = [coco(f) for f in v.list_files(["SECOND", "SECOND  "])]
    for other in (VirtualFileType.BINARY, VirtualFileType.CASSETTE, VirtualFileType.DISK):
        w = VirtualFile(SourceFile(path, file_type=SourceFileType.BINARY), other)
        try:
            w.open_virtual_file()
            out["open_as_" + other.name] = len(w.list_files())
        except BaseException as error:
            out["open_as_" + other.name] = describe_exc(error)
    return out


case("vf/binary", lambda: _vf("bin", VirtualFileType.BINARY), seconds=60)
case("vf/cassette", lambda: _vf("cas", VirtualFileType.CASSETTE), seconds=60)
case("vf/disk", lambda: _vf("dsk", VirtualFileType.DISK), seconds=120)


def _vf_misc():
    out = {}
    for vtype in (None, VirtualFileType.UNKNOWN):
        v = VirtualFile(SourceFile("vf_none_%s.img" % vtype, file_type=SourceFileType.BINARY), vtype)
        v.open_virtual_file()
        v.add_coco_file(ml_file("X", [1]))
        v.save_virtual_file()
        out["type_%s" % vtype] = file_digest("vf_none_%s.img" % vtype)
    v = VirtualFile(SourceFile("vf_asm.img", file_type=SourceFileType.ASSEMBLY), VirtualFileType.BINARY)
    v.add_coco_file(ml_file("X", [1]))
    v.save_virtual_file()
    out["assembly_type"] = file_digest("vf_asm.img")
    v = VirtualFile(SourceFile(os.path.join("nodir", "x.cas"), file_type=SourceFileType.BINARY), VirtualFileType.CASSETTE)
    v.add_coco_file(ml_file("X", [1]))
    try:
        v.save_virtual_file()
    except BaseException as error:
        out["nodir"] = {"exc": type(error).__name__}
    full = VirtualFile(SourceFile("vf_full.dsk", file_type=SourceFileType.BINARY), VirtualFileType.DISK)
    full.add_coco_file(ml_file("OK", pattern(100)))
    full.save_virtual_file()
    before = file_digest("vf_full.dsk")
    again = VirtualFile(SourceFile("vf_full.dsk", file_type=SourceFileType.BINARY), VirtualFileType.DISK)
    again.open_virtual_file()
    for number in range(3):
        again.add_coco_file(ml_file("HUGE%d" % number, pattern(60000)))
    try:
        again.save_virtual_file(append_mode=True)
        out["overfull"] = "saved"
    except BaseException as error:
        out["overfull"] = describe_exc(error)
    out["overfull_untouched"] = (before == file_digest("vf_full.dsk"))
    return out


case("vf/misc", _vf_misc, seconds=120)

# --------------------------------------------------------------------- CLI --
def snapshot(directory):
    out = {}
    for root, _dirs, names in os.walk(directory):
        for name in sorted(names):
            path = os.path.join(root, name)
            out[os.path.relpath(path, directory)] = file_digest(path)
    return out


def scrub(text):
    text = text.replace(tree, "<TREE>").replace(tmp, "<TMP>")
    if "Traceback (most recent call last)" in text:
        lines = [l for l in text.strip().splitlines() if l and not l.startswith(" ")]
        text = "TRACEBACK|" + lines[-1]
    return text


def cli(tool, args, directory):
    proc = subprocess.run([PY, os.path.join(tree, tool)] + args, cwd=directory, stdout=subprocess.PIPE, stderr=subprocess.PIPE,
                          universal_newlines=True, timeout=120,
                          env=dict(os.environ, PYTHONPATH=tree, PYTHONDONTWRITEBYTECODE="1", COLUMNS="80"))
    return {"rc": proc.returncode, "out": scrub(proc.stdout), "err": scrub(proc.stderr), "files": snapshot(directory)}


SOURCES = {
    "named.asm": ["       NAM Hello", "       ORG $0E00", "START  LDA #$41", "       STA $0400", "LOOP   BRA LOOP", "       END START"],
    "anon.asm": ["       ORG $3F00", "       LDX #$1234", "       RTS"],
    "longname.asm": ["       NAM abcdefghijkl", "       ORG $7000", "       FCB 1,2,3,4,5"],
    "noorg.asm": ["       NAM NOORG", "       CLRA", "       RTS"],
    "big.asm": ["       NAM BIG", "       ORG $1000", "       RMB 3000", "       FCC /END/"],
    "empty.asm": [],
    "parse.asm": ["       NAM BAD", "       FOO 12"],
    "translate.asm": ["       NAM BAD", "       LDA MISSING"],
    "range.asm": ["       BRA FAR", "       RMB 200", "FAR    RTS"],
}

CLI_CASES = [
    ("bin", "named.asm", ["--to_bin", "out.bin"]),
    ("cas", "named.asm", ["--to_cas", "out.cas"]),
    ("dsk", "named.asm", ["--to_dsk", "out.dsk"]),
    ("all", "named.asm", ["--to_bin", "out.bin", "--to_cas", "out.cas", "--to_dsk", "out.dsk", "--symbols", "--print"]),
    ("all_name_override", "named.asm", ["--to_cas", "out.cas", "--to_dsk", "out.dsk", "--name", "OTHER"]),
    ("anon_bin", "anon.asm", ["--to_bin", "out.bin"]),
    ("anon_cas", "anon.asm", ["--to_cas", "out.cas"]),
    ("anon_dsk", "anon.asm", ["--to_dsk", "out.dsk"]),
    ("anon_all", "anon.asm", ["--to_bin", "out.bin", "--to_cas", "out.cas", "--to_dsk", "out.dsk"]),
    ("anon_dsk_cas", "anon.asm", ["--to_dsk", "out.dsk", "--to_cas", "out.cas"]),
    ("anon_named", "anon.asm", ["--to_cas", "out.cas", "--to_dsk", "out.dsk", "--name", "given"]),
    ("anon_named12", "anon.asm", ["--to_cas", "out.cas", "--to_dsk", "out.dsk", "--name", "twelveletter"]),
    ("anon_empty_name", "anon.asm", ["--to_cas", "out.cas", "--name", ""]),
    ("long", "longname.asm", ["--to_bin", "out.bin", "--to_cas", "out.cas", "--to_dsk", "out.dsk"]),
    ("noorg", "noorg.asm", ["--to_bin", "out.bin", "--to_cas", "out.cas", "--to_dsk", "out.dsk", "--print"]),
    ("big", "big.asm", ["--to_bin", "out.bin", "--to_cas", "out.cas", "--to_dsk", "out.dsk"]),
    ("empty", "empty.asm", ["--to_bin", "out.bin", "--to_cas", "out.cas", "--name", "E", "--symbols", "--print"]),
    ("print_only", "named.asm", ["--print"]),
    ("symbols_only", "named.asm", ["--symbols"]),
    ("nothing", "named.asm", []),
    ("width", "named.asm", ["--print", "--width", "40"]),
    ("parse_error", "parse.asm", ["--to_bin", "out.bin", "--to_cas", "out.cas", "--to_dsk", "out.dsk"]),
    ("translate_error", "translate.asm", ["--to_bin", "out.bin", "--to_cas", "out.cas", "--to_dsk", "out.dsk", "--print"]),
    ("range_error", "range.asm", ["--to_bin", "out.bin"]),
    ("missing_source", "nosuch.asm", ["--to_bin", "out.bin"]),
    ("bad_dir", "named.asm", ["--to_bin", "nodir/out.bin", "--to_cas", "nodir/out.cas", "--to_dsk", "nodir/out.dsk"]),
    ("no_args", None, []),
    ("bad_switch", "named.asm", ["--to_rom", "x"]),
]

for _label, _source, _args in CLI_CASES:
    def _cli_case(label=_label, source=_source, args=_args):
        directory = os.path.join(tmp, "cli_" + label)
        os.mkdir(directory)
        for name, lines in SOURCES.items():
            with open(os.path.join(directory, name), "w") as handle:
                handle.write("".join(line + "\n" for line in lines))
        return cli("assembler.py", ([source] if source else []) + args, directory)
    case("cli/" + _label, _cli_case, seconds=150)


def _cli_append():
    directory = os.path.join(tmp, "cli_append_seq")
    os.mkdir(directory)
    for name, lines in SOURCES.items():
        with open(os.path.join(directory, name), "w") as handle:
            handle.write("".join(line + "\n" for line in lines))
    steps = []
    targets = ["--to_bin", "out.bin", "--to_cas", "out.cas", "--to_dsk", "out.dsk"]
    steps.append(cli("assembler.py", ["named.asm"] + targets, directory))
    steps.append(cli("assembler.py", ["longname.asm"] + targets, directory))
    steps.append(cli("assembler.py", ["longname.asm"] + targets + ["--append"], directory))
    steps.append(cli("assembler.py", ["anon.asm"] + targets + ["--append"], directory))
    steps.append(cli("assembler.py", ["anon.asm", "--name", "third", "--append"] + targets, directory))
    steps.append(cli("assembler.py", ["named.asm", "--to_cas", "out.dsk", "--append"], directory))
    steps.append(cli("assembler.py", ["named.asm", "--to_dsk", "out.cas", "--append"], directory))
    steps.append(cli("assembler.py", ["named.asm", "--to_dsk", "out.bin", "--append"], directory))
    for image in ("out.bin", "out.cas", "out.dsk"):
        steps.append(cli("file_util.py", [image, "--list"], directory))
    steps.append(cli("file_util.py", ["out.dsk", "--to_cas", "conv.cas"], directory))
    steps.append(cli("file_util.py", ["out.cas", "--to_dsk", "conv.dsk", "--files", "hello", "THIRD"], directory))
    steps.append(cli("file_util.py", ["out.cas", "--to_bin", "conv.bin"], directory))
    steps.append(cli("file_util.py", ["conv.cas", "--list"], directory))
    steps.append(cli("file_util.py", ["conv.dsk", "--list"], directory))
    steps.append(cli("file_util.py", ["conv.dsk", "--to_cas", "conv.cas"], directory))
    steps.append(cli("file_util.py", ["conv.dsk", "--to_cas", "conv.cas", "--append"], directory))
    steps.append(cli("file_util.py", ["missing.dsk", "--list"], directory))
    return steps


case("cli/append_sequence", _cli_append, seconds=600)

json.dump(RESULTS, sys.stdout, sort_keys=True, default=repr)
'''


def run_tree(tree):
    tree = os.path.abspath(tree)
    with tempfile.TemporaryDirectory(prefix="equiv_") as scratch:
        env = dict(os.environ, PYTHONDONTWRITEBYTECODE="1", PYTHONPATH=tree)
        proc = subprocess.run([sys.executable, "-c", DRIVER, tree, scratch], cwd=scratch, env=env,
                              stdout=subprocess.PIPE, stderr=subprocess.PIPE, universal_newlines=True, timeout=3000)
    if proc.returncode != 0:
        print("driver failed for", tree)
        print(proc.stderr[-4000:])
        sys.exit(1)
    return json.loads(proc.stdout)


def main():
    if len(sys.argv) != 3:
        print(__doc__)
        return 2
    first, second = run_tree(sys.argv[1]), run_tree(sys.argv[2])
    differences = 0
    for name in sorted(set(first) | set(second)):
        if first.get(name) != second.get(name):
            differences += 1
            print("DIFFERENT:", name)
            print("   A:", json.dumps(first.get(name), sort_keys=True)[:1500])
            print("   B:", json.dumps(second.get(name), sort_keys=True)[:1500])
    outcomes = {}
    for name, result in first.items():
        kind = "ok" if "ok" in result else ("timeout" if "timeout" in result else result.get("exc"))
        outcomes[kind] = outcomes.get(kind, 0) + 1
    print("focus: %s" % FOCUS)
    print("%d cases compared, %d differences; outcome kinds in tree A: %s" % (len(first), differences, outcomes))
    return 1 if differences else 0


if __name__ == "__main__":
    sys.exit(main())
