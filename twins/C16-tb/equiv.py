#!/venv/bin/python
"""
Differential demonstration for property C16 (file_util conversions).

Usage: equiv.py <treeA> <treeB>

For each tree a driver subprocess is started (the tree at the front of
sys.path, a private temporary directory as cwd).  The driver builds source
images with the tree's own library, runs the tree's file_util.py (in process
through parse_arguments()/main() and, for some cases, as a real command) and
calls the container classes directly.  Everything observable is recorded:
stdout, exit status, every file found in the working directory (bytes), the
files listed by the library in every image produced, exception type/message.
The two records are compared; exit status 0 = all agree, 1 otherwise.
"""
import contextlib
import hashlib
import io
import json
import os
import subprocess
import sys
import tempfile


# --------------------------------------------------------------------------
# driver (runs inside one tree)
# --------------------------------------------------------------------------

def driver(tree):
    sys.path.insert(0, tree)
    import importlib.util
    from cocoasm.values import NumericValue, NoneValue
    from cocoasm.virtualfiles.coco_file import CoCoFile
    from cocoasm.virtualfiles.source_file import SourceFile, SourceFileType
    from cocoasm.virtualfiles.virtual_file import VirtualFile, VirtualFileType
    from cocoasm.virtualfiles.cassette import CassetteFile
    from cocoasm.virtualfiles.disk import DiskFile, DiskConstants, MLPreamble, BasicPreamble, \
        ASCIIPreamble, Postamble
    from cocoasm.virtualfiles.binary import BinaryFile

    spec = importlib.util.spec_from_file_location("file_util_under_test", os.path.join(tree, "file_util.py"))
    file_util = importlib.util.module_from_spec(spec)
    spec.loader.exec_module(file_util)

    results = []

    def plain(value):
        if isinstance(value, CoCoFile):
            return {
                "name": value.name, "extension": value.extension,
                "type": plain(value.type), "data_type": plain(value.data_type),
                "gaps": plain(value.gaps), "load": plain(value.load_addr),
                "exec": plain(value.exec_addr), "data": list(value.data),
                "ignore_gaps": value.ignore_gaps, "str": str(value),
            }
        if isinstance(value, (NumericValue, NoneValue)):
            return "{}:{}:{}".format(type(value).__name__, value.int, value.hex())
        if isinstance(value, (list, tuple)):
            return [plain(x) for x in value]
        if isinstance(value, (bytes, bytearray)):
            return list(value)
        if isinstance(value, dict):
            return {str(k): plain(v) for k, v in value.items()}
        if value is None or isinstance(value, (int, str, bool, float)):
            return value
        return repr(type(value).__name__)

    def digest(data):
        return hashlib.sha256(bytes(data)).hexdigest() + ":" + str(len(data))

    def case(name, fn):
        try:
            outcome = {"ok": plain(fn())}
        except SystemExit as stop:
            outcome = {"exit": plain(stop.code)}
        except BaseException as error:  # noqa
            outcome = {"error": type(error).__name__, "message": str(error)}
        results.append([name, outcome])

    def coco(name, ext, ftype, dtype, data, load=0x0E00, exe=0x0E00):
        return CoCoFile(
            name=name, extension=ext, type=NumericValue(ftype), data_type=NumericValue(dtype),
            gaps=NumericValue(0), load_addr=NumericValue(load), exec_addr=NumericValue(exe),
            data=list(data),
        )

    def pattern(length, seed=1):
        return [(seed * 37 + i * 11 + (i >> 8)) & 0xFF for i in range(length)]

    def write_image(path, kind, files):
        image = VirtualFile(SourceFile(path, file_type=SourceFileType.BINARY), virtual_file_type=kind)
        image.open_virtual_file()
        for item in files:
            image.add_coco_file(item)
        image.save_virtual_file(append_mode=True)

    parsed = {}

    def read_image(path):
        if not os.path.exists(path):
            return "missing"
        with open(path, "rb") as handle:
            raw = handle.read()
        if digest(raw) not in parsed:
            parsed[digest(raw)] = parse_image(path, raw)
        return parsed[digest(raw)]

    def parse_image(path, raw):
        image = VirtualFile(SourceFile(path, file_type=SourceFileType.BINARY))
        try:
            image.open_virtual_file()
            listed = plain(image.list_files())
            kind = str(image.virtual_file_type)
        except BaseException as error:  # noqa
            listed = "{}: {}".format(type(error).__name__, error)
            kind = "?"
        return {"sha": digest(raw), "kind": kind, "files": listed}

    def snapshot():
        return {name: read_image(name) for name in sorted(os.listdir("."))}

    def run_util(argv):
        """file_util.py in process: parse_arguments() + main()."""
        old_argv = sys.argv
        sys.argv = ["file_util.py"] + list(argv)
        out, err = io.StringIO(), io.StringIO()
        status = None
        try:
            with contextlib.redirect_stdout(out), contextlib.redirect_stderr(err):
                try:
                    file_util.main(file_util.parse_arguments())
                except SystemExit as stop:
                    status = stop.code
        finally:
            sys.argv = old_argv
        return {"status": status, "stdout": out.getvalue(), "stderr": err.getvalue()}

    def run_cli(argv):
        done = subprocess.run(
            [sys.executable, os.path.join(tree, "file_util.py")] + list(argv),
            stdout=subprocess.PIPE, stderr=subprocess.PIPE, universal_newlines=True,
            env=dict(os.environ, PYTHONPATH=tree, PYTHONDONTWRITEBYTECODE="1"),
        )
        return {"status": done.returncode, "stdout": done.stdout, "stderr": done.stderr.replace(tree, "<tree>")}

    # ---- file sets -------------------------------------------------------
    sets = {
        "one_bin": [coco("HELLO", "BIN", 2, 0, pattern(300), 0x3F00, 0x3F10)],
        "one_bas": [coco("GAME", "BAS", 0, 0, pattern(77, 3))],
        "three": [
            coco("ALPHA", "BIN", 2, 0, pattern(10, 1), 0x0E00, 0x0E02),
            coco("beta", "BAS", 0, 0xFF, [ord(c) for c in "10 PRINT \"HI\"\r"]),
            coco("GAMMA123", "BIN", 2, 0, pattern(600, 5), 0x7000, 0x7123),
        ],
        "sizes": [
            coco("S1", "BIN", 2, 0, pattern(1, 7)),
            coco("S254", "BIN", 2, 0, pattern(254, 8)),
            coco("S255", "BIN", 2, 0, pattern(255, 9)),
            coco("S256", "BIN", 2, 0, pattern(256, 10)),
            coco("S510", "BAS", 0, 0, pattern(510, 11)),
            coco("S2294", "BIN", 2, 0, pattern(2294, 12)),
            coco("S2304", "BAS", 0, 0, pattern(2304, 13)),
            coco("S5000", "DAT", 1, 0, pattern(5000, 14)),
        ],
        "names": [
            coco("a", "BAS", 0, 0, pattern(5, 1)),
            coco("MiXeD", "BIN", 2, 0, pattern(6, 2), 0x100, 0x101),
            coco("SP ACE", "BAS", 0, 0, pattern(7, 3)),
            coco("LONGERNAME", "BIN", 2, 0, pattern(8, 4)),
            coco("DUP", "BAS", 0, 0, pattern(9, 5)),
            coco("DUP", "BIN", 2, 0, pattern(10, 6)),
        ],
    }
    for label, files in sets.items():
        case("build cas " + label, lambda: (write_image(label + ".cas", VirtualFileType.CASSETTE, files), read_image(label + ".cas"))[1])
        case("build dsk " + label, lambda: (write_image(label + ".dsk", VirtualFileType.DISK, files), read_image(label + ".dsk"))[1])
    with open("junk.bin", "wb") as handle:
        handle.write(bytes(range(200)))
    with open("empty.bin", "wb") as handle:
        pass

    # ---- file_util runs --------------------------------------------------
    counter = [0]

    def util_case(argv, cli=False):
        counter[0] += 1
        label = "util#{} {}{}".format(counter[0], "cli " if cli else "", " ".join(argv))
        case(label, lambda: {"run": (run_cli if cli else run_util)(argv), "dir": snapshot()})

    for label in sets:
        util_case([label + ".cas", "--list"])
        util_case([label + ".dsk", "--list"])
        util_case([label + ".cas", "--to_dsk", "o_%s_cd.dsk" % label])
        util_case([label + ".dsk", "--to_cas", "o_%s_dc.cas" % label])
        util_case(["o_%s_cd.dsk" % label, "--to_cas", "o_%s_cdc.cas" % label])
        util_case(["o_%s_dc.cas" % label, "--to_dsk", "o_%s_dcd.dsk" % label])
        util_case([label + ".cas", "--to_cas", "o_%s_cc.cas" % label])
        util_case([label + ".dsk", "--to_dsk", "o_%s_dd.dsk" % label])
    # selections
    util_case(["three.cas", "--to_dsk", "sel1.dsk", "--files", "alpha"])
    util_case(["three.cas", "--to_dsk", "sel2.dsk", "--files", "BETA", "Gamma123"])
    util_case(["three.dsk", "--to_cas", "sel3.cas", "--files", "beta", "ALPHA"])
    util_case(["three.dsk", "--to_cas", "sel4.cas", "--files", "nothing"])
    util_case(["three.dsk", "--to_dsk", "sel5.dsk", "--files", "nothing"])
    util_case(["names.cas", "--to_dsk", "sel6.dsk", "--files", "dup", "mixed", "sp ace"])
    util_case(["names.dsk", "--to_cas", "sel7.cas", "--files", "DUP", "a", "LONGERNA", "LONGERNAME"])
    util_case(["names.cas", "--to_cas", "sel8.cas", "--files", " a", "a "])
    util_case(["three.cas", "--list", "--files", "alpha"])
    # both / all three targets at once
    util_case(["three.cas", "--to_cas", "both1.cas", "--to_dsk", "both1.dsk"])
    util_case(["one_bin.dsk", "--to_cas", "all.cas", "--to_dsk", "all.dsk", "--to_bin", "all.bin"])
    util_case(["three.cas", "--to_cas", "both2.cas", "--to_dsk", "both2.dsk", "--to_bin", "both2.bin"])
    # --to_bin
    util_case(["one_bin.cas", "--to_bin", "b1.bin"])
    util_case(["one_bin.dsk", "--to_bin", "b2.bin"])
    util_case(["one_bas.cas", "--to_bin", "b3.bin", "--files", "game"])
    util_case(["one_bas.dsk", "--to_bin", "b4.bin", "--files", "other"])
    util_case(["three.cas", "--to_bin", "b5.bin"])
    util_case(["three.dsk", "--to_bin", "b6.bin", "--files", "alpha"])
    util_case(["junk.bin", "--to_bin", "b7.bin"])
    util_case(["empty.bin", "--to_bin", "b8.bin"])
    util_case(["junk.bin", "--list"])
    util_case(["junk.bin", "--to_cas", "j.cas"])
    util_case(["junk.bin", "--to_dsk", "j.dsk"])
    # existing targets, append, wrong kinds, missing files
    util_case(["one_bin.cas", "--to_dsk", "sel1.dsk"])
    util_case(["one_bin.cas", "--to_dsk", "sel1.dsk", "--append"])
    util_case(["one_bas.dsk", "--to_cas", "sel3.cas", "--append"])
    util_case(["one_bas.dsk", "--to_cas", "sel3.cas"])
    util_case(["one_bin.cas", "--to_bin", "b1.bin"])
    util_case(["one_bin.cas", "--to_bin", "b1.bin", "--append"])
    util_case(["one_bin.cas", "--to_cas", "three.dsk", "--append"])
    util_case(["one_bin.cas", "--to_dsk", "three.cas", "--append"])
    util_case(["one_bin.cas", "--to_dsk", "junk.bin", "--append"])
    util_case(["one_bin.cas", "--to_bin", "three.cas", "--append"])
    util_case(["missing.cas", "--list"])
    util_case(["missing.cas", "--to_dsk", "m.dsk"])
    util_case(["missing.cas", "--to_bin", "m.bin"])
    util_case(["three.cas"])
    util_case(["three.cas", "--append"])
    util_case([])
    util_case(["three.cas", "--files"])
    util_case(["three.cas", "--to_cas"])
    util_case(["--help"])
    # real command line
    util_case(["three.dsk", "--list"], cli=True)
    util_case(["names.cas", "--to_dsk", "cli1.dsk", "--files", "dup", "A"], cli=True)
    util_case(["cli1.dsk", "--to_cas", "cli1.cas"], cli=True)
    util_case(["three.cas", "--to_bin", "cli2.bin"], cli=True)
    util_case(["one_bin.dsk", "--to_bin", "cli3.bin"], cli=True)
    util_case(["one_bin.dsk", "--to_bin", "cli3.bin"], cli=True)
    util_case(["nope.dsk", "--to_cas", "cli4.cas"], cli=True)

    # ---- library: VirtualFile ---------------------------------------------
    def vf(path, kind=None):
        return VirtualFile(SourceFile(path, file_type=SourceFileType.BINARY), virtual_file_type=kind)

    def vf_listing():
        image = vf("names.cas")
        image.open_virtual_file()
        return [image.list_files(), image.list_files(filenames=["DUP     "]), image.list_files(filenames=["DUP"]),
                image.list_files(filenames=[]), image.file_exists, str(image.virtual_file_type)]
    case("vf list_files filters", vf_listing)

    def vf_save(kind, path, append):
        image = vf(path, kind)
        image.open_virtual_file()
        image.add_coco_file(sets["three"][0])
        image.add_coco_file(sets["three"][2])
        image.save_virtual_file(append_mode=append)
        return read_image(path)
    for kind in (VirtualFileType.CASSETTE, VirtualFileType.DISK, VirtualFileType.BINARY, VirtualFileType.UNKNOWN, None):
        for path, append in (("lib_new_%s.img" % kind, False), ("lib_new_%s.img" % kind, False),
                             ("lib_new_%s.img" % kind, True)):
            case("vf save {} {} append={}".format(kind, path, append), lambda: vf_save(kind, path, append))
    case("vf get_coco_files junk", lambda: (lambda i: (i.source_file.read_file(), i.get_coco_files())[1])(vf("junk.bin")))
    case("vf get_coco_files dsk", lambda: (lambda i: (i.source_file.read_file(), i.get_coco_files())[1][1].name)(vf("three.dsk")))

    # ---- library: CassetteFile ---------------------------------------------
    def tape(files):
        cassette = CassetteFile()
        cassette.add_files(files)
        return cassette.get_buffer()

    case("cas buffer three", lambda: digest(tape(sets["three"])))
    case("cas buffer sizes", lambda: digest(tape(sets["sizes"])))
    case("cas empty data file", lambda: tape([coco("EMPTY", "BIN", 2, 0, [])]))
    case("cas list empty data file", lambda: CassetteFile(buffer=tape([coco("EMPTY", "BIN", 2, 0, [])])).list_files())
    case("cas list filter", lambda: CassetteFile(buffer=tape(sets["names"])).list_files(filenames=["DUP     ", "a       "]))
    case("cas list filter none match", lambda: CassetteFile(buffer=tape(sets["names"])).list_files(filenames=["dup"]))
    case("cas list empty buffer", lambda: CassetteFile(buffer=[]).list_files())
    case("cas list no buffer", lambda: CassetteFile().list_files())
    whole = tape(sets["three"])
    for cut in (1, 3, 4, 10, 150, 256 + 10, 256 + 14, 256 + 18, 256 + 21, 256 + 22, 256 + 150, 512 + 21 + 3,
                512 + 21 + 4, 512 + 21 + 10, 512 + 21 + 14, 512 + 21 + 15, 512 + 21 + 16, 512 + 21 + 20,
                512 + 21 + 21, 512 + 21 + 22, 900, 1200, len(whole) - 1, len(whole) - 3, len(whole) - 6, len(whole) - 7):
        case("cas truncated at %d" % cut, lambda: CassetteFile(buffer=list(whole[:cut])).list_files())
    for position, value in ((256 + 2, 0x01), (512 + 21 + 2, 0x02), (512 + 21 + 2, 0xFF), (512 + 21 + 2, 0x00),
                            (512 + 21 + 3, 0x00), (512 + 21 + 3, 0xFF), (256 + 12, 0x07), (256 + 4, 0xC3)):
        def damaged(position=position, value=value):
            copy = list(whole)
            copy[position] = value
            return CassetteFile(buffer=copy).list_files()
        case("cas damaged %d=%d" % (position, value), damaged)
    case("cas skip_to_sequence", lambda: [
        CassetteFile(buffer=list(whole)).skip_to_sequence(seq, start=start)
        for seq in ([0x55, 0x3C, 0x00], [0x55, 0x3C], [0x55, 0x3C, 0xFF], [0x99], [])
        for start in (0, 1, 256, 257, 300, 800, len(whole) - 2, len(whole), len(whole) + 5)
    ])
    case("cas read_coco_file_name", lambda: [CassetteFile(buffer=list(whole)).read_coco_file_name(p) for p in (260, 0, 256)])
    case("cas read_coco_file_name short", lambda: CassetteFile(buffer=list(whole[:265])).read_coco_file_name(260))
    case("cas read_blocks", lambda: CassetteFile(buffer=list(whole)).read_blocks(300))
    case("cas read_blocks none", lambda: CassetteFile(buffer=[1, 2, 3]).read_blocks(0))
    case("cas read_file past end", lambda: CassetteFile(buffer=list(whole)).read_file(len(whole)))

    def fixed_parts():
        cassette = CassetteFile()
        cassette.append_leader()
        cassette.append_blank()
        cassette.append_eof()
        total = cassette.append_name("ab")
        total2 = cassette.append_name("ABCDEFGHIJK")
        total3 = cassette.append_name("")
        cassette.append_data_blocks([])
        cassette.append_data_blocks(pattern(255), gaps=True)
        cassette.append_data_blocks(pattern(600), gaps=True)
        cassette.append_data_blocks(pattern(254))
        cassette.append_header(sets["three"][2])
        return [total, total2, total3, cassette.get_buffer()]
    case("cas fixed parts", fixed_parts)
    case("cas append_name non ascii", lambda: (lambda c: [c.append_name("éĀx"), c.buffer])(CassetteFile()))
    case("cas buffer bytes bad", lambda: bytearray(tape([coco("Ā", "BIN", 2, 0, [1])])))

    # ---- library: DiskFile -------------------------------------------------
    def disk(files):
        image = DiskFile()
        image.add_files(files)
        return image

    case("dsk buffer three", lambda: digest(disk(sets["three"]).get_buffer()))
    case("dsk buffer sizes", lambda: digest(disk(sets["sizes"]).get_buffer()))
    case("dsk fat+dir sizes", lambda: disk(sets["sizes"]).get_buffer()[DiskConstants.FAT_OFFSET:DiskConstants.DIR_OFFSET + 32 * 10])
    case("dsk empty data", lambda: disk([coco("EMPTY", "BIN", 2, 0, []), coco("E2", "BAS", 0, 0, []), coco("E3", "BAS", 0, 0xFF, [])]).list_files())
    case("dsk list short", lambda: DiskFile(buffer=[0] * 100).list_files())
    case("dsk list blank", lambda: DiskFile().list_files())
    case("dsk list zero image", lambda: DiskFile(buffer=[0] * DiskConstants.IMAGE_SIZE).list_files())
    for size in (2293, 2294, 2295, 2298, 2299, 2300, 2301, 2303, 2304, 2305, 4598, 4599, 4600, 4603, 4604, 4608):
        for ftype, dtype in ((2, 0), (0, 0), (0, 0xFF)):
            def boundary(size=size, ftype=ftype, dtype=dtype):
                image = disk([coco("EDGE", "BIN", ftype, dtype, pattern(size, size))])
                listed = image.list_files()
                return [digest(image.get_buffer()), image.get_buffer()[DiskConstants.FAT_OFFSET:DiskConstants.FAT_OFFSET + 68],
                        image.get_buffer()[DiskConstants.DIR_OFFSET:DiskConstants.DIR_OFFSET + 32], listed]
            case("dsk boundary size=%d type=%d/%d" % (size, ftype, dtype), boundary)

    def many(count, size):
        image = DiskFile()
        report = []
        for number in range(count):
            try:
                image.add_file(coco("F%d" % number, "BIN", 2, 0, pattern(size, number)))
                report.append("ok")
            except BaseException as error:  # noqa
                report.append("{}: {}".format(type(error).__name__, error))
        return [report, digest(image.get_buffer()), [f.name for f in image.list_files()],
                image.find_empty_directory_entry(),
                image.get_buffer()[DiskConstants.FAT_OFFSET:DiskConstants.FAT_OFFSET + 256]]
    case("dsk 74 small files", lambda: many(74, 3))
    case("dsk 70 one-granule files", lambda: many(70, 2000))
    case("dsk 30 three-granule files", lambda: many(30, 5000))

    def probes():
        image = disk(sets["three"])
        out = []
        for number in (-2, -1, 0, 1, 2, 33, 34, 66, 67, 68, 69, 71, 72, 100):
            for probe in (image.granule_in_use, image.directory_entry_in_use, image.seek_granule):
                try:
                    out.append(probe(number))
                except BaseException as error:  # noqa
                    out.append("{}: {}".format(type(error).__name__, error))
        out.append(image.find_empty_granule())
        out.append(image.find_empty_directory_entry())
        return out
    case("dsk probes", probes)
    case("dsk short fill order", lambda: DiskFile(granule_fill_order=[1, 2, 3]).find_empty_granule())
    case("dsk custom fill order", lambda: (lambda d: (d.add_files(sets["three"]), digest(d.get_buffer()), d.list_files())[1:])(DiskFile(granule_fill_order=list(range(68)))))

    def fat_writes():
        image = DiskFile()
        image.write_to_fat([], 3)
        image.write_to_fat([5], 1)
        image.write_to_fat([7, 9, 2], 9)
        image.write_to_fat([40, 41], 0)
        return image.get_buffer()[DiskConstants.FAT_OFFSET:DiskConstants.FAT_OFFSET + 68]
    case("dsk write_to_fat", fat_writes)

    def dir_writes():
        image = DiskFile()
        image.write_dir_entry(0, coco("ab", "b", 2, 0, [1]), 32, 17)
        image.write_dir_entry(3, coco("LONGERNAME", "LONG", 0, 0xFF, [1]), 67, 256)
        image.write_dir_entry(71, coco("a\0b", "\0", 1, 0, [1]), 0, 0)
        return [image.get_buffer()[DiskConstants.DIR_OFFSET:DiskConstants.DIR_OFFSET + 32 * 4],
                image.get_buffer()[DiskConstants.DIR_OFFSET + 32 * 71:]]
    case("dsk write_dir_entry", dir_writes)
    case("dsk write_dir_entry beyond", lambda: DiskFile().write_dir_entry(72, coco("X", "BIN", 2, 0, [1]), 1, 1))
    case("dsk write_dir_entry wide char", lambda: bytearray((lambda d: (d.write_dir_entry(0, coco("Ā", "BIN", 2, 0, [1]), 1, 1), d.get_buffer())[1])(DiskFile())))

    def arithmetic():
        out = []
        for size in (0, 1, 245, 246, 250, 251, 255, 256, 2293, 2294, 2295, 2298, 2299, 2303, 2304, 4603, 4604, 10000):
            for pre, post in ((MLPreamble(), Postamble()), (BasicPreamble(), None), (ASCIIPreamble(), None)):
                data = [0] * size
                out.append([DiskFile.calculate_granules_needed(data, pre, post),
                            DiskFile.calculate_last_sector_bytes_used(data, pre, post),
                            DiskFile.calculate_last_granules_sectors_used(data, pre, post),
                            DiskFile.calculate_sectors_needed(size)])
        return out
    case("dsk arithmetic", arithmetic)
    case("dsk calculate_file_length", lambda: [
        DiskFile.calculate_file_length(0, [1, 2, 0xC3] + [0xFF] * 65, 17),
        DiskFile.calculate_file_length(5, [0xFF] * 5 + [0xC1] + [0xFF] * 62, 256),
        DiskFile.calculate_file_length(2, [0xFF, 0xFF, 0xC0], 0),
    ])
    case("dsk calculate_file_length bad", lambda: DiskFile.calculate_file_length(0, [70], 1))
    case("dsk read_sequence", lambda: (lambda d: [d.read_sequence(DiskConstants.DIR_OFFSET, 8, decode=True),
                                                  d.read_sequence(DiskConstants.DIR_OFFSET, 11),
                                                  d.read_sequence(0, 0)])(disk(sets["three"])))
    case("dsk read_sequence too long", lambda: DiskFile(buffer=[1, 2, 3]).read_sequence(1, 3))

    def reread():
        first = disk(sets["sizes"])
        tape_image = CassetteFile()
        tape_image.add_files(first.list_files())
        back = DiskFile()
        back.add_files(CassetteFile(buffer=tape_image.get_buffer()).list_files())
        return [digest(tape_image.get_buffer()), digest(back.get_buffer()), digest(first.get_buffer()),
                back.list_files() == first.list_files()]
    case("chain dsk->cas->dsk library", reread)
    case("binary container", lambda: (lambda b: (b.add_files(sets["three"]), b.get_buffer(), b.list_files())[1:])(BinaryFile()))

    json.dump(results, sys.stdout)


# --------------------------------------------------------------------------
# comparison
# --------------------------------------------------------------------------

def start_tree(tree):
    tree = os.path.abspath(tree)
    workdir = tempfile.TemporaryDirectory(prefix="c16_equiv_")
    process = subprocess.Popen(
        [sys.executable, os.path.abspath(__file__), "--driver", tree],
        cwd=workdir.name, stdout=subprocess.PIPE, stderr=subprocess.PIPE, universal_newlines=True,
        env=dict(os.environ, PYTHONDONTWRITEBYTECODE="1", PYTHONHASHSEED="0"),
    )
    return tree, workdir, process


def finish_tree(started):
    tree, workdir, process = started
    stdout, stderr = process.communicate()
    workdir.cleanup()
    if process.returncode != 0:
        print("driver failed for", tree)
        print(stderr[-3000:])
        sys.exit(2)
    return json.loads(stdout)


def main():
    if len(sys.argv) == 3 and sys.argv[1] == "--driver":
        driver(sys.argv[2])
        return 0
    if len(sys.argv) != 3:
        print(__doc__)
        return 2
    started = [start_tree(sys.argv[1]), start_tree(sys.argv[2])]   # one subprocess per tree, side by side
    left, right = finish_tree(started[0]), finish_tree(started[1])
    differences = 0
    if [name for name, _ in left] != [name for name, _ in right]:
        print("case lists differ")
        differences += 1
    for (name, a), (_, b) in zip(left, right):
        if a != b:
            differences += 1
            print("DIFFERENT:", name)
            print("   A:", json.dumps(a)[:600])
            print("   B:", json.dumps(b)[:600])
    errors = sum(1 for _, outcome in left if "error" in outcome)
    print("{} cases compared ({} of them raise), {} differences".format(len(left), errors, differences))
    return 1 if differences else 0


if __name__ == "__main__":
    sys.exit(main())
