#!/usr/bin/env python
"""
Differential check: runs the same driver inside two source trees (one subprocess per
tree, tree as cwd and at the front of sys.path) and compares every recorded observation.
Usage: equiv.py <treeA> <treeB>; exit 0 when all observations agree, 1 otherwise.
"""
import json
import os
import subprocess
import sys
import tempfile

DRIVER = r'''
import sys, os, io, json, hashlib, tempfile, contextlib, argparse, shutil, subprocess, traceback
tree = os.path.abspath(sys.argv[1])
sys.path.insert(0, tree)
os.chdir(tree)
import file_util
from cocoasm.values import NumericValue, NoneValue
from cocoasm.virtualfiles.coco_file import CoCoFile
from cocoasm.virtualfiles.cassette import CassetteFile
from cocoasm.virtualfiles.disk import DiskFile, DiskConstants
from cocoasm.virtualfiles.binary import BinaryFile
from cocoasm.virtualfiles.source_file import SourceFile, SourceFileType
from cocoasm.virtualfiles.virtual_file import VirtualFile, VirtualFileType
from cocoasm.virtualfiles.virtual_file_container import VirtualFileContainer

RESULTS = []

def record(label, fn):
    try:
        value = fn()
        RESULTS.append([label, "ok", value])
    except SystemExit as e:
        RESULTS.append([label, "exit", repr(e.code)])
    except BaseException as e:
        RESULTS.append([label, "exc", type(e).__name__, str(e).replace(globals().get("work", "<none>"), "<W>")])

def mk(name, ftype=2, dtype=0, n=10, load=0x0E00, exe=0x0E10, ext="BIN", seed=1):
    data = [(i * 7 + seed * 13 + (i >> 8)) & 0xFF for i in range(n)]
    return CoCoFile(name=name, extension=ext, type=NumericValue(ftype), data_type=NumericValue(dtype),
                    gaps=NumericValue(0), load_addr=NumericValue(load), exec_addr=NumericValue(exe), data=data)

def describe(f):
    return [f.name, f.extension, f.type.hex(), f.data_type.hex(),
            f.load_addr.hex(size=4) if not f.load_addr.is_none() else None,
            f.exec_addr.hex(size=4) if not f.exec_addr.is_none() else None,
            len(f.data), hashlib.sha256(bytes(f.data)).hexdigest()[:16], str(f)]

def digest(path):
    if not os.path.exists(path):
        return None
    b = open(path, "rb").read()
    return [len(b), hashlib.sha256(b).hexdigest()]

def parse_image(path):
    if not os.path.exists(path):
        return None
    buf = list(open(path, "rb").read())
    out = []
    for cls in (DiskFile, CassetteFile):
        try:
            out.append([cls.__name__, [describe(f) for f in cls(buffer=list(buf)).list_files()]])
        except BaseException as e:
            out.append([cls.__name__, type(e).__name__, str(e)])
    return out

FILE_SETS = {
    "one_ml": [mk("HELLO", n=20)],
    "one_basic": [mk("PROG", ftype=0, n=300, ext="BAS")],
    "one_ascii": [mk("TXT", ftype=0, dtype=0xFF, n=100, ext="BAS")],
    "one_data": [mk("DATA1", ftype=1, dtype=0xFF, n=77, ext="DAT")],
    "three": [mk("ALPHA", n=1), mk("beta", ftype=0, n=255, ext="BAS", seed=2), mk("GaMmA", n=256, load=0x3F00, exe=0x3F01, seed=3)],
    "sizes": [mk("A", n=254), mk("B", n=255, seed=4), mk("C", n=510, seed=5), mk("D", n=2299, seed=6),
              mk("E", n=2300, seed=7), mk("F", n=2304, seed=8), mk("G", n=5000, seed=9)],
    "names": [mk("EIGHTCHR", n=5), mk("NINECHARS", n=6, seed=2), mk("SP ACE", n=7, seed=3), mk("X", n=8, seed=4),
              mk("dup", n=9, seed=5), mk("DUP", n=10, seed=6)],
    "empty_data": [mk("FIRST", n=3), mk("NODATA", n=0), mk("LAST", n=4)],
    "big_addr": [mk("HI", n=12, load=0xFFF0, exe=0xFFFF), mk("LO", n=12, load=0, exe=0)],
}

def ns(host, **kw):
    d = dict(host_filename=host, append=False, list=False, to_bin=None, to_cas=None, to_dsk=None, files=None)
    d.update(kw)
    return argparse.Namespace(**d)

def run_main(args):
    out = io.StringIO()
    code = None
    with contextlib.redirect_stdout(out):
        try:
            file_util.main(args)
        except SystemExit as e:
            code = e.code
    return [out.getvalue(), code]

work = tempfile.mkdtemp(prefix="c16eq")
try:
    images = {}
    for set_name, files in FILE_SETS.items():
        for kind, cls in (("cas", CassetteFile), ("dsk", DiskFile)):
            path = os.path.join(work, "{}.{}".format(set_name, kind))
            def build(cls=cls, files=files, path=path):
                c = cls()
                c.add_files(files)
                SourceFile.write_binary_contents(path, c.get_buffer())
                return digest(path)
            record("build/{}/{}".format(set_name, kind), build)
            images["{}.{}".format(set_name, kind)] = path
            record("parse/{}/{}".format(set_name, kind), lambda path=path: parse_image(path))

    counter = [0]
    def conv(label, src, **kw):
        counter[0] += 1
        tgt = {}
        for key, ext in (("to_cas", "cas"), ("to_dsk", "dsk"), ("to_bin", "bin")):
            if kw.get(key) is True:
                kw[key] = os.path.join(work, "out{}.{}".format(counter[0], ext))
            if kw.get(key):
                tgt[key] = kw[key]
        def go():
            r = run_main(ns(src, **kw))
            r[0] = r[0].replace(work, "<W>")
            return [r, [[k, digest(v), parse_image(v) if k != "to_bin" else None] for k, v in sorted(tgt.items())]]
        record(label, go)
        return tgt

    for key, path in sorted(images.items()):
        record("list/" + key, lambda path=path: run_main(ns(path, list=True)))
        t = conv("to_cas/" + key, path, to_cas=True)
        t2 = conv("to_dsk/" + key, path, to_dsk=True)
        conv("to_bin/" + key, path, to_bin=True)
        # chains
        if "to_cas" in t:
            t3 = conv("chain_cas_dsk/" + key, t["to_cas"], to_dsk=True)
            if "to_dsk" in t3:
                conv("chain_cas_dsk_cas/" + key, t3["to_dsk"], to_cas=True)
        if "to_dsk" in t2:
            t4 = conv("chain_dsk_cas/" + key, t2["to_dsk"], to_cas=True)
            if "to_cas" in t4:
                conv("chain_dsk_cas_dsk/" + key, t4["to_cas"], to_dsk=True)

    selections = [["ALPHA"], ["alpha"], ["Beta", "GAMMA"], ["gamma", "ALPHA"], ["NOPE"], ["beta "], [" beta"], ["BETA", "BETA"], []]
    for sel in selections:
        for src in ("three.cas", "three.dsk"):
            for key in ("to_cas", "to_dsk"):
                conv("sel/{}/{}/{}".format(src, key, sel), images[src], files=sel, **{key: True})
    for sel in (["DUP"], ["dup"], ["EIGHTCHR", "x"], ["NINECHAR"], ["NINECHARS"], ["SP ACE"], ["SPACE"]):
        for src in ("names.cas", "names.dsk"):
            conv("selnames/{}/{}".format(src, sel), images[src], files=sel, to_cas=True, to_dsk=True)
    for sel in (["HELLO"], ["hello"], ["other"]):
        for src in ("one_ml.cas", "one_ml.dsk"):
            conv("selbin/{}/{}".format(src, sel), images[src], files=sel, to_bin=True)

    # overwrite / append handling
    existing = os.path.join(work, "exists.cas")
    shutil.copy(images["one_ml.cas"], existing)
    conv("overwrite/refuse_cas", images["three.dsk"], to_cas=existing)
    conv("overwrite/append_cas", images["three.dsk"], to_cas=existing, append=True)
    existing_d = os.path.join(work, "exists.dsk")
    shutil.copy(images["one_basic.dsk"], existing_d)
    conv("overwrite/refuse_dsk", images["three.cas"], to_dsk=existing_d)
    conv("overwrite/append_dsk", images["three.cas"], to_dsk=existing_d, append=True)
    existing_b = os.path.join(work, "exists.bin")
    open(existing_b, "wb").write(b"\x01\x02\x03")
    conv("overwrite/refuse_bin", images["one_ml.cas"], to_bin=existing_b)
    conv("overwrite/append_bin", images["one_ml.cas"], to_bin=existing_b, append=True)
    conv("mismatch/cas_as_dsk", images["one_ml.cas"], to_dsk=existing, append=True)
    conv("mismatch/dsk_as_cas", images["one_ml.cas"], to_cas=existing_d, append=True)
    conv("both", images["three.cas"], to_cas=True, to_dsk=True, to_bin=True)
    conv("missing_source", os.path.join(work, "nothere.cas"), to_cas=True)
    conv("missing_source_bin", os.path.join(work, "nothere.cas"), to_bin=True)
    record("missing_source_list", lambda: run_main(ns(os.path.join(work, "nothere.cas"), list=True)))
    junk = os.path.join(work, "junk.bin")
    open(junk, "wb").write(bytes(range(200)))
    conv("junk_source", junk, to_cas=True, to_dsk=True)
    record("junk_list", lambda: run_main(ns(junk, list=True)))
    emptyf = os.path.join(work, "empty.bin")
    open(emptyf, "wb").write(b"")
    conv("empty_source", emptyf, to_dsk=True)
    conv("empty_source_bin", emptyf, to_bin=True)

    # real command line
    def cli(argv):
        p = subprocess.run([sys.executable, os.path.join(tree, "file_util.py")] + argv, cwd=work,
                           stdout=subprocess.PIPE, stderr=subprocess.PIPE, universal_newlines=True)
        return [p.returncode, p.stdout.replace(work, "<W>"), p.stderr.replace(work, "<W>").replace(tree, "<T>")]
    record("cli/list", lambda: cli(["three.cas", "--list"]))
    record("cli/to_dsk", lambda: [cli(["three.cas", "--to_dsk", "cli1.dsk", "--files", "beta", "ALPHA"]), digest(os.path.join(work, "cli1.dsk"))])
    record("cli/to_cas", lambda: [cli(["cli1.dsk", "--to_cas", "cli1.cas"]), digest(os.path.join(work, "cli1.cas"))])
    record("cli/to_bin_many", lambda: [cli(["three.dsk", "--to_bin", "cli1.bin"]), digest(os.path.join(work, "cli1.bin"))])
    record("cli/to_bin_one", lambda: [cli(["one_ml.dsk", "--to_bin", "cli2.bin"]), digest(os.path.join(work, "cli2.bin"))])
    record("cli/again_refused", lambda: [cli(["one_ml.dsk", "--to_bin", "cli2.bin"]), digest(os.path.join(work, "cli2.bin"))])
    record("cli/noargs", lambda: cli([])[0])

    # library level
    def buf(key):
        return list(open(images[key], "rb").read())
    for names in (None, [], ["ALPHA   "], ["ALPHA"], ["beta    ", "GaMmA   "], ("GaMmA   ",), "ALPHA   ", {"beta    "}):
        record("cas.list_files/{!r}".format(names), lambda names=names: [describe(f) for f in CassetteFile(buffer=buf("three.cas")).list_files(filenames=names)])
        record("dsk.list_files/{!r}".format(names), lambda names=names: [describe(f) for f in DiskFile(buffer=buf("three.dsk")).list_files(filenames=names)])
        def vf(names=names, key="three.cas"):
            v = VirtualFile(SourceFile(images[key], file_type=SourceFileType.BINARY))
            v.open_virtual_file()
            got = v.list_files(filenames=names)
            return [[describe(f) for f in got], got is v.coco_file_list, str(v.virtual_file_type), v.file_exists]
        record("vf.list_files/cas/{!r}".format(names), vf)
        record("vf.list_files/dsk/{!r}".format(names), lambda names=names: vf(names, "three.dsk"))
    full = buf("sizes.cas")
    for cut in (0, 1, 100, 128, 255, 256, 258, 259, 260, 270, 275, 276, 277, 278, 300, 400, 533, 534, 535, 540, 800, 1000, len(full) - 7, len(full) - 6, len(full) - 5, len(full) - 3, len(full) - 1):
        record("cas.truncated/{}".format(cut), lambda cut=cut: [describe(f) for f in CassetteFile(buffer=full[:cut]).list_files()])
    def corrupt(pos, val):
        b = buf("three.cas"); b[pos] = val
        return [describe(f) for f in CassetteFile(buffer=b).list_files()]
    for pos, val in ((258, 0x07), (130, 0x01), (131, 0x00), (277 + 128 + 128 + 2, 0x05), (277 + 128 + 128 + 2, 0xFF), (132, 0xC3), (139, 0x80)):
        record("cas.corrupt/{}/{}".format(pos, val), lambda pos=pos, val=val: corrupt(pos, val))
    dfull = buf("three.dsk")
    for cut in (0, 10, 78592, 78848, 161279, 161280):
        record("dsk.truncated/{}".format(cut), lambda cut=cut: [describe(f) for f in DiskFile(buffer=dfull[:cut]).list_files()])
    record("dsk.long", lambda: [describe(f) for f in DiskFile(buffer=dfull + [0] * 10).list_files()])
    for p in (0, 1, 2, 3, 4, 5, -1, -2, -3, 100):
        def rw(p=p):
            c = CassetteFile(buffer=[1, 2, 3, 4, 5]); return c.read_word(p).hex(size=4)
        record("read_word/{}".format(p), rw)
    record("read_word/empty", lambda: CassetteFile().read_word(0).hex())
    record("read_word/one", lambda: CassetteFile(buffer=[9]).read_word(0).hex())
    for p, n, dec in ((0, 3, False), (0, 5, True), (2, 3, True), (2, 4, False), (0, 6, False), (5, 0, False), (5, 1, False), (-2, 2, True), (-2, 3, True), (0, 0, True), (9, 0, False)):
        def rs(p=p, n=n, dec=dec):
            d = DiskFile(buffer=[65, 66, 67, 68, 69]); return d.read_sequence(p, n, decode=dec)
        record("read_sequence/{}/{}/{}".format(p, n, dec), rs)
    record("read_sequence/baddecode", lambda: DiskFile(buffer=[0xC3, 0x28, 0xFF]).read_sequence(0, 3, decode=True))
    for p, seq in ((0, [65, 66]), (0, [65, 67]), (3, [68, 69]), (3, [68, 69, 70]), (4, [69]), (5, []), (5, [1]), (0, []), (-1, [69]), (-1, [69, 1]), (0, [65, 66, 67, 68, 69, 70])):
        def vs(p=p, seq=seq):
            d = DiskFile(buffer=[65, 66, 67, 68, 69]); return d.validate_sequence(p, seq)
        record("validate_sequence/{}/{}".format(p, seq), vs)
    def container_state():
        src = [1, 2, 3]
        c = CassetteFile(buffer=src)
        c.append_eof()
        e = CassetteFile(buffer=[])
        d = DiskFile(buffer=[])
        return [c.buffer is src, c.original_buffer, src, e.buffer, e.original_buffer, len(d.buffer), d.original_buffer, len(DiskFile().buffer)]
    record("container_state", container_state)
    def source_file_roundtrip():
        p = os.path.join(work, "sf.bin")
        s = SourceFile(p, file_type=SourceFileType.BINARY)
        s.set_buffer(list(range(256)) + [0, 255, 10, 13])
        s.write_file()
        t = SourceFile(p, file_type=SourceFileType.BINARY)
        t.read_file()
        a = SourceFile(p, file_type=SourceFileType.ASSEMBLY)
        a.set_buffer([1]); a.write_file()
        return [digest(p), t.get_buffer() == s.get_buffer(), t.get_file_name() == p, a.get_buffer()]
    record("source_file_roundtrip", source_file_roundtrip)
    record("source_file_missing", lambda: SourceFile(os.path.join(work, "zz", "no.bin"), file_type=SourceFileType.BINARY).read_file())
    record("source_file_write_bad", lambda: SourceFile.write_binary_contents(os.path.join(work, "w.bin"), [256]))
    def save_unknown(t):
        p = os.path.join(work, "unk{}.bin".format(t))
        v = VirtualFile(SourceFile(p, file_type=SourceFileType.BINARY), virtual_file_type=t)
        v.add_coco_file(mk("Q", n=4)); v.add_coco_file(mk("R", n=5))
        v.save_virtual_file()
        return [digest(p), len(v.list_files()), [f.name for f in v.list_files(["R"])]]
    for t in (None, VirtualFileType.UNKNOWN, VirtualFileType.BINARY, VirtualFileType.CASSETTE, VirtualFileType.DISK):
        record("save/{}".format(t), lambda t=t: save_unknown(t))
    def disk_full():
        d = DiskFile()
        n = 0
        try:
            for i in range(80):
                d.add_file(mk("F{}".format(i), n=2000, seed=i)); n += 1
        except BaseException as e:
            return [n, type(e).__name__, str(e), hashlib.sha256(bytes(d.buffer)).hexdigest()]
        return [n, hashlib.sha256(bytes(d.buffer)).hexdigest()]
    record("disk_full_granules", disk_full)
    def dir_full():
        d = DiskFile()
        n = 0
        try:
            for i in range(80):
                d.add_file(mk("F{}".format(i), ftype=0, n=0, seed=i)); n += 1
        except BaseException as e:
            return [n, type(e).__name__, str(e), hashlib.sha256(bytes(d.buffer)).hexdigest()]
        return [n, hashlib.sha256(bytes(d.buffer)).hexdigest()]
    record("disk_full_directory", dir_full)
    EXTRA_CASES
finally:
    shutil.rmtree(work, ignore_errors=True)

json.dump(RESULTS, sys.stdout)
'''

EXTRA = r'''
pass
'''


def run(tree):
    driver = DRIVER.replace("    EXTRA_CASES", "\n".join("    " + line for line in EXTRA.strip("\n").splitlines()) or "    pass")
    with tempfile.NamedTemporaryFile("w", suffix="_driver.py", delete=False) as handle:
        handle.write(driver)
        name = handle.name
    try:
        env = dict(os.environ, PYTHONHASHSEED="0", PYTHONDONTWRITEBYTECODE="1")
        proc = subprocess.run([sys.executable, name, tree], cwd=tree, env=env,
                              stdout=subprocess.PIPE, stderr=subprocess.PIPE, universal_newlines=True)
        if proc.returncode != 0:
            print("driver failed in", tree)
            print(proc.stderr[-3000:])
            sys.exit(1)
        return json.loads(proc.stdout)
    finally:
        os.unlink(name)


def main():
    tree_a, tree_b = [os.path.abspath(p) for p in sys.argv[1:3]]
    a = run(tree_a)
    b = run(tree_b)
    bad = 0
    if len(a) != len(b):
        print("different number of observations", len(a), len(b))
        bad += 1
    for left, right in zip(a, b):
        if left != right:
            bad += 1
            print("MISMATCH", left[0])
            print("   A:", json.dumps(left)[:600])
            print("   B:", json.dumps(right)[:600])
    print("{} observations compared, {} mismatches".format(len(a), bad))
    sys.exit(1 if bad else 0)


if __name__ == "__main__":
    main()
