#!/usr/bin/env python
"""
Differential demonstration: runs the same set of cases against two source trees
(one subprocess per tree, tree first on sys.path) and compares every observable
result.  Usage: equiv.py <treeA> <treeB>; exit status 0 when everything agrees.
"""
import json
import os
import shutil
import subprocess
import sys
import tempfile

HERE = os.path.abspath(__file__)


# ----------------------------------------------------------------- driver side

def norm(obj, depth=0):
    """Turns library objects into plain JSON-able data, without memory addresses."""
    if obj is None or isinstance(obj, (bool, int, float, str)):
        return obj
    if isinstance(obj, (bytes, bytearray)):
        return {"__bytes__": obj.hex()}
    if isinstance(obj, (list, tuple)):
        if len(obj) > 64 and all(isinstance(x, int) and not isinstance(x, bool) for x in obj):
            import hashlib
            return {"__ints__": len(obj), "sha": hashlib.sha256(repr(list(obj)).encode()).hexdigest(),
                    "head": list(obj[:16]), "tail": list(obj[-16:])}
        return [norm(x, depth + 1) for x in obj]
    if isinstance(obj, dict):
        return {str(k): norm(v, depth + 1) for k, v in obj.items()}
    if hasattr(obj, "_asdict") and depth < 6:
        return {"__nt__": type(obj).__name__, "fields": norm(obj._asdict(), depth + 1)}
    import enum
    if isinstance(obj, enum.Enum):
        return "enum:" + str(obj)
    if hasattr(obj, "__dict__") and depth < 6:
        return {"__obj__": type(obj).__name__,
                "attrs": {k: norm(v, depth + 1) for k, v in sorted(vars(obj).items())}}
    return "repr:" + type(obj).__name__


def attempt(fn, *args, **kwargs):
    """Calls fn and records either its normalised result or the exception type and message."""
    try:
        return ["ok", norm(fn(*args, **kwargs))]
    except SystemExit as error:
        return ["exit", repr(error.code)]
    except BaseException as error:  # noqa - we want to see everything
        return ["raised", type(error).__name__, str(error)]


def file_state(path):
    """The observable state of a file: absent, or its bytes."""
    if not os.path.exists(path):
        return None
    with open(path, "rb") as handle:
        data = handle.read()
    import hashlib
    return {"len": len(data), "sha": hashlib.sha256(data).hexdigest(), "head": data[:48].hex()}


def run_cli(tree, script, arguments, cwd):
    """Runs one of the command-line tools of the tree; tracebacks are reduced to their last line."""
    env = dict(os.environ, PYTHONDONTWRITEBYTECODE="1", PYTHONPATH=tree)
    done = subprocess.run([sys.executable, "-B", os.path.join(tree, script)] + list(arguments),
                          cwd=cwd, env=env, stdout=subprocess.PIPE, stderr=subprocess.PIPE, timeout=120)
    err = done.stderr.decode("utf-8", "replace").replace(tree, "<TREE>")
    if "Traceback (most recent call last)" in err:
        err = "TRACEBACK ... " + err.strip().splitlines()[-1]
    out = done.stdout.decode("utf-8", "replace").replace(tree, "<TREE>")
    return {"status": done.returncode, "stdout": out, "stderr": err}


def write_text(path, text):
    with open(path, "w") as handle:
        handle.write(text)


def write_bytes(path, data):
    with open(path, "wb") as handle:
        handle.write(bytes(data))


# ------------------------------------------------------------ shared CLI cases

PROGRAMS = {
    "hello": """        NAM     hello
        ORG     $0E00
START   LDA     #$01
        LDX     #MSG
LOOP    LDA     ,X+
        BEQ     DONE
        JSR     [$A002]
        BRA     LOOP
DONE    RTS
MSG     FCC     "HELLO WORLD"
        FCB     0
        END     START
""",
    "noname": """        ORG     $3F00
BEGIN   LDD     #$1234
        STD     $0400
        LEAX    TABLE,PCR
        RTS
TABLE   FDB     $0102,$0304,$FFFE
""",
    "longname": """        NAM     LongProgName
        ORG     $7000
        LDA     <$10
        STA     >$0010
        PSHS    A,B,X
        PULS    A,B,X,PC
""",
    "noorg": """        NAM     FLAT
        CLRA
        CLRB
LOOP    INCA
        BNE     LOOP
        RTS
""",
    "high": """        NAM     TOPMEM
        ORG     $FF00
        LDX     #$FFFE
        LDA     ,X
        RTS
""",
    "block255": """        NAM     B255
        ORG     $1000
        RMB     250
        FCB     1,2,3,4,5
""",
    "block256": """        NAM     B256
        ORG     $1000
        RMB     250
        FCB     1,2,3,4,5,6
""",
    "multi": """        NAM     BIGGER
        ORG     $2000
HEAD    LDA     #$55
        RMB     2296
        FCB     $AA,$BB
        RMB     2400
TAIL    RTS
""",
    "twoorg": """        NAM     TWICE
        ORG     $1000
        NOP
        ORG     $2000
        RTS
        NAM     AGAIN
""",
    "badmnemonic": """        NAM     BROKEN
        ORG     $1000
        FROB    #1
""",
    "badoperand": """        ORG     $1000
        LDA     #$12345
""",
}


def cli_suite(tree, work, wanted=None):
    """Assembles the programs through assembler.py with every output switch and lists what was written."""
    results = []
    for name, text in PROGRAMS.items():
        if wanted is not None and name not in wanted:
            continue
        folder = os.path.join(work, "cli_" + name)
        os.makedirs(folder)
        write_text(os.path.join(folder, "src.asm"), text)

        def step(label, script, arguments, watch):
            outcome = run_cli(tree, script, arguments, folder)
            outcome["files"] = {target: file_state(os.path.join(folder, target)) for target in watch}
            results.append(("cli/{}/{}".format(name, label), outcome))

        step("listing", "assembler.py", ["src.asm", "--print", "--symbols"], [])
        step("bin", "assembler.py", ["src.asm", "--to_bin", "a.bin"], ["a.bin"])
        step("cas", "assembler.py", ["src.asm", "--to_cas", "a.cas"], ["a.cas"])
        step("dsk", "assembler.py", ["src.asm", "--to_dsk", "a.dsk"], ["a.dsk"])
        step("named-all", "assembler.py",
             ["src.asm", "--name", "cliname", "--to_bin", "b.bin", "--to_cas", "b.cas", "--to_dsk", "b.dsk"],
             ["b.bin", "b.cas", "b.dsk"])
        step("again-no-append", "assembler.py",
             ["src.asm", "--name", "cliname", "--to_bin", "b.bin", "--to_cas", "b.cas", "--to_dsk", "b.dsk"],
             ["b.bin", "b.cas", "b.dsk"])
        step("again-append", "assembler.py",
             ["src.asm", "--name", "second", "--append", "--to_bin", "b.bin", "--to_cas", "b.cas",
              "--to_dsk", "b.dsk"],
             ["b.bin", "b.cas", "b.dsk"])
        step("cross-type", "assembler.py", ["src.asm", "--name", "x", "--append", "--to_cas", "b.dsk"], ["b.dsk"])
        for image in ("a.cas", "a.dsk", "b.cas", "b.dsk", "b.bin"):
            step("list-" + image, "file_util.py", [image, "--list"], [])
    return results

# ---------------------------------------------------------- shared disk cases

def disk_cases(tree, work):
    import random
    from cocoasm.virtualfiles.disk import (DiskFile, DiskConstants, MLPreamble, BasicPreamble, ASCIIPreamble, Postamble)
    from cocoasm.virtualfiles.coco_file import CoCoFile
    from cocoasm.virtualfiles.virtual_file import VirtualFile, VirtualFileType
    from cocoasm.virtualfiles.source_file import SourceFile, SourceFileType
    from cocoasm.values import NumericValue, NoneValue

    results = []

    def record(name, value):
        results.append((name, value))

    def pattern(count, seed=1):
        return [(index * seed + index // 251 + seed) & 0xFF for index in range(count)]

    def coco(name, size, kind=2, data_type=0, extension="BIN", seed=1):
        return CoCoFile(name=name, extension=extension, type=NumericValue(kind), data_type=NumericValue(data_type),
                        load_addr=NumericValue(0x2000), exec_addr=NumericValue(0x2002), data=pattern(size, seed))

    def summary(disk):
        buffer = disk.get_buffer()
        fat = list(buffer[DiskConstants.FAT_OFFSET:DiskConstants.FAT_OFFSET + 68])
        directory = [list(buffer[DiskConstants.DIR_OFFSET + 32 * n:DiskConstants.DIR_OFFSET + 32 * n + 16]) for n in range(72)]
        return {"fat": fat, "directory": [entry for entry in directory if entry[0] not in (0x00, 0xFF)],
                "free_granules": sum(1 for entry in fat if entry == 0xFF), "image": list(buffer)}

    def history(files, fill_order=None, listing=True):
        """Adds the files one by one; every outcome, and the state of the image at the end."""
        disk = DiskFile(granule_fill_order=fill_order) if fill_order is not None else DiskFile()
        outcomes = []
        for item in files:
            try:
                outcomes.append(["added", disk.add_file(item)])
            except Exception as error:
                outcomes.append([type(error).__name__, str(error)])
            outcomes[-1].append(sum(1 for n in range(68) if disk.buffer[DiskConstants.FAT_OFFSET + n] == 0xFF))
        facts = {"outcomes": outcomes, "state": summary(disk)}
        if listing:
            facts["listed"] = attempt(lambda: [(f.name, f.extension, len(f.data), f.type.int, f.data_type.int, f.load_addr.hex(),
                                                f.exec_addr.hex(), f.data == files[i].data if i < len(files) else None)
                                               for i, f in enumerate(DiskFile(buffer=list(disk.get_buffer())).list_files())])
        return facts

    shuffled = list(DiskConstants.GRANULE_FILL_ORDER)
    random.Random(15).shuffle(shuffled)
    orders = {"default": None, "ascending": list(range(68)), "descending": list(range(67, -1, -1)), "shuffled": shuffled,
              "short": list(range(40)), "long": list(range(68)) + [0, 1], "repeats": [5] * 68, "with-bad": [70] + list(range(68)),
              "empty": []}

    record("history/many-small", attempt(history, [coco("S{}".format(n), 1 + n % 7, seed=n + 1) for n in range(75)]))
    record("history/with-empty-files", attempt(history, [coco("Z{}".format(n), n % 3, seed=n + 1) for n in range(10)]))
    record("history/one-granule-each", attempt(history, [coco("G{}".format(n), 2000 + n, seed=n + 1) for n in range(72)]))
    record("history/few-large", attempt(history, [coco("L{}".format(n), 2304 * 11 + n * 100, seed=n + 3) for n in range(8)]))
    record("history/whole-disk", attempt(history, [coco("ALL", 2304 * 68 - 10)]))
    record("history/whole-disk-exact", attempt(history, [coco("ALL", 2304 * 68 - 11)]))
    record("history/large-until-full", attempt(history, [coco("B{}".format(n), 60000 - n, seed=n + 1) for n in range(4)] + [coco("TAIL", 2304 * 13), coco("T2", 5)]))
    record("history/too-big", attempt(history, [coco("HUGE", 2304 * 68), coco("AFTER", 10)]))
    record("history/mixture", attempt(history, [coco("M{}".format(n), (n * 977) % 9000, kind=n % 3, data_type=0xFF if n % 4 == 0 else 0,
                                                     extension=("BIN", "BAS", "DAT")[n % 3], seed=n + 1) for n in range(60)]))
    record("history/fill-then-small", attempt(history, [coco("BIG", 2304 * 67 - 10)] + [coco("T{}".format(n), 1) for n in range(3)]))
    for edge in (2293, 2294, 2295, 2304, 4597, 4598, 4599, 2304 * 3 - 10):
        for kind, data_type in ((2, 0), (0, 0), (0, 0xFF), (1, 0xFF)):
            record("history/edge/{}/{}-{}".format(edge, kind, data_type),
                   attempt(history, [coco("E", edge, kind=kind, data_type=data_type), coco("NEXT", 5, kind=kind, data_type=data_type)]))
    for name, order in orders.items():
        files = [coco("O{}".format(n), 2304 * (n % 5) + 100, seed=n + 1) for n in range(30)]
        record("history/order/" + name, attempt(history, files, order))
    record("history/odd-names", attempt(history, [coco(name, 10) for name in ("", "lower", "EXACTLY8", "MORETHANEIGHT", "SP ACE", "\x00NUL", "A.B")]))

    # the finders and predicates on a half full disk
    def half_full():
        disk = DiskFile()
        disk.add_files([coco("H{}".format(n), 2304 * (n % 3) + 50) for n in range(20)])
        return disk
    half_full_disk = half_full()
    for number in list(range(-2, 75)) + [100, 255, None, "1", 1.5, True]:
        record("probe/entry/{!r}".format(number), attempt(half_full_disk.directory_entry_in_use, number))
        record("probe/granule/{!r}".format(number), attempt(half_full_disk.granule_in_use, number))
    record("probe/find_empty_directory_entry", attempt(half_full_disk.find_empty_directory_entry))
    record("probe/find_empty_granule", attempt(half_full_disk.find_empty_granule))
    record("probe/empty-disk", attempt(lambda: (DiskFile().find_empty_directory_entry(), DiskFile().find_empty_granule(),
                                                len(DiskFile().get_buffer()), DiskFile().granule_fill_order == DiskConstants.GRANULE_FILL_ORDER)))
    for name, order in orders.items():
        record("probe/fill-order/" + name, attempt(lambda: (DiskFile(granule_fill_order=order).granule_fill_order,
                                                            DiskFile(granule_fill_order=order).find_empty_granule())))
    for given in (None, [], [1, 2, 3], b"", b"\x00" * 10, [0xFF] * 161280, tuple([0] * 161280)):
        def construct():
            disk = DiskFile(buffer=given)
            return len(disk.get_buffer()), type(disk.get_buffer()).__name__, disk.get_buffer() is given, attempt(disk.list_files)
        record("probe/construct/{}".format(repr(given)[:30]), attempt(construct))

    # the arithmetic
    amble_sets = {"ml": (MLPreamble(), Postamble()), "basic": (BasicPreamble(), None), "ascii": (ASCIIPreamble(), None)}
    lengths = sorted(set([0, 1, 245, 246, 250, 251, 252, 255, 256, 257] + [2304 * k + d for k in (1, 2, 3, 9, 67, 68) for d in range(-12, 3)]))
    for label, (preamble, postamble) in amble_sets.items():
        for length in lengths:
            data = [0] * length
            record("math/{}/{}".format(label, length),
                   attempt(lambda: (DiskFile.calculate_granules_needed(data, preamble, postamble),
                                    DiskFile.calculate_last_sector_bytes_used(data, preamble, postamble),
                                    DiskFile.calculate_last_granules_sectors_used(data, preamble, postamble))))
    for length in list(range(-3, 4)) + [255, 256, 257, 2303, 2304, 2305, 65535, 1.5, 256.0, None, "x"]:
        record("math/sectors/{!r}".format(length), attempt(DiskFile.calculate_sectors_needed, length))
    for granule in list(range(-1, 70)) + [255, None]:
        record("math/seek/{!r}".format(granule), attempt(DiskFile.seek_granule, granule))
    fats = {
        "single": [0xC1] + [0xFF] * 255, "single-full": [0xC9] + [0xFF] * 255, "zero-sectors": [0xC0] + [0xFF] * 255,
        "chain": [1, 2, 0xC3] + [0xFF] * 253, "backwards": [0xC5, 0, 1] + [0xFF] * 253, "high-bits": [0xDF] + [0xFF] * 255,
        "eight-bits": [0xFF] * 256, "to-free": [1, 0xFF] + [0xFF] * 254, "one-bit": [0x80, 0x40, 0xC2] + [0] * 125 + [0xC4] + [0] * 127,
        "short": [3, 0xC1], "bytes": bytes([2, 0xC1, 1] + [0xFF] * 253), "wide": [300] + [0xC1] * 400,
    }
    for name, fat in fats.items():
        for granule in (0, 1, 2, 67, 255, -1):
            for last in (0, 1, 255, 256, -1):
                record("math/file_length/{}/{}/{}".format(name, granule, last), attempt(DiskFile.calculate_file_length, granule, fat, last))
    record("math/file_length/bad-last", attempt(DiskFile.calculate_file_length, 0, fats["single"], "x"))
    record("math/file_length/none-last", attempt(DiskFile.calculate_file_length, 0, fats["chain"], None))

    # damaged directory / FAT of a real image, read back
    def damaged(changes):
        disk = DiskFile()
        disk.add_files([coco("FIRST", 100), coco("SECOND", 5000, kind=0, data_type=0xFF, extension="TXT"), coco("THIRD", 2400, kind=0)])
        image = list(disk.get_buffer())
        for offset, value in changes:
            image[offset] = value
        found = DiskFile(buffer=image).list_files()
        return [(f.name, f.extension, len(f.data), f.type.int, f.data_type.int) for f in found]
    fat0, dir0 = 78592, 78848
    for changes in ([], [(dir0, 0x00)], [(dir0, 0xFF)], [(dir0 + 32, 0x00)], [(dir0 + 13, 0x21)], [(dir0 + 13, 0xFF)], [(dir0 + 32 + 13, 0x05)],
                    [(dir0 + 32 + 14, 0x01)], [(dir0 + 32 + 15, 0x00)], [(fat0 + 32, 0xC1)], [(fat0 + 33, 0xC9)], [(fat0 + 33, 34)],
                    [(fat0 + 33, 0xC0)], [(fat0 + 34, 0x44)], [(dir0 + 11, 0x02)], [(dir0 + 32 + 12, 0x00)], [(dir0 + 64 + 11, 0x03)],
                    [(dir0 + 2272, 0x41)], [(dir0 + 2304, 0x41)]):
        record("damaged/{}".format([(offset - dir0 if offset >= dir0 else offset - fat0, value) for offset, value in changes]),
               attempt(damaged, changes))

    # through VirtualFile: a failing save leaves the host file as it was
    def saved(files, target, append):
        virtual = VirtualFile(SourceFile(target, file_type=SourceFileType.BINARY), VirtualFileType.DISK)
        try:
            virtual.open_virtual_file()
            for item in files:
                virtual.add_coco_file(item)
            outcome = ["saved", virtual.save_virtual_file(append_mode=append)]
        except Exception as error:
            outcome = [type(error).__name__, str(error)]
        return outcome, file_state(target)
    target = os.path.join(work, "virtual.dsk")
    record("virtual/new", attempt(saved, [coco("V{}".format(n), 3000 * n + 100) for n in range(5)], target, False))
    record("virtual/refuse", attempt(saved, [coco("NO", 5)], target, False))
    record("virtual/append", attempt(saved, [coco("W{}".format(n), 20000) for n in range(4)], target, True))
    record("virtual/append-too-big", attempt(saved, [coco("X", 60000)], target, True))
    record("virtual/append-too-many", attempt(saved, [coco("Y{}".format(n), 1) for n in range(70)], target, True))
    record("virtual/append-fits", attempt(saved, [coco("Z", 2304 * 10)], target, True))
    record("virtual/fresh-too-big", attempt(saved, [coco("X", 2304 * 68)], os.path.join(work, "never.dsk"), False))

    # command line
    results.extend(cli_suite(tree, work, wanted=("hello", "longname", "multi", "noname", "block256")))
    folder = os.path.join(work, "copy")
    os.makedirs(folder)
    source = DiskFile()
    source.add_files([coco("DISKA", 3000), coco("DISKB", 10, kind=0, extension="BAS"), coco("DISKC", 2295), coco("DISKD", 30000)])
    write_bytes(os.path.join(folder, "src.dsk"), source.get_buffer())
    from cocoasm.virtualfiles.cassette import CassetteFile
    tape = CassetteFile()
    tape.add_files([coco("TAPE{}".format(n), 700 * n + 1) for n in range(6)])
    write_bytes(os.path.join(folder, "src.cas"), tape.get_buffer())
    steps = [("dsk-to-dsk", ["src.dsk", "--to_dsk", "d1.dsk"]), ("cas-to-dsk", ["src.cas", "--to_dsk", "d2.dsk"]),
             ("append", ["src.cas", "--to_dsk", "d1.dsk", "--append"]), ("some", ["src.dsk", "--to_dsk", "d3.dsk", "--files", "diskd", "DISKA"]),
             ("refuse", ["src.dsk", "--to_dsk", "d2.dsk"])]
    steps += [("fill-{}".format(n), ["src.dsk", "--to_dsk", "d1.dsk", "--append", "--files", "DISKD"]) for n in range(5)]
    steps += [("list-d1", ["d1.dsk", "--list"]), ("list-d2", ["d2.dsk", "--list"]), ("list-d3", ["d3.dsk", "--list"]),
              ("to-bin-many", ["d1.dsk", "--to_bin", "many.bin"]), ("to-bin-one", ["d3.dsk", "--to_bin", "one.bin", "--files", "DISKA"])]
    for label, arguments in steps:
        outcome = run_cli(tree, "file_util.py", arguments, folder)
        outcome["files"] = {name: file_state(os.path.join(folder, name)) for name in ("d1.dsk", "d2.dsk", "d3.dsk", "many.bin", "one.bin")}
        results.append(("file_util/" + label, outcome))
    return results

MINIMUM_CASES = 30


def cases(tree, work):
    from cocoasm.virtualfiles.disk import DiskFile, DiskConstants, MLPreamble, BasicPreamble, ASCIIPreamble
    from cocoasm.virtualfiles.coco_file import CoCoFile
    from cocoasm.values import NumericValue

    results = disk_cases(tree, work)

    text = [0x41, 0x42, 0x43, 0x20, 0xC3, 0xA9, 0x00, 0xFF, 0x7F, 0x80]
    for buffer_name, buffer in (("list", text), ("bytes", bytes(text)), ("bytearray", bytearray(text)), ("empty", []), ("odd", [65, "B", None, 300, -1])):
        for pointer in (0, 1, 3, 4, 5, 8, 9, 10, 11, -1, -3, -10, -11, None, "0"):
            for length in (0, 1, 2, 3, 5, 10, 11, -1, None):
                for decode in (False, True):
                    def sequence():
                        disk = DiskFile(buffer=buffer)
                        return disk.read_sequence(pointer, length, decode=decode)
                    results.append(("read_sequence/{}/{!r}/{!r}/{}".format(buffer_name, pointer, length, decode), attempt(sequence)))
        for pointer in (0, 1, 4, 8, 9, 10, -1, -2, None):
            for expected in ([], [0x41], [0x41, 0x42], [0x42, 0x43], [0xC3, 0xA9, 0x00], [0x7F, 0x80], [0x80], [0x80, 0x00], (0x41, 0x42), b"AB", "AB",
                             [0x41, 0x99], [None], [65.0], [1], None, 5):
                def validate():
                    disk = DiskFile(buffer=buffer)
                    return disk.validate_sequence(pointer, expected)
                results.append(("validate_sequence/{}/{!r}/{!r}".format(buffer_name, pointer, expected), attempt(validate)))

    # read_data over a hand made four granule buffer with its own FAT
    half = DiskConstants.HALF_TRACK_LEN
    image = [(n * 13 + n // half) & 0xFF for n in range(half * 4 + 100)]
    fats = {"forward": [1, 2, 3, 0xC1] + [0xFF] * 252, "backward": [0xC1, 0, 1, 2] + [0xFF] * 252, "loop-two": [1, 0] + [0xFF] * 254,
            "outside": [60, 0xFF] + [0xFF] * 254, "short": [1], "bytes": bytes([2, 3, 1, 0xC9] + [0xFF] * 252)}
    preambles = {"none": None, "ml": MLPreamble(), "basic": BasicPreamble(), "ascii": ASCIIPreamble()}
    lengths = [0, 1, 5, half - 6, half - 5, half - 4, half - 3, half - 1, half, half + 1, 2 * half - 5, 2 * half - 4, 2 * half, 3 * half,
               4 * half - 5, 4 * half, 4 * half + 95, 4 * half + 100, 4 * half + 101, 5 * half, -1, -300, None]
    for fat_name, fat in fats.items():
        for preamble_name, preamble in preambles.items():
            for start in (0, 1, 3, 4, 5, -1):
                for length in lengths:
                    def data():
                        disk = DiskFile(buffer=list(image))
                        import sys
                        limit = sys.getrecursionlimit()
                        sys.setrecursionlimit(300)
                        try:
                            found, pointer = disk.read_data(start, fat, preamble, data_length=length) if length is not None \
                                else disk.read_data(start, fat, preamble)
                        finally:
                            sys.setrecursionlimit(limit)
                        return found, pointer
                    results.append(("read_data/{}/{}/{}/{!r}".format(fat_name, preamble_name, start, length), attempt(data)))

    # files of every interesting length written and read back, each kind of preamble
    def round_trip(size, kind, data_type, fill_order):
        payload = [(n * 7 + n // 255) & 0xFF for n in range(size)]
        item = CoCoFile(name="RT", extension="BIN", type=NumericValue(kind), data_type=NumericValue(data_type),
                        load_addr=NumericValue(0x1200), exec_addr=NumericValue(0x1234), data=payload)
        disk = DiskFile(granule_fill_order=fill_order)
        disk.add_file(CoCoFile(name="PAD", extension="BIN", type=NumericValue(2), data_type=NumericValue(0),
                               load_addr=NumericValue(1), exec_addr=NumericValue(2), data=[5] * 3000))
        disk.add_file(item)
        found = DiskFile(buffer=list(disk.get_buffer())).list_files()
        return [(f.name, len(f.data), f.data == payload, f.load_addr.hex(), f.exec_addr.hex()) for f in found]
    sizes = [1, 2, 250, 2293, 2294, 2295, 2298, 2299, 2300, 2301, 2304, 2305, 4597, 4598, 4599, 4603, 4604, 4608, 6907, 11520, 23040, 60000]
    for size in sizes:
        for kind, data_type in ((2, 0), (0, 0), (0, 0xFF), (1, 0xFF), (1, 0)):
            for order_name, order in (("default", None), ("descending", list(range(67, -1, -1)))):
                results.append(("round-trip/{}/{}-{}/{}".format(size, kind, data_type, order_name),
                                attempt(round_trip, size, kind, data_type, order)))
    return results


# ------------------------------------------------------------- comparison side

def driver(tree):
    tree = os.path.abspath(tree)
    sys.path.insert(0, tree)
    sys.dont_write_bytecode = True
    work = tempfile.mkdtemp(prefix="equiv_")
    previous = os.getcwd()
    os.chdir(work)
    try:
        results = cases(tree, work)
    finally:
        os.chdir(previous)
        shutil.rmtree(work, ignore_errors=True)
    text = json.dumps(results, sort_keys=True)
    sys.stdout.write(text.replace(work, "<WORK>").replace(tree, "<TREE>"))


def run_tree(tree):
    env = dict(os.environ, PYTHONDONTWRITEBYTECODE="1")
    env.pop("PYTHONPATH", None)
    done = subprocess.run([sys.executable, "-B", HERE, "--driver", os.path.abspath(tree)],
                          cwd=os.path.abspath(tree), env=env, stdout=subprocess.PIPE, stderr=subprocess.PIPE)
    if done.returncode != 0:
        sys.stderr.write(done.stderr.decode("utf-8", "replace"))
        raise SystemExit("driver failed for {}".format(tree))
    return json.loads(done.stdout.decode("utf-8"))


def main():
    if len(sys.argv) == 3 and sys.argv[1] == "--driver":
        driver(sys.argv[2])
        return 0
    if len(sys.argv) != 3:
        print("usage: equiv.py <treeA> <treeB>")
        return 2
    first, second = run_tree(sys.argv[1]), run_tree(sys.argv[2])
    names = [name for name, _ in first]
    if names != [name for name, _ in second]:
        print("DIFFERENT case lists")
        return 1
    if len(names) < MINIMUM_CASES:
        print("too few cases: {}".format(len(names)))
        return 1
    failures = 0
    for (name, left), (_, right) in zip(first, second):
        if left != right:
            failures += 1
            print("DIFFER {}\n  A: {}\n  B: {}".format(name, json.dumps(left)[:600], json.dumps(right)[:600]))
    print("{} cases compared, {} differ".format(len(names), failures))
    return 1 if failures else 0


if __name__ == "__main__":
    sys.exit(main())
