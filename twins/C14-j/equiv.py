#!/usr/bin/env python
"""
Differential check for refactoring C14/j: CassetteFile.append_data_blocks() fed from an iterator with a countdown of the bytes left (append_blocks_from).

usage: equiv.py <treeA> <treeB>   (exit 0 = every observable result agrees)
Each tree is exercised in its own subprocess with the tree first on sys.path.
"""
import sys, os, json, subprocess, tempfile

PRELUDE = r'''
# ---- driver prelude: runs inside ONE tree (argv[1]) with a scratch dir (argv[2]) ----
import sys, os, io, json, hashlib, contextlib, importlib, shutil, traceback

TREE = os.path.realpath(sys.argv[1])
SCRATCH = os.path.realpath(sys.argv[2])
sys.path.insert(0, TREE)
os.chdir(TREE)

import cocoasm
assert os.path.realpath(cocoasm.__file__).startswith(TREE + os.sep), cocoasm.__file__

RESULTS = []
_case_no = [0]


def norm(value):
    """Turns any result into something JSON can carry, without losing what is observable."""
    if isinstance(value, (bytes, bytearray)):
        return {"bytes": bytes(value).hex()}
    if isinstance(value, (list, tuple)):
        if len(value) > 64 and all(isinstance(x, int) and not isinstance(x, bool) for x in value):
            blob = ",".join(str(x) for x in value).encode()
            return {"ints": len(value), "sha1": hashlib.sha1(blob).hexdigest()}
        return [norm(x) for x in value]
    if isinstance(value, dict):
        return {str(k): norm(v) for k, v in value.items()}
    if value is None or isinstance(value, (bool, int, float, str)):
        return value
    if hasattr(value, "_asdict"):
        return {"nt": type(value).__name__, "fields": norm(value._asdict())}
    if hasattr(value, "hex") and hasattr(value, "hex_len"):
        try:
            return {"value": type(value).__name__, "hex": value.hex(), "int": getattr(value, "int", None)}
        except Exception as error:      # noqa
            return {"value": type(value).__name__, "hex_error": repr(error)}
    return {"repr": type(value).__name__ + ":" + str(value)}


def snapshot(directory):
    files = {}
    for root, _, names in os.walk(directory):
        for name in sorted(names):
            path = os.path.join(root, name)
            with open(path, "rb") as handle:
                blob = handle.read()
            files[os.path.relpath(path, directory)] = [len(blob), hashlib.sha1(blob).hexdigest()]
    return files


def case(name, fn, workdir=None):
    """Runs fn(), records value / exception / stdout / stderr / files left in workdir."""
    out, err = io.StringIO(), io.StringIO()
    record = {"name": name}
    old_cwd = os.getcwd()
    if workdir:
        os.chdir(workdir)
    try:
        with contextlib.redirect_stdout(out), contextlib.redirect_stderr(err):
            try:
                record["value"] = norm(fn())
            except SystemExit as error:
                record["exit"] = norm(error.code)
            except BaseException as error:      # noqa
                record["exc"] = [type(error).__name__, str(error)]
    finally:
        os.chdir(old_cwd)
    record["stdout"] = out.getvalue()
    record["stderr"] = err.getvalue()
    if workdir:
        record["files"] = snapshot(workdir)
    RESULTS.append(record)
    return record


def fresh_dir(files=None):
    _case_no[0] += 1
    path = os.path.join(SCRATCH, "c%04d" % _case_no[0])
    os.makedirs(path)
    for name, content in (files or {}).items():
        mode = "wb" if isinstance(content, (bytes, bytearray)) else "w"
        os.makedirs(os.path.dirname(os.path.join(path, name)), exist_ok=True)
        with open(os.path.join(path, name), mode) as handle:
            handle.write(content)
    return path


def cli(module_name, argv):
    """Runs a command-line front end the way `python module.py argv...` would."""
    def run():
        module = importlib.import_module(module_name)
        assert os.path.realpath(module.__file__).startswith(TREE + os.sep)
        old = sys.argv
        sys.argv = [module_name + ".py"] + list(argv)
        try:
            module.main(module.parse_arguments())
        finally:
            sys.argv = old
    return run


def cli_case(name, module_name, argv, files=None, workdir=None, then=()):
    """One CLI run in a fresh (or given) directory, optionally followed by more runs in the same directory."""
    workdir = workdir or fresh_dir(files)
    case(name, cli(module_name, argv), workdir)
    for index, (module2, argv2) in enumerate(then):
        case("%s/then%d" % (name, index), cli(module2, argv2), workdir)
    return workdir


def finish():
    json.dump(RESULTS, sys.stdout)
    sys.stdout.write("\n")
# ---- end of prelude ----
'''

CASES = r'''# ---- shared C14 helpers: run a writer call on a CassetteFile and report the result AND the buffer, also after a failure ----
from cocoasm.virtualfiles.cassette import CassetteFile
from cocoasm.virtualfiles.coco_file import CoCoFile
from cocoasm.virtualfiles.virtual_file import VirtualFile, VirtualFileType
from cocoasm.virtualfiles.source_file import SourceFile, SourceFileType
from cocoasm.values import NumericValue, NoneValue, AddressValue


def safe(value):
    """Buffer contents can be anything once bad data has been fed in."""
    if isinstance(value, (list, tuple)):
        return [safe(x) for x in value]
    if value is None or isinstance(value, (bool, int, str)):
        return value if not isinstance(value, bool) else {"bool": value}
    if isinstance(value, float):
        return {"float": repr(value)}
    return {"repr": type(value).__name__ + ":" + repr(value)[:60]}


def digest(buffer):
    items = safe(list(buffer))
    if len(items) > 80 and all(isinstance(x, int) for x in items):
        return {"ints": len(items), "sha1": hashlib.sha1(",".join(map(str, items)).encode()).hexdigest(), "head": items[:24], "tail": items[-12:]}
    return items


def tape_op(operation, start=None):
    """operation(cassette) -> anything. Reports its value or exception together with the buffer it leaves behind."""
    def run():
        cassette = CassetteFile(buffer=list(start)) if start else CassetteFile()
        out = {}
        try:
            out["returned"] = safe(operation(cassette))
        except BaseException as error:      # noqa
            out["raised"] = [type(error).__name__, str(error)]
        out["buffer"] = digest(cassette.get_buffer())
        out["same_buffer_object"] = cassette.get_buffer() is cassette.buffer
        return out
    return run


def pattern(size, seed=7):
    return [(seed * i + 3) % 256 for i in range(size)]


def ml_file(size, name="PROGRAM", load=0x0E00, execute=0x0E10, seed=7, **extra):
    fields = dict(name=name, extension="BIN", type=NumericValue(2), data_type=NumericValue(0),
                  load_addr=NumericValue(load), exec_addr=NumericValue(execute), data=pattern(size, seed))
    fields.update(extra)
    return CoCoFile(**fields)


def basic_file(size, name="BASIC", ascii_flag=0x00, seed=5):
    return CoCoFile(name=name, extension="BAS", type=NumericValue(0), data_type=NumericValue(ascii_flag), data=pattern(size, seed))


SIZES = [0, 1, 2, 127, 128, 253, 254, 255, 256, 257, 509, 510, 511, 512, 764, 765, 766, 1000, 1020, 4096, 65535, 70125]


def asm_program(size, name="prog", origin="$0E00"):
    lines = []
    if name is not None:
        lines.append("        NAM %s\n" % name)
    if origin is not None:
        lines.append("        ORG %s\n" % origin)
    lines.append("START   LDA #$01\n")
    left, value = size - 2, 0
    while left > 0:
        chunk = min(left, 40)
        lines.append("        FCB %s\n" % ",".join(str((value + i) % 251) for i in range(chunk)))
        value += chunk
        left -= chunk
    lines.append("        END START\n")
    return "".join(lines)
# ---- end of shared C14 helpers ----
# ---- cases for C14/j: CassetteFile.append_data_blocks() over an iterator and a countdown (append_blocks_from) ----
for size in SIZES:
    case("blocks list %d" % size, tape_op(lambda c, size=size: c.append_data_blocks(pattern(size))))
    case("blocks list %d gaps" % size, tape_op(lambda c, size=size: c.append_data_blocks(pattern(size), gaps=True)))
    case("blocks list %d gaps positional" % size, tape_op(lambda c, size=size: c.append_data_blocks(pattern(size), True)))
    case("add_file ml %d" % size, tape_op(lambda c, size=size: c.add_file(ml_file(size))))
for size in [0, 1, 254, 255, 256, 510, 600]:
    case("blocks bytes %d" % size, tape_op(lambda c, size=size: c.append_data_blocks(bytes(pattern(size)), gaps=True)))
    case("blocks bytearray %d" % size, tape_op(lambda c, size=size: c.append_data_blocks(bytearray(pattern(size)))))
    case("blocks tuple %d" % size, tape_op(lambda c, size=size: c.append_data_blocks(tuple(pattern(size)), gaps=True)))
    case("blocks range %d" % size, tape_op(lambda c, size=size: c.append_data_blocks(range(size))))
    case("blocks onto existing tape %d" % size, tape_op(lambda c, size=size: c.append_data_blocks(pattern(size)), start=[1, 2, 3]))
    case("add_file basic %d" % size, tape_op(lambda c, size=size: c.add_file(basic_file(size))))
    case("add_file ascii %d" % size, tape_op(lambda c, size=size: c.add_file(basic_file(size, "TEXT", 0xFF))))

# values that are not bytes
for size, position in [(1, 0), (10, 0), (10, 5), (10, 9), (254, 253), (255, 0), (255, 254), (256, 255), (300, 254), (300, 255), (300, 299), (600, 510), (600, 599)]:
    for label, bad in [("str", "A"), ("none", None), ("float", 1.5), ("big", 300), ("huge", 70000), ("negative", -1), ("bool", True), ("list", [1])]:
        def poisoned(c, size=size, position=position, bad=bad):
            data = pattern(size)
            data[position] = bad
            return c.append_data_blocks(data, gaps=True)
        case("blocks %s at %d of %d" % (label, position, size), tape_op(poisoned))

# things that are not byte sequences
case("blocks None", tape_op(lambda c: c.append_data_blocks(None)))
case("blocks int", tape_op(lambda c: c.append_data_blocks(5)))
case("blocks str", tape_op(lambda c: c.append_data_blocks("ABC")))
case("blocks long str", tape_op(lambda c: c.append_data_blocks("A" * 300)))
case("blocks generator", tape_op(lambda c: c.append_data_blocks(x for x in [1, 2, 3])))
case("blocks empty tuple", tape_op(lambda c: c.append_data_blocks(())))
case("blocks empty bytes", tape_op(lambda c: c.append_data_blocks(b"")))
case("blocks nested lists", tape_op(lambda c: c.append_data_blocks([[1], [2]])))
case("blocks missing argument", tape_op(lambda c: c.append_data_blocks()))
case("blocks gaps truthy string", tape_op(lambda c: c.append_data_blocks(pattern(600), gaps="yes")))
case("blocks gaps zero", tape_op(lambda c: c.append_data_blocks(pattern(600), gaps=0)))


def same_list_reused(c):
    data = pattern(300)
    c.append_data_blocks(data)
    c.append_data_blocks(data, gaps=True)
    return data == pattern(300)


case("blocks input list untouched", tape_op(same_list_reused))


def self_feeding(c):
    c.append_data_blocks(pattern(20))
    return c.append_data_blocks(list(c.buffer))


case("blocks from a copy of the buffer", tape_op(self_feeding))

# several files, then what the tool's own reader makes of them
for label, files in [
    ("three", [ml_file(10, "ALPHA"), ml_file(700, "BETA", 0x3F00, 0x3F01, 11), basic_file(255, "GAMMA")]),
    ("boundaries", [ml_file(size, "S%d" % size) for size in (254, 255, 256, 510, 511)]),
    ("empty first", [ml_file(0, "EMPTY"), ml_file(5, "AFTER")]),
    ("none", []),
]:
    def tape(c, files=files):
        c.add_files(files)
        listed = CassetteFile(buffer=list(c.get_buffer())).list_files()
        return [[f.name, f.extension, f.type.hex(), f.data_type.hex(), f.gaps.hex(), f.load_addr.hex(), f.exec_addr.hex(), len(f.data),
                 hashlib.sha1(bytes(f.data)).hexdigest()] for f in listed]
    case("tape " + label, tape_op(tape))

# end to end
for size in [2, 255, 256, 511, 1000, 5000]:
    cli_case("cli cas %d" % size, "assembler", ["p.asm", "--to_cas", "p.cas"], files={"p.asm": asm_program(size)},
             then=[("file_util", ["p.cas", "--list"]), ("assembler", ["p.asm", "--to_cas", "p.cas", "--append"]), ("file_util", ["p.cas", "--list"]),
                   ("file_util", ["p.cas", "--to_cas", "copy.cas"]), ("file_util", ["p.cas", "--to_dsk", "copy.dsk"]), ("file_util", ["copy.dsk", "--to_cas", "back.cas"])])
'''


def run_tree(tree):
    tree = os.path.realpath(tree)
    with tempfile.TemporaryDirectory(prefix="equiv_") as tmp:
        driver = os.path.join(tmp, "driver.py")
        with open(driver, "w") as handle:
            handle.write(PRELUDE + "\n" + CASES + "\nfinish()\n")
        scratch = os.path.join(tmp, "scratch")
        os.mkdir(scratch)
        env = dict(os.environ, PYTHONDONTWRITEBYTECODE="1", PYTHONHASHSEED="0")
        env.pop("PYTHONPATH", None)
        proc = subprocess.run(
            [sys.executable, "-B", driver, tree, scratch],
            cwd=tree, env=env, capture_output=True, text=True,
        )
        if proc.returncode != 0:
            print("driver failed in", tree)
            print(proc.stderr[-4000:])
            sys.exit(2)
        return json.loads(proc.stdout.splitlines()[-1])


def main():
    if len(sys.argv) != 3:
        print("usage: equiv.py <treeA> <treeB>")
        sys.exit(2)
    res_a = run_tree(sys.argv[1])
    res_b = run_tree(sys.argv[2])
    bad = 0
    if [r["name"] for r in res_a] != [r["name"] for r in res_b]:
        print("case lists differ")
        bad += 1
    for rec_a, rec_b in zip(res_a, res_b):
        if rec_a != rec_b:
            bad += 1
            print("DIFF in case", rec_a["name"])
            for key in sorted(set(rec_a) | set(rec_b)):
                if rec_a.get(key) != rec_b.get(key):
                    print("   ", key, ":", repr(rec_a.get(key))[:300], "!=", repr(rec_b.get(key))[:300])
    errors = sum(1 for r in res_a if "exc" in r or "exit" in r)
    print("%d cases compared (%d of them end in an exception/exit), %d differ" % (len(res_a), errors, bad))
    sys.exit(1 if bad else 0)


if __name__ == "__main__":
    main()
